------------------------------ MODULE ByteString ------------------------------
(* C03 - asl::String variables under in-place mutation.

   State: NV String variables, each a byte sequence (ByteStringOps.tla defines what every operation returns).
   One action per public in-place call, including the aliasing calls the property names explicitly: a string
   assigned from / appended with itself or a piece of itself (s = s, s = *s + k, s += s, s += *s + k, s = s + s,
   s = s.substring(..), s = s.replace(..)).  Storage (inline 16 bytes / heap, capacity) is not part of the model:
   the only trace of it is the ghost variable hw, the largest length a variable has reached or reserved (a hint of
   how large its buffer is - buffers grow and are not given back), whose class is kept in the VIEW so that TLC also
   reaches "short string in a buffer that has been large" states.  The large-jump exploration (MC_ByteStringBig.tla) aims its growth requests relative to hw:
   one call that asks for 1.5x, 2x, 3x .. the largest size so far, on both sides of the 1 KiB growth-policy switch.

   hist records the calls with their arguments; hz collects spec-level hazard tags of the history (used to match
   known findings).  The module is the oracle for both bindings:
     R  MC_ByteString_*.cfg : ACTION_CONSTRAINT Emit prints one JSON line per transition -> harness/c03_replay
     V  Trace_ByteString    : recorded executions of the real code are validated against the same actions.      *)
EXTENDS ByteStringOps, IntText, TLC, Json, FiniteSets

CONSTANTS NV,        \* variables are 1..NV
          Lens,      \* lengths of the literals used by the model checker
          Pieces,    \* offsets k tried for the "piece of itself" calls (besides 0, 1, len-1, len)
          Ints,      \* integers appended as decimal text
          MaxTotal,  \* no generated value is longer than this
          MaxOps,    \* bound on the history length
          KeepHist   \* TRUE: whole history (model checking / replay); FALSE: last call only (trace validation)

VARIABLES val, hw, hist, hz
vars == <<val, hw, hist, hz>>
Vars == 1..NV

\* literals: family 0 = letters, family 1 = blanks at both ends, commas inside (so that trim/split/replace have work)
Lit(n, fam) == IF fam = 0 THEN [i \in 1..n |-> 97 + ((i - 1) % 26)]
               ELSE [i \in 1..n |-> IF i = 1 \/ i = n THEN 32 ELSE IF i % 5 = 0 THEN 44 ELSE 65 + (i % 26)]
Lits == {Lit(n, f) : n \in Lens, f \in {0, 1}}
\* length classes: inline (< 16), first heap block (16..23), up to the first doubling (24..47), beyond; then the
\* lengths whose buffer (bytes + NUL) reaches 1 KiB (the growth-policy switch of resize()), 2 KiB, 4 KiB
Cls(n) == IF n < 16 THEN 0 ELSE IF n < 24 THEN 1 ELSE IF n < 48 THEN 2 ELSE IF n < 1023 THEN 3
          ELSE IF n < 2047 THEN 4 ELSE IF n < 4095 THEN 5 ELSE 6

Init == /\ val = [x \in Vars |-> <<>>]
        /\ hw = [x \in Vars |-> 0]
        /\ hist = <<>>
        /\ hz = {}

Log(rec, tags) == /\ hist' = IF KeepHist THEN Append(hist, rec) ELSE <<rec>>
                  /\ hz' = IF KeepHist THEN hz \cup tags ELSE tags
\* variable x gets the new value s2 through an in-place call
SetRoom(x, s2, room, rec, tags) ==
    /\ Len(s2) <= MaxTotal /\ room <= MaxTotal
    /\ val' = [val EXCEPT ![x] = s2]
    /\ hw' = [hw EXCEPT ![x] = IF room > @ THEN room ELSE @]
    /\ Log(rec, tags)
Set(x, s2, rec, tags) == SetRoom(x, s2, Len(s2), rec, tags)
V(x) == val[x]
N(x) == Len(val[x])
KSet(x) == ({0, 1, N(x) - 1, N(x)} \cup Pieces) \cap 0..N(x)

-------------------------------------------------------------------------------
(* assignment *)
AssignBytes(x, s) == Set(x, s, [op |-> "assign", x |-> x, s |-> s], {})                          \* x = "literal"
AssignVar(x, y) == Set(x, V(y), [op |-> "assignVar", x |-> x, y |-> y], {})                      \* x = y   (y = x allowed)
AssignPiece(x, k) == /\ k \in 0..N(x)                                                            \* x = *x + k
                     /\ Set(x, Sub(V(x), k, N(x)), [op |-> "assignPiece", x |-> x, k |-> k],
                            IF k > 0 /\ k < N(x) THEN {"AssignOverlap"} ELSE {})
AssignSubstring(x, y, i, j) == /\ 0 <= i /\ i <= j /\ j <= N(y)                                  \* x = y.substring(i, j)
                               /\ Set(x, Substring(V(y), i, j), [op |-> "assignSubstring", x |-> x, y |-> y, i |-> i, j |-> j], {})
AssignConcat(x, y, z) == Set(x, V(y) \o V(z), [op |-> "assignConcat", x |-> x, y |-> y, z |-> z], {})   \* x = y + z
AssignReplace(x, a, b) == /\ a # <<>>                                                            \* x = x.replace(a, b)
                          /\ Set(x, Replace(V(x), a, b), [op |-> "assignReplace", x |-> x, a |-> a, b |-> b], {})
(* append *)
AppendBytes(x, s) == Set(x, V(x) \o s, [op |-> "append", x |-> x, s |-> s], {})                   \* x += "literal"
AppendVar(x, y) == Set(x, V(x) \o V(y), [op |-> "appendVar", x |-> x, y |-> y],                   \* x += y  (y = x allowed)
                       IF x = y /\ N(x) > 0 THEN {"SelfAppend"} ELSE {})
AppendPiece(x, k) == /\ k \in 0..N(x)                                                            \* x += *x + k
                     /\ Set(x, V(x) \o Sub(V(x), k, N(x)), [op |-> "appendPiece", x |-> x, k |-> k],
                            IF k < N(x) THEN {"SelfAppend"} ELSE {})
AppendChar(x, c) == Set(x, Append(V(x), c), [op |-> "appendChar", x |-> x, c |-> c], {})          \* x += 'c'
AppendInt(x, n) == Set(x, V(x) \o SText(IF n < 0 THEN Neg(NatLimbs(0 - n, 2)) ELSE NatLimbs(n, 2)),        \* x << n  (|n| < 2^31)
                       [op |-> "appendInt", x |-> x, n |-> n], {})
(* one call that changes the length by a large amount (the arguments stay small in the history): the growth policy
   of resize() - doubling, or exactly the request when that is more; realloc instead of malloc+copy from 1 KiB on *)
AssignRepeat(x, c, n) == /\ n >= 0                                                                \* x = String::repeat(c, n)
                         /\ Set(x, Rep(c, n), [op |-> "assignRepeat", x |-> x, c |-> c, n |-> n], {})
AppendRepeat(x, c, n) == /\ n >= 0                                                                \* x += String::repeat(c, n)
                         /\ Set(x, V(x) \o Rep(c, n), [op |-> "appendRepeat", x |-> x, c |-> c, n |-> n], {})
AssignN(x, s, n) == /\ n \in 0..Len(s)                                                            \* x.assign(s, n): the first n bytes
                    /\ Set(x, Sub(s, 0, n), [op |-> "assignN", x |-> x, s |-> s, n |-> n], {})
AppendN(x, s, n) == /\ n \in 0..Len(s)                                                            \* x.append(s, n)
                    /\ Set(x, V(x) \o Sub(s, 0, n), [op |-> "appendN", x |-> x, s |-> s, n |-> n], {})
\* resize(n, true, false): room for n bytes, value and length unchanged
Reserve(x, n) == /\ n >= 0
                 /\ SetRoom(x, V(x), n, [op |-> "reserve", x |-> x, n |-> n], {})
(* other in-place calls *)
Trim(x) == Set(x, Trimmed(V(x)), [op |-> "trim", x |-> x], {})
ReplaceMe(x, a, b) == Set(x, ReplaceChar(V(x), a, b), [op |-> "replaceme", x |-> x, a |-> a, b |-> b], {})
\* resize(n): a prefix, or the old bytes followed by bytes the caller has to write (the driver writes c there)
Resize(x, n, c) == Set(x, IF n <= N(x) THEN Sub(V(x), 0, n) ELSE V(x) \o Rep(c, n - N(x)),
                       [op |-> "resize", x |-> x, n |-> n, c |-> c], {})
Clear(x) == Set(x, <<>>, [op |-> "clear", x |-> x], {})
\* the caller writes a NUL at offset k through data() and calls fix()
FixAt(x, k) == /\ k \in 0..N(x)
               /\ Set(x, Sub(V(x), 0, k), [op |-> "fixAt", x |-> x, k |-> k], {})
\* x = x.split(sep).join(sep): the property's identity, exercised through the real calls
SplitJoin(x, sep) == /\ sep # <<>>
                     /\ Set(x, Join(Split(V(x), sep), sep), [op |-> "splitJoin", x |-> x, a |-> sep], {})

-------------------------------------------------------------------------------
IntsA == {0, 0 - 7, 2147483647}                         \* (cfg files cannot spell negative numbers: Ints <- IntsA)
IntsB == {0, 9, 10, 0 - 7, 0 - 2147483647, 2147483647}
Seps == {<<44>>, <<32>>, <<98, 99>>}
Froms == {<<97>>, <<44>>, <<98, 99>>}
Tos == {<<>>, <<120, 121>>, <<48, 49, 50, 51, 52, 53, 54, 55, 56, 57>>}
SubIdx(y) == {0, 1, N(y) \div 2, N(y)} \cap 0..N(y)
Next == /\ Len(hist) < MaxOps
        /\ \/ \E x \in Vars, s \in Lits : AssignBytes(x, s) \/ AppendBytes(x, s)
           \/ \E x, y \in Vars : AssignVar(x, y) \/ AppendVar(x, y)
           \/ \E x \in Vars : \E k \in KSet(x) : AssignPiece(x, k) \/ AppendPiece(x, k) \/ FixAt(x, k)
           \/ \E x, y \in Vars : \E i, j \in SubIdx(y) : AssignSubstring(x, y, i, j)
           \/ \E x, y, z \in Vars : AssignConcat(x, y, z)
           \/ \E x \in Vars, a \in Froms, b \in Tos : AssignReplace(x, a, b)
           \/ \E x \in Vars : AppendChar(x, 122) \/ AppendChar(x, 32) \/ Trim(x) \/ Clear(x)
           \/ \E x \in Vars : ReplaceMe(x, 32, 95) \/ ReplaceMe(x, 98, 32)
           \/ \E x \in Vars, n \in Ints : AppendInt(x, n)
           \/ \E x \in Vars, n \in Lens : Resize(x, n, 113)
           \/ \E x \in Vars, sep \in Seps : SplitJoin(x, sep)
Spec == Init /\ [][Next]_vars

-------------------------------------------------------------------------------
(* properties of the specification itself *)
TypeOK == \A x \in Vars : \A i \in 1..N(x) : val[x][i] \in 1..255          \* no embedded NUL ever
\* a call through x leaves every other variable alone
Independence == [][(hist' # hist /\ hist' # <<>>) =>
                     \A y \in Vars : y # hist'[Len(hist')].x => val'[y] = val[y]]_vars
\* split-then-join is the identity; appending to itself doubles; assigning a piece yields a suffix
Identities == [][(hist' # hist /\ hist' # <<>>) =>
                   LET r == hist'[Len(hist')] IN
                   /\ r.op = "splitJoin" => val'[r.x] = val[r.x]
                   /\ (r.op = "appendVar" /\ r.x = r.y) => Len(val'[r.x]) = 2 * Len(val[r.x])
                   /\ r.op = "assignPiece" => val'[r.x] = SubSeq(val[r.x], r.k + 1, Len(val[r.x]))
                   /\ r.op = "assignVar" => val'[r.x] = val[r.y]]_vars
HwOK == \A x \in Vars : hw[x] >= N(x)

View == <<val, [x \in Vars |-> Cls(hw[x])], Len(hist), hz>>
BigView == <<val, hw, Len(hist), hz>>                    \* exact high-water length (MC_ByteStringBig)
Emit == PrintT(ToJson([hist |-> hist', exp |-> [x \in Vars |-> val'[x]], hz |-> hz',
                       cmp |-> IF NV >= 2 THEN Compare(val'[1], val'[2]) ELSE 0]))
===============================================================================
