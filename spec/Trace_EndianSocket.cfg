SPECIFICATION TraceSpec
CONSTANTS
 Native = "LITTLE"
 Plans <- TracePlans
 MaxCalls = 0
 Ahead = TRUE
 SetOrders = {}
 KeepHist = FALSE
INVARIANTS TypeOK Counts
PROPERTIES Exhaustion OrderOnlyLater
POSTCONDITION TraceAccepted
CHECK_DEADLOCK FALSE
