---------------------------- MODULE Trace_LogFile ----------------------------
(* V binding of X01 part "log": validates executions recorded from the real asl::Log (harness/x01_log_record.cpp)
   against the actions of LogFile.  One ndjson line per public call with, after the call, a summary of every file the
   execution uses read back from disk (s[f]: number of lines and bytes of the file and of its "-1" companion, and the
   projection of the last line); "check" events carry the projection of every line of every file and the number of
   directory entries that have none of the documented names.  The trace is accepted iff every line is a step of the
   corresponding LogFile action whose post-state is what the disk shows.

   "conc" events are free-running concurrent phases: th[t] is the sequence of log calls thread t made (program order,
   with seeded jitter, no other call in between), obs the current file and its companion read back after all threads
   were joined.  The phase is accepted iff TLC finds a linearization: an interleaving of the per-thread sequences that,
   run through LogCall one call at a time, produces exactly the observed lines in the observed order (so no line is
   torn or mixed with another, none is lost or duplicated, per-thread order is kept, filtered calls leave no line, and
   the rotation rule holds at every step); inst is the number of different objects Log::instance() returned to the
   threads (Singleton.h: exactly one).  The search is guided by the observation: the k-th written call of the
   interleaving must be the line that stands at the k-th place from the end of what the disk shows; calls that write
   nothing commute and are consumed lowest thread first.                                                           *)
EXTENDS LogFile, IOUtils

T == ndJsonDeserialize(IOEnv.TRACE)
VARIABLES l, pos, kw
tvars == <<vars, l, pos, kw>>

\* (no recursion over the trace: a long trace would overflow the Java stack)
ConcIdx == {i \in 1..Len(T) : T[i].op = "conc"}
ConcCalls == UNION {UNION {{<<i, t, j>> : j \in 1..Len(T[i].th[t])} : t \in 1..Len(T[i].th)} : i \in ConcIdx}
Total == Len(T) + Cardinality(ConcIdx) + Cardinality(ConcCalls)       \* one step per event, and per concurrent phase one to enter and one per call

TInit == Init /\ l = 1 /\ pos = <<>> /\ kw = 0

ObsLine(o) == [c |-> o.c, lb |-> o.lb, id |-> o.id, n |-> o.n]
LineOK(o) == o.ok = 1 /\ o.dl = DateLen
SameLines(obs, s) == /\ Len(obs) = Len(s)
                     /\ \A i \in 1..Len(s) : LineOK(obs[i]) /\ ObsLine(obs[i]) = s[i]

\* "written together with the current date and time": the date of a line lies between the harness' readings of the same
\* clock before and after the call (whole seconds; one second of slack for rounding)
DateOK(o, t0, t1) == t0 - 1 <= o.ts /\ o.ts <= t1 + 1

\* the summary after a call against the (primed) state
SumOK(s, fc, fo, z) ==
  /\ Len(s) = Cardinality(Files)
  /\ \A f \in Files :
       /\ s[f].nl = Len(fc[f]) /\ s[f].b = z[f]
       /\ s[f].onl = Len(fo[f]) /\ s[f].ob = SumSize(fo[f], 1)
       /\ IF Len(fc[f]) = 0 THEN Len(s[f].last) = 0
          ELSE /\ Len(s[f].last) = 1 /\ LineOK(s[f].last[1])
               /\ ObsLine(s[f].last[1]) = fc[f][Len(fc[f])]
CheckOK(e) == /\ e.stray = 0
              /\ Len(e.fs) = Cardinality(Files)
              /\ \A f \in Files : /\ SameLines(e.fs[f].cur, fcur[f]) /\ e.fs[f].b = sz[f]
                                  /\ SameLines(e.fs[f].old, fold[f]) /\ e.fs[f].ob = SumSize(fold[f], 1)

\* the label the new line carries is read off the disk (the specification says which ones are acceptable)
SeenLabel(e) == IF Written(e.lv) /\ Len(e.s[cur].last) = 1 THEN e.s[cur].last[1].lb ELSE CodeLabel(e.lv)

Seq1 == /\ pos = <<>> /\ l <= Len(T) /\ T[l].op # "conc"
        /\ l' = l + 1 /\ UNCHANGED <<pos, kw>>
        /\ LET e == T[l] IN
           \/ /\ e.op = "reset"
              /\ enabled' = TRUE /\ maxLevel' = 3 /\ useFile' = TRUE /\ cur' = 1
              /\ fcur' = [f \in Files |-> <<>>] /\ fold' = [f \in Files |-> <<>>] /\ sz' = [f \in Files |-> 0]
              /\ all' = [f \in Files |-> <<>>] /\ rot' = [f \in Files |-> 0]
              /\ nmsg' = 0 /\ hist' = <<>>
           \/ /\ e.op = "check" /\ CheckOK(e) /\ UNCHANGED vars
           \/ /\ e.op = "setMaxLevel" /\ e.k \in 0..4 /\ SetMaxLevel(e.k) /\ SumOK(e.s, fcur', fold', sz')
           \/ /\ e.op = "enable" /\ Enable(e.on = 1) /\ SumOK(e.s, fcur', fold', sz')
           \/ /\ e.op = "useFile" /\ UseFile(e.on = 1) /\ SumOK(e.s, fcur', fold', sz')
           \/ /\ e.op = "setFile" /\ e.f \in Files /\ SetFile(e.f) /\ SumOK(e.s, fcur', fold', sz')
           \/ /\ e.op = "maxLevel" /\ GetMaxLevel /\ SumOK(e.s, fcur', fold', sz')
              /\ hist'[Len(hist')].r # -1 => e.r = hist'[Len(hist')].r
           \/ /\ e.op = "log" /\ e.id = nmsg + 1
              /\ \E rotate \in BOOLEAN : LogCall(e.c, e.d, e.via, e.lv, SeenLabel(e), e.id, e.n, rotate)
              /\ SumOK(e.s, fcur', fold', sz')
              /\ Written(e.lv) => DateOK(e.s[cur].last[1], e.t0, e.t1)

\* --- concurrent phases -----------------------------------------------------------------------
E == T[l]
Th == 1..Len(pos)
HasNext(t) == pos[t] < Len(E.th[t])
NextCall(t) == E.th[t][pos[t] + 1]
Silent(t) == HasNext(t) /\ ~Written(NextCall(t).lv)
RECURSIVE WrittenIn(_, _)
WrittenIn(q, i) == IF i > Len(q) THEN 0 ELSE (IF Written(q[i].lv) THEN 1 ELSE 0) + WrittenIn(q, i + 1)
RECURSIVE WrittenTotal(_, _)
WrittenTotal(th, t) == IF t > Len(th) THEN 0 ELSE WrittenIn(th[t], 1) + WrittenTotal(th, t + 1)
ObsAll == E.obs.old \o E.obs.cur

ConcEnter == /\ pos = <<>> /\ l <= Len(T) /\ T[l].op = "conc"
             /\ Len(T[l].th) > 0
             /\ pos' = [t \in 1..Len(T[l].th) |-> 0] /\ kw' = 0 /\ l' = l /\ UNCHANGED vars
ConcStep(t) ==
  /\ pos # <<>> /\ HasNext(t)
  /\ (\E u \in Th : Silent(u)) => (Silent(t) /\ \A u \in Th : Silent(u) => t <= u)
  /\ pos' = [pos EXCEPT ![t] = @ + 1] /\ l' = l
  /\ LET cl == NextCall(t)
         ix == Len(ObsAll) - (WrittenTotal(E.th, 1) - (kw + 1)) IN
     IF Written(cl.lv)
     THEN /\ kw' = kw + 1
          /\ ix >= 1 => /\ LineOK(ObsAll[ix]) /\ ObsAll[ix].c = cl.c /\ ObsAll[ix].id = cl.id /\ ObsAll[ix].n = cl.n
                        /\ DateOK(ObsAll[ix], E.t0, E.t1)
          /\ \E rotate \in BOOLEAN :
                LogCall(cl.c, cl.d, cl.via, cl.lv, IF ix >= 1 THEN ObsAll[ix].lb ELSE CodeLabel(cl.lv), cl.id, cl.n, rotate)
     ELSE /\ kw' = kw
          /\ LogCall(cl.c, cl.d, cl.via, cl.lv, CodeLabel(cl.lv), cl.id, cl.n, FALSE)
ConcExit == /\ pos # <<>> /\ \A t \in Th : ~HasNext(t)
            /\ E.inst = 1             \* Singleton.h: there is only one instance, whichever thread asks
            /\ SameLines(E.obs.cur, fcur[cur]) /\ E.obs.b = sz[cur]
            /\ SameLines(E.obs.old, fold[cur]) /\ E.obs.ob = SumSize(fold[cur], 1)
            /\ pos' = <<>> /\ kw' = 0 /\ l' = l + 1 /\ UNCHANGED vars

TNext == Seq1 \/ ConcEnter \/ (\E t \in Th : ConcStep(t)) \/ ConcExit
TraceSpec == TInit /\ [][TNext]_tvars
TraceAccepted == TLCGet("stats").diameter - 1 = Total
===============================================================================
