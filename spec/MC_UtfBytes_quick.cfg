SPECIFICATION Spec
CONSTANTS
 Alpha = {0, 127, 128, 191, 192, 194, 223, 224, 239, 240, 244, 247, 248, 255, 65, 97}
 MaxLen = 4
INVARIANTS TwoFormulations DecodeEncode CaseMaps CStrOK LaxLaws
ACTION_CONSTRAINT Emit
CHECK_DEADLOCK FALSE
