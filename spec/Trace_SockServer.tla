---------------------------- MODULE Trace_SockServer ----------------------------
(* V binding for C14: validates hook/harness event logs of real SocketServer runs (harness/c14_record.cpp) against
   the SockServer design: every event must be an enabled step of the corresponding SockServer action, with
   connections identified by the accepted socket's descriptor.

   Log order is the order of appending under the recorder's lock.  Library hooks fire *before* the step they announce
   (30 accepted -> before ++count/spawn; 31 before serve(); 34 before running := false) and the harness logs serve
   begin/end inside serve() and "stop returned"/"destroy" after/before the respective calls, so:
     - 31 (about to call serve) after "stop returned"            => a serve() call started after stop(true) returned;
     - "stop returned" while a connection is between 31 and 202  => stop(true) returned with a serve() call in flight;
     - "stop returned" before 34                                  => stop(true) returned before the accept loop ended;
   each of which no behaviour of SockServer allows (StopIsClean, NoServeAfterStop).                              *)
EXTENDS Naturals, FiniteSets, Sequences, TLC, Json, IOUtils

T == ndJsonDeserialize(IOEnv.TRACE)
\* Connections are identified by the accepted descriptor.  sAcc/sCall/sServ/sBody = descriptors whose connection is
\* accepted / about to be served (31 logged) / inside serve() / past the end of the serve() body.  A descriptor leaves
\* all sets as soon as serve() has returned (32): it may be closed and re-used by a new connection before the closing
\* thread logs 33.  tCall/tClose = library threads inside serve() / between serve() and close.
VARIABLES l, sAcc, sCall, sServ, sBody, tCall, tClose, tokens, loopEnded, stopRet, destroyed, nacc, nserved
vars == <<l, sAcc, sCall, sServ, sBody, tCall, tClose, tokens, loopEnded, stopRet, destroyed, nacc, nserved>>

Init == /\ l = 1
        /\ sAcc = {} /\ sCall = {} /\ sServ = {} /\ sBody = {} /\ tCall = {} /\ tClose = {} /\ tokens = {}
        /\ loopEnded = FALSE /\ stopRet = FALSE /\ destroyed = FALSE /\ nacc = 0 /\ nserved = 0

Modeled == {0, 30, 31, 32, 33, 34, 35, 201, 202, 204, 205, 206, 207}
Bad(fd) == fd < 0             \* not a descriptor: serve() must never be called on an invalid socket
Live == sAcc \cup sCall \cup sServ \cup sBody

Step ==
  /\ l <= Len(T) /\ l' = l + 1
  /\ LET e == T[l] IN
     \/ /\ e.k = 0
        /\ sAcc' = {} /\ sCall' = {} /\ sServ' = {} /\ sBody' = {} /\ tCall' = {} /\ tClose' = {} /\ tokens' = {}
        /\ loopEnded' = FALSE /\ stopRet' = FALSE /\ destroyed' = FALSE /\ nacc' = 0 /\ nserved' = 0
     \/ /\ e.k \notin Modeled
        /\ UNCHANGED <<sAcc, sCall, sServ, sBody, tCall, tClose, tokens, loopEnded, stopRet, destroyed, nacc, nserved>>
     \* Accept(c): a new connection; its descriptor is not owned by a live connection; the loop is still running
     \/ /\ e.k = 30 /\ ~loopEnded /\ ~destroyed /\ ~Bad(e.v)       \* (a failed accept() is not announced: nothing to serve)
        /\ e.v \notin Live /\ sAcc' = sAcc \cup {e.v} /\ nacc' = nacc + 1
        /\ UNCHANGED <<sCall, sServ, sBody, tCall, tClose, tokens, loopEnded, stopRet, destroyed, nserved>>
     \* HServe(c) / inline serve: exactly once per accepted connection, never after stop(true) returned or destruction
     \/ /\ e.k = 31 /\ ~stopRet /\ ~destroyed /\ e.t \notin (tCall \cup tClose) /\ ~Bad(e.v)
        /\ e.v \in sAcc /\ sAcc' = sAcc \ {e.v} /\ sCall' = sCall \cup {e.v}
        /\ tCall' = tCall \cup {e.t}
        /\ UNCHANGED <<sServ, sBody, tClose, tokens, loopEnded, stopRet, destroyed, nacc, nserved>>
     \/ /\ e.k = 201 /\ e.t \in tCall /\ ~Bad(e.o)                  \* serve() runs on a valid socket
        /\ e.o \in sCall /\ sCall' = sCall \ {e.o} /\ sServ' = sServ \cup {e.o} /\ nserved' = nserved + 1
        /\ UNCHANGED <<sAcc, sBody, tCall, tClose, tokens, loopEnded, stopRet, destroyed, nacc>>
     \* end of the serve() body; a client's token is served at most once
     \/ /\ e.k = 202 /\ e.t \in tCall /\ (e.v >= 0 => e.v \notin tokens)
        /\ IF Bad(e.o) THEN UNCHANGED <<sServ, sBody>>
           ELSE e.o \in sServ /\ sServ' = sServ \ {e.o} /\ sBody' = sBody \cup {e.o}
        /\ tokens' = IF e.v >= 0 THEN tokens \cup {e.v} ELSE tokens
        /\ UNCHANGED <<sAcc, sCall, tCall, tClose, loopEnded, stopRet, destroyed, nacc, nserved>>
     \/ /\ e.k = 32 /\ e.t \in tCall /\ ~destroyed
        /\ IF Bad(e.v) THEN UNCHANGED sBody ELSE e.v \in sBody /\ sBody' = sBody \ {e.v}
        /\ tCall' = tCall \ {e.t} /\ tClose' = tClose \cup {e.t}
        /\ UNCHANGED <<sAcc, sCall, sServ, tokens, loopEnded, stopRet, destroyed, nacc, nserved>>
     \* HClose(c): the thread that called serve() closes the socket afterwards
     \/ /\ e.k = 33 /\ e.t \in tClose /\ tClose' = tClose \ {e.t}
        /\ UNCHANGED <<sAcc, sCall, sServ, sBody, tCall, tokens, loopEnded, stopRet, destroyed, nacc, nserved>>
     \* Check with the stop flag set: the accept loop ends
     \/ /\ e.k = 34 /\ ~destroyed /\ loopEnded' = TRUE
        /\ UNCHANGED <<sAcc, sCall, sServ, sBody, tCall, tClose, tokens, stopRet, destroyed, nacc, nserved>>
     \/ /\ e.k = 35 /\ loopEnded
        /\ UNCHANGED <<sAcc, sCall, sServ, sBody, tCall, tClose, tokens, loopEnded, stopRet, destroyed, nacc, nserved>>
     \* StopPoll: stop(true) returns only when the loop has ended and no serve() call is in flight (a call whose body has
     \* logged its end may still be returning); running() is false
     \/ /\ e.k = 204 /\ loopEnded /\ e.v = 0
        /\ sAcc = {} /\ sCall = {} /\ sServ = {}
        /\ stopRet' = TRUE
        /\ UNCHANGED <<sAcc, sCall, sServ, sBody, tCall, tClose, tokens, loopEnded, destroyed, nacc, nserved>>
     \/ /\ e.k = 205 /\ stopRet
        /\ UNCHANGED <<sAcc, sCall, sServ, sBody, tCall, tClose, tokens, loopEnded, stopRet, destroyed, nacc, nserved>>
     \/ /\ e.k = 206 /\ destroyed' = TRUE
        /\ UNCHANGED <<sAcc, sCall, sServ, sBody, tCall, tClose, tokens, loopEnded, stopRet, nacc, nserved>>
     \* end of the execution: every accepted connection was served exactly once, and closed by the thread that served it
     \/ /\ e.k = 207 /\ nacc = nserved /\ Live = {} /\ tCall = {} /\ tClose = {}
        /\ UNCHANGED <<sAcc, sCall, sServ, sBody, tCall, tClose, tokens, loopEnded, stopRet, destroyed, nacc, nserved>>

TraceSpec == Init /\ [][Step]_vars
TraceAccepted == TLCGet("stats").diameter - 1 = Len(T)
===============================================================================
