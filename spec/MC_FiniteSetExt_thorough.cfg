SPECIFICATION SpecX
CONSTANTS
 NH = 2
 K = {1,2,3,4}
 V = {1}
 MaxOps = 5
 KeepHist = TRUE
 MapOps = FALSE
 SetOps = TRUE
 Focus = FALSE
 Plain = TRUE
 Sizes = {0,1,3}
 Lists <- SetListsT
VIEW ViewX
ACTION_CONSTRAINT EmitX
INVARIANTS TypeOK NoOrphan SomeLive SetValues EnumTypeOK SizeOK EnumPartition
PROPERTIES LastCallOK Independence CloneFresh EnumStable EnumReads
CHECK_DEADLOCK FALSE
