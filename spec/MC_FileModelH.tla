------------------------------ MODULE MC_FileModelH ------------------------------
(* MC_FileModel under a second name: checks/C17.py runs several configurations of FileModel at the same time, and the
   TLC runner keeps the files of a run in a directory named after the module. *)
EXTENDS MC_FileModel
===============================================================================
