SPECIFICATION WSpec
CONSTANTS
 ModeSet = "all64"
 QKeySlashIsComment = FALSE
ACTION_CONSTRAINT WEmit
INVARIANTS JsonLaw XdlLaw LayoutLaw PromiseLaw ModeLaw
CHECK_DEADLOCK FALSE
