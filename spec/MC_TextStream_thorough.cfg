SPECIFICATION Spec
CONSTANTS
 IntVals <- IntsM
 UIntVals <- UIntsM
 DblVals <- DblsM
 FltVals <- FltsM
 Words <- WordsM
 Raws <- RawsM
 Chars <- CharsM
 SepSeq <- SepsT
 SepAll = FALSE
 Glue = {"n", "w", "c", "p"}
 Hows <- HowsQ
 HowsAll = FALSE
 PfCalls <- PfM
 SfFmts <- SfM
 Modes = {"W", "A", "L"}
 RModes = {"R", "L"}
 MaxOpens = 2
 MaxItems = 2
 MaxReads = 3
 ReadOps = {"ri", "ru", "rd", "rf", "rs", "rc", "rl", "end", "sf"}
 KeepHist = TRUE
VIEW View
ACTION_CONSTRAINT Emit
INVARIANTS TypeOK TokensLaw ReadBack
PROPERTIES AppendOnly ReadForward
CHECK_DEADLOCK FALSE
