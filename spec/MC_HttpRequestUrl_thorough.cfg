SPECIFICATION Spec
CONSTANTS
 MaxUrl = 5
 MaxDec = 6
 MaxPq = 6
ACTION_CONSTRAINT Emit
INVARIANTS DecodeLaws UrlLaws QueryLaws
CHECK_DEADLOCK FALSE
