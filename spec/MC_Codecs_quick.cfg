SPECIFICATION Spec
CONSTANTS
 ByteAlpha = {0, 37, 43, 65, 126, 251, 255}
 MaxBytes = 4
 RandMax = 300
 Stride = 8
 ShaMax = 260
 B64Alpha = {65, 47, 61, 32, 10, 33}
 MaxB64 = 6
 HexAlpha = {48, 97, 70, 103, 32}
 MaxHex = 5
 HexChainMax = 80
 PctAlpha = {37, 52, 49, 103, 97, 43}
 MaxPct = 5
 QAlpha = {97, 61, 38, 43, 37, 50}
 MaxQ = 5
 DKeys <- KeysSmall
 DVals <- ValsSmall
 MaxPairs = 3
ACTION_CONSTRAINT Emit
INVARIANTS TypeOK B64Shape B64TwoFormulations B64RoundTrip B64WsTolerant B64TextAgree HexRoundTrip HexTextOK
           PctRoundTrip PctTextOK QueryRoundTrip QueryTextOK ShaPadding ShaTwoFormulations
CHECK_DEADLOCK FALSE
