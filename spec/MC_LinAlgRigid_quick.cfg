SPECIFICATION Spec2
CONSTANTS
 NAngles = 8
 K = 2
 NRigid = 24
 KS = 2
ACTION_CONSTRAINT Emit
INVARIANTS RigidLaws PlaneLaws SlerpLaws
CHECK_DEADLOCK FALSE
