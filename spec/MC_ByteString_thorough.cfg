SPECIFICATION Spec
CONSTANTS
 NV = 2
 Lens = {0, 1, 14, 15, 16, 17, 19, 20, 23, 24, 33}
 Pieces = {15, 16, 19}
 Ints <- IntsB
 MaxTotal = 72
 MaxOps = 3
 KeepHist = TRUE
VIEW View
ACTION_CONSTRAINT Emit
INVARIANTS TypeOK HwOK
PROPERTIES Independence Identities
CHECK_DEADLOCK FALSE
