SPECIFICATION Spec
CONSTANTS
 P = 3
 N = 4
 NSq = 5000
 NMul = 48
 NLsqA = 128
 NLsqB = 16
ACTION_CONSTRAINT Emit
INVARIANTS InverseIdentity TwoFormulations SolveIdentity DetProduct NormalEquations
CHECK_DEADLOCK FALSE
