SPECIFICATION FairSpec
CONSTANTS
 Flavour = "lambda"
 MaxOps = 4
 MaxRuns = 2
 DestroyRunning = TRUE
 ReadAfterFin = FALSE
INVARIANTS RunsOnce JoinAfterBody FinishedAfterJoin FinishedMeansDone HandleConserved NoDeadAccess
PROPERTY Terminates
CHECK_DEADLOCK FALSE
