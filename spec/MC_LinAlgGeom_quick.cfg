SPECIFICATION Spec
CONSTANTS
 P = 32719
 NVec = 1000
 NAff = 600
 NQuat = 800
 NCplx = 800
 NDyn = 729
ACTION_CONSTRAINT Emit
INVARIANTS VecLaws AffLaws QuatLaws CplxLaws DynLaws
CHECK_DEADLOCK FALSE
