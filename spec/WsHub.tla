-------------------------------- MODULE WsHub --------------------------------
(* C11 (growth) - one WebSocketServer with N library clients: isolation, clients(), broadcast, close from either side.

   Connection c (1..N) has a client end (a WebSocket the application connect()ed) and a server end (the WebSocket handed to
   serve(WebSocket&) in a thread of its own).  Per connection and direction a FIFO of messages; a message is the record
   [c, d, n, len]: connection, direction ("cs" client to server, "sc" server to client), running number, length - the
   replayer expands it to bytes that depend on all four, so a message that turns up on another connection, in the other
   direction, twice or out of order is seen.

     Connect(c)      connect() succeeds, serve() starts: the server end is registered in clients()
     CSend / SSend   send() on either end
     Broadcast       what an application does to reach everybody: under mutex(), send() to each of clients()
     CRecv / SRecv   receive() returns the oldest message of the connection's own queue
     CClose / SClose close() on either end (here only with nothing unread: the reset case is WsConn's)
     CSees / SSees   closed(): true iff this end closed or the peer closed and nothing is left to read
     SEnd(c)         serve() returns: the server end leaves clients(), the library closes the socket
     Count           clients().length() = number of connections inside serve()

   Checked by TLC:
     Isolation    everything delivered on connection c in direction d was sent on c in direction d, and the deliveries are a
                  prefix of the sends (exactly once, in order)
     NoLoss       an end that sees the peer's close has received everything the peer sent
     BroadcastAll a broadcast reaches exactly the connections that are registered at that moment
     Registered   clients() = the connections inside serve()
   Every transition is emitted for harness/c11_conn_run.h ("hub", R); recorded concurrent runs of the same actions are
   validated by Trace_WsHub.tla (V).                                                                                     *)
EXTENDS Naturals, Sequences, FiniteSets, TLC, Json

CONSTANTS N, MaxOps, MaxSend, Lens

VARIABLES cst, sst,     \* [1..N -> "none" | "open" | "closed"]: client end / server end
          reg,          \* connections inside serve() (= clients())
          q,            \* [1..N -> [cs, sc -> Seq(msg)]]: sent, not yet received
          sent, got,    \* [1..N -> [cs, sc -> Seq(msg)]]: history
          ceof, seof,   \* [1..N -> BOOLEAN]: that end's socket is closed (the peer reads EOF after the queue)
          nb,           \* broadcasts so far
          hist
vars == <<cst, sst, reg, q, sent, got, ceof, seof, nb, hist>>

C == 1..N
Dirs == {"cs", "sc"}
Empty2 == [d \in Dirs |-> <<>>]

Init == /\ cst = [c \in C |-> "none"] /\ sst = [c \in C |-> "none"] /\ reg = {}
        /\ q = [c \in C |-> Empty2] /\ sent = [c \in C |-> Empty2] /\ got = [c \in C |-> Empty2]
        /\ ceof = [c \in C |-> FALSE] /\ seof = [c \in C |-> FALSE] /\ nb = 0 /\ hist = <<>>

More == Len(hist) < MaxOps
Log(r) == hist' = Append(hist, r)
\* (seed: the replayer expands a message to the bytes WsFrame!PayloadByte(seed, i), i < len; distinct for distinct (c, d, n) here)
Msg(c, d, len) == LET n == Len(sent[c][d]) + 1 IN
                  [c |-> c, d |-> d, n |-> n, len |-> len, seed |-> (c * 64 + (IF d = "sc" THEN 32 ELSE 0) + n * 4 + (len % 4)) % 256]

Connect(c) ==
    /\ More /\ cst[c] = "none" /\ (c > 1 => cst[c - 1] # "none")          \* (connections are made in the order 1..N)
    /\ cst' = [cst EXCEPT ![c] = "open"] /\ sst' = [sst EXCEPT ![c] = "open"] /\ reg' = reg \cup {c}
    /\ Log([op |-> "connect", c |-> c, count |-> Cardinality(reg) + 1])
    /\ UNCHANGED <<q, sent, got, ceof, seof, nb>>

Put(c, d, m) == /\ q' = [q EXCEPT ![c][d] = Append(@, m)] /\ sent' = [sent EXCEPT ![c][d] = Append(@, m)]
CSend(c, len) ==
    /\ More /\ cst[c] = "open" /\ ~seof[c] /\ Len(sent[c]["cs"]) < MaxSend
    /\ Put(c, "cs", Msg(c, "cs", len))
    /\ Log([op |-> "csend", c |-> c, m |-> Msg(c, "cs", len)])
    /\ UNCHANGED <<cst, sst, reg, got, ceof, seof, nb>>
SSend(c, len) ==
    /\ More /\ sst[c] = "open" /\ c \in reg /\ ~ceof[c] /\ Len(sent[c]["sc"]) < MaxSend
    /\ Put(c, "sc", Msg(c, "sc", len))
    /\ Log([op |-> "ssend", c |-> c, m |-> Msg(c, "sc", len)])
    /\ UNCHANGED <<cst, sst, reg, got, ceof, seof, nb>>

\* a broadcast message has the same bytes for everybody
BSeed(len) == (208 + nb * 8 + (len % 4)) % 256
BMsg(c, len) == [Msg(c, "sc", len) EXCEPT !.seed = BSeed(len)]
\* the targets: registered server ends that are open and whose client has not gone (a send on a closed end does nothing)
Targets == {c \in reg : sst[c] = "open" /\ ~ceof[c]}
Broadcast(len) ==
    /\ More /\ nb < 2 /\ reg # {} /\ \A c \in reg : sst[c] = "closed" \/ ~ceof[c]
    /\ \A c \in Targets : Len(sent[c]["sc"]) < MaxSend + 2
    /\ q' = [c \in C |-> IF c \in Targets THEN [q[c] EXCEPT !["sc"] = Append(@, BMsg(c, len))] ELSE q[c]]
    /\ sent' = [c \in C |-> IF c \in Targets THEN [sent[c] EXCEPT !["sc"] = Append(@, BMsg(c, len))] ELSE sent[c]]
    /\ nb' = nb + 1
    /\ Log([op |-> "broadcast", len |-> len, seed |-> BSeed(len), count |-> Cardinality(reg)])
    /\ UNCHANGED <<cst, sst, reg, got, ceof, seof>>

Take(c, d) == /\ q' = [q EXCEPT ![c][d] = Tail(@)] /\ got' = [got EXCEPT ![c][d] = Append(@, Head(q[c][d]))]
CRecv(c) ==
    /\ More /\ cst[c] = "open" /\ q[c]["sc"] # <<>>
    /\ Take(c, "sc")
    /\ Log([op |-> "crecv", c |-> c, m |-> Head(q[c]["sc"])])
    /\ UNCHANGED <<cst, sst, reg, sent, ceof, seof, nb>>
SRecv(c) ==
    /\ More /\ sst[c] = "open" /\ c \in reg /\ q[c]["cs"] # <<>>
    /\ Take(c, "cs")
    /\ Log([op |-> "srecv", c |-> c, m |-> Head(q[c]["cs"])])
    /\ UNCHANGED <<cst, sst, reg, sent, ceof, seof, nb>>

CClose(c) ==
    /\ More /\ cst[c] = "open" /\ q[c]["sc"] = <<>>
    /\ cst' = [cst EXCEPT ![c] = "closed"] /\ ceof' = [ceof EXCEPT ![c] = TRUE]
    /\ Log([op |-> "cclose", c |-> c])
    /\ UNCHANGED <<sst, reg, q, sent, got, seof, nb>>
SClose(c) ==
    /\ More /\ sst[c] = "open" /\ c \in reg /\ q[c]["cs"] = <<>>
    /\ sst' = [sst EXCEPT ![c] = "closed"] /\ seof' = [seof EXCEPT ![c] = TRUE]
    /\ Log([op |-> "sclose", c |-> c])
    /\ UNCHANGED <<cst, reg, q, sent, got, ceof, nb>>

CSees(c) ==
    /\ More /\ cst[c] # "none"
    /\ LET seen == cst[c] = "open" /\ seof[c] /\ q[c]["sc"] = <<>> IN
       /\ Log([op |-> "csees", c |-> c, exp |-> (cst[c] = "closed" \/ seen)])
       /\ IF seen THEN cst' = [cst EXCEPT ![c] = "closed"] /\ ceof' = [ceof EXCEPT ![c] = TRUE] ELSE UNCHANGED <<cst, ceof>>
    /\ UNCHANGED <<sst, reg, q, sent, got, seof, nb>>
SSees(c) ==
    /\ More /\ sst[c] # "none" /\ c \in reg
    /\ LET seen == sst[c] = "open" /\ ceof[c] /\ q[c]["cs"] = <<>> IN
       /\ Log([op |-> "ssees", c |-> c, exp |-> (sst[c] = "closed" \/ seen)])
       /\ IF seen THEN sst' = [sst EXCEPT ![c] = "closed"] /\ seof' = [seof EXCEPT ![c] = TRUE] ELSE UNCHANGED <<sst, seof>>
    /\ UNCHANGED <<cst, reg, q, sent, got, ceof, nb>>

\* serve() returns (here: once the connection is over for the server end)
SEnd(c) ==
    /\ More /\ c \in reg /\ sst[c] = "closed"
    /\ reg' = reg \ {c}
    /\ Log([op |-> "send_", c |-> c, count |-> Cardinality(reg) - 1])
    /\ UNCHANGED <<cst, sst, q, sent, got, ceof, seof, nb>>
Count ==
    /\ More /\ hist # <<>> /\ hist[Len(hist)].op \notin {"count", "connect", "send_"}
    /\ Log([op |-> "count", count |-> Cardinality(reg)])
    /\ UNCHANGED <<cst, sst, reg, q, sent, got, ceof, seof, nb>>

Next == \/ \E c \in C : \/ Connect(c) \/ CRecv(c) \/ SRecv(c) \/ CClose(c) \/ SClose(c) \/ CSees(c) \/ SSees(c) \/ SEnd(c)
                        \/ \E len \in Lens : CSend(c, len) \/ SSend(c, len)
        \/ \E len \in Lens : Broadcast(len)
        \/ Count
Spec == Init /\ [][Next]_vars

--------------------------------------------------------------------------------
IsPrefixOf(a, b) == Len(a) <= Len(b) /\ \A i \in 1..Len(a) : a[i] = b[i]
Isolation == \A c \in C, d \in Dirs :
    /\ IsPrefixOf(got[c][d], sent[c][d])
    /\ \A i \in 1..Len(got[c][d]) : got[c][d][i].c = c /\ got[c][d][i].d = d /\ got[c][d][i].n = i
Did(o, c) == \E i \in 1..Len(hist) : hist[i].op = o /\ hist[i].c = c
NoLoss == \A c \in C : /\ (cst[c] = "closed" /\ ~Did("cclose", c)) => got[c]["sc"] = sent[c]["sc"]    \* the client learnt it from the server
                       /\ (sst[c] = "closed" /\ ~Did("sclose", c)) => got[c]["cs"] = sent[c]["cs"]
Registered == /\ reg \subseteq {c \in C : sst[c] # "none"}
              /\ \A c \in C : sst[c] = "open" => c \in reg
BroadcastAll == [][(nb' = nb + 1) =>
                      \A c \in C : (Len(sent'[c]["sc"]) = Len(sent[c]["sc"]) + 1) <=> (c \in reg /\ sst[c] = "open" /\ ~ceof[c])]_vars
TypeOK == /\ \A c \in C : cst[c] \in {"none", "open", "closed"} /\ sst[c] \in {"none", "open", "closed"}
          /\ \A c \in C : (cst[c] = "none") <=> (sst[c] = "none")

EmitRec(h, qq, cs, ss, rg) ==
    [k |-> "hub", n |-> N, hist |-> h,
     left |-> [c \in C |-> qq[c]],
     cst |-> cs, sst |-> ss, reg |-> [c \in C |-> c \in rg]]
Emit == PrintT(ToJson(EmitRec(hist', q', cst', sst', reg')))
View == <<cst, sst, reg, [c \in C |-> [d \in Dirs |-> [i \in 1..Len(q[c][d]) |-> q[c][d][i].len]]],
          [c \in C |-> [d \in Dirs |-> Len(sent[c][d])]], ceof, seof, nb, Len(hist),
          IF hist = <<>> THEN "" ELSE hist[Len(hist)].op>>
================================================================================
