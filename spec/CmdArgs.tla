------------------------------- MODULE CmdArgs -------------------------------
(* C18 (growth) - asl::CmdArgs: what has() / is() / operator[] / operator()(name, default) / operator()(name) /
   rest() / length() / operator[](int) / all() / options() / untested() return for a command line.

   The documentation (include/asl/CmdArgs.h) gives the grammar in prose:
     - named options start with a '-' and are optionally followed by a value;
     - options without value are flags and should end with a '!';
     - the free arguments are the arguments that are neither options nor option values (nor the program name);
     - an option given more than once has the last value, all values are available through operator()(name);
     - an optional specification "q:,fast,format:" lists flags (never take a value) and options that need one;
     - untested() are the options not queried yet.
   The module states it twice and lets TLC prove both formulations equal on every token sequence of the scope:
     Scan     a left-to-right scanner (an option token takes the next token as its value unless that token is itself
              an option, the option is a flag ('!' or listed as a flag) or there is no next token), and
     Kind     a pointwise classification of each token as "opt" / "val" / "rest" - possible because a token that
              looks like an option is never consumed as a value.
   A command line is a sequence of byte strings (argv[1..]; the program name is added by the harness).

   Left unconstrained (the documentation says nothing; such command lines are generated with unspec = TRUE and only
   executed for memory safety): a lone "-", tokens "-<not a letter>..." ("--long", "-5", "--"), an option the
   specification says needs a value but that has none, is() for values other than 1/true/yes/0/false/no.

   R: MC_CmdArgs_*.cfg emit one case per transition -> harness/c18_cmdargs_replay (CmdArgs(argc, argv, spec), and for
      part of the cases CmdArgs(spec) of a re-executed process: the arguments of the current process);
   V: Trace_CmdArgs validates recorded random command lines and query sequences (harness/c18_cmdargs_record).      *)
EXTENDS Integers, Sequences, FiniteSets, TLC, Json, SequencesExt

CONSTANTS Tokens,     \* token alphabet (set of byte strings)
          MaxToks,    \* longest generated command line
          Specs,      \* set of [flags |-> set of names, vopts |-> set of names]: the specification string
          Probes,     \* sequence of option names the generated queries ask for
          MaxQ        \* number of generated queries after construction

VARIABLES toks,       \* the command line (argv[1..])
          sp,         \* the specification given to the constructor
          built,      \* the object exists
          unused,     \* untested(): names of the options present and not queried yet, in order of first appearance
          qs          \* history: the queries made, [kind, x, unt] (unt = untested() after the query)
vars == <<toks, sp, built, unused, qs>>

Dash == 45
Bang == 33
One == <<49>>
IsAlpha(b) == (b >= 97 /\ b <= 122) \/ (b >= 65 /\ b <= 90)
IsOptTok(t) == IF Len(t) >= 2 THEN t[1] = Dash /\ IsAlpha(t[2]) ELSE FALSE
IsFlagTok(t) == IsOptTok(t) /\ t[Len(t)] = Bang
NameOf(t) == SubSeq(t, 2, IF t[Len(t)] = Bang THEN Len(t) - 1 ELSE Len(t))
\* a token that starts with '-' and is not "-<letter>...": nothing is documented about it
OddTok(t) == IF t = <<>> THEN FALSE ELSE t[1] = Dash /\ ~IsOptTok(t)

-------------------------------------------------------------------------------
(* formulation 1: pointwise *)
TakesValue(ts, i, s) == /\ IsOptTok(ts[i]) /\ ~IsFlagTok(ts[i]) /\ NameOf(ts[i]) \notin s.flags
                        /\ i < Len(ts)
                        /\ (IF i < Len(ts) THEN ~IsOptTok(ts[i + 1]) ELSE FALSE)
Kind(ts, i, s) == IF IsOptTok(ts[i]) THEN "opt"
                  ELSE IF i > 1 THEN (IF TakesValue(ts, i - 1, s) THEN "val" ELSE "rest") ELSE "rest"
OptPos(ts, s) == SetToSortSeq({i \in 1..Len(ts) : Kind(ts, i, s) = "opt"}, <)
OptsD(ts, s) == LET ps == OptPos(ts, s) IN
                [k \in 1..Len(ps) |-> [name |-> NameOf(ts[ps[k]]),
                                       val |-> IF TakesValue(ts, ps[k], s) THEN ts[ps[k] + 1] ELSE One,
                                       given |-> TakesValue(ts, ps[k], s)]]
RestD(ts, s) == LET ps == SetToSortSeq({i \in 1..Len(ts) : Kind(ts, i, s) = "rest"}, <) IN [k \in 1..Len(ps) |-> ts[ps[k]]]

(* formulation 2: the scanner *)
RECURSIVE Scan(_, _, _, _)
Scan(ts, s, i, acc) ==
    IF i > Len(ts) THEN acc
    ELSE IF IsOptTok(ts[i])
         THEN IF ~IsFlagTok(ts[i]) /\ NameOf(ts[i]) \notin s.flags /\ i < Len(ts) /\ (IF i < Len(ts) THEN ~IsOptTok(ts[i + 1]) ELSE FALSE)
              THEN Scan(ts, s, i + 2, [acc EXCEPT !.opts = Append(@, [name |-> NameOf(ts[i]), val |-> ts[i + 1], given |-> TRUE])])
              ELSE Scan(ts, s, i + 1, [acc EXCEPT !.opts = Append(@, [name |-> NameOf(ts[i]), val |-> One, given |-> FALSE])])
         ELSE Scan(ts, s, i + 1, [acc EXCEPT !.rest = Append(@, ts[i])])
Parse(ts, s) == Scan(ts, s, 1, [opts |-> <<>>, rest |-> <<>>])

\* an option the specification says needs a value, without one (also: written as a flag)
MissingValue(ts, s) == \E i \in 1..Len(ts) : IsOptTok(ts[i]) /\ NameOf(ts[i]) \in s.vopts /\ ~TakesValue(ts, i, s)
Unspec(ts, s) == MissingValue(ts, s) \/ \E i \in 1..Len(ts) : OddTok(ts[i])

-------------------------------------------------------------------------------
(* what the object answers *)
Names(os) == {os[i].name : i \in 1..Len(os)}
LastOf(os, x) == LET m == {i \in 1..Len(os) : os[i].name = x} IN os[CHOOSE i \in m : \A j \in m : i >= j]
Has(os, x) == x \in Names(os)
Val(os, x, def) == IF Has(os, x) THEN LastOf(os, x).val ELSE def
Multi(os, x) == LET ps == SetToSortSeq({i \in 1..Len(os) : os[i].name = x /\ os[i].given}, <) IN [k \in 1..Len(ps) |-> os[ps[k]].val]
TrueTexts == { One, <<116, 114, 117, 101>>, <<121, 101, 115>> }           \* 1 true yes
FalseTexts == { <<48>>, <<102, 97, 108, 115, 101>>, <<110, 111>> }         \* 0 false no
IsTrue(os, x) == IF ~Has(os, x) THEN "f" ELSE IF Val(os, x, <<>>) \in TrueTexts THEN "t"
                 ELSE IF Val(os, x, <<>>) \in FalseTexts THEN "f" ELSE "u"
\* distinct names in order of first appearance
FirstNames(os) == LET ps == SetToSortSeq({i \in 1..Len(os) : \A j \in 1..(i - 1) : os[j].name # os[i].name}, <)
                  IN [k \in 1..Len(ps) |-> os[ps[k]].name]
Without(s, x) == LET ps == SetToSortSeq({i \in 1..Len(s) : s[i] # x}, <) IN [k \in 1..Len(ps) |-> s[ps[k]]]

-------------------------------------------------------------------------------
(* the object as a state machine *)
Kinds == <<"has", "get", "dflt", "multi", "is">>
Default == <<100, 102, 108, 116>>      \* "dflt"
Answer(os, kind, x) ==
    CASE kind = "has"   -> [b |-> IF Has(os, x) THEN "t" ELSE "f"]
      [] kind = "is"    -> [b |-> IsTrue(os, x)]
      [] kind = "get"   -> [s |-> Val(os, x, <<>>)]
      [] kind = "dflt"  -> [s |-> Val(os, x, Default)]
      [] kind = "multi" -> [l |-> Multi(os, x)]

Init == /\ toks = <<>> /\ sp \in Specs /\ built = FALSE /\ unused = <<>> /\ qs = <<>>
AddTok == /\ ~built /\ Len(toks) < MaxToks
          /\ \E t \in Tokens : toks' = Append(toks, t)
          /\ UNCHANGED <<sp, built, unused, qs>>
Build == /\ ~built
         /\ built' = TRUE
         /\ unused' = FirstNames(Parse(toks, sp).opts)
         /\ UNCHANGED <<toks, sp, qs>>
\* every query of an option name marks it as tested (the kind of a generated query rotates with the length of the command line,
\* the position of the query and the name;
\* generated query sequences ask for the probe names in ascending order - untested() does not depend on the order)
Query == /\ built /\ ~Unspec(toks, sp) /\ Len(qs) < MaxQ
         /\ \E k \in 1..Len(Probes) :
               LET x == Probes[k]
                   kind == Kinds[((Len(toks) + Len(qs) * 2 + k) % 5) + 1]
               IN /\ (IF qs = <<>> THEN TRUE ELSE k > qs[Len(qs)].k)
                  /\ unused' = Without(unused, x)
                  /\ qs' = Append(qs, [kind |-> kind, x |-> x, k |-> k, r |-> Answer(Parse(toks, sp).opts, kind, x), unt |-> unused'])
         /\ UNCHANGED <<toks, sp, built>>
Next == AddTok \/ Build \/ Query
Spec == Init /\ [][Next]_vars

-------------------------------------------------------------------------------
(* laws, checked on every generated command line *)
\* both formulations agree
ScanAgrees == Parse(toks, sp) = [opts |-> OptsD(toks, sp), rest |-> RestD(toks, sp)]
\* every token is an option, the value of the option before it, or a free argument - exactly one of them
Partition == LET p == Parse(toks, sp) IN
             Len(p.rest) + Len(p.opts) + Cardinality({i \in 1..Len(p.opts) : p.opts[i].given}) = Len(toks)
\* free arguments never look like options; values never do either
NoOptionLost == LET p == Parse(toks, sp) IN
                /\ \A i \in 1..Len(p.rest) : ~IsOptTok(p.rest[i])
                /\ \A i \in 1..Len(p.opts) : p.opts[i].given => ~IsOptTok(p.opts[i].val)
                /\ Len(p.opts) = Cardinality({i \in 1..Len(toks) : IsOptTok(toks[i])})
\* flags ('!' or listed) never take a value, an option has its last value and operator()(name) ends with it when it was given
ValueLaws == LET os == Parse(toks, sp).opts IN
             /\ \A i \in 1..Len(os) : os[i].name \in sp.flags => ~os[i].given
             /\ \A x \in Names(os) : LastOf(os, x).given => (Multi(os, x) # <<>> /\ Multi(os, x)[Len(Multi(os, x))] = Val(os, x, <<>>))
             /\ \A x \in Names(os) : ~LastOf(os, x).given => Val(os, x, <<>>) = One
\* untested() = options present minus options queried
UnusedOK == built => LET os == Parse(toks, sp).opts IN
                     /\ {unused[i] : i \in 1..Len(unused)} = Names(os) \ {qs[i].x : i \in 1..Len(qs)}
                     /\ Cardinality({unused[i] : i \in 1..Len(unused)}) = Len(unused)

-------------------------------------------------------------------------------
(* emission *)
\* the finding SelfArgsTruncated: CmdArgs(spec) read only the first 256 bytes of the process's arguments
RECURSIVE ArgBytes(_)
ArgBytes(ts) == IF ts = <<>> THEN 0 ELSE Len(ts[1]) + 1 + ArgBytes(Tail(ts))
Hz(ts) == IF ArgBytes(ts) > 200 THEN {"SelfArgsTruncated"} ELSE {}
ArgsCase(ts, s) ==
    LET p == Parse(ts, s)
        ns == FirstNames(p.opts) IN
    [k |-> "args", toks |-> ts, flags |-> SetToSeq(s.flags), vopts |-> SetToSeq(s.vopts), unspec |-> Unspec(ts, s),
     rest |-> p.rest,
     opts |-> [i \in 1..Len(ns) |-> [name |-> ns[i], val |-> Val(p.opts, ns[i], <<>>), multi |-> Multi(p.opts, ns[i]), is |-> IsTrue(p.opts, ns[i])]],
     absent |-> SetToSeq({Probes[i] : i \in 1..Len(Probes)} \ Names(p.opts)), hz |-> Hz(ts)]
QueryCase(ts, s, q) == [k |-> "query", toks |-> ts, flags |-> SetToSeq(s.flags), vopts |-> SetToSeq(s.vopts),
                        untested |-> FirstNames(Parse(ts, s).opts), qs |-> q, hz |-> Hz(ts)]
Emit == IF ~built /\ built' THEN PrintT(ToJson(ArgsCase(toks', sp')))
        ELSE IF qs' # qs THEN PrintT(ToJson(QueryCase(toks', sp', qs')))
        ELSE TRUE
View == <<toks, sp, built, unused, qs>>
===============================================================================
