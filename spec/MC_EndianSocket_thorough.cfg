SPECIFICATION Spec
CONSTANTS
 Native = "LITTLE"
 Plans <- PlansThorough
 MaxCalls = 3
 Ahead = TRUE
 SetOrders = {"BIG", "LITTLE", "NATIVE"}
 KeepHist = TRUE
VIEW View
ACTION_CONSTRAINT Emit
INVARIANTS TypeOK Fifo SentIsPlanned ChunkingIndependent Counts ErrDrained
PROPERTIES ErrSticky Exhaustion OrderOnlyLater
CHECK_DEADLOCK FALSE
