SPECIFICATION Spec
CONSTANTS
 NKeys = 6
ACTION_CONSTRAINT Emit
INVARIANTS SampleOK AcceptOK RequestParses
CHECK_DEADLOCK FALSE
