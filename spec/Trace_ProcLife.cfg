SPECIFICATION TraceSpec
CONSTANTS
 Payloads <- PayloadsNone
 Codes = {}
 ErrCounts = {}
 ReadLens = {}
 MaxOps = 0
 MaxFd = 15
 CloseTwice = FALSE
 PipeSafe = 8192
INVARIANTS TypeOK ReadIsWritten NothingLost SeenOnlyAfterEnd NoLeak ObjectFds UserIntact
POSTCONDITION TraceAccepted
CHECK_DEADLOCK FALSE
