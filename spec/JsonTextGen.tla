----------------------------- MODULE JsonTextGen -----------------------------
(* C06 (and C05) - generator of the JSON text language: a pushdown transition system whose actions emit tokens with
   all their lexical variants and at the same time build the value the text denotes.  Every state is a prefix of a
   valid document, states with done = TRUE are complete documents.

   Invariants checked by TLC (two independent formulations of RFC 8259 against each other):
     GenRecAgree     a complete document is accepted by the strict recognizer JsonText!Doc with the generated value
     PrefixRejected  a prefix that ends inside an array, an object or a string is rejected by the recognizer
     NoExcluded      generated documents stay inside the domain of the properties (no escaped NUL, no lone surrogate)
   Emit (ACTION_CONSTRAINT) prints one replay case per transition for harness/c06_replay: the text, whether it is
   a document / a prefix that must be rejected / open (neither), and the expected value.

   Size control: every non-default lexical choice (white space, escapes, unusual number tokens, ...) costs one unit
   of the budget MaxVar, so that every variant is produced in every structural position (budget 1), every pair of
   variants in every pair of positions (budget 2), ... without the product of all choices.                  *)
EXTENDS JsonText, Json

CONSTANTS MaxDepth,    \* nesting bound
          MaxItems,    \* items per container
          MaxLen,      \* bound on the text length (a new token is only started below it)
          MaxVar,      \* budget of non-default lexical choices
          MaxStr,      \* characters per string
          Linear,      \* TRUE: only the nesting skeleton (array/object alternate by depth, scalars only at the innermost level)
          Stride       \* Linear: levels opened / closed per step (1 = every prefix is a state)

VARIABLES text,   \* bytes emitted so far
          stack,  \* open containers: [k, st, items, key]
          str,    \* string being emitted: [on, key, acc, n]
          done, val, var,
          probe,  \* 0, or the nesting depth of a stack-depth probe (the text is then described by run lengths, not stored)
          act     \* ghost: name of the action that produced the state (vacuity is measured on the emitted cases)
vars == <<text, stack, str, done, val, var, probe, act>>

NoStr == [on |-> FALSE, key |-> FALSE, acc |-> <<>>, n |-> 0]
NoVal == [z |-> 0]

\* ---- lexical tables: [t = bytes emitted, v = bytes/value denoted, c = cost] ----
NumTokens == <<
  [t |-> <<49>>, c |-> 0],                                     \* 1
  [t |-> <<48>>, c |-> 1],                                     \* 0
  [t |-> <<45,48>>, c |-> 1],                                  \* -0
  [t |-> <<45,49>>, c |-> 1],                                  \* -1
  [t |-> <<49,50>>, c |-> 1],                                  \* 12
  [t |-> <<49,46,53>>, c |-> 1],                               \* 1.5
  [t |-> <<45,48,46,50,53>>, c |-> 1],                         \* -0.25
  [t |-> <<49,101,50>>, c |-> 1],                              \* 1e2
  [t |-> <<49,69,43,50>>, c |-> 1],                            \* 1E+2
  [t |-> <<50,53,101,45,49>>, c |-> 1],                        \* 25e-1
  [t |-> <<49,46,50,53,69,45,48,49>>, c |-> 1],                \* 1.25E-01
  [t |-> <<48,46,48>>, c |-> 1],                               \* 0.0
  [t |-> <<45,48,46,48,101,48>>, c |-> 1],                     \* -0.0e0
  [t |-> <<49,50,51,52,53,54,55,56,57>>, c |-> 1],             \* 123456789   (9 digits: int path)
  [t |-> <<49,50,51,52,53,54,55,56,57,48>>, c |-> 1],          \* 1234567890  (10 digits: double path)
  [t |-> <<50,49,52,55,52,56,51,54,52,55>>, c |-> 1],          \* 2147483647
  [t |-> <<45,50,49,52,55,52,56,51,54,52,56>>, c |-> 1],       \* -2147483648
  [t |-> <<52,50,57,52,57,54,55,50,57,54>>, c |-> 1],          \* 4294967296  (10 digits, beyond int)
  [t |-> <<57,57,57,57,57,57,57,57,57,57>>, c |-> 1],          \* 9999999999
  [t |-> <<45,49,50,51,52,53,54,55,56>>, c |-> 1],             \* -12345678 (9 characters)
  [t |-> <<49,48,48,48,48,48,48,48,48,46,48>>, c |-> 1],       \* 100000000.0
  [t |-> <<48,46,49>>, c |-> 1],                               \* 0.1   (not dyadic: value checked in the V direction)
  [t |-> <<49,101,45,55>>, c |-> 1],                           \* 1e-7
  [t |-> <<49,46,55,57,55,54,57,51,49,51,52,56,54,50,51,49,53,55,101,51,48,56>>, c |-> 1],   \* 1.7976931348623157e308
  [t |-> <<53,101,45,51,50,52>>, c |-> 1] >>                   \* 5e-324
Literals == <<
  [t |-> <<116,114,117,101>>, v |-> [b |-> TRUE], c |-> 0],
  [t |-> <<102,97,108,115,101>>, v |-> [b |-> FALSE], c |-> 1],
  [t |-> <<110,117,108,108>>, v |-> NoVal, c |-> 1] >>
StrChars == <<
  [t |-> <<97>>, v |-> <<97>>, c |-> 0],                                       \* a
  [t |-> <<47>>, v |-> <<47>>, c |-> 1],                                       \* /   (comment detection)
  [t |-> <<42>>, v |-> <<42>>, c |-> 1],                                       \* *
  [t |-> <<32>>, v |-> <<32>>, c |-> 1],                                       \* space
  [t |-> <<91>>, v |-> <<91>>, c |-> 1], [t |-> <<93>>, v |-> <<93>>, c |-> 1],        \* [ ]
  [t |-> <<123>>, v |-> <<123>>, c |-> 1], [t |-> <<125>>, v |-> <<125>>, c |-> 1],    \* { }
  [t |-> <<44>>, v |-> <<44>>, c |-> 1], [t |-> <<58>>, v |-> <<58>>, c |-> 1],        \* , :
  [t |-> <<61>>, v |-> <<61>>, c |-> 1],                                       \* =
  [t |-> <<127>>, v |-> <<127>>, c |-> 1],                                     \* DEL raw
  [t |-> <<195,169>>, v |-> <<195,169>>, c |-> 1],                             \* e-acute raw (2 bytes)
  [t |-> <<226,130,172>>, v |-> <<226,130,172>>, c |-> 1],                     \* euro raw (3 bytes)
  [t |-> <<240,159,152,128>>, v |-> <<240,159,152,128>>, c |-> 1],             \* U+1F600 raw (4 bytes)
  [t |-> <<92,34>>, v |-> <<34>>, c |-> 1], [t |-> <<92,92>>, v |-> <<92>>, c |-> 1],  \* \" \\
  [t |-> <<92,47>>, v |-> <<47>>, c |-> 1],                                    \* \/
  [t |-> <<92,98>>, v |-> <<8>>, c |-> 1], [t |-> <<92,102>>, v |-> <<12>>, c |-> 1],
  [t |-> <<92,110>>, v |-> <<10>>, c |-> 1], [t |-> <<92,114>>, v |-> <<13>>, c |-> 1],
  [t |-> <<92,116>>, v |-> <<9>>, c |-> 1],
  [t |-> <<92,117,48,48,101,57>>, v |-> <<195,169>>, c |-> 1],                 \* e-acute, lower-case hex
  [t |-> <<92,117,48,48,69,57>>, v |-> <<195,169>>, c |-> 1],                  \* e-acute, upper-case hex
  [t |-> <<92,117,48,48,52,49>>, v |-> <<65>>, c |-> 1],                       \* A
  [t |-> <<92,117,48,48,49,102>>, v |-> <<31>>, c |-> 1],                      \* \u001f
  [t |-> <<92,117,48,48,50,70>>, v |-> <<47>>, c |-> 1],                       \* /
  [t |-> <<92,117,50,48,65,67>>, v |-> <<226,130,172>>, c |-> 1],              \* euro sign
  [t |-> <<92,117,102,102,102,100>>, v |-> <<239,191,189>>, c |-> 1],          \* U+FFFD
  [t |-> <<92,117,100,56,51,100,92,117,100,101,48,48>>, v |-> <<240,159,152,128>>, c |-> 1],   \* surrogate pair, lower case
  [t |-> <<92,117,68,56,51,68,92,117,68,69,48,48>>, v |-> <<240,159,152,128>>, c |-> 1] >>     \* surrogate pair, upper case
WsVariants == << <<32>>, <<9>>, <<10>>, <<13>>, <<13,10>> >>

\* ---- structure ----
Top == stack[Len(stack)]
InStr == str.on
CanValue == /\ ~done /\ ~InStr /\ probe = 0
            /\ IF stack = <<>> THEN TRUE
               ELSE IF Top.k = "a" THEN Top.st \in {"first", "sep"} ELSE Top.st = "afterColon"
CanKey == /\ ~done /\ ~InStr
          /\ IF stack = <<>> THEN FALSE ELSE Top.k = "o" /\ Top.st \in {"first", "sep"}

\* a complete value v arrives at the current position
Deliver(stk, v) ==
    IF stk = <<>> THEN [stack |-> stk, done |-> TRUE, val |-> v]
    ELSE LET f == stk[Len(stk)]
             f2 == IF f.k = "a" THEN [f EXCEPT !.st = "afterItem", !.items = Append(@, v)]
                   ELSE [f EXCEPT !.st = "afterItem", !.items = Append(@, <<f.key, v>>), !.key = <<>>]
         IN [stack |-> [stk EXCEPT ![Len(stk)] = f2], done |-> FALSE, val |-> NoVal]
Apply(r) == stack' = r.stack /\ done' = r.done /\ val' = r.val

Room == Len(text) < MaxLen
Budget(c) == var + c <= MaxVar
Scalars == IF Linear THEN Len(stack) = MaxDepth ELSE TRUE

Init == /\ text = <<>> /\ stack = <<>> /\ str = NoStr /\ done = FALSE /\ val = NoVal /\ var = 0 /\ probe = 0 /\ act = "Init"

Number(i) == /\ UNCHANGED probe /\ act' = "Number" /\ CanValue /\ Room /\ Scalars /\ Budget(NumTokens[i].c)
             /\ text' = text \o NumTokens[i].t /\ var' = var + NumTokens[i].c
             /\ Apply(Deliver(stack, [n |-> NumTokens[i].t])) /\ UNCHANGED str
Literal(i) == /\ UNCHANGED probe /\ act' = "Literal" /\ CanValue /\ Room /\ Scalars /\ Budget(Literals[i].c)
              /\ text' = text \o Literals[i].t /\ var' = var + Literals[i].c
              /\ Apply(Deliver(stack, Literals[i].v)) /\ UNCHANGED str
BeginStr == /\ UNCHANGED probe /\ act' = "BeginStr" /\ Room /\ (IF CanKey THEN ~Linear ELSE CanValue /\ Scalars)
            /\ text' = Append(text, 34)
            /\ str' = [on |-> TRUE, key |-> CanKey, acc |-> <<>>, n |-> 0]
            /\ UNCHANGED <<stack, done, val, var>>
StrChar(i) == /\ UNCHANGED probe /\ act' = "StrChar" /\ InStr /\ str.n < MaxStr /\ Budget(StrChars[i].c)
              /\ text' = text \o StrChars[i].t /\ var' = var + StrChars[i].c
              /\ str' = [str EXCEPT !.acc = @ \o StrChars[i].v, !.n = @ + 1]
              /\ UNCHANGED <<stack, done, val>>
EndStr == /\ UNCHANGED probe /\ act' = "EndStr" /\ InStr
          /\ text' = Append(text, 34) /\ str' = NoStr /\ UNCHANGED var
          /\ IF str.key
             THEN /\ \A j \in 1..Len(Top.items) : Top.items[j][1] # str.acc       \* keys of one object are distinct
                  /\ stack' = [stack EXCEPT ![Len(stack)] = [@ EXCEPT !.st = "key", !.key = str.acc]]
                  /\ UNCHANGED <<done, val>>
             ELSE Apply(Deliver(stack, [s |-> str.acc]))
Colon == /\ UNCHANGED probe /\ act' = "Colon" /\ ~done /\ ~InStr /\ (IF stack = <<>> THEN FALSE ELSE Top.st = "key")
         /\ text' = Append(text, 58)
         /\ stack' = [stack EXCEPT ![Len(stack)] = [@ EXCEPT !.st = "afterColon"]]
         /\ UNCHANGED <<str, done, val, var>>
Begin(k) == /\ UNCHANGED probe /\ act' = "Begin" /\ CanValue /\ Room /\ Len(stack) < MaxDepth /\ ~Linear
            /\ text' = Append(text, IF k = "a" THEN 91 ELSE 123)
            /\ stack' = Append(stack, [k |-> k, st |-> "first", items |-> <<>>, key |-> <<>>])
            /\ UNCHANGED <<str, done, val, var>>
End == /\ UNCHANGED probe /\ act' = "End" /\ ~done /\ ~InStr /\ ~Linear /\ (IF stack = <<>> THEN FALSE ELSE Top.st \in {"first", "afterItem"})
       /\ text' = Append(text, IF Top.k = "a" THEN 93 ELSE 125)
       /\ Apply(Deliver(SubSeq(stack, 1, Len(stack) - 1), IF Top.k = "a" THEN [a |-> Top.items] ELSE [o |-> Top.items]))
       /\ UNCHANGED <<str, var>>
Comma == /\ UNCHANGED probe /\ act' = "Comma" /\ ~done /\ ~InStr /\ Room
         /\ (IF stack = <<>> THEN FALSE ELSE Top.st = "afterItem" /\ Len(Top.items) < MaxItems)
         /\ text' = Append(text, 44)
         /\ stack' = [stack EXCEPT ![Len(stack)] = [@ EXCEPT !.st = "sep"]]
         /\ UNCHANGED <<str, done, val, var>>
\* Linear mode (nesting depth): open / close up to Stride levels in one step; array and object levels alternate, an
\* object level is opened as  {"":  (its only member is the next level)
RECURSIVE OpenN(_, _, _)
OpenN(stk, txt, n) ==
    IF n = 0 \/ Len(stk) = MaxDepth THEN [stack |-> stk, text |-> txt]
    ELSE IF Len(stk) % 2 = 0
         THEN OpenN(Append(stk, [k |-> "a", st |-> "first", items |-> <<>>, key |-> <<>>]), Append(txt, 91), n - 1)
         ELSE OpenN(Append(stk, [k |-> "o", st |-> "afterColon", items |-> <<>>, key |-> <<>>]), txt \o <<123, 34, 34, 58>>, n - 1)
RECURSIVE CloseN(_, _, _)
CloseN(r, txt, n) ==   \* r = [stack, done, val]
    IF n = 0 \/ r.stack = <<>> THEN [r |-> r, text |-> txt]
    ELSE LET f == r.stack[Len(r.stack)] IN
         CloseN(Deliver(SubSeq(r.stack, 1, Len(r.stack) - 1), IF f.k = "a" THEN [a |-> f.items] ELSE [o |-> f.items]),
                Append(txt, IF f.k = "a" THEN 93 ELSE 125), n - 1)
DeepBegin == /\ UNCHANGED probe /\ act' = "DeepBegin" /\ Linear /\ CanValue /\ Len(stack) < MaxDepth
             /\ LET o == OpenN(stack, text, Stride) IN stack' = o.stack /\ text' = o.text
             /\ UNCHANGED <<str, done, val, var>>
DeepEnd == /\ UNCHANGED probe /\ act' = "DeepEnd" /\ Linear /\ ~done /\ ~InStr /\ (IF stack = <<>> THEN FALSE ELSE Top.st = "afterItem" \/ (Top.st = "first" /\ Len(stack) = MaxDepth))
           /\ LET c == CloseN([stack |-> stack, done |-> FALSE, val |-> NoVal], text, Stride) IN Apply(c.r) /\ text' = c.text
           /\ UNCHANGED <<str, var>>
\* Totality beyond the conformance bound: documents nested far deeper than 512 levels (the property demands that
\* decoding *any* byte string terminates without a memory error).  They are described by run lengths
\* (unit bytes, count) and expanded by the replayer; no expectation on the result.  Beyond ProbeSafe levels the
\* recursive destruction of the resulting Var tree is a known hazard of the pinned tree (NestingBeyondStack).
ProbeDepths == {2000, 5000, 20000, 200000, 1000000}
ProbeSafe == 5000
Probe(n, obj) == /\ Linear /\ text = <<>> /\ probe = 0 /\ n \in ProbeDepths
                 /\ probe' = (IF obj THEN -n ELSE n) /\ act' = "Probe"
                 /\ UNCHANGED <<text, stack, str, done, val, var>>
\* insignificant white space: before any token and after the document; at most one variant between two tokens
Ws(i) == /\ UNCHANGED probe /\ act' = "Ws" /\ ~InStr /\ Budget(1) /\ probe = 0
         /\ (IF text = <<>> THEN TRUE ELSE text[Len(text)] \notin WS)
         /\ (done \/ Room)
         /\ text' = text \o WsVariants[i] /\ var' = var + 1
         /\ UNCHANGED <<stack, str, done, val>>

Next == \/ \E i \in 1..Len(NumTokens) : Number(i)
        \/ \E i \in 1..Len(Literals) : Literal(i)
        \/ BeginStr \/ EndStr \/ Colon \/ End \/ Comma
        \/ \E i \in 1..Len(StrChars) : StrChar(i)
        \/ Begin("a") \/ Begin("o") \/ DeepBegin \/ DeepEnd
        \/ \E n \in ProbeDepths, obj \in BOOLEAN : Probe(n, obj)
        \/ \E i \in 1..Len(WsVariants) : Ws(i)
Spec == Init /\ [][Next]_vars

-------------------------------------------------------------------------------
Inside == stack # <<>> \/ InStr                     \* the text ends inside a container or a string
Kind3 == IF done THEN "doc" ELSE IF Inside THEN "prefix" ELSE "open"

GenRecAgree == done => LET r == Doc(text) IN r.ok /\ r.v = val
PrefixRejected == (~done /\ Inside) => ~Doc(text).ok
NoExcluded == done => ~Doc(text).ex /\ ~DupKeys(val)
TypeOK == /\ var \in 0..MaxVar /\ Len(stack) <= MaxDepth /\ done \in BOOLEAN
          /\ (done => stack = <<>> /\ ~InStr)
\* the deep configuration must really reach the nesting bound
RECURSIVE DepthOf(_)
DepthOf(v) == IF Kind(v) = "a" THEN (IF v.a = <<>> THEN 1 ELSE 1 + DepthOf(v.a[1]))
              ELSE IF Kind(v) = "o" THEN (IF v.o = <<>> THEN 1 ELSE 1 + DepthOf(v.o[1][2])) ELSE 0
DeepOK == (done /\ Linear) => DepthOf(val) = MaxDepth

-------------------------------------------------------------------------------
(* expected value for the replayer: number tokens are accompanied by the IEEE pattern TLC can compute for them
   (d = <<>> when the token is not a small dyadic number: then only "is a number" is compared in R; its exact value
   is the business of the V direction, where TLC evaluates WithinHalfUlp on the decoded bits) *)
RECURSIVE Expect(_)
Expect(v) ==
    LET k == Kind(v) IN
    IF k = "n" THEN LET sd == SimpleDbl(Canon(v.n)) IN [n |-> v.n, d |-> IF sd.ok THEN sd.d ELSE <<>>]
    ELSE IF k = "a" THEN [a |-> [i \in 1..Len(v.a) |-> Expect(v.a[i])]]
    ELSE IF k = "o" THEN [o |-> [i \in 1..Len(v.o) |-> <<v.o[i][1], Expect(v.o[i][2])>>]]
    ELSE IF k = "b" THEN [b |-> IF v.b THEN 1 ELSE 0]
    ELSE v
View == <<text, stack, str, done, var, probe>>
Abs(x) == IF x < 0 THEN -x ELSE x
ProbeCase == [t |-> <<>>, k |-> "any", act |-> act', v |-> [z |-> 0], fin |-> 0,
              rle |-> IF probe' > 0 THEN << <<(<<91>>), probe'>>, <<(<<93>>), probe'>> >>
                      ELSE << <<(<<123, 34, 97, 34, 58>>), -probe'>>, <<(<<49>>), 1>>, <<(<<125>>), -probe'>> >>,
              hz |-> IF Abs(probe') > ProbeSafe THEN {"NestingBeyondStack"} ELSE {}]
Emit == IF probe' # 0 THEN PrintT(ToJson(ProbeCase)) ELSE
        PrintT(ToJson([t |-> text', k |-> IF done' THEN "doc" ELSE IF (stack' # <<>> \/ str'.on) THEN "prefix" ELSE "open",
                       act |-> act', v |-> Expect(val'), fin |-> IF done' THEN Doc(text').p - 1 ELSE 0]))
===============================================================================
