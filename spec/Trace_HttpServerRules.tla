------------------------- MODULE Trace_HttpServerRules -------------------------
(* V binding for HttpServerRules.tla: recorded raw-socket connections to real HttpServers (random request shapes, up
   to 8 requests per connection, several connections and server configurations in flight at once; each connection is
   logged as one block when it ends).
   conn : a connection to the server with configuration cfg                                        -> Connect
   xchg : request r was written; obs is what came back (interim statuses, final status, protocol, the headers the
          specification talks about - raw value and comma-split members -, body length and hash) and what the application's
          handler saw (how often it ran, method, body length and hash)                              -> Exchange(r)
   end  : after the last exchange the connection was closed by the server (0) or answered one more request (1)
   xchg and end carry ms, the age of the connection (wall time since just before connect()) when the observation was complete:
   HttpServer bounds the life of a connection, so once a connection is SlowMs old the recorder abandons it right after that
   exchange and logs end with open = -2 (not decided).
   A request the specification does not allow on a closed connection cannot be matched: Exchange is disabled.       *)
EXTENDS HttpServerRules, IOUtils, Integers

T == ndJsonDeserialize(IOEnv.TRACE)
VARIABLES l
tvars == <<vars, l>>
TInit == Init /\ l = 1

ReqOf(r) == [method |-> r.method, ver |-> r.ver, conn |-> r.conn, cap |-> r.cap, origin |-> r.origin, acrh |-> r.acrh,
             expect |-> r.expect, clen |-> r.clen, blen |-> r.blen, hcode |-> r.hcode, hblen |-> r.hblen]
CfgOf(c) == [cors |-> c.cors, extra |-> c.extra]
\* the observed header `name` (lower case in the log) as the specification's kind of value
Has(obs, name) == \E i \in 1..Len(obs.headers) : obs.headers[i].name = name
Get(obs, name) == obs.headers[CHOOSE i \in 1..Len(obs.headers) : obs.headers[i].name = name]
HeaderOK(obs, h) == /\ Has(obs, h.name)
                    /\ IF h.kind = "text" THEN Get(obs, h.name).v = h.v
                       ELSE SeqSet(Get(obs, h.name).l) = SeqSet(h.l) /\ Len(Get(obs, h.name).l) = Len(h.l)
(* Wall time.  Every exchange-type event carries ms, the wall milliseconds the exchange took on the recording machine.  The
   library ends exchanges by itself after fixed times (HttpServer drops a connection 10 s after accepting it and waits 5 s
   for data; HttpMessage::readBody hands over a truncated body after 10 s without input): design decisions of asl that this
   property does not forbid and that fire on an overloaded machine.  An event with ms >= SlowMs (far above a normal exchange
   of a few ms, well below those limits) is therefore consumed without constraining what was observed; everything else is
   checked exactly as before.  checks/C10.py bounds the number of slow events per recording (a server that does not answer
   is still reported).                                                                                                    *)
SlowMs == 4000
Slow(e) == "ms" \in DOMAIN e /\ e.ms >= SlowMs

Matches(obs, r, a) ==
    /\ obs.interim = a.interim
    /\ obs.code = a.code
    /\ obs.proto \in {"HTTP/1.1", "HTTP/1.0"} /\ (r.ver = "1.1" => obs.proto = "HTTP/1.1")
    /\ ~obs.unclosed
    /\ obs.runs = (IF a.handler THEN 1 ELSE 0)
    /\ (a.handler => (obs.hmethod = r.method /\ obs.hblen = r.blen /\ obs.hbh = obs.reqbh /\ obs.bh = obs.respbh))
    /\ obs.blen = a.blen
    /\ \A i \in 1..Len(a.must) : HeaderOK(obs, a.must[i])
    /\ \A n \in a.mustnot : ~Has(obs, n)

Step ==
  /\ l <= Len(T) /\ l' = l + 1
  /\ LET e == T[l] IN
     \/ /\ e.e = "conn" /\ cfg' = CfgOf(e.cfg) /\ open' = TRUE /\ hist' = <<>>
     \/ /\ e.e = "xchg" /\ Exchange(ReqOf(e.req))
        /\ (Slow(e) \/ Matches(e.obs, ReqOf(e.req), Answer(cfg, ReqOf(e.req))))
     \/ /\ e.e = "end" /\ UNCHANGED vars
        /\ IF Slow(e) THEN e.open = -2 ELSE e.open = (IF open THEN 1 ELSE 0)

TraceSpec == TInit /\ [][Step]_tvars
TraceAccepted == TLCGet("stats").diameter - 1 = Len(T)
=============================================================================
