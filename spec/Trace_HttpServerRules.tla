------------------------- MODULE Trace_HttpServerRules -------------------------
(* V binding for HttpServerRules.tla: recorded raw-socket connections to real HttpServers (random request shapes, up
   to 8 requests per connection, several connections and server configurations in flight at once; each connection is
   logged as one block when it ends).
   conn : a connection to the server with configuration cfg                                        -> Connect
   xchg : request r was written; obs is what came back (interim statuses, final status, protocol, the headers the
          specification talks about - raw value and comma-split members -, body length and hash) and what the application's
          handler saw (how often it ran, method, body length and hash)                              -> Exchange(r)
   end  : after the last exchange the connection was closed by the server (0) or answered one more request (1)
   A request the specification does not allow on a closed connection cannot be matched: Exchange is disabled.       *)
EXTENDS HttpServerRules, IOUtils

T == ndJsonDeserialize(IOEnv.TRACE)
VARIABLES l
tvars == <<vars, l>>
TInit == Init /\ l = 1

ReqOf(r) == [method |-> r.method, ver |-> r.ver, conn |-> r.conn, cap |-> r.cap, origin |-> r.origin, acrh |-> r.acrh,
             expect |-> r.expect, clen |-> r.clen, blen |-> r.blen, hcode |-> r.hcode, hblen |-> r.hblen]
CfgOf(c) == [cors |-> c.cors, extra |-> c.extra]
\* the observed header `name` (lower case in the log) as the specification's kind of value
Has(obs, name) == \E i \in 1..Len(obs.headers) : obs.headers[i].name = name
Get(obs, name) == obs.headers[CHOOSE i \in 1..Len(obs.headers) : obs.headers[i].name = name]
HeaderOK(obs, h) == /\ Has(obs, h.name)
                    /\ IF h.kind = "text" THEN Get(obs, h.name).v = h.v
                       ELSE SeqSet(Get(obs, h.name).l) = SeqSet(h.l) /\ Len(Get(obs, h.name).l) = Len(h.l)
Matches(obs, r, a) ==
    /\ obs.interim = a.interim
    /\ obs.code = a.code
    /\ obs.proto \in {"HTTP/1.1", "HTTP/1.0"} /\ (r.ver = "1.1" => obs.proto = "HTTP/1.1")
    /\ ~obs.unclosed
    /\ obs.runs = (IF a.handler THEN 1 ELSE 0)
    /\ (a.handler => (obs.hmethod = r.method /\ obs.hblen = r.blen /\ obs.hbh = obs.reqbh /\ obs.bh = obs.respbh))
    /\ obs.blen = a.blen
    /\ \A i \in 1..Len(a.must) : HeaderOK(obs, a.must[i])
    /\ \A n \in a.mustnot : ~Has(obs, n)

Step ==
  /\ l <= Len(T) /\ l' = l + 1
  /\ LET e == T[l] IN
     \/ /\ e.e = "conn" /\ cfg' = CfgOf(e.cfg) /\ open' = TRUE /\ hist' = <<>>
     \/ /\ e.e = "xchg" /\ Exchange(ReqOf(e.req))
        /\ Matches(e.obs, ReqOf(e.req), Answer(cfg, ReqOf(e.req)))
     \/ /\ e.e = "end" /\ e.open = (IF open THEN 1 ELSE 0) /\ UNCHANGED vars

TraceSpec == TInit /\ [][Step]_tvars
TraceAccepted == TLCGet("stats").diameter - 1 = Len(T)
=============================================================================
