SPECIFICATION Spec
CONSTANTS
 BinChunks <- QBin
 TextChunks <- QTxt
 ReadSizes = {0, 1, 2, 5}
 ShapeRuns <- NoRuns
 ShapeSegs = 0
 EncScalars <- NoScalars
 EncMaxLen = 0
 MaxLen = 5
 MaxOps = 4
 TmpPaths = {"p", "q"}
 QueryKinds = {}
 KeepHist = TRUE
VIEW View
ACTION_CONSTRAINT Emit
INVARIANTS TypeOK HandleOK LinesOK
PROPERTIES Independence CopyExact
CHECK_DEADLOCK FALSE
