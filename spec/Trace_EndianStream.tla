-------------------------- MODULE Trace_EndianStream --------------------------
(* V binding for C16: validates executions recorded from the real StreamBuffer/StreamBufferReader, File and Socket
   (harness/c16_record.cpp) against the actions of EndianStream.  Every write event carries the bytes that were
   observed on the sink (buffer contents, file read with POSIX calls, bytes peeked on the peer socket); every read
   event carries the value the reader returned.  TLC computes the expected bytes/values from the logged arguments:
   the trace is accepted iff every line is the corresponding EndianStream step with exactly those bytes/values.
   The caller's long-lived objects ("new" / "wp" = stream << object i / "pset" = assignment by the caller / "pchk")
   are the specification's pool: a "wp" event carries the bytes observed on the sink and the value the object holds
   after the call (read through the other handle on its buffer), a "pchk" event the value some object holds at that
   moment; both must equal the specification's pool entry, which only "new" and "pset" ever change.               *)
EXTENDS EndianStream, IOUtils

T == ndJsonDeserialize(IOEnv.TRACE)
VARIABLE l
tvars == <<vars, l>>

TInit == Init /\ l = 1

LastRec == hist'[Len(hist')]

TStep ==
  /\ l <= Len(T)
  /\ l' = l + 1
  /\ LET e == T[l] IN
     \/ /\ e.op = "reset"
        /\ worder' = e.wo /\ rorder' = e.ro /\ out' = <<>> /\ hist' = <<>> /\ hz' = {} /\ pool' = <<>>
     \/ /\ e.op = "set"  /\ SetOrder(e.o)
     \/ /\ e.op = "rset" /\ RSetOrder(e.o)
     \/ /\ e.op = "w"  /\ e.t \in AllTypes /\ Write(e.t, e.v)      /\ out' = out \o e.d
     \/ /\ e.op = "wa" /\ e.t \in AllTypes /\ WriteArray(e.t, e.a) /\ out' = out \o e.d
     \/ /\ e.op = "ws" /\ WriteString(e.s)                          /\ out' = out \o e.d
     \/ /\ e.op = "r"  /\ e.t \in AllTypes /\ Read(e.t) /\ LastRec.v = e.v
     \/ /\ e.op = "rs" /\ ReadRaw(e.n) /\ LastRec.s = e.s
     \/ /\ e.op = "new"  /\ e.t \in AllTypes /\ NewObj(e.k, e.t, e.a)
     \/ /\ e.op = "pset" /\ PoolSet(e.i, e.j, e.v)
     \/ /\ e.op = "wp"   /\ WriteObj(e.i) /\ out' = out \o e.d /\ pool'[e.i].a = e.p
     \/ /\ e.op = "pchk" /\ e.i \in 1..Len(pool)
        /\ IF e.i \in 1..Len(pool) THEN pool[e.i].a = e.p ELSE FALSE
        /\ UNCHANGED vars

TraceSpec == TInit /\ [][TStep]_tvars
TraceAccepted == TLCGet("stats").diameter - 1 = Len(T)
===============================================================================
