-------------------------- MODULE Trace_EndianStream --------------------------
(* V binding for C16: validates executions recorded from the real StreamBuffer/StreamBufferReader, File and Socket
   (harness/c16_record.cpp) against the actions of EndianStream.  Every write event carries the bytes that were
   observed on the sink (buffer contents, file read with POSIX calls, bytes peeked on the peer socket); every read
   event carries the value the reader returned.  TLC computes the expected bytes/values from the logged arguments:
   the trace is accepted iff every line is the corresponding EndianStream step with exactly those bytes/values.   *)
EXTENDS EndianStream, IOUtils

T == ndJsonDeserialize(IOEnv.TRACE)
VARIABLE l
tvars == <<vars, l>>

TInit == Init /\ l = 1

LastRec == hist'[Len(hist')]

TStep ==
  /\ l <= Len(T)
  /\ l' = l + 1
  /\ LET e == T[l] IN
     \/ /\ e.op = "reset"
        /\ worder' = e.wo /\ rorder' = e.ro /\ out' = <<>> /\ hist' = <<>> /\ hz' = {}
     \/ /\ e.op = "set"  /\ SetOrder(e.o)
     \/ /\ e.op = "rset" /\ RSetOrder(e.o)
     \/ /\ e.op = "w"  /\ e.t \in AllTypes /\ Write(e.t, e.v)      /\ out' = out \o e.d
     \/ /\ e.op = "wa" /\ e.t \in AllTypes /\ WriteArray(e.t, e.a) /\ out' = out \o e.d
     \/ /\ e.op = "ws" /\ WriteString(e.s)                          /\ out' = out \o e.d
     \/ /\ e.op = "r"  /\ e.t \in AllTypes /\ Read(e.t) /\ LastRec.v = e.v
     \/ /\ e.op = "rs" /\ ReadRaw(e.n) /\ LastRec.s = e.s

TraceSpec == TInit /\ [][TStep]_tvars
TraceAccepted == TLCGet("stats").diameter - 1 = Len(T)
===============================================================================
