SPECIFICATION TraceSpec
CONSTANTS
 Native = "LITTLE"
 ScalarTypes = {}
 ArrayTypes = {}
 ArrayLens = {}
 NVals = 0
 MaxOps = 0
 PoolTypeSeqs <- PoolsNone
 PoolLens <- LensNone
 PoolSetIdx = {}
 KeepHist = FALSE
 BufCtors = {}
 ReaderCtors = {}
 RawChunks = {}
 Windows = {}
 ReadTypes = {}
 ByteCounts = {}
INVARIANTS BTypeOK ExhaustionReported
PROPERTIES BOrderOnlyLater Independent Forward
POSTCONDITION TraceAccepted
CHECK_DEADLOCK FALSE
