SPECIFICATION Spec
CONSTANTS
 MaxTok = 4
 MaxTokP2 = 2
 MaxTokQ = 2
 TokSet = {1, 2, 3, 4, 5, 6, 7}
ACTION_CONSTRAINT Emit
INVARIANTS LawsName LawsExt LawsAbs LawsRemoveDD LawsPair
CHECK_DEADLOCK FALSE
