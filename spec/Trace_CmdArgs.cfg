SPECIFICATION TraceSpec
CONSTANTS
 Tokens <- NoTokens
 MaxToks = 0
 Specs <- NoSpecs
 Probes <- NoProbes
 MaxQ = 0
POSTCONDITION TraceAccepted
CHECK_DEADLOCK FALSE
