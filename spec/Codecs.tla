-------------------------------- MODULE Codecs --------------------------------
(* C15 - the byte/text codecs of asl as executable TLA+ functions (no variables, no constants: this module is a
   library and is re-used by other specifications, e.g. the WebSocket handshake needs B64Enc and Sha1Bytes).

   Conventions: a byte string / text is a sequence of naturals 0..255 (TLC strings are atomic); every operator is
   total on such sequences.  Decoders return a record [ok |-> BOOLEAN, v |-> bytes]: ok = "the text belongs to the
   language of the standard" (then v is THE decoded value), ~ok = the standard does not define a result (the
   property then only bounds the implementation's result, see *Bound below).

     B64Enc(bytes)            RFC 4648 section 4 text (character codes), with padding
     B64EncBits(bytes)        the same function defined on the bit string (independent formulation)
     B64DecNoWs(text)         strict decoder (length multiple of 4, padding only at the end)
     B64DecWs(text)           the same after removing white space anywhere (what asl documents)
     B64DecMachine(text)      character machine shaped like the implementation (agrees with B64DecWs on its domain)
     HexEnc / HexDec          lowercase hex text; the decoder accepts both cases
     PctEnc(s, comp) / PctDec percent-encoding with the two unreserved sets of RFC 2396 / ECMAScript
     Params(d) / ParseQuery   application/x-www-form-urlencoded query strings <-> sequences of <<key, value>>
     Sha1(bytes)              FIPS 180-4 SHA-1, five 32-bit words as <<hi16, lo16>> limbs (TLC integers are 32-bit signed)
     Sha1Bytes(bytes)         the 20 digest bytes
     Sha1Circ(bytes)          SHA-1 with the 16-word circular message schedule (FIPS 180-4 section 6.1.3; the shape
                              of the implementation) - checked equal to Sha1
   All recursion is by bisection (logarithmic depth) and each block's chaining value is forced before the next block, but
   the 80 lazily evaluated rounds of one block still need more than TLC's default stack: run with -Xss16m or more.  *)
EXTENDS Naturals, Sequences, Bitwise

-------------------------------------------------------------------------------
(* generic helpers, all non-recursive or logarithmic in depth so that megabyte inputs can be evaluated *)
Idx(s)          == [i \in 1..Len(s) |-> i]
IsWs(c)         == c \in {32, 9, 10, 13}
StripWs(t)      == SelectSeq(t, LAMBDA c : ~IsWs(c))
\* concatenation of a sequence of sequences by bisection (depth log n)
RECURSIVE CatSeq(_, _, _)
CatSeq(ps, lo, hi) == IF lo > hi THEN <<>>
                      ELSE IF lo = hi THEN ps[lo]
                      ELSE LET mid == (lo + hi) \div 2 IN CatSeq(ps, lo, mid) \o CatSeq(ps, mid + 1, hi)
Cat(ps) == CatSeq(ps, 1, Len(ps))
\* positions of the separator c in t, and the pieces between them (k separators -> k+1 pieces, possibly empty)
Positions(t, c) == SelectSeq(Idx(t), LAMBDA i : t[i] = c)
SplitOn(t, c)   == LET ps == Positions(t, c)
                       k  == Len(ps)
                       From(j) == IF j = 1 THEN 1 ELSE ps[j-1] + 1
                       To(j)   == IF j = k + 1 THEN Len(t) ELSE ps[j] - 1
                   IN [j \in 1..(k+1) |-> SubSeq(t, From(j), To(j))]

-------------------------------------------------------------------------------
(* Base64, RFC 4648 section 4 *)
B64Sym(v) == IF v < 26 THEN 65 + v ELSE IF v < 52 THEN 71 + v ELSE IF v < 62 THEN v - 4 ELSE IF v = 62 THEN 43 ELSE 47
B64Val(c) == IF c \in 65..90 THEN c - 65 ELSE IF c \in 97..122 THEN c - 71 ELSE IF c \in 48..57 THEN c + 4
             ELSE IF c = 43 THEN 62 ELSE IF c = 47 THEN 63 ELSE 99            \* 99: not a symbol
IsB64Sym(c) == B64Val(c) < 64
Pad == 61

B64Enc(x) ==
    LET n == Len(x)
        At(i) == IF i <= n THEN x[i] ELSE 0
        Ch(j) == LET q  == (j - 1) \div 4
                     r  == (j - 1) % 4
                     b0 == At(3*q + 1)
                     b1 == At(3*q + 2)
                     b2 == At(3*q + 3)
                 IN IF r = 0 THEN B64Sym(b0 \div 4)
                    ELSE IF r = 1 THEN B64Sym((b0 % 4) * 16 + b1 \div 16)
                    ELSE IF r = 2 THEN (IF 3*q + 2 > n THEN Pad ELSE B64Sym((b1 % 16) * 4 + b2 \div 64))
                    ELSE (IF 3*q + 3 > n THEN Pad ELSE B64Sym(b2 % 64))
    IN [j \in 1..(4 * ((n + 2) \div 3)) |-> Ch(j)]

\* second formulation: the input as a bit string, cut into sextets, padded to a multiple of four characters
BitAt(x, k) == (x[(k - 1) \div 8 + 1] \div 2^(7 - ((k - 1) % 8))) % 2
B64EncBits(x) ==
    LET nb == 8 * Len(x)
        ns == (nb + 5) \div 6
        Bit(k) == IF k <= nb THEN BitAt(x, k) ELSE 0
        Sext(s) == 32*Bit(6*s - 5) + 16*Bit(6*s - 4) + 8*Bit(6*s - 3) + 4*Bit(6*s - 2) + 2*Bit(6*s - 1) + Bit(6*s)
    IN [j \in 1..(4 * ((ns + 3) \div 4)) |-> IF j <= ns THEN B64Sym(Sext(j)) ELSE Pad]

NoValue == [ok |-> FALSE, v |-> <<>>]
B64DecNoWs(t) ==
    LET n   == Len(t)
        pad == IF n >= 1 /\ t[n] = Pad THEN (IF n >= 2 /\ t[n-1] = Pad THEN 2 ELSE 1) ELSE 0
        m   == (n \div 4) * 3 - pad
        V(i) == B64Val(t[i])
        Byte(k) == LET o == 4 * ((k - 1) \div 3)
                       r == (k - 1) % 3
                   IN IF r = 0 THEN V(o+1) * 4 + V(o+2) \div 16
                      ELSE IF r = 1 THEN (V(o+2) % 16) * 16 + V(o+3) \div 4
                      ELSE (V(o+3) % 4) * 64 + V(o+4)
    IN IF n % 4 = 0 /\ \A i \in 1..(n - pad) : IsB64Sym(t[i])
       THEN [ok |-> TRUE, v |-> [k \in 1..m |-> Byte(k)]]
       ELSE NoValue
B64DecWs(t) == B64DecNoWs(StripWs(t))
\* canonical texts: the image of the encoder (a decoder must map exactly these back; RFC 4648 3.5 lets decoders
\* reject or accept non-zero trailing bits, so other "ok" texts have no prescribed value)
B64Canon(t) == LET r == B64DecWs(t) IN r.ok /\ B64Enc(r.v) = StripWs(t)

\* character machine: white space skipped, four sextets make three bytes, '=' counts as a zero sextet and
\* removes one byte at the end.  Defined (ok) on the same texts as B64DecWs.
RECURSIVE B64Mach(_, _, _, _, _)
B64Mach(t, p, k, out, pads) ==
    IF p > Len(t) THEN (IF k = <<>> /\ pads <= 2 /\ pads <= Len(out) THEN [ok |-> TRUE, v |-> SubSeq(out, 1, Len(out) - pads)] ELSE NoValue)
    ELSE LET c == t[p] IN
         IF IsWs(c) THEN B64Mach(t, p + 1, k, out, pads)
         ELSE IF c = Pad THEN
              (IF Len(k) < 2 \/ pads >= 2 THEN NoValue
               ELSE LET k2 == Append(k, 0) IN
                    IF Len(k2) = 4
                    THEN B64Mach(t, p + 1, <<>>, out \o <<k2[1]*4 + k2[2] \div 16, (k2[2] % 16)*16 + k2[3] \div 4, (k2[3] % 4)*64 + k2[4]>>, pads + 1)
                    ELSE B64Mach(t, p + 1, k2, out, pads + 1))
         ELSE IF ~IsB64Sym(c) \/ pads > 0 THEN NoValue
         ELSE LET k2 == Append(k, B64Val(c)) IN
              IF Len(k2) = 4
              THEN B64Mach(t, p + 1, <<>>, out \o <<k2[1]*4 + k2[2] \div 16, (k2[2] % 16)*16 + k2[3] \div 4, (k2[3] % 4)*64 + k2[4]>>, 0)
              ELSE B64Mach(t, p + 1, k2, out, 0)
B64DecMachine(t) == B64Mach(t, 1, <<>>, <<>>, 0)

\* what the property demands of a decoder on texts without a prescribed value
B64Bound(t) == (Len(t) \div 4) * 3

-------------------------------------------------------------------------------
(* hexadecimal *)
HexDigit(v)  == IF v < 10 THEN 48 + v ELSE 87 + v                \* lowercase
HexDigitU(v) == IF v < 10 THEN 48 + v ELSE 55 + v                \* uppercase
HexVal(c)    == IF c \in 48..57 THEN c - 48 ELSE IF c \in 97..102 THEN c - 87 ELSE IF c \in 65..70 THEN c - 55 ELSE 99
IsHex(c)     == HexVal(c) < 16
HexEnc(x)    == [j \in 1..(2 * Len(x)) |-> IF j % 2 = 1 THEN HexDigit(x[(j + 1) \div 2] \div 16) ELSE HexDigit(x[j \div 2] % 16)]
HexEncU(x)   == [j \in 1..(2 * Len(x)) |-> IF j % 2 = 1 THEN HexDigitU(x[(j + 1) \div 2] \div 16) ELSE HexDigitU(x[j \div 2] % 16)]
HexDec(t)    == IF Len(t) % 2 = 0 /\ \A i \in 1..Len(t) : IsHex(t[i])
                THEN [ok |-> TRUE, v |-> [k \in 1..(Len(t) \div 2) |-> 16 * HexVal(t[2*k - 1]) + HexVal(t[2*k])]]
                ELSE NoValue
HexBound(t)  == (Len(t) + 1) \div 2

-------------------------------------------------------------------------------
(* percent-encoding.  Unreserved characters of RFC 2396 (= ECMAScript encodeURIComponent): alphanumerics and
   - _ . ! ~ * ' ( ) ; the whole-URI mode additionally keeps the reserved characters ; / ? : @ & = + $ , #       *)
IsAlnum(c)    == c \in 48..57 \/ c \in 65..90 \/ c \in 97..122
Mark          == {45, 95, 46, 33, 126, 42, 39, 40, 41}
Reserved      == {59, 47, 63, 58, 64, 38, 61, 43, 36, 44, 35}
KeptRaw(c, comp) == IsAlnum(c) \/ c \in Mark \/ (~comp /\ c \in Reserved)
PctPiece(c, comp)  == IF KeptRaw(c, comp) THEN <<c>> ELSE <<37, HexDigitU(c \div 16), HexDigitU(c % 16)>>
PctPieceL(c, comp) == IF KeptRaw(c, comp) THEN <<c>> ELSE <<37, HexDigit(c \div 16), HexDigit(c % 16)>>
PctEnc(s, comp)  == Cat([i \in 1..Len(s) |-> PctPiece(s[i], comp)])
PctEncL(s, comp) == Cat([i \in 1..Len(s) |-> PctPieceL(s[i], comp)])      \* lowercase escapes (equally valid)
PctEncAll(s)     == Cat([i \in 1..Len(s) |-> <<37, HexDigitU(s[i] \div 16), HexDigitU(s[i] % 16)>>])
\* strict decoder: every '%' is followed by two hex digits.  Because a hex digit is never '%', the positions covered
\* by an escape are exactly those one or two places after a '%'.
PctValid(t) == \A i \in 1..Len(t) : t[i] = 37 => (i + 2 <= Len(t) /\ IsHex(t[i+1]) /\ IsHex(t[i+2]))
PctDec(t) ==
    IF ~PctValid(t) THEN NoValue
    ELSE LET Covered(i) == (i > 1 /\ t[i-1] = 37) \/ (i > 2 /\ t[i-2] = 37)
             ix == SelectSeq(Idx(t), LAMBDA i : ~Covered(i))
         IN [ok |-> TRUE, v |-> [k \in 1..Len(ix) |-> IF t[ix[k]] = 37 THEN 16 * HexVal(t[ix[k] + 1]) + HexVal(t[ix[k] + 2]) ELSE t[ix[k]]]]
\* a text is an acceptable encoding of s in a mode iff it decodes to s and leaves raw only characters that the mode
\* allows to stay raw (an encoder may escape more than it has to, never less)
PctEncodes(t, s, comp) == LET r == PctDec(t) IN
                          /\ r.ok /\ r.v = s
                          /\ \A i \in 1..Len(t) : t[i] = 37 \/ IsHex(t[i]) \/ KeptRaw(t[i], comp)

(* query strings: d is a sequence of <<key, value>> pairs (keys non-empty and distinct, no NUL bytes) *)
PairText(kv)  == PctEnc(kv[1], TRUE) \o <<61>> \o PctEnc(kv[2], TRUE)
Params(d)     == Cat([i \in 1..Len(d) |-> IF i = 1 THEN PairText(d[i]) ELSE <<38>> \o PairText(d[i])])
PlusToSpace(t) == [i \in 1..Len(t) |-> IF t[i] = 43 THEN 32 ELSE t[i]]
\* pieces between '&'; a piece counts iff it has an '=' after a non-empty key; key and value are percent-decoded;
\* a repeated key keeps its last value.  ok iff every counted piece is strictly decodable without NUL bytes.
ParseQuery(t) ==
    LET ps == SplitOn(PlusToSpace(t), 38)
        Eq(p) == LET e == Positions(p, 61) IN IF e = <<>> THEN 0 ELSE e[1]
        counted == SelectSeq(ps, LAMBDA p : Eq(p) > 1)
        K(p) == PctDec(SubSeq(p, 1, Eq(p) - 1))
        W(p) == PctDec(SubSeq(p, Eq(p) + 1, Len(p)))
        n == Len(counted)
        good == \A i \in 1..n : /\ K(counted[i]).ok /\ W(counted[i]).ok
                                /\ \A j \in 1..Len(K(counted[i]).v) : K(counted[i]).v[j] # 0
                                /\ \A j \in 1..Len(W(counted[i]).v) : W(counted[i]).v[j] # 0
        lastOf(i) == \A j \in (i+1)..n : K(counted[j]).v # K(counted[i]).v
    IN IF ~good THEN [ok |-> FALSE, v |-> {}]
       ELSE [ok |-> TRUE, v |-> {<<K(counted[i]).v, W(counted[i]).v>> : i \in {j \in 1..n : lastOf(j)}}]
DictSet(d) == {d[i] : i \in 1..Len(d)}

-------------------------------------------------------------------------------
(* SHA-1, FIPS 180-4.  A 32-bit word is <<hi, lo>> with 16-bit limbs. *)
M16 == 65536
WXor(a, b) == <<a[1] ^^ b[1], a[2] ^^ b[2]>>
WAnd(a, b) == <<a[1] & b[1], a[2] & b[2]>>
WOr(a, b)  == <<a[1] | b[1], a[2] | b[2]>>
WNot(a)    == <<65535 - a[1], 65535 - a[2]>>
WAdd(a, b) == LET lo == a[2] + b[2]
                  hi == a[1] + b[1] + (lo \div M16)
              IN <<hi % M16, lo % M16>>
RotlS(a, n) == LET p == 2^n
                   q == 2^(16 - n)
               IN <<((a[1] * p) % M16) + (a[2] \div q), ((a[2] * p) % M16) + (a[1] \div q)>>       \* 0 < n < 16
Rotl(a, n)  == IF n = 0 THEN a ELSE IF n = 16 THEN <<a[2], a[1]>> ELSE IF n < 16 THEN RotlS(a, n) ELSE RotlS(<<a[2], a[1]>>, n - 16)
ShaK(t) == IF t < 20 THEN <<23170, 31129>> ELSE IF t < 40 THEN <<28377, 60321>> ELSE IF t < 60 THEN <<36635, 48348>> ELSE <<51810, 49622>>
ShaF(t, b, c, d) == IF t < 20 THEN WOr(WAnd(b, c), WAnd(WNot(b), d))
                    ELSE IF t < 40 THEN WXor(WXor(b, c), d)
                    ELSE IF t < 60 THEN WOr(WOr(WAnd(b, c), WAnd(b, d)), WAnd(c, d))
                    ELSE WXor(WXor(b, c), d)
\* Recursion is by bisection of the index range (depth log n): TLC's identifier lookup walks the chain of enclosing
\* operator applications, so linear recursion over 80 rounds / thousands of blocks makes evaluation quadratic.
RECURSIVE ShaSchedRange(_, _, _)
ShaSchedRange(w, lo, hi) ==          \* extends w (words 1..lo-1) with words lo..hi
    IF lo > hi THEN w
    ELSE IF lo = hi THEN Append(w, Rotl(WXor(WXor(w[lo-3], w[lo-8]), WXor(w[lo-14], w[lo-16])), 1))
    ELSE LET mid == (lo + hi) \div 2 IN ShaSchedRange(ShaSchedRange(w, lo, mid), mid + 1, hi)
ShaSched(w, t) == ShaSchedRange(w, t, 80)
ShaRound(s, w, t) == LET tmp == WAdd(WAdd(WAdd(WAdd(Rotl(s[1], 5), ShaF(t, s[2], s[3], s[4])), s[5]), ShaK(t)), w[t+1])
                     IN <<tmp, s[1], Rotl(s[2], 30), s[3], s[4]>>
RECURSIVE ShaRoundsRange(_, _, _, _)
ShaRoundsRange(s, w, lo, hi) ==      \* rounds lo..hi
    IF lo > hi THEN s
    ELSE IF lo = hi THEN ShaRound(s, w, lo)
    ELSE LET mid == (lo + hi) \div 2 IN ShaRoundsRange(ShaRoundsRange(s, w, lo, mid), w, mid + 1, hi)
ShaRounds(s, w, t) == ShaRoundsRange(s, w, t, 79)
ShaCompress(h, blockWords) == LET r == ShaRounds(h, ShaSched(blockWords, 17), 0) IN [i \in 1..5 |-> WAdd(h[i], r[i])]
\* 16-word circular schedule: W[s] is replaced in place (s = t mod 16), as in section 6.1.3 and in the implementation
\* one round on the pair <<working variables, 16-word window>>
ShaRoundCirc(sw, t) ==
    LET s  == sw[1]
        w  == sw[2]
        i  == (t % 16) + 1
        wt == IF t < 16 THEN w[i]
              ELSE Rotl(WXor(WXor(w[((t + 13) % 16) + 1], w[((t + 8) % 16) + 1]), WXor(w[((t + 2) % 16) + 1], w[i])), 1)
        tmp == WAdd(WAdd(WAdd(WAdd(Rotl(s[1], 5), ShaF(t, s[2], s[3], s[4])), s[5]), ShaK(t)), wt)
    IN << <<tmp, s[1], Rotl(s[2], 30), s[3], s[4]>>, [w EXCEPT ![i] = wt] >>
RECURSIVE ShaRoundsCircRange(_, _, _)
ShaRoundsCircRange(sw, lo, hi) ==
    IF lo > hi THEN sw
    ELSE IF lo = hi THEN ShaRoundCirc(sw, lo)
    ELSE LET mid == (lo + hi) \div 2 IN ShaRoundsCircRange(ShaRoundsCircRange(sw, lo, mid), mid + 1, hi)
ShaRoundsCirc(s, w, t) == ShaRoundsCircRange(<<s, w>>, t, 79)[1]
ShaCompressCirc(h, blockWords) == LET r == ShaRoundsCirc(h, blockWords, 0) IN [i \in 1..5 |-> WAdd(h[i], r[i])]
ShaH0 == << <<26437, 8961>>, <<61389, 43913>>, <<39098, 56574>>, <<4146, 21622>>, <<50130, 57840>> >>
\* padding: 0x80, k zero bytes, 64-bit big-endian bit length; total a multiple of 64 (message length < 2^28 bytes here)
ShaPad(bytes) == LET n == Len(bytes)
                     k == (119 - (n % 64)) % 64
                     hi == n \div 8192                   \* bit length = 8n = hi * 2^16 + lo
                     lo == (n % 8192) * 8
                 IN bytes \o <<128>> \o [i \in 1..k |-> 0] \o <<0, 0, 0, 0, hi \div 256, hi % 256, lo \div 256, lo % 256>>
ShaWords(p, blk) == [i \in 1..16 |-> LET o == (blk - 1) * 64 + (i - 1) * 4 IN <<p[o+1] * 256 + p[o+2], p[o+3] * 256 + p[o+4]>>]
RECURSIVE ShaFrom(_, _, _, _)
ShaFrom(h, p, blk, nblk) == IF blk > nblk THEN h
                            ELSE IF blk = nblk THEN ShaCompress(h, ShaWords(p, blk))
                            ELSE LET mid == (blk + nblk) \div 2
                                     h1  == ShaFrom(h, p, blk, mid)
                                 IN IF h1 = h1 THEN ShaFrom(h1, p, mid + 1, nblk) ELSE h1     \* the test forces h1 first (shallow stack)
RECURSIVE ShaFromCirc(_, _, _, _)
ShaFromCirc(h, p, blk, nblk) == IF blk > nblk THEN h
                                ELSE IF blk = nblk THEN ShaCompressCirc(h, ShaWords(p, blk))
                                ELSE LET mid == (blk + nblk) \div 2
                                         h1  == ShaFromCirc(h, p, blk, mid)
                                     IN IF h1 = h1 THEN ShaFromCirc(h1, p, mid + 1, nblk) ELSE h1
Sha1(bytes)      == LET p == ShaPad(bytes) IN ShaFrom(ShaH0, p, 1, Len(p) \div 64)
Sha1Circ(bytes)  == LET p == ShaPad(bytes) IN ShaFromCirc(ShaH0, p, 1, Len(p) \div 64)
WordsToBytes(ws) == [i \in 1..(4 * Len(ws)) |-> LET w == ws[(i + 3) \div 4]
                                                    r == (i - 1) % 4
                                                IN IF r = 0 THEN w[1] \div 256 ELSE IF r = 1 THEN w[1] % 256
                                                   ELSE IF r = 2 THEN w[2] \div 256 ELSE w[2] % 256]
Sha1Bytes(bytes) == WordsToBytes(Sha1(bytes))
Sha1Hex(bytes)   == HexEnc(Sha1Bytes(bytes))
\* text helper for test vectors written as TLA+ strings is not possible (strings are atomic): vectors are given as codes
===============================================================================
