----------------------------- MODULE JsonTextVar -----------------------------
(* C05 - the value side of the encode -> decode round trip.  The module enumerates Var trees (every scalar of a table
   of boundary values in every small shape, every pair of a smaller table in the two-item shapes, every byte 1..255
   as a one-character string and as a key, strings around the 7/8-byte inline boundary of Var, arrays around the
   pretty-printer's 10/16-item and 100-character line rules) and prints, for harness/c05_replay, the tree together with
   what decoding the encoder's output must give:

     tree : z | b | i:<<neg,hi,lo>> | d:<<4 limbs>> (IEEE-754 binary64 pattern, opaque) | f:<<2 limbs>> (binary32 pattern)
            | s:<<bytes>> | a:<<trees>> | o:<< <<keybytes, tree>> >>
     exp  : the same tree with every number replaced by the bit pattern the decoded number must have when converted
            to double (ints: IntToDbl computed here) or to float (floats); the sign of zero is left open
     xdl  : TRUE when every key is an identifier (the XDL clause of the property applies)
     hz   : spec-level hazard tags of the tree (known deviations of the pinned tree)

   RoundTripLaw is the property itself at specification level: encoding a tree with the reference encoder EncJson
   (compact RFC 8259 text, shortest escapes) and evaluating the text with the strict recognizer gives the tree back,
   for every enumerated tree whose numbers TLC can print (ints).  It ties tree format, recognizer and the relations
   used by the trace specification (TextDenotes) together.                                                     *)
EXTENDS JsonText, Json

CONSTANT PairFull         \* TRUE: the two-item shapes range over all pairs of the scalar table, FALSE: over a small sub-table
CONSTANT SweepEvery       \* every SweepEvery-th tree is also written to files whose 16382-byte read-chunk boundary is swept
                          \* across every position of the tree's text (harness/c05_replay does the padding arithmetic)
VARIABLES n, act
vvars == <<n, act>>

I(x) == [i |-> <<IF x < 0 THEN 1 ELSE 0, (IF x < 0 THEN -x ELSE x) \div 65536, (IF x < 0 THEN -x ELSE x) % 65536>>]
D(a, b, c, d) == [d |-> <<a, b, c, d>>]
F(a, b) == [f |-> <<a, b>>]
S(bytes) == [s |-> bytes]
Z == [z |-> 0]
BT == [b |-> 1]
BF == [b |-> 0]
Rep(c, k) == [j \in 1..k |-> c]

\* ---- scalar tables ----
Ints == << I(0), I(1), I(-1), I(9), I(10), I(-10), I(99999999), I(123456789), I(-123456789), I(999999999), I(-999999999),
           I(1000000000), I(-1000000000), I(1234567890), I(2147483647), I(-2147483647), [i |-> <<1, 32768, 0>>] >>
Doubles == <<
   D(16313, 39321, 39321, 39322),   \* 0.1
   D(32768, 0, 0, 0),               \* -0.0
   D(0, 0, 0, 0),                   \* 0.0
   D(16376, 0, 0, 0),               \* 1.5
   D(49176, 0, 0, 0),               \* -6.0 (integral: comes back as an int)
   D(16797, 28468, 21504, 0),       \* 123456789.0 (9 digits, integral: int path of the decoder)
   D(16850, 25984, 46208, 0),       \* 1234567890.0 (10 digits, integral: double path)
   D(17216, 0, 0, 0),               \* 2^53
   D(17216, 0, 0, 1),               \* 2^53+2
   D(32751, 65535, 65535, 65535),   \* DBL_MAX
   D(65519, 65535, 65535, 65535),   \* -DBL_MAX
   D(0, 0, 0, 1),                   \* smallest denormal
   D(15, 65535, 65535, 65535),      \* largest denormal
   D(16, 0, 0, 0),                  \* DBL_MIN
   D(16341, 21845, 21845, 21845),   \* 1/3
   D(16393, 8699, 21572, 11544),    \* pi
   D(16000, 37361, 26239, 1429),    \* 1.2345678901234567e-7 (printed with an exponent)
   D(16160, 11909, 48664, 2932),    \* 0.00012345678901234567 (printed without exponent)
   D(17536, 61647, 1613, 54674),    \* 1e22
   D(17589, 11522, 51169, 19190),   \* 1e23 (not exactly representable)
   D(32324, 20173, 3379, 38699),    \* 1.7e300
   D(16368, 0, 0, 1),               \* 1+2^-52
   D(16367, 65535, 65535, 65535),   \* 1-2^-53
   D(48890, 14050, 60188, 17197),   \* -2.5e-5
   D(16401, 26214, 26214, 26214),   \* 4.35 (15 and 17 significant digits differ)
   D(16339, 13107, 13107, 13108),   \* 0.1+0.2
   D(17164, 27637, 9780, 4) >>      \* 1e15+0.5
Floats == << F(15820, 52429),       \* 0.1f
             F(32639, 65535),       \* FLT_MAX
             F(0, 1),               \* smallest denormal float
             F(128, 0),             \* FLT_MIN
             F(16320, 0),           \* 1.5f
             F(16448, 0),           \* 3.0f (integral)
             F(19328, 0),           \* 16777216f
             F(32768, 0),           \* -0.0f
             F(16256, 1),           \* 1+2^-23
             F(48793, 39322),       \* -0.3f
             F(20501, 761),         \* 1e10f
             F(16042, 43691) >>     \* 1/3f
Others == << Z, BT, BF >>
PlainStrs == << S(<<>>), S(<<97>>), S(Rep(97, 7)), S(Rep(97, 8)), S(Rep(98, 9)), S(Rep(120, 40)),
                S(<<195, 169>>), S(<<226, 130, 172>>), S(<<240, 159, 152, 128>>),
                S(<<34, 92, 47>>), S(<<10, 13, 9, 12>>), S(<<47, 47>>), S(<<47, 42, 97, 42, 47>>),
                S(<<123, 34, 97, 34, 58, 49, 125>>), S(<<91, 49, 44, 50, 93>>), S(<<92, 117, 48, 48, 52, 49>>),
                S(<<32>>), S(<<97, 32, 32, 98>>), S(<<61>>), S(<<89>>), S(<<110, 117, 108, 108>>) >>
ByteStr(b) == S(<<b>>)
ByteStr3(b) == S(<<97, b, 99>>)

Scalars == Ints \o Doubles \o Floats \o Others \o PlainStrs
NS == Len(Scalars)
Small == << I(1), I(-2147483647), D(16313, 39321, 39321, 39322), F(15820, 52429), Z, BT, S(<<>>), S(<<97, 47, 98>>), S(Rep(99, 8)) >>
PairTab == IF PairFull THEN Scalars ELSE Small
NSm == Len(PairTab)

K1 == <<107>>                       \* k
K2 == <<107, 50>>                   \* k2
\* keys: identifiers and non-identifiers (JSON only)
Keys == << <<107>>, <<95, 120, 49>>, <<65, 98, 99, 95, 100, 101, 102, 103, 104>>, <<>>, <<97, 47, 98>>, <<47>>, <<32>>, <<97, 32, 98>>,
           <<34>>, <<92>>, <<195, 169>>, <<49>>, <<36, 120>>, <<97, 46, 98>>, <<97, 61, 98>>, <<58>>, <<10>> >>

\* ---- shapes over one scalar x ----
Shapes1(x) == << x, [a |-> <<x>>], [a |-> <<x, x>>], [o |-> << <<K1, x>> >>], [a |-> << [a |-> <<x>>] >>],
                 [a |-> << [o |-> << <<K1, x>> >>] >>], [o |-> << <<K1, [a |-> <<x>>]>> >>],
                 [o |-> << <<K1, [o |-> << <<K2, x>> >>]>> >>], [o |-> << <<K1, x>>, <<K2, [a |-> <<>>]>> >>],
                 [a |-> << [a |-> <<>>], x, [o |-> <<>>] >>],
                 [a |-> Rep(x, 11)], [a |-> Rep(x, 17)], [a |-> Rep([a |-> <<x>>], 3)] >>
NSh1 == 13
Shapes2(x, y) == << [a |-> <<x, y>>], [o |-> << <<K1, x>>, <<K2, y>> >>], [a |-> << [a |-> <<x>>], y >>],
                    [o |-> << <<K2, x>>, <<K1, [a |-> <<y, x>>]>> >>] >>
NSh2 == 4
KeyShapes(k) == << [o |-> << <<k, I(1)>> >>], [o |-> << <<k, S(<<97>>)>>, <<K2, BT>> >>], [a |-> << [o |-> << <<k, [o |-> << <<k, Z>> >>]>> >>] >>] >>
NKs == 3
Special == << [a |-> <<>>], [o |-> <<>>], [a |-> Rep(S(Rep(97, 30)), 4)], [a |-> Rep(S(Rep(97, 20)), 4)],
              [a |-> [j \in 1..40 |-> I(j * 1000003 % 100000)]], [o |-> [j \in 1..12 |-> << <<107, 96 + j>>, I(j)>>]],
              [a |-> << [o |-> << <<K1, [a |-> << [o |-> << <<K2, [a |-> << I(7) >>]>> >>] >>]>> >>] >>] >>
NSp == Len(Special)

\* ---- the enumeration: case number -> tree ----
N1 == NS * NSh1
N2 == NSm * NSm * NSh2
N3 == 255 * 3                     \* every byte as string, inside a string, and as a key
N4 == Len(Keys) * NKs
Total == N1 + N2 + N3 + N4 + NSp
TreeOf(c) ==
    IF c <= N1 THEN Shapes1(Scalars[((c - 1) \div NSh1) + 1])[((c - 1) % NSh1) + 1]
    ELSE IF c <= N1 + N2 THEN
         LET q == c - N1 - 1 IN Shapes2(PairTab[(q \div (NSm * NSh2)) + 1], PairTab[((q \div NSh2) % NSm) + 1])[(q % NSh2) + 1]
    ELSE IF c <= N1 + N2 + N3 THEN
         LET q == c - N1 - N2 - 1
             b == (q % 255) + 1
         IN IF q < 255 THEN [a |-> <<ByteStr(b)>>] ELSE IF q < 510 THEN [o |-> << <<K1, ByteStr3(b)>> >>] ELSE [o |-> << <<<<b>>, I(1)>> >>]
    ELSE IF c <= N1 + N2 + N3 + N4 THEN
         LET q == c - N1 - N2 - N3 - 1 IN KeyShapes(Keys[(q \div NKs) + 1])[(q % NKs) + 1]
    ELSE Special[c - N1 - N2 - N3 - N4]
ActOf(c) == IF c <= N1 THEN "Scalar" ELSE IF c <= N1 + N2 THEN "Pair" ELSE IF c <= N1 + N2 + N3 THEN "Byte"
            ELSE IF c <= N1 + N2 + N3 + N4 THEN "Key" ELSE "Special"

\* ---- what the property says about a tree ----
IsIdent(k) == /\ k # <<>> /\ (k[1] \in 65..90 \/ k[1] \in 97..122 \/ k[1] = 95)
              /\ \A j \in 2..Len(k) : k[j] \in 65..90 \/ k[j] \in 97..122 \/ k[j] \in 48..57 \/ k[j] = 95
RECURSIVE KeysIdent(_)
KeysIdent(t) == IF TKind(t) = "a" THEN \A j \in 1..Len(t.a) : KeysIdent(t.a[j])
                ELSE IF TKind(t) = "o" THEN \A j \in 1..Len(t.o) : IsIdent(t.o[j][1]) /\ KeysIdent(t.o[j][2])
                ELSE TRUE
Ctl(bytes) == \E j \in 1..Len(bytes) : bytes[j] < 32 /\ bytes[j] \notin {10, 13, 9, 12}
RECURSIVE HzOf(_)
HzOf(t) == IF TKind(t) = "s" THEN (IF Ctl(t.s) THEN {"ControlCharInString"} ELSE {})
           ELSE IF TKind(t) = "a" THEN UNION {HzOf(t.a[j]) : j \in 1..Len(t.a)}
           ELSE IF TKind(t) = "o" THEN UNION {HzOf(t.o[j][2]) \cup (IF Ctl(t.o[j][1]) THEN {"ControlCharInString"} ELSE {})
                                                 \cup (IF 47 \in {t.o[j][1][q] : q \in 1..Len(t.o[j][1])} THEN {"SlashInQuotedKey"} ELSE {})
                                              : j \in 1..Len(t.o)}
           ELSE {}
ShortDoc(t) == TKind(t) \in {"i", "d", "f"} \/ t \in {[s |-> <<>>], [a |-> <<>>], [o |-> <<>>]}     \* text of 1-2 bytes possible
RECURSIVE ExpOf(_)
ExpOf(t) ==
    LET k == TKind(t) IN
    IF k = "i" THEN [n |-> <<>>, d |-> IntToDbl(t.i), x |-> 1]          \* x: exact in every mode
    ELSE IF k = "d" THEN [n |-> <<>>, d |-> t.d]
    ELSE IF k = "f" THEN [n |-> <<>>, d |-> <<>>, f32 |-> t.f]
    ELSE IF k = "a" THEN [a |-> [j \in 1..Len(t.a) |-> ExpOf(t.a[j])]]
    ELSE IF k = "o" THEN [o |-> [j \in 1..Len(t.o) |-> <<t.o[j][1], ExpOf(t.o[j][2])>>]]
    ELSE t

\* ---- reference encoder (compact RFC 8259 text) for the specification-level law ----
HexD(x) == IF x < 10 THEN 48 + x ELSE 87 + x
RECURSIVE EscStr(_, _)
EscStr(b, j) == IF j > Len(b) THEN <<>>
                ELSE LET c == b[j]
                         e == IF c = 34 THEN <<92, 34>> ELSE IF c = 92 THEN <<92, 92>> ELSE IF c = 10 THEN <<92, 110>>
                              ELSE IF c = 13 THEN <<92, 114>> ELSE IF c = 9 THEN <<92, 116>> ELSE IF c = 12 THEN <<92, 102>>
                              ELSE IF c = 8 THEN <<92, 98>> ELSE IF c < 32 THEN <<92, 117, 48, 48, HexD(c \div 16), HexD(c % 16)>>
                              ELSE <<c>>
                     IN e \o EscStr(b, j + 1)
Quoted(b) == <<34>> \o EscStr(b, 1) \o <<34>>
RECURSIVE EncJson(_), EncItems(_, _), EncMembers(_, _)
EncJson(t) ==
    LET k == TKind(t) IN
    IF k = "z" THEN <<110, 117, 108, 108>>
    ELSE IF k = "b" THEN (IF t.b = 1 THEN <<116, 114, 117, 101>> ELSE <<102, 97, 108, 115, 101>>)
    ELSE IF k = "i" THEN (IF t.i[1] = 1 THEN <<45>> ELSE <<>>) \o [j \in 1..Len(IntDigits(t.i[2], t.i[3])) |-> 48 + IntDigits(t.i[2], t.i[3])[j]]
    ELSE IF k = "s" THEN Quoted(t.s)
    ELSE IF k = "a" THEN <<91>> \o EncItems(t.a, 1) \o <<93>>
    ELSE IF k = "o" THEN <<123>> \o EncMembers(t.o, 1) \o <<125>>
    ELSE <<48>>        \* doubles and floats cannot be printed by TLC: the law is stated for trees without them
EncItems(a, j) == IF j > Len(a) THEN <<>> ELSE (IF j > 1 THEN <<44>> ELSE <<>>) \o EncJson(a[j]) \o EncItems(a, j + 1)
EncMembers(o, j) == IF j > Len(o) THEN <<>> ELSE (IF j > 1 THEN <<44>> ELSE <<>>) \o Quoted(o[j][1]) \o <<58>> \o EncJson(o[j][2]) \o EncMembers(o, j + 1)
RECURSIVE NoFloats(_)
NoFloats(t) == IF TKind(t) \in {"d", "f"} THEN FALSE
               ELSE IF TKind(t) = "a" THEN \A j \in 1..Len(t.a) : NoFloats(t.a[j])
               ELSE IF TKind(t) = "o" THEN \A j \in 1..Len(t.o) : NoFloats(t.o[j][2])
               ELSE TRUE

VInit == n = 0 /\ act = "Init"
VNext == n < Total /\ n' = n + 1 /\ act' = ActOf(n + 1)
VSpec == VInit /\ [][VNext]_vvars

RoundTripLaw == (n >= 1 /\ NoFloats(TreeOf(n))) =>
                   LET r == Doc(EncJson(TreeOf(n))) IN r.ok /\ TextDenotes(r.v, TreeOf(n), TRUE)
VEmit == LET t == TreeOf(n') IN
         PrintT(ToJson([c |-> n', act |-> act', tree |-> t, exp |-> ExpOf(t), xdl |-> KeysIdent(t), sweep |-> (n' % SweepEvery = 0),
                        hz |-> HzOf(t) \cup (IF ShortDoc(t) THEN {"ShortFile"} ELSE {})]))
===============================================================================
