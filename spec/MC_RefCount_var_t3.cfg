SPECIFICATION Spec
CONSTANTS
 Type = "var"
 NT = 3
 NO = 2
 NB = 2
 NS = 3
 MaxOps = 1
 Shape = "chain"
 Ext = {"self", "null"}
VIEW View
ACTION_CONSTRAINT EmitFinal
INVARIANTS NoUseAfterFree AliveWhileHandles DestroyedOnce CountsMatch ReleasedWithLastHandle NoHalfDestroyed SubtreeAlive
CHECK_DEADLOCK FALSE
