SPECIFICATION Spec
CONSTANTS
 Tokens <- TokT
 MaxToks = 4
 Specs <- SpecsQ
 Probes <- ProbesT
 MaxQ = 2
ACTION_CONSTRAINT Emit
INVARIANTS ScanAgrees Partition NoOptionLost ValueLaws UnusedOK
CHECK_DEADLOCK FALSE
