SPECIFICATION SpecBig
CONSTANTS
 NV = 2
 Lens = {0}
 Pieces = {1024}
 Ints <- IntsA
 MaxTotal = 12000
 MaxOps = 3
 KeepHist = TRUE
 BigLens = {1023, 1500, 2600}
 Shrinks = {1}
 Deltas <- DeltasB
 LitJumps = 1
 JumpOps = 1
VIEW BigView
ACTION_CONSTRAINT Emit
INVARIANTS TypeOK HwOK
PROPERTIES Independence Identities HwMono
CHECK_DEADLOCK FALSE
