SPECIFICATION TraceSpec
CONSTANTS
 NV = 4
 Lens = {0}
 Pieces = {0}
 Ints = {0}
 MaxTotal = 1000000
 MaxOps = 0
 KeepHist = FALSE
INVARIANTS TypeOK HwOK
PROPERTIES Independence Identities
POSTCONDITION TraceAccepted
CHECK_DEADLOCK FALSE
