SPECIFICATION Spec
CONSTANTS
 Alpha = {0, 127, 128, 143, 144, 159, 160, 191, 192, 193, 194, 223, 224, 225, 237, 238, 239, 240, 241, 244, 245, 247, 248, 255, 65, 97}
 MaxLen = 4
INVARIANTS TwoFormulations DecodeEncode CaseMaps CStrOK LaxLaws
ACTION_CONSTRAINT Emit
CHECK_DEADLOCK FALSE
