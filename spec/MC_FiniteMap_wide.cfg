SPECIFICATION Spec
CONSTANTS
 NH = 3
 K = {1,2,3,4,5}
 V = {1,2}
 MaxOps = 4
 KeepHist = TRUE
 MapOps = TRUE
 SetOps = FALSE
VIEW View
ACTION_CONSTRAINT Emit
INVARIANTS TypeOK NoOrphan SomeLive SetValues
PROPERTIES LastCallOK Independence CloneFresh
CHECK_DEADLOCK FALSE
