SPECIFICATION Spec
CONSTANTS
 MaxDepth = 512
 MaxItems = 1
 MaxLen = 4000
 MaxVar = 0
 MaxStr = 0
 Linear = TRUE
 Stride = 128
VIEW View
ACTION_CONSTRAINT Emit
INVARIANTS TypeOK GenRecAgree PrefixRejected NoExcluded DeepOK
CHECK_DEADLOCK FALSE
