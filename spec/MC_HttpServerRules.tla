-------------------------- MODULE MC_HttpServerRules --------------------------
(* C10 (growth) - configurations and request shapes explored for HttpServerRules.tla: bodyless methods (GET, OPTIONS,
   HEAD, a method added with addMethod) x HTTP version x Connection header x Origin; pre-flight OPTIONS with
   Access-Control-Request-Headers; POST with a body, with "Expect: 100-continue" for small, block-sized and refused
   lengths; handlers answering 405/404/500; capitalisation variants of the Connection value.                   *)
EXTENDS HttpServerRules

ORIGIN == <<104, 116, 116, 112, 58, 47, 47, 111, 46, 101, 120, 97, 109, 112, 108, 101>>      \* http://o.example
ACRH == <<88, 45, 65, 44, 32, 67, 111, 110, 116, 101, 110, 116, 45, 84, 121, 112, 101>>      \* X-A, Content-Type
Rq(m, ver, conn, cap, origin, acrh, expect, clen, hcode, hblen) ==
    [method |-> m, ver |-> ver, conn |-> conn, cap |-> cap, origin |-> origin, acrh |-> acrh, expect |-> expect,
     clen |-> clen, blen |-> IF clen >= TooBig THEN 0 ELSE clen, hcode |-> hcode, hblen |-> hblen]
Vers == {"1.0", "1.1"}
Conns == {"", "keep-alive", "close"}
Bodyless == {Rq(m, v, c, 0, o, <<>>, FALSE, 0, 200, IF m = "HEAD" THEN 0 ELSE 7) :
                 m \in {"GET", "OPTIONS", "HEAD", "PROPFIND"}, v \in Vers, c \in Conns, o \in {<<>>, ORIGIN}}
Preflight == {Rq("OPTIONS", "1.1", c, 0, o, ACRH, FALSE, 0, 200, 0) : c \in {"", "close"}, o \in {<<>>, ORIGIN}}
Posts == {Rq("POST", v, c, 0, <<>>, <<>>, FALSE, 5, 201, 3) : v \in Vers, c \in Conns}
Expects == {Rq("POST", "1.1", c, 0, o, <<>>, TRUE, n, 200, 4) : c \in {"", "close"}, o \in {<<>>, ORIGIN}, n \in {0, 5, 20000, TooBig, TooBig + 1}}
           \cup {Rq("OPTIONS", "1.1", "", 0, ORIGIN, <<>>, TRUE, 3, 200, 0), Rq("PUT", "1.1", "keep-alive", 0, <<>>, <<>>, TRUE, TooBig, 200, 0)}
Codes == {Rq(m, "1.1", c, 0, o, <<>>, FALSE, 0, 405, 2) : m \in {"GET", "PROPFIND", "DELETE"}, c \in {"", "close"}, o \in {<<>>, ORIGIN}}
         \cup {Rq("GET", "1.1", "", 0, ORIGIN, <<>>, FALSE, 0, hc, 9) : hc \in {404, 500}}
Caps == {Rq("GET", v, "close", k, <<>>, <<>>, FALSE, 0, 200, 1) : v \in Vers, k \in {1, 2}}
        \cup {Rq("GET", "1.0", "keep-alive", k, <<>>, <<>>, FALSE, 0, 200, 1) : k \in {1, 2}}
\* one request per behaviour class, for the deeper connection histories
ReqsCore == {Rq("GET", "1.1", c, 0, <<>>, <<>>, FALSE, 0, 200, 7) : c \in Conns}
            \cup {Rq("GET", "1.0", c, 1, ORIGIN, <<>>, FALSE, 0, 200, 7) : c \in {"", "keep-alive"}}
            \cup {Rq("OPTIONS", "1.1", "", 0, ORIGIN, ACRH, FALSE, 0, 200, 0), Rq("HEAD", "1.1", "keep-alive", 0, <<>>, <<>>, FALSE, 0, 200, 0),
                  Rq("PROPFIND", "1.1", "", 0, ORIGIN, <<>>, FALSE, 0, 405, 2), Rq("POST", "1.1", "", 0, <<>>, <<>>, FALSE, 5, 201, 3),
                  Rq("POST", "1.1", "", 0, ORIGIN, <<>>, TRUE, 20000, 200, 4), Rq("POST", "1.1", "", 0, <<>>, <<>>, TRUE, TooBig, 200, 4),
                  Rq("POST", "1.0", "keep-alive", 2, <<>>, <<>>, FALSE, 5, 500, 9)}
ReqsAll == Bodyless \cup Preflight \cup Posts \cup Expects \cup Codes \cup Caps

Cf(c, e) == [cors |-> c, extra |-> e]
ConfigsQuick == {Cf(FALSE, <<>>), Cf(TRUE, <<"PROPFIND">>)}
ConfigsAll == {Cf(c, e) : c \in BOOLEAN, e \in {<<>>, <<"PROPFIND">>}}
=============================================================================
