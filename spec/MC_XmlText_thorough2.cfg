SPECIFICATION Spec
CONSTANTS
 Names <- NamesOne
 AttrNames <- AttrNamesOne
 Values <- ValuesOne
 Texts <- TextsTwo
 Variants <- VariantsOne
 Comments <- CommentsSmall
 PIs <- PIsSmall
 Doctypes <- DoctypesSmall
 Decls <- DeclsSmall
 TopWs <- TopWsSmall
 MaxDepth = 3
 MaxKids = 3
 MaxAttrs = 1
 MaxTok = 9
 MaxBadTail = 1
 GuardRoot = TRUE
ACTION_CONSTRAINT Emit
INVARIANTS TypeOK GenRecAgree PrefixNotDoc BadRejected EncodeRoundTrip SMTotal SMRefines SMRoundTrip
CHECK_DEADLOCK FALSE
