---------------------------- MODULE Trace_ProcShm ----------------------------
(* V binding for X01 / SharedMem: validates recorded executions of real asl::SharedMem objects in the recorder process
   and in helper child processes (harness/x01_shm_record.cpp) against the actions of ProcShm.  Names are logged as
   small numbers (the recorder maps them to unique segment names). *)
EXTENDS ProcShm, Json, IOUtils

T == ndJsonDeserialize(IOEnv.TRACE)
VARIABLE l
tvars == <<vars, l>>
TInit == Init /\ l = 1
TStep ==
  /\ l <= Len(T)
  /\ l' = l + 1
  /\ nops' = nops
  /\ LET e == T[l] IN
     \/ /\ e.e = "reset" /\ seg' = [n \in Names |-> <<>>] /\ att' = [o \in Objs |-> 0] /\ retired' = {}
     \/ /\ e.e = "attach" /\ e.o \in Objs /\ Attach(e.o, e.n, e.ok = 1)
     \/ /\ e.e = "put" /\ e.o \in Objs /\ Put(e.o, e.off, e.b)
     \/ /\ e.e = "get" /\ e.o \in Objs /\ Get(e.o, e.off, e.k, e.r)
     \/ /\ e.e = "child" /\ ChildUse(e.n, e.off, e.k, e.r, e.woff, e.b)
     \/ /\ e.e = "destroy" /\ e.o \in Objs /\ Destroy(e.o)
     \/ /\ e.e = "idlefds" /\ IdleFds(e.n)
TraceSpec == TInit /\ [][TStep]_tvars
TraceAccepted == TLCGet("stats").diameter - 1 = Len(T)
===============================================================================
