SPECIFICATION Spec
CONSTANTS
 YLo = 10000
 YHi = 14000
 ChunkYears = 50
 Dense = TRUE
VIEW View
ACTION_CONSTRAINT Emit
INVARIANTS Agree YearLength
CHECK_DEADLOCK FALSE
