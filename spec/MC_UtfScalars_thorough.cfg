SPECIFICATION Spec
CONSTANTS
 BS = 64
 Stride = 1
 Bound = {1, 65, 97, 127, 128, 255, 1415, 2047, 2048, 4095, 4096, 55295, 57344, 65533, 65535, 65536, 131071, 1114111}
 MaxSeq = 4
INVARIANTS RoundTrip SeqRoundTrip BoundOK CaseIdentityOK
ACTION_CONSTRAINT Emit
CHECK_DEADLOCK FALSE
