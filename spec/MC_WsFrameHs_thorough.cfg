SPECIFICATION Spec
CONSTANTS
 NKeys = 40
ACTION_CONSTRAINT Emit
INVARIANTS SampleOK AcceptOK RequestParses
CHECK_DEADLOCK FALSE
