SPECIFICATION FairSpec
CONSTANT NW = 2
INVARIANTS RunsOnce JoinAfterRun FinishedAfterJoin
PROPERTY Terminates
ACTION_CONSTRAINT Emit
CHECK_DEADLOCK FALSE
