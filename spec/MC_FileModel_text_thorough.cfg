SPECIFICATION Spec
CONSTANTS
 BinChunks <- NoChunks
 TextChunks <- NoChunks
 ReadSizes = {}
 ShapeRuns <- RunsT
 ShapeSegs = 2
 EncScalars <- Scalars
 EncMaxLen = 3
 MaxLen = 0
 MaxOps = 1
 TmpPaths = {"p", "q"}
 QueryKinds = {}
 KeepHist = TRUE
VIEW View
ACTION_CONSTRAINT Emit
INVARIANTS TypeOK HandleOK LinesOK
PROPERTIES Independence CopyExact
CHECK_DEADLOCK FALSE
