------------------------------ MODULE Registry ------------------------------
(* X01 part `registry` - asl::Factory<T> (Factory.h): a process-wide registry  class name -> constructor.

   "Subclasses must be registered with ASL_FACTORY_REGISTER() before use"; create(name) "constructs an object given a
   class name previously registered", catalog() "returns a list of the class names already registered", has(name) tells
   whether a name is registered, add(name, f) "registers a class given a function that constructs and returns a new
   object", setClassInfo/classInfo associate an information dictionary with a registered class.
   The state is  reg : name -> set of classes registered under that name.  Statically registered names (the macros run
   before main) are the initial value.  Registering a name a second time is not documented: the specification then
   accepts an object of any class registered under the name (it does not say "the last one wins").  create() of an
   unknown name returns null (the code says so: "return 0"; the documentation only covers registered names - a null
   result is the only value that is not an object of a class nobody asked for).                                      *)
EXTENDS Integers, Sequences, FiniteSets, TLC, Json

CONSTANTS Names,        \* names used in calls
          Classes,      \* class ids (strings)
          AddNames,     \* names registered at run time by add()
          MaxOps, KeepHist

\* registered before main: ASL_FACTORY_REGISTER(Animal, Dog), ASL_FACTORY_REGISTER_AS(Animal, Cat, Kitty)
Static == [n \in Names |-> IF n = "Dog" THEN {"Dog"} ELSE IF n = "Kitty" THEN {"Cat"} ELSE {}]
\* the generated histories never register a static name again at run time: the registry is one per process and cannot
\* forget, so the replayer keeps histories apart by making the run-time names unique per history
ASSUME \A n \in AddNames : n \in Names /\ Static[n] = {}
Dicts == << <<[k |-> "legs", v |-> "4"]>>,
            <<[k |-> "legs", v |-> "2"], [k |-> "sound", v |-> "tweet tweet"]>>,
            <<>> >>

VARIABLES reg,     \* Names -> SUBSET Classes
          info,    \* Names -> 0 (never set) or index into Dicts
          nmade,   \* objects constructed by create() so far
          hist
vars == <<reg, info, nmade, hist>>

Registered(r) == {n \in Names : r[n] # {}}
Init == reg = Static /\ info = [n \in Names |-> 0] /\ nmade = 0 /\ hist = <<>>

Log(rec) == hist' = IF KeepHist THEN Append(hist, rec) ELSE <<rec>>
Rec(op, n, c) == [op |-> op, name |-> n, cls |-> c, ok |-> {}, names |-> {}, made |-> 0, d |-> 0]

Add(n, c)  == /\ reg' = [reg EXCEPT ![n] = @ \cup {c}]
              /\ Log(Rec("add", n, c)) /\ UNCHANGED <<info, nmade>>
\* ok = the classes the returned object may have; empty = null
Create(n)  == /\ nmade' = nmade + (IF reg[n] # {} THEN 1 ELSE 0)
              /\ Log([Rec("create", n, "") EXCEPT !.ok = reg[n], !.made = nmade'])
              /\ UNCHANGED <<reg, info>>
Has(n)     == /\ Log([Rec("has", n, "") EXCEPT !.made = IF reg[n] # {} THEN 1 ELSE 0]) /\ UNCHANGED <<reg, info, nmade>>
Catalog    == /\ Log([Rec("catalog", "", "") EXCEPT !.names = Registered(reg)]) /\ UNCHANGED <<reg, info, nmade>>
SetInfo(n, d) == /\ reg[n] # {}                        \* "a registered class"
                 /\ info' = [info EXCEPT ![n] = d]
                 /\ Log([Rec("setinfo", n, "") EXCEPT !.d = d]) /\ UNCHANGED <<reg, nmade>>
GetInfo(n) == /\ info[n] # 0                           \* what classInfo gives for a class without information is not documented
              /\ Log([Rec("info", n, "") EXCEPT !.d = info[n]]) /\ UNCHANGED <<reg, info, nmade>>

Next == /\ Len(hist) < MaxOps
        /\ \/ \E n \in AddNames, c \in Classes : Add(n, c)
           \/ \E n \in Names : Create(n)
           \/ \E n \in Names : Has(n)
           \/ Catalog
           \/ \E n \in Names, d \in 1..Len(Dicts) : SetInfo(n, d)
           \/ \E n \in Names : GetInfo(n)
Spec == Init /\ [][Next]_vars

-----------------------------------------------------------------------------
TypeOK == reg \in [Names -> SUBSET Classes] /\ info \in [Names -> 0..Len(Dicts)] /\ nmade \in 0..MaxOps
\* registration is monotone: nothing is ever unregistered, static registrations stay
Monotone == [][\A n \in Names : reg[n] \subseteq reg'[n]]_vars
StaticStay == \A n \in Names : Static[n] \subseteq reg[n]
InfoOnlyRegistered == \A n \in Names : info[n] # 0 => reg[n] # {}

View == <<reg, info, nmade, Len(hist)>>
Emit == PrintT(ToJson([part |-> "registry", k |-> "factory", hist |-> hist', dicts |-> Dicts]))
=============================================================================
