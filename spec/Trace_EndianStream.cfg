SPECIFICATION TraceSpec
CONSTANTS
 Native = "LITTLE"
 ScalarTypes = {}
 ArrayTypes = {}
 ArrayLens = {}
 NVals = 0
 MaxOps = 0
 KeepHist = FALSE
INVARIANTS TypeOK
PROPERTIES OrderOnlyLater
POSTCONDITION TraceAccepted
CHECK_DEADLOCK FALSE
