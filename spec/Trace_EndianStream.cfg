SPECIFICATION TraceSpec
CONSTANTS
 Native = "LITTLE"
 ScalarTypes = {}
 ArrayTypes = {}
 ArrayLens = {}
 NVals = 0
 MaxOps = 0
 PoolTypeSeqs <- PoolsNone
 PoolLens <- LensNone
 PoolSetIdx = {}
 KeepHist = FALSE
INVARIANTS TypeOK WrittenObjectIntact
PROPERTIES OrderOnlyLater InputsUntouched
POSTCONDITION TraceAccepted
CHECK_DEADLOCK FALSE
