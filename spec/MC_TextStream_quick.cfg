SPECIFICATION Spec
CONSTANTS
 IntVals <- IntsQ
 UIntVals <- UIntsQ
 DblVals <- DblsQ
 FltVals <- FltsQ
 Words <- WordsQ
 Raws <- RawsQ
 Chars <- CharsQ
 SepSeq <- SepsQ
 SepAll = FALSE
 Glue = {"w"}
 Hows <- HowsQ
 HowsAll = FALSE
 PfCalls <- PfQ
 SfFmts <- SfQ
 Modes = {"W", "L"}
 RModes = {"R"}
 MaxOpens = 1
 MaxItems = 2
 MaxReads = 3
 ReadOps = {"ri", "ru", "rd", "rf", "rs", "rc", "rl", "end", "sf"}
 KeepHist = TRUE
VIEW View
ACTION_CONSTRAINT Emit
INVARIANTS TypeOK TokensLaw ReadBack
PROPERTIES AppendOnly ReadForward
CHECK_DEADLOCK FALSE
