------------------------------ MODULE MC_Ident ------------------------------
(* X01 part `ident`, R direction: enumerates Uuid values and texts as the reachable states of a one-step machine, checks
   the laws of Ident.tla on them (invariants) and prints one replay case per state (ACTION_CONSTRAINT Emit) with the text /
   bytes / comparison results Ident.tla prescribes.  harness/x01_ident_replay.cpp runs the cases on asl::Uuid.
       fmt   a byte vector: the table below, every vector that is `Base` except one byte (position x ByteAlpha), and
             every vector that differs from zero in two positions of TwoPos (values from TwoVals)
       cmp   a pair of vectors out of CmpSet: ==, !=, <
       txt   a well-formed text with one character replaced (every position x TextAlpha), truncated or extended
   For a malformed text the case only says ok = FALSE (the documentation does not say what the constructor makes of it). *)
EXTENDS Ident, TLC, Json

CONSTANTS ByteAlpha, TwoPos, TwoVals, TextAlpha, MaxExtra

VARIABLES mode, u, w
vars == <<mode, u, w>>

Zero == [i \in 1..16 |-> 0]
Table == <<
    Zero,
    [i \in 1..16 |-> 255],
    [i \in 1..16 |-> i - 1],
    [i \in 1..16 |-> 16 * (i - 1) + (16 - i)],
    [i \in 1..16 |-> (i * 37 + 11) % 256],
    [i \in 1..16 |-> IF i % 2 = 0 THEN 170 ELSE 85],
    [i \in 1..16 |-> 255 - 17 * (i - 1)],
    <<18, 52, 86, 120, 154, 188, 77, 239, 129, 35, 69, 103, 137, 171, 205, 239>>,      \* a version 4 value
    <<0, 0, 0, 0, 0, 0, 64, 0, 128, 0, 0, 0, 0, 0, 0, 0>>,
    <<9, 10, 15, 16, 25, 26, 31, 32, 153, 154, 159, 160, 169, 170, 249, 250>>           \* digit / letter boundaries
>>
Bases == {Zero, Table[5]}
CmpSet == {Table[i] : i \in 1..Len(Table)} \cup
          {[Zero EXCEPT ![p] = v] : p \in {1, 2, 8, 9, 16}, v \in {1, 127, 128, 255}}

\* texts: mixed-case well-formed bases
BaseTexts == {Format(Table[5]), Upper(Format(Table[4])), Format(Table[10])}

Init == mode = "boot" /\ u = <<>> /\ w = <<>>
PickTable == mode = "boot" /\ \E i \in 1..Len(Table) : mode' = "fmt" /\ u' = Table[i] /\ w' = <<>>
PickOne   == mode = "boot" /\ \E b \in Bases, p \in 1..16, v \in ByteAlpha : mode' = "fmt" /\ u' = [b EXCEPT ![p] = v] /\ w' = <<>>
PickTwo   == mode = "boot" /\ \E p \in TwoPos, q \in TwoPos, v \in TwoVals, x \in TwoVals :
                 p < q /\ mode' = "fmt" /\ u' = [Zero EXCEPT ![p] = v, ![q] = x] /\ w' = <<>>
PickCmp   == mode = "boot" /\ \E a \in CmpSet, b \in CmpSet : mode' = "cmp" /\ u' = a /\ w' = b
PickMut   == mode = "boot" /\ \E t \in BaseTexts, p \in 1..36, c \in TextAlpha : mode' = "txt" /\ u' = [t EXCEPT ![p] = c] /\ w' = <<>>
PickCut   == mode = "boot" /\ \E t \in BaseTexts, n \in 0..35 : mode' = "txt" /\ u' = SubSeq(t, 1, n) /\ w' = <<>>
PickExt   == mode = "boot" /\ \E t \in BaseTexts, n \in 1..MaxExtra, c \in TextAlpha :
                 mode' = "txt" /\ u' = t \o [i \in 1..n |-> c] /\ w' = <<>>
PickShift == mode = "boot" /\ \E t \in BaseTexts, p \in DashPos, d \in {-1, 1} :      \* a dash moved by one place (length kept)
                 mode' = "txt" /\ w' = <<>>
                 /\ u' = [t EXCEPT ![p] = t[p + d], ![p + d] = Dash]
Next == PickTable \/ PickOne \/ PickTwo \/ PickCmp \/ PickMut \/ PickCut \/ PickExt \/ PickShift
Spec == Init /\ [][Next]_vars

-----------------------------------------------------------------------------
B3(x) == IF x THEN 1 ELSE 0
IsLowerHex(c) == c \in 48..57 \/ c \in 97..102
TypeOK == /\ mode \in {"boot", "fmt", "cmp", "txt"}
          /\ mode = "fmt" => IsUuid(u)
          /\ mode = "cmp" => IsUuid(u) /\ IsUuid(w)
FormatShape == mode = "fmt" =>
    LET t == Format(u) IN
    /\ Len(t) = 36
    /\ \A p \in 1..36 : IF p \in DashPos THEN t[p] = Dash ELSE IsLowerHex(t[p])
    /\ Cardinality({p \in 1..36 : t[p] # Dash}) = 32
ParseOfFormat == mode = "fmt" => /\ Parse(Format(u)) = [ok |-> TRUE, v |-> u]
                                 /\ Parse(Upper(Format(u))) = [ok |-> TRUE, v |-> u]
FormatInjective == mode = "cmp" => (Format(u) = Format(w) <=> u = w)
FormatOfParse == mode = "txt" => LET r == Parse(u) IN r.ok => IsUuid(r.v) /\ Format(r.v) = Lower(u)
Malformed == mode = "txt" => (Len(u) # 36 => ~Parse(u).ok)
                             /\ (\A p \in 1..Len(u) : p \notin DashPos /\ HexVal(u[p]) < 0 => ~Parse(u).ok)
                             /\ (Len(u) = 36 /\ (\E p \in DashPos : u[p] # Dash) => ~Parse(u).ok)
Trichotomy == mode = "cmp" => /\ B3(Less(u, w)) + B3(u = w) + B3(Less(w, u)) = 1
                              /\ ~Less(u, u)

B(x) == IF x THEN 1 ELSE 0
CaseOf(m, a, b) ==
    IF m = "fmt" THEN [part |-> "ident", k |-> "fmt", u |-> a, t |-> Format(a), up |-> Upper(Format(a)),
                       v4 |-> B(IsV4(a)), zero |-> B(a = Zero)]
    ELSE IF m = "cmp" THEN [part |-> "ident", k |-> "cmp", u |-> a, w |-> b, eq |-> B(a = b), lt |-> B(Less(a, b)),
                            gt |-> B(Less(b, a))]
    ELSE LET r == Parse(a) IN
         [part |-> "ident", k |-> "txt", t |-> a, ok |-> B(r.ok), v |-> r.v, low |-> IF r.ok THEN Format(r.v) ELSE <<>>]
Emit == PrintT(ToJson(CaseOf(mode', u', w')))
=============================================================================
