SPECIFICATION Spec
CONSTANTS
 Thorough = TRUE
 Sites <- SitesThorough
 Calls <- CallsThorough
 CallOK <- Deterministic
ACTION_CONSTRAINT Emit
INVARIANTS TypeOK BoundedRequests PathInSite NoFollowOneRequest GiveUpOnlyAtLimit DeliveredIsLast StrictCodesKeepMethod
CHECK_DEADLOCK TRUE
