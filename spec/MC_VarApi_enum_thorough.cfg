INIT InitEnum
NEXT NextApi
CONSTANTS
 NR = 2
 MaxNodes = 3
 MaxDepth = 1
 MaxItems = 3
 ScalarIds = {5,12}
 KeyIds = {1,2}
 MaxOps = 8
 KeepHist = TRUE
 OpSet = {"enum","assignScalar","removeAt","removeKey"}
 WideObs = FALSE
VIEW ViewApi
ACTION_CONSTRAINT EmitApi
INVARIANTS TypeOK RcOK NoDangling Acyclic ObjSorted EnumOK
PROPERTIES AssignOK ScalarOK CloneOK Independent TypedOK EnumShapeOK
CHECK_DEADLOCK FALSE
