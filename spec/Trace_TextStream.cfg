SPECIFICATION TraceSpec
CONSTANTS
 IntVals = {}
 UIntVals = {}
 DblVals = {}
 FltVals = {}
 Words = {}
 Raws = {}
 Chars = {}
 SepSeq <- NoSeq
 SepAll = FALSE
 Glue = {}
 Hows <- NoSeq
 HowsAll = FALSE
 PfCalls = {}
 SfFmts = {}
 Modes = {"W"}
 RModes = {}
 MaxOpens = 0
 MaxItems = 0
 MaxReads = 0
 ReadOps = {}
 KeepHist = FALSE
INVARIANTS TypeOK TokensLaw ReadBackAlways
PROPERTIES AppendOnly ReadForward
POSTCONDITION TraceAccepted
CHECK_DEADLOCK FALSE
