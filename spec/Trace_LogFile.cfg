SPECIFICATION TraceSpec
CONSTANTS
 Files = {1,2,3,4}
 Cats = {1,2,3}
 Decor = {0,1,2,3}
 Via = {0,1,2}
 Levels = {0,1,2,3,4}
 MaxLevels = {0,1,2,3,4}
 MsgLens = {8}
 DateLen = 19
 RotLo = 900000
 RotHi = 1100000
 MaxOps = 0
 ViewOps = 0
 KeepHist = FALSE
INVARIANTS TypeOK SuffixInv SizeInv
POSTCONDITION TraceAccepted
CHECK_DEADLOCK FALSE
