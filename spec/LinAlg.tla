-------------------------------- MODULE LinAlg --------------------------------
(* C20 - exact linear algebra over the prime field Z_P, as pure (constant-level) operators: the oracle for the
   algebraic clauses of the property (M x inverse(M) = I, det(AB) = det(A) det(B), A x solve(A, b) = b, normal equations
   for over-determined systems).  Matrices are sequences of rows; entries are 0..P-1.

   TLC integers are 32-bit: with P <= 32749 every product of two entries stays below 2^30, and sums are reduced after
   every term, so nothing overflows (TLC would stop with an overflow error, never wrap silently).

   Two independent formulations are given for determinant and inverse - Laplace expansion / adjugate, and Gaussian
   elimination - and are checked against each other by LinAlgGauss.tla / LinAlgCases.tla in small scope.          *)
EXTENDS Integers, Sequences

CONSTANT P          \* a prime

Fp == 0..(P - 1)
Md(x) == x % P                                   \* TLA+ % is the non-negative remainder
AddP(a, b) == (a + b) % P
SubP(a, b) == (a - b) % P
MulP(a, b) == (a * b) % P
NegP(a) == (P - a) % P
RECURSIVE PowP(_, _)
PowP(a, e) == IF e = 0 THEN 1 % P
              ELSE LET h == PowP(a, e \div 2) IN IF e % 2 = 0 THEN MulP(h, h) ELSE MulP(MulP(h, h), a)
InvP(a) == PowP(a, P - 2)                        \* a # 0 (Fermat)
DivP(a, b) == MulP(a, InvP(b))

-------------------------------------------------------------------------------
Rows(A) == Len(A)
Cols(A) == IF Len(A) = 0 THEN 0 ELSE Len(A[1])
RECURSIVE DotFrom(_, _, _)
DotFrom(u, v, k) == IF k > Len(u) THEN 0 ELSE AddP(MulP(u[k], v[k]), DotFrom(u, v, k + 1))
Dot(u, v) == DotFrom(u, v, 1)
Col(A, j) == [i \in 1..Rows(A) |-> A[i][j]]
Transpose(A) == [j \in 1..Cols(A) |-> Col(A, j)]
MatMul(A, B) == [i \in 1..Rows(A) |-> [j \in 1..Cols(B) |-> Dot(A[i], Col(B, j))]]
MatVec(A, x) == [i \in 1..Rows(A) |-> Dot(A[i], x)]
Ident(n) == [i \in 1..n |-> [j \in 1..n |-> IF i = j THEN 1 % P ELSE 0]]
Scale(k, A) == [i \in 1..Rows(A) |-> [j \in 1..Cols(A) |-> MulP(k, A[i][j])]]
\* row-major flat list <-> matrix
Reshape(flat, r, c) == [i \in 1..r |-> [j \in 1..c |-> flat[(i - 1) * c + j]]]
Flat(A) == [k \in 1..(Rows(A) * Cols(A)) |-> A[((k - 1) \div Cols(A)) + 1][((k - 1) % Cols(A)) + 1]]
IsMatrix(A, r, c) == Len(A) = r /\ \A i \in 1..r : Len(A[i]) = c /\ \A j \in 1..c : A[i][j] \in Fp

-------------------------------------------------------------------------------
(* determinant and inverse, formulation 1: Laplace expansion along the first row, adjugate *)
DropAt(s, k) == [i \in 1..(Len(s) - 1) |-> IF i < k THEN s[i] ELSE s[i + 1]]
Minor(A, i, j) == [r \in 1..(Rows(A) - 1) |-> DropAt(DropAt(A, i)[r], j)]
RECURSIVE Det(_)
RECURSIVE LaplaceFrom(_, _)
LaplaceFrom(A, j) ==
    IF j > Cols(A) THEN 0
    ELSE LET t == MulP(A[1][j], Det(Minor(A, 1, j))) IN
         AddP(IF j % 2 = 1 THEN t ELSE NegP(t), LaplaceFrom(A, j + 1))
Det(A) == IF Rows(A) = 0 THEN 1 % P ELSE IF Rows(A) = 1 THEN A[1][1] ELSE LaplaceFrom(A, 1)
Cofactor(A, i, j) == LET d == Det(Minor(A, i, j)) IN IF (i + j) % 2 = 0 THEN d ELSE NegP(d)
Adj(A) == [i \in 1..Rows(A) |-> [j \in 1..Rows(A) |-> Cofactor(A, j, i)]]
AdjInverse(A) == Scale(InvP(Det(A)), Adj(A))      \* Det(A) # 0

(* formulation 2: Gaussian elimination, first non-zero entry of the column as pivot (a function; the machine with an
   arbitrary pivot choice and the code's permutation vector is LinAlgGauss.tla) *)
FirstNonZero(A, k) == IF \E i \in k..Rows(A) : A[i][k] # 0
                      THEN CHOOSE i \in k..Rows(A) : A[i][k] # 0 /\ \A q \in k..(i - 1) : A[q][k] = 0
                      ELSE 0
SwapRows(A, i, j) == [A EXCEPT ![i] = A[j], ![j] = A[i]]
\* eliminate column k below row k using row k (A[k][k] # 0)
Eliminate(A, k) ==
    [i \in 1..Rows(A) |-> IF i <= k THEN A[i]
                           ELSE LET f == DivP(A[i][k], A[k][k]) IN
                                [j \in 1..Cols(A) |-> SubP(A[i][j], MulP(f, A[k][j]))]]
RECURSIVE DetGaussFrom(_, _, _)
DetGaussFrom(A, k, sign) ==
    IF k > Rows(A) THEN sign
    ELSE LET p == FirstNonZero(A, k) IN
         IF p = 0 THEN 0
         ELSE LET B == IF p = k THEN A ELSE SwapRows(A, k, p)
                  s2 == IF p = k THEN sign ELSE NegP(sign)
              IN MulP(B[k][k], DetGaussFrom(Eliminate(B, k), k + 1, s2))
DetGauss(A) == DetGaussFrom(A, 1, 1 % P)
Singular(A) == DetGauss(A) = 0

\* solution of A X = B by elimination on the augmented matrix [A | B] and back substitution (A nonsingular)
Augment(A, B) == [i \in 1..Rows(A) |-> A[i] \o B[i]]
RECURSIVE ReduceFrom(_, _, _)
ReduceFrom(M, k, n) ==
    IF k > n THEN M
    ELSE LET p == FirstNonZero(M, k)
             B == IF p = k THEN M ELSE SwapRows(M, k, p)
         IN ReduceFrom(Eliminate(B, k), k + 1, n)
RECURSIVE BackSub(_, _, _, _)
\* X: rows k+1..n already solved (as a function on 1..n, rows <= k unused)
BackSub(M, n, k, X) ==
    IF k = 0 THEN X
    ELSE LET c == Cols(M) - n
             row == [j \in 1..c |->
                        LET RECURSIVE Sum(_)
                            Sum(i) == IF i > n THEN 0 ELSE AddP(MulP(M[k][i], X[i][j]), Sum(i + 1))
                        IN DivP(SubP(M[k][n + j], Sum(k + 1)), M[k][k])]
         IN BackSub(M, n, k - 1, [X EXCEPT ![k] = row])
SolveGauss(A, B) ==
    LET n == Rows(A) M == ReduceFrom(Augment(A, B), 1, n)
    IN BackSub(M, n, n, [i \in 1..n |-> [j \in 1..Cols(B) |-> 0]])

\* least squares: the normal equations
NormalA(A) == MatMul(Transpose(A), A)
NormalB(A, B) == MatMul(Transpose(A), B)
===============================================================================
