SPECIFICATION Spec
CONSTANTS
 MaxLen = 5
 NBases = 2
 RuleSet = {1, 2, 3, 5, 6, 8}
ACTION_CONSTRAINT Emit
INVARIANTS FormatParseLaw Sound PermsInjective
CHECK_DEADLOCK FALSE
