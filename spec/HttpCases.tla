--------------------------------- MODULE HttpCases ---------------------------------
(* C10 - case generator for the replayer: sweeps every dimension of an exchange around a base case and prints, per
   case, the descriptor (what the client must send, what the handler must answer) together with the views that
   HttpExchange prescribes for the handler (HandlerView) and the client (ClientView).  Thorough = TRUE widens the body
   length sets (every length 0..300, all block boundaries, samples to 8 MiB).                                   *)
EXTENDS HttpExchange

CONSTANT Thorough

\* byte strings
A == <<97>>                  B == <<98>>                K == <<107>>               V == <<118>>
XY == <<120, 32, 121>>       UUML == <<195, 188>>       PCT == <<97, 37, 98>>      QM == <<113, 63, 109>>
HASH == <<35, 104>>          PLUS == <<97, 43, 98>>    SUBD == <<33, 36, 38, 39, 40, 41, 42, 43, 44, 59, 61, 58, 64>>     AMP == <<49, 38, 50, 61, 51>>  SL == <<97, 47, 98>>
K1 == <<107, 49>>            K2 == <<107, 50>>          V1 == <<118, 49>>          V2 == <<118, 50, 32, 122>>
EMPTY == <<>>                LONG == [i \in 1..300 |-> 97 + (i % 26)]
HXTEST == <<88, 45, 84, 101, 115, 116>>                                  \* X-Test
HLOWER == <<120, 45, 108, 111, 119, 101, 114>>                           \* x-lower
HVAL1 == <<104, 101, 108, 108, 111, 32, 119, 111, 114, 108, 100>>        \* hello world
HVAL2 == <<118, 58, 59, 61, 44, 34, 39, 126>>                            \* v:;=,"'~
GET == "GET"

BaseReq == [method |-> "GET", segs |-> <<A>>, query |-> <<>>, headers |-> <<>>, blen |-> 0, bseed |-> 1, range |-> <<>>]
BaseResp == [code |-> 200, headers |-> <<>>, kind |-> "bytes", blen |-> 5, bseed |-> 7, json |-> 0, fsize |-> 0]

Paths == << <<>>, <<A>>, <<A, B>>, <<XY>>, <<UUML>>, <<PCT>>, <<QM>>, <<HASH>>, <<PLUS>>, <<SUBD>>, <<A, PLUS, SUBD>>, <<A, XY, UUML>>, <<LONG>> >>
Queries == << <<>>, << <<K, V>> >>, << <<K, XY>> >>, << <<XY, AMP>> >>, << <<K1, V1>>, <<K2, V2>> >>, << <<K, EMPTY>> >>,
              << <<K, UUML>> >>, << <<K, PCT>> >>, << <<K, LONG>> >> >>
Headers == << <<>>, << <<HXTEST, HVAL1>> >>, << <<HLOWER, HVAL2>> >>, << <<HXTEST, HVAL2>>, <<HLOWER, HVAL1>> >> >>
Methods == <<"GET", "POST", "PUT", "DELETE", "PATCH">>
BodyMethods == <<"POST", "PUT", "PATCH">>
Codes == <<200, 201, 400, 404, 500, 503>>
LensQ == <<0, 1, 2, 255, 256, 1023, 1024, 15999, 16000, 16001, 65535, 65536, 127999, 128000, 128001, 300000>>
LensT == [i \in 1..301 |-> i - 1] \o <<1023, 1024, 4095, 4096, 15999, 16000, 16001, 31999, 32000, 32001, 65535, 65536, 65537,
           127999, 128000, 128001, 255999, 256000, 256001, 300000, 307200, 1000000, 2097152, 4194304, 8388608>>
Lens == IF Thorough THEN LensT ELSE LensQ
Jsons == <<1, 2, 3, 4, 5>>      \* indices of value trees known to the harness (scalars, nested array/object, strings with escapes)
FSize == 10
Ranges == LET pairs == {<<b, e>> : b \in 0..(FSize - 1), e \in 0..(FSize - 1)} IN
          SetToSeq({p \in pairs : p[1] <= p[2]}) \o << <<0, -1>>, <<5, -1>>, <<9, -1>>, <<3, 20>>, <<9, 10>>, <<10, 12>>, <<12, -1>>, <<200, 300>> >>

Map(seq, F(_)) == [i \in 1..Len(seq) |-> F(seq[i])]
Case(req, resp) == [req |-> req, resp |-> resp, target |-> Target(req), target2 |-> TargetLite(req),
                    hview |-> HandlerView(req), cview |-> ClientView(resp, req.range)]

Cases ==
     Map(Methods, LAMBDA m : Case([BaseReq EXCEPT !.method = m], BaseResp))
  \o Map(Paths, LAMBDA p : Case([BaseReq EXCEPT !.segs = p], BaseResp))
  \o Map(Queries, LAMBDA q : Case([BaseReq EXCEPT !.query = q], BaseResp))
  \o Map(Headers, LAMBDA h : Case([BaseReq EXCEPT !.headers = h], BaseResp))
  \o Map(Headers, LAMBDA h : Case(BaseReq, [BaseResp EXCEPT !.headers = h]))
  \o Map(Codes, LAMBDA c : Case(BaseReq, [BaseResp EXCEPT !.code = c]))
  \o Map(Lens, LAMBDA n : Case([BaseReq EXCEPT !.method = "POST", !.blen = n, !.bseed = n + 3], BaseResp))
  \o Map(Lens, LAMBDA n : Case(BaseReq, [BaseResp EXCEPT !.blen = n, !.bseed = n + 11]))
  \o Map(BodyMethods, LAMBDA m : Case([BaseReq EXCEPT !.method = m, !.blen = 33, !.segs = <<A, XY>>, !.query = << <<K1, V1>>, <<K2, V2>> >>,
                                        !.headers = << <<HXTEST, HVAL1>> >>],
                                       [BaseResp EXCEPT !.code = 201, !.blen = 70000, !.headers = << <<HLOWER, HVAL2>> >>]))
  \o Map(Jsons, LAMBDA j : Case(BaseReq, [BaseResp EXCEPT !.kind = "json", !.json = j]))
  \o <<Case(BaseReq, [BaseResp EXCEPT !.kind = "file", !.fsize = FSize])>>
  \o Map(Ranges, LAMBDA r : Case([BaseReq EXCEPT !.range = r], [BaseResp EXCEPT !.kind = "file", !.fsize = FSize]))
  \o <<Case(BaseReq, [BaseResp EXCEPT !.kind = "file", !.fsize = 70000]),
       Case([BaseReq EXCEPT !.range = <<16000, 48000>>], [BaseResp EXCEPT !.kind = "file", !.fsize = 70000])>>

\* sanity of the views themselves (checked as invariants while walking)
ViewsOK(c) == /\ c.hview.path = PathOf(c.req)
              /\ PctDec(c.target) = RawTarget(c.req) /\ PctDec(c.target2) = RawTarget(c.req)   \* both spellings denote the request
              /\ c.cview.code \in {200, 201, 206, 400, 404, 416, 500, 503}
              /\ (c.resp.kind = "file" /\ c.req.range # <<>> /\ c.cview.code = 206) =>
                     (c.cview.blen >= 1 /\ c.cview.from + c.cview.blen <= c.resp.fsize)

VARIABLE i
Init == i = 1
Next == i <= Len(Cases) /\ i' = i + 1
Spec == Init /\ [][Next]_i
Emit == IF i <= Len(Cases) THEN ViewsOK(Cases[i]) /\ PrintT(ToJson([id |-> i] @@ Cases[i])) ELSE TRUE
=============================================================================
