----------------------------- MODULE XdlParserApi -----------------------------
(* C06 - the incremental parser *object*  asl::XdlParser  as a state machine over its public calls

        XdlParser()        parse(chunk)*        value()        reset()        decode(text)

   (there is no separate error/ended query: an error is observed as value() returning an invalid Var, and it is sticky -
   parse() ignores everything after it - until reset()).

   Specification (what a user of the object can rely on), with  fed = the bytes passed to parse()/decode() since the
   object was constructed or last reset (decode(t) counts as t followed by the flush character, a line feed):
     ApiRefines     the object's state - hence every later answer - is a function of fed alone:  sm = Run(SMInit, fed) ;
                    in particular reset() gives a parser indistinguishable from a new one, after an error, in the
                    middle of a container / string / comment / \u escape, and after complete values
     ApiValue       whenever fed is a complete RFC 8259 document of the property's domain followed by a delimiter,
                    value() is the recognizer's value (chunking, earlier resets and earlier documents do not matter)
     ApiNoUnderflow no call sequence makes the design read or pop an empty stack (= a memory error in the real object)
     ApiSticky      once in the error state, only reset() leaves it
   The design under test is XdlSM with reset() modelled by ResetFull (ResetClearsAll = TRUE, the repaired tree) or by
   ResetPinned (FALSE: the pinned tree, which TLC refutes: MC_XdlParserApi_defect*.cfg are expected violations, e.g.
   parse("{") reset() parse("1 ")  pops the empty property-name stack and  parse("[") reset() parse("1 ")  has no value).

   Every transition is printed as a replay case for harness/c06_api_replay: the call sequence, fed, and - when ApiValue
   applies - the value; the replayer drives a real XdlParser through the calls and compares value() with that value and
   with a *new* parser given fed in one piece (the reset / chunk law on the real object; under ASan).         *)
EXTENDS XdlSM, Json

CONSTANTS MaxCalls, ResetClearsAll
VARIABLES sm, fed, hist, act
avars == <<sm, fed, hist, act>>

Chunks == <<
  <<91>>, <<93>>, <<123>>, <<125>>, <<34>>, <<44>>, <<58>>, <<32>>, <<10>>, <<47>>, <<42>>, <<92>>, <<49>>, <<97>>,      \* [ ] { } " , : sp nl / * \ 1 a
  <<91, 49, 44>>,                                  \* [1,
  <<123, 34, 107, 34, 58>>,                        \* {"k":
  <<123, 107, 61, 84, 123>>,                       \* {k=T{
  <<34, 92, 117, 100, 56, 51, 100>>,               \* "\ud83d   (first half of a surrogate pair)
  <<34, 92, 117, 48, 48>>,                         \* "\u00
  <<92, 117, 48, 48, 52, 49, 34, 32>>,             \* A"sp
  <<47, 42, 120>>,                                 \* /*x
  <<47, 47, 120>>,                                 \* //x
  <<49, 32>>,                                      \* 1 sp
  <<45, 48, 46, 53, 101>>,                         \* -0.5e
  <<34, 97, 34, 32>>,                              \* "a" sp
  <<91, 50, 93>>,                                  \* [2]
  <<123, 34, 107, 34, 58, 116, 114, 117, 101, 125>>,   \* {"k":true}
  <<120, 32>>,                                     \* x sp   (an identifier that is no literal: waits for '{')
  <<48, 49, 32>> >>                                \* 01 sp  (error)
DecodeTexts == << <<91, 49, 93>>, <<53>>, <<91, 49>>, <<34, 92, 117, 48, 48, 52, 49, 34>>, <<>> >>     \* [1]  5  [1  "A"  (empty)

Reset(s) == IF ResetClearsAll THEN ResetFull(s) ELSE ResetPinned(s)

AInit == sm = SMInit /\ fed = <<>> /\ hist = <<>> /\ act = "Init"
DoParse(i) == /\ act' = "Parse"
              /\ sm' = Run(sm, Chunks[i])
              /\ fed' = fed \o Chunks[i]
              /\ hist' = Append(hist, [op |-> "parse", t |-> Chunks[i]])
DoDecode(i) == /\ act' = "Decode"
               /\ sm' = DecodeOn(sm, DecodeTexts[i])
               /\ fed' = fed \o DecodeTexts[i] \o Flush
               /\ hist' = Append(hist, [op |-> "decode", t |-> DecodeTexts[i]])
DoReset == /\ act' = "Reset"
           /\ sm' = Reset(sm)
           /\ fed' = <<>>
           /\ hist' = Append(hist, [op |-> "reset", t |-> <<>>])
ANext == /\ Len(hist) < MaxCalls
         /\ \/ \E i \in 1..Len(Chunks) : DoParse(i)
            \/ \E i \in 1..Len(DecodeTexts) : DoDecode(i)
            \/ DoReset
ASpec == AInit /\ [][ANext]_avars

Valid(r) == r.ok /\ ~r.ex /\ ~DupKeys(r.v)
Delimited(t) == t # <<>> /\ t[Len(t)] \in {32, 10, 13, 9, 93, 125, 34}
ApiRefines == sm = Run(SMInit, fed)
ApiNoUnderflow == NoUnderflowS(sm)
ApiValue == LET r == Doc(fed) IN (Valid(r) /\ Delimited(fed)) => Result(sm) = [ok |-> TRUE, v |-> r.v]
ApiSticky == [][(sm.st = "ERR" /\ act' # "Reset") => sm'.st = "ERR"]_avars
\* a reset parser is a new parser
ResetIsNew == act = "Reset" => sm = SMInit

RECURSIVE AExpect(_)
AExpect(v) ==
    LET k == Kind(v) IN
    IF k = "n" THEN LET sd == SimpleDbl(Canon(v.n)) IN [n |-> v.n, d |-> IF sd.ok THEN sd.d ELSE <<>>]
    ELSE IF k = "a" THEN [a |-> [i \in 1..Len(v.a) |-> AExpect(v.a[i])]]
    ELSE IF k = "o" THEN [o |-> [i \in 1..Len(v.o) |-> <<v.o[i][1], AExpect(v.o[i][2])>>]]
    ELSE IF k = "b" THEN [b |-> IF v.b THEN 1 ELSE 0]
    ELSE v
AEmit == LET r == Doc(fed')
             isdoc == Valid(r) /\ Delimited(fed')
         IN PrintT(ToJson([calls |-> hist', fed |-> fed', k |-> IF isdoc THEN "doc" ELSE "any",
                           v |-> IF isdoc THEN AExpect(r.v) ELSE [z |-> 0],
                           err |-> (sm'.st = "ERR"), act |-> sm'.st \o ">" \o act']))
===============================================================================
