SPECIFICATION Spec
CONSTANTS
 KindC = "lib"
 KindS = "raw"
 MaxOps = 6
 MaxMsgs = 1
 MaxCtl = 2
 LibLens = {126}
 RawLens = {126}
 Shapes = {"whole","begin"}
 CloseFrames = {}
 CtlPls = {"empty","one","four"}
 Observers = {"wait", "closed", "hasinput"}
VIEW View
ACTION_CONSTRAINT Emit
INVARIANTS TypeOK PrefixDelivery NoLoss PongsAnswerPings
PROPERTIES Monotone QuietAfterClose
CHECK_DEADLOCK FALSE
