SPECIFICATION Spec
CONSTANTS
 Type = "smart"
 NT = 2
 NO = 2
 NB = 1
 NS = 2
 MaxOps = 2
 Shape = "flat"
 Ext = {"self", "null", "conv", "clone"}
VIEW View
ACTION_CONSTRAINT Emit
INVARIANTS NoUseAfterFree AliveWhileHandles DestroyedOnce CountsMatch ReleasedWithLastHandle NoHalfDestroyed SubtreeAlive
CHECK_DEADLOCK FALSE
