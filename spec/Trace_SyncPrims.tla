----------------------------- MODULE Trace_SyncPrims -----------------------------
(* V binding for C13 (Semaphore / Mutex / Lock / Condition / Atomic, timed and non-blocking variants included):
   validates the event log of free-running, jittered executions (harness/c13_record.cpp).

   Log order is the order in which the events were appended under the recorder's log lock, i.e. a real-time order of
   the logging instants.  Two kinds of events bracket every library call:
     "begin" events are logged BEFORE the call starts  (library hooks 20 lock, 23 post, 24 wait, 22 unlock, 27 cond wait;
                                                         recorder events 110 timed/try wait, 112 value, 115 timed cond
                                                         wait, 117 trylock)
     "end"   events are logged AFTER the call returned  (library hooks 21, 25, 28; recorder events 106 post completed,
                                                         111, 113, 114 unlock completed / Lock scope left, 116, 118).
   From such a log two bounds on the real value of every semaphore (a mutex is a semaphore that starts at 1) are sound
   at every logging instant:
     hi  (variables sem / owner)  = units whose release has BEGUN  minus acquisitions that have RETURNED
     lo                           = units whose release has COMPLETED minus acquisitions that have BEGUN
                                    (an acquisition that failed is added back when its failure is logged)
   real value is within [lo, hi] at all times.  What can be concluded:
     * an acquisition that returned "acquired" needs hi > 0 at its end event            (never a return without a post /
                                                                                          mutual exclusion) - as before
     * a timed wait, trywait or trylock that returned "not acquired" needs an instant inside its begin..end interval at
       which lo, not counting the caller itself, was <= 0.  If lo stayed positive for the whole interval a unit was
       available to this caller during the entire call and it still came back empty-handed: a lost post (SyncPrims
       WaitFail / TryFail are enabled only when the wait cannot be satisfied).  pend[t].mn tracks min(lo) over the
       interval; lo already contains -1 for the caller, so the test is  mn < 0.
     * value() = v needs  min(lo) <= v <= max(hi) over its interval, and v >= 0.
     * a timed wait that reports a time-out must have lasted (almost) as long as the time-out (field w, ms).
   Event kinds:  0 reset, 101 semaphore created (v = count), 102 condition bound to mutex (v = mutex index),
   103 item published, 104 item taken, 105 end of execution, 26 signal (must hold the bound mutex: documented protocol),
   109 ++atomic returned v, 119 plain counter of mutex o read as v and written v + 1 inside the critical section,
   121 summary of unlogged start/join rounds, 129/130 sleep(double) begin (v = request in 0.1 ms) / end (v = measured
   duration in 0.1 ms), 131 Thread::numProcessors() = v, 132 a signal handler interrupted the thread (environment, no
   effect on any primitive - SyncPrims Interrupt).  All other kinds are stuttering steps.                          *)
EXTENDS Integers, FiniteSets, Sequences, TLC, Json, IOUtils

T == ndJsonDeserialize(IOEnv.TRACE)
VARIABLES l, sem, owner, bind, produced, consumed,
          lo,        \* lower bound per object (semaphores: set by 101; mutexes: 1)
          pend,      \* thread -> [o, mn, mx, w] of its timed / non-blocking call in progress
          aseen,     \* <<atomic object, value returned by ++>>
          cnt        \* plain counter protected by mutex o (119: read v, write v + 1 inside the critical section)
vars == <<l, sem, owner, bind, produced, consumed, lo, pend, aseen, cnt>>

Objs == 0..127
SlackMs == 2          \* clock granularity: gettimeofday deadline vs. monotonic measurement
Init == /\ l = 1
        /\ sem = [o \in Objs |-> 0] /\ owner = [o \in Objs |-> 0] /\ bind = [o \in Objs |-> 0]
        /\ produced = {} /\ consumed = {}
        /\ lo = [o \in Objs |-> 1] /\ pend = <<>> /\ aseen = {} /\ cnt = [o \in Objs |-> 0]

Modeled == {0, 20, 21, 22, 23, 24, 25, 26, 27, 28, 101, 102, 103, 104, 105, 106, 109, 110, 111, 112, 113, 114, 115, 116, 117, 118,
            119, 121, 129, 130, 131, 132}

Min2(a, b) == IF a < b THEN a ELSE b
Max2(a, b) == IF a > b THEN a ELSE b
\* lo / hi of object o become nlo / nhi: every call in progress on o remembers the extremes
Track(o, nlo, nhi) == [t \in DOMAIN pend |-> IF pend[t].o = o
                                              THEN [pend[t] EXCEPT !.mn = Min2(@, nlo), !.mx = Max2(@, nhi)]
                                              ELSE pend[t]]
Begin(t, o, nlo, nhi, w) == [x \in (DOMAIN pend) \cup {t} |->
                               IF x = t THEN [o |-> o, mn |-> nlo, mx |-> nhi, w |-> w] ELSE Track(o, nlo, nhi)[x]]
Finish(t) == [x \in (DOMAIN pend) \ {t} |-> pend[x]]
Pending(t, o) == t \in DOMAIN pend /\ pend[t].o = o
U1 == UNCHANGED <<bind, produced, consumed, aseen, cnt>>

Step ==
  /\ l <= Len(T) /\ l' = l + 1
  /\ LET e == T[l] IN
     \/ /\ e.k = 0
        /\ sem' = [o \in Objs |-> 0] /\ owner' = [o \in Objs |-> 0] /\ bind' = [o \in Objs |-> 0]
        /\ produced' = {} /\ consumed' = {} /\ lo' = [o \in Objs |-> 1] /\ pend' = <<>> /\ aseen' = {} /\ cnt' = [o \in Objs |-> 0]
     \/ /\ e.k \notin Modeled /\ UNCHANGED <<sem, owner, bind, produced, consumed, lo, pend, aseen, cnt>>
     \/ /\ e.k = 101 /\ sem' = [sem EXCEPT ![e.o] = e.v] /\ lo' = [lo EXCEPT ![e.o] = e.v]
        /\ UNCHANGED <<owner, pend>> /\ U1
     \/ /\ e.k = 102 /\ bind' = [bind EXCEPT ![e.o] = e.v] /\ UNCHANGED <<sem, owner, produced, consumed, lo, pend, aseen, cnt>>
     (* ---- semaphore ---- *)
     \/ /\ e.k = 23 /\ sem' = [sem EXCEPT ![e.o] = @ + e.v]                    \* post begins
        /\ pend' = Track(e.o, lo[e.o], sem'[e.o]) /\ UNCHANGED <<owner, lo>> /\ U1
     \/ /\ e.k = 106 /\ lo' = [lo EXCEPT ![e.o] = @ + e.v]                      \* post completed
        /\ UNCHANGED <<sem, owner, pend>> /\ U1
     \/ /\ e.k = 24 /\ lo' = [lo EXCEPT ![e.o] = @ - 1]                         \* blocking wait begins
        /\ pend' = Track(e.o, lo'[e.o], sem[e.o]) /\ UNCHANGED <<sem, owner>> /\ U1
     \/ /\ e.k = 25 /\ sem[e.o] > 0                                  \* a wait returned: there was a post for it
        /\ sem' = [sem EXCEPT ![e.o] = @ - 1] /\ UNCHANGED <<owner, lo, pend>> /\ U1
     \/ /\ e.k = 110 /\ e.t \notin DOMAIN pend                                  \* wait(timeout) / trywait begins
        /\ lo' = [lo EXCEPT ![e.o] = @ - 1]
        /\ pend' = Begin(e.t, e.o, lo'[e.o], sem[e.o], e.v) /\ UNCHANGED <<sem, owner>> /\ U1
     \/ /\ e.k = 111 /\ Pending(e.t, e.o)                                       \* ... returned, v = 2 * duration ms + result
        /\ IF e.v % 2 = 1
           THEN /\ sem[e.o] > 0                                                 \* acquired: there was a post for it
                /\ sem' = [sem EXCEPT ![e.o] = @ - 1] /\ UNCHANGED lo
           ELSE /\ pend[e.t].mn < 0                                             \* gave up: at some instant nothing was available
                /\ (e.v \div 2) + SlackMs >= pend[e.t].w                        \* and not before the time-out
                /\ lo' = [lo EXCEPT ![e.o] = @ + 1] /\ UNCHANGED sem            \* without consuming a post
        /\ pend' = Finish(e.t) /\ UNCHANGED owner /\ U1
     \/ /\ e.k = 112 /\ e.t \notin DOMAIN pend                                  \* value() begins
        /\ pend' = Begin(e.t, e.o, lo[e.o], sem[e.o], 0) /\ UNCHANGED <<sem, owner, lo>> /\ U1
     \/ /\ e.k = 113 /\ Pending(e.t, e.o)                                       \* value() = v
        /\ e.v >= 0 /\ e.v >= pend[e.t].mn /\ e.v <= pend[e.t].mx
        /\ pend' = Finish(e.t) /\ UNCHANGED <<sem, owner, lo>> /\ U1
     (* ---- mutex / Lock ---- *)
     \/ /\ e.k = 20 /\ lo' = [lo EXCEPT ![e.o] = @ - 1]                         \* lock() begins
        /\ pend' = Track(e.o, lo'[e.o], 0) /\ UNCHANGED <<sem, owner>> /\ U1
     \/ /\ e.k = 21 /\ owner[e.o] = 0                                 \* mutual exclusion
        /\ owner' = [owner EXCEPT ![e.o] = e.t + 1] /\ UNCHANGED <<sem, lo, pend>> /\ U1
     \/ /\ e.k = 22 /\ owner[e.o] = e.t + 1
        /\ owner' = [owner EXCEPT ![e.o] = 0] /\ UNCHANGED <<sem, lo, pend>> /\ U1
     \/ /\ e.k = 114 /\ owner[e.o] # e.t + 1                                    \* unlock() returned / Lock scope left: not held by t
        /\ lo' = [lo EXCEPT ![e.o] = @ + 1] /\ UNCHANGED <<sem, owner, pend>> /\ U1
     \/ /\ e.k = 117 /\ e.t \notin DOMAIN pend                                  \* trylock() begins
        /\ lo' = [lo EXCEPT ![e.o] = @ - 1]
        /\ pend' = Begin(e.t, e.o, lo'[e.o], 0, 0) /\ UNCHANGED <<sem, owner>> /\ U1
     \/ /\ e.k = 118 /\ Pending(e.t, e.o)                                       \* trylock() = v
        /\ IF e.v = 1
           THEN /\ owner[e.o] = 0 /\ owner' = [owner EXCEPT ![e.o] = e.t + 1] /\ UNCHANGED lo
           ELSE /\ pend[e.t].mn < 0                                             \* refused: it may have been held at some instant
                /\ lo' = [lo EXCEPT ![e.o] = @ + 1] /\ UNCHANGED owner
        /\ pend' = Finish(e.t) /\ UNCHANGED sem /\ U1
     \/ /\ e.k = 119 /\ owner[e.o] = e.t + 1 /\ cnt[e.o] = e.v                 \* inside the critical section: no update lost
        /\ cnt' = [cnt EXCEPT ![e.o] = e.v + 1] /\ UNCHANGED <<sem, owner, bind, produced, consumed, lo, pend, aseen>>
     (* ---- condition ---- *)
     \/ /\ e.k = 26 /\ owner[bind[e.o]] = e.t + 1                     \* documented protocol: signal with the mutex held
        /\ UNCHANGED <<sem, owner, lo, pend>> /\ U1
     \/ /\ e.k \in {27, 115} /\ owner[bind[e.o]] = e.t + 1            \* wait is called with the mutex held
        /\ owner' = [owner EXCEPT ![bind[e.o]] = 0]
        /\ lo' = [lo EXCEPT ![bind[e.o]] = @ - 1]                               \* release not known complete; re-acquisition begun
        /\ LET p1 == Track(bind[e.o], lo'[bind[e.o]], 0) IN
           IF e.k = 115 THEN /\ e.t \notin DOMAIN pend
                             /\ pend' = [x \in (DOMAIN p1) \cup {e.t} |->
                                           IF x = e.t THEN [o |-> e.o, mn |-> 0, mx |-> 0, w |-> e.v] ELSE p1[x]]
                        ELSE pend' = p1
        /\ UNCHANGED sem /\ U1
     \/ /\ e.k \in {28, 116} /\ owner[bind[e.o]] = 0                  \* returns holding the mutex again
        /\ owner' = [owner EXCEPT ![bind[e.o]] = e.t + 1]
        /\ lo' = [lo EXCEPT ![bind[e.o]] = @ + 1]                               \* its own release certainly completed
        /\ IF e.k = 116
           THEN /\ Pending(e.t, e.o)
                /\ (e.v % 2 = 1) => (e.v \div 2) + SlackMs >= pend[e.t].w      \* "true" = timed out (documented): not early
                /\ pend' = Finish(e.t)
           ELSE UNCHANGED pend
        /\ UNCHANGED sem /\ U1
     (* ---- items, atomics, helpers ---- *)
     \/ /\ e.k = 103 /\ e.v \notin produced
        /\ produced' = produced \cup {e.v} /\ UNCHANGED <<sem, owner, bind, consumed, lo, pend, aseen, cnt>>
     \/ /\ e.k = 104 /\ e.v \in produced /\ e.v \notin consumed        \* taken once, and only after it was published
        /\ consumed' = consumed \cup {e.v} /\ UNCHANGED <<sem, owner, bind, produced, lo, pend, aseen, cnt>>
     \/ /\ e.k = 109 /\ <<e.o, e.v>> \notin aseen                               \* ++x on an Atomic: every value returned once
        /\ aseen' = aseen \cup {<<e.o, e.v>>} /\ UNCHANGED <<sem, owner, bind, produced, consumed, lo, pend, cnt>>
     \* summary of e.o start/join rounds without logging: join() returned, the body had run exactly once and finished() was true
     \/ /\ e.k = 121 /\ e.v = 0 /\ UNCHANGED <<sem, owner, bind, produced, consumed, lo, pend, aseen, cnt>>
     \/ /\ e.k = 129 /\ e.t \notin DOMAIN pend /\ pend' = Begin(e.t, e.o, 0, 0, e.v)
        /\ UNCHANGED <<sem, owner, lo>> /\ U1
     \/ /\ e.k = 130 /\ Pending(e.t, e.o) /\ e.v + 1 >= pend[e.t].w              \* sleep(s) lasts at least s
        /\ pend' = Finish(e.t) /\ UNCHANGED <<sem, owner, lo>> /\ U1
     \/ /\ e.k = 131 /\ e.v >= 1 /\ UNCHANGED <<sem, owner, bind, produced, consumed, lo, pend, aseen, cnt>>
     \/ /\ e.k = 132 /\ UNCHANGED <<sem, owner, bind, produced, consumed, lo, pend, aseen, cnt>>
     \/ /\ e.k = 105 /\ consumed = produced /\ \A o \in Objs : owner[o] = 0   \* nothing lost, no mutex left held
        /\ DOMAIN pend = {}
        /\ \A p \in aseen : p[2] >= 1 /\ p[2] <= Cardinality({q \in aseen : q[1] = p[1]})   \* the ++ results are 1..n
        /\ UNCHANGED <<sem, owner, bind, produced, consumed, lo, pend, aseen, cnt>>

TraceSpec == Init /\ [][Step]_vars
TraceAccepted == TLCGet("stats").diameter - 1 = Len(T)
===============================================================================
