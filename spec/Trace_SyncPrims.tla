----------------------------- MODULE Trace_SyncPrims -----------------------------
(* V binding for C13 (Semaphore / Mutex / Condition): validates the hook-event log of free-running, jittered
   producer/consumer and condition-variable executions (harness/c13_record.cpp).  Log order is the order in which the
   events were appended under the recorder's log lock; hooks fire *before* a releasing operation (post, unlock,
   cond wait) and *after* an acquiring one (wait return, lock return, cond wait return), so in log order every
   acquisition must be explainable by the releases logged before it - exactly the enabling conditions of
   SyncPrims' actions (WaitRet: sem > 0; WLock/WWake: owner = 0).
   Event kinds: 23 sem post (v = n), 25 sem wait returned, 21 mutex acquired, 22 mutex about to be released,
   27 cond wait about to release the mutex, 28 cond wait returned with the mutex, 101 semaphore created (v = count),
   102 condition bound to mutex (v = mutex index), 103 item published, 104 item taken, 105 end of execution,
   121 summary of o unlogged start/join rounds with v violations of ThreadLife's JoinAfterBody/FinishedAfterJoin,
   0 reset.  All other hook kinds are stuttering steps.                                                        *)
EXTENDS Naturals, FiniteSets, Sequences, TLC, Json, IOUtils

T == ndJsonDeserialize(IOEnv.TRACE)
VARIABLES l, sem, owner, bind, produced, consumed
vars == <<l, sem, owner, bind, produced, consumed>>

Objs == 0..63
Init == /\ l = 1
        /\ sem = [o \in Objs |-> 0] /\ owner = [o \in Objs |-> 0] /\ bind = [o \in Objs |-> 0]
        /\ produced = {} /\ consumed = {}

Modeled == {0, 21, 22, 23, 25, 27, 28, 101, 102, 103, 104, 105, 121}

Step ==
  /\ l <= Len(T) /\ l' = l + 1
  /\ LET e == T[l] IN
     \/ /\ e.k = 0
        /\ sem' = [o \in Objs |-> 0] /\ owner' = [o \in Objs |-> 0] /\ bind' = [o \in Objs |-> 0]
        /\ produced' = {} /\ consumed' = {}
     \/ /\ e.k \notin Modeled /\ UNCHANGED <<sem, owner, bind, produced, consumed>>
     \/ /\ e.k = 101 /\ sem' = [sem EXCEPT ![e.o] = e.v] /\ UNCHANGED <<owner, bind, produced, consumed>>
     \/ /\ e.k = 102 /\ bind' = [bind EXCEPT ![e.o] = e.v] /\ UNCHANGED <<sem, owner, produced, consumed>>
     \/ /\ e.k = 23 /\ sem' = [sem EXCEPT ![e.o] = @ + e.v] /\ UNCHANGED <<owner, bind, produced, consumed>>
     \/ /\ e.k = 25 /\ sem[e.o] > 0                                  \* a wait returned: there was a post for it
        /\ sem' = [sem EXCEPT ![e.o] = @ - 1] /\ UNCHANGED <<owner, bind, produced, consumed>>
     \/ /\ e.k = 21 /\ owner[e.o] = 0                                 \* mutual exclusion
        /\ owner' = [owner EXCEPT ![e.o] = e.t + 1] /\ UNCHANGED <<sem, bind, produced, consumed>>
     \/ /\ e.k = 22 /\ owner[e.o] = e.t + 1
        /\ owner' = [owner EXCEPT ![e.o] = 0] /\ UNCHANGED <<sem, bind, produced, consumed>>
     \/ /\ e.k = 27 /\ owner[bind[e.o]] = e.t + 1                     \* wait is called with the mutex held
        /\ owner' = [owner EXCEPT ![bind[e.o]] = 0] /\ UNCHANGED <<sem, bind, produced, consumed>>
     \/ /\ e.k = 28 /\ owner[bind[e.o]] = 0
        /\ owner' = [owner EXCEPT ![bind[e.o]] = e.t + 1] /\ UNCHANGED <<sem, bind, produced, consumed>>
     \/ /\ e.k = 103 /\ e.v \notin produced
        /\ produced' = produced \cup {e.v} /\ UNCHANGED <<sem, owner, bind, consumed>>
     \/ /\ e.k = 104 /\ e.v \in produced /\ e.v \notin consumed        \* taken once, and only after it was published
        /\ consumed' = consumed \cup {e.v} /\ UNCHANGED <<sem, owner, bind, produced>>
     \* summary of e.o start/join rounds without logging: join() returned, the body had run exactly once and finished() was true
     \/ /\ e.k = 121 /\ e.v = 0 /\ UNCHANGED <<sem, owner, bind, produced, consumed>>
     \/ /\ e.k = 105 /\ consumed = produced /\ \A o \in Objs : owner[o] = 0   \* nothing lost, no mutex left held
        /\ UNCHANGED <<sem, owner, bind, produced, consumed>>

TraceSpec == Init /\ [][Step]_vars
TraceAccepted == TLCGet("stats").diameter - 1 = Len(T)
===============================================================================
