SPECIFICATION TraceSpec
CONSTANTS
 NH = 8
 V = {1,2,3}
 Sizes = {0}
 MaxLen = 1000000
 MaxOps = 0
 KeepHist = FALSE
INVARIANTS TypeOK NoOrphan SomeLive DimsOK
PROPERTIES Independence CloneFresh
POSTCONDITION TraceAccepted
CHECK_DEADLOCK FALSE
