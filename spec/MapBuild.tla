------------------------------- MODULE MapBuild -------------------------------
(* C02 - building associative containers from lists of key/value pairs, converting between them, and the text
   form of a Dic: the value-level part of the public surface of asl::Map / Dic / HashMap / Set that has no handle
   state.  A state is an input list ps of (key id, value id) pairs; every list up to MaxLen over K x V is
   reached, and for each the module says

     * the finite map the list denotes (ToMap: a key given twice keeps its last value) - what
         Map<K,T> m = {{k,v},...};  Map<K,T>(k,v)(k,v)...;  Dic<T> d = {{k,v},...};  d = {{k,v},...};
         Map<K,T>(const Map<K2,T2>&), Dic<T>(const Map<K2,T2>&), Dic<T>(const Dic<T2>&) applied to such a map;
         a HashMap(n) / HashDic(n) filled with set() in list order, n = 0, the list length, twice the list length
       must hold (entries in ascending key order, length, lookups), and that all of them are == to each other;
     * the set of its keys (KeySet) - what Set<T> s = {k,...}; Set<T>(Array<T>); s.array(); Array<T>(s) hold:
       every key once, whatever the multiplicity and order in the list;
     * for text keys and values (KeyText / ValText give each id a byte string) and every separator pair (s1, s2)
       of Seps the text Join(m, s1, s2) = k1 s2 v1 s1 k2 s2 v2 ... in ascending key order - Dic::join(s1, s2) - and
       that splitting it again - String::split(s1, s2), documented as the opposite of join - gives the map back
       (RoundTrip, checked by TLC on the specification's own Split2: pieces between occurrences of s1, each cut at
       the first occurrence of s2).  Texts the documentation says nothing about (pieces without s2, empty keys,
       separators occurring inside keys or values) are not generated: KeyText / ValText / Seps are chosen so that
       no separator shares a byte with a key or value text (SepsClean).

   R: MC_MapBuild_*.cfg emit one case per list; harness/c02_replay (--mode of the case: "build") constructs all
   of the above on the real classes and compares them with the emitted map, key set and texts.                  *)
EXTENDS Integers, Sequences, FiniteSets, TLC, Json, SequencesExt

CONSTANTS K, V,       \* key ids 1..n / value ids, as in FiniteMap
          MaxLen,     \* longest list
          KeyText,    \* key id -> byte string (sequence of codes); ascending ids have ascending texts
          ValText,    \* value id -> byte string
          Seps,       \* sequence of [s1 |-> bytes, s2 |-> bytes]
          Convs       \* sequence of [name |-> STRING, f |-> [K -> Nat]]: key conversions K2 -> K of the converting constructors;
                      \* f[k] is the rank of the converted key in the target type's order (equal ranks = the same target key),
                      \* so f may be non-monotone (int 2, 10, 33 -> texts "10" < "2" < "33") and non-injective (1.2, 1.7 -> 1)

VARIABLES ps,        \* the list
          go         \* FALSE only in the initial state (so that the empty list is the target of a transition, too)
vars == <<ps, go>>

Empty == <<>>
Dom(m) == DOMAIN m
MapPut(m, k, v) == [x \in Dom(m) \cup {k} |-> IF x = k THEN v ELSE m[x]]
RECURSIVE ToMapN(_, _)
ToMapN(s, n) == IF n = 0 THEN Empty ELSE MapPut(ToMapN(s, n - 1), s[n].k, s[n].v)
ToMap(s) == ToMapN(s, Len(s))
KeySet(s) == {s[i].k : i \in 1..Len(s)}
EntrySeq(m) == LET ks == SetToSortSeq(Dom(m), <) IN [i \in 1..Len(ks) |-> [k |-> ks[i], v |-> m[ks[i]]]]

-------------------------------------------------------------------------------
(* byte strings *)
RECURSIVE Concat(_, _)
Concat(ss, n) == IF n = 0 THEN <<>> ELSE Concat(ss, n - 1) \o ss[n]
\* first position >= from at which p occurs in t (1-based), 0 if none; p non-empty
Occurs(t, p, i) == i + Len(p) - 1 <= Len(t) /\ SubSeq(t, i, i + Len(p) - 1) = p
IndexFrom(t, p, from) == LET C == {i \in from..(Len(t) - Len(p) + 1) : Occurs(t, p, i)} IN
                         IF C = {} THEN 0 ELSE CHOOSE i \in C : \A j \in C : i <= j
\* String::split(sep): the pieces between the occurrences of sep found scanning from the left; "" gives one empty piece
RECURSIVE SplitFrom(_, _, _)
SplitFrom(t, sep, from) == LET j == IndexFrom(t, sep, from) IN
                           IF j = 0 THEN << SubSeq(t, from, Len(t)) >>
                           ELSE << SubSeq(t, from, j - 1) >> \o SplitFrom(t, sep, j + Len(sep))
SplitBy(t, sep) == SplitFrom(t, sep, 1)
\* Dic::join(s1, s2) of the text map of m
Join(m, s1, s2) == LET e == EntrySeq(m) IN
                   Concat([i \in 1..Len(e) |-> (IF i > 1 THEN s1 ELSE <<>>) \o KeyText[e[i].k] \o s2 \o ValText[e[i].v]], Len(e))
\* String::split(s1, s2): every piece that contains s2 after a non-empty key becomes an entry (a key met again is overwritten)
RECURSIVE Split2N(_, _, _)
Split2N(pcs, s2, n) == IF n = 0 THEN Empty
                       ELSE LET d == Split2N(pcs, s2, n - 1)
                                j == IndexFrom(pcs[n], s2, 1) IN
                            IF j > 1 THEN MapPut(d, SubSeq(pcs[n], 1, j - 1), SubSeq(pcs[n], j + Len(s2), Len(pcs[n]))) ELSE d
Split2(t, s1, s2) == LET pcs == SplitBy(t, s1) IN Split2N(pcs, s2, Len(pcs))
\* the map of texts that m stands for
TextMap(m) == [t \in {KeyText[k] : k \in Dom(m)} |-> ValText[m[CHOOSE k \in Dom(m) : KeyText[k] = t]]]

-------------------------------------------------------------------------------
(* Map<K,T>(const Map<K2,T2>&) / Dic<T>(const Map<K2,T2>&) with a key conversion f: the result is again a finite map - its keys
   are the images of the source keys, each once, in the TARGET type's order; where several source keys have the same image
   the documentation does not say which value is kept (the code keeps that of the greatest source key: ConvLast), so any
   of them is accepted (ConvCands).                                                                                        *)
ConvDom(m, f) == {f[k] : k \in Dom(m)}
ConvSrc(m, f, t) == {k \in Dom(m) : f[k] = t}
ConvCands(m, f, t) == {m[k] : k \in ConvSrc(m, f, t)}
ConvLast(m, f, t) == m[CHOOSE k \in ConvSrc(m, f, t) : \A x \in ConvSrc(m, f, t) : x <= k]
ConvSeq(m, f) == LET ts == SetToSortSeq(ConvDom(m, f), <) IN
                 [i \in 1..Len(ts) |-> [t |-> ts[i], last |-> ConvLast(m, f, ts[i]), cands |-> SetToSortSeq(ConvCands(m, f, ts[i]), <)]]
Injective(f, S) == \A a, b \in S : f[a] = f[b] => a = b
Monotone(f, S) == \A a, b \in S : a < b => f[a] < f[b]

-------------------------------------------------------------------------------
Init == ps = <<>> /\ go = FALSE
Next == \/ ~go /\ go' = TRUE /\ ps' = ps
        \/ /\ go /\ Len(ps) < MaxLen /\ go' = go
           /\ \E k \in K, v \in V : ps' = Append(ps, [k |-> k, v |-> v])
Spec == Init /\ [][Next]_vars

M == ToMap(ps)
\* properties of the specification itself
TypeOK == Dom(M) \subseteq K /\ \A k \in Dom(M) : M[k] \in V
\* the map holds exactly the keys of the list, each with the value of its last occurrence
LastWins == /\ Dom(M) = KeySet(ps)
            /\ \A i \in 1..Len(ps) : (\A j \in (i+1)..Len(ps) : ps[j].k # ps[i].k) => M[ps[i].k] = ps[i].v
LengthOK == Cardinality(Dom(M)) <= Len(ps) /\ (Len(ps) > 0 => Cardinality(Dom(M)) >= 1)
\* split is the opposite of join
RoundTrip == \A i \in 1..Len(Seps) : LET sp == Seps[i] IN Split2(Join(M, sp.s1, sp.s2), sp.s1, sp.s2) = TextMap(M)
\* a converted map is a map: one entry per distinct image; nothing is lost when the conversion is injective on the keys present,
\* and a monotone conversion keeps the source's order of values
ConvOK == \A i \in 1..Len(Convs) : LET f == Convs[i].f  e == ConvSeq(M, f) IN
             /\ Len(e) = Cardinality(ConvDom(M, f)) /\ Len(e) <= Cardinality(Dom(M))
             /\ (Injective(f, Dom(M)) <=> Len(e) = Cardinality(Dom(M)))
             /\ \A j \in 1..Len(e) : e[j].last \in ConvCands(M, f, e[j].t) /\ (j > 1 => e[j-1].t < e[j].t)
             /\ Monotone(f, Dom(M)) => [j \in 1..Len(e) |-> e[j].last] = [j \in 1..Len(EntrySeq(M)) |-> EntrySeq(M)[j].v]
\* the generated texts stay inside what the documentation describes
Bytes(t) == {t[i] : i \in 1..Len(t)}
SepsClean == /\ \A k \in K : KeyText[k] # <<>>
             /\ \A k1, k2 \in K : k1 < k2 => KeyText[k1] # KeyText[k2]
             /\ \A i \in 1..Len(Seps) : LET sp == Seps[i] IN
                                 /\ sp.s1 # <<>> /\ sp.s2 # <<>>
                                 /\ \A k \in K : Bytes(KeyText[k]) \cap (Bytes(sp.s1) \cup Bytes(sp.s2)) = {}
                                 /\ \A v \in V : Bytes(ValText[v]) \cap (Bytes(sp.s1) \cup Bytes(sp.s2)) = {}

ASSUME SepsClean

-------------------------------------------------------------------------------
KSeq == SetToSortSeq(K, <)
VSeq == SetToSortSeq(V, <)
SepSeq == Seps
Emit == LET m == ToMap(ps') IN
        PrintT(ToJson([mode |-> "build", ps |-> ps', m |-> EntrySeq(m), n |-> Cardinality(Dom(m)),
                       keys |-> SetToSortSeq(KeySet(ps'), <),
                       q |-> [j \in 1..Len(KSeq) |-> [k |-> KSeq[j], has |-> IF KSeq[j] \in Dom(m) THEN 1 ELSE 0,
                                                     get |-> IF KSeq[j] \in Dom(m) THEN m[KSeq[j]] ELSE 9]],
                       kt |-> [j \in 1..Len(KSeq) |-> [k |-> KSeq[j], t |-> KeyText[KSeq[j]]]],
                       vt |-> [j \in 1..Len(VSeq) |-> [v |-> VSeq[j], t |-> ValText[VSeq[j]]]],
                       convs |-> [j \in 1..Len(Convs) |-> [name |-> Convs[j].name, es |-> ConvSeq(m, Convs[j].f),
                                                           src |-> [x \in 1..Len(KSeq) |-> [k |-> KSeq[x], t |-> Convs[j].f[KSeq[x]]]]]],
                       texts |-> [j \in 1..Len(SepSeq) |-> [s1 |-> SepSeq[j].s1, s2 |-> SepSeq[j].s2,
                                                            t |-> Join(m, SepSeq[j].s1, SepSeq[j].s2)]]]))
===============================================================================
