----------------------------- MODULE XdlSMExplore -----------------------------
(* C06 - a walk over the state graph of the design of asl::XdlParser (XdlSM): the text grows by one token of a small
   alphabet per step (single characters of every class the parser distinguishes, plus a few multi-character tokens).
   With VIEW CtlView (the control part of the machine: state, previous state, context stack, comment flag, \u
   counter, shape of the open containers) every control configuration within the bound is expanded once with every
   token, i.e. every transition of the state machine's design is taken; Emit prints the text that takes it, and
   harness/c06_replay feeds it to the real parser whole and in all cuts.  Without the view (MC_XdlSMExplore_all)
   every token string up to the bound is a state.

   Checked on every state:
     NoUnderflow      the design never reads or pops an empty stack
     ChunkInvisible   building the machine state token by token (= chunk by chunk) equals parsing the text whole
     RefinesRecognizer  whenever the strict recognizer accepts the text (inside the property's domain), the design
                      accepts it with the same value
   Expectation for the replayer: k = doc with the recognizer's value when the text is a valid document, any otherwise
   (lenient acceptances and results on malformed input are left open by the property).                       *)
EXTENDS XdlSM, Json

CONSTANTS MaxTokens, MaxCtx, MaxBuf
VARIABLES sm, text, ntok
xvars == <<sm, text, ntok>>

Tokens == <<
  <<91>>, <<93>>, <<123>>, <<125>>, <<44>>, <<58>>, <<61>>, <<34>>, <<92>>, <<47>>, <<42>>,
  <<10>>, <<32>>, <<13>>,
  <<97>>, <<117>>, <<110>>, <<49>>, <<48>>, <<45>>, <<46>>, <<101>>, <<43>>, <<89>>, <<95>>, <<1>>, <<233>>,
  <<116,114,117,101>>, <<110,117,108,108>>, <<48,48,52,49>>, <<100,56,51,100>>, <<100,101,48,48>> >>

XInit == sm = SMInit /\ text = <<>> /\ ntok = 0
XNext == /\ ntok < MaxTokens
         /\ \E i \in 1..Len(Tokens) :
              /\ sm' = Run(sm, Tokens[i])
              /\ text' = text \o Tokens[i]
              /\ ntok' = ntok + 1
XSpec == XInit /\ [][XNext]_xvars
\* keep the walk finite: nesting and token buffer are bounded (the transitions do not depend on them beyond this)
Bounded == Len(sm'.ctx) <= MaxCtx /\ Len(sm'.buf) <= MaxBuf /\ sm.st # "ERR"

NoUnderflow == NoUnderflowS(sm)
ChunkInvisible == sm = Run(SMInit, text)
Valid(r) == r.ok /\ ~r.ex /\ ~DupKeys(r.v)
RefinesRecognizer == LET r == Doc(text) IN Valid(r) => Result(Run(sm, Flush)) = [ok |-> TRUE, v |-> r.v]

CtlView == <<sm.st, sm.prev, sm.ctx, sm.inC, sm.uc, [i \in 1..Len(sm.lists) |-> sm.lists[i].k], Len(sm.props),
             IF sm.buf = <<>> THEN 0 ELSE IF Len(sm.buf) = 1 THEN sm.buf[1] ELSE 256, ntok>>

RECURSIVE XExpect(_)
XExpect(v) ==
    LET k == Kind(v) IN
    IF k = "n" THEN LET sd == SimpleDbl(Canon(v.n)) IN [n |-> v.n, d |-> IF sd.ok THEN sd.d ELSE <<>>]
    ELSE IF k = "a" THEN [a |-> [i \in 1..Len(v.a) |-> XExpect(v.a[i])]]
    ELSE IF k = "o" THEN [o |-> [i \in 1..Len(v.o) |-> <<v.o[i][1], XExpect(v.o[i][2])>>]]
    ELSE IF k = "b" THEN [b |-> IF v.b THEN 1 ELSE 0]
    ELSE v
XEmit == LET r == Doc(text') IN
         PrintT(ToJson([t |-> text', k |-> IF Valid(r) THEN "doc" ELSE "any", v |-> IF Valid(r) THEN XExpect(r.v) ELSE [z |-> 0],
                        fin |-> IF Valid(r) THEN r.p - 1 ELSE 0, act |-> sm.st \o ">" \o sm'.st]))
===============================================================================
