---------------------------- MODULE Trace_HttpStatic ----------------------------
(* V binding for HttpStatic.tla: recorded operations on real directory trees served by HttpServer::serveFile, several
   trees and clients in flight at once (each tree's operations are logged as one block).
   tree   : a fresh copy of the tree (every file at version 0, modification time T0)
   write  : file f is rewritten dt seconds after the previous modification of the tree       -> Write(f, dt)
   delete : file f is removed                                                                -> Delete(f)
   get    : request req (random path, method, If-Modified-Since, range, follow, Cache-Control) and what the client
            observed: status, Content-Type, Last-Modified (seconds), Location, which file content the body is, headers
            -> Fetch(req, 0), compared with Serve(fs, req); ms = the wall time of the request (see Slow below)                                                          *)
EXTENDS HttpStatic, IOUtils

T == ndJsonDeserialize(IOEnv.TRACE)
VARIABLES l
tvars == <<vars, l>>
TInit == Init /\ l = 1

(* Wall time.  Every exchange-type event carries ms, the wall milliseconds the exchange took on the recording machine.  The
   library ends exchanges by itself after fixed times (HttpServer drops a connection 10 s after accepting it and waits 5 s
   for data; HttpMessage::readBody hands over a truncated body after 10 s without input): design decisions of asl that this
   property does not forbid and that fire on an overloaded machine.  An event with ms >= SlowMs (far above a normal exchange
   of a few ms, well below those limits) is therefore consumed without constraining what was observed; everything else is
   checked exactly as before.  checks/C10.py bounds the number of slow events per recording (a server that does not answer
   is still reported).                                                                                                    *)
SlowMs == 4000
Slow(e) == "ms" \in DOMAIN e /\ e.ms >= SlowMs

ReqOf(r) == Req(r.method, r.segs, r.slash, r.ims, r.range, r.follow, r.cc)
Matches(obs, r) ==
    /\ obs.code = r.code
    /\ (r.ctype # "" => obs.ctype = r.ctype)
    /\ (r.lm >= 0 => (obs.haslm /\ obs.lmok /\ obs.lm = r.lm))
    /\ (r.code = 301 => (obs.hasloc /\ obs.lochere /\ obs.locsegs = r.loc /\ obs.locslash))
    /\ (r.body.k = "none" => obs.blen = 0)
    /\ (r.body.k = "file" => /\ obs.blen = r.body.len
                             /\ (r.body.len > 0 => (obs.bf = r.body.f /\ obs.bver = r.body.ver /\ obs.bfrom = r.body.from))
                             /\ obs.hasdate /\ obs.dateok
                             /\ (r.code = 206 => obs.cr = <<r.body.from, r.body.from + r.body.len - 1, r.body.size>>))
    /\ (r.cc = "*" => obs.hascc)
    /\ (r.cc \notin {"*", ""} => obs.cc = r.cc)

Step ==
  /\ l <= Len(T) /\ l' = l + 1
  /\ LET e == T[l] IN
     \/ /\ e.e = "tree"
        /\ fs' = [f \in FileIds |-> [present |-> TRUE, ver |-> 0, mtime |-> T0]]
        /\ clock' = T0 /\ cache' = [f \in Mutable |-> NoCopy] /\ fresh' = {} /\ hist' = <<>>
     \/ /\ e.e = "write" /\ Write(e.f, e.dt)
     \/ /\ e.e = "delete" /\ Delete(e.f)
     \/ /\ e.e = "get" /\ Fetch(ReqOf(e.req), 0) /\ (Slow(e) \/ Matches(e.obs, Serve(fs, ReqOf(e.req))))

TraceSpec == TInit /\ [][Step]_tvars
TraceAccepted == TLCGet("stats").diameter - 1 = Len(T)
AllFiles == FileIds
=============================================================================
