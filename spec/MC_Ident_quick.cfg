SPECIFICATION Spec
CONSTANTS
 ByteAlpha = {0, 1, 9, 10, 15, 16, 127, 128, 159, 160, 171, 255}
 TwoPos = {1, 4, 5, 7, 9, 16}
 TwoVals = {1, 171, 255}
 TextAlpha = {45, 48, 57, 97, 102, 65, 70, 103, 71, 32, 47, 58, 64, 96}
 MaxExtra = 2
ACTION_CONSTRAINT Emit
INVARIANTS TypeOK FormatShape ParseOfFormat FormatInjective FormatOfParse Malformed Trichotomy
CHECK_DEADLOCK FALSE
