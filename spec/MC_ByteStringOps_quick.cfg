SPECIFICATION Spec
CONSTANTS
 Alpha = {97, 98, 44, 32}
 PatAlpha = {97, 98, 44}
 MaxLen = 5
 VarMax = 3
 VarLens = {15, 16, 17, 20, 24, 33}
 Repls <- ReplsA
INVARIANTS SplitJoin ReplaceIsSplitJoin PartsCount ScanIsMin LastIsMax TrimTwoWays WsTwoWays CompareOK SubstrOK
ACTION_CONSTRAINT Emit
CHECK_DEADLOCK FALSE
