SPECIFICATION Spec
CONSTANTS
 P = 3
 N = 4
 NSq = 40000
 NMul = 64
 NLsqA = 2000
 NLsqB = 20
ACTION_CONSTRAINT Emit
INVARIANTS InverseIdentity TwoFormulations SolveIdentity DetProduct NormalEquations
CHECK_DEADLOCK FALSE
