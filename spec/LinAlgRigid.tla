------------------------------ MODULE LinAlgRigid ------------------------------
(* C20 (growth) - transforms built from exact rotations (operators of LinAlgRot.tla: rational rotation matrices as integer
   numerators over a common denominator, exact angles <<cos, sin, den>>, integer quaternions of square norm):

   kind "rigid" : M = translate(t) * R * scale(s) in 3-D, R = R_a0(r0) R_a1(r1) R_a2(r2) composed from elementary
                  rotations (Matrix4::rotate(axis index, angle), rotateX/Y/Z), its action on a point (M * p) and on a
                  direction (M % p), translation(), its inverse (= scale(1/s) R^T translate(-t)), and - for s = 1 - the
                  round trip through Pose_ (position + orientation quaternion) and rotation();
   kind "plane" : the same in 2-D with Matrix3: translate(t) * rotate(angle) * scale(sx, sy), its inverse, its action on
                  Vec2 points and directions, Matrix3::rotation(), Vec2::rotate / polar / angle / perpend, and Complex in
                  polar form (polar(m, angle), exp(i angle), z exp(i angle) = the rotated vector, angle(), magnitude());
   kind "slerp" : unit quaternions p = a/|a| and q = a r^2/(|a| |r|^2): slerp(p, q, 0) = p, slerp(p, q, 1) = q, and
                  slerp(p, q, 1/2) = the unit quaternion half way along the shorter arc, which is  a r/(|a||r|)  when
                  p.q > 0 and  a r (0, v)/(|a||r||v|)  (v = vector part of r) when p.q < 0 - published when |v| is
                  rational; Pose_::interpolate(.., 1/2) = (mid point, that quaternion).  q and -q are the same rotation.

   Every numerator is an integer computed by TLC; the invariants tie the published values together (M Minv = I, the
   inverse undoes the point transform, the half-way quaternion is a unit quaternion at equal distance from both ends).
   R: harness/c20_rigid_replay.cpp in double and float (1e-9 / 1e-4).                                              *)
EXTENDS LinAlgRot, FiniteSets

CONSTANTS NRigid,      \* number of angle triples used for the rigid cases (a scattered sample of all triples)
          KS           \* slerp: numerators of r range over -KS..KS

MulVecZ(A, v) == [i \in I3 |-> A[i][1] * v[1] + A[i][2] * v[2] + A[i][3] * v[3]]
Trans == << <<0, 0, 0>>, <<3, -4, 12>>, <<-7, 1, 2>> >>
Points == << <<1, 2, 3>>, <<-5, 0, 4>> >>
Scales == <<1, 2, 3>>
OrdersR == {<<0, 1, 2>>, <<2, 1, 0>>, <<2, 0, 2>>, <<1, 0, 1>>, <<0, 2, 1>>}
\* a scattered sample of angle triples (common denominator at most 1500: every product below stays under 2^31)
AngTriple(i) == LET n == Len(Angles) IN <<(i % n) + 1, ((i * 7 + 3) % n) + 1, ((i * 11 + (i \div n) + 5) % n) + 1>>

RigidCase(p) ==
    LET an == <<Angles[p.a[1]], Angles[p.a[2]], Angles[p.a[3]]>>
        R == Compose(p.o, an, FALSE)
        den == an[1][3] * an[2][3] * an[3][3]
        t == Trans[p.t] s == Scales[p.s] pt == Points[p.p]
        Rp == MulVecZ(R, pt)
        Rt == TransZ(R)
        Rtt == MulVecZ(Rt, t)
    IN [k |-> "rigid", ord |-> p.o, ang |-> an, t |-> t, s |-> s, pt |-> pt, den |-> den, r |-> FlatZ(R),
        m |-> <<s * R[1][1], s * R[1][2], s * R[1][3], t[1] * den,
                s * R[2][1], s * R[2][2], s * R[2][3], t[2] * den,
                s * R[3][1], s * R[3][2], s * R[3][3], t[3] * den>>,
        mp |-> [i \in I3 |-> s * Rp[i] + t[i] * den], md |-> [i \in I3 |-> s * Rp[i]],
        \* the inverse, numerators over den * s
        minv |-> <<Rt[1][1], Rt[1][2], Rt[1][3], -Rtt[1],
                   Rt[2][1], Rt[2][2], Rt[2][3], -Rtt[2],
                   Rt[3][1], Rt[3][2], Rt[3][3], -Rtt[3]>>,
        deninv |-> den * s,
        \* det M = s^3
        det |-> s * s * s]

PlaneCase(p) ==
    LET a == Angles[p.a] cs == a[1] sn == a[2] d == a[3]
        t == <<Trans[p.t][1], Trans[p.t][2]>> sx == Scales[p.s] sy == Scales[((p.s + p.a) % Len(Scales)) + 1]
        pt == <<Points[p.p][1], Points[p.p][2]>>
    IN [k |-> "plane", ang |-> a, t |-> t, sx |-> sx, sy |-> sy, pt |-> pt, den |-> d,
        m |-> <<cs * sx, -sn * sy, t[1] * d, sn * sx, cs * sy, t[2] * d>>,
        ap |-> <<cs * sx * pt[1] - sn * sy * pt[2] + t[1] * d, sn * sx * pt[1] + cs * sy * pt[2] + t[2] * d>>,
        ad |-> <<cs * sx * pt[1] - sn * sy * pt[2], sn * sx * pt[1] + cs * sy * pt[2]>>,
        \* inverse, numerators over d * sx * sy
        ainv |-> <<cs * sy, sn * sy, -(cs * sy * t[1] + sn * sy * t[2]),
                   -sn * sx, cs * sx, -(-sn * sx * t[1] + cs * sx * t[2])>>,
        deninv |-> d * sx * sy,
        vrot |-> <<cs * pt[1] - sn * pt[2], sn * pt[1] + cs * pt[2]>>,        \* Vec2::rotate, over d
        polar |-> <<sx * cs, sx * sn>>]                                          \* Vec2::polar(sx, angle), over d

StartQuats == << <<1, 0, 0, 0>>, <<1, 1, 1, 1>>, <<0, 2, -1, 2>>, <<-2, 0, 0, 0>>, <<1, -2, 2, 0>>, <<3, 0, 4, 0>> >>
RQuats == {q \in (-KS..KS) \X (-KS..KS) \X (-KS..KS) \X (-KS..KS) : Norm2(q) > 0 /\ \E n \in 1..(2 * KS) : n * n = Norm2(q)}
IRoot(s) == CHOOSE n \in 0..(4 * KS * KS + 10) : n * n = s
IsSq(s) == \E n \in 0..(4 * KS * KS + 10) : n * n = s
SlerpCase(p) ==
    LET a == StartQuats[p.a] r == p.r
        na == IRoot(Norm2(a)) nr == IRoot(Norm2(r))
        q == QMul(QMul(a, r), r)
        dotn == 2 * r[1] * r[1] - Norm2(r)                    \* p.q = dotn / |r|^2
        v2 == r[2] * r[2] + r[3] * r[3] + r[4] * r[4]
        ar == QMul(a, r)
    IN [k |-> "slerp", p |-> a, np |-> na, q |-> q, nq |-> na * nr * nr, dot |-> dotn, ndot |-> Norm2(r),
        half |-> IF dotn > 0 THEN ar ELSE IF IsSq(v2) THEN QMul(ar, <<0, r[2], r[3], r[4]>>) ELSE <<>>,
        nhalf |-> IF dotn > 0 THEN na * nr ELSE IF IsSq(v2) THEN na * nr * IRoot(v2) ELSE 0,
        \* positions for Pose_::interpolate
        x1 |-> Trans[2], x2 |-> Trans[3], xm |-> [i \in I3 |-> Trans[2][i] + Trans[3][i]], nxm |-> 2]

Init2 == /\ phase = "gen"
         /\ \/ c \in [k : {"rigid"}, o : OrdersR, a : {tr \in {AngTriple(i) : i \in 0..(NRigid - 1)} : Angles[tr[1]][3] * Angles[tr[2]][3] * Angles[tr[3]][3] <= 1500}, t : 1..Len(Trans), s : 1..Len(Scales), p : 1..Len(Points)]
            \/ c \in [k : {"plane"}, a : 1..Len(Angles), t : 1..Len(Trans), s : 1..Len(Scales), p : 1..Len(Points)]
            \/ c \in [k : {"slerp"}, a : 1..Len(StartQuats), r : RQuats]
Case2(p) == IF p.k = "rigid" THEN RigidCase(p) ELSE IF p.k = "plane" THEN PlaneCase(p) ELSE SlerpCase(p)
Gen2 == phase = "gen" /\ phase' = "done" /\ c' = Case2(c)
Spec2 == Init2 /\ [][Gen2]_vars

-------------------------------------------------------------------------------
Done(kind) == phase = "done" /\ c.k = kind
RigidLaws == Done("rigid") =>
    LET R == Unflat(c.r) Rt == TransZ(R)
        Li == << <<c.minv[1], c.minv[2], c.minv[3]>>, <<c.minv[5], c.minv[6], c.minv[7]>>, <<c.minv[9], c.minv[10], c.minv[11]>> >>
        ti == <<c.minv[4], c.minv[8], c.minv[12]>> IN
    /\ MulZ(R, Rt) = ScaleI(c.den * c.den)                                       \* R / den is orthogonal ...
    /\ Cross(R[1], R[2]) = <<c.den * R[3][1], c.den * R[3][2], c.den * R[3][3]>>  \* ... and proper
    /\ MulVecZ(Li, c.md) = [i \in I3 |-> c.s * c.den * c.den * c.pt[i]]           \* Minv undoes the linear part:  Li md / (den s den) = p
    /\ [i \in I3 |-> MulVecZ(Li, c.mp)[i] + ti[i] * c.den] = [i \in I3 |-> c.s * c.den * c.den * c.pt[i]]   \* Minv (M p) = p
    /\ \A i \in I3 : c.mp[i] = c.md[i] + c.t[i] * c.den                           \* point = direction + translation
    /\ c.md[1] * c.md[1] + c.md[2] * c.md[2] + c.md[3] * c.md[3]
         = c.s * c.s * c.den * c.den * (c.pt[1] * c.pt[1] + c.pt[2] * c.pt[2] + c.pt[3] * c.pt[3])   \* a similarity: lengths scale by s
PlaneLaws == Done("plane") =>
    LET L == << <<c.m[1], c.m[2]>>, <<c.m[4], c.m[5]>> >> Li == << <<c.ainv[1], c.ainv[2]>>, <<c.ainv[4], c.ainv[5]>> >> IN
    /\ \A i, j \in 1..2 : L[i][1] * Li[1][j] + L[i][2] * Li[2][j] = IF i = j THEN c.den * c.deninv ELSE 0      \* A Ainv = I (linear part)
    /\ \A i \in 1..2 : Li[i][1] * c.ap[1] + Li[i][2] * c.ap[2] + c.ainv[3 * i] * c.den = c.den * c.deninv * c.pt[i]   \* Ainv (A p) = p
    /\ c.vrot[1] * c.vrot[1] + c.vrot[2] * c.vrot[2] = c.den * c.den * (c.pt[1] * c.pt[1] + c.pt[2] * c.pt[2])
    /\ c.polar[1] * c.polar[1] + c.polar[2] * c.polar[2] = c.sx * c.sx * c.den * c.den
SlerpLaws == Done("slerp") =>
    /\ Norm2(c.p) = c.np * c.np /\ Norm2(c.q) = c.nq * c.nq
    /\ c.half # <<>> =>
        /\ Norm2(c.half) = c.nhalf * c.nhalf                                       \* a unit quaternion ...
        \* ... at the same distance from both ends (equal dot products, ends taken on the shorter arc: p -> -p when p.q < 0)
        /\ LET hp == c.half[1] * c.p[1] + c.half[2] * c.p[2] + c.half[3] * c.p[3] + c.half[4] * c.p[4]
               hq == c.half[1] * c.q[1] + c.half[2] * c.q[2] + c.half[3] * c.q[3] + c.half[4] * c.q[4]
               sg == IF c.dot > 0 THEN 1 ELSE -1 IN
           sg * hp * c.nq = hq * c.np
        \* ... and in their plane: half is a combination of p and q with equal weights: (sg p/np + q/nq) is parallel to half
        /\ LET sg == IF c.dot > 0 THEN 1 ELSE -1
               sum == [i \in 1..4 |-> sg * c.p[i] * c.nq + c.q[i] * c.np] IN
           \A i, j \in 1..4 : sum[i] * c.half[j] = sum[j] * c.half[i]
    /\ (c.dot > 0) => c.half # <<>>
\* both arcs are exercised, and so is the antipodal case q = -p
ASSUME {2 * r[1] * r[1] > Norm2(r) : r \in RQuats} = BOOLEAN
===============================================================================
