SPECIFICATION SpecApi
CONSTANTS
 NR = 2
 MaxNodes = 3
 MaxDepth = 0
 MaxItems = 2
 ScalarIds = {1,2,3,4,5,6,7,8,9,10,11,12,13,14,15,16,17,18,19,20,21,22,23,24}
 KeyIds = {1}
 MaxOps = 2
 KeepHist = TRUE
 OpSet = {"assignScalar","assignFrom","appendScalar","appendFrom","assignC","indexInt","indexKey","clone","assignNew","removeAt","assignKind"}
 WideObs = TRUE
VIEW ViewApi
ACTION_CONSTRAINT EmitApi
INVARIANTS TypeOK RcOK NoDangling Acyclic ObjSorted EnumOK
PROPERTIES AssignOK ScalarOK CloneOK Independent TypedOK EnumShapeOK
CHECK_DEADLOCK FALSE
