SPECIFICATION Spec
CONSTANTS
 P = 3
 N = 3
 NRhs = 1
INVARIANTS Solves AgreesAdjugate FormulationsAgree RowEquivalent PermOK PivotExists Triangular
CHECK_DEADLOCK FALSE
