SPECIFICATION Spec
CONSTANTS
 Chunks <- ChunksQ
 Ints <- IntsQ
 ReadSizes = {0, 1, 3}
 SeekOffs <- OffsQ
 Times = {1000000000}
 Exts <- ExtsQ
 MaxLen = 5
 MaxOps = 4
 MaxTemps = 1
 KeepHist = TRUE
VIEW View
ACTION_CONSTRAINT Emit
INVARIANTS TypeOK HandleOK
PROPERTIES WritesOnly AppendOnly WriteLocal ReadExact TimeMonotone
CHECK_DEADLOCK FALSE
