SPECIFICATION TraceSpec
CONSTANTS
 Chunks = {}
 Ints = {}
 ReadSizes = {}
 SeekOffs = {}
 Times = {}
 Exts = {}
 MaxLen = 0
 MaxOps = 0
 MaxTemps = 1000000
 KeepHist = FALSE
INVARIANTS HandleOK
PROPERTIES WritesOnly AppendOnly WriteLocal ReadExact TimeMonotone
POSTCONDITION TraceAccepted
CHECK_DEADLOCK FALSE
