SPECIFICATION WSpec
CONSTANTS
 ModeSet = "all"
 QKeySlashIsComment = FALSE
ACTION_CONSTRAINT WEmit
INVARIANTS JsonLaw XdlLaw LayoutLaw PromiseLaw ModeLaw
CHECK_DEADLOCK FALSE
