SPECIFICATION Spec
CONSTANTS
 ReqSet <- HistReqs
 ImsFiles <- HistMutable
 Deltas <- HistDeltas
 Mutable <- HistMutable
 Slack = 0
 Dts = {1}
 MaxOps = 3
VIEW View
ACTION_CONSTRAINT Emit
INVARIANTS TypeOK CacheCoherent NotModifiedSound ContentOnlyFromFiles RedirectOnlyDirs
CHECK_DEADLOCK FALSE
