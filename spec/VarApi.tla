------------------------------- MODULE VarApi -------------------------------
(* C04 (growth) - the rest of the public surface of asl::Var on top of the VarHeap model.

   VarHeap has the value heap and every mutating call.  This module adds, over the same state:

   * construction from typed containers, Var(Array<T>) / Var(Dic<T>) / var = Array<T> / var = Dic<T> for
     T in int, double, float, bool, String (AssignTyped), and from the remaining C++ number types (AssignC:
     char, unsigned, long, unsigned long give INT; Long, ULong give NUMBER) and from a Var::Type (AssignKind: the empty
     value of that type; hazard tag StringKindCtor), extend() with an argument that is not an object (ExtendNonObj: such
     an argument has no properties, nothing is added; hazard tag ExtendNonObject), removeAt(i, n) (RemoveN);
   * the conversions back, operator Array<T>() / operator Dic<T>() / Array<T>::operator=(const Var&), including element
     type mismatches: every element goes through the scalar conversion to T (ToInt, ToDbl2, ToBool, TextOf), a Var
     that is not an array (object) converts to the empty container - ArrAs/DicAs inside Facts2, and the round-trip law
     TypedOK;
   * the read-only queries: has(k), has(k, type), operator()(key) and chains of it, read(key, x), the const
     operator[] (never creates: a missing key or a non-container gives an unset Var), getp, isArrayOf, Var | default,
     == against literals of every C++ type (the INT/NUMBER/FLOAT and text lattice of EqV) - Facts2;
   * enumeration, as a process: EnumBegin(p) .. EnumNext .. EnumEnd with other calls interleaved.  An enumeration
     visits the items of the container in order (objects: ascending keys), one per EnumNext, reads the *current*
     value of the item (so a write made through another Var that shares the container is seen) and may assign to it
     through the enumerator's reference.  What the documentation allows during an enumeration is access to elements;
     EnumStable therefore admits exactly the interleaved calls that leave the Var slots on the enumerated path in
     place and do not add/remove items of the containers on that path (values may change, any other container may
     change in any way, other Vars sharing the enumerated container may be reassigned).
   * laws of the text <-> number conversions and of == on scalars, as ASSUMEs evaluated by TLC.

   Not specified by the documentation and therefore left open here: == between two unset Vars (VarHeap.EqR = "u"),
   const operator[] beyond the end of an array (Unspec), enumeration of anything but arrays and objects, the state
   of the Array<Var>/Dic<Var> a Var was constructed from (shared or copied).

   The enumeration configurations start from preset shared containers (InitEnum); OpSet switches kinds of calls on and
   off so that each configuration spends its depth on one part of the surface.
   R: MC_VarApi_*.cfg emit one case per transition (history + the wide observation ObsW) -> harness/c04_replay;
   V: Trace_VarHeap validates the recorded calls, enumerations and "facts" events with these operators.          *)
EXTENDS VarHeap

CONSTANTS OpSet,     \* generated histories use only these kinds of calls ({} = all); see On
          WideObs    \* emit the wide observation (Facts2 of every value) with each case

VARIABLE en          \* the enumeration in progress: [on, p (path of the enumerated Var), n (its node), i (items visited)]
avars == <<root, heap, hist, hz, en>>
NoEnum == [on |-> FALSE, p |-> <<>>, n |-> 0, i |-> 0]

-------------------------------------------------------------------------------
(* typed containers *)
ElemTypes == {"int", "num", "flt", "bool", "str"}
\* the element values used for Array<T> / Dic<T> (num, flt in halves; str = string ids "12", "abcdefgh", "")
TypedVals == [int |-> <<1, -7, 0>>, num |-> <<3, -1, 4>>, flt |-> <<3, 4, -5>>, bool |-> <<1, 0, 1>>, str |-> <<4, 3, 1>>]
TypedItems(kind, T, n) == [j \in 1..n |-> Item(IF kind = "arr" THEN 0 ELSE j, Val(T, TypedVals[T][j]))]
\* slot = Var(Array<T>) / Var(Dic<T>) (constructor or assignment): a new container of n elements of the Var type of T
AssignTyped(p, kind, T, n) ==
    /\ IsSlot(p) /\ FreeIds(heap) # {} /\ n \in 0..3 /\ T \in ElemTypes /\ kind \in {"arr", "obj"}
    /\ LET a == Alloc(heap, kind, TypedItems(kind, T, n)) IN
       Commit(Store(a.hp, root, p, a.x), [op |-> "assignTyped", p |-> p, kind |-> kind, T |-> T, n |-> n], {})

\* slot = value of one of the other C++ number types
CTypes == {"char", "unsigned", "long", "ulong", "Long", "ULong"}
CVals(ct) == IF ct \in {"unsigned", "ulong", "ULong"} THEN {1, 65} ELSE {1, 65, -7}
CtorVal(ct, n) == IF ct \in {"Long", "ULong"} THEN Val("num", 2 * n) ELSE Val("int", n)
AssignC(p, ct, n) ==
    /\ IsSlot(p) /\ ct \in CTypes /\ n \in CVals(ct)
    /\ Commit(Store(heap, root, p, CtorVal(ct, n)), [op |-> "assignC", p |-> p, ct |-> ct, n |-> n], {})

\* slot = Var(Var::NONE / NUL / STRING / SSTRING / ARRAY / OBJ) (constructor or operator=(Type)): the empty value of that type.
\* (The number and boolean kinds leave the value uninitialised in the implementation and are not generated.)
KindCodes == {0, 1, 5, 8, 9, 10}
AssignKind(p, c) ==
    /\ IsSlot(p) /\ c \in KindCodes /\ (c \in {9, 10} => FreeIds(heap) # {})
    /\ LET rec == [op |-> "assignKind", p |-> p, c |-> c] IN
       IF c \in {9, 10}
       THEN LET a == Alloc(heap, IF c = 9 THEN "arr" ELSE "obj", <<>>) IN Commit(Store(a.hp, root, p, a.x), rec, {})
       ELSE Commit(Store(heap, root, p, CASE c = 0 -> NoneV [] c = 1 -> Val("nul", 0) [] OTHER -> Val("str", 1)), rec,
                   IF c = 8 THEN {"StringKindCtor"} ELSE {})

\* p.extend(q) when q is not an object: q has no properties, so nothing is added (an unset p still becomes an object)
ExtendNonObj(p, q) ==
    /\ IsSlot(p) /\ IsSlot(q)
    /\ LET x == SlotVal(heap, root, p)
           y == SlotVal(heap, root, q)
           rec == [op |-> "extend", p |-> p, q |-> q] IN
       /\ Kind(heap, y) # "obj"
       /\ IF x.t = "none"
          THEN /\ FreeIds(heap) # {}
               /\ LET a == Alloc(heap, "obj", <<>>) IN Commit(Write(a.hp, root, p, a.x), rec, {"ExtendNonObject"})
          ELSE Commit([hp |-> heap, rt |-> root], rec, {"ExtendNonObject"})

\* removeAt(i, n): n items from index i when that range lies inside the array (other ranges are not specified)
RemoveN(p, i, n) ==
    /\ IsSlot(p) /\ n >= 2
    /\ LET x == SlotVal(heap, root, p) IN
       /\ Kind(heap, x) = "arr" /\ i + n <= Len(heap[x.v].items)
       /\ LET its == heap[x.v].items IN
          Commit([hp |-> ReleaseItems([heap EXCEPT ![x.v].items = SubSeq(its, 1, i) \o SubSeq(its, i + n + 1, Len(its))], SubSeq(its, i + 1, i + n), 1),
                  rt |-> root], [op |-> "removeAt", p |-> p, i |-> i, n |-> n], {})

\* element conversion to T ("dbl" stands for double and float: the values are halves, exact in both)
Conv(hp, T, y) == CASE T = "int" -> ToInt(y) [] T = "dbl" -> ToDbl2(y) [] T = "bool" -> ToBool(y) [] T = "str" -> TextOf(hp, y)
ItemsOf(hp, x) == IF IsRef(x) THEN hp[x.v].items ELSE <<>>
\* (Array<T>)var : the elements converted one by one; not an array -> empty
ArrAs(hp, x, T) == IF Kind(hp, x) = "arr" THEN [j \in 1..Len(ItemsOf(hp, x)) |-> Conv(hp, T, ItemsOf(hp, x)[j].val)] ELSE <<>>
\* (Dic<T>)var : the properties converted one by one, in key order; not an object -> empty
DicAs(hp, x, T) == IF Kind(hp, x) = "obj" THEN [j \in 1..Len(ItemsOf(hp, x)) |-> Conv(hp, T, ItemsOf(hp, x)[j].val)] ELSE <<>>

-------------------------------------------------------------------------------
(* read-only queries *)
AllCodes == <<0, 1, 2, 3, 4, 5, 6, 8, 9, 10>>
IsT(hp, y, c) == \E j \in 1..Len(IsCodes(hp, y)) : IsCodes(hp, y)[j] = c
HasKey(hp, y, k) == Kind(hp, y) = "obj" /\ Pos(hp[y.v], -k) # 0
PropOf(hp, y, k) == hp[y.v].items[Pos(hp[y.v], -k)].val
\* var(key): a copy of the property, or an unset Var; never modifies
CallKey(hp, y, k) == IF HasKey(hp, y, k) THEN PropOf(hp, y, k) ELSE NoneV
\* var | default
OrDefault(y, d) == IF y.t = "none" THEN d ELSE y
Brief(hp, y) == [ty |-> TypeCode(hp, y), len |-> LengthOf(hp, y), s |-> TextOf(hp, y)]
Unspec == [ty |-> -1, len |-> 0, s |-> <<>>]
\* literals compared with ==: bool, int, double, float, text (entries of ScalarTab), and an unset Var
LitProbe == <<3, 4, 5, 14, 17, 7, 8, 23, 24, 9, 18, 10, 11, 12, 13, 19, 22, 2, 1>>
\* keys probed by the keyed queries: those in use, the keys of typed objects, and one more (capped by the key table)
ProbeKeys == LET m == IF KeyIds = {} THEN 3 ELSE CHOOSE k \in KeyIds \cup {3} : \A j \in KeyIds \cup {3} : j <= k
             IN IF m + 1 > Len(KeyTab) THEN Len(KeyTab) ELSE m + 1
Chain2 == << <<1, 1>>, <<1, 2>>, <<2, 1>>, <<2, 2>> >>
Facts2(hp, x) ==
    LET its == ItemsOf(hp, x)
        isarr == Kind(hp, x) = "arr"
        NK == ProbeKeys IN
    [ai |-> ArrAs(hp, x, "int"), ad |-> ArrAs(hp, x, "dbl"), ab |-> ArrAs(hp, x, "bool"), as |-> ArrAs(hp, x, "str"),
     oi |-> DicAs(hp, x, "int"), od |-> DicAs(hp, x, "dbl"), ob |-> DicAs(hp, x, "bool"), os |-> DicAs(hp, x, "str"),
     \* has(k): the list is not empty; has(k, t): t is in the list
     has |-> [k \in 1..NK |-> IF HasKey(hp, x, k) THEN IsCodes(hp, PropOf(hp, x, k)) ELSE <<>>],
     call |-> [k \in 1..NK |-> Brief(hp, CallKey(hp, x, k))],
     call2 |-> [j \in 1..Len(Chain2) |-> Brief(hp, CallKey(hp, CallKey(hp, x, Chain2[j][1]), Chain2[j][2]))],
     \* int y = 9; var.read(key, y)
     rd |-> [k \in 1..NK |-> IF HasKey(hp, x, k) THEN ToInt(PropOf(hp, x, k)) ELSE 9],
     \* const operator[](int) for 0, 1, 2
     cidx |-> [i \in 1..3 |-> IF isarr THEN (IF i <= Len(its) THEN Brief(hp, its[i].val) ELSE Unspec) ELSE Brief(hp, NoneV)],
     ord |-> <<Brief(hp, OrDefault(x, Val("int", 35))), Brief(hp, OrDefault(x, Val("str", 3)))>>,
     \* isArrayOf(t) holds exactly for these t
     arrof |-> IF isarr THEN SelectSeq(AllCodes, LAMBDA c : \A j \in 1..Len(its) : IsT(hp, its[j].val, c)) ELSE <<>>,
     eql |-> [j \in 1..Len(LitProbe) |-> EqR(hp, x, ScalarTab[LitProbe[j]])]]

-------------------------------------------------------------------------------
(* enumeration *)
Keep == Val("keep", 0)
PathVals(hp, rt, p) == [j \in 1..Len(p) |-> SlotVal(hp, rt, SubSeq(p, 1, j))]
KeysOf(n) == [j \in 1..Len(n.items) |-> n.items[j].key]
Shape(hp, y) == IF IsRef(y) THEN <<hp[y.v].k, KeysOf(hp[y.v])>> ELSE <<>>
\* the Var slots along p hold what they held, and their containers have the same items (by position / key)
StableP(hp, rt, hp2, rt2, p) ==
    /\ PathVals(hp2, rt2, p) = PathVals(hp, rt, p)
    /\ \A j \in 1..Len(p) : Shape(hp2, PathVals(hp, rt, p)[j]) = Shape(hp, PathVals(hp, rt, p)[j])
EnumStable == IF en.on THEN StableP(heap, root, heap', root', en.p) ELSE TRUE

EnumBegin(p) ==
    /\ ~en.on /\ IsSlot(p) /\ IsRef(SlotVal(heap, root, p))
    /\ en' = [on |-> TRUE, p |-> p, n |-> SlotVal(heap, root, p).v, i |-> 0]
    /\ Commit([hp |-> heap, rt |-> root], [op |-> "enumBegin", p |-> p], {})
\* the next item: its key (0 in arrays), type and text are what the loop body sees; the body may assign to it
EnumNext(x) ==
    /\ en.on /\ en.i < Len(heap[en.n].items)
    /\ LET it == heap[en.n].items[en.i + 1]
           hp2 == IF x = Keep THEN heap ELSE Release([heap EXCEPT ![en.n].items[en.i + 1].val = x], it.val) IN
       Commit([hp |-> hp2, rt |-> root],
              [op |-> "enumNext", p |-> en.p, k |-> it.key, ty |-> TypeCode(heap, it.val), s |-> TextOf(heap, it.val), set |-> x], {})
    /\ en' = [en EXCEPT !.i = @ + 1]
\* leaving the loop: at the end (more = 0) or early (break)
EnumEnd ==
    /\ en.on
    /\ Commit([hp |-> heap, rt |-> root], [op |-> "enumEnd", p |-> en.p, more |-> IF en.i < Len(heap[en.n].items) THEN 1 ELSE 0], {})
    /\ en' = NoEnum

-------------------------------------------------------------------------------
InitApi == Init /\ en = NoEnum
TypedLens == {0, 2, 3}
On(o) == OpSet = {} \/ o \in OpSet
\* the calls of VarHeap (VarHeap.Next, each kind switchable), not disturbing an enumeration in progress
BaseCall ==
    \/ On("assignScalar") /\ \E p \in Slots, x \in Scalars : AssignScalar(p, x)
    \/ On("appendScalar") /\ \E p \in Slots, x \in Scalars : AppendScalar(p, x)
    \/ On("assignFrom") /\ \E p \in Slots, q \in Slots : AssignFrom(p, q)
    \/ On("appendFrom") /\ \E p \in Slots, q \in Slots : AppendFrom(p, q)
    \/ On("extend") /\ \E p \in Slots, q \in Slots : Extend(p, q)
    \/ On("assignNew") /\ \E p \in Slots, sh \in 0..3 : AssignNew(p, sh)
    \/ On("indexInt") /\ \E p \in Slots, i \in 0..MaxItems : IndexInt(p, i)
    \/ On("resize") /\ \E p \in Slots, i \in 0..MaxItems : Resize(p, i)
    \/ On("removeAt") /\ \E p \in Slots, i \in 0..MaxItems : RemoveIdx(p, i)
    \/ On("indexKey") /\ \E p \in Slots, k \in KeyIds : IndexKey(p, k)
    \/ On("removeKey") /\ \E p \in Slots, k \in KeyIds : RemoveKey(p, k)
    \/ On("clear") /\ \E p \in Slots : Clear(p)
    \/ On("clone") /\ \E r \in 1..NR, q \in Slots : Clone(r, q)
    \/ On("assignTyped") /\ \E p \in Slots, kind \in {"arr", "obj"}, T \in ElemTypes, n \in TypedLens : AssignTyped(p, kind, T, n)
    \/ On("assignC") /\ \E p \in Slots, ct \in CTypes : \E n \in CVals(ct) : AssignC(p, ct, n)
    \/ On("assignKind") /\ \E p \in Slots, c \in KindCodes : AssignKind(p, c)
    \/ On("extendNonObj") /\ \E p \in Slots, q \in Slots : ExtendNonObj(p, q)
    \/ On("removeN") /\ \E p \in Slots, i \in 0..MaxItems, n \in 2..MaxItems : RemoveN(p, i, n)
EnumCall == \/ \E p \in Slots : EnumBegin(p)
            \/ \E x \in Scalars \cup {Keep} : EnumNext(x)
            \/ EnumEnd
NextApi ==
    /\ Len(hist) < MaxOps
    /\ \/ (BaseCall /\ en' = en /\ EnumStable)
       \/ (On("enum") /\ EnumCall)
SpecApi == InitApi /\ [][NextApi]_avars

(* Enumeration histories are deep (begin, one step per item, end, plus the interleaved calls), so the enumeration
   configurations start from states that a short, recorded prefix of calls builds: hist carries that prefix and the
   replayer executes it like any other history (the final comparison covers the preset state as well).
   1: r1 = [1,2,3], r2 = r1 (shared array)      2: r1 = {a:1,b:2,c:3}, r2 = r1 (shared object)
   3: r1 = {a:[1,2,3],b:2,c:3}, r2 = r1.a (the array inside the object is shared with a root)                      *)
IntItems(keyed) == [j \in 1..3 |-> Item(IF keyed THEN j ELSE 0, Val("int", j))]
PresetHist(k) ==
    CASE k = 1 -> <<[op |-> "assignNew", p |-> <<1>>, shape |-> 2], [op |-> "assignFrom", p |-> <<2>>, q |-> <<1>>]>>
      [] k = 2 -> <<[op |-> "assignNew", p |-> <<1>>, shape |-> 3], [op |-> "assignFrom", p |-> <<2>>, q |-> <<1>>]>>
      [] k = 3 -> <<[op |-> "assignNew", p |-> <<1>>, shape |-> 3], [op |-> "assignNew", p |-> <<1, -1>>, shape |-> 2],
                    [op |-> "assignFrom", p |-> <<2>>, q |-> <<1, -1>>]>>
PresetHeap(k) ==
    CASE k = 1 -> [n \in Nodes |-> IF n = 1 THEN [k |-> "arr", rc |-> 2, items |-> IntItems(FALSE)] ELSE FreeNode]
      [] k = 2 -> [n \in Nodes |-> IF n = 1 THEN [k |-> "obj", rc |-> 2, items |-> IntItems(TRUE)] ELSE FreeNode]
      [] k = 3 -> [n \in Nodes |-> IF n = 1 THEN [k |-> "obj", rc |-> 1, items |-> [IntItems(TRUE) EXCEPT ![1].val = Val("ref", 2)]]
                                   ELSE IF n = 2 THEN [k |-> "arr", rc |-> 2, items |-> IntItems(FALSE)] ELSE FreeNode]
PresetRoot(k) == [r \in 1..NR |-> IF r = 1 THEN Val("ref", 1) ELSE IF r = 2 THEN Val("ref", IF k = 3 THEN 2 ELSE 1) ELSE NoneV]
InitEnum == \E k \in 1..3 : /\ root = PresetRoot(k) /\ heap = PresetHeap(k) /\ hist = PresetHist(k) /\ hz = {} /\ en = NoEnum

-------------------------------------------------------------------------------
(* what TLC checks *)
\* an enumeration in progress always stands on the container it started on, inside its items
EnumOK == en.on => /\ IsSlot(en.p) /\ SlotVal(heap, root, en.p) = Val("ref", en.n)
                   /\ heap[en.n].k # "free" /\ en.i <= Len(heap[en.n].items)
\* converting a Var built from a typed container back to the same type gives the original elements
TypedWant(T, n) == [j \in 1..n |-> IF T = "str" THEN StrTab[TypedVals[T][j]] ELSE TypedVals[T][j]]
ConvOf(T) == CASE T = "int" -> "int" [] T \in {"num", "flt"} -> "dbl" [] T = "bool" -> "bool" [] T = "str" -> "str"
TypedOK == [][(hist' # hist /\ hist' # <<>> /\ LastCall.op = "assignTyped") =>
               LET y == SlotVal(heap', root', LastCall.p) IN
               IF LastCall.kind = "arr" THEN ArrAs(heap', y, ConvOf(LastCall.T)) = TypedWant(LastCall.T, LastCall.n)
               ELSE DicAs(heap', y, ConvOf(LastCall.T)) = TypedWant(LastCall.T, LastCall.n)]_avars
\* a query never changes anything: CallKey / const [] results are values of the state, so this is structural; what is
\* checked is that visiting never changes the shape of the enumerated container
EnumShapeOK == [][(en.on /\ en'.on) => Shape(heap', Val("ref", en.n)) = Shape(heap, Val("ref", en.n))]_avars

(* laws of the scalar domain, evaluated once *)
NoHeap == <<>>
ScalarsAll == {ScalarTab[i] : i \in 1..Len(ScalarTab)}
ASSUME \A n \in -30..30 : Atoi(DecText(n)) = n /\ Atof2(DecText(n)) = 2 * n
ASSUME \A h \in -41..41 : Atof2(HalfText(h)) = h /\ Atoi(HalfText(h)) = Trunc2(h)
\* == is symmetric; on numbers it is equality of the double values; equal scalars print the same
ASSUME \A a \in ScalarsAll, b \in ScalarsAll :
          /\ EqV(NoHeap, a, b, FALSE) = EqV(NoHeap, b, a, FALSE)
          /\ (IsNum(a) /\ IsNum(b)) => (EqV(NoHeap, a, b, FALSE) <=> ToDbl2(a) = ToDbl2(b))
          /\ EqV(NoHeap, a, b, FALSE) => TextOf(NoHeap, a) = TextOf(NoHeap, b) /\ ToBool(a) = ToBool(b) /\ ToInt(a) = ToInt(b)
\* a number read back from its own text is the same number
ASSUME \A a \in ScalarsAll : IsNum(a) => Atof2(TextOf(NoHeap, a)) = ToDbl2(a) /\ Atoi(TextOf(NoHeap, a)) = ToInt(a)

-------------------------------------------------------------------------------
(* observation *)
RECURSIVE ObsW(_, _)
ObsW(hp, x) ==
    IF ~IsRef(x) THEN [t |-> x.t, v |-> x.v, f |-> Facts(hp, x), g |-> Facts2(hp, x), n |-> 0, rc |-> 0, items |-> <<>>]
    ELSE [t |-> hp[x.v].k, v |-> 0, f |-> Facts(hp, x), g |-> Facts2(hp, x), n |-> x.v, rc |-> hp[x.v].rc,
          items |-> [j \in 1..Len(hp[x.v].items) |-> [key |-> hp[x.v].items[j].key, val |-> ObsW(hp, hp[x.v].items[j].val)]]]
ViewApi == <<root, heap, Len(hist), hz, en>>
EmitApi == PrintT(ToJson([hist |-> hist',
                          exp |-> IF WideObs THEN [r \in 1..NR |-> ObsW(heap', root'[r])] ELSE ObsRoots(heap', root'),
                          eq |-> EqMatrix(heap', root'),
                          nodes |-> LiveCount(heap'), strs |-> StrTab, keys |-> KeyTab,
                          probes |-> [j \in 1..Len(ContProbe) |-> ScalarTab[ContProbe[j]]],
                          lits |-> [j \in 1..Len(LitProbe) |-> ScalarTab[LitProbe[j]]], typed |-> TypedVals, hz |-> hz']))
===============================================================================
