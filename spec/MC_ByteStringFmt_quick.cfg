SPECIFICATION Spec
CONSTANTS
 MaxItems = 2
 StrLens = {0, 1, 15, 16, 99, 100, 101, 254, 255, 256, 600}
 IntArgs <- IntsA
 HexArgs <- HexA
 N0 = {0, 1, 16, 30, 300}
INVARIANTS RenderOK
ACTION_CONSTRAINT Emit
CHECK_DEADLOCK FALSE
