SPECIFICATION TraceSpec
CONSTANTS
 Configs = {}
 ReqSet = {}
 MaxReqs = 1000
POSTCONDITION TraceAccepted
CHECK_DEADLOCK FALSE
