---------------------------- MODULE Trace_ArraySeq ----------------------------
(* V binding for C01: validates executions recorded from the real asl::Array (harness/c01_record.cpp) against the
   actions of ArraySeq.  One ndjson line per public call: op, arguments, and after the call the length and the
   reference count of the handle it went through; "check" events carry the complete projection of every live
   handle.  The trace is accepted iff every line is a step of the corresponding ArraySeq action whose post-state
   matches what the implementation reported.  Calls that only read (enum, indexOf, top, cmp, join) log the value
   the implementation returned; the action computes what it must be (for operator< only where the specification
   fixes it, see Lt3; for sortBy with the parity key any permutation ordered by the key is accepted).            *)
EXTENDS ArraySeq, IOUtils

T == ndJsonDeserialize(IOEnv.TRACE)
VARIABLE l
tvars == <<vars, l>>

TInit == Init /\ l = 1

PostOK(e) == /\ hb'[e.h] # 0 => /\ Len(blk'[hb'[e.h]]) = e.len
                                 /\ Cardinality({x \in H : hb'[x] = hb'[e.h]}) = e.rc
             /\ ("glen" \in DOMAIN e) => Len(blk'[hb'[e.g]]) = e.glen

CheckOK(e) == /\ {e.obs[i].h : i \in 1..Len(e.obs)} = Live
              /\ \A i \in 1..Len(e.obs) : /\ S(e.obs[i].h) = e.obs[i].s
                                          /\ RC(hb[e.obs[i].h]) = e.obs[i].rc
              /\ e.live = LiveElems(hb, blk)

TStep ==
  /\ l <= Len(T)
  /\ l' = l + 1
  /\ LET e == T[l] IN
     \/ /\ e.op = "reset"
        /\ hb' = [h \in H |-> IF h = 1 THEN 1 ELSE 0]
        /\ blk' = [b \in 1..(NH+1) |-> <<>>]
        /\ hist' = <<>> /\ hz' = {}
     \/ /\ e.op = "check" /\ CheckOK(e) /\ UNCHANGED vars
     \/ /\ e.op = "append" /\ Append1(e.h, e.v) /\ PostOK(e)
     \/ /\ e.op = "appendSelf" /\ AppendSelf(e.h, e.i) /\ PostOK(e)
     \/ /\ e.op = "insert" /\ Insert1(e.h, e.k, e.v) /\ PostOK(e)
     \/ /\ e.op = "insertSelf" /\ InsertSelf(e.h, e.k, e.i) /\ PostOK(e)
     \/ /\ e.op = "set" /\ SetElem(e.h, e.i, e.v) /\ PostOK(e)
     \/ /\ e.op = "remove" /\ e.n > 0 /\ RemoveN(e.h, e.i, e.n) /\ PostOK(e)
     \/ /\ e.op = "removeOne" /\ RemoveOne(e.h, e.v) /\ hist'[Len(hist')].r = e.r /\ PostOK(e)
     \/ /\ e.op = "removeLast" /\ RemoveLast(e.h) /\ PostOK(e)
     \/ /\ e.op = "removeIf" /\ RemoveIf(e.h, e.v) /\ PostOK(e)
     \/ /\ e.op = "resize" /\ Resize(e.h, e.m) /\ PostOK(e)
     \/ /\ e.op = "reserve" /\ Reserve(e.h, e.m) /\ PostOK(e)
     \/ /\ e.op = "clear" /\ Clear(e.h) /\ PostOK(e)
     \/ /\ e.op = "sort" /\ Sort(e.h) /\ PostOK(e)
     \/ /\ e.op = "appendArr" /\ AppendArr(e.h, e.g) /\ PostOK(e)
     \/ /\ e.op = "copyFrom" /\ CopyFrom(e.h, e.g) /\ PostOK(e)
     \/ /\ e.op = "reversed" /\ Reversed(e.h, e.g) /\ PostOK(e)
     \/ /\ e.op = "slice" /\ Slice(e.h, e.g, e.i1, e.i2) /\ PostOK(e)
     \/ /\ e.op = "concat" /\ Concat(e.h, e.g2, e.g) /\ PostOK(e)
     \/ /\ e.op = "filter" /\ Filter(e.h, e.g, e.v) /\ PostOK(e)
     \/ /\ e.op = "map" /\ MapSucc(e.h, e.g) /\ PostOK(e)
     \/ /\ e.op = "clone" /\ Clone(e.h, e.g) /\ PostOK(e)
     \/ /\ e.op = "dup" /\ Dup(e.h) /\ PostOK(e)
     \/ /\ e.op = "copyHandle" /\ CopyHandle(e.h, e.g) /\ PostOK(e)
     \/ /\ e.op = "assignHandle" /\ AssignHandle(e.h, e.g) /\ PostOK(e)
     \/ /\ e.op = "dropHandle" /\ DropHandle(e.h)
     \/ /\ e.op = "popget" /\ PopGet(e.h) /\ hist'[Len(hist')].r = e.r /\ PostOK(e)
     \/ /\ e.op = "pop" /\ PopN(e.h, e.n) /\ PostOK(e)
     \/ /\ e.op = "get" /\ QGet(e.h) /\ hist'[Len(hist')].r = e.r /\ PostOK(e)
     \* the remaining Array surface
     \/ /\ e.op = "ctorN" /\ CtorN(e.g, e.n) /\ PostOK(e)
     \/ /\ e.op = "ctorFill" /\ CtorFill(e.g, e.n, e.v) /\ PostOK(e)
     \/ /\ e.op = "fromList" /\ FromList(e.g, e.s, e.via) /\ PostOK(e)
     \/ /\ e.op = "ctorPtr" /\ CtorPtr(e.h, e.g, e.i, e.n) /\ PostOK(e)
     \/ /\ e.op = "appendPtr" /\ AppendPtr(e.h, e.g, e.i, e.n) /\ PostOK(e)
     \/ /\ e.op = "copyPtr" /\ CopyPtr(e.h, e.g, e.i, e.n) /\ PostOK(e)
     \/ /\ e.op = "assignList" /\ AssignList(e.h, e.s) /\ PostOK(e)
     \/ /\ e.op = "appendList" /\ AppendList(e.h, e.s) /\ PostOK(e)
     \/ /\ e.op = "conv" /\ Convert(e.h, e.g, e.via) /\ PostOK(e)
     \/ /\ e.op = "assignConv" /\ AssignConv(e.h, e.g) /\ PostOK(e)
     \/ /\ e.op = "sortDesc" /\ SortDesc(e.h) /\ PostOK(e)
     \/ /\ e.op = "sortBy" /\ SortByKey(e.h, e.asc) /\ PostOK(e)
     \/ /\ e.op = "sortByPar" /\ SortByPar(e.h, e.s2) /\ PostOK(e)
     \/ /\ e.op = "removeIfLt" /\ RemoveIfLt(e.h, e.v) /\ PostOK(e)
     \/ /\ e.op = "removeOneFrom" /\ RemoveOneFrom(e.h, e.v, e.i) /\ hist'[Len(hist')].r = e.r /\ PostOK(e)
     \/ /\ e.op = "remove" /\ e.n = 0 /\ RemoveNone(e.h, e.i) /\ PostOK(e)
     \/ /\ e.op = "enum" /\ EnumRange(e.h, e.i1, e.i2, e.via) /\ hist'[Len(hist')].r = e.r /\ PostOK(e)
     \/ /\ e.op = "indexOf" /\ IndexOfFrom(e.h, e.v, e.j) /\ hist'[Len(hist')].r = e.r /\ PostOK(e)
     \/ /\ e.op = "top" /\ TopAt(e.h, e.i) /\ hist'[Len(hist')].r = e.r /\ PostOK(e)
     \/ /\ e.op = "cmp" /\ Compare(e.h, e.g) /\ hist'[Len(hist')].eq = e.eq
                        /\ (hist'[Len(hist')].lt = 2 \/ hist'[Len(hist')].lt = e.lt) /\ PostOK(e)
     \/ /\ e.op = "join" /\ Join(e.h, e.tt, e.sep) /\ hist'[Len(hist')].r = e.r /\ PostOK(e)

TraceSpec == TInit /\ [][TStep]_tvars
TraceAccepted == TLCGet("stats").diameter - 1 = Len(T)
\* the design invariants are evaluated on every state of the implementation's run as well
===============================================================================
