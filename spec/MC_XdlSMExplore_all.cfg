SPECIFICATION XSpec
CONSTANTS
 MaxTokens = 5
 MaxCtx = 4
 MaxBuf = 3
 QKeySlashIsComment = FALSE
ACTION_CONSTRAINTS Bounded XEmit
INVARIANTS NoUnderflow ChunkInvisible RefinesRecognizer
CHECK_DEADLOCK FALSE
