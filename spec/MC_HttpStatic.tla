------------------------------ MODULE MC_HttpStatic ------------------------------
(* C10 (growth) - request sets for HttpStatic.tla.
   Sweep (one request on the initial tree): every file, every directory with and without the trailing slash (also through a
   client that follows the redirection), names that do not exist, a file name used as a directory, other methods, byte
   ranges of a small and a large file, an application-set Cache-Control; If-Modified-Since at every distance in Deltas
   around the modification time of two files, and a date that is not one.
   Histories: the two mutable files (a plain file and the index of a directory) are rewritten 1 or 2 seconds after the
   previous change, removed, fetched, revalidated with the cached Last-Modified, fetched with dates 1 s before / at the
   current modification time; the directory is fetched by name.                                                       *)
EXTENDS HttpStatic

G(segs, slash) == Req("GET", segs, slash, NoIms, <<>>, FALSE, "")
AllFiles == {G(PathOfFile(f), FALSE) : f \in FileIds}
DirReqs == {Req("GET", d, s, NoIms, <<>>, fo, "") : d \in Dirs \ {<<>>}, s \in BOOLEAN, fo \in BOOLEAN} \cup {G(<<>>, TRUE)}
Missing == {G(<<"missing.txt">>, FALSE), G(<<"docs", "nope.html">>, FALSE), G(<<"nodir", "x.txt">>, FALSE), G(<<"nodir">>, TRUE),
            G(<<"a.txt">>, TRUE), G(<<"a.txt", "x">>, FALSE), G(<<"docs", "index.html", "index.html">>, FALSE), G(<<"index">>, FALSE),
            G(<<"docs", "sub", "deep.xml", "y">>, TRUE)}
Methods == {Req(m, p, FALSE, NoIms, <<>>, FALSE, "") : m \in {"POST", "PUT", "DELETE"}, p \in {<<"a.txt">>, <<"docs">>, <<"missing.txt">>}}
RangesSmall == {Req("GET", <<"a.txt">>, FALSE, NoIms, r, FALSE, "") :
                   r \in {<<0, 0>>, <<0, 9>>, <<3, 5>>, <<9, 9>>, <<5, -1>>, <<0, -1>>, <<9, 40>>, <<10, 12>>, <<10, -1>>, <<7, 3>>}}
RangesBig == {Req("GET", <<"pic.png">>, FALSE, NoIms, r, FALSE, "") : r \in {<<0, 15999>>, <<15999, 32000>>, <<16000, -1>>, <<69999, -1>>, <<70000, -1>>}}
              \cup {Req("GET", <<"docs">>, TRUE, NoIms, <<10, 19>>, FALSE, "")}
CacheCtl == {Req("GET", p, s, NoIms, <<>>, FALSE, "no-cache") : p \in {<<"a.txt">>, <<"missing.txt">>}, s \in {FALSE}}
            \cup {Req("GET", <<"docs">>, TRUE, NoIms, <<>>, FALSE, "no-cache")}
SweepReqs == AllFiles \cup DirReqs \cup Missing \cup Methods \cup RangesSmall \cup RangesBig \cup CacheCtl
SweepIms == {2, 11, 6}
SweepDeltas == {-100000, -3600, -10, -2, -1, 0, 1, 2, 10, 3600, 100000}

HistReqs == {G(<<"docs">>, TRUE), Req("GET", <<"docs">>, FALSE, NoIms, <<>>, TRUE, "")}
HistMutable == {2, 11}
HistDeltas == {-1, 0}
=============================================================================
