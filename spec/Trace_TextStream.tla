--------------------------- MODULE Trace_TextStream ---------------------------
(* V binding of the C16 text lane: validates executions recorded from real asl::TextFile objects
   (harness/c16_text_record.cpp) against the actions of TextStream.  Every writer event carries the bytes of the file as
   observed with POSIX calls after the call (`all`), every reader event the projected value the call left in the caller's
   variable, whether the variable was changed at all, and end() after the call.  TLC computes the expected bytes and
   values from the logged arguments: the trace is accepted iff every line is the corresponding TextStream step with
   exactly those bytes / values / flags.  Sessions are separated by "reset" events.                                  *)
EXTENDS TextStream, IOUtils

T == ndJsonDeserialize(IOEnv.TRACE)
VARIABLE l
tvars == <<vars, l>>

TInit == Init /\ l = 1

R == hist'[Len(hist')]
Wr(A, e) == A /\ nw' = nw /\ text' = e.all
Rd(A, e) == A /\ nr' = nr /\ R.eof = e.eof

TStep ==
  /\ l <= Len(T)
  /\ l' = l + 1
  /\ LET e == T[l] IN
     \/ /\ e.op = "reset"
        /\ phase' = "w" /\ text' = <<>> /\ pos' = 0 /\ eof' = FALSE /\ mode' = e.m /\ made' = (e.m # "L")
        /\ hist' = <<[op |-> "open", m |-> e.m]>> /\ items' = <<>> /\ sepd' = TRUE /\ nw' = 0 /\ nr' = 0 /\ no' = 1
     \/ /\ e.op = "open" /\ e.m \in {"W", "A", "L"} /\ Reopen(e.m) /\ text' = e.all
     \/ /\ e.op = "wi" /\ Wr(WInt(e.v), e)
     \/ /\ e.op = "wu" /\ Wr(WUns(e.v), e)
     \/ /\ e.op = "wd" /\ Wr(WDbl(e.d), e)
     \/ /\ e.op = "wf" /\ Wr(WFlt(e.d), e)
     \/ /\ e.op = "ws" /\ Wr(WStr(e.s, e.how), e)
     \/ /\ e.op = "wc" /\ Wr(WChr(e.c), e)
     \/ /\ e.op = "pf" /\ Wr(WPrintf(e.f, e.a), e) /\ R.f = e.fs
     \/ /\ e.op = "close" /\ Close(e.rm) /\ text = e.all
     \/ /\ e.op = "ri" /\ Rd(RInt, e) /\ (IF R.ok THEN R.v = e.v ELSE ~e.ch)
     \/ /\ e.op = "ru" /\ Rd(RUns, e) /\ (IF R.ok THEN R.v = e.v ELSE ~e.ch)
     \/ /\ e.op = "rd" /\ Rd(RDbl, e) /\ (IF R.ok THEN R.d = e.d ELSE ~e.ch)
     \/ /\ e.op = "rf" /\ Rd(RFlt, e) /\ (IF R.ok THEN R.d = e.d ELSE ~e.ch)
     \/ /\ e.op = "rs" /\ Rd(RStr, e) /\ (IF R.ok THEN R.s = e.s ELSE (e.s = <<>> \/ ~e.ch))
     \/ /\ e.op = "rc" /\ Rd(RChr, e) /\ (IF R.c >= 0 THEN R.c = e.c ELSE TRUE)
     \/ /\ e.op = "rl" /\ Rd(RLine, e) /\ R.s = e.s /\ (IF e.r = -2 \/ R.ok = -1 THEN TRUE ELSE R.ok = e.r)
     \/ /\ e.op = "end" /\ Rd(REnd, e)
     \/ /\ e.op = "sf" /\ Rd(RScanf(e.f), e) /\ R.f = e.fs /\ R.n = e.n /\ R.a = e.a /\ ~e.x

NoSeq == <<>>
TraceSpec == TInit /\ [][TStep]_tvars
TraceAccepted == TLCGet("stats").diameter - 1 = Len(T)

\* the law on every recorded state (not only the bounded histories of the model)
ReadBackAlways == sepd => ReadAll(text, 0, items)
===============================================================================
