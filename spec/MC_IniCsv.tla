------------------------------- MODULE MC_IniCsv -------------------------------
(* constant definitions for the model-checking configurations of IniCsv (configuration files cannot spell sequences) *)
EXTENDS IniCsv

S(str) == str   \* readability only
\* INI line alphabet:  [s]  [t]  a=1  b=2  "  a=3" (indented)  "a = 4"  "# c"  ";d"  ""  "b="
LinesM == { <<91, 115, 93>>, <<91, 116, 93>>, <<97, 61, 49>>, <<98, 61, 50>>, <<32, 32, 97, 61, 51>>, <<97, 32, 61, 32, 52>>,
            <<35, 32, 99>>, <<59, 100>>, <<>>, <<98, 61>> }
\* quick:  [s]  [t]  a=1  "  b=2"  "a = 4"  "# c"  ""  "b="
LinesQ == { <<91, 115, 93>>, <<91, 116, 93>>, <<97, 61, 49>>, <<32, 32, 98, 61, 50>>, <<97, 32, 61, 32, 52>>, <<35, 32, 99>>, <<>>, <<98, 61>> }
\* thorough adds: tab-indented entry, value with inner '=' and blanks, comments that look like entries (one indented), whitespace-only line
LinesT == LinesM \cup { <<9, 98, 61, 53>>, <<97, 61, 120, 32, 61, 32, 121>>, <<35, 97, 61, 55>>, <<32, 59, 98, 61, 56>>, <<32>> }
\* set() names: s/a, s/b, t/a, u/a (section u never pre-exists), and the plain names a and k
NamesQ == { << <<115>>, <<97>> >>, << <<115>>, <<98>> >>, << <<117>>, <<97>> >>, << Top, <<97>> >> }
NamesT == NamesQ \cup { << <<116>>, <<97>> >>, << Top, <<107>> >>, << <<117>>, <<98>> >> }
\* the i-th set() of a history writes the i-th value: "9" then "" (quick), "x y" then "" (thorough)
Values == << <<57>>, <<>>, <<55, 55>> >>
ValuesT == << <<120, 32, 121>>, <<>>, <<55, 55>> >>

Str(s) == [t |-> "s", s |-> s]
Num(neg, digs, x) == [t |-> "n", neg |-> neg, digs |-> digs, x |-> x]
\* strings over , ; " ' space and letters;  numbers: 0 1 -1.5 0.1 1e+20 1.5e-07 123456789012345 100000 0.0001 1e-05 1e+15 2.2250738585072e-308
StrsQ == { Str(<<>>), Str(<<97>>), Str(<<44>>), Str(<<59>>), Str(<<34>>), Str(<<39>>), Str(<<32>>), Str(<<97, 44, 34, 98>>) }
NumsQ == { Num(FALSE, <<0>>, 0), Num(FALSE, <<1>>, 0), Num(TRUE, <<1, 5>>, 0), Num(FALSE, <<1>>, -1), Num(FALSE, <<1>>, 20),
           Num(FALSE, <<1, 5>>, -7), Num(FALSE, <<1, 2, 3, 4, 5, 6, 7, 8, 9, 0, 1, 2, 3, 4, 5>>, 14), Num(FALSE, <<1>>, 5),
           Num(FALSE, <<1>>, -4), Num(FALSE, <<1>>, -5), Num(FALSE, <<1>>, 15),
           Num(FALSE, <<2, 2, 2, 5, 0, 7, 3, 8, 5, 8, 5, 0, 7, 2>>, -308) }       \* smallest normal double: scale 1e-321
CellsQ == StrsQ \cup NumsQ
CellsT == CellsQ \cup { Str(<<34, 34>>), Str(<<32, 97, 32>>), Str(<<34, 44, 34>>), Str(<<97, 59, 39, 98>>),
                        Num(TRUE, <<9, 9, 9, 9, 9, 9, 9, 9, 9, 9, 9, 9, 9, 9, 9>>, 14), Num(FALSE, <<2, 5>>, 1),
                        Num(TRUE, <<1, 2, 5>>, -3), Num(FALSE, <<1, 7, 9, 7, 6, 9, 3, 1, 3, 4, 8, 6, 2, 3, 1>>, 308),
                        Num(TRUE, <<4, 9, 4, 0, 6, 5, 6, 4, 5, 8, 4, 1, 2, 4, 7>>, -324), Num(FALSE, <<1, 2, 3, 4, 5, 6, 7, 8, 9, 0, 1, 2, 3, 4, 5>>, -100) }

\* ---- growth: the IniFile object ("api") -------------------------------------------------------------------------------
\* files the object is opened on
AT(text, ex, sw) == [text |-> text, exists |-> ex, sw |-> sw]
T1 == <<91, 115, 93, 10, 97, 61, 49, 10, 35, 32, 99, 10, 91, 116, 93, 10, 98, 61, 50, 10>>    \* [s] a=1 # c [t] b=2
T2 == <<97, 61, 49, 13, 10, 91, 115, 93, 13, 10, 98, 32, 61, 32, 50, 13, 10, 13, 10, 91, 115, 93, 13, 10, 97, 61, 51>>    \* a=1 [s] "b = 2" blank [s] a=3 - CR LF, a section given twice, no final newline
T3 == <<239, 187, 191, 91, 115, 93, 10, 97, 61, 49, 10>>    \* byte order mark, [s] a=1
T5 == <<91, 97, 114, 114, 93, 10, 115, 105, 122, 101, 61, 50, 10, 49, 92, 102, 61, 120, 10, 50, 92, 102, 61, 121, 10>>    \* [arr] size=2 1\f=x 2\f=y  (Qt style array)
T7 == <<239, 187, 191, 97, 61, 49, 10, 91, 115, 93, 10, 98, 61, 50, 10>>    \* byte order mark, a=1 [s] b=2
T8 == <<91, 115, 93, 10, 97, 61, 49, 10, 97, 61, 50, 10, 59, 32, 107, 61, 48, 10>>    \* [s] a=1 a=2 ; k=0  (a key given twice, a comment that looks like an entry)
T9 == <<91, 116, 93, 10, 91, 115, 93, 10, 32, 32, 97, 32, 61, 32, 49, 10, 110, 61, 120, 61, 91, 121, 93, 59, 122, 35, 10>>    \* [t] (empty section)  "  a = 1" under [s], value with = [ ] ; #
ApiTextsQ == { AT(T1, TRUE, TRUE), AT(T2, TRUE, TRUE), AT(T3, TRUE, TRUE), AT(<<>>, FALSE, TRUE), AT(<<>>, TRUE, TRUE), AT(T5, TRUE, TRUE), AT(T1, TRUE, FALSE) }
ApiTextsT == ApiTextsQ \cup { AT(T7, TRUE, TRUE), AT(T8, TRUE, TRUE), AT(T9, TRUE, TRUE) }
Nm(sec, key) == [sec |-> sec, key |-> key]
MSet(sec, key, val) == [m |-> "set", sec |-> sec, key |-> key, val |-> val]
MGet(sec, key) == [m |-> "get", sec |-> sec, key |-> key]
sS == <<115>>
sT == <<116>>
sU == <<117>>
sQ == <<113>>
sArr == <<97, 114, 114>>
kA == <<97>>
kN == <<110>>
kK == <<107>>
kE == <<101>>
kZ == <<122, 122>>
ApiMutsQ == { MSet(sS, kA, <<57>>), MSet(sS, kN, <<32, 120, 32, 121, 32>>), MSet(sU, kK, <<55>>), MSet(sU, kE, <<>>), MSet(NoSec, kN, <<53>>),
              MGet(sS, kZ), MGet(sS, kA), MGet(sQ, kZ),
              [m |-> "cur", sec |-> sT], [m |-> "asize", sec |-> sArr], [m |-> "aget", field |-> <<102>>, idx |-> 1],
              [m |-> "write"], [m |-> "writeTo"], [m |-> "writeBad"], [m |-> "reopen"] }
\* quick: all calls to depth 2 on all files; to depth 3 (ApiDeepQ): the calls that make up the shortest histories of the findings and of persistence (set, read of a missing name,
\* failing write, write, destroy + reopen, section()) on three files
ApiTextsD == { AT(T1, TRUE, TRUE), AT(<<>>, TRUE, TRUE), AT(T3, TRUE, TRUE) }
ApiMutsD == { MSet(sS, kN, <<32, 120, 32, 121, 32>>), MSet(sU, kK, <<55>>), MSet(NoSec, kN, <<53>>), MGet(sS, kZ),
              [m |-> "cur", sec |-> sT], [m |-> "write"], [m |-> "writeBad"], [m |-> "reopen"] }
ApiDeepQ(h, m) == h[1].text \in {t.text : t \in ApiTextsD} /\ h[1].exists /\ h[1].sw /\ m \in ApiMutsD /\ \A i \in 2..Len(h) : h[i].c \in ApiMutsD
\* thorough adds: a value with = [ ] ; #, an existing key set to nothing, a plain read, a read of a missing plain name
ApiMutsT == ApiMutsQ \cup { MSet(sT, <<98>>, <<112, 61, 91, 113, 93, 59, 114, 35>>), MSet(sS, kA, <<>>), MGet(NoSec, kA), MGet(NoSec, kZ) }
ApiProbesQ == << Nm(sS, kA), Nm(sS, kN), Nm(sS, kZ), Nm(sU, kK), Nm(sU, kE), Nm(sQ, kZ), Nm(sT, <<98>>), Nm(NoSec, kA), Nm(NoSec, kN),
                 Nm(sArr, <<115, 105, 122, 101>>) >>

\* ---- growth: TabularDataFile with options ("csvw") and files of other tools ("csvr") ---------------------------------
WOpt(sep, dec, q, flush, names) == [sep |-> sep, dec |-> dec, q |-> q, flush |-> flush, arff |-> FALSE, names |-> names, types |-> <<>>]
nCD == << <<99>>, <<100>> >>
\* , .   ; , flush 1   tab . quotes flush 2   one column with quotes   a name that is a number   ARFF (numeric, string)   ; . (not inferable)
CsvOptsQ == { WOpt(44, 46, FALSE, 0, nCD), WOpt(59, 44, FALSE, 1, nCD), WOpt(9, 46, TRUE, 2, nCD), WOpt(44, 46, TRUE, 0, << <<99>> >>),
              WOpt(44, 46, FALSE, 0, << <<49>>, <<100>> >>),
              [sep |-> 44, dec |-> 46, q |-> FALSE, flush |-> 0, arff |-> TRUE, names |-> nCD, types |-> << <<>>, <<115>> >>],
              WOpt(59, 46, FALSE, 0, nCD) }
\* thorough adds: tab with decimal comma, three columns with ; , and flush 3, a negative number as name, ARFF with a nominal column and quotes asked for
CsvOptsT == CsvOptsQ \cup { WOpt(9, 44, FALSE, 0, nCD), WOpt(59, 44, TRUE, 3, << <<99>>, <<100>>, <<101>> >>), WOpt(44, 46, FALSE, 1, << <<99>>, <<45, 50>> >>),
                            [sep |-> 44, dec |-> 46, q |-> TRUE, flush |-> 1, arff |-> TRUE, names |-> nCD, types |-> << <<120, 124, 121>>, <<>> >>] }
\* cells: a  ""  a string with every separator  x"y  -1.5  2  and the end of a short row;  thorough: blank, it's, 1e+20, 0.001
CellsWQ == { Str(<<97>>), Str(<<112, 44, 113, 59, 114, 9, 115>>), Str(<<120, 34, 121>>), Num(TRUE, <<1, 5>>, 0), Num(FALSE, <<2>>, 0), EolCell }
CellsW == { Str(<<97>>), Str(<<>>), Str(<<112, 44, 113, 59, 114, 9, 115>>), Str(<<120, 34, 121>>), Num(TRUE, <<1, 5>>, 0), Num(FALSE, <<2>>, 0), EolCell }
CellsWT == CellsW \cup { Str(<<32>>), Str(<<105, 116, 39, 115>>), Num(FALSE, <<1>>, 20), Num(FALSE, <<1>>, -3) }
\* lines of files written by other tools, per dialect
CsvLinesQ == << { <<97, 44, 98>>, <<49, 44, 50>>, <<120, 44, 34, 112, 44, 113, 34>>, <<51, 44, 52, 44>>, <<53>>, <<>>, <<34, 113, 34, 34, 114, 34, 44, 55>>, <<45, 49, 46, 53, 44, 49, 101, 43, 50, 48>> },
               { <<97, 59, 98>>, <<49, 44, 53, 59, 50>>, <<120, 59, 34, 112, 59, 113, 34>>, <<51, 59>>, <<>> },
               { <<97, 9, 98>>, <<49, 46, 53, 9, 50>>, <<120, 32, 121, 9, 122>>, <<55>> },
               { <<99, 44, 100, 44, 101>>, <<50, 48, 44, 50, 48, 44, 49, 46, 53>>, <<55, 44, 49, 102, 44, 50>>, <<48, 44, 97, 44, 45, 51>> } >>
CsvLinesS == << { <<97, 44, 98>>, <<49, 44, 50>>, <<120, 44, 34, 112, 44, 113, 34>>, <<51, 44, 52, 44>>, <<53>>, <<34, 113, 34, 34, 114, 34, 44, 45, 49, 46, 53>> },
               { <<97, 59, 98>>, <<49, 44, 53, 59, 50>>, <<120, 59, 34, 112, 59, 113, 34>>, <<>> },
               { <<97, 9, 98>>, <<49, 46, 53, 9, 50>>, <<120, 32, 121, 9, 122>> },
               { <<99, 44, 100, 44, 101>>, <<50, 48, 44, 50, 48, 44, 49, 46, 53>>, <<55, 44, 49, 102, 44, 50>> } >>
CsvLinesT == << CsvLinesQ[1] \cup { <<98, 32, 99, 44, 32, 100>>, <<34, 49, 34, 44, 120>>, <<48, 46, 50, 53, 44, 45, 55>>, <<97, 44, 98, 44, 99>> },
               CsvLinesQ[2] \cup { <<34, 49, 44, 53, 34, 59, 121>>, <<45, 50, 59, 48, 44, 53>> },
               CsvLinesQ[3] \cup { <<34, 112, 9, 113, 34, 9, 49>>, <<9>> },
               CsvLinesQ[4] >>
CsvTypesS == { <<105, 104, 110>>, <<115, 104, 115>> }
CsvTypesQ == { <<105, 104, 110>>, <<115, 104, 115>>, <<105>> }
NoCells == {}
NoLines == {}
NoNames == {}
===============================================================================
