------------------------------- MODULE MC_IniCsv -------------------------------
(* constant definitions for the model-checking configurations of IniCsv (configuration files cannot spell sequences) *)
EXTENDS IniCsv

S(str) == str   \* readability only
\* INI line alphabet:  [s]  [t]  a=1  b=2  "  a=3" (indented)  "a = 4"  "# c"  ";d"  ""  "b="
LinesM == { <<91, 115, 93>>, <<91, 116, 93>>, <<97, 61, 49>>, <<98, 61, 50>>, <<32, 32, 97, 61, 51>>, <<97, 32, 61, 32, 52>>,
            <<35, 32, 99>>, <<59, 100>>, <<>>, <<98, 61>> }
\* quick:  [s]  [t]  a=1  "  b=2"  "a = 4"  "# c"  ""  "b="
LinesQ == { <<91, 115, 93>>, <<91, 116, 93>>, <<97, 61, 49>>, <<32, 32, 98, 61, 50>>, <<97, 32, 61, 32, 52>>, <<35, 32, 99>>, <<>>, <<98, 61>> }
\* thorough adds: tab-indented entry, value with inner '=' and blanks, comments that look like entries (one indented), whitespace-only line
LinesT == LinesM \cup { <<9, 98, 61, 53>>, <<97, 61, 120, 32, 61, 32, 121>>, <<35, 97, 61, 55>>, <<32, 59, 98, 61, 56>>, <<32>> }
\* set() names: s/a, s/b, t/a, u/a (section u never pre-exists), and the plain names a and k
NamesQ == { << <<115>>, <<97>> >>, << <<115>>, <<98>> >>, << <<117>>, <<97>> >>, << Top, <<97>> >> }
NamesT == NamesQ \cup { << <<116>>, <<97>> >>, << Top, <<107>> >>, << <<117>>, <<98>> >> }
\* the i-th set() of a history writes the i-th value: "9" then "" (quick), "x y" then "" (thorough)
Values == << <<57>>, <<>>, <<55, 55>> >>
ValuesT == << <<120, 32, 121>>, <<>>, <<55, 55>> >>

Str(s) == [t |-> "s", s |-> s]
Num(neg, digs, x) == [t |-> "n", neg |-> neg, digs |-> digs, x |-> x]
\* strings over , ; " ' space and letters;  numbers: 0 1 -1.5 0.1 1e+20 1.5e-07 123456789012345 100000 0.0001 1e-05 1e+15 2.2250738585072e-308
StrsQ == { Str(<<>>), Str(<<97>>), Str(<<44>>), Str(<<59>>), Str(<<34>>), Str(<<39>>), Str(<<32>>), Str(<<97, 44, 34, 98>>) }
NumsQ == { Num(FALSE, <<0>>, 0), Num(FALSE, <<1>>, 0), Num(TRUE, <<1, 5>>, 0), Num(FALSE, <<1>>, -1), Num(FALSE, <<1>>, 20),
           Num(FALSE, <<1, 5>>, -7), Num(FALSE, <<1, 2, 3, 4, 5, 6, 7, 8, 9, 0, 1, 2, 3, 4, 5>>, 14), Num(FALSE, <<1>>, 5),
           Num(FALSE, <<1>>, -4), Num(FALSE, <<1>>, -5), Num(FALSE, <<1>>, 15),
           Num(FALSE, <<2, 2, 2, 5, 0, 7, 3, 8, 5, 8, 5, 0, 7, 2>>, -308) }       \* smallest normal double: scale 1e-321
CellsQ == StrsQ \cup NumsQ
CellsT == CellsQ \cup { Str(<<34, 34>>), Str(<<32, 97, 32>>), Str(<<34, 44, 34>>), Str(<<97, 59, 39, 98>>),
                        Num(TRUE, <<9, 9, 9, 9, 9, 9, 9, 9, 9, 9, 9, 9, 9, 9, 9>>, 14), Num(FALSE, <<2, 5>>, 1),
                        Num(TRUE, <<1, 2, 5>>, -3), Num(FALSE, <<1, 7, 9, 7, 6, 9, 3, 1, 3, 4, 8, 6, 2, 3, 1>>, 308),
                        Num(TRUE, <<4, 9, 4, 0, 6, 5, 6, 4, 5, 8, 4, 1, 2, 4, 7>>, -324), Num(FALSE, <<1, 2, 3, 4, 5, 6, 7, 8, 9, 0, 1, 2, 3, 4, 5>>, -100) }
NoCells == {}
NoLines == {}
NoNames == {}
===============================================================================
