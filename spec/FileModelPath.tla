---------------------------- MODULE FileModelPath ----------------------------
(* C17 (growth) - asl::Path, the path algebra underneath File / Directory, as pure operators on byte strings.

   A path is a byte string; '/' separates segments (the library turns '\' into '/' when a Path is built).  The operators
   below are written from the documentation of include/asl/Path.h:

     name()        what follows the last separator                     directory()   what precedes it ("." if there is none)
     extension()   what follows the last dot of the name ("" if none)  noExt()       the path without that dot and extension
     nameNoExt()   noExt().name()                                      hasDir() / hasDirectory()   there is a separator
     isAbsolute()  starts with a separator                             operator/     joined with one separator
     absolute()    the canonical absolute path: the current directory is put in front of a relative path, empty and "."
                   segments disappear, ".." steps up one directory (the root is its own parent), no trailing separator -
                   "/" for the root itself
     equals()      same canonical absolute path                        removeDDots() the same path without removable ".."

   Every path over the token alphabet {a, b, ., .., /, a.b, .x} (plus '\' in the thorough tier) up to MaxTok tokens is a
   state (p), and for short p every q up to MaxTokQ tokens makes a pair state (p, q).  TLC decides the laws (Laws* below:
   directory()/name() recompose, absolute() is idempotent and canonical, equals() is an equivalence compatible with
   joining, removeDDots keeps the meaning ...) on every state and emits every state as a case for harness/c17_path_replay
   (R): the real Path must return exactly the values computed here.  Where the documentation leaves the text of a result
   open (see `unc`, `jx`, `rx`) the case says so and only the relation is checked - in the recorded direction (V,
   Trace_FileModelPath), where TLC sees the library's own answer.

   The current directory is a real directory made by the check; its bytes come in through the environment (C17_CWD names a
   one-line JSON file {"cwd": [bytes]}), so that the expected absolute paths are complete strings computed by TLC.       *)
EXTENDS Integers, Sequences, FiniteSets, TLC, Json, IOUtils, SequencesExt

CONSTANTS MaxTok,      \* tokens of p
          MaxTokP2,    \* pairs are generated for p up to this many tokens ...
          MaxTokQ,     \* ... and q up to this many
          TokSet       \* indices of the tokens used

VARIABLES p, q, pair
vars == <<p, q, pair>>

SL  == 47
DOT == 46
BSL == 92
Tokens == << <<97>>, <<98>>, <<DOT>>, <<DOT, DOT>>, <<SL>>, <<97, DOT, 98>>, <<DOT, 120>>, <<BSL>>, <<66>> >>   \* a b . .. / a.b .x \ B

RECURSIVE FlatR(_, _, _)
FlatR(ss, lo, hi) == IF lo > hi THEN <<>> ELSE IF lo = hi THEN ss[lo]
                     ELSE LET mid == (lo + hi) \div 2 IN FlatR(ss, lo, mid) \o FlatR(ss, mid + 1, hi)
Flat(ss) == FlatR(ss, 1, Len(ss))
Bytes(ts) == Flat([i \in 1..Len(ts) |-> Tokens[ts[i]]])

\* (trace validation does not use it: every recorded line carries its own current directory)
Cwd == IF "C17_CWD" \in DOMAIN IOEnv THEN ndJsonDeserialize(IOEnv.C17_CWD)[1].cwd ELSE <<SL>>

-------------------------------------------------------------------------------
(* the operators *)
\* a Path holds its string with every backslash turned into a slash
Slashed(s) == [i \in 1..Len(s) |-> IF s[i] = BSL THEN SL ELSE s[i]]
LastIdx(s, b) == LET S == {i \in 1..Len(s) : s[i] = b} IN IF S = {} THEN 0 ELSE CHOOSE i \in S : \A j \in S : j <= i
Name(s)   == SubSeq(s, LastIdx(s, SL) + 1, Len(s))
DirOf(s)  == IF LastIdx(s, SL) = 0 THEN <<DOT>> ELSE SubSeq(s, 1, LastIdx(s, SL) - 1)
\* position of the last dot of the name (0: the name has no dot)
DotIdx(s) == IF LastIdx(s, DOT) > LastIdx(s, SL) THEN LastIdx(s, DOT) ELSE 0
Ext(s)    == IF DotIdx(s) = 0 THEN <<>> ELSE SubSeq(s, DotIdx(s) + 1, Len(s))
NoExt(s)  == IF DotIdx(s) = 0 THEN s ELSE SubSeq(s, 1, DotIdx(s) - 1)
NameNoExt(s) == Name(NoExt(s))
HasDir(s) == LastIdx(s, SL) # 0
IsAbs(s)  == Len(s) > 0 /\ s[1] = SL
\* hasExtension("x|y"): the extension is one of the alternatives, letters compared without case
Lower(s) == [i \in 1..Len(s) |-> IF s[i] >= 65 /\ s[i] <= 90 THEN s[i] + 32 ELSE s[i]]
HasExt(s, alts) == \E k \in 1..Len(alts) : Lower(alts[k]) = Lower(Ext(s))

\* segments between separators (empty ones included): Split("a//b") = <<"a", "", "b">>, Split("") = <<"">>
Split(s) == LET cuts == <<0>> \o SetToSortSeq({i \in 1..Len(s) : s[i] = SL}, <) \o <<Len(s) + 1>>
            IN [k \in 1..(Len(cuts) - 1) |-> SubSeq(s, cuts[k] + 1, cuts[k + 1] - 1)]
\* canonical segment list of an absolute path: "" and "." vanish, ".." removes the segment before it (none left: stays)
RECURSIVE CanonR(_, _, _)
CanonR(segs, i, st) == IF i > Len(segs) THEN st
                       ELSE LET g == segs[i] IN
                            CanonR(segs, i + 1, IF g = <<>> \/ g = <<DOT>> THEN st
                                                ELSE IF g = <<DOT, DOT>> THEN (IF st = <<>> THEN st ELSE SubSeq(st, 1, Len(st) - 1))
                                                ELSE Append(st, g))
Canon(s) == CanonR(Split(s), 1, <<>>)
JoinSegs(segs) == IF segs = <<>> THEN <<SL>> ELSE Flat([i \in 1..Len(segs) |-> <<SL>> \o segs[i]])
AbsIn(cwd, s) == JoinSegs(Canon(IF IsAbs(s) THEN s ELSE cwd \o <<SL>> \o s))
Abs(s)    == AbsIn(Cwd, s)
Equals(s, t) == Abs(s) = Abs(t)
\* a leading "//" may mean something else than "/" (POSIX leaves it to the implementation; the library keeps it): unconstrained
Unc(s)    == Len(s) >= 2 /\ s[1] = SL /\ s[2] = SL

\* operator/ : "concatenates this path with another, and removes possible double slashes"
HasRun(s, n) == \E i \in 1..(Len(s) - n + 1) : \A k \in 0..(n - 1) : s[i + k] = SL
Squeeze(s) == LET keep == SetToSortSeq({i \in 1..Len(s) : ~(s[i] = SL /\ i > 1 /\ s[i - 1] = SL)}, <)
              IN [k \in 1..Len(keep) |-> s[keep[k]]]
Glue(s, t) == s \o <<SL>> \o t
Join(s, t) == Squeeze(Glue(s, t))
\* the text of the result is fixed by the documentation when nothing longer than a double slash arises
JoinExact(s, t) == ~HasRun(Glue(s, t), 3)
\* otherwise: it is the glued path up to repeated separators
JoinOK(s, t, r) == Squeeze(r) = Join(s, t) /\ (JoinExact(s, t) => r = Join(s, t))

\* removeDDots(): "removes double dots in a path by stepping up one directory each time" - the result means the same
\* path from every directory, and no ".." is left that follows a name (none at all in an absolute path)
\* meaning of a path from an unknown directory: how far it climbs above it, then which names it descends
RECURSIVE RelR(_, _, _, _)
RelR(segs, i, up, st) == IF i > Len(segs) THEN [up |-> up, down |-> st]
                         ELSE LET g == segs[i] IN
                              IF g = <<>> \/ g = <<DOT>> THEN RelR(segs, i + 1, up, st)
                              ELSE IF g = <<DOT, DOT>> THEN (IF st = <<>> THEN RelR(segs, i + 1, up + 1, st)
                                                             ELSE RelR(segs, i + 1, up, SubSeq(st, 1, Len(st) - 1)))
                              ELSE RelR(segs, i + 1, up, Append(st, g))
Meaning(s) == IF IsAbs(s) THEN [abs |-> TRUE, up |-> 0, down |-> Canon(s)]
              ELSE LET m == RelR(Split(s), 1, 0, <<>>) IN [abs |-> FALSE, up |-> m.up, down |-> m.down]
NoRemovableDD(r) == LET g == Split(r) IN
                    \A i \in 1..Len(g) : g[i] = <<DOT, DOT>> =>
                        IF IsAbs(r) THEN FALSE ELSE \A j \in 1..(i - 1) : g[j] \in {<<DOT, DOT>>}
RemoveDDOK(s, r) == Meaning(r) = Meaning(s) /\ NoRemovableDD(r)
\* for an absolute path the library's own use (absolute()) fixes the text
RemoveDDExact(s) == IsAbs(s) /\ ~Unc(s)

-------------------------------------------------------------------------------
Init == p = <<>> /\ q = <<>> /\ pair = FALSE
ExtendP(k) == ~pair /\ Len(p) < MaxTok /\ p' = Append(p, k) /\ UNCHANGED <<q, pair>>
StartPair  == ~pair /\ Len(p) <= MaxTokP2 /\ MaxTokQ > 0 /\ pair' = TRUE /\ UNCHANGED <<p, q>>
ExtendQ(k) == pair /\ Len(q) < MaxTokQ /\ q' = Append(q, k) /\ UNCHANGED <<p, pair>>
Next == (\E k \in TokSet : ExtendP(k)) \/ StartPair \/ (\E k \in TokSet : ExtendQ(k))
Spec == Init /\ [][Next]_vars

P == Slashed(Bytes(p))
Q == Slashed(Bytes(q))

-------------------------------------------------------------------------------
(* laws, decided by TLC on every state *)
NoSlash(s) == LastIdx(s, SL) = 0
LawsName ==
    /\ NoSlash(Name(P))
    /\ HasDir(P) => DirOf(P) \o <<SL>> \o Name(P) = P                      \* directory() and name() recompose, textually
    /\ ~Unc(P) /\ ~Unc(Glue(DirOf(P), Name(P))) => Equals(Join(DirOf(P), Name(P)), P)     \* ... and through operator/
    /\ ~HasDir(P) => Name(P) = P /\ DirOf(P) = <<DOT>>
LawsExt ==
    /\ NoSlash(Ext(P)) /\ LastIdx(Ext(P), DOT) = 0
    /\ DotIdx(P) # 0 => NoExt(P) \o <<DOT>> \o Ext(P) = P                  \* noExt() + "." + extension() is the path
    /\ DotIdx(P) = 0 => NoExt(P) = P /\ Ext(P) = <<>>
    /\ DirOf(NoExt(P)) = DirOf(P)                                           \* the extension belongs to the name
    /\ (DotIdx(P) # 0 => NameNoExt(P) \o <<DOT>> \o Ext(P) = Name(P))
LawsAbs == ~Unc(P) =>
    /\ IsAbs(Abs(P))
    /\ Abs(Abs(P)) = Abs(P)                                                 \* idempotent
    /\ Abs(P) = JoinSegs(Canon(Abs(P)))                                     \* canonical: the text is determined by the segments
    /\ \A i \in 2..Len(Split(Abs(P))) : Split(Abs(P))[i] \notin {<<DOT>>, <<DOT, DOT>>} /\ (Split(Abs(P))[i] = <<>> => Abs(P) = <<SL>>)
    /\ (IsAbs(P) => \A c \in {<<SL, 120>>, <<SL, 120, SL, 121>>} : AbsIn(c, P) = Abs(P))    \* an absolute path ignores the current directory
    /\ Equals(P, P)
    /\ Meaning(Abs(P)).down = Canon(IF IsAbs(P) THEN P ELSE Glue(Cwd, P))
LawsRemoveDD ==
    /\ RemoveDDOK(P, P) \/ \E i \in 1..Len(Split(P)) : Split(P)[i] = <<DOT, DOT>>   \* nothing to remove: the path itself will do
    /\ IsAbs(P) /\ ~Unc(P) => RemoveDDOK(P, Abs(P))                          \* what absolute() makes of an absolute path
LawsPair == pair /\ ~Unc(P) /\ ~Unc(Q) /\ ~Unc(Glue(P, Q)) =>
    /\ JoinOK(P, Q, Join(P, Q))
    /\ ~HasRun(Join(P, Q), 2)
    /\ Equals(P, Q) = Equals(Q, P)
    /\ (P # <<>> /\ ~IsAbs(Q) => Abs(Join(P, Q)) = AbsIn(Abs(P), Q))          \* joining = resolving q from p
    /\ (P # <<>> /\ Q # <<>> /\ Equals(P, Q) => \A t \in {<<97>>, <<DOT, DOT>>, <<DOT, DOT, SL, 98>>} : Equals(Join(P, t), Join(Q, t)))

-------------------------------------------------------------------------------
(* one case per state *)
Alts == << <<66>>, <<120>> >>       \* hasExtension("B|x")
Emit == LET a == Slashed(Bytes(p')) b == Slashed(Bytes(q')) IN
        PrintT(ToJson(
          IF ~pair' THEN
             [k |-> "path", cwd |-> Cwd, raw |-> Bytes(p'), str |-> a, ok |-> a # <<>>, yes |-> TRUE, name |-> Name(a), dir |-> DirOf(a), ext |-> Ext(a), noext |-> NoExt(a),
              nne |-> NameNoExt(a), hasdir |-> HasDir(a), isabs |-> IsAbs(a), hasext |-> HasExt(a, Alts),
              unc |-> Unc(a), abs |-> Abs(a), rx |-> RemoveDDExact(a), rdd |-> IF RemoveDDExact(a) THEN Abs(a) ELSE <<>>]
          ELSE
             [k |-> "pair", cwd |-> Cwd, raw |-> Bytes(p'), raw2 |-> Bytes(q'), jx |-> JoinExact(a, b), join |-> Join(a, b),
              unc |-> Unc(a) \/ Unc(b), eq |-> Equals(a, b), same |-> a = b, cat |-> a \o b]))
===============================================================================
