-------------------------------- MODULE RefCount --------------------------------
(* C12 - reference-counted sharing (Array, Map, HashMap, Shared<T>, SmartObject classes) under every interleaving
   of the library's atomic steps.

   Objects carry one counter (two for HashMap: the node counter _rc and the bucket array's own counter); threads
   own handle slots and run programs of copy / drop / assign on their *own* handles; every handle operation is the
   sequence of atomic increments/decrements the library performs for that type (Micro below), each followed by the
   local action that depends on its result (free / clear when the counter reaches zero).  A step of thread t is
   "perform the atomic operation t is parked at, then run up to just before t's next atomic operation" - the
   granularity of the deterministic scheduler (harness/common/vsched.h).  Programs are chosen nondeterministically,
   so TLC explores all programs (up to MaxOps operations per thread) x all interleavings.

   Properties: an object stays alive (and its payload undestroyed) while any handle refers to it; the payload is
   destroyed exactly once; no atomic operation ever touches a freed object; at quiescence every counter equals
   the number of handles.                                                                                        *)
EXTENDS Naturals, Sequences, FiniteSets, TLC, Json

CONSTANTS Type,      \* "array" | "smart" | "shared" | "hashmap"
          NT,        \* worker threads 1..NT
          NO,        \* objects 1..NO
          NS,        \* handle slots per thread
          MaxOps     \* operations per thread

T == 1..NT
O == 1..NO
K == IF Type = "hashmap" THEN 2 ELSE 1       \* counters per object; counter 1 guards the storage block
PayloadK == K                                 \* the counter whose zero destroys the payload (hashmap: node counter 2)

VARIABLES cnt, alive, dtor, uaf, slots, phase, micro, pend, nops, hist
vars == <<cnt, alive, dtor, uaf, slots, phase, micro, pend, nops, hist>>

IncAll(o) == IF Type = "hashmap" THEN << <<"inc", o, 1>>, <<"inc", o, 2>> >> ELSE << <<"inc", o, 1>> >>
DecAll(o) == IF Type = "hashmap" THEN << <<"dec", o, 2>>, <<"dec", o, 1>> >> ELSE << <<"dec", o, 1>> >>
Micro(op, sl) ==
   IF op.k = "copy" THEN IncAll(sl[op.i])
   ELSE IF op.k = "drop" THEN DecAll(sl[op.i])
   ELSE IF Type = "shared" THEN IncAll(sl[op.j]) \o DecAll(sl[op.i])      \* Shared<T>::operator= : ref new, unref old
   ELSE DecAll(sl[op.i]) \o IncAll(sl[op.j])                               \* Array/HashMap/SmartObject: release old, ref new

\* operations a thread may start on its own slots sl
Ops == [k : {"copy", "drop", "assign"}, i : 1..NS, j : 0..NS]
ValidOps(sl) == {op \in Ops :
    IF op.k = "copy" THEN sl[op.i] # 0 /\ op.j # 0 /\ sl[op.j] = 0
    ELSE IF op.k = "drop" THEN sl[op.i] # 0 /\ op.j = 0
    ELSE /\ sl[op.i] # 0 /\ op.j # 0 /\ op.j # op.i /\ sl[op.j] # 0
         \* Shared<T>::operator= between handles of the same object has no atomic step: not a schedule point
         /\ (Type = "shared" => sl[op.i] # sl[op.j]) }

InitSlots == [s \in 1..NS |-> IF s <= NO THEN s ELSE 0]         \* every thread starts with one handle per object

Init == /\ cnt = [o \in O |-> [k \in 1..K |-> NT]]
        /\ alive = [o \in O |-> TRUE] /\ dtor = [o \in O |-> 0] /\ uaf = FALSE
        /\ slots = [t \in T |-> InitSlots]
        /\ phase = [t \in T |-> "entry"]
        /\ micro = [t \in T |-> <<>>]
        /\ pend = [t \in T |-> [k |-> "none", i |-> 0, j |-> 0]]
        /\ nops = [t \in T |-> 0]
        /\ hist = <<>>

\* effect of one atomic operation m = <<kind, o, k>>
Apply(m) ==
   LET o == m[2]  k == m[3]
       v == IF m[1] = "inc" THEN cnt[o][k] + 1 ELSE cnt[o][k] - 1 IN
   /\ uaf' = (uaf \/ ~alive[o] \/ (m[1] = "dec" /\ cnt[o][k] = 0))
   /\ cnt' = [cnt EXCEPT ![o][k] = IF m[1] = "dec" /\ cnt[o][k] = 0 THEN 0 ELSE v]
   /\ alive' = [alive EXCEPT ![o] = IF m[1] = "dec" /\ k = 1 /\ v = 0 THEN FALSE ELSE @]
   /\ dtor' = [dtor EXCEPT ![o] = IF m[1] = "dec" /\ k = PayloadK /\ v = 0 THEN @ + 1 ELSE @]

\* slot contents after operation op completes
Done(op, sl) == IF op.k = "copy" THEN [sl EXCEPT ![op.j] = sl[op.i]]
                ELSE IF op.k = "assign" THEN [sl EXCEPT ![op.i] = sl[op.j]]   \* (sl[op.i] was vacated by Begin)
                ELSE sl
\* slot contents while op is in progress (the handle being released no longer counts as a live handle)
Begin(op, sl) == IF op.k \in {"drop", "assign"} THEN [sl EXCEPT ![op.i] = 0] ELSE sl

\* thread t, whose slots are sl and which has just finished an operation (or just started), picks what to do next
Choose(t, sl, rec) ==
   \/ /\ nops[t] < MaxOps
      /\ \E op \in ValidOps(sl) :
           /\ micro' = [micro EXCEPT ![t] = Micro(op, sl)]
           /\ pend' = [pend EXCEPT ![t] = op]
           /\ slots' = [slots EXCEPT ![t] = Begin(op, sl)]
           /\ phase' = [phase EXCEPT ![t] = "run"]
           /\ nops' = [nops EXCEPT ![t] = @ + 1]
           /\ hist' = Append(hist, [t |-> t, k |-> op.k, i |-> op.i, j |-> op.j, d |-> [o \in O |-> dtor'[o]]])
   \/ /\ micro' = [micro EXCEPT ![t] = <<>>]
      /\ pend' = [pend EXCEPT ![t] = [k |-> "none", i |-> 0, j |-> 0]]
      /\ slots' = [slots EXCEPT ![t] = sl]
      /\ phase' = [phase EXCEPT ![t] = "exit"]
      /\ UNCHANGED nops
      /\ hist' = Append(hist, [t |-> t, k |-> "exit", i |-> 0, j |-> 0, d |-> [o \in O |-> dtor'[o]]])

Start(t) == /\ phase[t] = "entry"
            /\ UNCHANGED <<cnt, alive, dtor, uaf>>
            /\ Choose(t, slots[t], 0)
Atomic(t) == /\ phase[t] = "run" /\ micro[t] # <<>>
             /\ Apply(Head(micro[t]))
             /\ IF Len(micro[t]) > 1
                THEN /\ micro' = [micro EXCEPT ![t] = Tail(@)]
                     /\ UNCHANGED <<slots, phase, pend, nops>>
                     /\ hist' = Append(hist, [t |-> t, k |-> "step", i |-> 0, j |-> 0, d |-> [o \in O |-> dtor'[o]]])
                ELSE Choose(t, Done(pend[t], slots[t]), 0)
Exit(t) == /\ phase[t] = "exit"
           /\ phase' = [phase EXCEPT ![t] = "done"]
           /\ UNCHANGED <<cnt, alive, dtor, uaf, slots, micro, pend, nops>>
           /\ hist' = Append(hist, [t |-> t, k |-> "end", i |-> 0, j |-> 0, d |-> [o \in O |-> dtor[o]]])

Next == \E t \in T : Start(t) \/ Atomic(t) \/ Exit(t)
Spec == Init /\ [][Next]_vars

-------------------------------------------------------------------------------
Handles(o) == Cardinality({<<t, s>> \in T \X (1..NS) : slots[t][s] = o})
NoUseAfterFree == ~uaf
AliveWhileHandles == \A o \in O : Handles(o) > 0 => (alive[o] /\ dtor[o] = 0)
DestroyedOnce == \A o \in O : dtor[o] <= 1
Quiescent == \A t \in T : micro[t] = <<>>
CountsMatch == Quiescent => \A o \in O : \A k \in 1..K : cnt[o][k] = Handles(o)
ReleasedWithLastHandle == Quiescent => \A o \in O : (Handles(o) = 0) = (dtor[o] = 1 /\ ~alive[o])

View == <<cnt, alive, dtor, uaf, slots, phase, micro, pend, nops, Len(hist)>>
Emit == PrintT(ToJson([type |-> Type, nt |-> NT, no |-> NO, ns |-> NS, steps |-> hist']))
===============================================================================
