-------------------------------- MODULE RefCount --------------------------------
(* C12 - reference-counted sharing (Array, Map, HashMap, Shared<T>, SmartObject classes, Var containers) under every
   interleaving of the library's atomic steps.

   Objects carry one counter (two for HashMap: the node counter _rc and the bucket array's own counter); threads
   own handle slots and run programs of handle operations on their *own* handles; every handle operation is the
   sequence of atomic increments/decrements the library performs for that type (Micro below), each followed by the
   local action that depends on its result (free / clear when the counter reaches zero).  A step of thread t is
   "perform the atomic operation t is parked at, then run up to just before t's next atomic operation" - the
   granularity of the deterministic scheduler (harness/common/vsched.h).  Programs are chosen nondeterministically,
   so TLC explores all programs (up to MaxOps operations per thread) x all interleavings.

   Counting disciplines (Type):
     "array"    Array, Map, Dic, Stack, Queue, Array2 (all hold one Array block): copy = inc; destroy = dec, free at 0;
                assign = release old (dec), then reference new (inc); `a = a` is a no-op.
     "hashmap"  HashMap, HashDic, Set: the same with two counters per object (node counter guards the payload).
     "shared"   Shared<T>: assign = reference new, then release old; nothing at all if both refer to the same object.
     "smart"    ASL_SMART_CLASS handles: assign = reference new, then release old, also for the same object and `a = a`.
     "var"      Var holding an array or an object (Dic): the Var owns a heap Array/Dic handle, so copy = inc, destroy = dec;
                assign = copy the source first (inc), then release the old container (dec), also for the same container.
                Containers hold Vars, i.e. embedded handles (Shape): the thread whose decrement reaches zero destroys the
                elements - one more decrement per embedded handle, recursively - and frees the block afterwards.
   (String and string-typed Vars own their buffer: copies are deep, nothing is shared, so they are outside this module.
   Xml nodes count with a plain int - not an atomic step - and are therefore not shareable between threads.)

   Beyond copy / drop / assign the Shared<T> / SmartObject API is covered by optional operation kinds (Ext):
     "self"   assignment of a handle to itself;
     "null"   null handles (default constructed Shared<T>, SmartObject class from a null pointer, Var()): created, copied,
              assigned from and to, dropped - none of which may touch a counter;
     "conv"   `as<Derived>()` followed by the converting copy Derived -> Base: a temporary handle is created (inc),
              copied into the target (inc) and dropped (dec); `as<Other>()` on an object of another class yields a null
              handle (which is then converted as well);
     "clone"  a new object with its own counter: the creator holds its only handle (a SmartObject class takes that
              reference with an atomic increment from 0, Shared<T> starts at 1).

   Properties: an object stays alive (and its payload undestroyed) while any handle refers to it - a handle embedded in
   a live container counts; the payload is destroyed exactly once; no atomic operation ever touches a freed object or one
   whose destruction has begun; at quiescence every counter equals the number of handles and an object is freed iff
   no handle is left (so the last dropper of a container destroys the whole subtree, exactly once).                 *)
EXTENDS Naturals, Sequences, FiniteSets, TLC, Json

CONSTANTS Type,      \* "array" | "smart" | "shared" | "hashmap" | "var"
          NT,        \* worker threads 1..NT
          NO,        \* objects 1..NO
          NS,        \* handle slots per thread
          MaxOps,    \* operations per thread
          NB,        \* objects 1..NB exist initially (every thread starts with one handle to each); the others are clones
          Shape,     \* "flat" | "chain" (object o holds a handle to o+1) | "tree" (object 1 holds handles to 2..NB)
          Ext        \* subset of {"self", "null", "conv", "clone"}

T == 1..NT
O == 1..NO
Null == NO + 1                                \* slot value of a null handle (0 = no handle object at all)
K == IF Type = "hashmap" THEN 2 ELSE 1       \* counters per object; counter 1 guards the storage block
PayloadK == K                                 \* the counter whose zero destroys the payload (hashmap: node counter 2)

Kids(o) == IF Shape = "chain" /\ o < NB THEN <<o + 1>>
           ELSE IF Shape = "tree" /\ o = 1 THEN [i \in 1..(NB - 1) |-> i + 1]
           ELSE <<>>
SeqSet(q) == {q[i] : i \in 1..Len(q)}
Parents(o) == {p \in 1..NB : o \in SeqSet(Kids(p))}

VARIABLES cnt, st, dtor, uaf, slots, phase, micro, pend, nops, resv, hist
vars == <<cnt, st, dtor, uaf, slots, phase, micro, pend, nops, resv, hist>>

\* a micro step is <<kind, object, counter, blocks to free once this decrement (and what it triggers) is done>>
IncAll(o) == IF Type = "hashmap" THEN << <<"inc", o, 1, <<>> >>, <<"inc", o, 2, <<>> >> >> ELSE << <<"inc", o, 1, <<>> >> >>
DecAll(o) == IF Type = "hashmap" THEN << <<"dec", o, 2, <<>> >>, <<"dec", o, 1, <<>> >> >> ELSE << <<"dec", o, 1, <<>> >> >>
IncH(x) == IF x \in O THEN IncAll(x) ELSE <<>>
DecH(x) == IF x \in O THEN DecAll(x) ELSE <<>>
NewFirst == Type \in {"shared", "smart", "var"}           \* assignment references the new object before releasing the old
Micro(op, sl) ==
   IF op.k = "copy" THEN IncH(sl[op.i])
   ELSE IF op.k = "conv" THEN IncH(sl[op.i]) \o IncH(sl[op.i]) \o DecH(sl[op.i])
   ELSE IF op.k = "drop" THEN DecH(sl[op.i])
   ELSE IF op.k \in {"asnull", "mknull"} THEN <<>>
   ELSE IF op.k = "clone" THEN (IF Type = "smart" THEN << <<"inc", op.o, 1, <<>> >> >> ELSE <<>>)
   ELSE IF op.i = op.j THEN (IF Type \in {"smart", "var"} THEN IncH(sl[op.i]) \o DecH(sl[op.i]) ELSE <<>>)
   ELSE IF Type = "shared" /\ sl[op.i] = sl[op.j] THEN <<>>
   ELSE IF NewFirst THEN IncH(sl[op.j]) \o DecH(sl[op.i])
   ELSE DecH(sl[op.i]) \o IncH(sl[op.j])

\* the lowest object that does not exist yet and that no other thread is about to create
Unborn == {o \in O : st[o] = "unborn" /\ o \notin resv}
Fresh == IF Unborn = {} THEN 0 ELSE CHOOSE o \in Unborn : \A p \in Unborn : o <= p

\* operations a thread may start on its own slots sl.  i, j = slots; o = the value the target slot holds afterwards
OpsOn(sl) ==
   {[k |-> "copy", i |-> i, j |-> j, o |-> sl[i]] : i \in 1..NS, j \in 1..NS}
   \cup {[k |-> "conv", i |-> i, j |-> j, o |-> sl[i]] : i \in 1..NS, j \in 1..NS}
   \cup {[k |-> "asnull", i |-> i, j |-> j, o |-> Null] : i \in 1..NS, j \in 1..NS}
   \cup {[k |-> "clone", i |-> i, j |-> j, o |-> Fresh] : i \in 1..NS, j \in 1..NS}
   \cup {[k |-> "assign", i |-> i, j |-> j, o |-> sl[j]] : i \in 1..NS, j \in 1..NS}
   \cup {[k |-> "drop", i |-> i, j |-> 0, o |-> 0] : i \in 1..NS}
   \cup {[k |-> "mknull", i |-> i, j |-> 0, o |-> Null] : i \in 1..NS}
ValidOps(sl) == {op \in OpsOn(sl) :
    /\ IF op.k = "copy" THEN sl[op.i] # 0 /\ op.j # op.i /\ sl[op.j] = 0
       ELSE IF op.k = "conv" THEN "conv" \in Ext /\ sl[op.i] \in O /\ op.j # op.i /\ sl[op.j] = 0
       ELSE IF op.k = "asnull" THEN "conv" \in Ext /\ "null" \in Ext /\ sl[op.i] \in O /\ op.j # op.i /\ sl[op.j] = 0
       ELSE IF op.k = "clone" THEN "clone" \in Ext /\ sl[op.i] \in O /\ op.j # op.i /\ sl[op.j] = 0 /\ op.o # 0
       ELSE IF op.k = "drop" THEN sl[op.i] # 0
       ELSE IF op.k = "mknull" THEN "null" \in Ext /\ sl[op.i] = 0
       ELSE /\ sl[op.i] # 0 /\ sl[op.j] # 0
            /\ (op.i = op.j => "self" \in Ext)
    \* operations without any atomic step are explored only when the API extensions are switched on
    /\ (Micro(op, sl) = <<>> => Ext # {}) }

InitSlots == [s \in 1..NS |-> IF s <= NB THEN s ELSE 0]         \* every thread starts with one handle per existing object

Init == /\ cnt = [o \in O |-> [k \in 1..K |-> IF o <= NB THEN NT + Cardinality(Parents(o)) ELSE 0]]
        /\ st = [o \in O |-> IF o <= NB THEN "live" ELSE "unborn"]
        /\ dtor = [o \in O |-> 0] /\ uaf = FALSE
        /\ slots = [t \in T |-> InitSlots]
        /\ phase = [t \in T |-> "entry"]
        /\ micro = [t \in T |-> <<>>]
        /\ pend = [t \in T |-> [k |-> "none", i |-> 0, j |-> 0, o |-> 0]]
        /\ nops = [t \in T |-> 0]
        /\ resv = {}
        /\ hist = <<>>

\* slot contents after operation op completes
Target(op) == IF op.k \in {"assign", "mknull", "drop"} THEN op.i ELSE op.j
Done(op, sl) == IF op.k = "none" THEN sl ELSE [sl EXCEPT ![Target(op)] = op.o]
\* slot contents while op is in progress (the handle being released no longer counts as a live handle)
Begin(op, sl) == IF op.k \in {"drop", "assign"} THEN [sl EXCEPT ![op.i] = 0] ELSE sl

Flags(f) == [o \in O |-> IF f[o] THEN 1 ELSE 0]
Rec(t, k, i, j, o, m, sl) == [t |-> t, k |-> k, i |-> i, j |-> j, o |-> o, m |-> m, s |-> sl,
                              d |-> [x \in O |-> dtor'[x]], f |-> Flags([x \in O |-> st'[x] = "freed"]),
                              b |-> Flags([x \in O |-> st'[x] # "unborn"])]

\* thread t, whose slots are sl and which has just finished an operation (or just started), picks what to do next;
\* r = the reservations left by the step that is being completed
Choose(t, sl, r) ==
   \/ /\ nops[t] < MaxOps
      /\ \E op \in ValidOps(sl) :
           /\ micro' = [micro EXCEPT ![t] = Micro(op, sl)]
           /\ pend' = [pend EXCEPT ![t] = op]
           /\ slots' = [slots EXCEPT ![t] = Begin(op, sl)]
           /\ phase' = [phase EXCEPT ![t] = "run"]
           /\ nops' = [nops EXCEPT ![t] = @ + 1]
           /\ resv' = IF op.k = "clone" THEN r \cup {op.o} ELSE r
           /\ hist' = Append(hist, Rec(t, op.k, op.i, op.j, op.o, Len(Micro(op, sl)), sl))
   \/ /\ micro' = [micro EXCEPT ![t] = <<>>]
      /\ pend' = [pend EXCEPT ![t] = [k |-> "none", i |-> 0, j |-> 0, o |-> 0]]
      /\ slots' = [slots EXCEPT ![t] = sl]
      /\ phase' = [phase EXCEPT ![t] = "exit"]
      /\ resv' = r
      /\ UNCHANGED nops
      /\ hist' = Append(hist, Rec(t, "exit", 0, 0, 0, 0, sl))

Start(t) == /\ phase[t] = "entry"
            /\ UNCHANGED <<cnt, st, dtor, uaf>>
            /\ Choose(t, slots[t], resv)

\* one atomic increment / decrement and what the thread does with its result
Atomic(t) ==
   /\ phase[t] = "run" /\ micro[t] # <<>>
   /\ LET m == Head(micro[t])  a == m[1]  o == m[2]  k == m[3]  fr == m[4]
          creating == a = "inc" /\ st[o] = "unborn"       \* the creator of a clone takes the first reference
          zero == a = "dec" /\ cnt[o][k] = 1
          kids == IF zero /\ k = 1 THEN Kids(o) ELSE <<>>
          \* the thread that brought a container to zero destroys its elements (their handles) and then frees the block
          casc == [n \in 1..Len(kids) |-> <<"dec", kids[n], 1, IF n = Len(kids) THEN <<o>> \o fr ELSE <<>> >>]
          freed == IF zero /\ k = 1 THEN (IF kids = <<>> THEN {o} \cup SeqSet(fr) ELSE {}) ELSE SeqSet(fr)
          rest == casc \o Tail(micro[t])
      IN
      /\ uaf' = (uaf \/ (~creating /\ st[o] # "live") \/ (a = "dec" /\ cnt[o][k] = 0))
      /\ cnt' = [cnt EXCEPT ![o][k] = IF a = "inc" THEN @ + 1 ELSE IF @ = 0 THEN 0 ELSE @ - 1]
      /\ st' = [p \in O |-> IF p \in freed THEN "freed"
                            ELSE IF p = o /\ creating THEN "live"
                            ELSE IF p = o /\ zero /\ k = 1 THEN "dying"
                            ELSE st[p]]
      /\ dtor' = [dtor EXCEPT ![o] = IF zero /\ k = PayloadK THEN @ + 1 ELSE @]
      /\ IF rest # <<>>
         THEN /\ micro' = [micro EXCEPT ![t] = rest]
              /\ resv' = IF creating THEN resv \ {o} ELSE resv
              /\ UNCHANGED <<slots, phase, pend, nops>>
              /\ hist' = Append(hist, Rec(t, "step", 0, 0, 0, 0, slots[t]))
         ELSE Choose(t, Done(pend[t], slots[t]), IF creating THEN resv \ {o} ELSE resv)

\* an operation that performs no atomic step at all (null handles, Shared<T> assignment within one object, a = a, and
\* Shared<T>::clone, which creates the new object with its counter at 1)
Silent(t) ==
   /\ phase[t] = "run" /\ micro[t] = <<>>
   /\ LET op == pend[t]  new == op.k = "clone" IN
      /\ cnt' = IF new THEN [cnt EXCEPT ![op.o] = [k \in 1..K |-> 1]] ELSE cnt
      /\ st' = IF new THEN [st EXCEPT ![op.o] = "live"] ELSE st
      /\ UNCHANGED <<dtor, uaf>>
      /\ Choose(t, Done(op, slots[t]), IF new THEN resv \ {op.o} ELSE resv)

Exit(t) == /\ phase[t] = "exit"
           /\ phase' = [phase EXCEPT ![t] = "done"]
           /\ UNCHANGED <<cnt, st, dtor, uaf, slots, micro, pend, nops, resv>>
           /\ hist' = Append(hist, Rec(t, "end", 0, 0, 0, 0, slots[t]))

Next == \E t \in T : Start(t) \/ Atomic(t) \/ Silent(t) \/ Exit(t)
Spec == Init /\ [][Next]_vars

-------------------------------------------------------------------------------
\* handles to o: the threads' own ones plus those embedded in live containers
Direct(o) == Cardinality({<<t, s>> \in T \X (1..NS) : slots[t][s] = o})
Handles(o) == Direct(o) + Cardinality({p \in Parents(o) : st[p] = "live"})
NoUseAfterFree == ~uaf
AliveWhileHandles == \A o \in O : Handles(o) > 0 => (st[o] = "live" /\ dtor[o] = 0)
DestroyedOnce == \A o \in O : dtor[o] <= 1
Quiescent == \A t \in T : phase[t] # "run"
CountsMatch == Quiescent => \A o \in O : \A k \in 1..K : cnt[o][k] = Handles(o)
ReleasedWithLastHandle == Quiescent => \A o \in O : st[o] # "unborn" => ((Handles(o) = 0) = (dtor[o] = 1 /\ st[o] = "freed"))
\* nobody is left half destroyed: whoever starts destroying a container finishes the subtree within its own operation
NoHalfDestroyed == Quiescent => \A o \in O : st[o] # "dying"
\* a live container's elements are live
SubtreeAlive == \A o \in O : st[o] = "live" => \A c \in SeqSet(Kids(o)) : st[c] = "live"

View == <<cnt, st, dtor, uaf, slots, phase, micro, pend, nops, resv, Len(hist)>>
Emit == PrintT(ToJson([type |-> Type, nt |-> NT, no |-> NO, nb |-> NB, ns |-> NS, shape |-> Shape, steps |-> hist']))
\* complete executions only (the replayer compares after every step, so the prefixes are covered by them)
EmitFinal == IF \A t \in T : phase'[t] = "done"
             THEN PrintT(ToJson([type |-> Type, nt |-> NT, no |-> NO, nb |-> NB, ns |-> NS, shape |-> Shape, steps |-> hist']))
             ELSE TRUE
===============================================================================
