--------------------------- MODULE MC_ByteStringBig ---------------------------
(* C03 - the state machine of ByteString.tla driven through *large single jumps*: one call that asks a String whose
   buffer is at or beyond the 1 KiB growth-policy switch of resize() for much more (or much less) than it holds.

   A history has three phases (by position):
     setup   the first call gives the variable a long value (lengths BigLens: the buffers with the NUL are just below,
             at and beyond 1024 / 2048 / 4096 bytes);
     settle  calls that change how value and buffer relate without a large request: self-assignment (nothing), one
             more byte (the buffer doubles), clear / resize down / fix (short value in a large buffer), reserve;
     jump    the last JumpOps calls: append of a run / of a literal / of the string itself or a piece of itself,
             resize, assignment of a long value - to lengths just beyond the largest size so far (hw) and on both sides
             of 1.5x, 2x, 3x, 4x and at 6x of it (2x of the buffer is where the growth policy changes from doubling to
             "exactly the request"; the buffer is hw+1 after an exact fit and 2hw+2 after a doubling).
   Storage is still not part of the model: the expected values are those of the ByteString actions; what the jumps are
   aimed at only decides which histories TLC enumerates.  Every transition is emitted (Emit) and replayed on the real
   String under ASan with cap() > length() == strlen() checked after every call (harness/c03_replay.cpp).          *)
EXTENDS ByteString

CONSTANTS BigLens,    \* lengths of the first value
          Shrinks,    \* lengths tried by the settle phase's resize down
          Deltas,     \* offsets tried around every multiple of hw
          LitJumps,   \* how many of the literal-carrying jump shapes are used (0..3); they make the emitted histories long
          JumpOps     \* number of jump calls at the end of a history

DeltasA == (0 - 2)..2
DeltasB == (0 - 1)..1
\* lengths one call asks for, given the largest size h reached so far
Targets(h) == {h + 1, 6 * h} \cup {(k * h) \div 2 + d : k \in {3, 4, 6, 8}, d \in Deltas}
Round(h) == {h + 1, 6 * h} \cup {(k * h) \div 2 : k \in {3, 4, 6, 8}}
\* increments of the literal-carrying appends: 0.5x, 1x, 2x of the largest size
LitIncs(h) == {h \div 2 + 1, h + 2, 2 * h + 3}
Pick(S, k) == {m \in S : Cardinality({q \in S : q <= m}) <= k}          \* the k smallest

Phase == IF Len(hist) = 0 THEN "setup" ELSE IF Len(hist) < MaxOps - JumpOps THEN "settle" ELSE "jump"

Setup(x) == /\ hw[x] = 0 /\ Phase # "jump" /\ (x = 1 \/ hw[1] > 0)
            /\ \E n \in BigLens : AssignBytes(x, Lit(n, IF x = 1 THEN 0 ELSE 1))
Settle(x) == /\ hw[x] > 0 /\ Phase = "settle"
             /\ \/ AssignVar(x, x)
                \/ AppendChar(x, 122)
                \/ Clear(x)
                \/ \E n \in Shrinks : n < N(x) /\ Resize(x, n, 113)
                \/ FixAt(x, N(x) \div 2)
                \/ Reserve(x, 2 * hw[x])
                \/ AppendInt(x, 0 - 2147483647)
JumpRun(x) == \E n \in Targets(hw[x]) : \/ n > N(x) /\ AppendRepeat(x, 115, n - N(x))
                                        \/ Resize(x, n, 116)
JumpAssign(x) == \E n \in Round(hw[x]) : AssignRepeat(x, 117, n)
JumpSelf(x) == \/ \E y \in Vars : N(y) > 0 /\ (AppendVar(x, y) \/ AssignVar(x, y))
               \/ \E k \in KSet(x) : AppendPiece(x, k)
               \/ \E y, z \in Vars : N(y) > 0 /\ N(z) > 0 /\ AssignConcat(x, y, z)
JumpLit(x) == \E m \in Pick(LitIncs(hw[x]), LitJumps) :
                 \/ AppendBytes(x, Lit(m, 1))
                 \/ AppendN(x, Lit(m + 9, 1), m)
                 \/ AssignBytes(x, Lit(N(x) + m, 1))
                 \/ AssignN(x, Lit(N(x) + m + 9, 1), N(x) + m)
Jump(x) == /\ hw[x] > 0 /\ Phase = "jump"
           /\ (JumpRun(x) \/ JumpAssign(x) \/ JumpSelf(x) \/ JumpLit(x))

NextBig == /\ Len(hist) < MaxOps
           /\ \E x \in Vars : Setup(x) \/ Settle(x) \/ Jump(x)
SpecBig == Init /\ [][NextBig]_vars

\* bookkeeping of the ghost.  (TLC's coverage sees NextBig as a single action; that every call kind ends some history
\* and that single calls do grow strings of >= 1 KiB by more than 1.5x / 2x / 3x is measured on the emitted cases by
\* checks/C03.py, which fails the run otherwise.)
HwMono == [][\A x \in Vars : hw'[x] >= hw[x]]_vars
===============================================================================
