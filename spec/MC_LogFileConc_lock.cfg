SPECIFICATION Spec
CONSTANTS
 NT = 3
 K = 2
 G = 2
 UseLock = TRUE
INVARIANTS PerThreadOrder RotationRule NoLoss MutualExclusion
PROPERTIES AllWritten
CHECK_DEADLOCK FALSE
