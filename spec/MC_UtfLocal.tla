------------------------------ MODULE MC_UtfLocal ------------------------------
(* C08 growth: every byte string up to MaxLen over an alphabet made of the bytes of "A", U+00E9 (C3 A9), U+20AC
   (E2 82 AC), U+1F600 (F0 9F 98 80), a surrogate lead (ED A0) and FF, as local text for String::fromLocal and as
   String for toLocal(), in both modelled locales (UtfLocal.tla).  One state per string.  Emit prints, per locale,
   whether the value is defined and what it is.                                                                   *)
EXTENDS UtfLocal, TLC, Json
CONSTANTS Alpha, MaxLen
VARIABLES s
Init == s = <<>>
Next == Len(s) < MaxLen /\ \E b \in Alpha : s' = Append(s, b)
Spec == Init /\ [][Next]_s
LawsOK == \A loc \in Locales : LocalLaws(loc, s)
ASSUME 0 \notin Alpha
Emit == PrintT(ToJson([k |-> "local", z |-> s',
                       r |-> [loc \in Locales |-> [f |-> FromLocal(loc, s'), t |-> ToLocal(loc, s')]]]))
===============================================================================
