---------------------------- MODULE MC_HttpRedirect ----------------------------
(* C10 (growth) - the sites and calls explored for HttpRedirect.tla.
   GraphSites(n): every site of n nodes whose nodes are final answers (200/404), followed redirections with every code
   to every node (all loops and self-loops), a 304 that carries a Location (must not be followed), a relative and a
   missing Location.  Lines: chains of 0..5 redirections with a code per hop, ending in a final answer, a loop back to
   any earlier node, a relative or a missing Location; every second hop carries a query in the Location.
   Calls: GET with redirections on and off, POST with a body (off on every site; on where every hop is 307/308, the codes
   for which RFC 7231 fixes method and body - POST through 301/302 is validated in the V direction).              *)
EXTENDS HttpRedirect

CONSTANT Thorough      \* (TLC evaluates every constant definition at start-up: the large sets are guarded by this flag)

RCodes == {301, 302, 307, 308}
Specials(n) == {Nd(304, 1, "abs", FALSE), Nd(302, 1, "rel", FALSE), Nd(301, 0, "none", FALSE)}
NodeChoices(n, rc) == {Final(200), Final(404)} \cup {Nd(c, t, "abs", FALSE) : c \in rc, t \in 1..n} \cup Specials(n)
GraphSites(n, rc) == [1..n -> NodeChoices(n, rc)]

Line(cs, endn) == [i \in 1..(Len(cs) + 1) |-> IF i <= Len(cs) THEN Nd(cs[i], i + 1, "abs", i % 2 = 0) ELSE endn]
Ends(L) == {Final(200), Final(404), Nd(302, 1, "rel", FALSE), Nd(307, 0, "none", FALSE)}
           \cup {Nd(c, j, "abs", FALSE) : c \in {302, 308}, j \in 1..(L + 1)}
Rot == <<301, 302, 307, 308, 301, 302>>
PatCodes(L) == {[i \in 1..L |-> c] : c \in RCodes} \cup {[i \in 1..L |-> Rot[i]], [i \in 1..L |-> Rot[i + 1]]}
AllCodes(L) == [1..L -> RCodes]
LinesQ == UNION {{Line(cs, e) : cs \in PatCodes(L), e \in Ends(L)} : L \in 0..5}
LinesT == IF ~Thorough THEN {} ELSE UNION {{Line(cs, e) : cs \in AllCodes(L), e \in Ends(L)} : L \in 0..5}

SitesQuick == GraphSites(1, RCodes) \cup GraphSites(2, {302, 307}) \cup LinesQ
SitesThorough == IF ~Thorough THEN {} ELSE GraphSites(1, RCodes) \cup GraphSites(2, RCodes) \cup GraphSites(3, {301, 308}) \cup LinesT

C(m, f, n) == [method |-> m, follow |-> f, blen |-> n]
CallsQuick == {C("GET", TRUE, 0), C("GET", FALSE, 0), C("POST", TRUE, 33), C("POST", FALSE, 33)}
CallsThorough == CallsQuick \cup {C("POST", TRUE, 200000), C("PUT", TRUE, 16001)}
\* a call whose behaviour the specification determines completely
Deterministic(s, c) == (c.method = "POST" /\ c.follow) => \A i \in 1..Len(s) : s[i].code \notin {301, 302}
=============================================================================
