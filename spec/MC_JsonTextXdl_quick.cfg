SPECIFICATION Spec
CONSTANTS
 MaxDepth = 2
 MaxItems = 2
 MaxLen = 12
 MaxVar = 1
VIEW View
ACTION_CONSTRAINT Emit
INVARIANTS TypeOK JsonSubset
CHECK_DEADLOCK FALSE
