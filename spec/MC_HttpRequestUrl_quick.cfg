SPECIFICATION Spec
CONSTANTS
 MaxUrl = 4
 MaxDec = 5
 MaxPq = 5
ACTION_CONSTRAINT Emit
INVARIANTS DecodeLaws UrlLaws QueryLaws
CHECK_DEADLOCK FALSE
