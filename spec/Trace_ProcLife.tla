---------------------------- MODULE Trace_ProcLife ----------------------------
(* V binding for X01 / Process: validates executions recorded from a real asl::Process (harness/x01_proc_record.cpp)
   against the actions of ProcLife.  Every event is one call of the public API (or a user descriptor operation / a
   harness observation) with the result the implementation returned; the trace is accepted iff every line is the
   corresponding ProcLife step with exactly that result.  Descriptor numbers are logged relative to the first free
   number at reset; "nfd" = descriptors open beyond those open at reset.                                          *)
EXTENDS ProcLife, Json, IOUtils

T == ndJsonDeserialize(IOEnv.TRACE)
VARIABLE l
tvars == <<vars, l>>

TInit == Init /\ l = 1

B(x) == x = 1

TStep ==
  /\ l <= Len(T)
  /\ l' = l + 1
  /\ nops' = nops
  /\ LET e == T[l] IN
     \/ /\ e.e = "reset"
        /\ obj' = "none" /\ cst' = "norun" /\ how' = NoHow /\ ended' = FALSE /\ seen' = "no"
        /\ out' = <<>> /\ err' = <<>> /\ lossy' = FALSE
        /\ fdt' = [n \in Fds |-> "free"] /\ slots' = <<>> /\ sopen' = {} /\ uopen' = {}
        /\ wrote' = <<>> /\ got' = <<>> /\ det' = FALSE /\ envm' = [v \in EnvNames |-> <<>>]
     \/ /\ e.e = "new" /\ New(B(e.ready))
     \/ /\ e.e = "run" /\ e.m = "echo" /\ Run([m |-> "echo"])
     \/ /\ e.e = "run" /\ e.m = "exit" /\ Run([m |-> "exit", code |-> e.code])
     \/ /\ e.e = "run" /\ e.m = "noexec" /\ Run([m |-> "noexec"])
     \/ /\ e.e = "write" /\ e.k \in {"E", "R"} /\ Write([k |-> e.k, p |-> e.p], e.ret)
     \/ /\ e.e = "write" /\ e.k = "S" /\ Write([k |-> "S", n |-> e.n, p |-> e.p], e.ret)
     \/ /\ e.e = "write" /\ e.k = "X" /\ Write([k |-> "X", code |-> e.code, p |-> e.p], e.ret)
     \/ /\ e.e = "rdout" /\ RdOut(e.n, e.r)
     \/ /\ e.e = "rderr" /\ RdErr(e.n, e.r)
     \/ /\ e.e = "rdline" /\ RdLine(e.r)
     \/ /\ e.e = "avail" /\ Avail(e.r)
     \/ /\ e.e = "eavail" /\ EAvail(e.r)
     \/ /\ e.e = "detach" /\ Detach
     \/ /\ e.e = "sync" /\ Sync
     \/ /\ e.e = "fin" /\ Fin(B(e.r))
     \/ /\ e.e = "running" /\ Fin(~B(e.r))
     \/ /\ e.e = "wait" /\ Wait(e.r)
     \/ /\ e.e = "status" /\ Status(e.r)
     \/ /\ e.e = "started" /\ Started(B(e.r))
     \/ /\ e.e = "success" /\ Success(B(e.r))
     \/ /\ e.e = "kill" /\ Kill(e.sig)
     \/ /\ e.e = "del" /\ Del
     \/ /\ e.e = "uopen" /\ e.fd \in Fds /\ UOpen(e.fd)
     \/ /\ e.e = "uclose" /\ UClose(e.fd)
     \/ /\ e.e = "ucheck" /\ UCheck(B(e.ok))
     \/ /\ e.e = "nfd" /\ NFd(e.n)
     \/ /\ e.e = "ofin" /\ OtherFin
     \/ /\ e.e = "exec" /\ e.m = "args" /\ ExecArgs(e.args, e.out, e.err, e.status, B(e.ok), B(e.st))
     \/ /\ e.e = "exec" /\ e.m = "spew"
        /\ ExecSpew(e.nout, e.nerr, e.code, e.olen, e.obad, e.elen, e.ebad, e.status, B(e.ok), B(e.st))
     \/ /\ e.e = "setenv" /\ SetEnv(e.k, e.v)
     \/ /\ e.e = "getenv" /\ GetEnv(e.k, e.r)
     \/ /\ e.e = "exec" /\ e.m = "env" /\ ExecEnv(e.k, e.out, e.status)
     \/ /\ e.e = "exec" /\ e.m = "missing" /\ ExecMissing(e.out, B(e.ok), B(e.st))

TraceSpec == TInit /\ [][TStep]_tvars
TraceAccepted == TLCGet("stats").diameter - 1 = Len(T)
===============================================================================
