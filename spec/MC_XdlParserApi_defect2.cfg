SPECIFICATION ASpec
CONSTANTS
 MaxCalls = 3
 ResetClearsAll = FALSE
 QKeySlashIsComment = FALSE
INVARIANTS ApiValue
CHECK_DEADLOCK FALSE
