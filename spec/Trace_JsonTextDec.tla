-------------------------- MODULE Trace_JsonTextDec --------------------------
(* V binding for C06: decodes of the real Json::decode / XdlParser recorded by harness/c06_record (grammar-generated
   JSON and XDL documents, their truncations, deletions, duplications, splices and byte flips, and raw random bytes)
   are classified by the strict recognizer of JsonText, one ndjson line per decoded text:

      e = "dec", t = the bytes, ok = 1 when the result was a value, v = projection of the result,
      n = number of ways the text was fed to the incremental parser, diff = results that differed from the whole-text
      result (must be empty), full = (truncations only) the document the text was cut from

   A line is accepted iff
      (a) all chunkings agreed with feeding the text whole                                   [chunk independence]
      (b) if the text is an RFC 8259 document inside the property's domain: it was accepted and the value is the
          recognizer's (strings byte for byte; ints exactly; doubles: the IEEE pattern TLC computes for small dyadic
          tokens, otherwise the decoded pattern must lie within half an ulp of the token - bignum test)   [conformance]
      (c) if the text is a prefix of a valid document with an array/object/string at the top level that stops before
          the final closing character: it was rejected                                        [prefix rule]
   Nothing is demanded of the result for any other text (totality and memory safety are observed while recording). *)
EXTENDS JsonText, Json, IOUtils

T == ndJsonDeserialize(IOEnv.TRACE)
VARIABLE l

Valid(r) == r.ok /\ ~r.ex /\ ~DupKeys(r.v)
DecOK(e) ==
    LET r == Doc(e.t) IN
    /\ e.diff = <<>>
    /\ Valid(r) => (e.ok = 1 /\ ValMatches(r.v, e.v, TRUE))
    /\ ("full" \in DOMAIN e) =>
          LET f == Doc(e.full) IN
          (Valid(f) /\ Kind(f.v) \in {"a", "o", "s"} /\ Len(e.t) <= f.p - 2 /\ IsPrefix(e.t, e.full)) => e.ok = 0

TInit == l = 1
TStep == /\ l <= Len(T)
         /\ l' = l + 1
         /\ LET e == T[l] IN
            \/ e.e = "reset"
            \/ e.e = "dec" /\ DecOK(e)
TraceSpec == TInit /\ [][TStep]_l
TraceAccepted == TLCGet("stats").diameter - 1 = Len(T)
===============================================================================
