SPECIFICATION Spec
CONSTANTS
 YLo <- NegLoQuick
 YHi = 0
 ChunkYears = 50
 Dense = FALSE
VIEW View
ACTION_CONSTRAINT Emit
INVARIANTS Agree YearLength
CHECK_DEADLOCK FALSE
