SPECIFICATION Spec
CONSTANTS
 Files = {1,2}
 Cats = {1}
 Decor = {1}
 Via = {0,2}
 Levels = {0,4}
 MaxLevels = {4}
 MsgLens = {8,1000001}
 DateLen = 19
 RotLo = 1000000
 RotHi = 1000000
 MaxOps = 4
 ViewOps = 1
 KeepHist = TRUE
VIEW View
ACTION_CONSTRAINT Emit
INVARIANTS TypeOK OrderInv SuffixInv SizeInv
PROPERTIES FilterProp WrittenProp
CHECK_DEADLOCK FALSE
