SPECIFICATION FairSpec
CONSTANT NW = 3
INVARIANTS RunsOnce JoinAfterRun FinishedAfterJoin
PROPERTY Terminates
ACTION_CONSTRAINT Emit
CHECK_DEADLOCK FALSE
