SPECIFICATION TraceSpec
CONSTANTS
 Sites = {}
 Calls = {}
 CallOK <- AnyCall
POSTCONDITION TraceAccepted
CHECK_DEADLOCK FALSE
