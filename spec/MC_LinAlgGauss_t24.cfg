SPECIFICATION Spec
CONSTANTS
 P = 2
 N = 4
 NRhs = 2
INVARIANTS Solves AgreesAdjugate FormulationsAgree RowEquivalent PermOK PivotExists Triangular
CHECK_DEADLOCK FALSE
