--------------------------- MODULE Trace_HttpRedirect ---------------------------
(* V binding for HttpRedirect.tla: recorded calls of Http::request against random redirect sites, many calls in flight
   at once (each call is logged as one block when it returns).
   call    : the application calls request() on a site (site, method, followRedirects, body length and hash; ms = the wall
             time of the whole call: after a slow call - see Slow below - its visits, hops and result are not constrained)  -> StartWith
   visit   : the handler of a node observed a request (node, method, body length and hash, whether a query arrived) -> Request
   hop     : between two visits the client must have decided to follow (logged by the recorder before every visit but
             the first, with the method of the next request)                                                      -> RedirectTo
   result  : what the call returned (status, which node's body, the Location it carries)           -> Deliver / GiveUp / Lost
   The actions are those of HttpRedirect.tla: a visit the specification does not allow (a fifth request, a request after a
   relative Location, a changed method after 307/308, a dropped body), or a result that is not the last node's answer,
   ends the behaviour before the end of the trace.  POST through 301/302 may continue as POST or GET.             *)
EXTENDS HttpRedirect, IOUtils

T == ndJsonDeserialize(IOEnv.TRACE)
VARIABLES l, bh, slow
tvars == <<vars, l, bh, slow>>

TInit == Init /\ l = 1 /\ bh = <<>> /\ slow = FALSE

(* Wall time.  Every exchange-type event carries ms, the wall milliseconds the exchange took on the recording machine.  The
   library ends exchanges by itself after fixed times (HttpServer drops a connection 10 s after accepting it and waits 5 s
   for data; HttpMessage::readBody hands over a truncated body after 10 s without input): design decisions of asl that this
   property does not forbid and that fire on an overloaded machine.  An event with ms >= SlowMs (far above a normal exchange
   of a few ms, well below those limits) is therefore consumed without constraining what was observed; everything else is
   checked exactly as before.  checks/C10.py bounds the number of slow events per recording (a server that does not answer
   is still reported).                                                                                                    *)
SlowMs == 4000
Slow(e) == "ms" \in DOMAIN e /\ e.ms >= SlowMs

NodeOf(n) == [code |-> n.code, to |-> n.to, form |-> n.form, q |-> n.q]
SiteOf(e) == [i \in 1..Len(e.site) |-> NodeOf(e.site[i])]
CallOf(e) == [method |-> e.call.method, follow |-> e.call.follow, blen |-> e.call.blen]

Step ==
  /\ l <= Len(T) /\ l' = l + 1
  /\ LET e == T[l] IN
     \/ /\ e.e = "call"
        /\ site' = SiteOf(e) /\ call' = CallOf(e) /\ at' = 1 /\ meth' = e.call.method /\ nreq' = 0 /\ pending' = FALSE
        /\ visits' = <<>> /\ out' = NoOut /\ bh' = e.bh /\ slow' = Slow(e)
     \/ /\ e.e \in {"visit", "hop", "result"} /\ slow /\ UNCHANGED <<vars, bh, slow>>
     \/ /\ e.e = "visit" /\ ~slow /\ Request
        /\ visits'[Len(visits')] = [node |-> e.node, method |-> e.method, blen |-> e.blen, q |-> e.q]
        /\ ~e.qbad
        /\ (e.blen > 0 => e.bh = bh)
        /\ UNCHANGED <<bh, slow>>
     \/ /\ e.e = "hop" /\ ~slow /\ RedirectTo(e.method) /\ UNCHANGED <<bh, slow>>
     \/ /\ e.e = "result" /\ ~slow /\ (Deliver \/ GiveUp \/ Lost)
        /\ IF out'.any THEN TRUE
           ELSE IF out'.gaveup THEN e.code = 421
           ELSE /\ e.code = out'.code /\ e.node = out'.node
                /\ LET n == site[out'.node] IN
                   e.loc.form = n.form /\ (n.form # "none" => (e.loc.to = n.to /\ e.loc.q = n.q))
        /\ UNCHANGED <<bh, slow>>

TraceSpec == TInit /\ [][Step]_tvars
TraceAccepted == TLCGet("stats").diameter - 1 = Len(T)
AnyCall(s, c) == TRUE
=============================================================================
