SPECIFICATION Spec
CONSTANTS
 Names = {"Dog", "Kitty", "Bird", "Fish", "Emu", "Nope"}
 Classes = {"Dog", "Cat", "Bird"}
 AddNames = {"Bird", "Fish", "Emu"}
 MaxOps = 4
 KeepHist = TRUE
VIEW View
ACTION_CONSTRAINT Emit
INVARIANTS TypeOK StaticStay InfoOnlyRegistered
PROPERTIES Monotone
CHECK_DEADLOCK FALSE
