------------------------------ MODULE HttpRequest ------------------------------
(* C09 - HTTP request reading as a function on byte streams (property level).

   Texts are sequences of byte codes 0..255.  This module holds the reference semantics only (no variables):

     PctDecode        RFC 3986 percent-decoding
     RemoveDD         "delete every '..' scanning left to right" (the request path normalisation the property talks
                      about), with a second, independent formulation RemoveDDRuns (per maximal run of dots)
     SplitTarget      path / query / fragment of a request target ('#' first, '?' only before it)
     NormPath         decoded, '..'-free path of a target  -- NoDotDot(NormPath(t)) is the security property
     ParseQuery       application/x-www-form-urlencoded pairs
     Wire             generator: request descriptor -> bytes on the connection
     ParseStream      recognizer: bytes -> the complete well-formed requests they start with (and where each ends)
     UrlParse         scheme://host:port/path splitting of URL strings

   The generator and the recognizer are checked against each other by TLC (HttpRequestStreams.tla), the two
   '..'-removal formulations likewise (HttpRequestTargets.tla).  Bindings: R = HttpRequestTargets / HttpRequestStreams /
   HttpRequestUrl emit cases for harness/c09_replay.cpp; V = Trace_HttpRequest validates what harness/c09_record.cpp
   observed on random mutated streams.                                                                           *)
EXTENDS Naturals, Integers, Sequences, FiniteSets, TLC

SP == 32  CR == 13  LF == 10  HT == 9
DOT == 46  SLASH == 47  PCT == 37  QM == 63  HASH == 35  COLON == 58  EQ == 61  AMP == 38  PLUS == 43
CRLF == <<13, 10>>

IsDigit(c) == c \in 48..57
IsHex(c)   == c \in 48..57 \/ c \in 65..70 \/ c \in 97..102
HexVal(c)  == IF c \in 48..57 THEN c - 48 ELSE IF c \in 65..70 THEN c - 55 ELSE c - 87
IsUpper(c) == c \in 65..90
IsLower(c) == c \in 97..122
ToLower(c) == IF IsUpper(c) THEN c + 32 ELSE c
ToUpper(c) == IF IsLower(c) THEN c - 32 ELSE c
LowerSeq(s) == [i \in 1..Len(s) |-> ToLower(s[i])]
UpperSeq(s) == [i \in 1..Len(s) |-> ToUpper(s[i])]
IsWs(c) == c \in {32, 9}
\* header field names: RFC 7230 token characters
IsTokenChar(c) == c \in 48..57 \/ c \in 65..90 \/ c \in 97..122 \/ c \in {33, 35, 36, 37, 38, 39, 42, 43, 45, 46, 94, 95, 96, 124, 126}

\* 1-based index of the first c in s at or after position i; 0 if none
RECURSIVE IndexFrom(_, _, _)
IndexFrom(s, c, i) == IF i > Len(s) THEN 0 ELSE IF s[i] = c THEN i ELSE IndexFrom(s, c, i + 1)
IndexOf(s, c) == IndexFrom(s, c, 1)

StartsWithAt(s, p, w) == p + Len(w) - 1 <= Len(s) /\ SubSeq(s, p, p + Len(w) - 1) = w

\* strip leading / trailing blanks
RECURSIVE LTrim(_), RTrim(_)
LTrim(s) == IF s # <<>> /\ IsWs(s[1]) THEN LTrim(Tail(s)) ELSE s
RTrim(s) == IF s # <<>> /\ IsWs(s[Len(s)]) THEN RTrim(SubSeq(s, 1, Len(s) - 1)) ELSE s
Trim(s) == RTrim(LTrim(s))

--------------------------------------------------------------------------------
(* percent-decoding.  A '%' that is not followed by two hex digits is outside the decided class (PctStrict): the
   reference keeps it literally, implementations may do otherwise (the property only demands totality there). *)
RECURSIVE PctDec(_, _, _)
PctDec(s, i, acc) ==
    IF i > Len(s) THEN acc
    ELSE IF s[i] = PCT /\ i + 2 <= Len(s) /\ IsHex(s[i+1]) /\ IsHex(s[i+2])
         THEN PctDec(s, i + 3, Append(acc, 16 * HexVal(s[i+1]) + HexVal(s[i+2])))
         ELSE PctDec(s, i + 1, Append(acc, s[i]))
PctDecode(s) == PctDec(s, 1, <<>>)
PctStrict(s) == \A i \in 1..Len(s) : s[i] = PCT => (i + 2 <= Len(s) /\ IsHex(s[i+1]) /\ IsHex(s[i+2]))

HasDD(s) == \E i \in 1..(Len(s) - 1) : s[i] = DOT /\ s[i+1] = DOT
HasNul(s) == \E i \in 1..Len(s) : s[i] = 0

\* formulation 1: scan left to right, drop each ".." met
RECURSIVE RemDD(_, _, _)
RemDD(s, i, acc) ==
    IF i > Len(s) THEN acc
    ELSE IF i < Len(s) /\ s[i] = DOT /\ s[i+1] = DOT THEN RemDD(s, i + 2, acc)
    ELSE RemDD(s, i + 1, Append(acc, s[i]))
RemoveDD(s) == RemDD(s, 1, <<>>)

\* formulation 2: a maximal run of n dots keeps n mod 2 dots
RECURSIVE RunLen(_, _)
RunLen(s, i) == IF i <= Len(s) /\ s[i] = DOT THEN 1 + RunLen(s, i + 1) ELSE 0
RECURSIVE RemRuns(_, _, _)
RemRuns(s, i, acc) ==
    IF i > Len(s) THEN acc
    ELSE IF s[i] = DOT
         THEN LET n == RunLen(s, i) IN RemRuns(s, i + n, IF n % 2 = 1 THEN Append(acc, DOT) ELSE acc)
         ELSE RemRuns(s, i + 1, Append(acc, s[i]))
RemoveDDRuns(s) == RemRuns(s, 1, <<>>)

\* request target -> raw path, query string, fragment
SplitTarget(t) ==
    LET h  == IndexOf(t, HASH)
        bf == IF h = 0 THEN t ELSE SubSeq(t, 1, h - 1)
        q  == IndexOf(bf, QM)
    IN [path  |-> IF q = 0 THEN bf ELSE SubSeq(bf, 1, q - 1),
        query |-> IF q = 0 THEN <<>> ELSE SubSeq(bf, q + 1, Len(bf)),
        frag  |-> IF h = 0 THEN <<>> ELSE SubSeq(t, h + 1, Len(t))]

NormPath(t) == RemoveDD(PctDecode(SplitTarget(t).path))
\* the target lies in the class where the decoded path is fully determined by the property's wording
TargetStrict(t) == t # <<>> /\ t[1] = SLASH /\ PctStrict(SplitTarget(t).path) /\ ~HasNul(PctDecode(SplitTarget(t).path))

\* split s at every c
RECURSIVE SplitAt(_, _, _, _)
SplitAt(s, c, i, cur) ==
    IF i > Len(s) THEN <<cur>>
    ELSE IF s[i] = c THEN <<cur>> \o SplitAt(s, c, i + 1, <<>>)
    ELSE SplitAt(s, c, i + 1, Append(cur, s[i]))
Split(s, c) == SplitAt(s, c, 1, <<>>)

PlusToSpace(s) == [i \in 1..Len(s) |-> IF s[i] = PLUS THEN SP ELSE s[i]]
QueryPairs(q) ==
    LET ps == Split(q, AMP) IN
    [i \in 1..Len(ps) |-> LET e == IndexOf(ps[i], EQ) IN
                          [k |-> PctDecode(PlusToSpace(SubSeq(ps[i], 1, e - 1))),
                           v |-> PctDecode(PlusToSpace(SubSeq(ps[i], e + 1, Len(ps[i]))))]]
\* decided class: every piece is key=value with a non-empty key, escapes valid, decoded keys distinct, no NUL
QueryStrict(q) ==
    q # <<>> /\ PctStrict(q) /\
    LET ps == Split(q, AMP) IN
    /\ \A i \in 1..Len(ps) : IndexOf(ps[i], EQ) > 1
    /\ LET kv == QueryPairs(q) IN
       /\ \A i, j \in 1..Len(kv) : i # j => kv[i].k # kv[j].k
       /\ \A i \in 1..Len(kv) : ~HasNul(kv[i].k) /\ ~HasNul(kv[i].v)
ParseQuery(q) == IF q = <<>> THEN <<>> ELSE QueryPairs(q)

--------------------------------------------------------------------------------
(* generator: request descriptor -> wire bytes.
   r = [m: method, t: target, v: minor HTTP version digit, hs: sequence of [n: name, v: value, sep: bytes between ':' and
        the value, fold: <<>> or a second line (sent as CRLF SP fold)], fr: "none" | "cl" | "ch", body: bytes,
        cs: chunk sizes (fr = "ch"; they sum to Len(body)), eol: CRLF or <<LF>>,
        junk: raw lines sent after the header lines (lines that are no header lines make the request malformed)]    *)
RECURSIVE DecDigits(_)
DecDigits(n) == IF n < 10 THEN <<48 + n>> ELSE Append(DecDigits(n \div 10), 48 + (n % 10))
HexDigit(d) == IF d < 10 THEN 48 + d ELSE 87 + d
RECURSIVE HexDigits(_)
HexDigits(n) == IF n < 16 THEN <<HexDigit(n)>> ELSE Append(HexDigits(n \div 16), HexDigit(n % 16))

HTTP1 == <<72, 84, 84, 80, 47, 49, 46>>                                    \* "HTTP/1."
HContentLength == <<67,111,110,116,101,110,116,45,76,101,110,103,116,104>>  \* "Content-Length"
HTransferEncoding == <<84,114,97,110,115,102,101,114,45,69,110,99,111,100,105,110,103>> \* "Transfer-Encoding"
HConnection == <<67,111,110,110,101,99,116,105,111,110>>                   \* "Connection"
VChunked == <<99,104,117,110,107,101,100>>                                 \* "chunked"
VClose == <<99,108,111,115,101>>                                           \* "close"
VKeepAlive == <<107,101,101,112,45,97,108,105,118,101>>                    \* "keep-alive"

RECURSIVE Flatten(_)
Flatten(ss) == IF ss = <<>> THEN <<>> ELSE Head(ss) \o Flatten(Tail(ss))

HeaderLine(h, eol) == h.n \o <<COLON>> \o h.sep \o h.v \o (IF h.fold = <<>> THEN <<>> ELSE eol \o <<SP>> \o h.fold) \o eol
RECURSIVE ChunkWire(_, _, _)
ChunkWire(body, cs, eol) ==
    IF cs = <<>> THEN <<48>> \o eol \o eol
    ELSE HexDigits(Head(cs)) \o eol \o SubSeq(body, 1, Head(cs)) \o eol \o ChunkWire(SubSeq(body, Head(cs) + 1, Len(body)), Tail(cs), eol)
FramingHeaders(r) ==
    IF r.fr = "cl" THEN <<[n |-> HContentLength, v |-> DecDigits(Len(r.body)), sep |-> <<SP>>, fold |-> <<>>]>>
    ELSE IF r.fr = "ch" THEN <<[n |-> HTransferEncoding, v |-> VChunked, sep |-> <<SP>>, fold |-> <<>>]>>
    ELSE <<>>
AllHeaders(r) == r.hs \o FramingHeaders(r)
Wire(r) ==
    r.m \o <<SP>> \o r.t \o <<SP>> \o HTTP1 \o <<48 + r.v>> \o r.eol
    \o Flatten([i \in 1..Len(AllHeaders(r)) |-> HeaderLine(AllHeaders(r)[i], r.eol)])
    \o Flatten([i \in 1..Len(r.junk) |-> r.junk[i] \o r.eol])
    \o r.eol
    \o (IF r.fr = "ch" THEN ChunkWire(r.body, r.cs, r.eol) ELSE IF r.fr = "cl" THEN r.body ELSE <<>>)

\* what the application must be handed for r (header names compared case-insensitively: lower-cased here)
\* a folded line continues the value; RFC 7230 3.2.4 lets a recipient join with one blank (v) - joining without is tolerated (alt)
HeaderValue(h) == IF h.fold = <<>> THEN Trim(h.v) ELSE Trim(h.v) \o <<SP>> \o Trim(h.fold)
HeaderAlt(h)   == IF h.fold = <<>> THEN Trim(h.v) ELSE Trim(h.v) \o Trim(h.fold)
Expect(r) == [m |-> r.m, t |-> r.t, v |-> r.v,
              hs |-> [i \in 1..Len(AllHeaders(r)) |-> [n |-> LowerSeq(AllHeaders(r)[i].n), v |-> HeaderValue(AllHeaders(r)[i]), alt |-> HeaderAlt(AllHeaders(r)[i])]],
              body |-> IF r.fr = "none" THEN <<>> ELSE r.body]

\* does the server keep reading requests on this connection after r?  (HTTP/1.1: unless "close"; HTTP/1.0: only with keep-alive)
HeaderOf(hs, lname) == IF \E i \in 1..Len(hs) : hs[i].n = lname
                       THEN hs[CHOOSE i \in 1..Len(hs) : hs[i].n = lname /\ \A j \in (i+1)..Len(hs) : hs[j].n # lname].v
                       ELSE <<>>
Persistent(x) == LET c == LowerSeq(HeaderOf(x.hs, LowerSeq(HConnection))) IN
                 IF x.v = 0 THEN c = VKeepAlive ELSE c # VClose

--------------------------------------------------------------------------------
(* recognizer: the strict grammar (CRLF line ends, no folding, token names, no duplicate names, Content-Length of up to 8
   digits or Transfer-Encoding: chunked).  ParseOne(s, p) = [st, x, p]:
      st = "ok"   a complete request x (as in Expect) ends just before position p
      st = "inc"  the bytes from p on are a proper prefix of a well-formed request (the peer closed early)
      st = "bad"  they are not
   ParseStream(s) = [reqs |-> sequence of [x, end], st |-> how the stream ends]:
      "end" exactly after the last request, "closed" after a request that ends the connection (the rest is never
      read), "inc" / "bad" as above for the bytes after the last complete request.                               *)
Res(st, x, p) == [st |-> st, x |-> x, p |-> p]
\* position of the CRLF ending the line that starts at p (0 if there is none)
RECURSIVE EolFrom(_, _)
EolFrom(s, p) == IF p + 1 > Len(s) THEN 0 ELSE IF s[p] = CR /\ s[p+1] = LF THEN p ELSE EolFrom(s, p + 1)

RECURSIVE DecValue(_, _)
DecValue(ds, acc) == IF ds = <<>> THEN acc ELSE DecValue(Tail(ds), 10 * acc + (Head(ds) - 48))
RECURSIVE HexValue(_, _)
HexValue(ds, acc) == IF ds = <<>> THEN acc ELSE HexValue(Tail(ds), 16 * acc + HexVal(Head(ds)))
AllDigits(s) == s # <<>> /\ Len(s) <= 8 /\ \A i \in 1..Len(s) : IsDigit(s[i])
AllHexDigits(s) == s # <<>> /\ Len(s) <= 6 /\ \A i \in 1..Len(s) : IsHex(s[i])

\* can the bytes from p to the end still become a line?  (no NUL, no bare LF, a CR only as the last byte)
PartialLineOK(s, p) == \A i \in p..Len(s) : s[i] # 0 /\ s[i] # LF /\ (s[i] = CR => i = Len(s))

RECURSIVE ParseHeaders(_, _, _)
\* returns [st, hs, p] with p after the blank line
ParseHeaders(s, p, acc) ==
    LET e == EolFrom(s, p) IN
    IF e = 0 THEN [st |-> IF PartialLineOK(s, p) THEN "inc" ELSE "bad", hs |-> <<>>, p |-> 0]
    ELSE IF e = p THEN [st |-> "ok", hs |-> acc, p |-> p + 2]
    ELSE LET line == SubSeq(s, p, e - 1)
             c == IndexOf(line, COLON)
         IN IF c <= 1 \/ IsWs(line[1]) \/ ~(\A i \in 1..(c-1) : IsTokenChar(line[i])) \/ \E i \in 1..Len(line) : line[i] \in {0, CR, LF}
            THEN [st |-> "bad", hs |-> <<>>, p |-> 0]
            ELSE LET v == Trim(SubSeq(line, c + 1, Len(line))) IN
                 ParseHeaders(s, e + 2, Append(acc, [n |-> LowerSeq(SubSeq(line, 1, c - 1)), v |-> v, alt |-> v]))

RECURSIVE ParseChunks(_, _, _)
\* returns [st, body, p]
ParseChunks(s, p, acc) ==
    LET e == EolFrom(s, p)
        bad == [st |-> "bad", body |-> <<>>, p |-> 0]
        inc == [st |-> "inc", body |-> <<>>, p |-> 0]
    IN
    IF e = 0 THEN (IF \A i \in p..Len(s) : IsHex(s[i]) \/ (i = Len(s) /\ s[i] = CR) THEN inc ELSE bad)
    ELSE IF ~AllHexDigits(SubSeq(s, p, e - 1)) THEN bad
    ELSE LET n == HexValue(SubSeq(s, p, e - 1), 0) IN
         IF n = 0 THEN (IF StartsWithAt(s, e + 2, CRLF) THEN [st |-> "ok", body |-> acc, p |-> e + 4]
                        ELSE IF e + 3 <= Len(s) \/ (e + 2 = Len(s) /\ s[e + 2] # CR) THEN bad ELSE inc)
         ELSE IF e + 2 + n + 1 > Len(s) THEN (IF e + 2 + n = Len(s) /\ s[Len(s)] # CR THEN bad ELSE inc)
         ELSE IF ~StartsWithAt(s, e + 2 + n, CRLF) THEN bad
         ELSE ParseChunks(s, e + 2 + n + 2, acc \o SubSeq(s, e + 2, e + 1 + n))

ParseOne(s, p) ==
    LET e == EolFrom(s, p) IN
    IF e = 0 THEN Res(IF PartialLineOK(s, p) THEN "inc" ELSE "bad", <<>>, 0) ELSE
    LET line == SubSeq(s, p, e - 1)
        i == IndexOf(line, SP)
        j == IF i = 0 THEN 0 ELSE IndexFrom(line, SP, i + 1)
    IN IF i <= 1 \/ j = 0 \/ j = i + 1 THEN Res("bad", <<>>, 0) ELSE
    LET m == SubSeq(line, 1, i - 1)
        t == SubSeq(line, i + 1, j - 1)
        pr == SubSeq(line, j + 1, Len(line))
    IN IF ~(Len(pr) = 8 /\ SubSeq(pr, 1, 7) = HTTP1 /\ pr[8] \in {48, 49}) \/ ~(\A q \in 1..Len(m) : IsTokenChar(m[q])) \/ t[1] # SLASH
          \/ \E q \in 1..Len(t) : t[q] <= 32 \/ t[q] >= 127
       THEN Res("bad", <<>>, 0) ELSE
    LET H == ParseHeaders(s, e + 2, <<>>) IN
    IF H.st # "ok" THEN Res(H.st, <<>>, 0)
    ELSE IF \E a, b \in 1..Len(H.hs) : a # b /\ H.hs[a].n = H.hs[b].n THEN Res("bad", <<>>, 0) ELSE
    LET cl == HeaderOf(H.hs, LowerSeq(HContentLength))
        te == HeaderOf(H.hs, LowerSeq(HTransferEncoding))
        hasCl == \E q \in 1..Len(H.hs) : H.hs[q].n = LowerSeq(HContentLength)
        hasTe == \E q \in 1..Len(H.hs) : H.hs[q].n = LowerSeq(HTransferEncoding)
        mk(body, q) == Res("ok", [m |-> m, t |-> t, v |-> pr[8] - 48, hs |-> H.hs, body |-> body], q)
    IN IF hasCl /\ hasTe THEN Res("bad", <<>>, 0)
       ELSE IF hasTe THEN (IF te # VChunked THEN Res("bad", <<>>, 0) ELSE
                           LET C == ParseChunks(s, H.p, <<>>) IN IF C.st = "ok" THEN mk(C.body, C.p) ELSE Res(C.st, <<>>, 0))
       ELSE IF hasCl THEN (IF ~AllDigits(cl) THEN Res("bad", <<>>, 0) ELSE
                           LET n == DecValue(cl, 0) IN
                           IF H.p + n - 1 > Len(s) THEN Res("inc", <<>>, 0) ELSE mk(SubSeq(s, H.p, H.p + n - 1), H.p + n))
       ELSE mk(<<>>, H.p)

RECURSIVE ParseFrom(_, _, _)
ParseFrom(s, p, acc) ==
    IF p > Len(s) THEN [reqs |-> acc, st |-> "end"]
    ELSE LET r == ParseOne(s, p) IN
         IF r.st # "ok" THEN [reqs |-> acc, st |-> r.st]
         ELSE LET acc2 == Append(acc, [x |-> r.x, end |-> r.p - 1]) IN
              IF Persistent(r.x) THEN ParseFrom(s, r.p, acc2) ELSE [reqs |-> acc2, st |-> "closed"]
ParseStream(s) == ParseFrom(s, 1, <<>>)

--------------------------------------------------------------------------------
(* URL strings: [scheme "://"] host [":" port] [path]; host may be a bracketed IPv6 literal. *)
SchemeSep == <<58, 47, 47>>
RECURSIVE FindSeq(_, _, _)
FindSeq(s, w, i) == IF i + Len(w) - 1 > Len(s) THEN 0 ELSE IF SubSeq(s, i, i + Len(w) - 1) = w THEN i ELSE FindSeq(s, w, i + 1)
UrlParse(u) ==
    LET i  == FindSeq(u, SchemeSep, 1)
        hs == IF i > 1 THEN i + 3 ELSE 1
        ps0 == IndexFrom(u, SLASH, hs)
        ps == IF ps0 = 0 THEN Len(u) + 1 ELSE ps0
        auth == SubSeq(u, hs, ps - 1)
        c  == IndexOf(auth, COLON)
    IN [scheme |-> IF i > 1 THEN SubSeq(u, 1, i - 1) ELSE <<>>,
        host |-> IF c = 0 THEN auth ELSE SubSeq(auth, 1, c - 1),
        port |-> IF c = 0 THEN <<>> ELSE SubSeq(auth, c + 1, Len(auth)),
        hasport |-> c # 0,
        path |-> IF ps > Len(u) THEN <<SLASH>> ELSE SubSeq(u, ps, Len(u))]
\* decided class: non-bracketed host without further ':' '/' ; port all digits (at most 5)
IsAlnum(c) == IsDigit(c) \/ IsUpper(c) \/ IsLower(c)
UrlStrict(u) ==
    LET i  == FindSeq(u, SchemeSep, 1)
        p  == UrlParse(u)
    IN /\ (i = 0 \/ (i > 1 /\ \A k \in 1..(i-1) : IsAlnum(u[k])))
       /\ p.host # <<>> /\ \A k \in 1..Len(p.host) : IsAlnum(p.host[k]) \/ p.host[k] \in {DOT, 45}
       /\ (p.hasport => (p.port # <<>> /\ Len(p.port) <= 5 /\ \A k \in 1..Len(p.port) : IsDigit(p.port[k])))
       /\ \A k \in 1..Len(u) : u[k] # 0
================================================================================
