SPECIFICATION Spec
CONSTANTS
 KindC = "raw"
 KindS = "lib"
 MaxOps = 6
 MaxMsgs = 2
 MaxCtl = 0
 LibLens = {126}
 RawLens = {126}
 Shapes = {"whole","pinged","begin"}
 CloseFrames = {}
 CtlPls = {}
 Observers = {"wait", "closed", "hasinput"}
VIEW View
ACTION_CONSTRAINT Emit
INVARIANTS TypeOK PrefixDelivery NoLoss PongsAnswerPings
PROPERTIES Monotone QuietAfterClose
CHECK_DEADLOCK FALSE
