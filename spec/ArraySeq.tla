------------------------------- MODULE ArraySeq -------------------------------
(* C01 - asl::Array / Stack / Queue as sequences behind shared handles.

   State: a handle is dead (0) or bound to a block; a block holds a sequence.  Copying a handle shares the
   block ("containers are shared by reference"); clone/dup/slice/... create a fresh block.  Capacity is
   deliberately absent: it is an implementation quantity the property does not mention (the replayer checks
   cap >= len and evaluates the GrowWhileShared hazard predicate on the real rc()/cap()).

   Every public call is one action.  hist records the calls (with the results the calls must return),
   hz collects spec-level hazard tags of the history (used to match known findings).
   The module is the oracle for both bindings:
     R  MC_ArraySeq*.cfg : ACTION_CONSTRAINT Emit prints one JSON line per transition -> harness/c01_replay
     V  Trace_ArraySeq   : recorded executions of the real code are validated against the same actions.

   Next is the core of the property (the calls listed in C01).  The section "remaining public surface" adds the
   rest of include/asl/Array.h (constructors, pointer-based append/copy incl. pointers INTO the same array,
   initializer lists, conversions, sort(Less)/sortBy, removeIf/removeOne variants, enumerators, comparison,
   join); NextExt / SpecExt explore those on top of a small set of core calls (MC_ArraySeqExt_*.cfg).  The
   sibling containers refine this module: ArrayFix.tla (Array_<T,N>) and Array2D.tla (Array2<T>).          *)
EXTENDS Naturals, Sequences, FiniteSets, TLC, Json, SequencesExt

CONSTANTS NH,        \* handles are 1..NH
          V,         \* element values (small naturals >= 1); 0 is the default-constructed value
          Sizes,     \* arguments tried for resize/reserve
          MaxLen,    \* appends/inserts are generated only below this length
          MaxOps,    \* bound on the history length
          KeepHist   \* TRUE: hist is the whole history (model checking / replay); FALSE: only the last call (trace validation)

VARIABLES hb, blk, hist, hz
vars == <<hb, blk, hist, hz>>

H      == 1..NH
Live   == {h \in H : hb[h] # 0}
Dead   == H \ Live
Used   == {hb[h] : h \in Live}
RC(b)  == Cardinality({h \in H : hb[h] = b})
Fresh  == CHOOSE b \in 1..(NH+1) : b \notin Used /\ \A c \in 1..(NH+1) : (c \notin Used) => b <= c
S(h)   == blk[hb[h]]
Val0   == V \cup {0}

-------------------------------------------------------------------------------
(* pure sequence operators - the reference semantics *)
SeqRemove(s, i, n) == SubSeq(s, 1, i) \o SubSeq(s, i + n + 1, Len(s))      \* 0-based i
SeqInsert(s, k, v) == SubSeq(s, 1, k) \o <<v>> \o SubSeq(s, k + 1, Len(s)) \* 0-based k
SeqResize(s, m)    == IF m <= Len(s) THEN SubSeq(s, 1, m) ELSE s \o [i \in 1..(m - Len(s)) |-> 0]
SeqReverse(s)      == [i \in 1..Len(s) |-> s[Len(s) + 1 - i]]
SeqFilterNe(s, v)  == SelectSeq(s, LAMBDA x : x # v)
SeqSorted(s)       == SortSeq(s, LAMBDA a, b : a < b)
Succ(v)            == IF v = 0 THEN 0 ELSE (v % Cardinality(V)) + 1          \* the function used for map()

\* indexOf result as a natural: 0 = not found, i+1 = found at 0-based i
IdxEnc(s, v, j) == IF \E i \in (j+1)..Len(s) : s[i] = v
                   THEN CHOOSE i \in (j+1)..Len(s) : s[i] = v /\ \A k \in (j+1)..(i-1) : s[k] # v
                   ELSE 0


(* --- reference semantics of the remaining surface --- *)
\* comparison.  == is element-wise equality.  operator< is NOT documented; the code returns true as soon as some
\* a[i] < b[i], even after an earlier a[j] > b[j] (so [1,2] < [2,1] and [2,1] < [1,2] both hold).  The specification
\* therefore fixes the result only where that definition and the lexicographic order agree and leaves the rest open:
\*   1 = must be true, 0 = must be false, 2 = unspecified (first differing element is greater)
FirstDiff(s, t) == LET n == IF Len(s) < Len(t) THEN Len(s) ELSE Len(t)
                       D == {i \in 1..n : s[i] # t[i]}
                   IN IF D = {} THEN 0 ELSE CHOOSE i \in D : \A k \in D : i <= k
Lt3(s, t) == LET d == FirstDiff(s, t) IN
             IF d = 0 THEN (IF Len(s) < Len(t) THEN 1 ELSE 0) ELSE IF s[d] < t[d] THEN 1 ELSE 2
EqEnc(s, t) == IF s = t THEN 1 ELSE 0

\* sort(Less) with "greater" and sortBy(key) with an injective, non-monotone key: the results are determined
KeyOf(v)          == (2 * v) % 5                                   \* injective on 0..4: 0 2 4 1 3
SeqSortedDesc(s)  == SortSeq(s, LAMBDA a, b : a > b)
SeqSortedByKey(s, asc) == SortSeq(s, LAMBDA a, b : IF asc = 1 THEN KeyOf(a) < KeyOf(b) ELSE KeyOf(a) > KeyOf(b))
\* sortBy with a key that is NOT injective (parity): quicksort is not stable, so every permutation that is ordered
\* by the key is allowed (used by trace validation, where the implementation's result is part of the event)
ParOf(v)          == v % 2
CountOf(s, v)     == Cardinality({i \in 1..Len(s) : s[i] = v})
SameBag(s, t)     == Len(s) = Len(t) /\ \A v \in Val0 : CountOf(s, v) = CountOf(t, v)
OrderedByPar(s)   == {i \in 1..(Len(s) - 1) : ParOf(s[i]) > ParOf(s[i+1])} = {}
SeqRemoveLt(s, v) == SelectSeq(s, LAMBDA x : ~(x < v))
SeqFill(n, v)     == [i \in 1..n |-> v]

\* join(sep): the element texts joined by sep, as byte codes.  tt selects the element text: 0 = Array<int>
\* (decimal), 1 / 2 = the two String tables of harness/c01_common.h (ConvStr<0>, ConvStr<1>: keep them equal)
RECURSIVE DecCodes(_)
DecCodes(n) == IF n < 10 THEN <<48 + n>> ELSE DecCodes(n \div 10) \o <<48 + (n % 10)>>
TabA == <<<<>>, <<97>>, <<98,99,100,101,102,103,104,105,106,107,108,109,110,111,112,113,114,115,116,117,118,119,120,121,122,48,49,50,51,52,53,54,55,56,57,65,66,67,68>>, <<99,50,51>>>>
TabB == <<<<>>, <<97,50,51,52,53,54,55,56,57,48,49,50,51,52,53>>, <<98,50,51,52,53,54,55,56,57,48,49,50,51,52,53,54>>, <<99,50,51,52,53,54,55,56,57,48,49,50,51,52,53,54,55,56,57,48,49,50,51>>>>
TextOf(tt, v) == IF tt = 0 THEN DecCodes(v) ELSE IF tt = 1 THEN TabA[(v % 4) + 1] ELSE TabB[(v % 4) + 1]
RECURSIVE JoinR(_, _, _, _, _)
JoinR(s, tt, sep, a, b) == IF a > b THEN <<>>
                           ELSE IF a = b THEN TextOf(tt, s[a])
                           ELSE LET m == (a + b) \div 2 IN JoinR(s, tt, sep, a, m) \o sep \o JoinR(s, tt, sep, m + 1, b)
JoinCodes(s, tt, sep) == JoinR(s, tt, sep, 1, Len(s))

-------------------------------------------------------------------------------
Init == /\ hb = [h \in H |-> IF h = 1 THEN 1 ELSE 0]
        /\ blk = [b \in 1..(NH+1) |-> <<>>]
        /\ hist = <<>>
        /\ hz = {}

\* garbage blocks are reset so that equal abstract states coincide
Gc(hb2, blk2) == [b \in 1..(NH+1) |-> IF \E h \in H : hb2[h] = b THEN blk2[b] ELSE <<>>]

Log(rec, tags) == /\ hist' = IF KeepHist THEN Append(hist, rec) ELSE <<rec>>
                  /\ hz' = IF KeepHist THEN hz \cup tags ELSE tags

\* an in-place operation through handle h giving the block the new content s2
InPlace(h, s2, rec, tags) ==
    /\ blk' = [blk EXCEPT ![hb[h]] = s2]
    /\ UNCHANGED hb
    /\ Log(rec, tags \cup (IF Len(s2) > Len(S(h)) /\ RC(hb[h]) > 1 THEN {"SharedGrow"} ELSE {}))

\* an operation that binds handle g (dead, or live and re-assigned) to a fresh block with content s2
NewBlock(g, s2, rec, tags) ==
    LET hb1 == [hb EXCEPT ![g] = 0]
        used1 == {hb1[x] : x \in {y \in H : hb1[y] # 0}}
        f == CHOOSE b \in 1..(NH+1) : b \notin used1 /\ \A c \in 1..(NH+1) : (c \notin used1) => b <= c
        hb2 == [hb EXCEPT ![g] = f]
    IN /\ hb' = hb2
       /\ blk' = Gc(hb2, [blk EXCEPT ![f] = s2])
       /\ Log(rec, tags)

-------------------------------------------------------------------------------
(* element-level mutation *)
Append1(h, v) == /\ h \in Live /\ Len(S(h)) < MaxLen
                 /\ InPlace(h, Append(S(h), v), [op |-> "append", h |-> h, v |-> v], {})
AppendSelf(h, i) == /\ h \in Live /\ Len(S(h)) < MaxLen /\ i \in 0..(Len(S(h)) - 1)
                    /\ InPlace(h, Append(S(h), S(h)[i+1]), [op |-> "appendSelf", h |-> h, i |-> i], {"AliasElem"})
Insert1(h, k, v) == /\ h \in Live /\ Len(S(h)) < MaxLen /\ k \in 0..Len(S(h))
                    /\ InPlace(h, SeqInsert(S(h), k, v), [op |-> "insert", h |-> h, k |-> k, v |-> v], {})
InsertSelf(h, k, i) == /\ h \in Live /\ Len(S(h)) < MaxLen /\ k \in 0..Len(S(h)) /\ i \in 0..(Len(S(h)) - 1)
                       /\ InPlace(h, SeqInsert(S(h), k, S(h)[i+1]), [op |-> "insertSelf", h |-> h, k |-> k, i |-> i], {"AliasElem"})
SetElem(h, i, v) == /\ h \in Live /\ i \in 0..(Len(S(h)) - 1)
                    /\ InPlace(h, [S(h) EXCEPT ![i+1] = v], [op |-> "set", h |-> h, i |-> i, v |-> v], {})
RemoveN(h, i, n) == /\ h \in Live /\ i \in 0..(Len(S(h)) - 1) /\ n \in 1..(Len(S(h)) - i)
                    /\ InPlace(h, SeqRemove(S(h), i, n), [op |-> "remove", h |-> h, i |-> i, n |-> n], {})
RemoveOne(h, v) == /\ h \in Live
                   /\ LET p == IdxEnc(S(h), v, 0) IN
                      InPlace(h, IF p = 0 THEN S(h) ELSE SeqRemove(S(h), p - 1, 1),
                              [op |-> "removeOne", h |-> h, v |-> v, r |-> IF p = 0 THEN 0 ELSE 1], {})
RemoveLast(h) == /\ h \in Live
                 /\ InPlace(h, IF S(h) = <<>> THEN <<>> ELSE Front(S(h)), [op |-> "removeLast", h |-> h], {})
RemoveIf(h, v) == /\ h \in Live
                  /\ InPlace(h, SeqFilterNe(S(h), v), [op |-> "removeIf", h |-> h, v |-> v], {})
Resize(h, m) == /\ h \in Live
                /\ InPlace(h, SeqResize(S(h), m), [op |-> "resize", h |-> h, m |-> m], {})
Reserve(h, m) == /\ h \in Live
                 /\ InPlace(h, S(h), [op |-> "reserve", h |-> h, m |-> m],
                            IF RC(hb[h]) > 1 THEN {"SharedGrow"} ELSE {})
Clear(h) == /\ h \in Live /\ InPlace(h, <<>>, [op |-> "clear", h |-> h], {})
Sort(h) == /\ h \in Live /\ InPlace(h, SeqSorted(S(h)), [op |-> "sort", h |-> h], {})

(* whole-array operations *)
AppendArr(h, g) == /\ h \in Live /\ g \in Live /\ Len(S(h)) + Len(S(g)) <= MaxLen + 2
                   /\ InPlace(h, S(h) \o S(g), [op |-> "appendArr", h |-> h, g |-> g],
                              IF hb[h] = hb[g] THEN {"SelfArray"} ELSE {})
CopyFrom(h, g) == /\ h \in Live /\ g \in Live
                  /\ InPlace(h, S(g), [op |-> "copyFrom", h |-> h, g |-> g], {})
Reversed(h, g) == /\ h \in Live /\ g \in H
                  /\ NewBlock(g, SeqReverse(S(h)), [op |-> "reversed", h |-> h, g |-> g], {})
Slice(h, g, i1, i2) == /\ h \in Live /\ g \in H /\ i1 \in 0..Len(S(h)) /\ i2 \in 0..Len(S(h))
                       /\ (i2 = 0 \/ i1 <= i2)
                       \* slice(i1, 0) means "up to the end" (documented default)
                       /\ LET e == IF i2 = 0 THEN Len(S(h)) ELSE i2 IN
                          NewBlock(g, SubSeq(S(h), i1 + 1, e), [op |-> "slice", h |-> h, g |-> g, i1 |-> i1, i2 |-> i2], {})
Concat(h, g2, g) == /\ h \in Live /\ g2 \in Live /\ g \in H /\ Len(S(h)) + Len(S(g2)) <= MaxLen + 2
                    /\ NewBlock(g, S(h) \o S(g2), [op |-> "concat", h |-> h, g2 |-> g2, g |-> g], {})
Filter(h, g, v) == /\ h \in Live /\ g \in H
                   /\ NewBlock(g, SeqFilterNe(S(h), v), [op |-> "filter", h |-> h, g |-> g, v |-> v], {})
MapSucc(h, g) == /\ h \in Live /\ g \in H
                 /\ NewBlock(g, [i \in 1..Len(S(h)) |-> Succ(S(h)[i])], [op |-> "map", h |-> h, g |-> g], {})
Clone(h, g) == /\ h \in Live /\ g \in H
               /\ NewBlock(g, S(h), [op |-> "clone", h |-> h, g |-> g], {})
Dup(h) == /\ h \in Live
          /\ IF RC(hb[h]) = 1
             THEN InPlace(h, S(h), [op |-> "dup", h |-> h], {})
             ELSE NewBlock(h, S(h), [op |-> "dup", h |-> h], {})

(* handles *)
CopyHandle(h, g) == /\ h \in Live /\ g \in Dead
                    /\ hb' = [hb EXCEPT ![g] = hb[h]] /\ UNCHANGED blk
                    /\ Log([op |-> "copyHandle", h |-> h, g |-> g], {})
AssignHandle(h, g) == /\ h \in Live /\ g \in Live           \* g = h   (self-assignment included)
                      /\ LET hb2 == [hb EXCEPT ![g] = hb[h]] IN
                         /\ hb' = hb2 /\ blk' = Gc(hb2, blk)
                      /\ Log([op |-> "assignHandle", h |-> h, g |-> g], {})
DropHandle(h) == /\ h \in Live /\ Cardinality(Live) > 1
                 /\ LET hb2 == [hb EXCEPT ![h] = 0] IN
                    /\ hb' = hb2 /\ blk' = Gc(hb2, blk)
                 /\ Log([op |-> "dropHandle", h |-> h], {})

(* Stack and Queue (classes derived from Array: same handles, extra calls) *)
PopGet(h) == /\ h \in Live /\ S(h) # <<>>
             /\ InPlace(h, Front(S(h)), [op |-> "popget", h |-> h, r |-> Last(S(h))], {})
PopN(h, n) == /\ h \in Live /\ n \in 1..Len(S(h))
              /\ InPlace(h, SubSeq(S(h), 1, Len(S(h)) - n), [op |-> "pop", h |-> h, n |-> n], {})
QGet(h) == /\ h \in Live /\ S(h) # <<>>
           /\ InPlace(h, Tail(S(h)), [op |-> "get", h |-> h, r |-> Head(S(h))], {})
\* push / put are Append1 executed through Stack::push / Queue::put by the replayer

-------------------------------------------------------------------------------
(* remaining public surface of asl::Array (include/asl/Array.h) *)
\* literal lists used by the list-taking calls in model checking (override with  Lits <- ...  in a cfg)
Lits == {<<>>, <<2>>, <<2, 1>>, <<1, 2, 1, 2>>}
\* thorough (Lits <- LitsT): every array(a0, ..) overload
LitsT == {<<>>, <<2, 1>>, <<1, 2, 1, 2>>, <<2, 1, 2, 1, 2>>, <<1, 1, 2, 2, 1, 2>>}
Seps == {<<>>, <<44, 32>>}

ReadOnly(rec) == /\ UNCHANGED <<hb, blk>> /\ Log(rec, {})

(* constructors: all give a fresh block bound to g (a dead handle, or a live one that is re-assigned) *)
\* Array(n): n default-constructed elements
CtorN(g, n) == /\ g \in H /\ NewBlock(g, SeqFill(n, 0), [op |-> "ctorN", h |-> g, g |-> g, n |-> n], {})
\* Array(n, x)
CtorFill(g, n, v) == /\ g \in H /\ NewBlock(g, SeqFill(n, v), [op |-> "ctorFill", h |-> g, g |-> g, n |-> n, v |-> v], {})
\* from a list of values: via = "ptr" Array(const T* p, n) on a foreign buffer, "init" Array{...}, "arrayinit" array({...}),
\* "arrayfn" array(a0, .., a5) (1..6 elements), "comma" (Array<T>(), a0, a1, ...)   [the sibling modules add their own forms]
FromList(g, s, via) == /\ g \in H /\ (via = "arrayfn" => Len(s) \in 1..6)
                       /\ NewBlock(g, s, [op |-> "fromList", h |-> g, g |-> g, s |-> s, via |-> via], {})
\* Array(p, n) with p = a.data() + i pointing into the live array behind h (equals slice(i, i+n))
CtorPtr(h, g, i, n) == /\ h \in Live /\ g \in H /\ i \in 0..Len(S(h)) /\ n \in 0..(Len(S(h)) - i)
                       /\ NewBlock(g, SubSeq(S(h), i + 1, i + n), [op |-> "ctorPtr", h |-> h, g |-> g, i |-> i, n |-> n], {})

(* pointer-based append / copy: p = g.data() + i, n elements; g may be h or share h's block (the argument then
   refers to elements of the array that is being changed) *)
AppendPtr(h, g, i, n) == /\ h \in Live /\ g \in Live /\ i \in 0..Len(S(g)) /\ n \in 0..(Len(S(g)) - i)
                         /\ Len(S(h)) + n <= MaxLen + 2
                         /\ InPlace(h, S(h) \o SubSeq(S(g), i + 1, i + n), [op |-> "appendPtr", h |-> h, g |-> g, i |-> i, n |-> n],
                                    IF hb[h] = hb[g] THEN {"AliasPtr"} ELSE {})
CopyPtr(h, g, i, n) == /\ h \in Live /\ g \in Live /\ i \in 0..Len(S(g)) /\ n \in 0..(Len(S(g)) - i)
                       /\ InPlace(h, SubSeq(S(g), i + 1, i + n), [op |-> "copyPtr", h |-> h, g |-> g, i |-> i, n |-> n],
                                  IF hb[h] = hb[g] THEN {"AliasPtr"} ELSE {})

(* initializer lists *)
\* a = {...}: resizes and assigns in place.  What other handles of the block see is not documented (the copy
\* assignment from an Array re-binds, this one writes through), so it is generated for unshared arrays only
AssignList(h, s) == /\ h \in Live /\ RC(hb[h]) = 1
                    /\ InPlace(h, s, [op |-> "assignList", h |-> h, s |-> s], {})
\* a.append({...})
AppendList(h, s) == /\ h \in Live /\ Len(S(h)) + Len(s) <= MaxLen + 2
                    /\ InPlace(h, S(h) \o s, [op |-> "appendList", h |-> h, s |-> s], {})

(* element-type conversions; the replayer converts to a boxed element type and back, so values are preserved *)
\* via = "ctor" Array<T>(Array<K>), "with" a.with<K>(), "map_" a.map_<K>(f)
Convert(h, g, via) == /\ h \in Live /\ g \in H
                      /\ NewBlock(g, S(h), [op |-> "conv", h |-> h, g |-> g, via |-> via], {})
\* h = Array<K>(contents of g): template operator=, writes in place (unshared only, as AssignList)
AssignConv(h, g) == /\ h \in Live /\ g \in Live /\ RC(hb[h]) = 1
                    /\ InPlace(h, S(g), [op |-> "assignConv", h |-> h, g |-> g], {})

(* sorting with a comparison object / a key *)
SortDesc(h) == /\ h \in Live /\ InPlace(h, SeqSortedDesc(S(h)), [op |-> "sortDesc", h |-> h], {})
SortByKey(h, asc) == /\ h \in Live /\ \A i \in 1..Len(S(h)) : S(h)[i] \in 0..4
                     /\ InPlace(h, SeqSortedByKey(S(h), asc), [op |-> "sortBy", h |-> h, asc |-> asc], {})
\* sortBy(parity): any permutation ordered by the key (trace validation only: s2 is the implementation's result)
SortByPar(h, s2) == /\ h \in Live /\ SameBag(S(h), s2) /\ OrderedByPar(s2)
                    /\ InPlace(h, s2, [op |-> "sortByPar", h |-> h], {})

(* removal variants *)
\* removeIf(x < v): v = 0 removes nothing, v above every element removes everything
RemoveIfLt(h, v) == /\ h \in Live /\ InPlace(h, SeqRemoveLt(S(h), v), [op |-> "removeIfLt", h |-> h, v |-> v], {})
\* removeOne(x, i0): search starts at i0
RemoveOneFrom(h, v, i0) == /\ h \in Live /\ i0 \in 0..Len(S(h))
                           /\ LET p == IdxEnc(S(h), v, i0) IN
                              InPlace(h, IF p = 0 THEN S(h) ELSE SeqRemove(S(h), p - 1, 1),
                                      [op |-> "removeOneFrom", h |-> h, v |-> v, i |-> i0, r |-> IF p = 0 THEN 0 ELSE 1], {})
\* remove(i, 0) removes nothing
RemoveNone(h, i) == /\ h \in Live /\ i \in 0..Len(S(h))
                    /\ InPlace(h, S(h), [op |-> "remove", h |-> h, i |-> i, n |-> 0], {})

(* calls that only read: the value they must return is part of the record *)
\* enumeration: via = "slice_" a.slice_(i1, i2) (i2 = 0: to the end), "all" a.all(), "for" range-for, "foreach" the macro
EnumRange(h, i1, i2, via) == /\ h \in Live /\ i1 \in 0..Len(S(h)) /\ i2 \in 0..Len(S(h)) /\ (i2 = 0 \/ i1 <= i2)
                             /\ (via # "slice_" => i1 = 0 /\ i2 = 0)
                             /\ ReadOnly([op |-> "enum", h |-> h, i1 |-> i1, i2 |-> i2, via |-> via,
                                          r |-> SubSeq(S(h), i1 + 1, IF i2 = 0 THEN Len(S(h)) ELSE i2)])
\* indexOf(x, j)
IndexOfFrom(h, v, j) == /\ h \in Live /\ j \in 0..Len(S(h))
                        /\ ReadOnly([op |-> "indexOf", h |-> h, v |-> v, j |-> j, r |-> IdxEnc(S(h), v, j)])
\* Stack::top(i) (i-th topmost; a[length-1-i] on the other containers)
TopAt(h, i) == /\ h \in Live /\ i \in 0..(Len(S(h)) - 1)
               /\ ReadOnly([op |-> "top", h |-> h, i |-> i, r |-> S(h)[Len(S(h)) - i]])
\* ==, != and <
Compare(h, g) == /\ h \in Live /\ g \in Live
                 /\ ReadOnly([op |-> "cmp", h |-> h, g |-> g, eq |-> EqEnc(S(h), S(g)), lt |-> Lt3(S(h), S(g))])
\* join(sep) as byte codes
Join(h, tt, sep) == /\ h \in Live
                    /\ ReadOnly([op |-> "join", h |-> h, tt |-> tt, sep |-> sep, r |-> JoinCodes(S(h), tt, sep)])

-------------------------------------------------------------------------------
Next == /\ Len(hist) < MaxOps
        /\ \/ \E h \in H, v \in V : Append1(h, v) \/ RemoveOne(h, v) \/ RemoveIf(h, v)
           \/ \E h \in H, i \in 0..MaxLen : AppendSelf(h, i)
           \/ \E h \in H, k \in 0..MaxLen, v \in V : Insert1(h, k, v)
           \/ \E h \in H, k \in 0..MaxLen, i \in 0..MaxLen : InsertSelf(h, k, i)
           \/ \E h \in H, i \in 0..MaxLen, v \in V : SetElem(h, i, v)
           \/ \E h \in H, i \in 0..MaxLen, n \in 1..(MaxLen+2) : RemoveN(h, i, n)
           \/ \E h \in H : RemoveLast(h) \/ Clear(h) \/ Sort(h) \/ Dup(h) \/ DropHandle(h) \/ PopGet(h) \/ QGet(h)
           \/ \E h \in H, m \in Sizes : Resize(h, m) \/ Reserve(h, m)
           \/ \E h \in H, n \in 1..2 : PopN(h, n)
           \/ \E h, g \in H : AppendArr(h, g) \/ CopyFrom(h, g) \/ Reversed(h, g) \/ MapSucc(h, g) \/ Clone(h, g)
                              \/ CopyHandle(h, g) \/ AssignHandle(h, g)
           \/ \E h, g \in H, v \in V : Filter(h, g, v)
           \/ \E h, g \in H, i1, i2 \in 0..(MaxLen+2) : Slice(h, g, i1, i2)
           \/ \E h, g2, g \in H : Concat(h, g2, g)

Spec == Init /\ [][Next]_vars

\* the remaining surface, explored on top of a few core calls that build the interesting shapes (shared handles,
\* lengths around the capacity steps 3 / 6)
ListVias == {"ptr", "init", "arrayinit", "arrayfn", "comma"}
ConvVias == {"ctor", "with", "map_"}
ExtOnly == \/ \E g \in H, n \in Sizes : CtorN(g, n)
           \/ \E g \in H, n \in Sizes, v \in V : CtorFill(g, n, v)
           \/ \E g \in H, s \in Lits, via \in ListVias : FromList(g, s, via)
           \/ \E h, g \in H, i \in 0..MaxLen, n \in 0..(MaxLen+2) : CtorPtr(h, g, i, n) \/ AppendPtr(h, g, i, n) \/ CopyPtr(h, g, i, n)
           \/ \E h \in H, s \in Lits : AssignList(h, s) \/ AppendList(h, s)
           \/ \E h, g \in H, via \in ConvVias : Convert(h, g, via)
           \/ \E h, g \in H : AssignConv(h, g) \/ Compare(h, g)
           \/ \E h \in H : SortDesc(h)
           \/ \E h \in H, asc \in 0..1 : SortByKey(h, asc)
           \/ \E h \in H, v \in 0..(Cardinality(V) + 1) : RemoveIfLt(h, v)
           \/ \E h \in H, v \in V, i \in 0..(MaxLen+2) : RemoveOneFrom(h, v, i) \/ IndexOfFrom(h, v, i)
           \/ \E h \in H, i \in 0..(MaxLen+2) : RemoveNone(h, i) \/ TopAt(h, i)
           \/ \E h \in H, i1, i2 \in 0..(MaxLen+2) : EnumRange(h, i1, i2, "slice_")
           \/ \E h \in H, via \in {"all", "for", "foreach"} : EnumRange(h, 0, 0, via)
           \/ \E h \in H, tt \in 0..2, sep \in Seps : Join(h, tt, sep)
ExtCore == \/ \E h \in H, v \in V : Append1(h, v)
           \/ \E h \in H, m \in Sizes : Resize(h, m)
           \/ \E h, g \in H : CopyHandle(h, g)
           \/ \E h \in H : DropHandle(h)
NextExt == /\ Len(hist) < MaxOps
           /\ (ExtOnly \/ ExtCore)
SpecExt == Init /\ [][NextExt]_vars
\* every call of the module (what the sibling modules' steps are checked against)
NextAll == Next \/ (Len(hist) < MaxOps /\ ExtOnly)

-------------------------------------------------------------------------------
(* properties of the specification itself *)
TypeOK == /\ hb \in [H -> 0..(NH+1)]
          /\ \A b \in 1..(NH+1) : \A i \in 1..Len(blk[b]) : blk[b][i] \in Val0
\* storage is released with the last handle: an unreferenced block holds nothing
NoOrphan == \A b \in 1..(NH+1) : RC(b) = 0 => blk[b] = <<>>
SomeLive == Live # {}
\* an operation changes at most the block of the handle it goes through (clone independence): every block that
\* stays referenced and is neither the operated handle's old nor new block keeps its content
Independence ==
    [][(hist' # hist /\ hist' # <<>>) =>
        LET r == hist'[Len(hist')]
            touched == {hb[r.h], hb'[r.h]} \cup (IF "g" \in DOMAIN r THEN {hb'[r.g]} ELSE {})
        IN \A b \in 1..(NH+1) : (b \notin touched /\ RC(b) > 0 /\ \E h \in H : hb'[h] = b) => blk'[b] = blk[b]]_vars
\* a clone never aliases its source
FreshOps == {"clone", "reversed", "slice", "concat", "filter", "map", "ctorN", "ctorFill", "fromList", "ctorPtr", "conv", "slice2"}
CloneFresh == [][(hist' # hist /\ hist' # <<>> /\ hist'[Len(hist')].op \in FreshOps) =>
                   LET r == hist'[Len(hist')] IN \A x \in H \ {r.g} : hb'[x] # hb'[r.g]]_vars

-------------------------------------------------------------------------------
(* observation, emitted with every transition for the replayer *)
LiveSeq(hbx) == SelectSeq([i \in 1..NH |-> i], LAMBDA h : hbx[h] # 0)
ObsOf(hbx, blkx) ==
    LET ls == LiveSeq(hbx) IN
    [i \in 1..Len(ls) |-> [h |-> ls[i], s |-> blkx[hbx[ls[i]]],
                           rc |-> Cardinality({x \in H : hbx[x] = hbx[ls[i]]})]]
LiveElems(hbx, blkx) ==
    LET bs == {hbx[h] : h \in {x \in H : hbx[x] # 0}}
        RECURSIVE Sum(_)
        Sum(T) == IF T = {} THEN 0 ELSE LET b == CHOOSE b \in T : TRUE IN Len(blkx[b]) + Sum(T \ {b})
    IN Sum(bs)
View == <<hb, blk, Len(hist), hz>>
Emit == PrintT(ToJson([hist |-> hist', exp |-> ObsOf(hb', blk'), live |-> LiveElems(hb', blk'), hz |-> hz', nv |-> Cardinality(V)]))
===============================================================================
