------------------------------- MODULE ArraySeq -------------------------------
(* C01 - asl::Array / Stack / Queue as sequences behind shared handles.

   State: a handle is dead (0) or bound to a block; a block holds a sequence.  Copying a handle shares the
   block ("containers are shared by reference"); clone/dup/slice/... create a fresh block.  Capacity is
   deliberately absent: it is an implementation quantity the property does not mention (the replayer checks
   cap >= len and evaluates the GrowWhileShared hazard predicate on the real rc()/cap()).

   Every public call is one action.  hist records the calls (with the results the calls must return),
   hz collects spec-level hazard tags of the history (used to match known findings).
   The module is the oracle for both bindings:
     R  MC_ArraySeq*.cfg : ACTION_CONSTRAINT Emit prints one JSON line per transition -> harness/c01_replay
     V  Trace_ArraySeq   : recorded executions of the real code are validated against the same actions.   *)
EXTENDS Naturals, Sequences, FiniteSets, TLC, Json, SequencesExt

CONSTANTS NH,        \* handles are 1..NH
          V,         \* element values (small naturals >= 1); 0 is the default-constructed value
          Sizes,     \* arguments tried for resize/reserve
          MaxLen,    \* appends/inserts are generated only below this length
          MaxOps,    \* bound on the history length
          KeepHist   \* TRUE: hist is the whole history (model checking / replay); FALSE: only the last call (trace validation)

VARIABLES hb, blk, hist, hz
vars == <<hb, blk, hist, hz>>

H      == 1..NH
Live   == {h \in H : hb[h] # 0}
Dead   == H \ Live
Used   == {hb[h] : h \in Live}
RC(b)  == Cardinality({h \in H : hb[h] = b})
Fresh  == CHOOSE b \in 1..(NH+1) : b \notin Used /\ \A c \in 1..(NH+1) : (c \notin Used) => b <= c
S(h)   == blk[hb[h]]
Val0   == V \cup {0}

-------------------------------------------------------------------------------
(* pure sequence operators - the reference semantics *)
SeqRemove(s, i, n) == SubSeq(s, 1, i) \o SubSeq(s, i + n + 1, Len(s))      \* 0-based i
SeqInsert(s, k, v) == SubSeq(s, 1, k) \o <<v>> \o SubSeq(s, k + 1, Len(s)) \* 0-based k
SeqResize(s, m)    == IF m <= Len(s) THEN SubSeq(s, 1, m) ELSE s \o [i \in 1..(m - Len(s)) |-> 0]
SeqReverse(s)      == [i \in 1..Len(s) |-> s[Len(s) + 1 - i]]
SeqFilterNe(s, v)  == SelectSeq(s, LAMBDA x : x # v)
SeqSorted(s)       == SortSeq(s, LAMBDA a, b : a < b)
Succ(v)            == IF v = 0 THEN 0 ELSE (v % Cardinality(V)) + 1          \* the function used for map()

\* indexOf result as a natural: 0 = not found, i+1 = found at 0-based i
IdxEnc(s, v, j) == IF \E i \in (j+1)..Len(s) : s[i] = v
                   THEN CHOOSE i \in (j+1)..Len(s) : s[i] = v /\ \A k \in (j+1)..(i-1) : s[k] # v
                   ELSE 0

-------------------------------------------------------------------------------
Init == /\ hb = [h \in H |-> IF h = 1 THEN 1 ELSE 0]
        /\ blk = [b \in 1..(NH+1) |-> <<>>]
        /\ hist = <<>>
        /\ hz = {}

\* garbage blocks are reset so that equal abstract states coincide
Gc(hb2, blk2) == [b \in 1..(NH+1) |-> IF \E h \in H : hb2[h] = b THEN blk2[b] ELSE <<>>]

Log(rec, tags) == /\ hist' = IF KeepHist THEN Append(hist, rec) ELSE <<rec>>
                  /\ hz' = IF KeepHist THEN hz \cup tags ELSE tags

\* an in-place operation through handle h giving the block the new content s2
InPlace(h, s2, rec, tags) ==
    /\ blk' = [blk EXCEPT ![hb[h]] = s2]
    /\ UNCHANGED hb
    /\ Log(rec, tags \cup (IF Len(s2) > Len(S(h)) /\ RC(hb[h]) > 1 THEN {"SharedGrow"} ELSE {}))

\* an operation that binds handle g (dead, or live and re-assigned) to a fresh block with content s2
NewBlock(g, s2, rec, tags) ==
    LET hb1 == [hb EXCEPT ![g] = 0]
        used1 == {hb1[x] : x \in {y \in H : hb1[y] # 0}}
        f == CHOOSE b \in 1..(NH+1) : b \notin used1 /\ \A c \in 1..(NH+1) : (c \notin used1) => b <= c
        hb2 == [hb EXCEPT ![g] = f]
    IN /\ hb' = hb2
       /\ blk' = Gc(hb2, [blk EXCEPT ![f] = s2])
       /\ Log(rec, tags)

-------------------------------------------------------------------------------
(* element-level mutation *)
Append1(h, v) == /\ h \in Live /\ Len(S(h)) < MaxLen
                 /\ InPlace(h, Append(S(h), v), [op |-> "append", h |-> h, v |-> v], {})
AppendSelf(h, i) == /\ h \in Live /\ Len(S(h)) < MaxLen /\ i \in 0..(Len(S(h)) - 1)
                    /\ InPlace(h, Append(S(h), S(h)[i+1]), [op |-> "appendSelf", h |-> h, i |-> i], {"AliasElem"})
Insert1(h, k, v) == /\ h \in Live /\ Len(S(h)) < MaxLen /\ k \in 0..Len(S(h))
                    /\ InPlace(h, SeqInsert(S(h), k, v), [op |-> "insert", h |-> h, k |-> k, v |-> v], {})
InsertSelf(h, k, i) == /\ h \in Live /\ Len(S(h)) < MaxLen /\ k \in 0..Len(S(h)) /\ i \in 0..(Len(S(h)) - 1)
                       /\ InPlace(h, SeqInsert(S(h), k, S(h)[i+1]), [op |-> "insertSelf", h |-> h, k |-> k, i |-> i], {"AliasElem"})
SetElem(h, i, v) == /\ h \in Live /\ i \in 0..(Len(S(h)) - 1)
                    /\ InPlace(h, [S(h) EXCEPT ![i+1] = v], [op |-> "set", h |-> h, i |-> i, v |-> v], {})
RemoveN(h, i, n) == /\ h \in Live /\ i \in 0..(Len(S(h)) - 1) /\ n \in 1..(Len(S(h)) - i)
                    /\ InPlace(h, SeqRemove(S(h), i, n), [op |-> "remove", h |-> h, i |-> i, n |-> n], {})
RemoveOne(h, v) == /\ h \in Live
                   /\ LET p == IdxEnc(S(h), v, 0) IN
                      InPlace(h, IF p = 0 THEN S(h) ELSE SeqRemove(S(h), p - 1, 1),
                              [op |-> "removeOne", h |-> h, v |-> v, r |-> IF p = 0 THEN 0 ELSE 1], {})
RemoveLast(h) == /\ h \in Live
                 /\ InPlace(h, IF S(h) = <<>> THEN <<>> ELSE Front(S(h)), [op |-> "removeLast", h |-> h], {})
RemoveIf(h, v) == /\ h \in Live
                  /\ InPlace(h, SeqFilterNe(S(h), v), [op |-> "removeIf", h |-> h, v |-> v], {})
Resize(h, m) == /\ h \in Live
                /\ InPlace(h, SeqResize(S(h), m), [op |-> "resize", h |-> h, m |-> m], {})
Reserve(h, m) == /\ h \in Live
                 /\ InPlace(h, S(h), [op |-> "reserve", h |-> h, m |-> m],
                            IF RC(hb[h]) > 1 THEN {"SharedGrow"} ELSE {})
Clear(h) == /\ h \in Live /\ InPlace(h, <<>>, [op |-> "clear", h |-> h], {})
Sort(h) == /\ h \in Live /\ InPlace(h, SeqSorted(S(h)), [op |-> "sort", h |-> h], {})

(* whole-array operations *)
AppendArr(h, g) == /\ h \in Live /\ g \in Live /\ Len(S(h)) + Len(S(g)) <= MaxLen + 2
                   /\ InPlace(h, S(h) \o S(g), [op |-> "appendArr", h |-> h, g |-> g],
                              IF hb[h] = hb[g] THEN {"SelfArray"} ELSE {})
CopyFrom(h, g) == /\ h \in Live /\ g \in Live
                  /\ InPlace(h, S(g), [op |-> "copyFrom", h |-> h, g |-> g], {})
Reversed(h, g) == /\ h \in Live /\ g \in H
                  /\ NewBlock(g, SeqReverse(S(h)), [op |-> "reversed", h |-> h, g |-> g], {})
Slice(h, g, i1, i2) == /\ h \in Live /\ g \in H /\ i1 \in 0..Len(S(h)) /\ i2 \in 0..Len(S(h))
                       /\ (i2 = 0 \/ i1 <= i2)
                       \* slice(i1, 0) means "up to the end" (documented default)
                       /\ LET e == IF i2 = 0 THEN Len(S(h)) ELSE i2 IN
                          NewBlock(g, SubSeq(S(h), i1 + 1, e), [op |-> "slice", h |-> h, g |-> g, i1 |-> i1, i2 |-> i2], {})
Concat(h, g2, g) == /\ h \in Live /\ g2 \in Live /\ g \in H /\ Len(S(h)) + Len(S(g2)) <= MaxLen + 2
                    /\ NewBlock(g, S(h) \o S(g2), [op |-> "concat", h |-> h, g2 |-> g2, g |-> g], {})
Filter(h, g, v) == /\ h \in Live /\ g \in H
                   /\ NewBlock(g, SeqFilterNe(S(h), v), [op |-> "filter", h |-> h, g |-> g, v |-> v], {})
MapSucc(h, g) == /\ h \in Live /\ g \in H
                 /\ NewBlock(g, [i \in 1..Len(S(h)) |-> Succ(S(h)[i])], [op |-> "map", h |-> h, g |-> g], {})
Clone(h, g) == /\ h \in Live /\ g \in H
               /\ NewBlock(g, S(h), [op |-> "clone", h |-> h, g |-> g], {})
Dup(h) == /\ h \in Live
          /\ IF RC(hb[h]) = 1
             THEN InPlace(h, S(h), [op |-> "dup", h |-> h], {})
             ELSE NewBlock(h, S(h), [op |-> "dup", h |-> h], {})

(* handles *)
CopyHandle(h, g) == /\ h \in Live /\ g \in Dead
                    /\ hb' = [hb EXCEPT ![g] = hb[h]] /\ UNCHANGED blk
                    /\ Log([op |-> "copyHandle", h |-> h, g |-> g], {})
AssignHandle(h, g) == /\ h \in Live /\ g \in Live           \* g = h   (self-assignment included)
                      /\ LET hb2 == [hb EXCEPT ![g] = hb[h]] IN
                         /\ hb' = hb2 /\ blk' = Gc(hb2, blk)
                      /\ Log([op |-> "assignHandle", h |-> h, g |-> g], {})
DropHandle(h) == /\ h \in Live /\ Cardinality(Live) > 1
                 /\ LET hb2 == [hb EXCEPT ![h] = 0] IN
                    /\ hb' = hb2 /\ blk' = Gc(hb2, blk)
                 /\ Log([op |-> "dropHandle", h |-> h], {})

(* Stack and Queue (classes derived from Array: same handles, extra calls) *)
PopGet(h) == /\ h \in Live /\ S(h) # <<>>
             /\ InPlace(h, Front(S(h)), [op |-> "popget", h |-> h, r |-> Last(S(h))], {})
PopN(h, n) == /\ h \in Live /\ n \in 1..Len(S(h))
              /\ InPlace(h, SubSeq(S(h), 1, Len(S(h)) - n), [op |-> "pop", h |-> h, n |-> n], {})
QGet(h) == /\ h \in Live /\ S(h) # <<>>
           /\ InPlace(h, Tail(S(h)), [op |-> "get", h |-> h, r |-> Head(S(h))], {})
\* push / put are Append1 executed through Stack::push / Queue::put by the replayer

-------------------------------------------------------------------------------
Next == /\ Len(hist) < MaxOps
        /\ \/ \E h \in H, v \in V : Append1(h, v) \/ RemoveOne(h, v) \/ RemoveIf(h, v)
           \/ \E h \in H, i \in 0..MaxLen : AppendSelf(h, i)
           \/ \E h \in H, k \in 0..MaxLen, v \in V : Insert1(h, k, v)
           \/ \E h \in H, k \in 0..MaxLen, i \in 0..MaxLen : InsertSelf(h, k, i)
           \/ \E h \in H, i \in 0..MaxLen, v \in V : SetElem(h, i, v)
           \/ \E h \in H, i \in 0..MaxLen, n \in 1..(MaxLen+2) : RemoveN(h, i, n)
           \/ \E h \in H : RemoveLast(h) \/ Clear(h) \/ Sort(h) \/ Dup(h) \/ DropHandle(h) \/ PopGet(h) \/ QGet(h)
           \/ \E h \in H, m \in Sizes : Resize(h, m) \/ Reserve(h, m)
           \/ \E h \in H, n \in 1..2 : PopN(h, n)
           \/ \E h, g \in H : AppendArr(h, g) \/ CopyFrom(h, g) \/ Reversed(h, g) \/ MapSucc(h, g) \/ Clone(h, g)
                              \/ CopyHandle(h, g) \/ AssignHandle(h, g)
           \/ \E h, g \in H, v \in V : Filter(h, g, v)
           \/ \E h, g \in H, i1, i2 \in 0..(MaxLen+2) : Slice(h, g, i1, i2)
           \/ \E h, g2, g \in H : Concat(h, g2, g)

Spec == Init /\ [][Next]_vars

-------------------------------------------------------------------------------
(* properties of the specification itself *)
TypeOK == /\ hb \in [H -> 0..(NH+1)]
          /\ \A b \in 1..(NH+1) : \A i \in 1..Len(blk[b]) : blk[b][i] \in Val0
\* storage is released with the last handle: an unreferenced block holds nothing
NoOrphan == \A b \in 1..(NH+1) : RC(b) = 0 => blk[b] = <<>>
SomeLive == Live # {}
\* an operation changes at most the block of the handle it goes through (clone independence): every block that
\* stays referenced and is neither the operated handle's old nor new block keeps its content
Independence ==
    [][(hist' # hist /\ hist' # <<>>) =>
        LET r == hist'[Len(hist')]
            touched == {hb[r.h], hb'[r.h]} \cup (IF "g" \in DOMAIN r THEN {hb'[r.g]} ELSE {})
        IN \A b \in 1..(NH+1) : (b \notin touched /\ RC(b) > 0 /\ \E h \in H : hb'[h] = b) => blk'[b] = blk[b]]_vars
\* a clone never aliases its source
CloneFresh == [][(hist' # hist /\ hist' # <<>> /\ hist'[Len(hist')].op \in {"clone", "reversed", "slice", "concat", "filter", "map"}) =>
                   LET r == hist'[Len(hist')] IN \A x \in H \ {r.g} : hb'[x] # hb'[r.g]]_vars

-------------------------------------------------------------------------------
(* observation, emitted with every transition for the replayer *)
LiveSeq(hbx) == SelectSeq([i \in 1..NH |-> i], LAMBDA h : hbx[h] # 0)
ObsOf(hbx, blkx) ==
    LET ls == LiveSeq(hbx) IN
    [i \in 1..Len(ls) |-> [h |-> ls[i], s |-> blkx[hbx[ls[i]]],
                           rc |-> Cardinality({x \in H : hbx[x] = hbx[ls[i]]})]]
LiveElems(hbx, blkx) ==
    LET bs == {hbx[h] : h \in {x \in H : hbx[x] # 0}}
        RECURSIVE Sum(_)
        Sum(T) == IF T = {} THEN 0 ELSE LET b == CHOOSE b \in T : TRUE IN Len(blkx[b]) + Sum(T \ {b})
    IN Sum(bs)
View == <<hb, blk, Len(hist), hz>>
Emit == PrintT(ToJson([hist |-> hist', exp |-> ObsOf(hb', blk'), live |-> LiveElems(hb', blk'), hz |-> hz']))
===============================================================================
