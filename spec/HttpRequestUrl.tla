---------------------------- MODULE HttpRequestUrl ----------------------------
(* C09, URL strings: every text over three small alphabets of URL metacharacters is a state; for each one the spec gives
   the reference result of Url(text) / Url::decode(text) / Url::parseQuery(text) when the text lies in the class the
   property decides ("strict"), and demands only totality and in-bounds results otherwise.
   TLC checks the reference semantics against themselves (recomposition, length laws); every state is emitted as a case
   for harness/c09_replay.cpp (R).                                                                                 *)
EXTENDS HttpRequest, Json

CONSTANTS MaxUrl, MaxDec, MaxPq

VARIABLES kind, txt
vars == <<kind, txt>>

\* tokens, so that the interesting separators appear at small depth
UrlTok == << <<97>>, <<58>>, <<47>>, <<58, 47, 47>>, <<91>>, <<93>>, <<56>>, <<46>>, <<64>>, <<63>>, <<35>>, <<37>>, <<98, 45, 99>> >>
           \*  a      :      /      ://            [      ]      8      .      @      ?      #      %      b-c
DecTok == << <<37>>, <<50>>, <<101>>, <<71>>, <<43>>, <<97>>, <<48>>, <<37, 52, 49>> >>
           \*  %      2       e        G       +       a       0       %41
PqTok  == << <<97>>, <<98>>, <<61>>, <<38>>, <<43>>, <<37, 50, 54>>, <<37>>, <<49>> >>
           \*  a      b       =       &       +       %26             %       1
Tok(kd) == IF kd = "url" THEN UrlTok ELSE IF kd = "dec" THEN DecTok ELSE PqTok
MaxOf(kd) == IF kd = "url" THEN MaxUrl ELSE IF kd = "dec" THEN MaxDec ELSE MaxPq
Text(kd, ts) == Flatten([i \in 1..Len(ts) |-> Tok(kd)[ts[i]]])

Init == kind \in {"url", "dec", "pq"} /\ txt = <<>>
Extend(i) == /\ Len(txt) < MaxOf(kind) /\ i \in 1..Len(Tok(kind))
             /\ txt' = Append(txt, i) /\ UNCHANGED kind
Next == \E i \in 1..13 : Extend(i)
Spec == Init /\ [][Next]_vars

S == Text(kind, txt)
CountOf(s, c) == Cardinality({i \in 1..Len(s) : s[i] = c})

DecodeLaws == kind = "dec" =>
                 /\ Len(PctDecode(S)) <= Len(S)
                 /\ (PctStrict(S) => Len(PctDecode(S)) = Len(S) - 2 * CountOf(S, PCT))
                 /\ (CountOf(S, PCT) = 0 => PctDecode(S) = S)
UrlLaws == (kind = "url" /\ UrlStrict(S)) =>
                 LET p == UrlParse(S) IN
                 (IF p.scheme = <<>> THEN <<>> ELSE p.scheme \o SchemeSep) \o p.host \o (IF p.hasport THEN <<COLON>> \o p.port ELSE <<>>)
                   \o (IF IndexFrom(S, SLASH, IF p.scheme = <<>> THEN 1 ELSE Len(p.scheme) + 4) = 0 THEN <<>> ELSE p.path) = S
QueryLaws == (kind = "pq" /\ QueryStrict(S)) =>
                 /\ Len(ParseQuery(S)) = CountOf(S, AMP) + 1
                 /\ \A i \in 1..Len(ParseQuery(S)) : ParseQuery(S)[i].k # <<>>

EmitRec(kd, s) ==
    IF kd = "url" THEN LET p == UrlParse(s) st == UrlStrict(s) IN
         [k |-> "url", u |-> s, strict |-> st, scheme |-> p.scheme, host |-> p.host, path |-> p.path,
          port |-> IF st /\ p.hasport THEN DecValue(p.port, 0) ELSE 0]
    ELSE IF kd = "dec" THEN [k |-> "dec", u |-> s, strict |-> PctStrict(s) /\ ~HasNul(PctDecode(s)), out |-> PctDecode(s)]
    ELSE [k |-> "pq", u |-> s, strict |-> QueryStrict(s), qp |-> IF QueryStrict(s) THEN ParseQuery(s) ELSE <<>>]
Emit == PrintT(ToJson(EmitRec(kind', Text(kind', txt'))))
================================================================================
