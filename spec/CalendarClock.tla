---------------------------- MODULE CalendarClock -----------------------------
(* C19 - the clock: every second of a day as a state machine.  Tick advances (sod, h, mi, s) by the carry rule
   (seconds into minutes into hours); the invariants say that the closed forms SecOfDay / ClockOf of Calendar.tla
   agree with it on all 86 400 seconds.  One chain per hour (24 initial states) so that TLC's workers share the work.

   R: each completed minute is printed as one JSON line with its 60 rows <<sod, h, mi, s>>; checks/C19.py joins every
   line with the calendar rows of a set of days (taken from the CalendarDays output) and harness/c19_replay checks
   Date::splitUTC() and Date(UTC, ...) on every second of those days.                                             *)
EXTENDS Calendar, TLC, Json

VARIABLES sod, h, mi, s, rows
vars == <<sod, h, mi, s, rows>>

Init == /\ h \in 0..23 /\ mi = 0 /\ s = 0
        /\ sod = 3600 * h
        /\ rows = << <<sod, h, mi, s>> >>

Tick == /\ rows # <<>>                    \* a chain ends on the first second of the next hour (rows = <<>> there)
        /\ sod' = sod + 1
        /\ IF s < 59 THEN s' = s + 1 /\ mi' = mi /\ h' = h
           ELSE IF mi < 59 THEN s' = 0 /\ mi' = mi + 1 /\ h' = h
           ELSE s' = 0 /\ mi' = 0 /\ h' = h + 1
        /\ rows' = IF s' = 0 THEN (IF mi' = 0 THEN <<>> ELSE << <<sod', h', mi', s'>> >>)
                   ELSE Append(rows, <<sod', h', mi', s'>>)

Spec == Init /\ [][Tick]_vars

Agree == /\ sod = SecOfDay(h, mi, s)
         /\ ClockOf(sod) = [h |-> h, mi |-> mi, s |-> s]
         /\ s \in 0..59 /\ mi \in 0..59
         /\ (h = 24 => (mi = 0 /\ s = 0 /\ sod = 86400)) /\ h \in 0..24
View == <<sod, h, mi, s, rows = <<>> >>
Emit == (s' = 0) => PrintT(ToJson([k |-> "tod", rows |-> rows]))
===============================================================================
