SPECIFICATION Spec
CONSTANTS
 NAngles = 16
 K = 7
ACTION_CONSTRAINT Emit
INVARIANTS ProperRotation QuatTwoWays FixedIsReversedMoving AxisAngle
CHECK_DEADLOCK FALSE
