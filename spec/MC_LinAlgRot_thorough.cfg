SPECIFICATION Spec
CONSTANTS
 NAngles = 16
 K = 7
ACTION_CONSTRAINT Emit
INVARIANTS ProperRotation QuatTwoWays FixedIsReversedMoving AxisAngle RelOK
CHECK_DEADLOCK FALSE
