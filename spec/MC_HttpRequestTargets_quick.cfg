SPECIFICATION Spec
CONSTANTS
 MaxTok = 6
 NTok = 10
ACTION_CONSTRAINT Emit
INVARIANTS NoDotDot TwoFormulations Idempotent SegmentsSafe SplitOK Shrinks
CHECK_DEADLOCK FALSE
