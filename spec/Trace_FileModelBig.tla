--------------------------- MODULE Trace_FileModelBig ---------------------------
(* V binding for C17, large contents (1 MiB .. 16 MiB): executions recorded by harness/c17_record --mode 1 are
   validated against FileModelBig.  Contents travel run-length coded with maximal runs (the canonical form), so the
   comparison of what content()/firstBytes()/read()/POSIX returned with the model is exact, byte for byte.        *)
EXTENDS FileModelBig, Json, IOUtils

T == ndJsonDeserialize(IOEnv.TRACE)
VARIABLE l
tvars == <<bvars, l>>
TInit == BInit /\ l = 1

TStep ==
  /\ l <= Len(T)
  /\ l' = l + 1
  /\ LET e == T[l] IN
     \/ e.op = "reset"   /\ bfs' = [x \in Paths |-> NoFile]
     \/ e.op = "bput"    /\ e.x \in {"p", "q"} /\ BPut(e.x, e.z)
     \/ e.op = "bappend" /\ e.x \in {"p", "q"} /\ BAppend(e.x, e.z)
     \/ e.op = "bwrite"  /\ e.x \in {"p", "q"} /\ Len(e.zs) <= 3 /\ BWrite(e.x, e.zs)
     \/ e.op = "bremove" /\ e.x \in Paths /\ BRemove(e.x)
     \/ e.op = "bcopy"   /\ e.x \in {"p", "q"} /\ e.y \in {"p", "q", "d"} /\ BCopy(e.x, e.y) /\ e.r = TRUE
     \/ e.op = "bmove"   /\ e.x \in {"p", "q"} /\ e.y \in {"p", "q", "d"} /\ BMove(e.x, e.y) /\ e.r = TRUE
     \/ e.op = "bcontent" /\ e.x \in Paths /\ e.r = BContent(e.x) /\ UNCHANGED bvars      \* File(x).content()
     \/ e.op = "bread"    /\ e.x \in Paths /\ e.r = BContent(e.x) /\ UNCHANGED bvars      \* explicit open + read() in pieces
     \/ e.op = "btext"    /\ e.x \in Paths /\ e.r = BContent(e.x) /\ UNCHANGED bvars      \* TextFile(x).text() of a BOM-less NUL-free text
     \/ e.op = "bfirst"   /\ e.x \in Paths /\ e.r = BFirst(e.x, e.n) /\ UNCHANGED bvars
     \/ e.op = "bsize"    /\ e.x \in Paths /\ e.r = BSize(e.x) /\ UNCHANGED bvars
     \/ e.op = "bdisk"    /\ e.x \in Paths /\ e.ex = Exists(e.x) /\ e.r = BContent(e.x) /\ UNCHANGED bvars   \* POSIX read

TraceSpec == TInit /\ [][TStep]_tvars
TraceAccepted == TLCGet("stats").diameter - 1 = Len(T)
===============================================================================
