---------------------------- MODULE ProcLifeGen ----------------------------
(* R binding for X01 / Process: generates every behaviour of ProcLife of at most MaxOps calls whose results the
   specification determines completely (polls only while the child cannot end or after the harness has seen it
   ended, reads only while nothing can have been lost), and emits each one as a case: the calls with the result the
   implementation must return.  harness/x01_proc_life_replay.cpp executes the calls on a real asl::Process and
   compares call by call. *)
EXTENDS ProcLife, Json

VARIABLE hist
gvars == <<vars, hist>>

B(b) == IF b THEN 1 ELSE 0
Rec(e) == hist' = Append(hist, e)
Settled == cst = "alive" \/ ended \/ seen = "yes"

GInit == Init /\ hist = <<>>

GOp ==
  \/ New(TRUE) /\ Rec([e |-> "new", ready |-> 1])
  \/ Detach /\ Rec([e |-> "detach"])
  \/ \E m \in Modes : Run(m) /\ Rec([e |-> "run", m |-> m.m, code |-> IF m.m = "exit" THEN m.code ELSE 0])
  \/ \E c \in Cmds : Write(c, Wire(c)) /\ Rec([e |-> "write", k |-> c.k, p |-> c.p, n |-> IF c.k = "S" THEN c.n ELSE 0,
                                               code |-> IF c.k = "X" THEN c.code ELSE 0, ret |-> Wire(c)])
  \/ \E n \in ReadLens : ~lossy /\ LET r == Take(out, MinI(n, Len(out))) IN RdOut(n, r) /\ Rec([e |-> "rdout", n |-> n, r |-> r])
  \/ \E n \in ReadLens : ~lossy /\ LET r == Take(err, MinI(n, Len(err))) IN RdErr(n, r) /\ Rec([e |-> "rderr", n |-> n, r |-> r])
  \/ /\ obj = "run" /\ ~lossy /\ ~det /\ (HasLF(out) \/ cst = "dying")
     /\ LET r == IF HasLF(out) THEN StripCR(Take(out, FirstLF(out) - 1)) ELSE IF out = <<>> THEN <<10>> ELSE out
        IN RdLine(r) /\ Rec([e |-> "rdline", r |-> r])
  \/ /\ obj = "run" /\ ended /\ ~lossy /\ ~det /\ Avail(Len(out)) /\ Rec([e |-> "avail", r |-> Len(out)])
  \/ Sync /\ Rec([e |-> "sync"])
  \/ Settled /\ LET r == cst = "dying" IN Fin(r) /\ Rec([e |-> "fin", r |-> B(r)])
  \/ /\ obj = "run" /\ cst = "dying"
     /\ LET known == seen = "no" /\ how.k = "exit" IN
        Wait(IF known THEN how.code ELSE 0) /\ Rec([e |-> "wait", r |-> IF known THEN how.code ELSE 0, any |-> B(~known)])
  \/ /\ obj = "run" /\ seen = "yes" /\ how.k = "exit" /\ Status(how.code) /\ Rec([e |-> "status", r |-> how.code])
  \/ Settled /\ LET r == cst = "alive" \/ ExecOK IN Started(r) /\ Rec([e |-> "started", r |-> B(r)])
  \/ Settled /\ LET r == cst = "dying" /\ CleanExit IN Success(r) /\ Rec([e |-> "success", r |-> B(r)])
  \/ \E s \in {9, 15} : Kill(s) /\ Rec([e |-> "kill", sig |-> s])
  \/ Del /\ Rec([e |-> "del"])
  \/ HasFree(fdt, 1) /\ LET fd == LowestFree(fdt) IN UOpen(fd) /\ Rec([e |-> "uopen", fd |-> fd])
  \/ \E fd \in uopen : UClose(fd) /\ Rec([e |-> "uclose", fd |-> fd])
  \/ UCheck(UserIntact) /\ NFd(OpenCount) /\ Rec([e |-> "ucheck", ok |-> B(UserIntact), nfd |-> OpenCount])

GNext == nops < MaxOps /\ nops' = nops + 1 /\ GOp
GSpec == GInit /\ [][GNext]_gvars

View == <<vars>>
Emit == PrintT(ToJson([part |-> "proc", gen |-> "life", hist |-> hist']))
=============================================================================
