SPECIFICATION Spec
CONSTANTS
 Names = {1, 2}
 Objs = {1, 2}
 Size = 3
 Vals = {7, 9}
 MaxOps = 7
INVARIANTS TypeOK Attached NoReuse
CHECK_DEADLOCK FALSE
