SPECIFICATION VSpec
CONSTANTS
 SweepEvery = 31
 PairFull = FALSE
ACTION_CONSTRAINT VEmit
INVARIANT RoundTripLaw
CHECK_DEADLOCK FALSE
