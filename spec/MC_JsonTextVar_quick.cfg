SPECIFICATION VSpec
CONSTANTS
 SweepEvery = 61
 PairFull = FALSE
ACTION_CONSTRAINT VEmit
INVARIANT RoundTripLaw
CHECK_DEADLOCK FALSE
