SPECIFICATION VSpec
CONSTANT SweepEvery = 61
ACTION_CONSTRAINT VEmit
INVARIANT RoundTripLaw
CHECK_DEADLOCK FALSE
