SPECIFICATION Spec
CONSTANTS
 MaxTok = 8
 NTok = 8
ACTION_CONSTRAINT Emit
INVARIANTS NoDotDot TwoFormulations Idempotent SegmentsSafe SplitOK Shrinks
CHECK_DEADLOCK FALSE
