SPECIFICATION Spec
CONSTANTS
 NAngles = 8
 K = 4
ACTION_CONSTRAINT Emit
INVARIANTS ProperRotation QuatTwoWays FixedIsReversedMoving AxisAngle RelOK
CHECK_DEADLOCK FALSE
