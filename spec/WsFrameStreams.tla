---------------------------- MODULE WsFrameStreams ----------------------------
(* C11, frame streams: a peer that speaks RFC 6455 sends messages (whole or in up to MaxFrag fragments, fragments may be
   empty), pings / pongs between any two frames, and finally perhaps a close frame; or it turns hostile (reserved opcode,
   reserved bits, 64-bit length fields that do not fit, control frames that break the rules); or it just stops after k
   bytes (Cut).  Every state is one byte stream together with what the receiving application must get.

   Checked by TLC on every state:
     RoundTrip     DecodeAll(EncodeAll(frames)) = frames                (encoder vs. independent recognizer)
     CutAgrees     the frames the recognizer finds in the first k bytes are exactly the frames that end within k bytes
     ExactlyOnce   delivered messages, concatenated, are exactly the payload bytes of the completed messages in sending
                   order; their number is the number of FIN data frames (before a close)
     PrefixMono    cutting never adds or alters a delivery
   Every state is emitted as a case for harness/c11_replay.cpp (R), for both roles.                                 *)
EXTENDS WsFrame, Json

CONSTANTS MaxFrames,    \* frames per stream
          MaxMsgs,      \* data messages per stream
          MaxFrag,      \* fragments per message (<= 4)
          Chunks,       \* payload sizes of data frames
          WithCuts,     \* TRUE: also every cut of every maximal stream (the cuts of its prefixes are among them)
          HostileUpTo,  \* a hostile frame may follow at most this many well-formed frames
          HostileUsed   \* which of the hostile shapes below are generated

VARIABLES role,     \* "c2s": the library is the server, frames are masked;  "s2c": the library is the client, unmasked
          frames,   \* well-formed frames sent so far
          tail,     \* hostile bytes sent after them (<<>> if none)
          hname,    \* which hostile shape
          nmsg, nfrag, isopen, nextb, done,
          k         \* -1: the whole stream; otherwise the peer closes after k bytes
vars == <<role, frames, tail, hname, nmsg, nfrag, isopen, nextb, done, k>>

Keys == << <<0, 0, 0, 0>>, <<1, 2, 3, 4>>, <<255, 0, 128, 7>>, <<0, 90, 0, 165>> >>
KeyFor(i) == Keys[(i % 4) + 1]
Masked == role = "c2s"
Bytes(n) == [i \in 1..n |-> ((nextb + i - 1) % 250) + 1]
Mk(fin, op, pl) == Frame(fin, op, Masked, KeyFor(Len(frames)), pl)

Init == /\ role \in {"c2s", "s2c"} /\ frames = <<>> /\ tail = <<>> /\ hname = "" /\ nmsg = 0 /\ nfrag = 0 /\ isopen = FALSE
        /\ nextb = 0 /\ done = FALSE /\ k = -1

CanSend == ~done /\ k = -1 /\ Len(frames) < MaxFrames
Push(f) == frames' = Append(frames, f)

Data(op, n, fin) ==
    /\ CanSend /\ ~isopen /\ nmsg < MaxMsgs /\ (fin = 0 => MaxFrag > 1)
    /\ (fin = 1 => n > 0)                      \* messages have a non-zero length (fragments may be empty)
    /\ Push(Mk(fin, op, Bytes(n))) /\ nextb' = nextb + n
    /\ nmsg' = nmsg + 1 /\ nfrag' = 1 /\ isopen' = (fin = 0)
    /\ UNCHANGED <<role, tail, hname, done, k>>
Cont(n, fin) ==
    /\ CanSend /\ isopen /\ (nfrag + 1 = MaxFrag => fin = 1)
    /\ (fin = 1 => Len(RxAll(frames).part) + n > 0)
    /\ Push(Mk(fin, OpCont, Bytes(n))) /\ nextb' = nextb + n
    /\ nfrag' = nfrag + 1 /\ isopen' = (fin = 0)
    /\ UNCHANGED <<role, tail, hname, nmsg, done, k>>
Control(op, n) ==
    /\ CanSend /\ op \in {OpPing, OpPong}
    /\ Push(Mk(1, op, [i \in 1..n |-> 200 + i]))
    /\ UNCHANGED <<role, tail, hname, nmsg, nfrag, isopen, nextb, done, k>>
ClosePayloads == { <<>>, <<3, 232>>, <<3, 233, 98, 121, 101>> }          \* none / 1000 / 1001 "bye"
Close(pl) ==
    /\ CanSend /\ Push(Mk(1, OpClose, pl)) /\ done' = TRUE
    /\ UNCHANGED <<role, tail, hname, nmsg, nfrag, isopen, nextb, k>>

\* --- hostile shapes: raw bytes (the mask bit follows the role; a masked hostile frame carries key 1 2 3 4) ----------
MB == IF Masked THEN 128 ELSE 0
KeyB == IF Masked THEN <<1, 2, 3, 4>> ELSE <<>>
Hostile ==
    [ ReservedOp3      |-> <<128 + 3, MB + 1>> \o KeyB \o <<65>>,
      ReservedOp11     |-> <<128 + 11, MB + 0>> \o KeyB,
      ReservedOpNoFin  |-> <<5, MB + 2>> \o KeyB \o <<65, 66>>,
      RsvBits          |-> <<128 + 64 + 1, MB + 1>> \o KeyB \o <<65>>,
      Len64LowSign     |-> <<129, MB + 127, 0, 0, 0, 0, 255, 255, 255, 240>> \o KeyB \o <<65, 66, 67, 68>>,
      Len64LowSignBit  |-> <<130, MB + 127, 0, 0, 0, 0, 128, 0, 0, 0>> \o KeyB \o <<65>>,
      Len64HighBit     |-> <<129, MB + 127, 128, 0, 0, 0, 0, 0, 0, 0>> \o KeyB \o <<65>>,
      Len64AllOnes     |-> <<129, MB + 127, 255, 255, 255, 255, 255, 255, 255, 255>> \o KeyB,
      Len64Wraps5      |-> <<129, MB + 127, 0, 0, 0, 1, 0, 0, 0, 5>> \o KeyB \o <<65, 66, 67, 68, 69>>,
      Len64Huge        |-> <<129, MB + 127, 0, 0, 0, 0, 127, 255, 255, 255>> \o KeyB \o <<65, 66>>,
      Len64Big         |-> <<129, MB + 127, 0, 0, 0, 0, 4, 0, 0, 1>> \o KeyB \o <<65, 66>>,
      Len64ContNeg     |-> <<128, MB + 127, 0, 0, 0, 0, 255, 255, 255, 255>> \o KeyB,
      PingNoFin        |-> <<9, MB + 1>> \o KeyB \o <<65>>,
      PingLong         |-> <<128 + 9, MB + 126, 0, 126>> \o KeyB \o [i \in 1..126 |-> 66],
      Len16NonMinimal  |-> <<129, MB + 126, 0, 3>> \o KeyB \o <<65, 66, 67>>,
      CloseOneByte     |-> <<128 + 8, MB + 1>> \o KeyB \o <<3>> ]
HostileNames == DOMAIN Hostile
\* 64-bit length fields whose low 32 bits have the sign bit set (the hazard the design names NegativeLength)
NegNames == {"Len64LowSign", "Len64LowSignBit", "Len64ContNeg", "Len64AllOnes"}
GoHostile(h) ==
    /\ ~done /\ k = -1 /\ tail = <<>> /\ h \in HostileNames /\ h \in HostileUsed /\ Len(frames) <= HostileUpTo
    /\ tail' = Hostile[h] /\ hname' = h /\ done' = TRUE
    /\ UNCHANGED <<role, frames, nmsg, nfrag, isopen, nextb, k>>

Wire == EncodeAll(frames) \o tail
Cut == /\ WithCuts /\ (done \/ Len(frames) = MaxFrames)
       /\ IF k = -1 THEN k' = Len(Wire) - 1 ELSE (k > 0 /\ k' = k - 1)
       /\ UNCHANGED <<role, frames, tail, hname, nmsg, nfrag, isopen, nextb, done>>

\* (text and binary alternate: the library's message object carries no type)
Next == \/ \E n \in Chunks, fin \in {0, 1} : Data(IF nmsg % 2 = 0 THEN OpText ELSE OpBin, n, fin)
        \/ \E n \in Chunks, fin \in {0, 1} : Cont(n, fin)
        \/ \E n \in {0, 2} : Control(OpPing, n)
        \/ Control(OpPong, 2)
        \/ \E pl \in ClosePayloads : Close(pl)
        \/ \E h \in HostileNames : GoHostile(h)
        \/ Cut
Spec == Init /\ [][Next]_vars

--------------------------------------------------------------------------------
\* end offset (in bytes) of each frame
RECURSIVE Ends(_, _)
Ends(fs, off) == IF fs = <<>> THEN <<>> ELSE <<off + Len(Encode(Head(fs)))>> \o Ends(Tail(fs), off + Len(Encode(Head(fs))))
FramesWithin(fs, kk) == LET es == Ends(fs, 0) IN SelectSeq([i \in 1..Len(fs) |-> i], LAMBDA i : es[i] <= kk)
CompleteFrames(fs, kk) == [i \in 1..Len(FramesWithin(fs, kk)) |-> fs[i]]
KK(kk, fs, tl) == IF kk = -1 THEN Len(EncodeAll(fs) \o tl) ELSE kk
Rx(fs, kk) == RxAll(CompleteFrames(fs, kk))

RoundTrip == LET d == DecodeAll(EncodeAll(frames)) IN d.fs = frames /\ d.st = "end"
CutAgrees == LET kk == KK(k, frames, tail)
                 d == DecodeAll(SubSeq(Wire, 1, kk))
             IN (tail = <<>> \/ kk <= Len(EncodeAll(frames))) => d.fs = CompleteFrames(frames, kk) /\ d.st \in {"end", "inc"}
\* independent count: bytes of all data frames up to and including the last FIN data frame (close ends everything)
DataPrefix(fs) ==
    LET upto == IF \E i \in 1..Len(fs) : fs[i].op = OpClose THEN (CHOOSE i \in 1..Len(fs) : fs[i].op = OpClose /\ \A j \in 1..(i-1) : fs[j].op # OpClose) - 1 ELSE Len(fs)
        fins == {i \in 1..upto : IsDataOp(fs[i].op) /\ fs[i].fin = 1}
        lastfin == IF fins = {} THEN 0 ELSE CHOOSE i \in fins : \A j \in fins : j <= i
    IN [n |-> Cardinality(fins), bytes |-> Flat([i \in 1..lastfin |-> IF IsDataOp(fs[i].op) THEN fs[i].pl ELSE <<>>])]
ExactlyOnce == LET r == Rx(frames, KK(k, frames, tail))
                   c == CompleteFrames(frames, KK(k, frames, tail))
               IN /\ ~r.bad
                  /\ Len(r.out) = DataPrefix(c).n
                  /\ Flat(r.out) = DataPrefix(c).bytes
PrefixMono == [][k' # k => LET a == Rx(frames, KK(k, frames, tail)).out b == Rx(frames', KK(k', frames', tail')).out
                            IN Len(b) <= Len(a) /\ \A i \in 1..Len(b) : b[i] = a[i]]_vars
\* header length classes (all three occur only in WsFrameSizes; here: the small class)
TypeOK == \A i \in 1..Len(frames) : ValidFrame(frames[i]) /\ Len(Encode(frames[i])) = HeaderLen(frames[i].masked, Len(frames[i].pl)) + Len(frames[i].pl)

--------------------------------------------------------------------------------
\* does a control frame sit between the fragments of a message?  (hazard FinOnControl)
CtlInside(fs) == \E i, j \in 1..Len(fs) : i < j /\ IsDataOp(fs[i].op) /\ fs[i].fin = 0 /\ IsControlOp(fs[j].op)
                    /\ \A m \in (i+1)..j : ~(IsDataOp(fs[m].op) /\ fs[m].fin = 1)
EmptyPing(fs) == \E i \in 1..Len(fs) : fs[i].op = OpPing /\ fs[i].pl = <<>>
Hz(fs, h, kk, tl) == (IF CtlInside(CompleteFrames(fs, kk)) THEN {"FinOnControl"} ELSE {})
                     \cup (IF h \in NegNames /\ kk > Len(EncodeAll(fs)) + 9 THEN {"NegativeLength"} ELSE {})
                     \cup (IF EmptyPing(CompleteFrames(fs, kk)) THEN {"EmptyPingNoPong"} ELSE {})

\* the unmasked encoding of the pongs owed (what a server-role library writes back, byte for byte)
Reply(r) == EncodeAll([i \in 1..Len(r.pongs) |-> Frame(1, OpPong, FALSE, <<>>, r.pongs[i])])

EmitRec(ro, fs, tl, h, kc) ==
    LET w   == EncodeAll(fs) \o tl
        kk  == IF kc = -1 THEN Len(w) ELSE kc
        r   == Rx(fs, kk)
        clean == kk >= Len(w) \/ (kk <= Len(EncodeAll(fs)) /\ \E i \in 1..Len(fs) : Ends(fs, 0)[i] = kk) \/ kk = 0
    IN [k |-> "ws", role |-> ro, w |-> SubSeq(w, 1, kk), cut |-> kc, total |-> Len(w),
        out |-> r.out, reply |-> Reply(r), npong |-> Len(r.pongs), closed |-> r.closed, code |-> r.code, reason |-> r.reason,
        \* hostile: the hostile bytes are (partly) in the stream; trunc: the stream ends (or is closed) inside a frame or inside a message
        hostile |-> (tl # <<>> /\ kk > Len(EncodeAll(fs))),
        trunc |-> (~clean \/ r.open),
        \* the stream ends right behind an empty ping: a client (which reads unmasked, i.e. two-byte frames) may take those two
        \* bytes in front of the EOF for the end of the connection and skip the pong
        lastempty |-> (LET cf == CompleteFrames(fs, kk) IN IF cf = <<>> THEN FALSE ELSE cf[Len(cf)].op = OpPing /\ cf[Len(cf)].pl = <<>>),
        hname |-> h, hz |-> Hz(fs, h, kk, tl)]
Emit == PrintT(ToJson(EmitRec(role', frames', tail', hname', k')))
View == vars
================================================================================
