SPECIFICATION Spec
CONSTANTS
 NR = 3
 MaxNodes = 5
 MaxDepth = 2
 MaxItems = 4
 ScalarIds = {1,3,5,7,8,9,11,12}
 KeyIds = {1,2,3}
 MaxOps = 3
 KeepHist = TRUE
VIEW View
ACTION_CONSTRAINT Emit
INVARIANTS TypeOK RcOK NoDangling Acyclic ObjSorted
PROPERTIES AssignOK ScalarOK CloneOK Independent
CHECK_DEADLOCK FALSE
