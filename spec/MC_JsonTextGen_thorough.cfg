SPECIFICATION Spec
CONSTANTS
 MaxDepth = 2
 MaxItems = 2
 MaxLen = 11
 MaxVar = 2
 MaxStr = 1
 Linear = FALSE
 Stride = 1
VIEW View
ACTION_CONSTRAINT Emit
INVARIANTS TypeOK GenRecAgree PrefixRejected NoExcluded
CHECK_DEADLOCK FALSE
