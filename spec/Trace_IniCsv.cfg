SPECIFICATION TraceSpec
CONSTANTS
 Part = "trace"
 IniLines = {}
 MaxLines = 0
 SetNames = {}
 SetValues = {}
 MaxSets = 0
 Cells = {}
 MaxCols = 1
 MaxCells = 0
POSTCONDITION TraceAccepted
CHECK_DEADLOCK FALSE
