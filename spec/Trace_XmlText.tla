---------------------------- MODULE Trace_XmlText ----------------------------
(* V binding for C07: validates recorded runs of Xml::encode / Xml::decode (harness/c07_record.cpp).
   Trees are logged as node tables in preorder: node i = [k ("e"|"t"), n (tag or text bytes), a (<<name, value>> pairs),
   c (ids of the children), p (id of the node that parent() returned for this node; 0 for the root)].
     rt   orig (tree built through the API), fmt (0 compact, 1 indented), text = Xml::encode(orig, fmt),
          null / dec = Xml::decode(text)
          accepted iff the encoder's text is a document of the specification's XML subset denoting orig
          (Recognize: the independent strict parser), the decoded tree has consistent parent links and equals orig up to
          Normalize; fmt = 1 is only recorded for trees whose text occurs as sole child (checked)
     dec  text = arbitrary bytes (mutated / truncated documents, random bytes), null / dec = Xml::decode(text)
          accepted iff parent links are consistent, and - when Recognize classifies the text as a document of the
          subset - the result is that document's tree up to Normalize                                             *)
EXTENDS XmlText, IOUtils

T == ndJsonDeserialize(IOEnv.TRACE)
VARIABLE l

TableOK(tab) == \A i \in 1..Len(tab) : \A j \in 1..Len(tab[i].c) : tab[i].c[j] \in (i+1)..Len(tab)
ParentOK(tab) == \A i \in 1..Len(tab) : \A j \in 1..Len(tab[i].c) : tab[tab[i].c[j]].p = i
RECURSIVE Build(_, _)
Build(tab, i) == IF tab[i].k = "t" THEN Txt(tab[i].n)
                 ELSE Elem(tab[i].n, [j \in 1..Len(tab[i].a) |-> <<tab[i].a[j][1], tab[i].a[j][2]>>],
                           [j \in 1..Len(tab[i].c) |-> Build(tab, tab[i].c[j])])
\* names the property calls well-formed, no NUL bytes anywhere
RECURSIVE GoodTree(_)
GoodTree(e) == IF e.k = "t" THEN \A i \in 1..Len(e.n) : e.n[i] \in 1..255
               ELSE /\ IsName(e.n)
                    /\ \A i \in 1..Len(e.a) : IsName(e.a[i][1]) /\ \A j \in 1..Len(e.a[i][2]) : e.a[i][2][j] \in 1..255
                    /\ \A i, j \in 1..Len(e.a) : i # j => e.a[i][1] # e.a[j][1]
                    /\ \A i \in 1..Len(e.c) : GoodTree(e.c[i])

RtOK(e) == /\ TableOK(e.orig) /\ TableOK(e.dec)
           /\ LET o == Build(e.orig, 1)
                  r == Recognize(e.text)
              IN /\ o.k = "e" /\ GoodTree(o)
                 /\ e.fmt = 1 => SoleText(o)
                 /\ r.ok /\ Normalize(r.v) = Normalize(o)
                 /\ e.null = 0 /\ e.dec # <<>>
                 /\ ParentOK(e.dec)
                 /\ Normalize(Build(e.dec, 1)) = Normalize(o)
DecOK(e) == /\ TableOK(e.dec)
            /\ ParentOK(e.dec)
            /\ e.null = 1 => e.dec = <<>>
            /\ LET r == Recognize(e.text) IN
               r.ok => (e.null = 0 /\ e.dec # <<>> /\ Normalize(Build(e.dec, 1)) = Normalize(r.v))

TInit == l = 1 /\ Init
TStep == /\ l <= Len(T)
         /\ l' = l + 1
         /\ UNCHANGED vars
         /\ LET e == T[l] IN
            \/ e.e = "reset"
            \/ e.e = "rt" /\ RtOK(e)
            \/ e.e = "dec" /\ DecOK(e)
TraceSpec == TInit /\ [][TStep]_<<vars, l>>
TraceAccepted == TLCGet("stats").diameter - 1 = Len(T)
===============================================================================
