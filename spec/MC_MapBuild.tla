------------------------------ MODULE MC_MapBuild ------------------------------
(* constants of the MapBuild configurations: texts as byte codes *)
EXTENDS MapBuild
\* "a", "ab", "b", "key-with-a-tail-beyond-the-inline-size"  (ascending)
KT == [k \in 1..4 |-> CASE k = 1 -> <<97>> [] k = 2 -> <<97, 98>> [] k = 3 -> <<98>>
                        [] OTHER -> <<107, 101, 121, 45, 119, 105, 116, 104, 45, 97, 45, 116, 97, 105, 108, 45, 98, 101, 121, 111, 110, 100, 45, 105, 110, 108, 105, 110, 101>>]
\* "", "x", "x y-value-of-more-than-fifteen-bytes"
VT == [v \in 1..3 |-> CASE v = 1 -> <<>> [] v = 2 -> <<120>>
                        [] OTHER -> <<120, 32, 121, 45, 118, 97, 108, 117, 101, 45, 111, 102, 45, 109, 111, 114, 101, 45, 116, 104, 97, 110>>]
R(a, b) == [s1 |-> a, s2 |-> b]
\* "," "="   |   ", " ": " is not clean (a value contains a blank): ";;" "=>"   |   "&" ":="
SepList == << R(<<44>>, <<61>>), R(<<59, 59>>, <<61, 62>>), R(<<38>>, <<58, 61>>) >>
\* key conversions (ranks in the target order; the harness holds the keys that realize them):
\*   int2str   int 2, 10, 33, 100 -> String "2", "10", "33", "100": "10" < "100" < "2" < "33"        (non-monotone, injective)
\*   dbl2int   double 1.2, 1.7, 2.5, 2.9 -> int 1, 1, 2, 2                                          (monotone, non-injective)
\*   int2byte  int 300, 10, 266, 5 -> unsigned char 44, 10, 10, 5                                   (non-monotone, non-injective)
\*   int2dbl   int 1, 2, 3, 4 -> double                                                             (monotone, injective)
F4(a, b, c, d) == [k \in 1..4 |-> CASE k = 1 -> a [] k = 2 -> b [] k = 3 -> c [] OTHER -> d]
ConvList == << [name |-> "int2str", f |-> F4(3, 1, 4, 2)], [name |-> "dbl2int", f |-> F4(1, 1, 2, 2)],
               [name |-> "int2byte", f |-> F4(3, 2, 2, 1)], [name |-> "int2dbl", f |-> F4(1, 2, 3, 4)] >>
================================================================================
