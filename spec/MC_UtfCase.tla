------------------------------ MODULE MC_UtfCase ------------------------------
(* C08 growth: walks the code points 0 .. PairHi (the whole case table, the cut-over at 1415, and on past the
   2/3-byte boundary at 2048).  One state per code point (a tree of depth 1, shared by TLC's workers).
   Invariants: the laws of UtfCase.tla on every table entry, and for every pair (c, d) with d <= PairHi that the
   single-code-point verdict of equalsNocase is equality of the lower-cased forms.
   Emit prints for the replayer: the code point, its UTF-8, the bytes toUpperCase / toLowerCase must produce, and
   the set of d in 1..PairHi that equalsNocase must accept (everything else in the range must be rejected).       *)
EXTENDS UtfCase, TLC, Json
CONSTANTS PairHi
VARIABLES c
Init == c = 0 - 1
Next == c = 0 - 1 /\ c' \in 0..PairHi
Spec == Init /\ [][Next]_c

TableOK == (c >= 0 /\ c < CaseN) => TableLaws(c)
PairsOK == c >= 0 => PairLaw(c, PairHi)
\* outside the table both mappings are the identity, re-encoded: the standard encoding for scalar values
BeyondOK == c >= CaseCut => (UpperCp(c) = c /\ LowerCp(c) = c /\ (IsScalar(c) => UpperBytesCp(c) = Enc8(c)))
ASSUME ShapeOK == PairHi > EqCut + 1 /\ PairHi >= CaseN /\ CaseCut < CaseN /\ EqCut < CaseN /\ Len(UpRaw) = CaseN /\ Len(LoRaw) = CaseN
           /\ Len(UcdUp) = CaseN /\ Len(UcdLo) = CaseN

Emit == PrintT(ToJson([k |-> "cp", c |-> c', e8 |-> Enc8(c'), up |-> UpperBytesCp(c'), lo |-> LowerBytesCp(c'),
                       hi |-> PairHi, cls |-> {d \in 1..PairHi : EqCp(c', d)}]))
===============================================================================
