--------------------------- MODULE Trace_Registry ---------------------------
(* X01 part `registry`, V direction: validates runs recorded by harness/x01_registry_record.cpp.
     single    concurrent first use of Singleton<T>::instance() by n free-running threads: accepted iff every thread (and
               the main thread afterwards) got the same instance, the constructor ran exactly once and every thread got a
               completely constructed object ("there can only be one instance")
     sharedmt  a Shared<T> copied, assigned and dropped concurrently by n threads: afterwards exactly the one original
               reference is left, the object is alive, and dropping that reference destroys it exactly once
     sh        one call on the Shared<T> slots: the action of RegistryShared.tla for the call must be enabled and the
               logged observation (referents, reference counts, aliveness, destructor counts) must be the one it prescribes
     reset     fresh slots and objects                                                                            *)
EXTENDS RegistryShared, IOUtils

T == ndJsonDeserialize(IOEnv.TRACE)
VARIABLE l

SetOf(s) == {s[i] : i \in 1..Len(s)}

SingleOK(e) == /\ e.n >= 1 /\ Len(e.ids) = e.n /\ Len(e.ready) = e.n
               /\ Cardinality(SetOf(e.ids) \cup {e.again}) = 1           \* one instance, for everybody
               /\ e.ctor = 1                                             \* constructed exactly once
               /\ SetOf(e.ready) = {1}                                   \* and completely, before anybody gets it
SharedMtOK(e) == /\ e.ctor = 1 /\ e.rc = 1 /\ e.alive = 1 /\ e.dt0 = 0   \* never destroyed while referenced
                 /\ e.dt1 = 1                                            \* destroyed exactly once with the last reference
                 /\ e.touched = e.n * e.rounds
ShOK(e) == /\ e.s \in Slots \cup {0} /\ e.t \in Slots \cup {0}
           /\ IF e.op = "new" THEN e.s \in Slots /\ e.o \in Objs /\ New(e.s, e.o, e.x)
              ELSE IF e.op = "assign" THEN e.s \in Slots /\ e.t \in Slots /\ Assign(e.s, e.t)
              ELSE IF e.op = "copy" THEN e.s \in Slots /\ e.t \in Slots /\ Copy(e.s, e.t)
              ELSE IF e.op = "release" THEN e.s \in Slots /\ Release(e.s)
              ELSE e.op = "temp" /\ e.t \in Slots /\ Temp(e.t) /\ hist'[1].x = e.x
           /\ hist'[1].exp = e.obs

TInit == l = 1 /\ Init
TStep == /\ l <= Len(T)
         /\ l' = l + 1
         /\ LET e == T[l] IN
            \/ e.e = "reset" /\ ptr' = [s \in Slots |-> None] /\ made' = {} /\ dtor' = [o \in Objs |-> 0] /\ hist' = <<>>
            \/ e.e = "single" /\ SingleOK(e) /\ UNCHANGED vars
            \/ e.e = "sharedmt" /\ SharedMtOK(e) /\ UNCHANGED vars
            \/ e.e = "sh" /\ ShOK(e)
TraceSpec == TInit /\ [][TStep]_<<l, vars>>
TraceAccepted == TLCGet("stats").diameter - 1 = Len(T)
=============================================================================
