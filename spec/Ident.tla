------------------------------- MODULE Ident -------------------------------
(* X01 part `ident` - asl::Uuid (Uuid.h) and asl::Random (defs.h).

   A Uuid is a sequence of 16 bytes.  Its text is the canonical RFC 4122 form: 36 characters, 32 lowercase hexadecimal
   digits in groups of 8-4-4-4-12 separated by '-' (asl: Uuid::operator*, operator String).  Parse is the inverse on
   well-formed texts (digits of either case); Uuid.h documents nothing about malformed texts ("Constructs an UUID from a
   string representation"), so Parse only says *that* a text is malformed and the bindings leave the resulting value
   unconstrained.  operator== / != / < are bytewise (memcmp order).  Uuid::generate() is documented as "version 4":
   version nibble 4, variant bits 10 (RFC 4122 section 4.4), values meant to be unique.

   Random: the documented contracts are intervals - integer operator()(m, M) in [m, M], operator()(M) in [0, M], floating
   operator()(m, M) in [m, M] -, "uniformly distributed", a constant sequence after seed(s) / Random(false), normal(m, s),
   coin(p), getBytes(buffer, n) fills n bytes, shuffle permutes.  Characters are byte codes, wide values are limbs.   *)
EXTENDS Integers, Sequences, FiniteSets

Dash == 45
DashPos == {9, 14, 19, 24}
IsByte(b) == b \in 0..255
IsUuid(u) == Len(u) = 16 /\ \A i \in 1..16 : IsByte(u[i])

HexDigit(n) == IF n < 10 THEN 48 + n ELSE 87 + n                \* lowercase
HexVal(c) == IF c \in 48..57 THEN c - 48 ELSE IF c \in 97..102 THEN c - 87 ELSE IF c \in 65..70 THEN c - 55 ELSE -1
LowerC(c) == IF c \in 65..90 THEN c + 32 ELSE c
UpperC(c) == IF c \in 97..122 THEN c - 32 ELSE c
Lower(t) == [i \in 1..Len(t) |-> LowerC(t[i])]
Upper(t) == [i \in 1..Len(t) |-> UpperC(t[i])]

\* text position (1..36) of the high digit of byte i (1..16)
DashesBeforeByte(i) == IF i > 10 THEN 4 ELSE IF i > 8 THEN 3 ELSE IF i > 6 THEN 2 ELSE IF i > 4 THEN 1 ELSE 0
HiPos(i) == 2 * i - 1 + DashesBeforeByte(i)
\* inverse view: hex index (1..32) of a text position that is not a dash
HexIndex(p) == p - Cardinality({q \in DashPos : q < p})

Format(u) == [p \in 1..36 |->
                IF p \in DashPos THEN Dash
                ELSE LET h == HexIndex(p)
                         b == u[(h + 1) \div 2]
                     IN HexDigit(IF h % 2 = 1 THEN b \div 16 ELSE b % 16)]

WellFormed(t) == /\ Len(t) = 36
                 /\ \A p \in 1..36 : IF p \in DashPos THEN t[p] = Dash ELSE HexVal(t[p]) >= 0
Parse(t) == IF WellFormed(t)
            THEN [ok |-> TRUE, v |-> [i \in 1..16 |-> 16 * HexVal(t[HiPos(i)]) + HexVal(t[HiPos(i) + 1])]]
            ELSE [ok |-> FALSE, v |-> <<>>]

\* bytewise order (memcmp)
RECURSIVE LessFrom(_, _, _)
LessFrom(a, b, i) == IF i > 16 THEN FALSE
                     ELSE IF a[i] # b[i] THEN a[i] < b[i] ELSE LessFrom(a, b, i + 1)
Less(a, b) == LessFrom(a, b, 1)

\* RFC 4122: version in the high nibble of octet 6 (time_hi_and_version), variant in the two top bits of octet 8
Version(u) == u[7] \div 16
Variant2(u) == u[9] \div 64
IsV4(u) == IsUuid(u) /\ Version(u) = 4 /\ Variant2(u) = 2

-----------------------------------------------------------------------------
(* Random *)
InRange(a, b, x) == a <= x /\ x <= b

\* a real x given as lo = floor(x * 2^16), hi = ceil(x * 2^16); bounds given in sixteenths (a16 = 16 a): a <= x <= b
InRangeScaled(a16, b16, lo, hi) == a16 * 4096 <= lo /\ hi <= b16 * 4096

\* n independent draws with probability num/den each: the count c lies within 6 standard deviations of the mean
\* (c den - n num)^2 <= 36 n num (den - num); a false alarm has probability < 2e-9.  Callers keep the products below 2^31.
Within6Sigma(c, n, num, den) == LET d == c * den - n * num IN d * d <= 36 * n * num * (den - num)

\* histogram of n draws from the integer interval [m, M] (K = M - m + 1 values, counts[1] for m): nothing outside,
\* every value occurs and every count is within 6 sigma of n / K   ("uniformly distributed")
UniformHist(m, M, n, counts, outside) ==
    LET K == M - m + 1 IN
    /\ outside = 0
    /\ Len(counts) = K
    /\ \A i \in 1..K : counts[i] >= 1 /\ Within6Sigma(counts[i], n, 1, K)

SumSeq(s) == LET RECURSIVE S(_)
                 S(i) == IF i = 0 THEN 0 ELSE s[i] + S(i - 1)
             IN S(Len(s))

CountOf(s, x) == Cardinality({i \in 1..Len(s) : s[i] = x})
IsPermutation(a, b) == Len(a) = Len(b) /\ \A i \in 1..Len(a) : CountOf(a, a[i]) = CountOf(b, a[i])

\* getBytes: runs = the buffer after the call for several initial fill patterns (runs[k] was filled with fills[k])
AllEq(s, x) == \A i \in 1..Len(s) : s[i] = x
Stuck(runs, fills, n) == {i \in 1..n : \A k \in 1..Len(runs) : runs[k][i] = fills[k]}
=============================================================================
