SPECIFICATION TraceSpec
POSTCONDITION TraceAccepted
CHECK_DEADLOCK FALSE
