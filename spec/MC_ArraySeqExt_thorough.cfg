SPECIFICATION SpecExt
CONSTANTS
 NH = 2
 V = {1,2}
 Sizes = {0,2,4}
 MaxLen = 4
 KeepHist = TRUE
 MaxOps = 4
 Lits <- LitsT
VIEW View
ACTION_CONSTRAINT Emit
INVARIANTS TypeOK NoOrphan SomeLive
PROPERTIES Independence CloneFresh
CHECK_DEADLOCK FALSE
