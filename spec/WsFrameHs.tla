------------------------------- MODULE WsFrameHs -------------------------------
(* C11, opening handshake.  Server role: every combination of a client key and a way of writing the upgrade request
   (capitalisation of the header names, "keep-alive, Upgrade", no blank after the colons, a sub-protocol header, requests
   that must be refused) is a state; the spec gives the Sec-WebSocket-Accept value RFC 6455 prescribes
   (Base64(SHA-1(key ++ GUID)), operators of Codecs.tla) and the frames exchanged after the upgrade.
   Client role: responses a server may give (101 / not 101 / 101 without Upgrade) and whether connect() may succeed.

   Checked by TLC: the RFC's own example (key dGhlIHNhbXBsZSBub25jZQ== -> s3pPLMBiTxaQ9kYGzzhZRbK+xOo=), the accept value is
   28 characters that decode to the 20 digest bytes, and the generated request parses back to the key.
   Emitted for harness/c11_replay.cpp: "hs" (the library is the server) and "hsc" (the library is the client).      *)
EXTENDS WsFrame, Json

CONSTANTS NKeys

VARIABLES side, keyn, variant, phase
vars == <<side, keyn, variant, phase>>

\* client keys: Base64 of 16 bytes (key 0 is the RFC's example nonce "the sample nonce")
KeyBytes(n) == IF n = 0 THEN <<116,104,101,32,115,97,109,112,108,101,32,110,111,110,99,101>>
               ELSE [i \in 1..16 |-> (n * 37 + i * (11 + n) + (IF i % 5 = 0 THEN 0 ELSE n * i)) % 256]
Key(n) == Cd!B64Enc(KeyBytes(n))

H(n, sep, v) == [n |-> n, sep |-> sep, v |-> v]
UpperB(s) == [i \in 1..Len(s) |-> IF s[i] \in 97..122 THEN s[i] - 32 ELSE s[i]]
N_Proto == <<83,101,99,45,87,101,98,83,111,99,107,101,116,45,80,114,111,116,111,99,111,108>>   \* Sec-WebSocket-Protocol
V_chat  == <<99,104,97,116>>
V_h     == <<104,58,56,48>>                                                                    \* h:80
V_h2c   == <<104,50,99>>
V_WebSocketMixed == <<87,101,98,83,111,99,107,101,116>>                                        \* WebSocket
Path    == <<47,99,104,97,116>>                                                                \* /chat

Std(key, sp) == << H(N_Host, sp, V_h), H(N_Upgrade, sp, V_websocket), H(N_Conn, sp, V_Upgrade), H(N_Key, sp, key), H(N_Version, sp, V_13) >>
ServerVariants == {"std", "lower", "upper", "keepalive", "nospace", "proto", "noupgrade", "h2c", "mixedcase"}
ReqHeaders(v, key) ==
    IF v = "std" THEN Std(key, <<32>>)
    ELSE IF v = "lower" THEN [i \in 1..5 |-> [Std(key, <<32>>)[i] EXCEPT !.n = LowerB(@)]]
    ELSE IF v = "upper" THEN [i \in 1..5 |-> [Std(key, <<32>>)[i] EXCEPT !.n = UpperB(@)]]
    ELSE IF v = "keepalive" THEN [Std(key, <<32>>) EXCEPT ![3] = H(N_Conn, <<32>>, V_KaUpgrade)]
    ELSE IF v = "nospace" THEN Std(key, <<>>)
    ELSE IF v = "proto" THEN Std(key, <<32>>) \o <<H(N_Proto, <<32>>, V_chat)>>
    ELSE IF v = "noupgrade" THEN << H(N_Host, <<32>>, V_h), H(N_Conn, <<32>>, V_Upgrade), H(N_Key, <<32>>, key), H(N_Version, <<32>>, V_13) >>
    ELSE IF v = "h2c" THEN [Std(key, <<32>>) EXCEPT ![2] = H(N_Upgrade, <<32>>, V_h2c)]
    ELSE [Std(key, <<32>>) EXCEPT ![2] = H(N_Upgrade, <<32>>, V_WebSocketMixed)]
\* must the server upgrade?  "yes" / "no" / "any" (RFC: the Upgrade token is case-insensitive; the property does not say)
MustUpgrade(v) == IF v \in {"noupgrade", "h2c"} THEN "no" ELSE IF v = "mixedcase" THEN "any" ELSE "yes"

ClientVariants == {"ok", "status200", "noupgradehdr", "lowernames"}
L_200 == <<72,84,84,80,47,49,46,49,32,50,48,48,32,79,75>>     \* HTTP/1.1 200 OK
RespFor(v, accept) ==
    IF v = "ok" THEN HandshakeResponse(accept)
    ELSE IF v = "status200" THEN L_200 \o CRLF \o HeaderLines(<<H(N_Upgrade, <<32>>, V_websocket), H(N_Conn, <<32>>, V_Upgrade), H(N_Accept, <<32>>, accept)>>) \o CRLF
    ELSE IF v = "noupgradehdr" THEN L_101 \o CRLF \o HeaderLines(<<H(N_Conn, <<32>>, V_Upgrade), H(N_Accept, <<32>>, accept)>>) \o CRLF
    ELSE L_101 \o CRLF \o HeaderLines(<<H(LowerB(N_Upgrade), <<32>>, V_websocket), H(LowerB(N_Conn), <<32>>, V_Upgrade), H(LowerB(N_Accept), <<32>>, accept)>>) \o CRLF
MayConnect(v) == IF v = "ok" THEN "yes" ELSE IF v = "lowernames" THEN "any" ELSE "no"

Init == /\ side \in {"server", "client"} /\ keyn \in 0..NKeys /\ phase = "new"
        /\ variant \in (IF side = "server" THEN ServerVariants ELSE ClientVariants)
        /\ (side = "client" => keyn = 0)
Shake == phase = "new" /\ phase' = "done" /\ UNCHANGED <<side, keyn, variant>>
Next == Shake
Spec == Init /\ [][Next]_vars

\* frames after the upgrade: one text message and a close; the harness' server echoes every message
Hi == <<104, 105>>
AfterC2S == EncodeAll(<<Frame(1, OpText, TRUE, <<9, 8, 7, 6>>, Hi), Frame(1, OpClose, TRUE, <<1, 0, 1, 0>>, <<3, 232>>)>>)
AfterS2C == EncodeAll(<<Frame(1, OpText, FALSE, <<>>, Hi), Frame(1, OpClose, FALSE, <<>>, <<3, 232>>)>>)
Echo     == Encode(Frame(1, OpText, FALSE, <<>>, Hi))

SampleOK  == Accept(SampleKey) = SampleAccept /\ Key(0) = SampleKey
AcceptOK  == LET a == Accept(Key(keyn)) d == Cd!B64DecNoWs(a) IN
             Len(a) = 28 /\ d.ok /\ d.v = Cd!Sha1Bytes(Key(keyn) \o GUID) /\ Len(d.v) = 20 /\ Len(Key(keyn)) = 24
RequestParses == side = "server" =>
             LET req == HandshakeRequest(Path, ReqHeaders(variant, Key(keyn)))
                 hl == HeadLines(req, 1, <<>>)
             IN hl.ok /\ hl.p = Len(req) + 1 /\ HeadValue(hl.lines, LowerB(N_Key)) = Key(keyn)
                /\ hl.lines[1] = L_Get \o Path \o L_Http11

EmitRec(sd, kn, v) ==
    IF sd = "server"
    THEN [k |-> "hs", variant |-> v, req |-> HandshakeRequest(Path, ReqHeaders(v, Key(kn))), key |-> Key(kn), accept |-> Accept(Key(kn)),
          upgrade |-> MustUpgrade(v), proto |-> (v = "proto"), w |-> AfterC2S, out |-> <<Hi>>, echo |-> Echo]
    ELSE [k |-> "hsc", variant |-> v, path |-> Path, resp |-> RespFor(v, Accept(Key(0))), connect |-> MayConnect(v), w |-> AfterS2C, out |-> <<Hi>>]
Emit == PrintT(ToJson(EmitRec(side', keyn', variant')))
================================================================================
