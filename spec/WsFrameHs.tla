------------------------------- MODULE WsFrameHs -------------------------------
(* C11, opening handshake.  Server role: every combination of a client key and a way of writing the upgrade request
   (capitalisation of the header names, "keep-alive, Upgrade", no blank after the colons, a sub-protocol header, requests
   that must be refused) is a state; the spec gives the Sec-WebSocket-Accept value RFC 6455 prescribes
   (Base64(SHA-1(key ++ GUID)), operators of Codecs.tla) and the frames exchanged after the upgrade.
   Client role: responses a server may give (101 / not 101 / 101 without Upgrade) and whether connect() may succeed.

   Checked by TLC: the RFC's own example (key dGhlIHNhbXBsZSBub25jZQ== -> s3pPLMBiTxaQ9kYGzzhZRbK+xOo=), the accept value is
   28 characters that decode to the 20 digest bytes, and the generated request parses back to the key.
   Emitted for harness/c11_replay.cpp: "hs" (the library is the server) and "hsc" (the library is the client).      *)
EXTENDS WsFrame, Json

CONSTANTS NKeys

VARIABLES side, keyn, variant, phase,
          cut       \* client role: -1, or the server closes the connection after this many bytes of its response
vars == <<side, keyn, variant, phase, cut>>

\* client keys: Base64 of 16 bytes (key 0 is the RFC's example nonce "the sample nonce")
KeyBytes(n) == IF n = 0 THEN <<116,104,101,32,115,97,109,112,108,101,32,110,111,110,99,101>>
               ELSE [i \in 1..16 |-> (n * 37 + i * (11 + n) + (IF i % 5 = 0 THEN 0 ELSE n * i)) % 256]
Key(n) == Cd!B64Enc(KeyBytes(n))

H(n, sep, v) == [n |-> n, sep |-> sep, v |-> v]
UpperB(s) == [i \in 1..Len(s) |-> IF s[i] \in 97..122 THEN s[i] - 32 ELSE s[i]]
N_Proto == <<83,101,99,45,87,101,98,83,111,99,107,101,116,45,80,114,111,116,111,99,111,108>>   \* Sec-WebSocket-Protocol
V_chat  == <<99,104,97,116>>
V_h     == <<104,58,56,48>>                                                                    \* h:80
V_h2c   == <<104,50,99>>
V_WebSocketMixed == <<87,101,98,83,111,99,107,101,116>>                                        \* WebSocket
Path    == <<47,99,104,97,116>>                                                                \* /chat

Std(key, sp) == << H(N_Host, sp, V_h), H(N_Upgrade, sp, V_websocket), H(N_Conn, sp, V_Upgrade), H(N_Key, sp, key), H(N_Version, sp, V_13) >>
\* "proto" / "proto2" (growth): the client offers the sub-protocol chat / mqtt.  RFC 6455 4.2.2 (/protocol/): the server's
\* Sec-WebSocket-Protocol, if it sends one, names a sub-protocol the client offered (4.1: otherwise the client must fail the
\* connection).  Hazard name for a server that answers with a fixed name: ProtocolNotOffered.
ServerVariants == {"std", "lower", "upper", "keepalive", "nospace", "proto", "proto2", "noupgrade", "h2c", "mixedcase"}
V_mqtt == <<109,113,116,116>>
Offered(v) == IF v = "proto" THEN <<V_chat>> ELSE IF v = "proto2" THEN <<V_mqtt>> ELSE <<>>
ReqHeaders(v, key) ==
    IF v = "std" THEN Std(key, <<32>>)
    ELSE IF v = "lower" THEN [i \in 1..5 |-> [Std(key, <<32>>)[i] EXCEPT !.n = LowerB(@)]]
    ELSE IF v = "upper" THEN [i \in 1..5 |-> [Std(key, <<32>>)[i] EXCEPT !.n = UpperB(@)]]
    ELSE IF v = "keepalive" THEN [Std(key, <<32>>) EXCEPT ![3] = H(N_Conn, <<32>>, V_KaUpgrade)]
    ELSE IF v = "nospace" THEN Std(key, <<>>)
    ELSE IF v = "proto" THEN Std(key, <<32>>) \o <<H(N_Proto, <<32>>, V_chat)>>
    ELSE IF v = "proto2" THEN Std(key, <<32>>) \o <<H(N_Proto, <<32>>, V_mqtt)>>
    ELSE IF v = "noupgrade" THEN << H(N_Host, <<32>>, V_h), H(N_Conn, <<32>>, V_Upgrade), H(N_Key, <<32>>, key), H(N_Version, <<32>>, V_13) >>
    ELSE IF v = "h2c" THEN [Std(key, <<32>>) EXCEPT ![2] = H(N_Upgrade, <<32>>, V_h2c)]
    ELSE [Std(key, <<32>>) EXCEPT ![2] = H(N_Upgrade, <<32>>, V_WebSocketMixed)]
\* must the server upgrade?  "yes" / "no" / "any" (RFC: the Upgrade token is case-insensitive; the property does not say)
MustUpgrade(v) == IF v \in {"noupgrade", "h2c"} THEN "no" ELSE IF v = "mixedcase" THEN "any" ELSE "yes"

\* client role (growth): the response carries the accept value of the key the CLIENT chose (the replayer's raw server puts it
\* where the response has AcceptSlot), the value of another key, or none; the server may close during the handshake (cut);
\* or nobody listens on the port at all ("refused").  RFC 6455 4.1: the client MUST fail the connection when the status is
\* not 101, when Upgrade / Connection are missing or wrong, and when Sec-WebSocket-Accept is missing or is not the Base64 of
\* the SHA-1 of its key and the GUID (hazard name for a client that does not look at it: ClientAcceptUnchecked).
ClientVariants == {"ok", "status200", "noupgradehdr", "lowernames", "badaccept", "noaccept", "refused"}
AcceptSlot == [i \in 1..28 |-> 37]
L_200 == <<72,84,84,80,47,49,46,49,32,50,48,48,32,79,75>>     \* HTTP/1.1 200 OK
RespFor(v, accept) ==
    IF v = "ok" THEN HandshakeResponse(accept)
    ELSE IF v = "status200" THEN L_200 \o CRLF \o HeaderLines(<<H(N_Upgrade, <<32>>, V_websocket), H(N_Conn, <<32>>, V_Upgrade), H(N_Accept, <<32>>, accept)>>) \o CRLF
    ELSE IF v = "noupgradehdr" THEN L_101 \o CRLF \o HeaderLines(<<H(N_Conn, <<32>>, V_Upgrade), H(N_Accept, <<32>>, accept)>>) \o CRLF
    ELSE IF v = "badaccept" THEN HandshakeResponse(SampleAccept)              \* (the client's key is random: not the RFC's sample key)
    ELSE IF v = "noaccept" THEN L_101 \o CRLF \o HeaderLines(<<H(N_Upgrade, <<32>>, V_websocket), H(N_Conn, <<32>>, V_Upgrade)>>) \o CRLF
    ELSE IF v = "refused" THEN <<>>
    ELSE L_101 \o CRLF \o HeaderLines(<<H(LowerB(N_Upgrade), <<32>>, V_websocket), H(LowerB(N_Conn), <<32>>, V_Upgrade), H(LowerB(N_Accept), <<32>>, accept)>>) \o CRLF
\* (a response that only lacks its very last LF when the server closes: the head is recognisable, left open)
MayConnect(v, ct) == IF ct >= 0 THEN (IF ct = Len(RespFor("ok", AcceptSlot)) - 1 THEN "any" ELSE "no") ELSE IF v = "ok" THEN "yes" ELSE IF v = "lowernames" THEN "any" ELSE "no"
ClientHz(v) == IF v \in {"badaccept", "noaccept"} THEN {"ClientAcceptUnchecked"} ELSE {}

\* a WebSocketServer linked to an HttpServer (HttpServer::link): ordinary requests on the port are answered by the HTTP
\* handler (here: 200 with the body "ok:" ++ path), an upgrade request on the same port - also after keep-alive requests on
\* the same connection - is handed over to the WebSocket server; other connections go on being served as HTTP
LinkVariants == {"ws0", "ws1", "ws2", "plain"}
V_keepalive == <<107,101,101,112,45,97,108,105,118,101>>
PlainPath(i) == <<47, 112, 48 + i>>                                                         \* /p1 ...
PlainReq(path) == L_Get \o path \o L_Http11 \o CRLF \o HeaderLines(<<H(N_Host, <<32>>, V_h), H(N_Conn, <<32>>, V_keepalive)>>) \o CRLF
HttpBody(path) == <<111, 107, 58>> \o path                                                  \* ok:/p1
Plain(i) == [req |-> PlainReq(PlainPath(i)), status |-> 200, body |-> HttpBody(PlainPath(i))]
NPre(v) == IF v = "ws1" THEN 1 ELSE IF v = "ws2" \/ v = "plain" THEN 2 ELSE 0

Init == /\ side \in {"server", "client", "link"} /\ keyn \in 0..NKeys /\ phase = "new"
        /\ variant \in (IF side = "server" THEN ServerVariants ELSE IF side = "client" THEN ClientVariants ELSE LinkVariants)
        /\ (side = "client" => keyn = 0) /\ (side = "link" => keyn <= 2)
        /\ cut \in (IF side = "client" /\ variant = "ok" THEN -1..(Len(RespFor("ok", AcceptSlot)) - 1) ELSE {-1})
Shake == phase = "new" /\ phase' = "done" /\ UNCHANGED <<side, keyn, variant, cut>>
Next == Shake
Spec == Init /\ [][Next]_vars

\* frames after the upgrade: one text message and a close; the harness' server echoes every message
Hi == <<104, 105>>
AfterC2S == EncodeAll(<<Frame(1, OpText, TRUE, <<9, 8, 7, 6>>, Hi), Frame(1, OpClose, TRUE, <<1, 0, 1, 0>>, <<3, 232>>)>>)
AfterS2C == EncodeAll(<<Frame(1, OpText, FALSE, <<>>, Hi), Frame(1, OpClose, FALSE, <<>>, <<3, 232>>)>>)
Echo     == Encode(Frame(1, OpText, FALSE, <<>>, Hi))

SampleOK  == Accept(SampleKey) = SampleAccept /\ Key(0) = SampleKey
AcceptOK  == LET a == Accept(Key(keyn)) d == Cd!B64DecNoWs(a) IN
             Len(a) = 28 /\ d.ok /\ d.v = Cd!Sha1Bytes(Key(keyn) \o GUID) /\ Len(d.v) = 20 /\ Len(Key(keyn)) = 24
RequestParses == side = "server" =>
             LET req == HandshakeRequest(Path, ReqHeaders(variant, Key(keyn)))
                 hl == HeadLines(req, 1, <<>>)
             IN hl.ok /\ hl.p = Len(req) + 1 /\ HeadValue(hl.lines, LowerB(N_Key)) = Key(keyn)
                /\ hl.lines[1] = L_Get \o Path \o L_Http11

EmitRec(sd, kn, v, ct) ==
    IF sd = "server"
    THEN [k |-> "hs", variant |-> v, req |-> HandshakeRequest(Path, ReqHeaders(v, Key(kn))), key |-> Key(kn), accept |-> Accept(Key(kn)),
          upgrade |-> MustUpgrade(v), proto |-> (v = "proto"), offered |-> Offered(v), w |-> AfterC2S, out |-> <<Hi>>, echo |-> Echo,
          hz |-> IF v = "proto2" THEN {"ProtocolNotOffered"} ELSE {}]
    ELSE IF sd = "client"
    THEN [k |-> "hsc", variant |-> v, path |-> Path, resp |-> RespFor(v, AcceptSlot), cut |-> ct, connect |-> MayConnect(v, ct), w |-> AfterS2C, out |-> <<Hi>>,
          hz |-> ClientHz(v)]
    ELSE [k |-> "link", variant |-> v, pre |-> [i \in 1..NPre(v) |-> Plain(i)], upgrade |-> v # "plain",
          req |-> HandshakeRequest(Path, ReqHeaders("std", Key(kn))), accept |-> Accept(Key(kn)), w |-> AfterC2S, out |-> <<Hi>>, echo |-> Echo,
          post |-> Plain(7)]
Emit == PrintT(ToJson(EmitRec(side', keyn', variant', cut')))
================================================================================
