------------------------------- MODULE UtfLocal -------------------------------
(* C08 growth - String::fromLocal / String::toLocal (text in the encoding of the process locale <-> the library's
   UTF-8), which go through the C library's mbstowcs / wcstombs.

   The C library is the environment.  Two locales of this platform are modelled (the replayer verifies these
   assumptions on the running C library before it uses a case):
     "C"       the portable character set only: a byte / wide character >= 0x80 makes the conversion fail;
     "C.utf8"  strict UTF-8 (table 3-7) <-> one wide character per scalar value (wchar_t has 32 bits here);
               ill-formed bytes, and wide characters that are not scalar values, make the conversion fail.
   The library's contract, as far as its header states it ("creates a UTF-8 string from a string in the local
   charset", "returns a local charset version of this string"):
     * if the C library can convert the whole text, the result is that text in the other encoding - in particular
       characters beyond the BMP, which the C library hands over as one wide character and the library keeps as
       a surrogate pair, survive;
     * if it cannot (def = FALSE), the header promises nothing about the value: only termination, memory safety
       and a bounded result are required.  Other locales are not modelled.                                       *)
EXTENDS UtfLax

Locales == {"C", "C.utf8"}
AllBelow(s, k) == \A i \in 1..Len(s) : s[i] < k

\* environment: multibyte text -> wide characters, wide characters -> multibyte text
MbToWc(loc, a) == IF loc = "C" THEN [ok |-> AllBelow(a, 128), cs |-> IF AllBelow(a, 128) THEN a ELSE <<>>] ELSE Dec8Seq(a)
WcToMb(loc, cs) == IF loc = "C" THEN [ok |-> AllBelow(cs, 128), bs |-> IF AllBelow(cs, 128) THEN cs ELSE <<>>]
                   ELSE [ok |-> \A i \in 1..Len(cs) : IsScalar(cs[i]), bs |-> Enc8Seq(cs)]

\* the library: a = local text (any bytes without NUL), s = a String (any bytes without NUL)
FromLocal(loc, a) == LET d == MbToWc(loc, a) IN [def |-> d.ok, s |-> IF d.ok THEN Enc8Seq(d.cs) ELSE <<>>]
ToLocal(loc, s) == LET d == Dec8Seq(s)
                       e == WcToMb(loc, d.cs)
                   IN [def |-> d.ok /\ e.ok, s |-> IF d.ok /\ e.ok THEN e.bs ELSE <<>>]
\* what is required of a result r when the value is not defined
LocalBound(a, r) == Len(r) <= 4 * Len(a)

\* laws: there and back again; UTF-8 locale: both directions are the identity on well-formed text; C locale: on ASCII
LocalLaws(loc, a) ==
    LET f == FromLocal(loc, a)  t == ToLocal(loc, a) IN
    /\ f.def => (WellFormed8(f.s) /\ ToLocal(loc, f.s) = [def |-> TRUE, s |-> a])
    /\ t.def => FromLocal(loc, t.s) = [def |-> TRUE, s |-> a]
    /\ (loc = "C.utf8") => (f.def = WellFormed8(a) /\ t.def = WellFormed8(a) /\ (f.def => f.s = a /\ t.s = a))
    /\ (loc = "C") => (f.def = IsAscii(a) /\ t.def = IsAscii(a) /\ (f.def => f.s = a /\ t.s = a))
===============================================================================
