SPECIFICATION Spec
CONSTANTS
 KindC = "raw"
 KindS = "lib"
 MaxOps = 7
 MaxMsgs = 2
 MaxCtl = 0
 LibLens = {126,4000}
 RawLens = {126,65536}
 Shapes = {"whole","two","three","pinged","begin"}
 CloseFrames = {}
 CtlPls = {}
 Observers = {"wait", "closed", "hasinput"}
VIEW View
ACTION_CONSTRAINT Emit
INVARIANTS TypeOK PrefixDelivery NoLoss PongsAnswerPings
PROPERTIES Monotone QuietAfterClose
CHECK_DEADLOCK FALSE
