SPECIFICATION Spec
CONSTANTS
 CapIn = 16
 CapOut = 16
 CapErr = 16
 Scenarios <- ScThorough
INVARIANTS FifoOrder Bounded ExecNeverStuck
CHECK_DEADLOCK FALSE
