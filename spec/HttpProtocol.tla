------------------------------- MODULE HttpProtocol -------------------------------
(* C10 - the exchange with several clients in flight: every handler reads the request sent on *its* connection, every
   client receives the response produced for *its* request (isolation), whatever the interleaving of the steps.   *)
EXTENDS HttpExchange

-----------------------------------------------------------------------------
(* exchange protocol with several clients in flight; requests are drawn from a small set of distinct descriptors *)
CONSTANTS NClients, ReqSet, RespSet
Cl == 1..NClients
VARIABLES sent, wire, seen, answer, back, got
pvars == <<sent, wire, seen, answer, back, got>>
None == [none |-> TRUE]
PInit == /\ sent = [c \in Cl |-> None] /\ wire = [c \in Cl |-> None] /\ seen = [c \in Cl |-> None]
         /\ answer = [c \in Cl |-> None] /\ back = [c \in Cl |-> None] /\ got = [c \in Cl |-> None]
Send(c) == /\ sent[c] = None /\ \E r \in ReqSet : sent' = [sent EXCEPT ![c] = r] /\ wire' = [wire EXCEPT ![c] = r]
           /\ UNCHANGED <<seen, answer, back, got>>
Handle(c) == /\ wire[c] # None /\ seen[c] = None          \* the handler of connection c reads from connection c only
             /\ seen' = [seen EXCEPT ![c] = HandlerView(wire[c])]
             /\ UNCHANGED <<sent, wire, answer, back, got>>
Respond(c) == /\ seen[c] # None /\ answer[c] = None
              /\ \E p \in RespSet : answer' = [answer EXCEPT ![c] = p] /\ back' = [back EXCEPT ![c] = p]
              /\ UNCHANGED <<sent, wire, seen, got>>
Receive(c) == /\ back[c] # None /\ got[c] = None
              /\ got' = [got EXCEPT ![c] = ClientView(back[c], <<>>)]
              /\ UNCHANGED <<sent, wire, seen, answer, back>>
PNext == \E c \in Cl : Send(c) \/ Handle(c) \/ Respond(c) \/ Receive(c)
PSpec == PInit /\ [][PNext]_pvars
HandlerSeesOwnRequest == \A c \in Cl : seen[c] # None => seen[c] = HandlerView(sent[c])
ClientGetsOwnResponse == \A c \in Cl : got[c] # None => got[c] = ClientView(answer[c], <<>>)


BaseReq(m, n) == [method |-> m, segs |-> << <<97>> >>, query |-> <<>>, headers |-> <<>>, blen |-> n, bseed |-> n, range |-> <<>>]
BaseResp(c, n) == [code |-> c, headers |-> <<>>, kind |-> "bytes", blen |-> n, bseed |-> n, json |-> 0, fsize |-> 0]
MCReq == {BaseReq("GET", 0), BaseReq("POST", 3)}
MCResp == {BaseResp(200, 5), BaseResp(404, 0)}
=============================================================================
