SPECIFICATION Spec
CONSTANTS
 MaxDepth = 2
 MaxItems = 2
 MaxLen = 11
 MaxVar = 2
VIEW View
ACTION_CONSTRAINT Emit
INVARIANTS TypeOK JsonSubset
CHECK_DEADLOCK FALSE
