SPECIFICATION Spec
CONSTANTS
 Alpha = {0, 65, 97, 195, 137, 169, 200, 186, 214, 134, 135, 136, 206, 163, 207, 130, 131, 226, 177, 240, 255}
 MaxLen = 3
INVARIANTS TwoFormulations DecodeEncode CaseMaps CStrOK LaxLaws
ACTION_CONSTRAINT Emit
CHECK_DEADLOCK FALSE
