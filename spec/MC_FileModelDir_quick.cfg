SPECIFICATION Spec
CONSTANTS
 Nodes <- NodesQ
 Contents <- ContentsQ
 InitTrees <- TreesQ
 Patterns <- PatternsQ
 MaxOps = 2
 MaxTemps = 1
 KeepHist = TRUE
VIEW View
ACTION_CONSTRAINT Emit
INVARIANTS TypeOK TreeOK ListingOK
PROPERTIES FailedUnchanged CopyExact MoveExact RemoveLocal CreateMonotone
CHECK_DEADLOCK FALSE
