----------------------------- MODULE MC_UtfScalars -----------------------------
(* C08, exhaustive part: every Unicode scalar value (1 112 064 of them) and every short sequence over the scalars
   that sit on the 1/2/3/4-byte and BMP/supplementary boundaries.

   The state graph is a tree so that TLC's workers share the work: root -> 272 "planes" of 4096 code points ->
   blocks of BS consecutive code points (surrogate blocks are not scalar values and are not generated);
   root -> sequences over Bound of length 1..MaxSeq.  The invariants are the property on the specification
   itself (two formulations checked against each other: the encoders, and the strict table-3-7 decoders);
   ACTION_CONSTRAINT Emit prints the table (c, Enc8(c), Enc16(c)) and the sequence encodings for the replayer
   (harness/c08_replay.cpp), which runs every conversion of the real library on them.

   Stride > 1 visits only every Stride-th block plus every block near a member of Bound (not used by the shipped
   configurations: the full walk takes a few seconds).                                                          *)
EXTENDS UtfCase, TLC, Json, FiniteSets
CONSTANTS BS,       \* block size (divides 4096, at most 2048 so that the surrogate range is a union of blocks)
          Stride,
          Bound,    \* boundary scalars (non-zero): sequences are built from them
          MaxSeq
VARIABLES lvl, v, cs
vars == <<lvl, v, cs>>
NPlanes == 272

Init == lvl = 0 /\ v = 0 /\ cs = <<>>
NearBound(b) == \E x \in Bound : x + BS >= b /\ x < b + 2 * BS
Plane == /\ lvl = 0 /\ lvl' = 1 /\ v' \in 0..(NPlanes - 1) /\ UNCHANGED cs
Block == /\ lvl = 1 /\ lvl' = 2 /\ UNCHANGED cs
         /\ \E k \in 0..((4096 \div BS) - 1) :
              LET b == v * 4096 + BS * k IN
              /\ ~IsSurrogate(b)
              /\ (IF (b \div BS) % Stride = 0 THEN TRUE ELSE NearBound(b))   \* (a disjunction would yield the successor twice)
              /\ v' = b
SeqStep == /\ lvl \in {0, 3} /\ Len(cs) < MaxSeq /\ lvl' = 3 /\ UNCHANGED v
           /\ \E c \in Bound : cs' = Append(cs, c)
Next == Plane \/ Block \/ SeqStep
Spec == Init /\ [][Next]_vars

-------------------------------------------------------------------------------
ScalarOK(c) == /\ Dec8(Enc8(c)) = c
               /\ Dec16(Enc16(c)) = c
               /\ Len(Enc8(c)) = Len8(c)
               /\ Len(Enc16(c)) = Len16(c)
               /\ \A i \in 1..Len(Enc8(c)) : Enc8(c)[i] \in 0..255 /\ (Enc8(c)[i] = 0 <=> c = 0)
               /\ \A i \in 1..Len(Enc16(c)) : Enc16(c)[i] \in 0..65535
               /\ Dec16Seq(Enc16(c)).ok
               \* a proper prefix of an encoding is never well-formed text (truncation is always detectable)
               /\ \A n \in 1..(Len(Enc8(c)) - 1) : ~WellFormed8(SubSeq(Enc8(c), 1, n))
\* the property: lossless on every scalar value
RoundTrip == lvl = 2 => \A c \in v..(v + BS - 1) : IsScalar(c) /\ ScalarOK(c)
\* ... and on sequences
RECURSIVE SumLen8(_)
SumLen8(s) == IF s = <<>> THEN 0 ELSE Len8(Head(s)) + SumLen8(Tail(s))
SeqRoundTrip == lvl = 3 => /\ Dec8Seq(Enc8Seq(cs)) = [ok |-> TRUE, cs |-> cs]
                           /\ Dec16Seq(Enc16Seq(cs)) = [ok |-> TRUE, cs |-> cs]
                           /\ Len(Enc8Seq(cs)) = SumLen8(cs)
BoundOK == \A c \in Bound : IsScalar(c) /\ c # 0

\* table rows: code point, UTF-8, UTF-16 and, for ASCII, the C-locale upper and lower case
Entry(c) == IF c < 128 THEN <<c, Enc8(c), Enc16(c), UpB(c), LoB(c)>> ELSE <<c, Enc8(c), Enc16(c)>>
\* for sequences also the lengths of the encodings of every prefix (the conversions take a character limit)
\* growth: the case functions on every scalar value.  Below CaseCut the table applies (compared entry by entry in
\* MC_UtfCase.tla); from CaseCut on UtfCase.tla makes both mappings the identity re-encoded, which for scalar values is
\* the standard encoding: cid is that statement evaluated by TLC for the block, cut tells the replayer where it starts.
CaseIdentity(b) == \A c \in b..(b + BS - 1) : c >= CaseCut => (UpperBytesCp(c) = Enc8(c) /\ LowerBytesCp(c) = Enc8(c))
CaseIdentityOK == lvl = 2 => CaseIdentity(v)
Emit == /\ lvl' = 2 => PrintT(ToJson([k |-> "blk", e |-> [i \in 1..BS |-> Entry(v' + i - 1)], cut |-> CaseCut, cid |-> CaseIdentity(v')]))
        /\ lvl' = 3 => PrintT(ToJson([k |-> "seq", cs |-> cs', e8 |-> Enc8Seq(cs'), e16 |-> Enc16Seq(cs'),
                                       pl8 |-> [i \in 1..Len(cs') |-> Len(Enc8Seq(SubSeq(cs', 1, i)))],
                                       pl16 |-> [i \in 1..Len(cs') |-> Len(Enc16Seq(SubSeq(cs', 1, i)))]]))
===============================================================================
