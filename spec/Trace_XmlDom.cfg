SPECIFICATION TraceSpec
CONSTANTS
 NH = 8
 MaxNodes = 96
 TagSeq <- TagsRec
 ANames <- ANamesRec
 AVals = {}
 DTexts = {}
 MaxKids = 100000
 MaxSize = 100000
 MaxOps = 0
 Ops <- AllOps
 KeepHist = FALSE
INVARIANTS TypeOK NoGarbage AmbSound ParentInverse
PROPERTIES CloneSeparate EditLocal NavigationPure
POSTCONDITION TraceAccepted
CHECK_DEADLOCK FALSE
