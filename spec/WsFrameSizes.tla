----------------------------- MODULE WsFrameSizes -----------------------------
(* C11, payload sizes: every length of the set Lens (all lengths around the three header-format boundaries 125/126 and
   65535/65536, sampled elsewhere), both roles, four mask keys (with zero bytes), sent whole or split into up to 4 frames
   at the boundaries.  The model is header-only for the payload: a payload is (len, seed) and its bytes are
   PayloadByte(seed, i); the header bytes are computed here.

   Checked by TLC: the length class of every header (2 / 4 / 10 bytes + 4 with a key) and its fields decode back
   (DecodeHeader(Header(..)) = ..); for lengths up to 300 the whole frame round-trips byte for byte.
   Every state is emitted twice for harness/c11_replay.cpp: "size" = these frames are sent TO the library (receiver), and
   "send" = the library is asked to send such a message and the bytes it writes must be this header + this payload.   *)
EXTENDS WsFrame, Json

CONSTANTS Lens

VARIABLES role, len, parts, keyi, phase
vars == <<role, len, parts, keyi, phase>>

Keys == << <<0, 0, 0, 0>>, <<1, 2, 3, 4>>, <<255, 0, 128, 7>>, <<0, 90, 0, 165>> >>
\* ways to split a message of n bytes into up to 4 frames (sizes; boundaries of the small header class on purpose)
Splits(n) == {<<n>>}
             \cup (IF n > 1 THEN {<<1, n - 1>>} ELSE {})
             \cup (IF n > 126 THEN {<<125, n - 125>>, <<126, n - 126>>} ELSE {})
             \cup (IF n > 130 THEN {<<125, 1, 0, n - 126>>} ELSE {})
             \cup (IF n > 65536 THEN {<<65535, n - 65535>>, <<65536, n - 65536>>} ELSE {})

Init == /\ role \in {"c2s", "s2c"} /\ len \in Lens /\ keyi \in 1..4 /\ parts \in Splits(len) /\ phase = "new"
Send == phase = "new" /\ phase' = "sent" /\ UNCHANGED <<role, len, parts, keyi>>
Next == Send
Spec == Init /\ [][Next]_vars

Masked == role = "c2s"
SeedOf(i) == (len + 17 * i) % 256
KeyOf(i) == Keys[((keyi + i) % 4) + 1]
FrameDesc(i) == [hdr |-> Header(IF i = Len(parts) THEN 1 ELSE 0, 0, IF i = 1 THEN OpBin ELSE OpCont, Masked, KeyOf(i), parts[i]),
                 len |-> parts[i], seed |-> SeedOf(i), key |-> IF Masked THEN KeyOf(i) ELSE <<>>]
Descs == [i \in 1..Len(parts) |-> FrameDesc(i)]

RECURSIVE SumSeq(_)
SumSeq(s) == IF s = <<>> THEN 0 ELSE Head(s) + SumSeq(Tail(s))

HeaderClass == \A i \in 1..Len(parts) :
    LET n == parts[i] h == Descs[i].hdr c == h[2] % 128 IN
    /\ Len(h) = HeaderLen(Masked, n)
    /\ (n <= 125 <=> c < 126) /\ (c < 126 => c = n)
    /\ ((n >= 126 /\ n <= 65535) <=> c = 126)
    /\ (n >= 65536 <=> c = 127)
    /\ (c = 126 => h[3] * 256 + h[4] = n)
    /\ (c = 127 => h[3] = 0 /\ h[4] = 0 /\ h[5] = 0 /\ h[6] = 0 /\ ((h[7] * 256 + h[8]) * 256 + h[9]) * 256 + h[10] = n)
    /\ (h[2] >= 128) = Masked
HeaderDecodes == \A i \in 1..Len(parts) :
    LET d == DecodeHeader(Descs[i].hdr, 1) IN
    /\ d.st = "ok" /\ d.n = parts[i] /\ d.masked = Masked /\ d.pp = Len(Descs[i].hdr) + 1
    /\ d.fin = (IF i = Len(parts) THEN 1 ELSE 0) /\ d.op = (IF i = 1 THEN OpBin ELSE OpCont)
    /\ (Masked => d.key = KeyOf(i))
SmallRoundTrip == len <= 300 =>
    LET fs == [i \in 1..Len(parts) |-> Frame(IF i = Len(parts) THEN 1 ELSE 0, IF i = 1 THEN OpBin ELSE OpCont, Masked, KeyOf(i), Payload(parts[i], SeedOf(i)))]
        d == DecodeAll(EncodeAll(fs))
    IN d.fs = fs /\ d.st = "end" /\ Len(RxAll(fs).out) = 1 /\ Len(RxAll(fs).out[1]) = len
PartsOK == SumSeq(parts) = len /\ Len(parts) <= 4

Emit == /\ PrintT(ToJson([k |-> "size", role |-> role', frames |-> [i \in 1..Len(parts') |->
                             [hdr |-> Header(IF i = Len(parts') THEN 1 ELSE 0, 0, IF i = 1 THEN OpBin ELSE OpCont, role' = "c2s", Keys[((keyi' + i) % 4) + 1], parts'[i]),
                              len |-> parts'[i], seed |-> (len' + 17 * i) % 256, key |-> IF role' = "c2s" THEN Keys[((keyi' + i) % 4) + 1] ELSE <<>>]],
                           total |-> len']))
        \* the library as sender: role "c2s" = the library is the client (masks with a key of its own choice)
        /\ (Len(parts') = 1 /\ keyi' = 1) =>
             PrintT(ToJson([k |-> "send", role |-> role', len |-> len', seed |-> (len' + 17) % 256, op |-> IF len' % 2 = 0 THEN OpBin ELSE OpText,
                            hdr |-> Header(1, 0, IF len' % 2 = 0 THEN OpBin ELSE OpText, FALSE, <<>>, len'), masked |-> (role' = "c2s")]))
================================================================================
