SPECIFICATION Spec2
CONSTANTS
 NH = 2
 V = {1,2}
 Sizes = {0,1,2,3,4}
 MaxLen = 4
 KeepHist = TRUE
 MaxOps = 3
 Lits <- Lits2
 Shapes <- ShapesQ
VIEW View2
ACTION_CONSTRAINT Emit2
INVARIANTS TypeOK NoOrphan SomeLive DimsOK
PROPERTIES Independence CloneFresh
CHECK_DEADLOCK FALSE
