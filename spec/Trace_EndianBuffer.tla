-------------------------- MODULE Trace_EndianBuffer --------------------------
(* V binding for EndianBuffer: validates executions recorded from real StreamBuffer / StreamBufferReader objects
   (harness/c16_obj_record.cpp --mode 0).  Write events carry the bytes by which the buffer was observed to grow (`g`),
   query and read events carry what the call returned; TLC computes all of it from the logged arguments and accepts the trace
   only if every line is the corresponding EndianBuffer step with exactly those bytes / values.  ("mv": the buffer's storage
   moved - a ghost observation, not constrained.) *)
EXTENDS EndianBuffer, IOUtils

T == ndJsonDeserialize(IOEnv.TRACE)
VARIABLE l
tvars == <<allvars, l>>

TInit == BInit /\ l = 1
LastRec == hist'[Len(hist')]
Grew(e) == out' = out \o e.g

TStep ==
  /\ l <= Len(T)
  /\ l' = l + 1
  /\ LET e == T[l] IN
     \/ /\ e.op = "reset" /\ e.o \in Ctors
        /\ worder' = CtorOrder(e.o) /\ rorder' = "LITTLE" /\ out' = <<>> /\ hist' = <<>> /\ hz' = {} /\ pool' = <<>>
        /\ cap' = 3 /\ grow' = "" /\ ropen' = FALSE /\ win' = <<>> /\ rpos' = 0
     \/ /\ e.op = "set"  /\ BSetOrder(e.o)
     \/ /\ e.op = "w"  /\ e.t \in AllTypes /\ BWrite(e.t, e.v)      /\ Grew(e)
     \/ /\ e.op = "wa" /\ e.t \in AllTypes /\ BWriteArray(e.t, e.a) /\ Grew(e)
     \/ /\ e.op = "ws" /\ BWriteString(e.s)                         /\ Grew(e)
     \/ /\ e.op = "wr" /\ BWriteRaw(e.d, e.api)                     /\ Grew(e)
     \/ /\ e.op = "len"     /\ BLength  /\ LastRec.r = e.r
     \/ /\ e.op = "content" /\ BContent /\ LastRec.r = e.r
     \/ /\ e.op = "clear"   /\ BClear
     \/ /\ e.op = "assign"  /\ BAssign(e.d)
     \/ /\ e.op = "ropen"   /\ e.o \in Ctors /\ BOpenReader(e.via, e.lo, e.n, e.o)
     \/ /\ e.op = "rset"    /\ BRSetOrder(e.o)
     \/ /\ e.op = "r"    /\ e.t \in AllTypes /\ BRead(e.t) /\ (LastRec.ok => LastRec.v = e.v)
     \/ /\ e.op = "rb"   /\ BReadBytes(e.n) /\ LastRec.r = e.r
     \/ /\ e.op = "rall" /\ BReadAll /\ LastRec.r = e.r
     \/ /\ e.op = "skip" /\ BSkip(e.n)
     \/ /\ e.op = "rq"   /\ BQuery /\ LastRec.len = e.len /\ LastRec.more = e.more /\ LastRec.pos = e.pos /\ e.toend = e.len

TraceSpec == TInit /\ [][TStep]_tvars
TraceAccepted == TLCGet("stats").diameter - 1 = Len(T)
===============================================================================
