SPECIFICATION SpecBig
CONSTANTS
 NV = 1
 Lens = {0}
 Pieces = {1024}
 Ints <- IntsA
 MaxTotal = 20000
 MaxOps = 3
 KeepHist = TRUE
 BigLens = {1022, 1023, 1500}
 Shrinks = {1}
 Deltas <- DeltasB
 LitJumps = 1
 JumpOps = 2
VIEW BigView
ACTION_CONSTRAINT Emit
INVARIANTS TypeOK HwOK
PROPERTIES Independence Identities HwMono
CHECK_DEADLOCK FALSE
