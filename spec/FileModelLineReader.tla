--------------------------- MODULE FileModelLineReader ---------------------------
(* C17, implementation-shaped: TextFile::lines() / readLine(String&) transcribed step by step (src/TextFile.cpp:79-121)
   with the chunk size as a parameter, and stdio's fgets/feof as the code uses them:

       lines():     while (!end()) { lines << String(); readLine(lines.last()); }
       readLine(s): m = 0;
                    do { r = fgets(&s[m], chunk, f);               reads at most chunk-1 characters, stops after LF,
                         if (!r) { s = s[0..m); return false; }    NULL only if nothing could be read (sets the EOF flag)
                         n = strlen(s+m) + m;
                         if (s[n-1] == LF) { n--; if (n > 0 && s[n-1] == CR) n--; break; }
                         m = n; } while (1);
                    s = s[0..n); return true;

   TLC runs the machine on EVERY text over {a, CR, LF} up to MaxText bytes for every chunk size in Chunks (CR at a
   chunk end with the LF in the next chunk, a line exactly filling a chunk, no final newline, empty file) and checks
   at termination that the collected lines are FileModel!Lines(text) - the property-level definition "split at LF,
   remove one CR before each LF".  The reachable branches of this machine are the shapes the R/V generators of
   C17 aim at with the real chunk size 255.                                                                        *)
EXTENDS FileModel

CONSTANTS Chunks,      \* chunk sizes (the code uses 255)
          Alphabet,    \* bytes of the texts
          MaxText      \* maximal text length

VARIABLES text,        \* the file
          chunk,       \* the chunk size of this run
          fpos, feof,  \* stdio stream: bytes consumed, EOF indicator
          s, m,        \* readLine's buffer and fill mark
          out,         \* lines()'s result so far
          rets,        \* return values of the readLine calls
          pc
lrvars == <<text, chunk, fpos, feof, s, m, out, rets, pc>>

Texts == SeqsUpTo(Alphabet, MaxText)

LRInit == /\ Init
          /\ text \in Texts /\ chunk \in Chunks
          /\ fpos = 0 /\ feof = FALSE /\ s = <<>> /\ m = 0 /\ out = <<>> /\ rets = <<>> /\ pc = "loop"

\* while (!end())
LoopTest == /\ pc = "loop"
            /\ IF feof THEN pc' = "done" /\ UNCHANGED <<s, m>>
                       ELSE pc' = "fgets" /\ s' = <<>> /\ m' = 0          \* lines << String(); readLine(): m = 0
            /\ UNCHANGED <<text, chunk, fpos, feof, out, rets>>

\* what fgets(buf, chunk, f) takes from the stream: up to chunk-1 bytes, ending after the first LF
Avail == Len(text) - fpos
TakeLen == LET lim == IF Avail < chunk - 1 THEN Avail ELSE chunk - 1
               lfs == {i \in 1..lim : text[fpos + i] = LF}
           IN IF lfs = {} THEN lim ELSE CHOOSE i \in lfs : \A j \in lfs : i <= j

\* fgets returns NULL: nothing left (EOF indicator set);  s = s[0..m); return false
FgetsNull == /\ pc = "fgets" /\ Avail = 0
             /\ feof' = TRUE
             /\ out' = Append(out, SubSeq(s, 1, m)) /\ rets' = Append(rets, FALSE)
             /\ pc' = "loop"
             /\ UNCHANGED <<text, chunk, fpos, s, m>>

\* fgets returns data
FgetsData == /\ pc = "fgets" /\ Avail > 0
             /\ LET k == TakeLen
                    taken == SubSeq(text, fpos + 1, fpos + k)
                    s2 == SubSeq(s, 1, m) \o taken
                    n == m + k
                    \* the stream hits the end only if fgets wanted more: fewer than chunk-1 bytes and no LF at the end
                    hitEnd == k < chunk - 1 /\ taken[k] # LF
                IN /\ fpos' = fpos + k
                   /\ feof' = (feof \/ hitEnd)
                   /\ IF s2[n] = LF
                      THEN LET n1 == n - 1
                               n2 == IF n1 > 0 /\ s2[n1] = CR THEN n1 - 1 ELSE n1
                           IN /\ out' = Append(out, SubSeq(s2, 1, n2)) /\ rets' = Append(rets, TRUE)
                              /\ pc' = "loop" /\ s' = s2 /\ m' = m
                      ELSE /\ s' = s2 /\ m' = n /\ pc' = "fgets" /\ UNCHANGED <<out, rets>>
             /\ UNCHANGED <<text, chunk>>

LRLoopTest  == LoopTest /\ UNCHANGED vars
LRFgetsNull == FgetsNull /\ UNCHANGED vars
LRFgetsData == FgetsData /\ UNCHANGED vars
LRNext == LRLoopTest \/ LRFgetsNull \/ LRFgetsData
LRSpec == LRInit /\ [][LRNext]_<<vars, lrvars>>

\* refinement of the property-level definition
LinesRefined == pc = "done" => out = Lines(text)
\* readLine returns true exactly for the lines that were terminated by LF (all but the last)
ReturnsOK == pc = "done" => /\ Len(rets) = Len(out)
                            /\ \A i \in 1..Len(rets) : rets[i] = (i < Len(rets))
\* the loop ends having consumed the file
Consumed == pc = "done" => fpos = Len(text)
Terminates == <>(pc = "done")
===============================================================================
