SPECIFICATION BSpec
CONSTANTS
 LemmaBytes = {0, 1, 2}
 LemmaCounts = {1, 2, 3}
 LemmaRuns = 3
CHECK_DEADLOCK FALSE
