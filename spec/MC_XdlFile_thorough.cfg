SPECIFICATION FSpec
CONSTANTS
 Caps = {1, 2, 3, 4, 5, 6, 7, 8, 9, 10, 11, 12, 13, 14, 15, 16, 17, 18, 19, 20, 21, 25, 40}
 ProbeRewinds = TRUE
 QKeySlashIsComment = FALSE
ACTION_CONSTRAINT FEmit
INVARIANTS FileLaw PadLaw
CHECK_DEADLOCK FALSE
