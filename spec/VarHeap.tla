------------------------------- MODULE VarHeap -------------------------------
(* C04 - asl::Var as a heap of shared container nodes.

   A Var slot holds a scalar (NONE, NUL, BOOL, INT, NUMBER, FLOAT, short or long STRING) or a reference to a node;
   a node is an array (sequence of slots) or an object (slots under keys, kept in ascending key order).  Copying a
   Var copies scalars and strings and *shares* containers (reference counted); clone() copies the whole tree.
   The driver owns NR root slots; every other slot is addressed by a path <<root, selector, ...>> (selector >= 0:
   array index, selector < 0: minus the key id).  Numbers are exact: INT n, NUMBER and FLOAT in halves (v = 2x).

   Every public mutating call is one action (typed assignment, Var-to-Var assignment including the assignment of
   one of the target's own descendants, construction from array / object values, operator[] with auto-creation and
   auto-resize, <<, resize, clear, remove, removeAt, extend, clone).  Calls that would make a container contain
   itself are not generated (the property excludes them).  The module keeps explicit reference counts and releases
   nodes recursively, so "count = number of referencing slots", "no reference to a released node", "acyclic" are
   checked invariants; "the target equals the assigned value" and "a clone shares nothing with its source" are
   action properties.  Type, length, conversions, toString and the == relation (numbers numerically, strings by
   content, containers element-wise) are operators evaluated for the observation and for recorded queries.

   NONE == NONE is false in the implementation (so an array with unset elements is not == to its own clone); the
   property speaks about values built from numbers, booleans, strings, arrays and objects, so the specification
   leaves exactly those comparisons open: EqR is "t", "f", or "u" (unspecified) when the answer hinges on a
   NONE/NONE pair.

   spec/VarApi.tla extends this module with the rest of the public surface (typed containers, the other constructors,
   read-only queries, literal comparisons, enumeration as a process interleaved with these calls).

   hz collects spec-level hazard tags (supersets of the known-finding predicates the replayer evaluates exactly
   on the real object).  R: MC_VarHeap*.cfg emit one JSON line per transition -> harness/c04_replay;
   V: Trace_VarHeap validates recorded executions of the real Var against the same actions.                    *)
EXTENDS Integers, Sequences, FiniteSets, TLC, Json, SequencesExt

CONSTANTS NR,          \* root slots 1..NR
          MaxNodes,    \* node ids 1..MaxNodes
          MaxDepth,    \* selectors per path
          MaxItems,    \* arrays / objects are grown only up to this many items
          ScalarIds,   \* which entries of ScalarTab are used as assigned values
          KeyIds,      \* object keys (ids; the harness maps them monotonically onto strings)
          MaxOps, KeepHist

VARIABLES root, heap, hist, hz
vars == <<root, heap, hist, hz>>

-------------------------------------------------------------------------------
(* values *)
Val(t, v) == [t |-> t, v |-> v]
NoneV == Val("none", 0)
\* string table: code sequences; 2 is the longest inline string (7 bytes), 3 the shortest heap string (8 bytes);
\* 4..9 are the numeric-looking texts "12", "1.5xyzuvw", "1.5", "abc", " 7", "-2.5" for the string -> number conversions
StrTab == << <<>>, <<97,98,99,100,101,102,103>>, <<97,98,99,100,101,102,103,104>>, <<49,50>>,
             <<49,46,53,120,121,122,117,118,119>>, <<49,46,53>>, <<97,98,99>>, <<32,55>>, <<45,50,46,53>> >>
(* String -> number is the C library's reading of the longest numeric prefix (the implementation calls atoi/atof):
   optional white space, optional sign, digits, and for the floating-point reading an optional fraction; no digits
   at all give 0.  The fraction is read exactly when it is a (possibly empty) run of zeros or a 5 followed by
   zeros - the specification's numbers are integers and halves (Supported below is ASSUMEd for the table). *)
IsWs(c) == c \in {32, 9, 10, 11, 12, 13}
IsDig(c) == c \in 48..57
RECURSIVE SkipWs(_, _), DigitRun(_, _, _)
SkipWs(s, i) == IF i <= Len(s) /\ IsWs(s[i]) THEN SkipWs(s, i + 1) ELSE i
\* value and end of the digit run that starts at i
DigitRun(s, i, acc) == IF i <= Len(s) /\ IsDig(s[i]) THEN DigitRun(s, i + 1, 10 * acc + (s[i] - 48)) ELSE [v |-> acc, i |-> i]
NumPrefix(s) ==
    LET i0 == SkipWs(s, 1)
        signed == i0 <= Len(s) /\ s[i0] \in {43, 45}
        neg == signed /\ s[i0] = 45
        i1 == IF signed THEN i0 + 1 ELSE i0
        ip == DigitRun(s, i1, 0)
        dot == ip.i <= Len(s) /\ s[ip.i] = 46
        fp == IF dot THEN DigitRun(s, ip.i + 1, 0) ELSE [v |-> 0, i |-> ip.i]
        nint == ip.i - i1
        nfrac == IF dot THEN fp.i - (ip.i + 1) ELSE 0
        \* the fraction digits as a number and its scale: exact when frac * 2 is a multiple of 10^nfrac
        RECURSIVE Pow10(_)
        Pow10(n) == IF n = 0 THEN 1 ELSE 10 * Pow10(n - 1)
        any == nint + nfrac > 0
        half == IF any /\ nfrac > 0 THEN (2 * fp.v) \div Pow10(nfrac) ELSE 0
        exact == ~any \/ nfrac = 0 \/ (2 * fp.v) % Pow10(nfrac) = 0
        next == IF ~any THEN 0 ELSE IF dot THEN fp.i ELSE ip.i
    IN [int |-> IF nint = 0 THEN 0 ELSE IF neg THEN -ip.v ELSE ip.v,
        dbl2 |-> IF ~any THEN 0 ELSE (IF neg THEN -1 ELSE 1) * (2 * ip.v + half),
        exact |-> exact,
        \* an exponent part directly after the number would change the floating-point reading: not in the table
        noexp |-> ~(any /\ next <= Len(s) /\ s[next] \in {69, 101})]
Atoi(s) == NumPrefix(s).int
Atof2(s) == NumPrefix(s).dbl2
Supported == \A i \in 1..Len(StrTab) : NumPrefix(StrTab[i]).exact /\ NumPrefix(StrTab[i]).noexp
StrInt == [i \in 1..Len(StrTab) |-> Atoi(StrTab[i])]
StrDbl2 == [i \in 1..Len(StrTab) |-> Atof2(StrTab[i])]
ScalarTab == << Val("none", 0), Val("nul", 0), Val("bool", 1), Val("bool", 0), Val("int", 1), Val("int", 2),
                Val("num", 2), Val("num", 3), Val("flt", 3), Val("str", 1), Val("str", 2), Val("str", 3),
                Val("str", 4), Val("int", 0), Val("num", -1), Val("str", 5), Val("int", -7), Val("flt", 4),
                Val("str", 6), Val("str", 7), Val("str", 8), Val("str", 9), Val("num", 0), Val("num", -5) >>
ASSUME Supported
Scalars == {ScalarTab[i] : i \in ScalarIds}
IsNum(x) == x.t \in {"int", "num", "flt"}
Halves(x) == IF x.t = "int" THEN 2 * x.v ELSE x.v

Nodes == 1..MaxNodes
FreeNode == [k |-> "free", rc |-> 0, items |-> <<>>]
Item(key, val) == [key |-> key, val |-> val]

-------------------------------------------------------------------------------
(* navigation *)
IsRef(x) == x.t = "ref"
Kind(hp, x) == IF IsRef(x) THEN hp[x.v].k ELSE "scalar"
\* position of selector s among the items of node n (0: absent)
Pos(n, s) == IF s >= 0 THEN (IF n.k = "arr" /\ s < Len(n.items) THEN s + 1 ELSE 0)
             ELSE IF n.k = "obj" /\ \E j \in 1..Len(n.items) : n.items[j].key = -s
                  THEN CHOOSE j \in 1..Len(n.items) : n.items[j].key = -s ELSE 0
Missing == Val("missing", 0)
RECURSIVE Walk(_, _, _, _)
Walk(hp, cur, sels, i) ==
    IF i > Len(sels) THEN cur
    ELSE IF ~IsRef(cur) THEN Missing
    ELSE LET p == Pos(hp[cur.v], sels[i]) IN
         IF p = 0 THEN Missing ELSE Walk(hp, hp[cur.v].items[p].val, sels, i + 1)
SlotVal(hp, rt, path) == Walk(hp, rt[path[1]], Tail(path), 1)
Resolvable(hp, rt, path) == SlotVal(hp, rt, path) # Missing
Parent(path) == SubSeq(path, 1, Len(path) - 1)
\* the node that contains the slot (0 for a root slot)
HolderOf(hp, rt, path) == IF Len(path) = 1 THEN 0 ELSE SlotVal(hp, rt, Parent(path)).v
\* writing a slot
Write(hp, rt, path, x) ==
    IF Len(path) = 1 THEN [hp |-> hp, rt |-> [rt EXCEPT ![path[1]] = x]]
    ELSE LET n == HolderOf(hp, rt, path)
             p == Pos(hp[n], path[Len(path)]) IN
         [hp |-> [hp EXCEPT ![n].items[p].val = x], rt |-> rt]
SelOf(n, j) == IF n.k = "arr" THEN j - 1 ELSE -(n.items[j].key)
RECURSIVE PathsFrom(_, _, _, _)
PathsFrom(hp, cur, prefix, d) ==
    {prefix} \cup (IF d = 0 \/ ~IsRef(cur) THEN {}
                   ELSE UNION {PathsFrom(hp, hp[cur.v].items[j].val, Append(prefix, SelOf(hp[cur.v], j)), d - 1)
                               : j \in 1..Len(hp[cur.v].items)})
Slots == UNION {PathsFrom(heap, root[r], <<r>>, MaxDepth) : r \in 1..NR}
\* membership in Slots without building the set (used by the actions; trace validation calls them with logged paths)
IsSlot(p) == Len(p) \in 1..(MaxDepth + 1) /\ p[1] \in 1..NR /\ Resolvable(heap, root, p)
\* nodes reachable from a value (including its own node)
RECURSIVE Reach(_, _)
Reach(hp, x) == IF ~IsRef(x) THEN {}
                ELSE {x.v} \cup UNION {Reach(hp, hp[x.v].items[j].val) : j \in 1..Len(hp[x.v].items)}

-------------------------------------------------------------------------------
(* reference counting *)
Retain(hp, x) == IF IsRef(x) THEN [hp EXCEPT ![x.v].rc = @ + 1] ELSE hp
RECURSIVE Release(_, _), ReleaseItems(_, _, _)
Release(hp, x) ==
    IF ~IsRef(x) THEN hp
    ELSE IF hp[x.v].rc > 1 THEN [hp EXCEPT ![x.v].rc = @ - 1]
    ELSE ReleaseItems([hp EXCEPT ![x.v] = FreeNode], hp[x.v].items, 1)
ReleaseItems(hp, items, i) == IF i > Len(items) THEN hp ELSE ReleaseItems(Release(hp, items[i].val), items, i + 1)
FreeIds(hp) == {n \in Nodes : hp[n].k = "free"}
NewId(hp) == CHOOSE n \in FreeIds(hp) : \A m \in FreeIds(hp) : n <= m
\* a new node holding items (whose values are already retained), referenced once
Alloc(hp, kind, items) == LET n == NewId(hp) IN
    [hp |-> [hp EXCEPT ![n] = [k |-> kind, rc |-> 1, items |-> items]], x |-> Val("ref", n)]
\* store x (already retained / freshly allocated) into the slot and release what the slot held
Store(hp, rt, path, x) == LET old == SlotVal(hp, rt, path)
                              w == Write(hp, rt, path, x) IN
                          [hp |-> Release(w.hp, old), rt |-> w.rt]
\* deep copy (clone): every occurrence of a container is copied separately
RECURSIVE CloneVal(_, _), CloneItems(_, _, _, _)
CloneVal(hp, x) == IF ~IsRef(x) THEN [hp |-> hp, x |-> x]
                   ELSE LET ci == CloneItems(hp, hp[x.v].items, 1, <<>>) IN Alloc(ci.hp, hp[x.v].k, ci.items)
CloneItems(hp, items, i, acc) ==
    IF i > Len(items) THEN [hp |-> hp, items |-> acc]
    ELSE LET c == CloneVal(hp, items[i].val) IN CloneItems(c.hp, items, i + 1, Append(acc, Item(items[i].key, c.x)))
RECURSIVE NodeCount(_, _)
NodeCount(hp, x) == IF ~IsRef(x) THEN 0
                    ELSE LET RECURSIVE Sum(_)
                             Sum(j) == IF j > Len(hp[x.v].items) THEN 0 ELSE NodeCount(hp, hp[x.v].items[j].val) + Sum(j + 1)
                         IN 1 + Sum(1)

-------------------------------------------------------------------------------
(* the == relation *)
RECURSIVE EqV(_, _, _, _)
\* noneEq: what NONE == NONE is taken to be
EqV(hp, a, b, noneEq) ==
    IF IsNum(a) /\ IsNum(b) THEN Halves(a) = Halves(b)
    ELSE IF a.t # b.t THEN FALSE
    ELSE IF a.t = "none" THEN noneEq
    ELSE IF a.t = "ref" THEN
        LET na == hp[a.v] nb == hp[b.v] IN
        /\ na.k = nb.k /\ Len(na.items) = Len(nb.items)
        /\ \A j \in 1..Len(na.items) : na.items[j].key = nb.items[j].key /\ EqV(hp, na.items[j].val, nb.items[j].val, noneEq)
    ELSE a.v = b.v            \* nul, bool, str (distinct ids have distinct contents)
EqR(hp, a, b) == LET s == EqV(hp, a, b, FALSE) l == EqV(hp, a, b, TRUE) IN IF s THEN "t" ELSE IF l THEN "u" ELSE "f"

(* type(), is(), length(), conversions, toString - the numeric codes are those of Var::Type *)
TypeCode(hp, x) == CASE x.t = "none" -> 0 [] x.t = "nul" -> 1 [] x.t = "num" -> 2 [] x.t = "bool" -> 3 [] x.t = "int" -> 4
                     [] x.t = "flt" -> 6 [] x.t = "str" -> 8 [] x.t = "ref" -> (IF hp[x.v].k = "arr" THEN 9 ELSE 10)
IsCodes(hp, x) == CASE x.t = "int" -> <<2, 4>> [] x.t = "flt" -> <<2, 6>> [] x.t = "str" -> <<5, 8>>
                    [] OTHER -> <<TypeCode(hp, x)>>
LengthOf(hp, x) == IF IsRef(x) THEN Len(hp[x.v].items) ELSE IF x.t = "str" THEN Len(StrTab[x.v]) ELSE 0
\* C truncation toward zero of h/2
Trunc2(h) == IF h >= 0 THEN h \div 2 ELSE -((-h) \div 2)
ToInt(x) == CASE x.t = "int" -> x.v [] x.t \in {"num", "flt"} -> Trunc2(x.v) [] x.t = "str" -> StrInt[x.v] [] OTHER -> 0
\* 2 * (double)x;  NUL converts to NaN: 99999 stands for "not a number"
ToDbl2(x) == CASE x.t = "int" -> 2 * x.v [] x.t \in {"num", "flt"} -> x.v [] x.t = "str" -> StrDbl2[x.v]
               [] x.t = "nul" -> 99999 [] OTHER -> 0
ToBool(x) == CASE x.t = "bool" -> x.v [] IsNum(x) -> (IF x.v # 0 THEN 1 ELSE 0) [] x.t = "ref" -> 1
               [] x.t = "str" -> (IF Len(StrTab[x.v]) > 0 THEN 1 ELSE 0) [] OTHER -> 0
RECURSIVE DigitsOf(_)
DigitsOf(n) == IF n < 10 THEN <<48 + n>> ELSE Append(DigitsOf(n \div 10), 48 + (n % 10))
DecText(n) == IF n < 0 THEN <<45>> \o DigitsOf(-n) ELSE DigitsOf(n)
HalfText(h) == IF h % 2 = 0 THEN DecText(h \div 2)
               ELSE (IF h < 0 THEN <<45>> ELSE <<>>) \o DigitsOf((IF h < 0 THEN -h ELSE h) \div 2) \o <<46, 53>>
\* object keys: "a", "b", and a key longer than String's inline storage
KeyTab == << <<97>>, <<98>>, <<99,50,51,52,53,54,55,56,57,48,49,50,51,52,53,54,55,56,57>>, <<100>>, <<101>>, <<102>>, <<103>>, <<104>> >>
KeyText(k) == KeyTab[k]
RECURSIVE TextOf(_, _), JoinItems(_, _, _, _)
TextOf(hp, x) ==
    CASE x.t = "none" -> <<63>>
      [] x.t = "nul" -> <<110, 117, 108, 108>>
      [] x.t = "bool" -> (IF x.v = 1 THEN <<116, 114, 117, 101>> ELSE <<102, 97, 108, 115, 101>>)
      [] x.t = "int" -> DecText(x.v)
      [] x.t \in {"num", "flt"} -> HalfText(x.v)
      [] x.t = "str" -> StrTab[x.v]
      [] x.t = "ref" -> IF hp[x.v].k = "arr" THEN <<91>> \o JoinItems(hp, hp[x.v].items, 1, FALSE) \o <<93>>
                        ELSE <<123>> \o JoinItems(hp, hp[x.v].items, 1, TRUE) \o <<125>>
JoinItems(hp, items, i, withKey) ==
    IF i > Len(items) THEN <<>>
    ELSE (IF i > 1 THEN <<44>> ELSE <<>>) \o (IF withKey THEN KeyText(items[i].key) \o <<61>> ELSE <<>>)
         \o TextOf(hp, items[i].val) \o JoinItems(hp, items, i + 1, withKey)

-------------------------------------------------------------------------------
Init == /\ root = [r \in 1..NR |-> NoneV]
        /\ heap = [n \in Nodes |-> FreeNode]
        /\ hist = <<>>
        /\ hz = {}

Log(rec, tags) == /\ hist' = IF KeepHist THEN Append(hist, rec) ELSE <<rec>>
                  /\ hz' = IF KeepHist THEN hz \cup tags ELSE tags
Commit(res, rec, tags) == /\ heap' = res.hp /\ root' = res.rt /\ Log(rec, tags)
Rc(hp, x) == IF IsRef(x) THEN hp[x.v].rc ELSE 0
SharedGrow(x, grows) == IF grows /\ Rc(heap, x) > 1 THEN {"SharedGrow"} ELSE {}
NoneItems(n) == [j \in 1..n |-> Item(0, NoneV)]
\* sorted insertion of a key into object items
InsKey(items, k, x) == LET lo == SelectSeq(items, LAMBDA it : it.key < k)
                           hi == SelectSeq(items, LAMBDA it : it.key > k) IN lo \o <<Item(k, x)>> \o hi

(* typed assignment: slot = number / bool / string / NUL / Var() *)
AssignScalar(p, x) ==
    /\ IsSlot(p) /\ x \in Scalars
    /\ Commit(Store(heap, root, p, x), [op |-> "assignScalar", p |-> p, val |-> x], {})

(* slot = other slot (Var::operator=(const Var&)), including q below p; not when it would close a cycle *)
WouldCycle(hp, rt, p, x) == IsRef(x) /\ Len(p) > 1 /\ HolderOf(hp, rt, p) \in Reach(hp, x)
Below(p, q) == Len(q) > Len(p) /\ SubSeq(q, 1, Len(p)) = p
AssignFrom(p, q) ==
    /\ IsSlot(p) /\ IsSlot(q)
    /\ LET x == SlotVal(heap, root, q) IN
       /\ ~WouldCycle(heap, root, p, x)
       /\ Commit(Store(Retain(heap, x), root, p, x), [op |-> "assignFrom", p |-> p, q |-> q],
                 IF Below(p, q) /\ Rc(heap, SlotVal(heap, root, p)) = 1 THEN {"OwnDescendant"} ELSE {})

(* slot = Var(Array<Var>) / Var(Dic<Var>) / Var(Var::ARRAY) / Var(Var::OBJ): shape 0 [], 1 {}, 2 [1,2,3], 3 {a:1,b:2,c:3} *)
AssignNew(p, shape) ==
    /\ IsSlot(p) /\ FreeIds(heap) # {}
    /\ LET items == CASE shape = 0 -> <<>> [] shape = 1 -> <<>>
                      [] shape = 2 -> [j \in 1..3 |-> Item(0, Val("int", j))]
                      [] shape = 3 -> [j \in 1..3 |-> Item(j, Val("int", j))]
           a == Alloc(heap, IF shape \in {0, 2} THEN "arr" ELSE "obj", items) IN
       Commit(Store(a.hp, root, p, a.x), [op |-> "assignNew", p |-> p, shape |-> shape], {})

(* non-const operator[](int): NONE becomes an array of i+1 unset elements, an array is resized when i is beyond its end *)
IndexInt(p, i) ==
    /\ IsSlot(p) /\ i < MaxItems
    /\ LET x == SlotVal(heap, root, p) IN
       \/ /\ x.t = "none" /\ FreeIds(heap) # {}
          /\ LET a == Alloc(heap, "arr", NoneItems(i + 1)) IN
             Commit(Write(a.hp, root, p, a.x), [op |-> "indexInt", p |-> p, i |-> i], {})
       \/ /\ Kind(heap, x) = "arr"
          /\ LET n == heap[x.v]
                 items2 == IF i < Len(n.items) THEN n.items ELSE n.items \o NoneItems(i + 1 - Len(n.items)) IN
             Commit([hp |-> [heap EXCEPT ![x.v].items = items2], rt |-> root], [op |-> "indexInt", p |-> p, i |-> i],
                    SharedGrow(x, i >= Len(n.items)))

(* non-const operator[](key): NONE becomes an object, a missing key is inserted unset *)
IndexKey(p, k) ==
    /\ IsSlot(p)
    /\ LET x == SlotVal(heap, root, p) IN
       \/ /\ x.t = "none" /\ FreeIds(heap) # {}
          /\ LET a == Alloc(heap, "obj", <<Item(k, NoneV)>>) IN
             Commit(Write(a.hp, root, p, a.x), [op |-> "indexKey", p |-> p, k |-> k], {})
       \/ /\ Kind(heap, x) = "obj"
          /\ (Pos(heap[x.v], -k) # 0 \/ Len(heap[x.v].items) < MaxItems)
          /\ LET n == heap[x.v]
                 items2 == IF Pos(n, -k) # 0 THEN n.items ELSE InsKey(n.items, k, NoneV) IN
             Commit([hp |-> [heap EXCEPT ![x.v].items = items2], rt |-> root], [op |-> "indexKey", p |-> p, k |-> k],
                    SharedGrow(x, Pos(n, -k) = 0))

(* slot << value: appends to an array, turns NONE into a one-element array, does nothing otherwise *)
AppendTo(p, y, rec, extra) ==
    LET x == SlotVal(heap, root, p) IN
    \/ /\ x.t = "none" /\ FreeIds(heap) # {} /\ ~WouldCycle(heap, root, p, y)
       /\ LET a == Alloc(Retain(heap, y), "arr", <<Item(0, y)>>) IN Commit(Write(a.hp, root, p, a.x), rec, extra)
    \/ /\ Kind(heap, x) = "arr" /\ Len(heap[x.v].items) < MaxItems
       /\ ~(IsRef(y) /\ x.v \in Reach(heap, y))
       /\ Commit([hp |-> [Retain(heap, y) EXCEPT ![x.v].items = Append(@, Item(0, y))], rt |-> root], rec,
                 extra \cup SharedGrow(x, TRUE))
    \/ /\ x.t \notin {"none", "ref"} \/ Kind(heap, x) = "obj"
       /\ Commit([hp |-> heap, rt |-> root], rec, extra)
AppendScalar(p, y) == /\ IsSlot(p) /\ y \in Scalars
                      /\ AppendTo(p, y, [op |-> "appendScalar", p |-> p, val |-> y], {})
\* the same slot reached by two paths (p itself, or through a shared container)
SameSlot(hp, rt, p, q) == IF Len(p) = 1 \/ Len(q) = 1 THEN p = q
                          ELSE /\ HolderOf(hp, rt, p) = HolderOf(hp, rt, q)
                               /\ Pos(hp[HolderOf(hp, rt, p)], p[Len(p)]) = Pos(hp[HolderOf(hp, rt, q)], q[Len(q)])
\* x << x: an array would contain itself, and a NONE Var turns into an array holding itself - not generated
AppendFrom(p, q) == /\ IsSlot(p) /\ IsSlot(q) /\ ~SameSlot(heap, root, p, q)
                    /\ AppendTo(p, SlotVal(heap, root, q), [op |-> "appendFrom", p |-> p, q |-> q],
                                IF Below(p, q) THEN {"AliasElem"} ELSE {})

(* resize(n): NONE becomes an array of n unset elements; an array is cut or padded *)
Resize(p, n) ==
    /\ IsSlot(p) /\ n <= MaxItems
    /\ LET x == SlotVal(heap, root, p) IN
       \/ /\ x.t = "none" /\ FreeIds(heap) # {}
          /\ LET a == Alloc(heap, "arr", NoneItems(n)) IN
             Commit(Write(a.hp, root, p, a.x), [op |-> "resize", p |-> p, n |-> n], {})
       \/ /\ Kind(heap, x) = "arr"
          /\ LET its == heap[x.v].items
                 keep == IF n <= Len(its) THEN SubSeq(its, 1, n) ELSE its \o NoneItems(n - Len(its))
                 hp1 == [heap EXCEPT ![x.v].items = keep]
                 hp2 == IF n < Len(its) THEN ReleaseItems(hp1, SubSeq(its, n + 1, Len(its)), 1) ELSE hp1 IN
             Commit([hp |-> hp2, rt |-> root], [op |-> "resize", p |-> p, n |-> n], SharedGrow(x, n > Len(its)))

(* clear(): empties an array or an object *)
Clear(p) ==
    /\ IsSlot(p)
    /\ LET x == SlotVal(heap, root, p) IN
       /\ IsRef(x)
       /\ Commit([hp |-> ReleaseItems([heap EXCEPT ![x.v].items = <<>>], heap[x.v].items, 1), rt |-> root],
                 [op |-> "clear", p |-> p], {})

(* removeAt(i) on arrays (out of range: nothing happens), remove(key) on objects *)
RemoveIdx(p, i) ==
    /\ IsSlot(p) /\ i <= MaxItems
    /\ LET x == SlotVal(heap, root, p) IN
       /\ Kind(heap, x) = "arr"
       /\ LET its == heap[x.v].items IN
          IF i < Len(its)
          THEN Commit([hp |-> Release([heap EXCEPT ![x.v].items = SubSeq(its, 1, i) \o SubSeq(its, i + 2, Len(its))], its[i + 1].val),
                       rt |-> root], [op |-> "removeAt", p |-> p, i |-> i], {})
          ELSE Commit([hp |-> heap, rt |-> root], [op |-> "removeAt", p |-> p, i |-> i], {})
RemoveKey(p, k) ==
    /\ IsSlot(p)
    /\ LET x == SlotVal(heap, root, p) IN
       /\ Kind(heap, x) = "obj"
       /\ LET its == heap[x.v].items
              j == Pos(heap[x.v], -k) IN
          IF j # 0
          THEN Commit([hp |-> Release([heap EXCEPT ![x.v].items = SubSeq(its, 1, j - 1) \o SubSeq(its, j + 1, Len(its))], its[j].val),
                       rt |-> root], [op |-> "removeKey", p |-> p, k |-> k], {})
          ELSE Commit([hp |-> heap, rt |-> root], [op |-> "removeKey", p |-> p, k |-> k], {})

(* p.extend(q): q is an object; its set (non-NONE) properties are assigned into p (NONE becomes an object first) *)
RECURSIVE ExtendItems(_, _, _, _)
\* assign src items one by one into node n of hp (operator[] inserts the key unset, then Var = Var)
ExtendItems(hp, n, src, i) ==
    IF i > Len(src) THEN hp
    ELSE IF src[i].val.t = "none" THEN ExtendItems(hp, n, src, i + 1)
    ELSE LET k == src[i].key
             y == src[i].val
             hp1 == Retain(hp, y)
             j == Pos(hp1[n], -k)
             hp2 == IF j = 0 THEN [hp1 EXCEPT ![n].items = InsKey(@, k, y)]
                    ELSE Release([hp1 EXCEPT ![n].items[j].val = y], hp1[n].items[j].val) IN
         ExtendItems(hp2, n, src, i + 1)
NewKeys(hp, n, src) == Cardinality({src[i].key : i \in {j \in 1..Len(src) : src[j].val.t # "none" /\ Pos(hp[n], -(src[j].key)) = 0}})
Extend(p, q) ==
    /\ IsSlot(p) /\ IsSlot(q)
    /\ LET x == SlotVal(heap, root, p)
           y == SlotVal(heap, root, q) IN
       /\ Kind(heap, y) = "obj"
       /\ \/ /\ x.t = "none" /\ FreeIds(heap) # {} /\ ~WouldCycle(heap, root, p, y)
             /\ LET a == Alloc(heap, "obj", <<>>)
                    w == Write(a.hp, root, p, a.x) IN
                Commit([hp |-> Release(ExtendItems(Retain(w.hp, y), a.x.v, heap[y.v].items, 1), y), rt |-> w.rt],
                       [op |-> "extend", p |-> p, q |-> q], {})
          \/ /\ Kind(heap, x) = "obj"
             /\ x.v \notin Reach(heap, y)
             /\ Len(heap[x.v].items) + NewKeys(heap, x.v, heap[y.v].items) <= MaxItems
             \* the source object is held for the duration of the call (q may be a property of p that the call overwrites)
             /\ Commit([hp |-> Release(ExtendItems(Retain(heap, y), x.v, heap[y.v].items, 1), y), rt |-> root],
                       [op |-> "extend", p |-> p, q |-> q],
                       SharedGrow(x, NewKeys(heap, x.v, heap[y.v].items) > 0)
                       \cup (IF Below(p, q) THEN {"ExtendOwnChild"} ELSE {}))

(* root r = q.clone() *)
Clone(r, q) ==
    /\ r \in 1..NR /\ IsSlot(q)
    /\ LET y == SlotVal(heap, root, q) IN
       /\ Cardinality(FreeIds(heap)) >= NodeCount(heap, y)
       /\ LET c == CloneVal(heap, y) IN
          Commit(Store(c.hp, root, <<r>>, c.x), [op |-> "clone", p |-> <<r>>, q |-> q], {})

-------------------------------------------------------------------------------
Sel == (0..(MaxItems - 1)) \cup {-k : k \in KeyIds}
Next == /\ Len(hist) < MaxOps
        /\ \/ \E p \in Slots, x \in Scalars : AssignScalar(p, x) \/ AppendScalar(p, x)
           \/ \E p \in Slots, q \in Slots : AssignFrom(p, q) \/ AppendFrom(p, q) \/ Extend(p, q)
           \/ \E p \in Slots, s \in 0..3 : AssignNew(p, s)
           \/ \E p \in Slots, i \in 0..MaxItems : IndexInt(p, i) \/ Resize(p, i) \/ RemoveIdx(p, i)
           \/ \E p \in Slots, k \in KeyIds : IndexKey(p, k) \/ RemoveKey(p, k)
           \/ \E p \in Slots : Clear(p)
           \/ \E r \in 1..NR, q \in Slots : Clone(r, q)
Spec == Init /\ [][Next]_vars

-------------------------------------------------------------------------------
(* what TLC checks on the specification itself *)
LiveNodes == {n \in Nodes : heap[n].k # "free"}
RefsTo(n) == Cardinality({r \in 1..NR : root[r] = Val("ref", n)})
             + LET RECURSIVE Cnt(_)
                   Cnt(S) == IF S = {} THEN 0
                             ELSE LET m == CHOOSE m \in S : TRUE IN
                                  Cardinality({j \in 1..Len(heap[m].items) : heap[m].items[j].val = Val("ref", n)}) + Cnt(S \ {m})
               IN Cnt(LiveNodes)
\* the count of a node is the number of slots that refer to it; a node is live iff something refers to it
RcOK == \A n \in Nodes : IF heap[n].k = "free" THEN heap[n].rc = 0 /\ RefsTo(n) = 0 ELSE heap[n].rc = RefsTo(n) /\ heap[n].rc >= 1
\* no slot refers to a released node
NoDangling == /\ \A r \in 1..NR : IsRef(root[r]) => heap[root[r].v].k # "free"
              /\ \A n \in LiveNodes : \A j \in 1..Len(heap[n].items) : IsRef(heap[n].items[j].val) => heap[heap[n].items[j].val.v].k # "free"
\* no container contains itself
Acyclic == \A n \in LiveNodes : \A j \in 1..Len(heap[n].items) : n \notin Reach(heap, heap[n].items[j].val)
ObjSorted == \A n \in LiveNodes : heap[n].k = "obj" =>
                \A j \in 1..(Len(heap[n].items) - 1) : heap[n].items[j].key < heap[n].items[j + 1].key
\* tree value of a slot, independent of node identities (for "equal to the assigned value")
RECURSIVE Tree(_, _)
Tree(hp, x) == IF ~IsRef(x) THEN x
               ELSE [t |-> hp[x.v].k, items |-> [j \in 1..Len(hp[x.v].items) |-> Item(hp[x.v].items[j].key, Tree(hp, hp[x.v].items[j].val))]]
LastCall == hist'[Len(hist')]
\* after dst = src the target holds the value the source had before the call
AssignOK == [][(hist' # hist /\ hist' # <<>> /\ LastCall.op = "assignFrom") =>
                Tree(heap', SlotVal(heap', root', LastCall.p)) = Tree(heap, SlotVal(heap, root, LastCall.q))]_vars
ScalarOK == [][(hist' # hist /\ hist' # <<>> /\ LastCall.op = "assignScalar") => SlotVal(heap', root', LastCall.p) = LastCall.val]_vars
\* a clone has the value of its source and shares no node with anything that existed before
CloneOK == [][(hist' # hist /\ hist' # <<>> /\ LastCall.op = "clone") =>
               /\ Tree(heap', root'[LastCall.p[1]]) = Tree(heap, SlotVal(heap, root, LastCall.q))
               /\ Reach(heap', root'[LastCall.p[1]]) \cap UNION {Reach(heap', root'[r]) : r \in (1..NR) \ {LastCall.p[1]}} = {}]_vars
\* a call through one root never changes the tree of a root that shares no node with it (clone independence)
Independent == [][(hist' # hist /\ hist' # <<>>) =>
                   \A r \in 1..NR : (r # LastCall.p[1] /\ Reach(heap, root[r]) \cap Reach(heap, root[LastCall.p[1]]) = {})
                                    => Tree(heap', root'[r]) = Tree(heap, root[r])]_vars
TypeOK == /\ \A r \in 1..NR : root[r].t \in {"none", "nul", "bool", "int", "num", "flt", "str", "ref"}
          /\ \A n \in Nodes : heap[n].k \in {"free", "arr", "obj"}

-------------------------------------------------------------------------------
(* observation: the canonical tree of every root with the facts the accessors must report, and the == matrix *)
RECURSIVE ObsVal(_, _)
\* contains(x) for a fixed list of probe values (entries of ScalarTab): 1 iff the Var is an array with an element == x
ContProbe == <<3, 5, 8, 9, 11, 12, 2>>
ContainsR(hp, x, y) == IF Kind(hp, x) = "arr" /\ \E j \in 1..Len(hp[x.v].items) : EqV(hp, hp[x.v].items[j].val, y, FALSE) THEN 1 ELSE 0
Facts(hp, x) == [ty |-> TypeCode(hp, x), isn |-> IsCodes(hp, x), len |-> LengthOf(hp, x), i |-> ToInt(x), d2 |-> ToDbl2(x),
                 b |-> ToBool(x), s |-> TextOf(hp, x),
                 cont |-> [j \in 1..Len(ContProbe) |-> ContainsR(hp, x, ScalarTab[ContProbe[j]])]]
ObsVal(hp, x) ==
    IF ~IsRef(x) THEN [t |-> x.t, v |-> x.v, f |-> Facts(hp, x), n |-> 0, rc |-> 0, items |-> <<>>]
    ELSE [t |-> hp[x.v].k, v |-> 0, f |-> Facts(hp, x), n |-> x.v, rc |-> hp[x.v].rc,
          items |-> [j \in 1..Len(hp[x.v].items) |-> [key |-> hp[x.v].items[j].key, val |-> ObsVal(hp, hp[x.v].items[j].val)]]]
\* the same tree without node identities (what a recorder can see)
RECURSIVE CheckTree(_, _)
CheckTree(hp, x) ==
    IF ~IsRef(x) THEN [t |-> x.t, v |-> x.v, rc |-> 0, items |-> <<>>]
    ELSE [t |-> hp[x.v].k, v |-> 0, rc |-> hp[x.v].rc,
          items |-> [j \in 1..Len(hp[x.v].items) |-> [key |-> hp[x.v].items[j].key, val |-> CheckTree(hp, hp[x.v].items[j].val)]]]
ObsRoots(hp, rt) == [r \in 1..NR |-> ObsVal(hp, rt[r])]
EqMatrix(hp, rt) == [i \in 1..(NR * NR) |-> LET a == ((i - 1) \div NR) + 1 b == ((i - 1) % NR) + 1 IN
                        [a |-> a, b |-> b, eq |-> EqR(hp, rt[a], rt[b])]]
LiveCount(hp) == Cardinality({n \in Nodes : hp[n].k # "free"})
View == <<root, heap, Len(hist), hz>>
Emit == PrintT(ToJson([hist |-> hist', exp |-> ObsRoots(heap', root'), eq |-> EqMatrix(heap', root'),
                       nodes |-> LiveCount(heap'), strs |-> StrTab, keys |-> KeyTab,
                       probes |-> [j \in 1..Len(ContProbe) |-> ScalarTab[ContProbe[j]]], hz |-> hz']))
===============================================================================
