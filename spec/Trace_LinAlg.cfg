SPECIFICATION TraceSpec
CONSTANT P = 32749
POSTCONDITION TraceAccepted
CHECK_DEADLOCK FALSE
