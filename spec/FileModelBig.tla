------------------------------ MODULE FileModelBig ------------------------------
(* C17 for contents beyond TLC's reach as explicit sequences (the property samples sizes up to 16 MiB).

   The same file-system actions as FileModel (put, append, copy, move, remove, content, firstBytes, size), but a
   content is held in run-length form  <<b1, n1, b2, n2, ...>>  (maximal runs: counts >= 1, neighbouring bytes
   differ), so a 16 MiB file made of a few dozen runs is a short tuple.  The operators on that form - length,
   concatenation, prefix - are proved equal to the ones on explicit byte sequences in small scope (ASSUMEs below,
   checked by TLC over every pair of small run lists), and the canonical form is unique, so equality of run
   lists is equality of contents.  Trace_FileModelBig validates recorded executions with these operators.       *)
EXTENDS Integers, Sequences, FiniteSets, TLC

CONSTANTS LemmaBytes, LemmaCounts, LemmaRuns    \* scope of the equivalence check (sets of bytes / counts, max runs)

VARIABLES bfs       \* path -> NoFile or canonical run list
bvars == <<bfs>>
Paths  == {"p", "q", "r"}
NoFile == <<-1>>

-------------------------------------------------------------------------------
Runs(z)  == Len(z) \div 2
ByteAt(z, k) == z[2 * k - 1]
CountAt(z, k) == z[2 * k]
Canonical(z) == /\ Len(z) % 2 = 0
                /\ {k \in 1..Runs(z) : CountAt(z, k) < 1 \/ ByteAt(z, k) \notin 0..255} = {}
                /\ {k \in 1..(Runs(z) - 1) : ByteAt(z, k) = ByteAt(z, k + 1)} = {}
RECURSIVE RLenR(_, _, _)
RLenR(z, lo, hi) == IF lo > hi THEN 0 ELSE IF lo = hi THEN CountAt(z, lo)
                    ELSE LET mid == (lo + hi) \div 2 IN RLenR(z, lo, mid) + RLenR(z, mid + 1, hi)
RLen(z) == RLenR(z, 1, Runs(z))
RConcat(x, y) == IF x = <<>> THEN y ELSE IF y = <<>> THEN x
                 ELSE IF x[Len(x) - 1] = y[1]
                      THEN SubSeq(x, 1, Len(x) - 2) \o <<y[1], x[Len(x)] + y[2]>> \o SubSeq(y, 3, Len(y))
                      ELSE x \o y
RECURSIVE RTake(_, _)
RTake(z, n) == IF n <= 0 \/ z = <<>> THEN <<>>
               ELSE IF z[2] >= n THEN <<z[1], n>>
               ELSE <<z[1], z[2]>> \o RTake(SubSeq(z, 3, Len(z)), n - z[2])

(* equivalence with explicit sequences, small scope *)
RECURSIVE Unrle(_)
Unrle(z) == IF z = <<>> THEN <<>> ELSE [i \in 1..z[2] |-> z[1]] \o Unrle(SubSeq(z, 3, Len(z)))
RECURSIVE RunLists(_)
RunLists(n) == IF n = 0 THEN {<<>>}
               ELSE LET R == RunLists(n - 1) IN R \cup {s \o <<b, c>> : s \in {t \in R : Len(t) = 2 * (n - 1)}, b \in LemmaBytes, c \in LemmaCounts}
Small == {z \in RunLists(LemmaRuns) : Canonical(z)}
Min(a, b) == IF a < b THEN a ELSE b
ASSUME \A x \in Small : RLen(x) = Len(Unrle(x))
ASSUME \A x \in Small, y \in Small : Canonical(RConcat(x, y)) /\ Unrle(RConcat(x, y)) = Unrle(x) \o Unrle(y)
ASSUME \A x \in Small : \A n \in 0..(RLen(x) + 1) :
          Canonical(RTake(x, n)) /\ Unrle(RTake(x, n)) = SubSeq(Unrle(x), 1, Min(n, RLen(x)))
ASSUME \A x \in Small, y \in Small : (Unrle(x) = Unrle(y)) = (x = y)      \* the canonical form is unique

-------------------------------------------------------------------------------
Exists(x) == bfs[x] # NoFile
Cur(x) == IF Exists(x) THEN bfs[x] ELSE <<>>
Land(x, y) == IF y = "d" THEN "r" ELSE y
BInit == bfs = [x \in Paths |-> NoFile]
BPut(x, z)    == Canonical(z) /\ bfs' = [bfs EXCEPT ![x] = z]
BAppend(x, z) == Canonical(z) /\ bfs' = [bfs EXCEPT ![x] = RConcat(Cur(x), z)]
\* File f(x, WRITE); f.write(piece 1); f.write(piece 2); ...; close
BWrite(x, zs) == bfs' = [bfs EXCEPT ![x] = IF Len(zs) = 0 THEN <<>> ELSE IF Len(zs) = 1 THEN zs[1]
                                            ELSE IF Len(zs) = 2 THEN RConcat(zs[1], zs[2]) ELSE RConcat(RConcat(zs[1], zs[2]), zs[3])]
BRemove(x)    == Exists(x) /\ bfs' = [bfs EXCEPT ![x] = NoFile]
BCopy(x, y)   == Exists(x) /\ x # Land(x, y) /\ bfs' = [bfs EXCEPT ![Land(x, y)] = bfs[x]]
BMove(x, y)   == Exists(x) /\ x # Land(x, y) /\ bfs' = [bfs EXCEPT ![Land(x, y)] = bfs[x], ![x] = NoFile]
BContent(x)   == Cur(x)
BFirst(x, n)  == RTake(Cur(x), n)
BSize(x)      == IF Exists(x) THEN RLen(bfs[x]) ELSE -1
\* (no generator: this module is used by the trace specification and for the ASSUMEs above)
BNext == UNCHANGED bvars
BSpec == BInit /\ [][BNext]_bvars
===============================================================================
