SPECIFICATION Spec
CONSTANTS
 NT = 3
 K = 2
 G = 2
 UseLock = FALSE
INVARIANTS NoLoss
CHECK_DEADLOCK FALSE
