------------------------------- MODULE ThreadLife -------------------------------
(* C13 - creator/worker hand-over of asl::Thread, at the granularity of the library's hook points.

   A step is "the granted thread runs from the point where it is parked to its next point".  Points
   (harness/common/vsched.h kinds): creator 11 after pthread_create, 16 inside the spin on `ready`, 19 after the
   spin, 14 before pthread_join, 15 after it; worker 12 entry, 18 after ready:=true, 17 before the finished-flag
   store, 13 after it.  Flavours: "subclass" (start() -> begin: run(); finished:=true) and "lambda"
   (context on the creator's stack, worker copies it and sets ready, creator spins).  SelfCopy = TRUE models the
   lambda constructor as it was before the fix (`*this = start(f, this)` copies a temporary whose flag is false
   over the flag the worker may already have set) - TLC exhibits the lost flag on that variant.

   Properties (the listed property, on the design): the body runs exactly once; join returns only after the body
   completed with its effect visible; finished() is true from then on.
   R: every terminal behaviour is printed (plan = thread of every step, expected observables after every step) and
   forced onto real pthreads by the token-passing scheduler (harness/c13_threads.cpp).                          *)
EXTENDS Naturals, Sequences, TLC, Json

CONSTANTS Flavour, SelfCopy

VARIABLES cpc, wpc, ready, fin, eff, hist
vars == <<cpc, wpc, ready, fin, eff, hist>>

Init == /\ cpc = "created"     \* creator parked at 11, worker parked at its entry point 12
        /\ wpc = "entry"
        /\ ready = FALSE /\ fin = FALSE /\ eff = 0
        /\ hist = <<>>

Obs(t) == [t |-> t, fin |-> fin', eff |-> eff']
Log(t) == hist' = Append(hist, Obs(t))

CCreated == /\ cpc = "created"
            /\ cpc' = IF Flavour = "subclass" THEN "prejoin" ELSE IF ready THEN "spun" ELSE "spin"
            /\ UNCHANGED <<wpc, ready, fin, eff>> /\ Log(0)
CSpin    == /\ cpc = "spin" /\ ready
            /\ cpc' = "spun" /\ UNCHANGED <<wpc, ready, fin, eff>> /\ Log(0)
CSpun    == /\ cpc = "spun"
            /\ cpc' = "prejoin"
            /\ fin' = IF SelfCopy THEN FALSE ELSE fin
            /\ UNCHANGED <<wpc, ready, eff>> /\ Log(0)
CJoin    == /\ cpc = "prejoin" /\ wpc = "done"
            /\ cpc' = "joined" /\ UNCHANGED <<wpc, ready, fin, eff>> /\ Log(0)
CEnd     == /\ cpc = "joined"
            /\ cpc' = "end" /\ UNCHANGED <<wpc, ready, fin, eff>> /\ Log(0)

WEntry   == /\ wpc = "entry"
            /\ IF Flavour = "subclass"
               THEN /\ wpc' = "prefin" /\ eff' = eff + 1 /\ UNCHANGED ready      \* run() executes
               ELSE /\ wpc' = "ready" /\ ready' = TRUE /\ UNCHANGED eff          \* context copied, ready := true
            /\ UNCHANGED <<cpc, fin>> /\ Log(1)
WBody    == /\ wpc = "ready"
            /\ wpc' = "prefin" /\ eff' = eff + 1
            /\ UNCHANGED <<cpc, ready, fin>> /\ Log(1)
WFin     == /\ wpc = "prefin"
            /\ wpc' = "exited" /\ fin' = TRUE
            /\ UNCHANGED <<cpc, ready, eff>> /\ Log(1)
WExit    == /\ wpc = "exited"
            /\ wpc' = "done" /\ UNCHANGED <<cpc, ready, fin, eff>> /\ Log(1)

Next == CCreated \/ CSpin \/ CSpun \/ CJoin \/ CEnd \/ WEntry \/ WBody \/ WFin \/ WExit
Spec == Init /\ [][Next]_vars
FairSpec == Spec /\ WF_vars(Next)

RunsOnce       == eff <= 1
JoinAfterBody  == cpc \in {"joined", "end"} => (eff = 1 /\ wpc = "done")
FinishedAfterJoin == cpc \in {"joined", "end"} => fin
Terminates     == <>(cpc = "end")

Emit == IF cpc' = "end"
        THEN PrintT(ToJson([k |-> "sched", flavour |-> Flavour, steps |-> hist']))
        ELSE TRUE
===============================================================================
