SPECIFICATION Spec
CONSTANTS
 Part = "ini"
 IniLines <- LinesT
 MaxLines = 3
 SetNames <- NamesT
 SetValues <- ValuesT
 MaxSets = 2
 Cells <- NoCells
 MaxCols = 1
 MaxCells = 0
ACTION_CONSTRAINT Emit
INVARIANTS RefWriterOK
CHECK_DEADLOCK FALSE
