-------------------------- MODULE Trace_XdlWriterDev --------------------------
(* C05 - judgement of *layout deviations* found by harness/c05_replay in the writer cases of XdlWriterEnum: texts the real
   encoder produced (Xdl::encode / Json::encode / the file written by Xdl::write / Json::write) that are not byte for
   byte  Ser(tree, mode).  The exact layout is not part of C05, so such a text is accepted iff it satisfies, on its own,
   what C05 and the documentation of the flags demand:
      JSON dialect            the strict RFC 8259 recognizer accepts it, inside the property's domain, with value Lossy(tree)
      XDL dialect (identifier keys)   the design of the parser (XdlSM) accepts it with value Lossy(tree)
      both                    number tokens obey the digits law of the mode (WDenotes: exact / SIMPLE 15-7 / SHORTF 9-7 digits)
                              and the documented flag promises hold (XdlWriter!ModePromises)
   (that the real decoder returns the value was already checked by the replayer on the same text).
   One ndjson line per deviating text: e = "wdev", ti = index into XdlWriterEnum!Trees, mode, xdl, text.          *)
EXTENDS XdlWriterEnum, IOUtils

T == ndJsonDeserialize(IOEnv.TRACE)
VARIABLE l

DevOK(e) ==
    LET t == Trees[e.ti]
        m == e.mode
    IN /\ IsJson(m) => LET r == Doc(e.text) IN r.ok /\ ~r.ex /\ WDenotes(r.v, Lossy(t), m)
       /\ (~IsJson(m) /\ e.xdl) => LET r == Decode(e.text) IN r.ok /\ WDenotes(r.v, Lossy(t), m)
       /\ (IsJson(m) \/ e.xdl) => ModePromises(e.text, m, t)

TInit == l = 1 /\ n = 0 /\ act = "Init"
TStep == /\ l <= Len(T)
         /\ l' = l + 1
         /\ UNCHANGED <<n, act>>
         /\ LET e == T[l] IN
            \/ e.e = "reset"
            \/ e.e = "wdev" /\ DevOK(e)
TraceSpec == TInit /\ [][TStep]_<<l, n, act>>
TraceAccepted == TLCGet("stats").diameter - 1 = Len(T)
===============================================================================
