SPECIFICATION TraceSpec
CONSTANTS
 Slots = {1, 2, 3, 4}
 Objs = {1, 2, 3, 4, 5, 6}
 DerivedSlots = {3, 4}
 DerivedObjs = {1, 2, 3}
 MaxOps = 1000000
 KeepHist = FALSE
POSTCONDITION TraceAccepted
CHECK_DEADLOCK FALSE
