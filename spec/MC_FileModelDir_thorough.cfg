SPECIFICATION Spec
CONSTANTS
 Nodes <- NodesQ
 Contents <- ContentsD
 InitTrees <- TreesD
 Patterns <- PatternsT
 MaxOps = 3
 MaxTemps = 1
 KeepHist = TRUE
VIEW View
ACTION_CONSTRAINT Emit
INVARIANTS TypeOK TreeOK ListingOK
PROPERTIES FailedUnchanged CopyExact MoveExact RemoveLocal CreateMonotone
CHECK_DEADLOCK FALSE
