SPECIFICATION Spec
CONSTANTS
 NH = 2
 K = {0,1,8,9,16}
 V = {1}
 MaxOps = 5
 NB0 = 1
 MapOps = FALSE
 HeadBug = FALSE
 EqLockstep = FALSE
 AllowSharedRehash = FALSE
 Sizes = {}
 ZeroBins = FALSE
 SelfAssignClears = FALSE
VIEW View
ACTION_CONSTRAINT Emit
INVARIANTS BinsOK Refines LengthOK ChainsOK LookupOK SharingOK EqualOK GhostOK
CHECK_DEADLOCK FALSE
