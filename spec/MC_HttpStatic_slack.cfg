SPECIFICATION Spec
CONSTANTS
 ReqSet <- HistReqs
 ImsFiles <- HistMutable
 Deltas <- HistDeltas
 Mutable <- HistMutable
 Slack = 1
 Dts = {1, 2}
 MaxOps = 3
VIEW View
INVARIANTS TypeOK CacheCoherent NotModifiedSound ContentOnlyFromFiles RedirectOnlyDirs
CHECK_DEADLOCK FALSE
