SPECIFICATION Spec
CONSTANTS
 Native = "LITTLE"
 ScalarTypes = {"u8", "i8", "ch", "bool", "i16", "u16", "i32", "u32", "f32", "i64", "u64", "f64"}
 ArrayTypes = {"u8", "i8", "ch", "bool", "i16", "u16", "i32", "u32", "f32", "i64", "u64", "f64"}
 ArrayLens = {0, 1, 2, 3}
 NVals = 3
 MaxOps = 3
 KeepHist = TRUE
VIEW View
ACTION_CONSTRAINT Emit
INVARIANTS TypeOK LengthOK ReadBack
PROPERTIES AppendOnly OrderOnlyLater
CHECK_DEADLOCK FALSE
