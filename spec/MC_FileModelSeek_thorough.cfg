SPECIFICATION Spec
CONSTANTS
 Chunks <- ChunksT
 Ints <- IntsT
 ReadSizes = {0, 1, 3, 7}
 SeekOffs <- OffsT
 Times = {1000000000, 86400}
 Exts <- ExtsT
 MaxLen = 7
 MaxOps = 5
 MaxTemps = 2
 KeepHist = TRUE
VIEW View
ACTION_CONSTRAINT Emit
INVARIANTS TypeOK HandleOK
PROPERTIES WritesOnly AppendOnly WriteLocal ReadExact TimeMonotone
CHECK_DEADLOCK FALSE
