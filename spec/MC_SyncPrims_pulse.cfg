SPECIFICATION FairSpec
CONSTANTS
 NProd = 1
 NCons = 1
 PerProd = 0
 NTimed = 0
 NWait = 2
 NTimedW = 0
 Poller = FALSE
 AtomicWait = FALSE
 Interrupts = FALSE
 EintrReturns = FALSE
INVARIANTS MutexInv
PROPERTIES AllWoken
CHECK_DEADLOCK FALSE
