---------------------------- MODULE MC_FiniteMapExt ----------------------------
(* constants of the FiniteMapExt configurations that a .cfg file cannot spell (sequences of records) *)
EXTENDS FiniteMapExt
P(k, v) == [k |-> k, v |-> v]
\* three entries in non-ascending order; a key given twice (the later value stays)
MapLists == { <<P(2, 1), P(3, 2), P(1, 1)>>, <<P(2, 2), P(1, 1), P(2, 1)>> }
MapListsT == MapLists \cup { <<>>, <<P(3, 2), P(2, 2), P(1, 2), P(3, 1)>> }
\* the enumerator-focused quick configuration: the three-entry list only
EnumLists == { <<P(2, 1), P(3, 2), P(1, 1)>> }
SetLists == { <<P(2, 1), P(3, 1), P(1, 1)>>, <<P(2, 1), P(1, 1), P(2, 1)>> }
SetListsT == SetLists \cup { <<>>, <<P(3, 1)>>, <<P(4, 1), P(3, 1), P(2, 1), P(1, 1), P(4, 1)>> }
================================================================================
