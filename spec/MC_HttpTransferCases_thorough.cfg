SPECIFICATION Spec
CONSTANTS
 Thorough = TRUE
INVARIANT Emit
CHECK_DEADLOCK FALSE
