SPECIFICATION FairSpec
CONSTANTS
 Flavour = "lambda"
 SelfCopy = FALSE
INVARIANTS RunsOnce JoinAfterBody FinishedAfterJoin
PROPERTY Terminates
ACTION_CONSTRAINT Emit
CHECK_DEADLOCK FALSE
