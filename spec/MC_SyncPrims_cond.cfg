SPECIFICATION FairSpec
CONSTANTS
 NProd = 1
 NCons = 1
 PerProd = 0
 NTimed = 0
 NWait = 2
 NTimedW = 1
 Poller = TRUE
 AtomicWait = TRUE
 Interrupts = FALSE
 EintrReturns = FALSE
INVARIANTS NoPhantomWake Conservation MutexInv TimeoutOnlyUnsignalled
PROPERTIES AllWoken PollerDone
CHECK_DEADLOCK FALSE
