-------------------------- MODULE HttpRequestTargets --------------------------
(* C09, request targets: every target "/" tok* over the token alphabet below (up to MaxTok tokens) is a state.
   Decided here by TLC: the decoded, normalised path of every such target is free of "..", the two formulations of the
   '..'-removal agree, normalisation is idempotent, and path/query/fragment splitting is well-formed.
   Every state is also emitted as a case for harness/c09_replay.cpp (R): the real server must hand the application
   exactly NormPath(target) (TargetStrict class) and never a path containing "..".                                *)
EXTENDS HttpRequest, Json

CONSTANTS MaxTok,    \* tokens per target (the leading "/" included)
          TokSet     \* which of the tokens below are used (indices)

VARIABLES tgt
vars == <<tgt>>

Tokens == << <<46>>,            \* .
             <<47>>,            \* /
             <<37, 50, 101>>,   \* %2e
             <<37, 50, 69>>,    \* %2E
             <<37, 50, 102>>,   \* %2f
             <<37, 50, 53>>,    \* %25
             <<97>>,            \* a
             <<37, 48, 48>>,    \* %00
             <<63>>,            \* ?
             <<35>> >>          \* #
Bytes(ts) == Flatten([i \in 1..Len(ts) |-> Tokens[ts[i]]])

Init == tgt = <<2>>
Extend(k) == Len(tgt) < MaxTok /\ tgt' = Append(tgt, k)
Next == \E k \in TokSet : Extend(k)
Spec == Init /\ [][Next]_vars

T == Bytes(tgt)
P == SplitTarget(T)
D == PctDecode(P.path)

NoDotDot        == ~HasDD(NormPath(T))
TwoFormulations == RemoveDD(D) = RemoveDDRuns(D)
Idempotent      == RemoveDD(NormPath(T)) = NormPath(T)
\* no path segment is ".." (what a file server joins under its root)
SegmentsSafe    == \A s \in {Split(NormPath(T), SLASH)[i] : i \in 1..Len(Split(NormPath(T), SLASH))} : s # <<46, 46>>
SplitOK         == /\ IndexOf(P.path, QM) = 0 /\ IndexOf(P.path, HASH) = 0 /\ IndexOf(P.query, HASH) = 0
                   /\ Len(P.path) + Len(P.query) + Len(P.frag) + (IF IndexOf(T, HASH) > 0 THEN 1 ELSE 0)
                        + (IF IndexOf(T, QM) > 0 /\ (IndexOf(T, HASH) = 0 \/ IndexOf(T, QM) < IndexOf(T, HASH)) THEN 1 ELSE 0) = Len(T)
\* decoding never lengthens, removal never lengthens
Shrinks         == Len(D) <= Len(P.path) /\ Len(NormPath(T)) <= Len(D)

Hz(t) == (IF IndexOf(t, HASH) > 0 /\ IndexFrom(t, QM, IndexOf(t, HASH)) > 0 THEN {"FragmentBeforeQuery"} ELSE {})
         \cup (IF HasNul(PctDecode(SplitTarget(t).path)) THEN {"NulInPath"} ELSE {})

Emit == LET t == Bytes(tgt') IN
        PrintT(ToJson([k |-> "tgt", t |-> t, path |-> NormPath(t), q |-> SplitTarget(t).query,
                       strict |-> TargetStrict(t), hz |-> Hz(t)]))
================================================================================
