SPECIFICATION FSpec
CONSTANTS
 Native = "LITTLE"
 ScalarTypes = {"u8", "i16", "f64"}
 ArrayTypes = {"i16"}
 ArrayLens = {2}
 NVals = 1
 MaxOps = 5
 PoolTypeSeqs <- PoolsNone
 PoolLens <- LensNone
 PoolSetIdx = {}
 KeepHist = TRUE
 InitFiles <- FilesT
 RawChunks <- ChunksT
 Strings <- StringsT
 ReadTypes = {"u8", "bool", "i16", "i32", "f64"}
 ByteCounts = {0, 3, 16}
 Seeks <- SeeksT
VIEW FView
ACTION_CONSTRAINT FEmit
INVARIANTS FTypeOK
PROPERTIES LocalWrite ReadBackAtPos ReadOnlyReads ShortReadFlagged ReadModeProtects FOrderOnlyLater LenStringInverse
CHECK_DEADLOCK FALSE
