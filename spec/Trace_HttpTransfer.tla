--------------------------- MODULE Trace_HttpTransfer ---------------------------
(* V binding for HttpTransfer.tla: recorded uploads, downloads, form bodies and routing calls (random file sizes and
   contents, names, patterns; several in flight at once).  Every event is independent:
   upload   : the handler's view of Http::upload - for small files the whole body is in the log and must be
              Envelope(b, name, file) for the boundary b found in the Content-Type, with BoundaryOK(b) and the delimiter
              "--" b absent from the file; for all sizes head / tail / inner length / inner-bytes-equal must fit
   download : return value, the file written and the progress reports of Http::download
   form     : the body of put(Var) with Content-Type application/x-www-form-urlencoded
   route    : results of a sequence of is(pattern) / is(method, pattern) calls and suffix()
   Each carries ms, the wall time of the client's call (see Slow below).                                         *)
EXTENDS HttpTransfer, IOUtils

T == ndJsonDeserialize(IOEnv.TRACE)
VARIABLES l
TInit == l = 1

(* Wall time.  Every exchange-type event carries ms, the wall milliseconds the exchange took on the recording machine.  The
   library ends exchanges by itself after fixed times (HttpServer drops a connection 10 s after accepting it and waits 5 s
   for data; HttpMessage::readBody hands over a truncated body after 10 s without input): design decisions of asl that this
   property does not forbid and that fire on an overloaded machine.  An event with ms >= SlowMs (far above a normal exchange
   of a few ms, well below those limits) is therefore consumed without constraining what was observed; everything else is
   checked exactly as before.  checks/C10.py bounds the number of slow events per recording (a server that does not answer
   is still reported).                                                                                                    *)
SlowMs == 4000
Slow(e) == "ms" \in DOMAIN e /\ e.ms >= SlowMs

MPPRE == MPTYPE \o MPBOUND
UploadOK(e) ==
    LET o == e.obs IN
    /\ o.ret = (e.exists /\ Is2xx(e.hcode))
    /\ o.calls = (IF e.exists THEN 1 ELSE 0)
    /\ e.exists =>
        /\ o.method = "POST" /\ o.clen = o.blen
        /\ IF e.ctype = <<>>
           THEN /\ Len(o.ctype) > Len(MPPRE) /\ SubSeq(o.ctype, 1, Len(MPPRE)) = MPPRE
                /\ LET b == SubSeq(o.ctype, Len(MPPRE) + 1, Len(o.ctype)) IN
                   /\ BoundaryOK(b)
                   /\ o.head = EnvelopeHead(b, e.fname) /\ o.tail = EnvelopeTail(b)
                   /\ o.blen = Len(o.head) + e.fsize + Len(o.tail)
                   /\ o.innereq
                   /\ e.small => (o.body = Envelope(b, e.fname, e.file) /\ ~Occurs(DASH2 \o b, e.file))
           ELSE o.ctype = e.ctype /\ o.blen = e.fsize /\ o.innereq
DownloadOK(e) ==
    LET o == e.obs IN
    /\ o.ret = Is2xx(e.code) /\ o.calls = 1 /\ o.method = "GET"
    /\ Is2xx(e.code) => (o.fexists /\ o.flen = e.blen /\ o.feq /\ o.pmono /\ (e.blen > 0 => o.plast = e.blen))
FormOK(e) == e.obs.ctype = FORMTYPE /\ e.obs.body \in FormBodies(e.pairs) /\ e.obs.calls = 1
RouteOK(e) ==
    LET r == [method |-> e.method, segs |-> e.segs, calls |-> e.calls]
        w == RouteView(r) IN
    /\ e.obs.calls = 1 /\ Len(e.obs.results) = Len(w)
    /\ \A k \in 1..Len(w) : /\ e.obs.results[k].ok = w[k].ok
                           /\ (w[k].sdef => e.obs.results[k].suffix = w[k].suffix)

Step ==
  /\ l <= Len(T) /\ l' = l + 1
  /\ LET e == T[l] IN
     \/ e.e = "reset"
     \/ e.e = "upload" /\ (Slow(e) \/ UploadOK(e))
     \/ e.e = "download" /\ (Slow(e) \/ DownloadOK(e))
     \/ e.e = "form" /\ (Slow(e) \/ FormOK(e))
     \/ e.e = "route" /\ (Slow(e) \/ RouteOK(e))

TraceSpec == TInit /\ [][Step]_l
TraceAccepted == TLCGet("stats").diameter - 1 = Len(T)
=============================================================================
