SPECIFICATION Spec
CONSTANTS
 NP = 3
 Per = 1
INVARIANTS CountMatches NoUseAfterFree AliveWhileHandles DestroyedOnce MutexOwnerInside NeverMoreTakenThanPut AtEnd PerConsumerFifo
PROPERTIES Terminates
CHECK_DEADLOCK TRUE
