----------------------------- MODULE Trace_LinAlg -----------------------------
(* V binding for C20: validates executions recorded from the real ASL templates instantiated over Z_32749
   (harness/c20_record.cpp) by evaluating the algebraic clauses of the property exactly with the operators of
   LinAlg.tla.  Matrices are logged row-major; "dz" = 1 when the library divided by zero; "key" selects the pivot order
   the solver followed (the property must hold for every order).

     inv3 / inv4 : Matrix3_/Matrix4_::det() and inverse()         det = Det(A); Det(A) # 0 => A R = R A = I, no dz
     mul4 / mul3 : operator* and det of the product                R = A B; det(R) = det(A) det(B)
     solve       : solve(A, B), A n x n (n <= 12), B n x c         A nonsingular => A X = B, no dz; arguments unchanged
     minv        : Matrix_::inverse()                              A nonsingular => A R = I
     lsq         : solve(A, B), A m x n, m > n                     A^T A nonsingular => (A^T A) X = A^T B
     quat        : Quaternion_ product, inverse, matrix(), rotation of a vector (q, p of norm one)
     vec / aff / cplx / qalg (growth, operators of LinAlgGeom.tla): Vec3 / Vec4 algebra, affine transforms (point, direction,
                   composition, inverse), Complex over Z_P[i], quaternions of any norm
   Singularity is decided by the spec (elimination determinant); for singular systems any result is accepted.   *)
EXTENDS LinAlg, Json, IOUtils, TLC

\* the geometry layer (growth): operators of LinAlgGeom.tla; its case-generator variables and sizes are not used here
G == INSTANCE LinAlgGeom WITH c <- 0, phase <- 0, NVec <- 0, NAff <- 0, NQuat <- 0, NCplx <- 0, NDyn <- 0

T == ndJsonDeserialize(IOEnv.TRACE)
VARIABLE l

Sq(flat, n) == Reshape(flat, n, n)
WellFormed(flat, r, cc) == Len(flat) = r * cc /\ \A i \in 1..Len(flat) : flat[i] \in Fp

InvOK(e, n) ==
    /\ WellFormed(e.a, n, n) /\ WellFormed(e.r, n, n)
    /\ LET A == Sq(e.a, n) R == Sq(e.r, n) d == Det(A) IN
       /\ e.det = d
       /\ DetGauss(A) = d
       /\ d # 0 => (e.dz = 0 /\ MatMul(A, R) = Ident(n) /\ MatMul(R, A) = Ident(n) /\ R = AdjInverse(A))
MulOK(e, n) ==
    /\ WellFormed(e.a, n, n) /\ WellFormed(e.b, n, n) /\ WellFormed(e.r, n, n)
    /\ LET A == Sq(e.a, n) B == Sq(e.b, n) R == Sq(e.r, n) IN
       /\ R = MatMul(A, B)
       /\ e.deta = Det(A) /\ e.detb = Det(B) /\ e.detr = Det(R)
       /\ e.detr = MulP(e.deta, e.detb)
SolveOK(e) ==
    /\ e.n \in 1..12 /\ WellFormed(e.a, e.n, e.n) /\ WellFormed(e.b, e.n, e.c)
    /\ e.a2 = e.a
    /\ LET A == Sq(e.a, e.n) B == Reshape(e.b, e.n, e.c) IN
       ~Singular(A) => /\ e.dz = 0 /\ e.xr = e.n /\ WellFormed(e.x, e.n, e.c)
                       /\ LET X == Reshape(e.x, e.n, e.c) IN MatMul(A, X) = B /\ X = SolveGauss(A, B)
MinvOK(e) ==
    /\ WellFormed(e.a, e.n, e.n)
    /\ LET A == Sq(e.a, e.n) IN
       ~Singular(A) => /\ e.dz = 0 /\ WellFormed(e.r, e.n, e.n)
                       /\ MatMul(A, Sq(e.r, e.n)) = Ident(e.n) /\ MatMul(Sq(e.r, e.n), A) = Ident(e.n)
LsqOK(e) ==
    /\ e.m > e.n /\ WellFormed(e.a, e.m, e.n) /\ WellFormed(e.b, e.m, e.c)
    /\ LET A == Reshape(e.a, e.m, e.n) B == Reshape(e.b, e.m, e.c) NA == NormalA(A) IN
       ~Singular(NA) => /\ e.dz = 0 /\ e.xr = e.n /\ WellFormed(e.x, e.n, e.c)
                        /\ MatMul(NA, Reshape(e.x, e.n, e.c)) = NormalB(A, B)

\* quaternions <<w, x, y, z>> over Z_P
QMulP(p, q) == << SubP(SubP(SubP(MulP(p[1], q[1]), MulP(p[2], q[2])), MulP(p[3], q[3])), MulP(p[4], q[4])),
                  SubP(AddP(AddP(MulP(p[1], q[2]), MulP(p[2], q[1])), MulP(p[3], q[4])), MulP(p[4], q[3])),
                  AddP(AddP(SubP(MulP(p[1], q[3]), MulP(p[2], q[4])), MulP(p[3], q[1])), MulP(p[4], q[2])),
                  AddP(SubP(AddP(MulP(p[1], q[4]), MulP(p[2], q[3])), MulP(p[3], q[2])), MulP(p[4], q[1])) >>
QNorm2(q) == AddP(AddP(MulP(q[1], q[1]), MulP(q[2], q[2])), AddP(MulP(q[3], q[3]), MulP(q[4], q[4])))
QConjP(q) == <<q[1], NegP(q[2]), NegP(q[3]), NegP(q[4])>>
QScale(k, q) == <<MulP(k, q[1]), MulP(k, q[2]), MulP(k, q[3]), MulP(k, q[4])>>
One == <<1, 0, 0, 0>>
\* rotation by conjugation v -> q v conj(q), as a 3 x 3 matrix (q of norm one)
BasisQ(j) == <<0, IF j = 1 THEN 1 ELSE 0, IF j = 2 THEN 1 ELSE 0, IF j = 3 THEN 1 ELSE 0>>
RotOf(q) == [i \in 1..3 |-> [j \in 1..3 |-> QMulP(QMulP(q, BasisQ(j)), QConjP(q))[i + 1]]]
\* the 4 x 4 homogeneous matrix of a rotation
Homog(R) == [i \in 1..4 |-> [j \in 1..4 |-> IF i <= 3 /\ j <= 3 THEN R[i][j] ELSE IF i = j THEN 1 ELSE 0]]
QuatOK(e) ==
    /\ \A s \in {e.u, e.q, e.p, e.pq, e.qi} : Len(s) = 4 /\ \A i \in 1..4 : s[i] \in Fp
    /\ e.dz = 0
    /\ e.q = QScale(InvP(QNorm2(e.u)), QMulP(e.u, e.u))            \* operator^, length2, operator/
    /\ QNorm2(e.q) = 1 /\ QNorm2(e.p) = 1
    /\ e.pq = QMulP(e.p, e.q)
    /\ QMulP(e.q, e.qi) = One /\ QMulP(e.qi, e.q) = One            \* inverse()
    /\ Sq(e.mq, 4) = Homog(RotOf(e.q)) /\ Sq(e.mp, 4) = Homog(RotOf(e.p))      \* matrix()
    /\ Sq(e.mpq, 4) = MatMul(Sq(e.mp, 4), Sq(e.mq, 4))             \* the product is the composition: q first, then p
    /\ MatMul(RotOf(e.q), Transpose(RotOf(e.q))) = Ident(3) /\ Det(RotOf(e.q)) = 1
    /\ e.qw = MatVec(RotOf(e.q), e.w)                               \* operator*(Vec3)

\* vec: Vec3 cross / dot / triple product (= det of the Matrix3 with these rows), Vec4 compare / == / h2c
WFV(v, n) == Len(v) = n /\ \A i \in 1..n : v[i] \in Fp
VecOK(e) ==
    /\ WFV(e.a, 3) /\ WFV(e.b, 3) /\ WFV(e.c, 3) /\ WFV(e.a4, 4) /\ WFV(e.b4, 4)
    /\ e.cross = G!Cross3(e.a, e.b) /\ e.dot = Dot(e.a, e.b)
    /\ G!Len2(e.cross) = SubP(MulP(G!Len2(e.a), G!Len2(e.b)), MulP(e.dot, e.dot))          \* Lagrange
    /\ e.triple = Det(<<e.a, e.b, e.c>>) /\ e.det = e.triple
    /\ e.cmp4 = G!Cmp(e.a4, e.b4) /\ (e.eq4 = 1) = (e.a4 = e.b4)
    /\ e.a4[4] # 0 => (e.h2c = G!H2C(e.a4) /\ e.dz = 0)
\* aff: an affine transform (L | t) on a point / direction, composition with a second one, inverse
AffOK(e) ==
    /\ WellFormed(e.l, 3, 3) /\ WellFormed(e.l2, 3, 3) /\ WFV(e.t, 3) /\ WFV(e.t2, 3) /\ WFV(e.p, 3) /\ WellFormed(e.inv, 4, 4)
    /\ LET L == Sq(e.l, 3) A == G!Affine(L, e.t) A2 == G!Affine(Sq(e.l2, 3), e.t2) IN
       /\ Sq(e.g, 4) = A
       /\ e.gp = G!Point(A, e.p) /\ e.gd = G!Direction(A, e.p) /\ e.gp = G!VAdd(e.gd, e.t)
       /\ Sq(e.prod, 4) = MatMul(A, A2)
       /\ e.comp = G!Point(A, G!Point(A2, e.p)) /\ e.viaprod = e.comp                     \* product = composition
       /\ e.det = Det(L) /\ e.det = Det(A)
       /\ Det(L) # 0 => /\ e.dz = 0 /\ Sq(e.inv, 4) = AdjInverse(A) /\ e.back = e.p
                         /\ Sq(e.inv, 4) = G!Affine(AdjInverse(L), G!VNeg(MatVec(AdjInverse(L), e.t)))
\* cplx: Z_P[i]
CplxOK(e) ==
    /\ WFV(e.z, 2) /\ WFV(e.y, 2)
    /\ e.sum = G!VAdd(e.z, e.y) /\ e.prd = G!CMul(e.z, e.y) /\ e.conj = G!CConj(e.z) /\ e.mag2 = G!Len2(e.z)
    /\ G!Len2(e.y) # 0 => (e.dz = 0 /\ e.quo = G!CDiv(e.z, e.y) /\ G!CMul(e.quo, e.y) = e.z)
\* qalg: quaternions of any norm
QalgOK(e) ==
    /\ WFV(e.q1, 4) /\ WFV(e.q2, 4) /\ WFV(e.q3, 4)
    /\ e.p12 = QMulP(e.q1, e.q2) /\ e.lft = QMulP(e.p12, e.q3) /\ e.rgt = e.lft                \* associative
    /\ e.conj = QConjP(e.q1) /\ e.n1 = QNorm2(e.q1)
    /\ QNorm2(e.p12) = MulP(e.n1, QNorm2(e.q2))
    /\ e.n1 # 0 => (e.dz = 0 /\ QMulP(e.q1, e.inv) = One /\ QMulP(e.inv, e.q1) = One)

TInit == l = 1
TStep ==
  /\ l <= Len(T)
  /\ l' = l + 1
  /\ LET e == T[l] IN
     \/ e.e = "reset" /\ e.p = P
     \/ e.e = "inv3" /\ InvOK(e, 3)
     \/ e.e = "inv4" /\ InvOK(e, 4)
     \/ e.e = "mul4" /\ MulOK(e, 4)
     \/ e.e = "mul3" /\ MulOK(e, 3)
     \/ e.e = "solve" /\ SolveOK(e)
     \/ e.e = "minv" /\ MinvOK(e)
     \/ e.e = "lsq" /\ LsqOK(e)
     \/ e.e = "quat" /\ QuatOK(e)
     \/ e.e = "vec" /\ VecOK(e)
     \/ e.e = "aff" /\ AffOK(e)
     \/ e.e = "cplx" /\ CplxOK(e)
     \/ e.e = "qalg" /\ QalgOK(e)

TraceSpec == TInit /\ [][TStep]_l
TraceAccepted == TLCGet("stats").diameter - 1 = Len(T)
===============================================================================
