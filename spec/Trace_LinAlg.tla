----------------------------- MODULE Trace_LinAlg -----------------------------
(* V binding for C20: validates executions recorded from the real ASL templates instantiated over Z_32749
   (harness/c20_record.cpp) by evaluating the algebraic clauses of the property exactly with the operators of
   LinAlg.tla.  Matrices are logged row-major; "dz" = 1 when the library divided by zero; "key" selects the pivot order
   the solver followed (the property must hold for every order).

     inv3 / inv4 : Matrix3_/Matrix4_::det() and inverse()         det = Det(A); Det(A) # 0 => A R = R A = I, no dz
     mul4 / mul3 : operator* and det of the product                R = A B; det(R) = det(A) det(B)
     solve       : solve(A, B), A n x n (n <= 12), B n x c         A nonsingular => A X = B, no dz; arguments unchanged
     minv        : Matrix_::inverse()                              A nonsingular => A R = I
     lsq         : solve(A, B), A m x n, m > n                     A^T A nonsingular => (A^T A) X = A^T B
     quat        : Quaternion_ product, inverse, matrix(), rotation of a vector (q, p of norm one)
   Singularity is decided by the spec (elimination determinant); for singular systems any result is accepted.   *)
EXTENDS LinAlg, Json, IOUtils, TLC

T == ndJsonDeserialize(IOEnv.TRACE)
VARIABLE l

Sq(flat, n) == Reshape(flat, n, n)
WellFormed(flat, r, cc) == Len(flat) = r * cc /\ \A i \in 1..Len(flat) : flat[i] \in Fp

InvOK(e, n) ==
    /\ WellFormed(e.a, n, n) /\ WellFormed(e.r, n, n)
    /\ LET A == Sq(e.a, n) R == Sq(e.r, n) d == Det(A) IN
       /\ e.det = d
       /\ DetGauss(A) = d
       /\ d # 0 => (e.dz = 0 /\ MatMul(A, R) = Ident(n) /\ MatMul(R, A) = Ident(n) /\ R = AdjInverse(A))
MulOK(e, n) ==
    /\ WellFormed(e.a, n, n) /\ WellFormed(e.b, n, n) /\ WellFormed(e.r, n, n)
    /\ LET A == Sq(e.a, n) B == Sq(e.b, n) R == Sq(e.r, n) IN
       /\ R = MatMul(A, B)
       /\ e.deta = Det(A) /\ e.detb = Det(B) /\ e.detr = Det(R)
       /\ e.detr = MulP(e.deta, e.detb)
SolveOK(e) ==
    /\ e.n \in 1..12 /\ WellFormed(e.a, e.n, e.n) /\ WellFormed(e.b, e.n, e.c)
    /\ e.a2 = e.a
    /\ LET A == Sq(e.a, e.n) B == Reshape(e.b, e.n, e.c) IN
       ~Singular(A) => /\ e.dz = 0 /\ e.xr = e.n /\ WellFormed(e.x, e.n, e.c)
                       /\ LET X == Reshape(e.x, e.n, e.c) IN MatMul(A, X) = B /\ X = SolveGauss(A, B)
MinvOK(e) ==
    /\ WellFormed(e.a, e.n, e.n)
    /\ LET A == Sq(e.a, e.n) IN
       ~Singular(A) => /\ e.dz = 0 /\ WellFormed(e.r, e.n, e.n)
                       /\ MatMul(A, Sq(e.r, e.n)) = Ident(e.n) /\ MatMul(Sq(e.r, e.n), A) = Ident(e.n)
LsqOK(e) ==
    /\ e.m > e.n /\ WellFormed(e.a, e.m, e.n) /\ WellFormed(e.b, e.m, e.c)
    /\ LET A == Reshape(e.a, e.m, e.n) B == Reshape(e.b, e.m, e.c) NA == NormalA(A) IN
       ~Singular(NA) => /\ e.dz = 0 /\ e.xr = e.n /\ WellFormed(e.x, e.n, e.c)
                        /\ MatMul(NA, Reshape(e.x, e.n, e.c)) = NormalB(A, B)

\* quaternions <<w, x, y, z>> over Z_P
QMulP(p, q) == << SubP(SubP(SubP(MulP(p[1], q[1]), MulP(p[2], q[2])), MulP(p[3], q[3])), MulP(p[4], q[4])),
                  SubP(AddP(AddP(MulP(p[1], q[2]), MulP(p[2], q[1])), MulP(p[3], q[4])), MulP(p[4], q[3])),
                  AddP(AddP(SubP(MulP(p[1], q[3]), MulP(p[2], q[4])), MulP(p[3], q[1])), MulP(p[4], q[2])),
                  AddP(SubP(AddP(MulP(p[1], q[4]), MulP(p[2], q[3])), MulP(p[3], q[2])), MulP(p[4], q[1])) >>
QNorm2(q) == AddP(AddP(MulP(q[1], q[1]), MulP(q[2], q[2])), AddP(MulP(q[3], q[3]), MulP(q[4], q[4])))
QConjP(q) == <<q[1], NegP(q[2]), NegP(q[3]), NegP(q[4])>>
QScale(k, q) == <<MulP(k, q[1]), MulP(k, q[2]), MulP(k, q[3]), MulP(k, q[4])>>
One == <<1, 0, 0, 0>>
\* rotation by conjugation v -> q v conj(q), as a 3 x 3 matrix (q of norm one)
BasisQ(j) == <<0, IF j = 1 THEN 1 ELSE 0, IF j = 2 THEN 1 ELSE 0, IF j = 3 THEN 1 ELSE 0>>
RotOf(q) == [i \in 1..3 |-> [j \in 1..3 |-> QMulP(QMulP(q, BasisQ(j)), QConjP(q))[i + 1]]]
\* the 4 x 4 homogeneous matrix of a rotation
Homog(R) == [i \in 1..4 |-> [j \in 1..4 |-> IF i <= 3 /\ j <= 3 THEN R[i][j] ELSE IF i = j THEN 1 ELSE 0]]
QuatOK(e) ==
    /\ \A s \in {e.u, e.q, e.p, e.pq, e.qi} : Len(s) = 4 /\ \A i \in 1..4 : s[i] \in Fp
    /\ e.dz = 0
    /\ e.q = QScale(InvP(QNorm2(e.u)), QMulP(e.u, e.u))            \* operator^, length2, operator/
    /\ QNorm2(e.q) = 1 /\ QNorm2(e.p) = 1
    /\ e.pq = QMulP(e.p, e.q)
    /\ QMulP(e.q, e.qi) = One /\ QMulP(e.qi, e.q) = One            \* inverse()
    /\ Sq(e.mq, 4) = Homog(RotOf(e.q)) /\ Sq(e.mp, 4) = Homog(RotOf(e.p))      \* matrix()
    /\ Sq(e.mpq, 4) = MatMul(Sq(e.mp, 4), Sq(e.mq, 4))             \* the product is the composition: q first, then p
    /\ MatMul(RotOf(e.q), Transpose(RotOf(e.q))) = Ident(3) /\ Det(RotOf(e.q)) = 1
    /\ e.qw = MatVec(RotOf(e.q), e.w)                               \* operator*(Vec3)

TInit == l = 1
TStep ==
  /\ l <= Len(T)
  /\ l' = l + 1
  /\ LET e == T[l] IN
     \/ e.e = "reset" /\ e.p = P
     \/ e.e = "inv3" /\ InvOK(e, 3)
     \/ e.e = "inv4" /\ InvOK(e, 4)
     \/ e.e = "mul4" /\ MulOK(e, 4)
     \/ e.e = "mul3" /\ MulOK(e, 3)
     \/ e.e = "solve" /\ SolveOK(e)
     \/ e.e = "minv" /\ MinvOK(e)
     \/ e.e = "lsq" /\ LsqOK(e)
     \/ e.e = "quat" /\ QuatOK(e)

TraceSpec == TInit /\ [][TStep]_l
TraceAccepted == TLCGet("stats").diameter - 1 = Len(T)
===============================================================================
