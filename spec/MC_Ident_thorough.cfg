SPECIFICATION Spec
CONSTANTS
 ByteAlpha = {0, 1, 2, 7, 9, 10, 11, 15, 16, 17, 31, 32, 63, 64, 79, 80, 99, 100, 127, 128, 129, 153, 154, 159, 160, 169, 170, 171, 175, 176, 191, 192, 239, 240, 249, 250, 254, 255}
 TwoPos = {1, 2, 3, 4, 5, 6, 7, 8, 9, 10, 11, 12, 13, 14, 15, 16}
 TwoVals = {1, 10, 171, 240, 255}
 TextAlpha = {45, 48, 49, 57, 97, 98, 102, 65, 70, 103, 71, 32, 9, 47, 58, 64, 96, 123, 125, 43, 120, 88, 95, 46, 126, 127, 128, 255, 1}
 MaxExtra = 4
ACTION_CONSTRAINT Emit
INVARIANTS TypeOK FormatShape ParseOfFormat FormatInjective FormatOfParse Malformed Trichotomy
CHECK_DEADLOCK FALSE
