----------------------------- MODULE ThreadGroupLife -----------------------------
(* C13 - ThreadGroup<T>::start() / join() with NW member threads, at the granularity of the library's hook points
   (creator: 11 after each pthread_create, 14 before and 15 after each pthread_join; member: 12 entry, 17 before the
   finished-flag store, 13 after it).  The creator starts the members one after the other - earlier members may already
   run, finish or be anywhere in between while later ones are being created - and then joins them in order.
   Properties: every member's run() executes exactly once; join() of member i returns only after its run() completed;
   finished() of a joined member is true from then on.  Every terminal behaviour is forced onto a real
   ThreadGroup by the token-passing scheduler (harness/c13_threads.cpp, case kind "gsched").                      *)
EXTENDS Naturals, Sequences, TLC, Json

CONSTANT NW
W == 1..NW

VARIABLES phase, idx, wpc, fin, eff, hist
vars == <<phase, idx, wpc, fin, eff, hist>>

Init == /\ phase = "created" /\ idx = 1            \* creator parked at 11 after creating member 1
        /\ wpc = [w \in W |-> IF w = 1 THEN "entry" ELSE "none"]
        /\ fin = [w \in W |-> FALSE] /\ eff = [w \in W |-> 0]
        /\ hist = <<>>

Log(t) == hist' = Append(hist, [t |-> t, fin |-> [w \in W |-> fin'[w]], eff |-> [w \in W |-> eff'[w]]])

CCreate == /\ phase = "created"
           /\ IF idx < NW
              THEN /\ wpc' = [wpc EXCEPT ![idx + 1] = "entry"] /\ idx' = idx + 1 /\ UNCHANGED phase
              ELSE /\ phase' = "prejoin" /\ idx' = 1 /\ UNCHANGED wpc
           /\ UNCHANGED <<fin, eff>> /\ Log(0)
CJoin == /\ phase = "prejoin" /\ wpc[idx] = "done"
         /\ phase' = "joined" /\ UNCHANGED <<idx, wpc, fin, eff>> /\ Log(0)
CNext == /\ phase = "joined"
         /\ IF idx < NW THEN phase' = "prejoin" /\ idx' = idx + 1 ELSE phase' = "end" /\ UNCHANGED idx
         /\ UNCHANGED <<wpc, fin, eff>> /\ Log(0)
WRun(w) == /\ wpc[w] = "entry"
           /\ wpc' = [wpc EXCEPT ![w] = "prefin"] /\ eff' = [eff EXCEPT ![w] = @ + 1]
           /\ UNCHANGED <<phase, idx, fin>> /\ Log(w)
WFin(w) == /\ wpc[w] = "prefin"
           /\ wpc' = [wpc EXCEPT ![w] = "exited"] /\ fin' = [fin EXCEPT ![w] = TRUE]
           /\ UNCHANGED <<phase, idx, eff>> /\ Log(w)
WExit(w) == /\ wpc[w] = "exited"
            /\ wpc' = [wpc EXCEPT ![w] = "done"]
            /\ UNCHANGED <<phase, idx, fin, eff>> /\ Log(w)

Next == CCreate \/ CJoin \/ CNext \/ \E w \in W : WRun(w) \/ WFin(w) \/ WExit(w)
Spec == Init /\ [][Next]_vars
FairSpec == Spec /\ WF_vars(Next)

Joined(w) == (phase = "joined" /\ idx >= w) \/ (phase = "prejoin" /\ idx > w) \/ phase = "end"
RunsOnce == \A w \in W : eff[w] <= 1
JoinAfterRun == \A w \in W : Joined(w) => (eff[w] = 1 /\ wpc[w] = "done")
FinishedAfterJoin == \A w \in W : Joined(w) => fin[w]
Terminates == <>(phase = "end")

Emit == IF phase' = "end" THEN PrintT(ToJson([k |-> "gsched", nw |-> NW, steps |-> hist'])) ELSE TRUE
===============================================================================
