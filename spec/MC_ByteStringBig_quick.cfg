SPECIFICATION SpecBig
CONSTANTS
 NV = 1
 Lens = {0}
 Pieces = {512, 1024}
 Ints <- IntsA
 MaxTotal = 6200
 MaxOps = 3
 KeepHist = TRUE
 BigLens = {600, 1022, 1023, 1500, 3000}
 Shrinks = {1, 1023}
 Deltas <- DeltasA
 LitJumps = 1
 JumpOps = 1
VIEW BigView
ACTION_CONSTRAINT Emit
INVARIANTS TypeOK HwOK
PROPERTIES Independence Identities HwMono
CHECK_DEADLOCK FALSE
