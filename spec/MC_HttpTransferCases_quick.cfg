SPECIFICATION Spec
CONSTANTS
 Thorough = FALSE
INVARIANT Emit
CHECK_DEADLOCK FALSE
