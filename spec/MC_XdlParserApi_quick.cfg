SPECIFICATION ASpec
CONSTANTS
 MaxCalls = 3
 ResetClearsAll = TRUE
 QKeySlashIsComment = FALSE
ACTION_CONSTRAINT AEmit
INVARIANTS ApiRefines ApiNoUnderflow ApiValue ResetIsNew
PROPERTIES ApiSticky
CHECK_DEADLOCK FALSE
