SPECIFICATION SpecPool
CONSTANTS
 Native = "LITTLE"
 ScalarTypes = {"u16"}
 ArrayTypes = {}
 ArrayLens = {}
 NVals = 1
 MaxOps = 5
 PoolTypeSeqs <- PoolsSingle
 PoolLens <- Lens31
 PoolSetIdx = {1, 3}
 KeepHist = TRUE
VIEW View
ACTION_CONSTRAINT Emit
INVARIANTS TypeOK LengthOK ReadBack WrittenObjectIntact RepeatableWrites
PROPERTIES AppendOnly OrderOnlyLater InputsUntouched
CHECK_DEADLOCK FALSE
