------------------------------- MODULE XdlFile -------------------------------
(* C05 - the file side of the codec: Xdl::read / Json::read (src/Xdl.cpp) as a design on top of the parser design XdlSM,
   and an enumeration of file contents around the things only files have: a UTF-8 byte-order mark (complete, partial,
   doubled), CR LF line ends, empty and 1-3 byte files, text after the value, several values, unterminated comments.

   Design of Xdl::read(file) - transcribed; B = capacity of the read buffer (16382 in the library):
        empty file -> no value ;  cap = min(B, size) ;
        read 3 bytes: if fewer than 3 were read or they are not EF BB BF, seek back to 0 ;
        repeat  n = read(cap bytes) ; parse(chunk as a C string)  until n < cap ;  parse(Flush) ; value()
   ReadModel(f, B) is that loop; the pre-fix tree did not seek back after a short probe (ProbeRewinds = FALSE: files of
   1-2 bytes gave nothing - fixed: C05-short-file-bom).

   Specification:  reading a file is decoding its contents without the byte-order mark -
        FileLaw   ReadModel(f, B) = Decode(StripBom(f))  for every enumerated NUL-free content f and every buffer size B in
                  Caps (sizes below, at and above the document length: the loop's exit test n < cap and the extra
                  empty read when the size is a multiple of cap are all exercised) - proved by TLC;
        PadLaw    blanks between the mark and the document do not change the result (the replayer pads with blanks to
                  reach the real buffer size 16382 and its multiples)
   and the value itself comes from the strict recognizer whenever StripBom(f) is an RFC 8259 document (CR LF is white
   space); for everything else (text after the value, several values, partial marks ...) the documentation says
   nothing: the only demand is the law above, which the replayer checks on the real code as
   Json::read(file) = Xdl::read(file) = Json::decode(contents without mark).
   NUL bytes are outside the property's domain (a chunk is handed over as a C string; RunC models that).       *)
EXTENDS XdlSM, Json

CONSTANTS Caps,           \* buffer capacities for the design-level law
          ProbeRewinds    \* TRUE: the repaired tree
VARIABLES n, act
fvars == <<n, act>>

BOM == <<239, 187, 191>>
HasBom(f) == Len(f) >= 3 /\ SubSeq(f, 1, 3) = BOM
StripBom(f) == IF HasBom(f) THEN SubSeq(f, 4, Len(f)) ELSE f

\* parse(const char*): stops at the first NUL
RunC(s, chunk) == LET z == SelectInSeq(chunk, LAMBDA x : x = 0) IN Run(s, IF z = 0 THEN chunk ELSE SubSeq(chunk, 1, z - 1))
RECURSIVE ReadLoop(_, _, _, _)
ReadLoop(s, f, pos, cap) ==
    LET left == Len(f) - pos + 1
        k == IF left < cap THEN (IF left < 0 THEN 0 ELSE left) ELSE cap
        s2 == RunC(s, SubSeq(f, pos, pos + k - 1))
    IN IF k < cap THEN s2 ELSE ReadLoop(s2, f, pos + k, cap)
ReadModel(f, B) ==
    IF Len(f) = 0 THEN [ok |-> FALSE, v |-> [z |-> 0]]
    ELSE LET cap == IF B < Len(f) THEN B ELSE Len(f)
             probe == IF Len(f) < 3 THEN Len(f) ELSE 3
             start == IF HasBom(f) THEN 4 ELSE IF probe = 3 \/ ProbeRewinds THEN 1 ELSE probe + 1
         IN Result(Run(ReadLoop(SMInit, f, start, cap), Flush))

\* ---- file contents: prefix \o body \o suffix ----
Pre == << <<>>, BOM, <<239, 187>>, <<239>>, BOM \o BOM, <<32>> \o BOM >>
Body == <<
  <<>>,
  <<49>>, <<45, 48>>, <<55, 55>>, <<52, 50, 46, 53>>,                                  \* 1  -0  77  42.5
  <<34, 120, 34>>, <<116, 114, 117, 101>>, <<110, 117, 108, 108>>,                     \* "x" true null
  <<91, 93>>, <<123, 125>>, <<91, 49, 44, 50, 93>>,                                    \* [] {} [1,2]
  <<91, 49, 44, 13, 10, 50, 93>>,                                                      \* [1,CRLF2]
  <<123, 13, 10, 9, 34, 97, 34, 58, 32, 34, 98, 34, 13, 10, 125>>,                     \* {CRLF TAB "a": "b" CRLF}
  <<91, 13, 10, 9, 49, 44, 13, 10, 9, 50, 13, 10, 93>>,                                \* pretty array with CRLF
  <<123, 97, 61, 49, 13, 10, 98, 61, 89, 125>>,                                        \* {a=1 CRLF b=Y}    (XDL: newline separates)
  <<91, 49, 13, 10, 50, 93>>,                                                          \* [1 CRLF 2]        (XDL)
  <<47, 47, 99, 13, 10, 91, 49, 93>>,                                                  \* //c CRLF [1]
  <<47, 42, 99, 42, 47, 123, 34, 107, 34, 58, 49, 125>>,                               \* /*c*/{"k":1}
  <<84, 123, 120, 61, 49, 125>>,                                                       \* T{x=1}
  <<34, 239, 187, 191, 34>> >>                                                         \* a mark inside a string
Post == << <<>>, <<10>>, <<13, 10>>, <<32>>, <<13>>, <<32, 120>>, <<93>>, <<32, 50>>, <<44>>, <<10, 91, 51, 93, 10>>,
           <<47, 47, 99>>, <<47, 42, 99>>, <<47>>, <<32, 47, 42, 99, 42, 47, 10>>, BOM >>
Pads == <<0, 16381, 16382, 16383, 32764, 16385>>       \* file length to pad to with blanks (0 = no padding)

NPre == Len(Pre)
NBody == Len(Body)
NPost == Len(Post)
NPad == Len(Pads)
Total == NPre * NBody * NPost * NPad
PreOf(c) == Pre[((c - 1) \div (NBody * NPost * NPad)) + 1]
BodyOf(c) == Body[(((c - 1) \div (NPost * NPad)) % NBody) + 1]
PostOf(c) == Post[(((c - 1) \div NPad) % NPost) + 1]
PadOf(c) == Pads[((c - 1) % NPad) + 1]
Content(c) == PreOf(c) \o BodyOf(c) \o PostOf(c)
Blanks(k) == [j \in 1..k |-> 32]
Padded(c, k) == PreOf(c) \o Blanks(k) \o BodyOf(c) \o PostOf(c)

ActOfF(c) == IF HasBom(Content(c)) THEN "Bom" ELSE IF Len(Content(c)) < 3 THEN "Short" ELSE "Plain"
\* one chain 0 -> 1 -> ... -> Total; every Seg-th state is also an initial state so that TLC's workers walk segments in parallel
Seg == 256
FInit == n \in {j \in 0..(Total - 1) : j % Seg = 0} /\ act = (IF n = 0 THEN "Init" ELSE ActOfF(n))
FNext == n < Total /\ n' = n + 1
         /\ act' = ActOfF(n + 1)
FSpec == FInit /\ [][FNext]_fvars

Valid(r) == r.ok /\ ~r.ex /\ ~DupKeys(r.v)
FileLaw == (n >= 1 /\ PadOf(n) = 0) => \A B \in Caps : ReadModel(Content(n), B) = Decode(StripBom(Content(n)))
\* padding between the prefix and the body: only stated where the prefix is empty or a complete mark (otherwise the
\* blanks would separate a partial mark from the body, which changes the text)
PadOK(c) == PreOf(c) \in {<<>>, BOM}
PadLaw == (n >= 1 /\ PadOK(n) /\ PadOf(n) = 0) => \A k \in 1..3 : Decode(StripBom(Padded(n, k))) = Decode(StripBom(Content(n)))

RECURSIVE FExpect(_)
FExpect(v) ==
    LET k == Kind(v) IN
    IF k = "n" THEN LET sd == SimpleDbl(Canon(v.n)) IN [n |-> v.n, d |-> IF sd.ok THEN sd.d ELSE <<>>]
    ELSE IF k = "a" THEN [a |-> [i \in 1..Len(v.a) |-> FExpect(v.a[i])]]
    ELSE IF k = "o" THEN [o |-> [i \in 1..Len(v.o) |-> <<v.o[i][1], FExpect(v.o[i][2])>>]]
    ELSE IF k = "b" THEN [b |-> IF v.b THEN 1 ELSE 0]
    ELSE v
\* cases whose padding is not covered by PadLaw are not padded
FEmit == LET c == n'
             f == Content(c)
             r == Doc(StripBom(f))
             pad == IF PadOK(c) THEN PadOf(c) ELSE 0
         IN (PadOK(c) \/ PadOf(c) = 0) =>
            PrintT(ToJson([c |-> c, act |-> act', pre |-> PreOf(c), body |-> BodyOf(c) \o PostOf(c), padto |-> pad,
                           k |-> IF Valid(r) THEN "doc" ELSE "any", v |-> IF Valid(r) THEN FExpect(r.v) ELSE [z |-> 0],
                           none |-> ~Decode(StripBom(f)).ok, hz |-> {}]))
===============================================================================
