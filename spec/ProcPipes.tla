------------------------------ MODULE ProcPipes ------------------------------
(* X01 / Process: blocking behaviour of the three pipes.

   A parent program (a sequence of blocking Process calls) runs against a child program over three bounded FIFOs
   (stdin, stdout, stderr of the child; capacities in units of one pipe page).  TLC explores every interleaving of
   parent and child steps.  A scenario ends either with the parent program finished ("done") or in a state in which
   the parent is not finished and nothing can move ("stuck": a deadlock - or both sides waiting for input that will
   never come).  The report actions print one line per terminal state; the set of outcomes per scenario is what the
   real API must show when the same programs are executed (harness/x01_proc_replay.cpp), and FifoOrder is the content
   requirement: the units read from a stream are exactly the units written to it, in order.

   Parent instructions:  w n   writeInput of n units in one call (returns when all are written)
                         ro n  read exactly n units from stdout (loop over readOutput; ends early at EOF)
                         re n  the same on stderr
                         wait  wait()
                         (a second parent thread may run its own instruction list on the same object)
                         exec  the loop of Process::execute: while running() read whatever outputAvailable()/
                               errorsAvailable() announce, after the end drain both streams to EOF
   Child programs:       greedy B  copy stdin to stdout: read what is there (at most B units), write it all   (like cat)
                         exact B   the same but waits for exactly B units before writing
                         seq       write n units to stream s for every <<s, n>> of a list, then exit

   Answers it gives for the usage patterns of Process.h (pipe capacity 16 pages of 4 KiB = 64 KiB):
     * "run; writeInput(big); read the reply" deadlocks as soon as big exceeds stdin capacity + what the child holds
       + stdout capacity (between 33 and 32 + B pages depending on timing, always above that);
     * "run; wait(); read" deadlocks for more than 16 pages of output (the warning in the class documentation);
     * reading stdout to the end before stderr deadlocks when the child first writes more than 16 pages to stderr;
     * Process::execute never deadlocks (it polls both streams);
     * a writer thread and a reader thread on the same object never deadlock, whatever the size.                                                  *)
EXTENDS Integers, Sequences, FiniteSets, TLC, Json

CONSTANTS CapIn, CapOut, CapErr, Scenarios

VARIABLES sc, ppc, pprog, inq, outq, errq, cph, cbuf, cpc, cprog, nin, nout, nerr, gotO, gotE, reported
vars == <<sc, ppc, pprog, inq, outq, errq, cph, cbuf, cpc, cprog, nin, nout, nerr, gotO, gotE, reported>>

Threads == {1, 2}
MinI(a, b) == IF a < b THEN a ELSE b
Take(s, n) == SubSeq(s, 1, n)
Drop(s, n) == SubSeq(s, n + 1, Len(s))

Init ==
  /\ sc \in Scenarios
  /\ ppc = [t \in Threads |-> 1] /\ pprog = [t \in Threads |-> 0] /\ inq = <<>> /\ outq = <<>> /\ errq = <<>>
  /\ cph = "read" /\ cbuf = <<>> /\ cpc = 1 /\ cprog = 0
  /\ nin = 0 /\ nout = 0 /\ nerr = 0 /\ gotO = <<>> /\ gotE = <<>> /\ reported = FALSE

\* the parent has one or two threads (sc.par, sc.par2) using the same Process object
Prog(t) == IF t = 1 THEN sc.par ELSE sc.par2
TDone(t) == ppc[t] > Len(Prog(t))
PDone == \A t \in Threads : TDone(t)
PI(t) == Prog(t)[ppc[t]]
Exited == cph = "exited"
\* progress of the current instruction of thread t; the instruction ends after `need` units
Adv(t, need) == IF pprog[t] + 1 >= need THEN ppc' = [ppc EXCEPT ![t] = @ + 1] /\ pprog' = [pprog EXCEPT ![t] = 0]
                ELSE ppc' = ppc /\ pprog' = [pprog EXCEPT ![t] = @ + 1]
Skip(t) == ppc' = [ppc EXCEPT ![t] = @ + 1] /\ pprog' = [pprog EXCEPT ![t] = 0]

UNCH_child == UNCHANGED <<cph, cbuf, cpc, cprog, nout, nerr>>

PWrite(t) ==
  /\ ~TDone(t) /\ PI(t).op = "w"
  /\ IF PI(t).n = 0 THEN Skip(t) /\ UNCHANGED <<inq, nin>>
     ELSE /\ Len(inq) < CapIn
          /\ inq' = Append(inq, nin + 1) /\ nin' = nin + 1 /\ Adv(t, PI(t).n)
  /\ UNCHANGED <<sc, outq, errq, gotO, gotE, reported>> /\ UNCH_child

PReadOut(t) ==
  /\ ~TDone(t) /\ PI(t).op = "ro"
  /\ IF PI(t).n = 0 THEN Skip(t) /\ UNCHANGED <<outq, gotO>>
     ELSE IF outq # <<>> THEN outq' = Tail(outq) /\ gotO' = Append(gotO, Head(outq)) /\ Adv(t, PI(t).n)
     ELSE Exited /\ Skip(t) /\ UNCHANGED <<outq, gotO>>                                   \* EOF
  /\ UNCHANGED <<sc, inq, nin, errq, gotE, reported>> /\ UNCH_child

PReadErr(t) ==
  /\ ~TDone(t) /\ PI(t).op = "re"
  /\ IF PI(t).n = 0 THEN Skip(t) /\ UNCHANGED <<errq, gotE>>
     ELSE IF errq # <<>> THEN errq' = Tail(errq) /\ gotE' = Append(gotE, Head(errq)) /\ Adv(t, PI(t).n)
     ELSE Exited /\ Skip(t) /\ UNCHANGED <<errq, gotE>>
  /\ UNCHANGED <<sc, inq, nin, outq, gotO, reported>> /\ UNCH_child

PWait(t) ==
  /\ ~TDone(t) /\ PI(t).op = "wait" /\ Exited /\ Skip(t)
  /\ UNCHANGED <<sc, inq, nin, outq, errq, gotO, gotE, reported>> /\ UNCH_child

PExec(t) ==
  /\ ~TDone(t) /\ PI(t).op = "exec"
  /\ \/ outq # <<>> /\ outq' = Tail(outq) /\ gotO' = Append(gotO, Head(outq)) /\ UNCHANGED <<errq, gotE, ppc, pprog>>
     \/ errq # <<>> /\ errq' = Tail(errq) /\ gotE' = Append(gotE, Head(errq)) /\ UNCHANGED <<outq, gotO, ppc, pprog>>
     \/ Exited /\ outq = <<>> /\ errq = <<>> /\ Skip(t) /\ UNCHANGED <<outq, gotO, errq, gotE>>
  /\ UNCHANGED <<sc, inq, nin, reported>> /\ UNCH_child

Parent == \E t \in Threads : PWrite(t) \/ PReadOut(t) \/ PReadErr(t) \/ PWait(t) \/ PExec(t)

UNCH_par == UNCHANGED <<sc, ppc, pprog, nin, gotO, gotE, reported>>
Copying == sc.child.kind \in {"greedy", "exact"}

CRead ==
  /\ Copying /\ cph = "read" /\ inq # <<>>
  /\ IF sc.child.kind = "greedy"
     THEN LET k == MinI(Len(inq), sc.child.buf) IN cbuf' = Take(inq, k) /\ inq' = Drop(inq, k) /\ cph' = "write"
     ELSE /\ cbuf' = Append(cbuf, Head(inq)) /\ inq' = Tail(inq)
          /\ cph' = IF Len(cbuf) + 1 = sc.child.buf THEN "write" ELSE "read"
  /\ UNCHANGED <<outq, errq, cpc, cprog, nout, nerr>> /\ UNCH_par

CWrite ==
  /\ Copying /\ cph = "write" /\ Len(outq) < CapOut
  /\ outq' = Append(outq, Head(cbuf)) /\ cbuf' = Tail(cbuf)
  /\ cph' = IF Len(cbuf) = 1 THEN "read" ELSE "write"
  /\ UNCHANGED <<inq, errq, cpc, cprog, nout, nerr>> /\ UNCH_par

CSeq ==
  /\ sc.child.kind = "seq" /\ ~Exited
  /\ IF cpc > Len(sc.child.prog) THEN cph' = "exited" /\ UNCHANGED <<outq, errq, cpc, cprog, nout, nerr>>
     ELSE LET i == sc.child.prog[cpc] IN
          IF i.n = 0 THEN cpc' = cpc + 1 /\ cprog' = 0 /\ UNCHANGED <<outq, errq, nout, nerr, cph>>
          ELSE /\ IF i.s = 1 THEN Len(outq) < CapOut /\ outq' = Append(outq, nout + 1) /\ nout' = nout + 1 /\ UNCHANGED <<errq, nerr>>
                             ELSE Len(errq) < CapErr /\ errq' = Append(errq, nerr + 1) /\ nerr' = nerr + 1 /\ UNCHANGED <<outq, nout>>
               /\ IF cprog + 1 >= i.n THEN cpc' = cpc + 1 /\ cprog' = 0 ELSE cpc' = cpc /\ cprog' = cprog + 1
               /\ UNCHANGED cph
  /\ UNCHANGED <<inq, cbuf>> /\ UNCH_par

Child == CRead \/ CWrite \/ CSeq

Step == ~PDone /\ ~reported /\ (Parent \/ Child)

Report(o) == PrintT(ToJson([sc |-> sc, outcome |-> o, got |-> [o |-> gotO, e |-> gotE]]))
RepDone  == PDone /\ ~reported /\ reported' = TRUE /\ Report("done") /\ UNCHANGED <<sc, ppc, pprog, inq, outq, errq, cph, cbuf, cpc, cprog, nin, nout, nerr, gotO, gotE>>
RepStuck == ~PDone /\ ~reported /\ ~ENABLED (Parent \/ Child) /\ reported' = TRUE /\ Report("stuck")
            /\ UNCHANGED <<sc, ppc, pprog, inq, outq, errq, cph, cbuf, cpc, cprog, nin, nout, nerr, gotO, gotE>>

Next == Step \/ RepDone \/ RepStuck
Spec == Init /\ [][Next]_vars

---------------------------------------------------------------------------------------------------------------
Iota(s) == s = [i \in 1..Len(s) |-> i]
\* what the parent reads from a stream is what was written to it, in order, nothing skipped or duplicated
FifoOrder == Iota(gotO) /\ Iota(gotE)
Bounded == Len(inq) <= CapIn /\ Len(outq) <= CapOut /\ Len(errq) <= CapErr
\* Process::execute always comes back
ExecNeverStuck == (reported /\ ~PDone) => \A t \in Threads : \A i \in 1..Len(Prog(t)) : Prog(t)[i].op # "exec"

---------------------------------------------------------------------------------------------------------------
\* scenario tables
W(n) == [op |-> "w", n |-> n]
RO(n) == [op |-> "ro", n |-> n]
RE(n) == [op |-> "re", n |-> n]
WAIT == [op |-> "wait", n |-> 0]
EXEC == [op |-> "exec", n |-> 0]
Greedy(b) == [kind |-> "greedy", buf |-> b, prog |-> <<>>]
Exact(b) == [kind |-> "exact", buf |-> b, prog |-> <<>>]
SeqC(p) == [kind |-> "seq", buf |-> 0, prog |-> p]
O(n) == [s |-> 1, n |-> n]
E(n) == [s |-> 2, n |-> n]
Sc(par, child) == [par |-> par, par2 |-> <<>>, child |-> child]
Sc2(par, par2, child) == [par |-> par, par2 |-> par2, child |-> child]

WriteThenRead(ws, bs) == {Sc(<<W(w), RO(w)>>, Greedy(b)) : w \in ws, b \in bs}
WriteThenReadExact(ws, bs) == {Sc(<<W(w), RO(w)>>, Exact(b)) : w \in ws, b \in bs}
Interleaved(cs) == {Sc(<<W(c), RO(c), W(c), RO(c), W(c), RO(c)>>, Greedy(4)) : c \in cs}
WaitThenRead(ns) == {Sc(<<WAIT, RO(n)>>, SeqC(<<O(n)>>)) : n \in ns}
OutBeforeErr(ms, ns) == {Sc(<<RO(n), RE(m)>>, SeqC(<<E(m), O(n)>>)) : m \in ms, n \in ns}
\* a writer thread and a reader thread: both directions at once, any size
TwoThreads(ws, bs) == {Sc2(<<W(w)>>, <<RO(w)>>, Greedy(b)) : w \in ws, b \in bs}
Execs(ns, ms) == {Sc(<<EXEC>>, SeqC(<<O(n), E(m), O(3)>>)) : n \in ns, m \in ms}

ScQuick ==
  WriteThenRead({1, 16, 33, 34, 36, 37, 48}, {4}) \cup WriteThenReadExact({4, 6, 36, 37}, {4})
  \cup Interleaved({8, 33}) \cup WaitThenRead({1, 16, 17, 40}) \cup OutBeforeErr({3, 16, 17}, {2})
  \cup Execs({0, 20}, {0, 40}) \cup TwoThreads({34}, {4})
ScThorough ==
  WriteThenRead(1..80, {1, 4, 16, 32}) \cup WriteThenReadExact(1..60, {1, 4, 16})
  \cup Interleaved({1, 8, 16, 33, 34, 40}) \cup WaitThenRead(0..40) \cup OutBeforeErr(0..34, {0, 2, 20})
  \cup Execs({0, 1, 16, 17, 40}, {0, 1, 16, 17, 40}) \cup TwoThreads({1, 33, 34, 40, 64, 100}, {1, 4, 16})
=============================================================================
