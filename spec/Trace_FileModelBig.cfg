SPECIFICATION TraceSpec
CONSTANTS
 LemmaBytes = {0, 1}
 LemmaCounts = {1, 2}
 LemmaRuns = 2
POSTCONDITION TraceAccepted
CHECK_DEADLOCK FALSE
