---------------------------- MODULE Trace_HttpRequest ----------------------------
(* V binding for C09: validates what harness/c09_record.cpp observed.  One ndjson line per event:

     stream  w = bytes the peer sent before closing, d = the requests the application handler was given
     url     Url(u)            -> scheme, host, port, path
     dec     Url::decode(u)    -> out
     pq      Url::parseQuery(u)-> qp

   For a stream the recognizer ParseStream (HttpRequest.tla) says which complete well-formed requests it starts with and
   how it ends; the line is accepted iff
     - every dispatched path is free of ".." (whatever the stream was),
     - the i-th dispatched request IS the i-th well-formed request (method, target, version, decoded path, query,
       headers compared case-insensitively, body),
     - nothing else was dispatched, unless the rest of the stream is malformed (outside the grammar: unconstrained).
   In particular a stream that ends inside a request (st = "inc") must not produce a dispatch for that request.        *)
EXTENDS HttpRequest, Json, IOUtils

T == ndJsonDeserialize(IOEnv.TRACE)
VARIABLE l
tvars == <<l>>

PairSet(qp) == {<<qp[i].k, qp[i].v>> : i \in 1..Len(qp)}
HeaderSet(hs) == {<<LowerSeq(hs[i].n), hs[i].v>> : i \in {j \in 1..Len(hs) : hs[j].v # <<>>}}

Match(d, x) ==
    LET st == SplitTarget(x.t) IN
    /\ d.m = x.m /\ d.res = x.t /\ d.v = x.v /\ d.body = x.body
    /\ (TargetStrict(x.t) => d.path = NormPath(x.t))
    /\ d.qs = st.query
    /\ (QueryStrict(st.query) => PairSet(d.qp) = PairSet(ParseQuery(st.query)))
    /\ (st.query = <<>> => d.qp = <<>>)
    /\ HeaderSet(d.hs) = HeaderSet(x.hs)

StreamOK(e) ==
    LET R == ParseStream(e.w)
        m == Len(R.reqs)
        n == Len(e.d)
    IN /\ e.ms < 8000                                  \* served promptly (the peer had closed)
       /\ \A i \in 1..n : /\ ~HasDD(e.d[i].path) /\ e.d[i].plen = Len(e.d[i].path) /\ e.d[i].cplen <= e.d[i].plen
                          /\ ~HasDD(SubSeq(e.d[i].path, 1, e.d[i].cplen))
                          /\ e.d[i].probeok
       /\ IF R.st = "bad" THEN n >= m ELSE n = m
       /\ \A i \in 1..m : Match(e.d[i], R.reqs[i].x)

UrlOK(e) == /\ Len(e.host) <= Len(e.u) /\ Len(e.scheme) <= Len(e.u) /\ Len(e.path) <= Len(e.u) + 1
            /\ UrlStrict(e.u) => LET p == UrlParse(e.u) IN
                                 /\ e.scheme = p.scheme /\ e.host = p.host /\ e.path = p.path
                                 /\ e.port = (IF p.hasport THEN DecValue(p.port, 0) ELSE 0)
DecOK(e) == /\ e.len = Len(e.out) /\ Len(e.out) <= Len(e.u)
            /\ (PctStrict(e.u) /\ ~HasNul(PctDecode(e.u))) => e.out = PctDecode(e.u)
PqOK(e) == QueryStrict(e.u) => PairSet(e.qp) = PairSet(ParseQuery(e.u))

TInit == l = 1
TStep == /\ l <= Len(T)
         /\ l' = l + 1
         /\ LET e == T[l] IN
            \/ e.e = "reset"
            \/ e.e = "stream" /\ StreamOK(e)
            \/ e.e = "url" /\ UrlOK(e)
            \/ e.e = "dec" /\ DecOK(e)
            \/ e.e = "pq" /\ PqOK(e)
TraceSpec == TInit /\ [][TStep]_tvars
TraceAccepted == TLCGet("stats").diameter - 1 = Len(T)
================================================================================
