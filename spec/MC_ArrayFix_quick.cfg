SPECIFICATION FSpec
CONSTANTS
 NH = 2
 V = {1,2}
 Sizes = {0}
 MaxLen = 4
 KeepHist = TRUE
 MaxOps = 3
 Ns = {1,2,3,4}
 Lits <- FLits
VIEW View
ACTION_CONSTRAINT EmitFix
INVARIANTS TypeOK NoOrphan SomeLive FixedOK
PROPERTIES Independence CloneFresh LenStable
CHECK_DEADLOCK FALSE
