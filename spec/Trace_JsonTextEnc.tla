-------------------------- MODULE Trace_JsonTextEnc --------------------------
(* V binding for C05: round trips through the real encoder and decoder recorded by harness/c05_record.  One ndjson line
   per round trip:

      e = "rt"   json = 1 (Json::) / 0 (Xdl::), exact = 1 in the exact modes (NONE, PRETTY) / 0 in the 15/7-digit modes
                 (SIMPLE, NICE) and the modes with SHORTF (doubles with 9/7 digits), mode = the Json::Mode bits passed,
                 tree = the value that was put into the Var (recorder's own structure, never read back from ASL),
                 text = the bytes the encoder produced (through a file: the bytes found in the file; omitted for very large files),
                 dec  = projection of what the decoder returned for that text
      a tree string may be written  p:<<n, c>>  = n copies of byte c (padding of the file round trips).

   A line is accepted iff
      (i)  JSON modes: the strict recognizer accepts text (for UTF-8 strings: without any excluded construct) and the
           value it denotes is tree - strings and keys byte for byte, ints as exact decimals, and in the exact modes
           every double/float token lies within half an ulp of the tree's binary64/binary32 pattern (bignum test), so
           that every correctly rounding reader recovers the pattern; in the 15/7-digit modes the token must be the
           15/7-digit rounding of the pattern (within half a unit of its last digit) and the decoded number must be
           the correctly rounded value of the token;
      (ii) dec = tree: same structure, keys, strings, booleans; ints numerically; in the exact modes non-zero doubles bit
           for bit (an integral double may come back as an int with the same value) and floats exactly after
           conversion to float;
      (iii) layout (texts up to 6000 bytes): text is compared with  Ser(tree, mode)  of spec/XdlWriter.tla (each double/float
           leaf standing for "one number token"; mode = the Json::Mode bits passed, + JSON for Json::).  The exact layout
           is NOT part of C05: a text that differs is a *deviation* (counted in TLC register 1, written to <trace>.dev for the check's
           evidence) and is accepted as long as the text itself is inside the reader's language with the tree's value -
           JSON by (i), XDL by the parser design XdlSM - and keeps the documented promises of the flags
           (XdlWriter!ModePromises: no line break / white space without PRETTY, indented lines with PRETTY). *)
EXTENDS JsonText, XdlWriter, XdlSM, Json, IOUtils

T == ndJsonDeserialize(IOEnv.TRACE)
VARIABLE l

RECURSIVE Expand(_)
\* padding strings  p:<<n, c>>  ->  s:<<c, c, ...>>
Expand(a) ==
    IF "p" \in DOMAIN a THEN [s |-> [j \in 1..a.p[1] |-> a.p[2]]]
    ELSE IF TKind(a) = "a" THEN [a |-> [j \in 1..Len(a.a) |-> Expand(a.a[j])]]
    ELSE IF TKind(a) = "o" THEN [o |-> [j \in 1..Len(a.o) |-> <<a.o[j][1], Expand(a.o[j][2])>>]]
    ELSE a
RECURSIVE TreeUtf8(_)
TreeUtf8(a) ==
    IF TKind(a) = "s" THEN Utf8OK(a.s)
    ELSE IF TKind(a) = "a" THEN \A j \in 1..Len(a.a) : TreeUtf8(a.a[j])
    ELSE IF TKind(a) = "o" THEN \A j \in 1..Len(a.o) : Utf8OK(a.o[j][1]) /\ TreeUtf8(a.o[j][2])
    ELSE TRUE

\* the real text is not, byte for byte (number tokens aside), what the specification's serializer writes
Deviates(e, tree) == /\ "text" \in DOMAIN e /\ "mode" \in DOMAIN e /\ Len(e.text) <= 6000
                     /\ ~MatchLayout(e.text, Ser(tree, e.mode + 8 * e.json))
\* ... which is no failure as long as the text itself keeps what C05 and the documentation of the flags demand
DevOK(e, tree) ==
    LET m == e.mode + 8 * e.json IN
    /\ (e.json = 0) => LET r == Decode(e.text) IN r.ok /\ WDenotes(r.v, tree, m)      \* XDL: the parser design accepts it (JSON: (i))
    /\ ModePromises(e.text, m, tree)
\* deviating lines are counted in TLC register 1 (a counter *variable* would put a primed variable into the scope of the LETs
\* below, which switches off TLC's caching of LET values: measured 30 times slower)
RtOK(e) ==
    LET tree == Expand(e.tree) IN
    /\ (e.json = 1 /\ "text" \in DOMAIN e) => LET r == Doc(e.text) IN
                       /\ r.ok
                       /\ WDenotes(r.v, tree, e.mode + 8)     \* digits: 17/9 (half an ulp), SIMPLE 15/7, SHORTF 9/7
                       /\ TreeUtf8(tree) => ~r.ex
                       \* reduced-precision modes: tree ~ token is (i) above (15/7 digits); token -> decoded must be exact
                       /\ (e.exact = 0) => ValMatches(r.v, e.dec, TRUE)
    /\ TreeRoundTrip(tree, e.dec, e.exact = 1)
    /\ IF Deviates(e, tree) THEN DevOK(e, tree) /\ TLCSet(1, TLCGet(1) + 1) ELSE TRUE

TInit == l = 1 /\ TLCSet(1, 0)
TStep == /\ l <= Len(T)
         /\ l' = l + 1
         /\ LET e == T[l] IN
            \/ e.e = "reset"
            \/ e.e = "rt" /\ RtOK(e)
         /\ (l = Len(T) => JsonSerialize(IOEnv.TRACE \o ".dev", [dev |-> TLCGet(1), lines |-> Len(T)]))
TraceSpec == TInit /\ [][TStep]_l
TraceAccepted == TLCGet("stats").diameter - 1 = Len(T)
===============================================================================
