SPECIFICATION Spec
CONSTANTS
 BinChunks <- BigQ
 TextChunks <- NoChunks
 ReadSizes = {65536}
 ShapeRuns <- NoRuns
 ShapeSegs = 0
 EncScalars <- NoScalars
 EncMaxLen = 0
 MaxLen = 140000
 MaxOps = 2
 TmpPaths = {"p", "q"}
 QueryKinds = {}
 KeepHist = TRUE
VIEW View
ACTION_CONSTRAINT Emit
INVARIANTS TypeOK HandleOK
PROPERTIES Independence CopyExact
CHECK_DEADLOCK FALSE
