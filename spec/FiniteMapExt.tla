----------------------------- MODULE FiniteMapExt -----------------------------
(* C02, wider public surface of asl::Map / Dic / HashMap / HashDic / Set on top of FiniteMap:

   * Enumerator objects (what foreach / foreach2 / range-based for are built from, doc.h "Containers"): an
     enumerator is opened on a handle, denotes one entry at a time (~e the key, *e the value), is advanced with ++
     and converts to false after the last entry.  While it is open the program may do anything that does not
     change the key set of the enumerated block and does not rebind the enumerated handle object: work on other
     blocks (in particular on the source of a clone that is being enumerated, and on a clone of the enumerated
     source), copy / drop other handles, look things up, assign values through the enumerator (`*e = v`, the
     documented `foreach(int& x, a) x *= 2`) and through the pointer find() returns.  Changing the key set of a
     container while it is being enumerated is not documented to work and is not generated (left unconstrained);
     the same goes for set() / operator[] on the enumerated block even when the key is present (every non-const
     operator[] of a hash container may rebuild the table first) and for dup() of the enumerated object.
       - every entry is visited exactly once (EnumPartition): at any moment the keys already visited, the current
         key and the keys still to come partition the key set of the block;
       - the visiting order is ascending for Map/Dic ("ord" of every step record = the least key still to come) and
         unspecified for the hash containers: EnumStep chooses any key still to come.  TLC explores every choice;
         the replayer follows a hash container as long as the real enumerator makes the recorded choice and
         leaves the case as "another order" otherwise (the sibling case takes over); a key that is not among the
         candidates, a missing or an extra step are failures in every case.
   * containers constructed with a size argument (NewSized): the argument is an expectation about the number of
     entries and has no observable effect.  sz remembers it per block only so that histories through tables of
     different sizes are different states (set algebra, ==, contains between sets living in tables of different
     sizes); clone / dup keep the size of their source, set-algebra results are default-constructed.
   * m = m (AssignSelf) and *m.find(k) = v (Poke), defined in FiniteMap.

   R: MC_FiniteMapExt_*.cfg (maps) / MC_FiniteSetExt_*.cfg (sets)  -> harness/c02_replay
   V: Trace_FiniteMap (which extends this module)                                                                 *)
EXTENDS FiniteMap

CONSTANTS Sizes,     \* size arguments given to NewSized
          Lists,     \* key/value lists given to FromList (sequences of [k, v] records)
          Focus,     \* TRUE: only the calls of an enumeration session are enabled (lists, clone, the enumerator, set /
                     \* remove / clear / find-pointer writes, dropping handles): deeper histories of the enumerator
          Plain      \* TRUE: operator[] and add/merge (exhausted by the FiniteMap configurations) take part as well and
                     \* find() pointers are written with every value; FALSE: left out / only the largest value written

VARIABLES sz,        \* block -> size argument it was constructed with (-1: default constructor)
          en         \* the enumerator: [h, cur, todo, seen]; h = 0: none open
xvars == <<hb, blk, hist, hz, sz, en>>

\* sets (values all 1) have no values to assign: MapOps = FALSE, SetOps = TRUE
PureSet == SetOps /\ ~MapOps
NoEnum == [h |-> 0, cur |-> 0, todo |-> {}, seen |-> {}]
Open   == en.h # 0
SetMin(S) == CHOOSE x \in S : \A y \in S : x <= y
MinOr0(S) == IF S = {} THEN 0 ELSE SetMin(S)

InitX == Init /\ sz = [b \in B |-> -1] /\ en = NoEnum

\* the size of every block that is still referenced stays, unreferenced blocks are reset
SzKeep(hb2) == [b \in B |-> IF \E h \in H : hb2[h] = b THEN sz[b] ELSE -1]
\* ... and the block that g is bound to afterwards (a fresh one) was built with size argument n
SzNew(hb2, g, n) == [b \in B |-> IF b = hb2[g] THEN n ELSE IF \E h \in H : hb2[h] = b THEN sz[b] ELSE -1]

\* the call would change the key set of the block that is being enumerated / rebind the enumerated handle object
Touches(h) == IF en.h = 0 \/ h \notin Live THEN FALSE ELSE hb[h] = hb[en.h]
Rebinds(g) == IF en.h = 0 THEN FALSE ELSE g = en.h
Same == en' = en /\ sz' = SzKeep(hb')

-------------------------------------------------------------------------------
(* the enumerator *)
\* Enumerator e = m.all(): positioned on the first entry k (0: at the end at once - the container is empty).
\* cand / ord (the candidates and the one an ordered container must take) are for the replayer only
EnumBeginK(h, k) ==
    /\ ~Open /\ h \in Live
    /\ IF Dom(M(h)) = {} THEN k = 0 ELSE k \in Dom(M(h))
    /\ en' = [h |-> h, cur |-> k, todo |-> Dom(M(h)) \ {k}, seen |-> {}]
    /\ Log([op |-> "ebegin", h |-> h, k |-> k, ord |-> IF KeepHist THEN MinOr0(Dom(M(h))) ELSE 0,
            cand |-> IF KeepHist THEN SetToSortSeq(Dom(M(h)), <) ELSE <<>>, r |-> IF k = 0 THEN 0 ELSE M(h)[k]], {})
    /\ UNCHANGED <<hb, blk>> /\ sz' = SzKeep(hb')
EnumBegin(h) == \E k \in Dom(M(h)) \cup {0} : EnumBeginK(h, k)
\* ++e (only while e converts to true): on to some entry k not visited yet (0: none left)
EnumStepK(k) ==
    /\ Open /\ en.cur # 0
    /\ IF en.todo = {} THEN k = 0 ELSE k \in en.todo
    /\ en' = [en EXCEPT !.cur = k, !.todo = @ \ {k}, !.seen = @ \cup {en.cur}]
    /\ Log([op |-> "estep", h |-> en.h, k |-> k, ord |-> IF KeepHist THEN MinOr0(en.todo) ELSE 0,
            cand |-> IF KeepHist THEN SetToSortSeq(en.todo, <) ELSE <<>>, r |-> IF k = 0 THEN 0 ELSE M(en.h)[k]], {})
    /\ UNCHANGED <<hb, blk>> /\ sz' = SzKeep(hb')
EnumStep == \E k \in en.todo \cup {0} : EnumStepK(k)
\* *e = v
EnumAssign(v) ==
    /\ Open /\ en.cur # 0 /\ ~PureSet
    /\ blk' = [blk EXCEPT ![hb[en.h]] = MapPut(@, en.cur, v)]
    /\ UNCHANGED hb
    /\ Log([op |-> "eassign", h |-> en.h, k |-> en.cur, v |-> v], {})
    /\ Same
\* the enumerator goes away (at the end, or early: break)
EnumEnd ==
    /\ Open
    /\ en' = NoEnum
    /\ UNCHANGED <<hb, blk>> /\ sz' = SzKeep(hb')
    /\ Log([op |-> "eend", h |-> en.h], {})

-------------------------------------------------------------------------------
(* the FiniteMap calls with the enumerator discipline and the size bookkeeping *)
XSetKV(h, k, v)  == ~Touches(h) /\ SetKV(h, k, v) /\ Same
XIndex(h, k)     == ~Touches(h) /\ Index(h, k) /\ Same
XRemoveK(h, k)   == ~Touches(h) /\ RemoveK(h, k) /\ Same
XClear(h)        == ~Touches(h) /\ Clear(h) /\ Same
XAddMap(h, g)    == ~Touches(h) /\ AddMap(h, g) /\ Same
XPoke(h, k, v)   == ~PureSet /\ Poke(h, k, v) /\ Same
XAssignSelf(h)   == AssignSelf(h) /\ Same
XCopyHandle(h, g)   == CopyHandle(h, g) /\ Same
XAssignHandle(h, g) == ~Rebinds(g) /\ AssignHandle(h, g) /\ Same
XDropHandle(h)   == ~Rebinds(h) /\ DropHandle(h) /\ Same
\* HashMap::dup() rebuilds the table of the object it is called on
XDup(h)          == ~Rebinds(h) /\ Dup(h) /\ en' = en /\ sz' = SzNew(hb', h, sz[hb[h]])
XClone(h, g)     == ~Rebinds(g) /\ Clone(h, g) /\ en' = en /\ sz' = SzNew(hb', g, sz[hb[h]])
XNewEmpty(g)     == ~Rebinds(g) /\ NewEmpty(g) /\ en' = en /\ sz' = SzNew(hb', g, -1)
XNewSized(g, n)  == ~Rebinds(g) /\ NewSized(g, n) /\ en' = en /\ sz' = SzNew(hb', g, n)
XFromList(g, s)  == ~Rebinds(g) /\ FromList(g, s) /\ en' = en /\ sz' = SzNew(hb', g, -1)
XUnion(h, g2, g) == ~Rebinds(g) /\ Union(h, g2, g) /\ en' = en /\ sz' = SzNew(hb', g, -1)
XInter(h, g2, g) == ~Rebinds(g) /\ Inter(h, g2, g) /\ en' = en /\ sz' = SzNew(hb', g, -1)
XDiff(h, g2, g)  == ~Rebinds(g) /\ Diff(h, g2, g) /\ en' = en /\ sz' = SzNew(hb', g, -1)

PokeVals == IF Plain THEN V ELSE {CHOOSE v \in V : \A w \in V : w <= v}
NextX == /\ Len(hist) < MaxOps
         /\ \/ \E h \in H, k \in K, v \in V : XSetKV(h, k, v)
            \/ \E h \in H, k \in K, v \in PokeVals : XPoke(h, k, v)
            \/ \E h \in H, k \in K : (Plain /\ ~Focus /\ XIndex(h, k)) \/ XRemoveK(h, k)
            \/ \E h \in H : XClear(h) \/ XDropHandle(h)
            \/ \E h \in H : ~Focus /\ (XDup(h) \/ XNewEmpty(h) \/ XAssignSelf(h))
            \/ \E h \in Live : EnumBegin(h)
            \/ \E h \in H, n \in Sizes : ~Focus /\ XNewSized(h, n)
            \/ \E h \in H, s \in Lists : XFromList(h, s)
            \/ \E h, g \in H : (Plain /\ ~Focus /\ XAddMap(h, g)) \/ XClone(h, g)
            \/ \E h, g \in H : ~Focus /\ (XCopyHandle(h, g) \/ XAssignHandle(h, g))
            \/ \E h, g2, g \in H : ~Focus /\ (XUnion(h, g2, g) \/ XInter(h, g2, g) \/ XDiff(h, g2, g))
            \/ EnumStep \/ EnumEnd
            \/ \E v \in V : EnumAssign(v)

SpecX == InitX /\ [][NextX]_xvars

-------------------------------------------------------------------------------
(* properties *)
EnumTypeOK == /\ en.h \in 0..NH
              /\ Open => en.h \in Live
              /\ ~Open => en = NoEnum
SizeOK == \A b \in B : (RC(b) = 0 => sz[b] = -1) /\ sz[b] \in Sizes \cup {-1}
\* enumeration visits every entry exactly once: visited, current and remaining keys partition the key set
EnumPartition ==
    Open => LET c == IF en.cur = 0 THEN {} ELSE {en.cur} IN
            /\ en.seen \cup c \cup en.todo = Dom(M(en.h))
            /\ en.seen \cap en.todo = {} /\ c \cap en.seen = {} /\ c \cap en.todo = {}
            /\ (en.cur = 0 => en.todo = {})              \* converts to false only after the last entry
\* nothing but the enumerator's own step moves it; no call changes the key set under an open enumerator
EnumStable ==
    [][(Open /\ en'.h = en.h) => /\ Dom(blk'[hb'[en.h]]) = Dom(M(en.h))
                                 /\ hb'[en.h] = hb[en.h]
                                 /\ (hist'[Len(hist')].op # "estep" => en' = en)]_xvars
\* the value an enumerator step reads is the entry's latest value, whoever wrote it (set, *e =, find pointer)
EnumReads ==
    [][(hist' # hist /\ hist' # <<>> /\ hist'[Len(hist')].op \in {"ebegin", "estep"} /\ en'.cur # 0) =>
          hist'[Len(hist')].r = blk'[hb'[en'.h]][en'.cur]]_xvars

-------------------------------------------------------------------------------
ViewX == <<hb, blk, Len(hist), hz, sz, en>>
EnumObs == IF en'.h = 0 THEN [h |-> 0, k |-> 0, r |-> 0]
           ELSE [h |-> en'.h, k |-> en'.cur, r |-> IF en'.cur = 0 THEN 0 ELSE blk'[hb'[en'.h]][en'.cur]]
EmitX == PrintT(ToJson([hist |-> hist', exp |-> ObsOf(hb', blk'), pairs |-> PairsOf(hb', blk'),
                        live |-> LiveEntries(hb', blk'), set |-> IF SetOps THEN 1 ELSE 0, hz |-> hz',
                        en |-> EnumObs]))
===============================================================================
