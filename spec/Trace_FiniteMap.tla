---------------------------- MODULE Trace_FiniteMap ----------------------------
(* V binding for C02: validates executions recorded from the real asl::Map / Dic / HashMap / HashDic / Set
   (harness/c02_record.cpp) against the actions and lookup operators of FiniteMap.  One ndjson line per public
   call: op, arguments, the result the call returned, and after the call the length and reference count of the
   handle it went through (and of the result handle); "check" events carry the complete content of every live
   handle with at most 300 entries.  The trace is accepted iff every line is a step of the corresponding FiniteMap
   action (or, for a lookup, a stuttering step whose logged result equals the specification's operator) whose
   post-state matches what the implementation reported.                                                         *)
EXTENDS FiniteMap, IOUtils

T == ndJsonDeserialize(IOEnv.TRACE)
VARIABLE l
tvars == <<vars, l>>

TInit == Init /\ l = 1

RCof(hbx, h) == Cardinality({x \in H : hbx[x] = hbx[h]})
PostOK(e) == /\ hb'[e.h] # 0 => /\ MapLen(blk'[hb'[e.h]]) = e.len
                                 /\ RCof(hb', e.h) = e.rc
             /\ ("glen" \in DOMAIN e) => /\ MapLen(blk'[hb'[e.g]]) = e.glen
                                         /\ RCof(hb', e.g) = e.grc
\* the result the specification recorded for the last call
LastR == hist'[Len(hist')].r

CheckOK(e) == /\ {e.obs[i].h : i \in 1..Len(e.obs)} = Live
              /\ \A i \in 1..Len(e.obs) :
                    LET o == e.obs[i] IN
                    /\ MapLen(M(o.h)) = o.n
                    /\ RC(hb[o.h]) = o.rc
                    /\ o.full = 1 => EntrySeq(M(o.h)) = o.kv

\* lookups and comparisons: the state does not change, the logged result must be the specification's
Query(e) ==
    /\ e.h \in Live
    /\ CASE e.op = "has"    -> HasR(M(e.h), e.k) = e.r
         [] e.op = "find"   -> FindR(M(e.h), e.k) = e.r
         [] e.op = "get"    -> GetR(M(e.h), e.k, e.d) = e.r
         [] e.op = "cindex" -> GetR(M(e.h), e.k, 0) = e.r
         [] e.op = "eq"     -> e.g \in Live /\ EqR(M(e.h), M(e.g)) = e.r /\ e.nr = e.r
         [] e.op = "sub"    -> e.g \in Live /\ SubsetR(M(e.h), M(e.g)) = e.r
         [] e.op = "any"    -> e.g \in Live /\ AnyR(M(e.h), M(e.g)) = e.r
    /\ MapLen(M(e.h)) = e.len /\ RC(hb[e.h]) = e.rc
    /\ UNCHANGED vars

TStep ==
  /\ l <= Len(T)
  /\ l' = l + 1
  /\ LET e == T[l] IN
     \/ /\ e.op = "reset"
        /\ hb' = [h \in H |-> IF h = 1 THEN 1 ELSE 0]
        /\ blk' = [b \in B |-> Empty]
        /\ hist' = <<>> /\ hz' = {}
     \/ /\ e.op = "check" /\ CheckOK(e) /\ UNCHANGED vars
     \/ /\ e.op \in {"has", "find", "get", "cindex", "eq", "sub", "any"} /\ Query(e)
     \/ /\ e.op = "set" /\ SetKV(e.h, e.k, e.v) /\ PostOK(e)
     \/ /\ e.op = "index" /\ Index(e.h, e.k) /\ LastR = e.r /\ PostOK(e)
     \/ /\ e.op = "remove" /\ RemoveK(e.h, e.k) /\ (e.r >= 0 => LastR = e.r) /\ PostOK(e)
     \/ /\ e.op = "clear" /\ Clear(e.h) /\ PostOK(e)
     \/ /\ e.op = "add" /\ AddMap(e.h, e.g) /\ PostOK(e)
     \/ /\ e.op = "clone" /\ Clone(e.h, e.g) /\ PostOK(e)
     \/ /\ e.op = "dup" /\ Dup(e.h) /\ PostOK(e)
     \/ /\ e.op = "new" /\ NewEmpty(e.g) /\ PostOK(e)
     \/ /\ e.op = "union" /\ Union(e.h, e.g2, e.g) /\ PostOK(e)
     \/ /\ e.op = "inter" /\ Inter(e.h, e.g2, e.g) /\ PostOK(e)
     \/ /\ e.op = "diff" /\ Diff(e.h, e.g2, e.g) /\ PostOK(e)
     \/ /\ e.op = "copyHandle" /\ CopyHandle(e.h, e.g) /\ PostOK(e)
     \/ /\ e.op = "assignHandle" /\ AssignHandle(e.h, e.g) /\ PostOK(e)
     \/ /\ e.op = "dropHandle" /\ DropHandle(e.h)

TraceSpec == TInit /\ [][TStep]_tvars
TraceAccepted == TLCGet("stats").diameter - 1 = Len(T)
===============================================================================
