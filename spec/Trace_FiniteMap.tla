---------------------------- MODULE Trace_FiniteMap ----------------------------
(* V binding for C02: validates executions recorded from the real asl::Map / Dic / HashMap / HashDic / Set
   (harness/c02_record.cpp) against the actions and lookup operators of FiniteMap and FiniteMapExt.  One ndjson
   line per public call: op, arguments, the result the call returned, and after the call the length and reference
   count of the handle it went through (and of the result handle); "check" events carry the complete content of
   every live handle with at most 300 entries.  The trace is accepted iff every line is a step of the corresponding
   action (or, for a lookup, a stuttering step whose logged result equals the specification's operator) whose
   post-state matches what the implementation reported.

   Enumerator objects are recorded step by step (ebegin / estep with the key and value the real enumerator denotes,
   eassign, eend) and must be steps of EnumBeginK / EnumStepK / EnumAssign / EnumEnd: the key of every step has to
   be one not visited yet - the least one when the container is ordered (e.ord = 1) - and the end may only be
   reported when none is left.  The calls recorded between two steps go through the X... actions, i.e. the
   recorder's own discipline (no change of the key set under an open enumerator) is checked as well.  "enum" events
   carry a whole foreach2 / range-based for loop, "array" events Set::array().                                   *)
EXTENDS FiniteMapExt, IOUtils

T == ndJsonDeserialize(IOEnv.TRACE)
VARIABLE l
tvars == <<xvars, l>>

TInit == InitX /\ l = 1

RCof(hbx, h) == Cardinality({x \in H : hbx[x] = hbx[h]})
PostOK(e) == /\ hb'[e.h] # 0 => /\ MapLen(blk'[hb'[e.h]]) = e.len
                                 /\ RCof(hb', e.h) = e.rc
             /\ ("glen" \in DOMAIN e) => /\ MapLen(blk'[hb'[e.g]]) = e.glen
                                         /\ RCof(hb', e.g) = e.grc
\* the result the specification recorded for the last call
LastR == hist'[Len(hist')].r

CheckOK(e) == /\ {e.obs[i].h : i \in 1..Len(e.obs)} = Live
              /\ \A i \in 1..Len(e.obs) :
                    LET o == e.obs[i] IN
                    /\ MapLen(M(o.h)) = o.n
                    /\ RC(hb[o.h]) = o.rc
                    /\ o.full = 1 => EntrySeq(M(o.h)) = o.kv

\* a complete loop over the container (foreach2 / range-based for / foreach): every entry once, with its value,
\* in ascending key order when the container is ordered
LoopOK(m, kv, ord) ==
    LET n == Len(kv) IN
    /\ n = MapLen(m)
    /\ {kv[i].k : i \in 1..n} = Dom(m)
    /\ {i \in 1..n : m[kv[i].k] # kv[i].v} = {}
    /\ ord = 1 => {i \in 1..(n - 1) : kv[i].k >= kv[i + 1].k} = {}

\* lookups and comparisons: the state does not change, the logged result must be the specification's
Query(e) ==
    /\ e.h \in Live
    /\ CASE e.op = "has"    -> HasR(M(e.h), e.k) = e.r
         [] e.op = "find"   -> FindR(M(e.h), e.k) = e.r
         [] e.op = "get"    -> GetR(M(e.h), e.k, e.d) = e.r
         [] e.op = "cindex" -> GetR(M(e.h), e.k, 0) = e.r
         [] e.op = "eq"     -> e.g \in Live /\ EqR(M(e.h), M(e.g)) = e.r /\ e.nr = e.r
         [] e.op = "sub"    -> e.g \in Live /\ SubsetR(M(e.h), M(e.g)) = e.r
         [] e.op = "any"    -> e.g \in Live /\ AnyR(M(e.h), M(e.g)) = e.r
         [] e.op = "enum"   -> LoopOK(M(e.h), e.kv, e.ord)
         [] e.op = "array"  -> Len(e.ks) = MapLen(M(e.h)) /\ {e.ks[i] : i \in 1..Len(e.ks)} = Dom(M(e.h))
    /\ MapLen(M(e.h)) = e.len /\ RC(hb[e.h]) = e.rc
    /\ UNCHANGED xvars

\* enumerator steps: the recorded key must be an admissible choice, the recorded value the entry's value
TEnumBegin(e) == /\ EnumBeginK(e.h, e.k)
                 /\ (e.ord = 1 /\ e.k # 0) => {y \in Dom(M(e.h)) : y < e.k} = {}
                 /\ LastR = e.r
TEnumStep(e) == /\ Open /\ en.h = e.h
                /\ EnumStepK(e.k)
                /\ (e.ord = 1 /\ e.k # 0) => {y \in en.todo : y < e.k} = {}
                /\ LastR = e.r

TStep ==
  /\ l <= Len(T)
  /\ l' = l + 1
  /\ LET e == T[l] IN
     \/ /\ e.op = "reset"
        /\ hb' = [h \in H |-> IF h = 1 THEN 1 ELSE 0]
        /\ blk' = [b \in B |-> Empty]
        /\ hist' = <<>> /\ hz' = {}
        /\ sz' = [b \in B |-> -1] /\ en' = NoEnum
     \/ /\ e.op = "check" /\ CheckOK(e) /\ UNCHANGED xvars
     \/ /\ e.op \in {"has", "find", "get", "cindex", "eq", "sub", "any", "enum", "array"} /\ Query(e)
     \/ /\ e.op = "set" /\ XSetKV(e.h, e.k, e.v) /\ PostOK(e)
     \/ /\ e.op = "index" /\ XIndex(e.h, e.k) /\ LastR = e.r /\ PostOK(e)
     \/ /\ e.op = "remove" /\ XRemoveK(e.h, e.k) /\ (e.r >= 0 => LastR = e.r) /\ PostOK(e)
     \/ /\ e.op = "clear" /\ XClear(e.h) /\ PostOK(e)
     \/ /\ e.op = "add" /\ XAddMap(e.h, e.g) /\ PostOK(e)
     \/ /\ e.op = "clone" /\ XClone(e.h, e.g) /\ PostOK(e)
     \/ /\ e.op = "dup" /\ XDup(e.h) /\ PostOK(e)
     \/ /\ e.op = "new" /\ (IF "n" \in DOMAIN e THEN XNewSized(e.g, e.n) ELSE XNewEmpty(e.g)) /\ PostOK(e)
     \/ /\ e.op = "list" /\ XFromList(e.g, e.kv) /\ PostOK(e)
     \/ /\ e.op = "union" /\ XUnion(e.h, e.g2, e.g) /\ PostOK(e)
     \/ /\ e.op = "inter" /\ XInter(e.h, e.g2, e.g) /\ PostOK(e)
     \/ /\ e.op = "diff" /\ XDiff(e.h, e.g2, e.g) /\ PostOK(e)
     \/ /\ e.op = "copyHandle" /\ XCopyHandle(e.h, e.g) /\ PostOK(e)
     \/ /\ e.op = "assignHandle" /\ XAssignHandle(e.h, e.g) /\ PostOK(e)
     \/ /\ e.op = "assignSelf" /\ XAssignSelf(e.h) /\ PostOK(e)
     \/ /\ e.op = "dropHandle" /\ XDropHandle(e.h)
     \/ /\ e.op = "poke" /\ XPoke(e.h, e.k, e.v) /\ LastR = e.r /\ PostOK(e)
     \/ /\ e.op = "ebegin" /\ TEnumBegin(e) /\ PostOK(e)
     \/ /\ e.op = "estep" /\ TEnumStep(e) /\ PostOK(e)
     \/ /\ e.op = "eassign" /\ Open /\ en.h = e.h /\ en.cur = e.k /\ EnumAssign(e.v) /\ PostOK(e)
     \/ /\ e.op = "eend" /\ Open /\ en.h = e.h /\ EnumEnd /\ PostOK(e)

TraceSpec == TInit /\ [][TStep]_tvars
TraceAccepted == TLCGet("stats").diameter - 1 = Len(T)
===============================================================================
