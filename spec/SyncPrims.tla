-------------------------------- MODULE SyncPrims --------------------------------
(* C13 - Semaphore, Mutex and Condition under the documented locking protocol.

   Design model (checked exhaustively, with liveness under weak fairness):
     producers post a semaphore after publishing an item; consumers wait, then take an item.
     a waiter does  lock; while ~flag do cond.wait; unlock   and a signaller  lock; flag := TRUE; signal; unlock.
   Properties: a wait never returns without a matching post (count >= 0), no item is lost or taken twice, the mutex
   is held by at most one thread, and - liveness - every consumer/waiter eventually proceeds (no lost post/signal).
   The same state (semaphore count, mutex owner) is what Trace_SyncPrims.tla tracks along recorded executions.  *)
EXTENDS Naturals, FiniteSets, Sequences, TLC

CONSTANTS NProd, NCons, PerProd,   \* producers, consumers, items per producer (NProd*PerProd = NCons*PerCons)
          NWait                     \* condition waiters

Prods == 1..NProd
Cons  == 1..NCons
PerCons == (NProd * PerProd) \div NCons
Waiters == 1..NWait

VARIABLES sem, queue, ppc, pleft, cpc, cleft, taken,       \* semaphore hand-off
          owner, flag, wpc, spc, sleeping                    \* condition protocol (owner: 0 free, else thread)
vars == <<sem, queue, ppc, pleft, cpc, cleft, taken, owner, flag, wpc, spc, sleeping>>

Init == /\ sem = 0 /\ queue = <<>>
        /\ ppc = [p \in Prods |-> "idle"] /\ pleft = [p \in Prods |-> PerProd]
        /\ cpc = [c \in Cons |-> "idle"] /\ cleft = [c \in Cons |-> PerCons] /\ taken = {}
        /\ owner = 0 /\ flag = FALSE /\ wpc = [w \in Waiters |-> "start"] /\ spc = "start" /\ sleeping = {}

(* semaphore hand-off *)
Publish(p) == /\ ppc[p] = "idle" /\ pleft[p] > 0
              /\ queue' = Append(queue, <<p, pleft[p]>>) /\ ppc' = [ppc EXCEPT ![p] = "post"]
              /\ UNCHANGED <<sem, pleft, cpc, cleft, taken, owner, flag, wpc, spc, sleeping>>
Post(p) == /\ ppc[p] = "post"
           /\ sem' = sem + 1 /\ ppc' = [ppc EXCEPT ![p] = "idle"] /\ pleft' = [pleft EXCEPT ![p] = @ - 1]
           /\ UNCHANGED <<queue, cpc, cleft, taken, owner, flag, wpc, spc, sleeping>>
WaitRet(c) == /\ cpc[c] = "idle" /\ cleft[c] > 0 /\ sem > 0
              /\ sem' = sem - 1 /\ cpc' = [cpc EXCEPT ![c] = "take"]
              /\ UNCHANGED <<queue, ppc, pleft, cleft, taken, owner, flag, wpc, spc, sleeping>>
Take(c) == /\ cpc[c] = "take"
           /\ queue # <<>>                      \* guaranteed by the protocol: checked as an invariant below
           /\ taken' = taken \cup {Head(queue)} /\ queue' = Tail(queue)
           /\ cpc' = [cpc EXCEPT ![c] = "idle"] /\ cleft' = [cleft EXCEPT ![c] = @ - 1]
           /\ UNCHANGED <<sem, ppc, pleft, owner, flag, wpc, spc, sleeping>>

(* condition protocol; waiters are threads 1..NWait, the signaller is thread NWait+1 *)
Sig == NWait + 1
WLock(w) == /\ wpc[w] = "start" /\ owner = 0 /\ owner' = w /\ wpc' = [wpc EXCEPT ![w] = "test"]
            /\ UNCHANGED <<sem, queue, ppc, pleft, cpc, cleft, taken, flag, spc, sleeping>>
WTest(w) == /\ wpc[w] = "test" /\ owner = w
            /\ IF flag THEN /\ wpc' = [wpc EXCEPT ![w] = "done"] /\ owner' = 0 /\ UNCHANGED sleeping   \* unlock
                       ELSE /\ wpc' = [wpc EXCEPT ![w] = "asleep"] /\ owner' = 0 /\ sleeping' = sleeping \cup {w}  \* wait: atomically release + sleep
            /\ UNCHANGED <<sem, queue, ppc, pleft, cpc, cleft, taken, flag, spc>>
WWake(w) == /\ wpc[w] = "asleep" /\ w \notin sleeping /\ owner = 0     \* woken: re-acquire the mutex
            /\ owner' = w /\ wpc' = [wpc EXCEPT ![w] = "test"]
            /\ UNCHANGED <<sem, queue, ppc, pleft, cpc, cleft, taken, flag, spc, sleeping>>
SLock   == /\ spc = "start" /\ owner = 0 /\ owner' = Sig /\ spc' = "set"
           /\ UNCHANGED <<sem, queue, ppc, pleft, cpc, cleft, taken, flag, wpc, sleeping>>
SSet    == /\ spc = "set" /\ flag' = TRUE /\ spc' = "signal"
           /\ UNCHANGED <<sem, queue, ppc, pleft, cpc, cleft, taken, owner, wpc, sleeping>>
SSignal == /\ spc = "signal" /\ sleeping' = {} /\ spc' = "unlock"                 \* broadcast
           /\ UNCHANGED <<sem, queue, ppc, pleft, cpc, cleft, taken, owner, flag, wpc>>
SUnlock == /\ spc = "unlock" /\ owner' = 0 /\ spc' = "done"
           /\ UNCHANGED <<sem, queue, ppc, pleft, cpc, cleft, taken, flag, wpc, sleeping>>

Next == \/ \E p \in Prods : Publish(p) \/ Post(p)
        \/ \E c \in Cons : WaitRet(c) \/ Take(c)
        \/ \E w \in Waiters : WLock(w) \/ WTest(w) \/ WWake(w)
        \/ SLock \/ SSet \/ SSignal \/ SUnlock
Spec == Init /\ [][Next]_vars
FairSpec == Spec /\ WF_vars(Next) /\ \A c \in Cons : WF_vars(WaitRet(c) \/ Take(c))
                 /\ \A w \in Waiters : WF_vars(WLock(w) \/ WTest(w) \/ WWake(w))
                 /\ WF_vars(SLock \/ SSet \/ SSignal \/ SUnlock) /\ \A p \in Prods : WF_vars(Publish(p) \/ Post(p))

NoPhantomWake == \A c \in Cons : cpc[c] = "take" => queue # <<>>     \* a returned wait always finds its item
AllConsumed == <>(\A c \in Cons : cleft[c] = 0)
AllWoken == <>(\A w \in Waiters : wpc[w] = "done")
===============================================================================
