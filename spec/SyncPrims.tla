-------------------------------- MODULE SyncPrims --------------------------------
(* C13 - Semaphore, Mutex (lock / trylock / Lock scope) and Condition (wait / wait(timeout)) under the documented
   locking protocol.

   Design model (checked exhaustively, with liveness under fairness):
     producers post a semaphore after publishing an item; consumers wait, then take an item.  Consumers 1..NTimed use
     the timed / non-blocking forms  while (!sem.wait(timeout)) ...  /  while (!sem.trywait()) ...  : such a call may come
     back empty-handed, but ONLY while nothing is posted (WaitFail is enabled only when the wait could not be satisfied)
     and it never consumes a post (Conservation).  A time-out that fires although a post was available for the whole call
     is a lost post - Trace_SyncPrims.tla decides that on recorded executions with the bounds explained there.
     a waiter does  lock; while ~flag do cond.wait [or cond.wait(timeout)]; unlock   and a signaller
     lock; flag := TRUE; signal; unlock.   A timed wait ends by the signal or by its time-out (only while it has not
     been signalled: the documented result "true" means "there was no signal").  A poller uses  if (trylock()) { look at
     the flag; unlock }  in a loop: trylock is refused only while the mutex is held.
     Interrupt: a signal handler runs in a blocked consumer.  It must have no effect on the semaphore; with
     EintrReturns = TRUE the model shows the wait() that returns on EINTR (sem_wait's result ignored): the consumer
     proceeds without a post - NoPhantomWake fails (hazard InterruptedSemWait).
     AtomicWait = FALSE splits cond.wait into "unlock" and "sleep" (the shape of the Win32 branch of Mutex.h:
     unlock; WaitForSingleObject on a pulsed event): a signal in between is lost and AllWoken fails.  Design-level only,
     that branch cannot be executed here.
   Properties: a wait never returns without a matching post, no item is lost or taken twice, posts are conserved, the
   mutex is held by at most one thread and only its holder is inside a critical section, and - liveness - every
   consumer / waiter / poller eventually proceeds (no lost post / signal).
   The same state (semaphore count, mutex owner) is what Trace_SyncPrims.tla tracks along recorded executions.  *)
EXTENDS Naturals, FiniteSets, Sequences, TLC

CONSTANTS NProd, NCons, PerProd,   \* producers, consumers, items per producer (NProd*PerProd = NCons*PerCons)
          NTimed,                   \* consumers 1..NTimed use wait(timeout) / trywait
          NWait, NTimedW,           \* condition waiters; waiters 1..NTimedW use wait(timeout)
          Poller,                   \* BOOLEAN: a trylock poller takes part in the condition protocol
          AtomicWait,               \* BOOLEAN: cond.wait releases the mutex and starts sleeping atomically (pthread)
          Interrupts, EintrReturns  \* BOOLEAN: signal handlers interrupt blocked consumers / as-is: wait() then returns

Prods == 1..NProd
Cons  == 1..NCons
PerCons == (NProd * PerProd) \div NCons
Waiters == 1..NWait

VARIABLES sem, queue, ppc, pleft, cpc, cleft, taken,       \* semaphore hand-off
          posted, returned, cfail, intr,                     \* posts completed, waits returned "acquired", empty-handed / interrupted once
          owner, flag, wpc, spc, sleeping,                   \* condition protocol (owner: 0 free, else thread)
          tout,                                              \* how the last wait of a waiter ended: "none", "sig", "to"
          kpc, kfail                                         \* trylock poller
svars == <<sem, queue, ppc, pleft, cpc, cleft, taken, posted, returned, cfail, intr>>
cvars == <<owner, flag, wpc, spc, sleeping, tout, kpc, kfail>>
vars == <<svars, cvars>>

Init == /\ sem = 0 /\ queue = <<>>
        /\ ppc = [p \in Prods |-> "idle"] /\ pleft = [p \in Prods |-> PerProd]
        /\ cpc = [c \in Cons |-> "idle"] /\ cleft = [c \in Cons |-> PerCons] /\ taken = {}
        /\ posted = 0 /\ returned = 0 /\ cfail = [c \in Cons |-> FALSE] /\ intr = [c \in Cons |-> FALSE]
        /\ owner = 0 /\ flag = FALSE /\ wpc = [w \in Waiters |-> "start"] /\ spc = "start" /\ sleeping = {}
        /\ tout = [w \in Waiters |-> "none"]
        /\ kpc = (IF Poller THEN "try" ELSE "done") /\ kfail = FALSE

(* ---- semaphore hand-off ---- *)
Publish(p) == /\ ppc[p] = "idle" /\ pleft[p] > 0
              /\ queue' = Append(queue, <<p, pleft[p]>>) /\ ppc' = [ppc EXCEPT ![p] = "post"]
              /\ UNCHANGED <<sem, pleft, cpc, cleft, taken, posted, returned, cfail, intr, cvars>>
Post(p) == /\ ppc[p] = "post"
           /\ sem' = sem + 1 /\ posted' = posted + 1
           /\ ppc' = [ppc EXCEPT ![p] = "idle"] /\ pleft' = [pleft EXCEPT ![p] = @ - 1]
           /\ UNCHANGED <<queue, cpc, cleft, taken, returned, cfail, intr, cvars>>
\* wait(), wait(timeout) and trywait() all acquire like this
WaitRet(c) == /\ cpc[c] = "idle" /\ cleft[c] > 0 /\ sem > 0
              /\ sem' = sem - 1 /\ returned' = returned + 1 /\ cpc' = [cpc EXCEPT ![c] = "take"]
              /\ UNCHANGED <<queue, ppc, pleft, cleft, taken, posted, cfail, intr, cvars>>
\* wait(timeout) = false / trywait() = false: only while nothing is posted, and nothing is consumed
WaitFail(c) == /\ c <= NTimed /\ cpc[c] = "idle" /\ cleft[c] > 0 /\ sem = 0 /\ ~cfail[c]
               /\ cfail' = [cfail EXCEPT ![c] = TRUE]
               /\ UNCHANGED <<sem, queue, ppc, pleft, cpc, cleft, taken, posted, returned, intr, cvars>>
\* a signal handler runs in a consumer blocked in wait()
Interrupt(c) == /\ Interrupts /\ c > NTimed /\ cpc[c] = "idle" /\ cleft[c] > 0 /\ sem = 0 /\ ~intr[c]
                /\ intr' = [intr EXCEPT ![c] = TRUE]
                /\ IF EintrReturns THEN cpc' = [cpc EXCEPT ![c] = "take"] ELSE UNCHANGED cpc
                /\ UNCHANGED <<sem, queue, ppc, pleft, cleft, taken, posted, returned, cfail, cvars>>
Take(c) == /\ cpc[c] = "take"
           /\ queue # <<>>                      \* guaranteed by the protocol: checked as an invariant below
           /\ taken' = taken \cup {Head(queue)} /\ queue' = Tail(queue)
           /\ cpc' = [cpc EXCEPT ![c] = "idle"] /\ cleft' = [cleft EXCEPT ![c] = @ - 1]
           /\ UNCHANGED <<sem, ppc, pleft, posted, returned, cfail, intr, cvars>>

(* ---- condition protocol; waiters are threads 1..NWait, the signaller is NWait+1, the poller NWait+2 ---- *)
Sig == NWait + 1
Pol == NWait + 2
WLock(w) == /\ wpc[w] = "start" /\ owner = 0 /\ owner' = w /\ wpc' = [wpc EXCEPT ![w] = "test"]
            /\ UNCHANGED <<svars, flag, spc, sleeping, tout, kpc, kfail>>
WTest(w) == /\ wpc[w] = "test" /\ owner = w
            /\ IF flag THEN /\ wpc' = [wpc EXCEPT ![w] = "done"] /\ owner' = 0 /\ UNCHANGED sleeping   \* unlock
               ELSE IF AtomicWait
                    THEN /\ wpc' = [wpc EXCEPT ![w] = "asleep"] /\ owner' = 0 /\ sleeping' = sleeping \cup {w}  \* wait: atomically release + sleep
                    ELSE /\ wpc' = [wpc EXCEPT ![w] = "unlocked"] /\ owner' = 0 /\ UNCHANGED sleeping
            /\ UNCHANGED <<svars, flag, spc, tout, kpc, kfail>>
WSleep(w) == /\ wpc[w] = "unlocked"                                         \* (non-atomic shape only)
             /\ wpc' = [wpc EXCEPT ![w] = "asleep"] /\ sleeping' = sleeping \cup {w}
             /\ UNCHANGED <<svars, owner, flag, spc, tout, kpc, kfail>>
WTimeout(w) == /\ w <= NTimedW /\ wpc[w] = "asleep" /\ w \in sleeping          \* time-out: only while not signalled
               /\ sleeping' = sleeping \ {w} /\ tout' = [tout EXCEPT ![w] = "to"]
               /\ UNCHANGED <<svars, owner, flag, wpc, spc, kpc, kfail>>
WWake(w) == /\ wpc[w] = "asleep" /\ w \notin sleeping /\ owner = 0     \* woken: re-acquire the mutex
            /\ owner' = w /\ wpc' = [wpc EXCEPT ![w] = "test"]
            /\ UNCHANGED <<svars, flag, spc, sleeping, tout, kpc, kfail>>
SLock   == /\ spc = "start" /\ owner = 0 /\ owner' = Sig /\ spc' = "set"
           /\ UNCHANGED <<svars, flag, wpc, sleeping, tout, kpc, kfail>>
SSet    == /\ spc = "set" /\ flag' = TRUE /\ spc' = "signal"
           /\ UNCHANGED <<svars, owner, wpc, sleeping, tout, kpc, kfail>>
SSignal == /\ spc = "signal" /\ sleeping' = {} /\ spc' = "unlock"                 \* broadcast
           /\ tout' = [w \in Waiters |-> IF w \in sleeping THEN "sig" ELSE tout[w]]
           /\ UNCHANGED <<svars, owner, flag, wpc, kpc, kfail>>
SUnlock == /\ spc = "unlock" /\ owner' = 0 /\ spc' = "done"
           /\ UNCHANGED <<svars, flag, wpc, sleeping, tout, kpc, kfail>>
\* trylock poller
KTryOk   == /\ kpc = "try" /\ owner = 0 /\ owner' = Pol /\ kpc' = "in"
            /\ UNCHANGED <<svars, flag, wpc, spc, sleeping, tout, kfail>>
KTryFail == /\ kpc = "try" /\ owner # 0 /\ ~kfail /\ kfail' = TRUE               \* refused only while it is held
            /\ UNCHANGED <<svars, owner, flag, wpc, spc, sleeping, tout, kpc>>
KLook    == /\ kpc = "in" /\ owner = Pol
            /\ kpc' = (IF flag THEN "done" ELSE "try") /\ owner' = 0
            /\ UNCHANGED <<svars, flag, wpc, spc, sleeping, tout, kfail>>

Next == \/ \E p \in Prods : Publish(p) \/ Post(p)
        \/ \E c \in Cons : WaitRet(c) \/ WaitFail(c) \/ Interrupt(c) \/ Take(c)
        \/ \E w \in Waiters : WLock(w) \/ WTest(w) \/ WSleep(w) \/ WTimeout(w) \/ WWake(w)
        \/ SLock \/ SSet \/ SSignal \/ SUnlock
        \/ KTryOk \/ KTryFail \/ KLook
Spec == Init /\ [][Next]_vars
\* acquisitions compete (a poller can take the mutex again and again): strong fairness for them, weak for the rest
FairSpec == Spec /\ WF_vars(Next) /\ \A c \in Cons : WF_vars(WaitRet(c) \/ Take(c))
                 /\ \A w \in Waiters : SF_vars(WLock(w)) /\ SF_vars(WWake(w)) /\ WF_vars(WTest(w) \/ WSleep(w))
                 /\ SF_vars(SLock) /\ WF_vars(SSet \/ SSignal \/ SUnlock) /\ \A p \in Prods : WF_vars(Publish(p) \/ Post(p))
                 /\ SF_vars(KTryOk) /\ WF_vars(KLook)

NoPhantomWake == \A c \in Cons : cpc[c] = "take" => queue # <<>>     \* a returned wait always finds its item
Conservation == /\ sem + returned = posted                            \* a failed wait consumes nothing, nothing is lost
                /\ returned = Cardinality(taken) + Cardinality({c \in Cons : cpc[c] = "take"})
InCS == {w \in Waiters : wpc[w] = "test"} \cup (IF spc \in {"set", "signal", "unlock"} THEN {Sig} ELSE {})
        \cup (IF kpc = "in" THEN {Pol} ELSE {})
MutexInv == /\ Cardinality(InCS) <= 1
            /\ owner = (IF InCS = {} THEN 0 ELSE CHOOSE t \in InCS : TRUE)
TimeoutOnlyUnsignalled == \A w \in Waiters : tout[w] = "to" => w <= NTimedW
AllConsumed == <>(\A c \in Cons : cleft[c] = 0)
AllWoken == <>(\A w \in Waiters : wpc[w] = "done")
PollerDone == <>(kpc = "done")
===============================================================================
