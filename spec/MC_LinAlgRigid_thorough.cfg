SPECIFICATION Spec2
CONSTANTS
 NAngles = 8
 K = 2
 NRigid = 200
 KS = 4
ACTION_CONSTRAINT Emit
INVARIANTS RigidLaws PlaneLaws SlerpLaws
CHECK_DEADLOCK FALSE
