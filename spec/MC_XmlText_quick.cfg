SPECIFICATION Spec
CONSTANTS
 Names <- NamesSmall
 AttrNames <- AttrNamesSmall
 Values <- ValuesSmall
 Texts <- TextsSmall
 Variants <- VariantsSmall
 Comments <- CommentsSmall
 PIs <- PIsSmall
 Doctypes <- DoctypesSmall
 Decls <- DeclsSmall
 TopWs <- TopWsSmall
 MaxDepth = 2
 MaxKids = 2
 MaxAttrs = 1
 MaxTok = 5
 MaxBadTail = 1
 GuardRoot = TRUE
ACTION_CONSTRAINT Emit
INVARIANTS TypeOK GenRecAgree PrefixNotDoc BadRejected EncodeRoundTrip SMTotal SMRefines SMRoundTrip
CHECK_DEADLOCK FALSE
