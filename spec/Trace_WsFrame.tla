------------------------------ MODULE Trace_WsFrame ------------------------------
(* V binding for C11: validates what harness/c11_record.cpp observed on the real asl::WebSocket / WebSocketServer.

     send            the bytes the library wrote for a (len, seed) message are Header(..) of WsFrame followed by the payload
                     (masked with the key found in the header when the library is the client); checked on the whole wire
                     for small messages, on the first bytes and on sampled positions for large ones
     psend / precv   library client <-> library server: per direction a FIFO of (length, 64-bit hash); every receive()
                     result is the head of the queue (exactly once, in order, identical); pairend: nothing is left over
     rx              a random frame stream fed to the library's receiver: the recognizer DecodeAll and the reassembly
                     machine RxAll say what must have been delivered and which pongs must have been written back
     hs              server handshake: the returned Sec-WebSocket-Accept is Accept(key)  (SHA-1 and Base64 of Codecs.tla)
     hsc             client handshake: the request the client wrote has the form RFC 6455 4.1 requires                  *)
EXTENDS WsFrame, Json, IOUtils

T == ndJsonDeserialize(IOEnv.TRACE)
VARIABLES l, qcs, qsc
tvars == <<l, qcs, qsc>>

SendOK(e) ==
    LET masked == e.role = "c"
        H0 == Header(1, 0, e.op, FALSE, <<>>, e.len)
        hl == Len(H0) + (IF masked THEN 4 ELSE 0)
        key == IF masked THEN SubSeq(e.pre, Len(H0) + 1, Len(H0) + 4) ELSE <<0, 0, 0, 0>>
        ByteAt(pos) == LET o == pos - hl - 1 IN IF masked THEN PayloadByte(e.seed, o) ^^ key[(o % 4) + 1] ELSE PayloadByte(e.seed, o)
    IN /\ e.len >= 1 /\ e.wn = hl + e.len /\ Len(e.pre) >= hl
       /\ e.pre[1] = H0[1] /\ e.pre[2] = H0[2] + (IF masked THEN 128 ELSE 0)
       /\ \A i \in 3..Len(H0) : e.pre[i] = H0[i]
       /\ \A i \in (hl + 1)..Len(e.pre) : e.pre[i] = ByteAt(i)
       /\ \A j \in 1..Len(e.samp) : (e.samp[j][1] > hl /\ e.samp[j][1] <= e.wn) /\ e.samp[j][2] = ByteAt(e.samp[j][1])
       /\ (e.whole => Len(e.pre) = e.wn)
       /\ (~e.whole => Len(e.samp) >= 8)

IsPrefixSeq(a, b) == Len(a) <= Len(b) /\ \A i \in 1..Len(a) : a[i] = b[i]
RxOK(e) ==
    LET D == DecodeAll(e.w)
        r == RxAll(D.fs)
        reply == EncodeAll([i \in 1..Len(r.pongs) |-> Frame(1, OpPong, FALSE, <<>>, r.pongs[i])])
    IN /\ ~e.neg /\ ~e.fail /\ ~r.bad /\ D.st \in {"end", "inc"}
       /\ IF D.st = "end" /\ ~r.open
          THEN /\ \/ e.d = r.out
                  \/ r.closed /\ r.reason # <<>> /\ e.d = Append(r.out, r.reason)
               /\ IF e.role = "s" THEN e.reply = reply
                  ELSE LET full == Len(reply) + 4 * Len(r.pongs)
                           \* (an empty ping as the very last frame before the EOF: its pong may be missing, see WsFrameStreams!EmitRec)
                           lastempty == D.fs # <<>> /\ D.fs[Len(D.fs)].op = OpPing /\ D.fs[Len(D.fs)].pl = <<>>
                       IN IF e.rn = full THEN TRUE ELSE lastempty /\ e.rn + 6 = full
          ELSE /\ IsPrefixSeq(r.out, e.d) /\ Len(e.d) <= Len(r.out) + 1
               /\ (e.role = "s" => IsPrefixSeq(reply, e.reply))

RECURSIVE Digits(_)
Digits(n) == IF n < 10 THEN <<48 + n>> ELSE Append(Digits(n \div 10), 48 + (n % 10))
HsOK(e) == LET hl == HeadLines(e.resp, 1, <<>>) IN
           /\ hl.ok /\ hl.p = Len(e.resp) + 1
           /\ hl.lines[1] = L_101
           /\ HeadValue(hl.lines, LowerB(N_Accept)) = Accept(e.key)
           /\ LowerB(HeadValue(hl.lines, LowerB(N_Upgrade))) = V_websocket
           /\ HeadValue(hl.lines, LowerB(N_Conn)) = V_Upgrade
HscOK(e) == LET hl == HeadLines(e.req, 1, <<>>)
                key == HeadValue(hl.lines, LowerB(N_Key))
                st == hl.lines[1]
            IN /\ e.ok /\ hl.ok /\ hl.p = Len(e.req) + 1
               /\ Len(st) > 13 /\ SubSeq(st, 1, 4) = L_Get /\ st[5] = 47 /\ SubSeq(st, Len(st) - 8, Len(st)) = L_Http11
               /\ LowerB(HeadValue(hl.lines, LowerB(N_Upgrade))) = V_websocket
               /\ HeadValue(hl.lines, LowerB(N_Conn)) = V_Upgrade
               /\ HeadValue(hl.lines, LowerB(N_Version)) = V_13
               /\ HeadValue(hl.lines, LowerB(N_Host)) = <<49,50,55,46,48,46,48,46,49,58>> \o Digits(e.port)
               /\ Len(key) = 24 /\ Cd!B64DecNoWs(key).ok /\ Len(Cd!B64DecNoWs(key).v) = 16

TInit == l = 1 /\ qcs = <<>> /\ qsc = <<>>
Q(d) == IF d = "cs" THEN qcs ELSE qsc
SetQ(d, v) == IF d = "cs" THEN qcs' = v /\ UNCHANGED qsc ELSE qsc' = v /\ UNCHANGED qcs
TStep == /\ l <= Len(T)
         /\ l' = l + 1
         /\ LET e == T[l] IN
            \/ e.e = "reset" /\ qcs' = <<>> /\ qsc' = <<>>
            \/ e.e = "send" /\ SendOK(e) /\ UNCHANGED <<qcs, qsc>>
            \/ e.e = "pairbegin" /\ qcs = <<>> /\ qsc = <<>> /\ UNCHANGED <<qcs, qsc>>
            \/ e.e = "psend" /\ e.len >= 1 /\ SetQ(e.dir, Append(Q(e.dir), <<e.len, e.h>>))
            \/ e.e = "precv" /\ Q(e.dir) # <<>> /\ Head(Q(e.dir)) = <<e.len, e.h>> /\ SetQ(e.dir, Tail(Q(e.dir)))
            \/ e.e = "pairend" /\ qcs = <<>> /\ qsc = <<>> /\ UNCHANGED <<qcs, qsc>>
            \/ e.e = "rx" /\ RxOK(e) /\ UNCHANGED <<qcs, qsc>>
            \/ e.e = "hs" /\ HsOK(e) /\ UNCHANGED <<qcs, qsc>>
            \/ e.e = "hsc" /\ HscOK(e) /\ UNCHANGED <<qcs, qsc>>
TraceSpec == TInit /\ [][TStep]_tvars
TraceAccepted == TLCGet("stats").diameter - 1 = Len(T)
================================================================================
