SPECIFICATION TraceSpec
CONSTANTS
 MaxTok = 0
 MaxTokP2 = 0
 MaxTokQ = 0
 TokSet = {}
POSTCONDITION TraceAccepted
CHECK_DEADLOCK FALSE
