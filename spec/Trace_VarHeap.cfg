SPECIFICATION TraceSpec
CONSTANTS
 NR = 4
 MaxNodes = 120
 MaxDepth = 5
 MaxItems = 14
 ScalarIds = {}
 KeyIds = {1,2,3,4,5,6,7,8}
 MaxOps = 0
 KeepHist = FALSE
 OpSet = {}
 WideObs = FALSE
INVARIANTS TypeOK RcOK NoDangling Acyclic ObjSorted EnumOK
PROPERTIES AssignOK ScalarOK CloneOK Independent TypedOK EnumShapeOK
POSTCONDITION TraceAccepted
CHECK_DEADLOCK FALSE
