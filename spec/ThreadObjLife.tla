------------------------------ MODULE ThreadObjLife ------------------------------
(* C13 - life cycle of asl::Thread *objects* beyond one start/join: copies (the copy constructor moves the OS handle
   into the copy and clears the copy's finished flag - ThreadGroup copies its members before start(), parallel_invoke
   copies running lambda threads into an Array and joins the copies), a Thread object started again after join(),
   destruction (the destructor detaches a handle that was never joined, so a worker may outlive its object).

   Two object slots, up to MaxRuns thread starts, up to MaxOps creator operations chosen freely from the menu below;
   the worker of run r is logical thread r.  Granularity = schedule points of harness/c13_threads.cpp (case kind
   "life"): the creator parks after every operation (user point), inside the lambda constructor's spin on `ready`
   (16) and before pthread_join (14); a worker parks at its entry (12), before the finished-flag store (17) and after
   it (13).  A step runs one thread from its point to its next point.

   What the code promises (invariants):
     RunsOnce            every start executes the body exactly once (per run, so a restarted object runs twice)
     JoinAfterBody       join() returns only after the body of the joined run completed
     FinishedAfterJoin   finished() of the object the worker belongs to is true once that run was joined
     FinishedMeansDone   finished() = true (and not stale from an earlier run) implies the body completed
     HandleConserved     the handle of a started, not yet joined run is held by exactly one live object or was detached
                         by a destructor - copies move it, never duplicate or drop it
     NoDeadAccess        no worker step touches a Thread object that has been destroyed.
   The envelope (what a creator may do) is the documented usage plus what the code visibly supports: an object may be
   destroyed when every run that belongs to it was joined or its finished() has been seen true.  With
   DestroyRunning = TRUE objects are destroyed at any time (the destructor detaches!) and NoDeadAccess fails: the
   worker still stores the flag into the dead object - destroying a running thread's object is outside the envelope.
   ReadAfterFin = TRUE models Thread::begin as it is since the _deleteOnExit change (the subclass trampoline reads the
   object once more after the finished-flag store): then "finished() seen, object destroyed" is a read of a dead
   object - hazard FinishedThenObjectRead, tagged on every case in which an object of a subclassed thread is destroyed
   on the strength of finished() alone (its run was not joined), by the program or at the end of the scope.

   finished() is left unconstrained (-1 in the emitted observations) where the documentation says nothing: while a
   restarted object still carries the flag of its previous run, and for a copy taken of a running thread once that
   thread has stored the flag (it stores it in the original).                                                     *)
EXTENDS Integers, Sequences, FiniteSets, TLC, Json

CONSTANTS Flavour, MaxOps, MaxRuns, DestroyRunning, ReadAfterFin

Objs == 1..2
Runs == 1..MaxRuns

VARIABLES used, alive, handle, fin, stale, cpyrun,      \* per object
          wpc, tgt, eff, joined, detached,               \* per run
          nruns, nops, cpc, carg, dead, hz, hist
vars == <<used, alive, handle, fin, stale, cpyrun, wpc, tgt, eff, joined, detached, nruns, nops, cpc, carg, dead, hz, hist>>
ovars == <<used, alive, handle, fin, stale, cpyrun>>
rvars == <<wpc, tgt, eff, joined, detached>>

Init == /\ used = [o \in Objs |-> Flavour = "subclass" /\ o = 1]        \* subclass: object 1 exists, not started
        /\ alive = used
        /\ handle = [o \in Objs |-> 0] /\ fin = [o \in Objs |-> FALSE] /\ stale = [o \in Objs |-> FALSE]
        /\ cpyrun = [o \in Objs |-> 0]
        /\ wpc = [r \in Runs |-> "none"] /\ tgt = [r \in Runs |-> 0] /\ eff = [r \in Runs |-> 0]
        /\ joined = [r \in Runs |-> FALSE] /\ detached = [r \in Runs |-> FALSE]
        /\ nruns = 0 /\ nops = 0 /\ cpc = "idle" /\ carg = 0 /\ dead = FALSE /\ hz = FALSE /\ hist = <<>>

Started(r) == wpc[r] # "none"
BodyDone(r) == wpc[r] \in {"prefin", "exited", "done"}
FlagStored(r) == wpc[r] \in {"exited", "done"}
RunsOf(o) == {r \in Runs : Started(r) /\ tgt[r] = o}

(* what finished() / the effect counter of object o must show after a step: 0, 1 or -1 (unconstrained / no object) *)
FinObs(o) == IF ~alive'[o] THEN -1
             ELSE IF stale'[o] THEN -1
             ELSE IF cpyrun'[o] # 0 THEN (IF wpc'[cpyrun'[o]] \in {"exited", "done"} THEN -1 ELSE 0)
             ELSE IF fin'[o] THEN 1 ELSE 0
EffObs(o) == LET S == {r \in Runs : wpc'[r] # "none" /\ tgt'[r] = o} IN
             Cardinality({r \in S : eff'[r] >= 1}) + Cardinality({r \in S : eff'[r] >= 2})
Log(t, op, a, b) == hist' = Append(hist, [t |-> t, op |-> op, a |-> a, b |-> b,
                                          fin |-> [o \in Objs |-> FinObs(o)], eff |-> [o \in Objs |-> EffObs(o)]])

(* ---- creator ---- *)
CanOp == cpc = "idle" /\ nops < MaxOps
\* the creator can tell that everything that belongs to object o is over
Over(o) == \A r \in RunsOf(o) : joined[r] \/ (fin[o] /\ ~stale[o] /\ cpyrun[o] = 0)

OpStart(o) == /\ Flavour = "subclass" /\ CanOp /\ alive[o] /\ handle[o] = 0 /\ nruns < MaxRuns
              /\ \A r \in RunsOf(o) : joined[r]                    \* never two workers on one object
              /\ LET r == nruns + 1 IN
                 /\ handle' = [handle EXCEPT ![o] = r] /\ stale' = [stale EXCEPT ![o] = fin[o]]
                 /\ cpyrun' = [cpyrun EXCEPT ![o] = 0]
                 /\ wpc' = [wpc EXCEPT ![r] = "entry"] /\ tgt' = [tgt EXCEPT ![r] = o]
              /\ nruns' = nruns + 1 /\ nops' = nops + 1
              /\ UNCHANGED <<used, alive, fin, eff, joined, detached, cpc, carg, dead, hz>> /\ Log(0, "start", o, 0)
OpCtor(o) == /\ Flavour = "lambda" /\ CanOp /\ ~used[o] /\ nruns < MaxRuns
             /\ (o = 1 \/ used[1])                                   \* (the two slots are interchangeable)
             /\ LET r == nruns + 1 IN
                /\ used' = [used EXCEPT ![o] = TRUE] /\ alive' = [alive EXCEPT ![o] = TRUE]
                /\ handle' = [handle EXCEPT ![o] = r]
                /\ wpc' = [wpc EXCEPT ![r] = "entry"] /\ tgt' = [tgt EXCEPT ![r] = o]
             /\ nruns' = nruns + 1 /\ nops' = nops + 1 /\ cpc' = "spin" /\ carg' = o
             /\ UNCHANGED <<fin, stale, cpyrun, eff, joined, detached, dead, hz>> /\ Log(0, "ctor", o, 0)
CSpun == /\ cpc = "spin" /\ BodyDone(handle[carg])                 \* the worker has copied its context (ready = true)
         /\ cpc' = "idle" /\ UNCHANGED <<ovars, rvars, nruns, nops, carg, dead, hz>> /\ Log(0, "spun", carg, 0)
OpCopy(a, b) == /\ CanOp /\ alive[a] /\ ~used[b]
                /\ used' = [used EXCEPT ![b] = TRUE] /\ alive' = [alive EXCEPT ![b] = TRUE]
                /\ handle' = [handle EXCEPT ![b] = handle[a], ![a] = 0]        \* the handle moves
                /\ cpyrun' = [cpyrun EXCEPT ![b] = handle[a]]
                /\ nops' = nops + 1
                /\ UNCHANGED <<fin, stale, rvars, nruns, cpc, carg, dead, hz>> /\ Log(0, "copy", a, b)
OpJoin(o) == /\ CanOp /\ alive[o] /\ handle[o] # 0
             /\ cpc' = "join" /\ carg' = o /\ nops' = nops + 1
             /\ UNCHANGED <<ovars, rvars, nruns, dead, hz>> /\ Log(0, "join", o, 0)
CJoined == /\ cpc = "join" /\ wpc[handle[carg]] = "done"
           /\ joined' = [joined EXCEPT ![handle[carg]] = TRUE] /\ handle' = [handle EXCEPT ![carg] = 0]
           /\ cpc' = "idle"
           /\ UNCHANGED <<used, alive, fin, stale, cpyrun, wpc, tgt, eff, detached, nruns, nops, carg, dead, hz>>
           /\ Log(0, "joined", carg, 0)
OpDestroy(o) == /\ CanOp /\ alive[o] /\ (DestroyRunning \/ Over(o))
                /\ alive' = [alive EXCEPT ![o] = FALSE] /\ handle' = [handle EXCEPT ![o] = 0]
                /\ detached' = [r \in Runs |-> detached[r] \/ (handle[o] = r)]          \* ~Thread detaches
                /\ hz' = (hz \/ (Flavour = "subclass" /\ \E r \in RunsOf(o) : ~joined[r]))   \* destroyed on the strength of finished() alone
                /\ nops' = nops + 1
                /\ UNCHANGED <<used, fin, stale, cpyrun, wpc, tgt, eff, joined, nruns, cpc, carg, dead>>
                /\ Log(0, "destroy", o, 0)
OpEndWait == /\ cpc = "idle" /\ nops > 0
             /\ cpc' = "endwait" /\ UNCHANGED <<ovars, rvars, nruns, nops, carg, dead, hz>> /\ Log(0, "endwait", 0, 0)
\* the end of the scope: the objects that are left are joined if they hold a handle, then destroyed
CEnd == /\ cpc = "endwait" /\ \A r \in Runs : Started(r) => wpc[r] = "done"
        /\ hz' = (hz \/ (Flavour = "subclass" /\ \E o \in Objs : alive[o] /\ \E r \in RunsOf(o) : ~joined[r] /\ handle[o] # r))
        /\ cpc' = "end" /\ UNCHANGED <<ovars, rvars, nruns, nops, carg, dead>> /\ Log(0, "end", 0, 0)

(* ---- worker of run r ---- *)
WRun(r) == /\ wpc[r] = "entry"
           /\ wpc' = [wpc EXCEPT ![r] = "prefin"] /\ eff' = [eff EXCEPT ![r] = @ + 1]
           /\ dead' = (dead \/ (Flavour = "subclass" /\ ~alive[tgt[r]]))          \* run() is a member of the object
           /\ UNCHANGED <<ovars, tgt, joined, detached, nruns, nops, cpc, carg, hz>> /\ Log(r, "w", 0, 0)
WFin(r) == /\ wpc[r] = "prefin"
           /\ wpc' = [wpc EXCEPT ![r] = "exited"]
           /\ IF alive[tgt[r]] THEN /\ fin' = [fin EXCEPT ![tgt[r]] = TRUE] /\ stale' = [stale EXCEPT ![tgt[r]] = FALSE]
                                    /\ UNCHANGED dead
                               ELSE dead' = TRUE /\ UNCHANGED <<fin, stale>>      \* the flag store hits a dead object
           /\ UNCHANGED <<used, alive, handle, cpyrun, tgt, eff, joined, detached, nruns, nops, cpc, carg, hz>>
           /\ Log(r, "w", 0, 0)
WExit(r) == /\ wpc[r] = "exited"
            /\ wpc' = [wpc EXCEPT ![r] = "done"]
            /\ dead' = (dead \/ (Flavour = "subclass" /\ ReadAfterFin /\ ~alive[tgt[r]]))
            /\ UNCHANGED <<ovars, tgt, eff, joined, detached, nruns, nops, cpc, carg, hz>> /\ Log(r, "w", 0, 0)

Next == \/ \E o \in Objs : OpStart(o) \/ OpCtor(o) \/ OpJoin(o) \/ OpDestroy(o)
        \/ OpCopy(1, 2) \/ CSpun \/ CJoined \/ OpEndWait \/ CEnd
        \/ \E r \in Runs : WRun(r) \/ WFin(r) \/ WExit(r)
Spec == Init /\ [][Next]_vars
FairSpec == Spec /\ WF_vars(Next)

RunsOnce == \A r \in Runs : eff[r] <= 1 /\ (BodyDone(r) => eff[r] = 1)
JoinAfterBody == \A r \in Runs : joined[r] => (eff[r] = 1 /\ wpc[r] = "done")
FinishedAfterJoin == \A r \in Runs : (joined[r] /\ alive[tgt[r]] /\ ~stale[tgt[r]]) => fin[tgt[r]]
FinishedMeansDone == \A o \in Objs : (alive[o] /\ fin[o] /\ ~stale[o]) => \A r \in RunsOf(o) : BodyDone(r)
HandleConserved == \A r \in Runs : (Started(r) /\ ~joined[r] /\ ~detached[r]) =>
                                     Cardinality({o \in Objs : alive[o] /\ handle[o] = r}) = 1
NoDeadAccess == ~dead
Terminates == <>(cpc = "end")

Emit == IF cpc' = "end"
        THEN PrintT(ToJson([k |-> "life", flavour |-> Flavour, steps |-> hist',
                            hz |-> IF hz' THEN <<"FinishedThenObjectRead">> ELSE <<>>]))
        ELSE TRUE
===============================================================================
