------------------------------ MODULE RefHandoff ------------------------------
(* C12 - handles passed THROUGH the library's synchronised structures: the hand-off model (Mutex-protected Queue,
   Semaphore) composed with the counting model (RefCount.tla).

   One shared object with an atomic reference count.  The creator (thread 0) owns a handle that it drops once the
   producers have finished.  Each producer, Per times: copies the creator's handle (inc), locks the mutex, puts a copy
   into the queue (inc), unlocks, posts the semaphore and drops its own handle (dec; free at zero) - possibly after
   the consumer has already dropped the queued one.  Each consumer, Per times: waits on the semaphore, locks, takes
   the first queue element out (copy out = inc, then the queue's element is destroyed = dec, both under the lock),
   unlocks, uses the object through its handle and drops it (dec; free at zero).

   Every step is one atomic operation of the library (counter increment / decrement, lock, unlock, post, wait), so TLC
   explores all interleavings.  Properties: the count equals the number of handles (threads' + queued) at every
   moment; the object is alive whenever a handle exists, in particular while it only lives in the queue and when a
   consumer uses it; it is destroyed exactly once, by the thread whose decrement reaches zero; every queued item is
   taken exactly once, in FIFO order per producer; no deadlock; at the end the queue is empty and the object is gone. *)
EXTENDS Naturals, Sequences, FiniteSets, TLC

CONSTANTS NP,      \* producers 1..NP, consumers NP+1..2*NP
          Per      \* items per producer / consumer

Prod == 1..NP
Cons == (NP + 1)..(2 * NP)
Thr == Prod \cup Cons

VARIABLES rc, alive, freed, uaf, q, mu, sem, pc, cnt, held, taken, main
vars == <<rc, alive, freed, uaf, q, mu, sem, pc, cnt, held, taken, main>>

Init == /\ rc = 1 /\ alive = TRUE /\ freed = 0 /\ uaf = FALSE
        /\ q = <<>> /\ mu = 0 /\ sem = 0
        /\ pc = [t \in Thr |-> IF t \in Prod THEN "copy" ELSE "wait"]
        /\ cnt = [t \in Thr |-> 0]            \* items completed
        /\ held = [t \in Thr |-> 0]           \* handles owned by the thread
        /\ taken = [t \in Cons |-> <<>>]      \* items taken, in order
        /\ main = "holds"                     \* the creator's handle

\* the two counter operations (RefCount.tla's Atomic step for one object)
Inc == /\ rc' = rc + 1 /\ uaf' = (uaf \/ ~alive) /\ UNCHANGED <<alive, freed>>
Dec == /\ rc' = IF rc = 0 THEN 0 ELSE rc - 1
       /\ uaf' = (uaf \/ ~alive \/ rc = 0)
       /\ alive' = IF rc = 1 THEN FALSE ELSE alive
       /\ freed' = IF rc = 1 THEN freed + 1 ELSE freed
Goto(t, l) == pc' = [pc EXCEPT ![t] = l]

PCopy(t) == /\ pc[t] = "copy" /\ main = "holds"           \* copies the creator's handle: the creator still holds it
            /\ Inc /\ held' = [held EXCEPT ![t] = @ + 1] /\ Goto(t, "lock")
            /\ UNCHANGED <<q, mu, sem, cnt, taken, main>>
Lock(t) == /\ pc[t] = "lock" /\ mu = 0
           /\ mu' = t /\ Goto(t, IF t \in Prod THEN "put" ELSE "get1")
           /\ UNCHANGED <<rc, alive, freed, uaf, q, sem, cnt, held, taken, main>>
PPut(t) == /\ pc[t] = "put" /\ mu = t
           /\ Inc /\ q' = Append(q, <<t, cnt[t] + 1>>) /\ Goto(t, "unlock")
           /\ UNCHANGED <<mu, sem, cnt, held, taken, main>>
Unlock(t) == /\ pc[t] = "unlock" /\ mu = t
             /\ mu' = 0 /\ Goto(t, IF t \in Prod THEN "post" ELSE "use")
             /\ UNCHANGED <<rc, alive, freed, uaf, q, sem, cnt, held, taken, main>>
PPost(t) == /\ pc[t] = "post"
            /\ sem' = sem + 1 /\ Goto(t, "drop")
            /\ UNCHANGED <<rc, alive, freed, uaf, q, mu, cnt, held, taken, main>>
Drop(t) == /\ pc[t] = "drop" /\ held[t] > 0
           /\ Dec /\ held' = [held EXCEPT ![t] = @ - 1]
           /\ cnt' = [cnt EXCEPT ![t] = @ + 1]
           /\ Goto(t, IF cnt[t] + 1 = Per THEN "done" ELSE IF t \in Prod THEN "copy" ELSE "wait")
           /\ UNCHANGED <<q, mu, sem, taken, main>>
CWait(t) == /\ pc[t] = "wait" /\ sem > 0
            /\ sem' = sem - 1 /\ Goto(t, "lock")
            /\ UNCHANGED <<rc, alive, freed, uaf, q, mu, cnt, held, taken, main>>
\* Queue::get under the lock: copy the first element out, then remove (destroy) it
CGet1(t) == /\ pc[t] = "get1" /\ mu = t /\ q # <<>>
            /\ Inc /\ held' = [held EXCEPT ![t] = @ + 1] /\ taken' = [taken EXCEPT ![t] = Append(@, Head(q))]
            /\ Goto(t, "get2") /\ UNCHANGED <<q, mu, sem, cnt, main>>
CGet2(t) == /\ pc[t] = "get2" /\ mu = t
            /\ Dec /\ q' = Tail(q) /\ Goto(t, "unlock")
            /\ UNCHANGED <<mu, sem, cnt, held, taken, main>>
CUse(t) == /\ pc[t] = "use"
           /\ uaf' = (uaf \/ ~alive) /\ Goto(t, "drop")
           /\ UNCHANGED <<rc, alive, freed, q, mu, sem, cnt, held, taken, main>>
\* the creator drops its handle after joining the producers (consumers may still be running)
MainDrop == /\ main = "holds" /\ \A t \in Prod : pc[t] = "done"
            /\ Dec /\ main' = "dropped"
            /\ UNCHANGED <<q, mu, sem, pc, cnt, held, taken>>
Finished == main = "dropped" /\ \A t \in Thr : pc[t] = "done"
Next == \/ \E t \in Prod : PCopy(t) \/ PPut(t) \/ PPost(t)
        \/ \E t \in Cons : CWait(t) \/ CGet1(t) \/ CGet2(t) \/ CUse(t)
        \/ \E t \in Thr : Lock(t) \/ Unlock(t) \/ Drop(t)
        \/ MainDrop
        \/ (Finished /\ UNCHANGED vars)
Spec == Init /\ [][Next]_vars /\ WF_vars(Next)
-------------------------------------------------------------------------------
RECURSIVE SumHeld(_)
SumHeld(S) == IF S = {} THEN 0 ELSE LET t == CHOOSE x \in S : TRUE IN held[t] + SumHeld(S \ {t})
Handles == SumHeld(Thr) + Len(q) + (IF main = "holds" THEN 1 ELSE 0)
\* between the two halves of Queue::get the element exists twice (copied out, not yet removed): Len(q) counts it, held too
CountMatches == rc = Handles
NoUseAfterFree == ~uaf
AliveWhileHandles == Handles > 0 => alive
DestroyedOnce == freed <= 1
MutexOwnerInside == mu # 0 => pc[mu] \in {"put", "unlock", "get1", "get2"}
NeverMoreTakenThanPut == \A t \in Cons : Len(taken[t]) <= Per
AllTaken == {taken[t][i] : t \in Cons, i \in 1..Per} = {<<p, i>> : p \in Prod, i \in 1..Per}
AtEnd == Finished => /\ q = <<>> /\ sem = 0 /\ rc = 0 /\ ~alive /\ freed = 1
                     /\ \A t \in Cons : Len(taken[t]) = Per
                     /\ AllTaken
\* items of one producer are taken by a consumer in the order they were put (FIFO)
PerConsumerFifo == \A t \in Cons : \A i, j \in 1..Len(taken[t]) :
                      (i < j /\ taken[t][i][1] = taken[t][j][1]) => taken[t][i][2] < taken[t][j][2]
Terminates == <>Finished
===============================================================================
