SPECIFICATION Spec
CONSTANTS
 BinChunks <- TBin
 TextChunks <- TTxt
 ReadSizes = {0, 1, 2, 3, 7}
 ShapeRuns <- NoRuns
 ShapeSegs = 0
 EncScalars <- NoScalars
 EncMaxLen = 0
 MaxLen = 6
 MaxOps = 4
 TmpPaths = {"p", "q"}
 QueryKinds = {}
 KeepHist = TRUE
VIEW View
ACTION_CONSTRAINT Emit
INVARIANTS TypeOK HandleOK LinesOK
PROPERTIES Independence CopyExact
CHECK_DEADLOCK FALSE
