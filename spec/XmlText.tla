------------------------------- MODULE XmlText -------------------------------
(* C07 - XML text <-> element trees.

   Trees.  A node is a record [k, n, a, c]: element k = "e" (n = tag bytes, a = sequence of <<name, value>> byte-string
   pairs, c = sequence of child nodes) or text k = "t" (n = the text bytes).  Normalize is the equivalence the property
   names: adjacent text nodes merged, whitespace-only text dropped, attributes as a set.

   Three independent formulations that TLC checks against each other:
     generator   a pushdown transition system (variables text, stack, ...) that writes a document token by token - with
                 every lexical variant the decoder has to cope with (XML declaration, DOCTYPE with nested <>, comments,
                 processing instructions, both quote styles, white space inside tags, named / decimal / hexadecimal
                 references, raw non-ASCII bytes) - while building the tree the document denotes.  Every reachable state
                 is a prefix of a document; fault actions add surplus / mismatched end tags.
     recognizer  Recognize(bytes): strict recursive descent for that XML subset, returning the tree or failure.
     encoder     Enc(tree, formatted): a serializer with the layout of Xml::encode (compact and indented).
   Invariants (the property at specification level): GenRecAgree, PrefixNotDoc, BadRejected, EncodeRoundTrip.

   Bindings: R - MC_XmlText*.cfg, ACTION_CONSTRAINT Emit prints one case per transition (document or prefix, expected
   normalized tree, the tree to encode) for harness/c07_replay.cpp;  V - Trace_XmlText.tla validates recorded
   encode/decode runs of the real code with Recognize / Normalize.

   The subset deliberately excludes what the property does not promise and asl does not implement: CDATA, end tags
   with white space, '>' or '<' inside DOCTYPE literals, PI targets not starting with a letter, references to
   undeclared entities, and a whitespace-only text chunk separated from other text only by a comment/PI (the decoder
   drops white space per chunk, Normalize per merged text).                                                      *)
EXTENDS Naturals, Sequences, FiniteSets, TLC, Json

CONSTANTS Names,      \* element names (byte strings)
          AttrNames,  \* attribute names
          Values,     \* attribute values, as sequences of items (code points, or RawBase + b for a raw byte b)
          Texts,      \* text chunks, as sequences of items
          Variants,   \* lexical variants [style, q, w, eq]: reference style, quote, white space before an attribute, '=' spelling
          Comments,   \* comment bodies
          PIs,        \* processing instruction bodies (target and content)
          Doctypes, Decls, TopWs,
          MaxDepth, MaxKids, MaxAttrs, MaxTok, MaxBadTail

VARIABLES text,       \* bytes written so far
          stack,      \* open elements: [n, a, c, st ("tag" | "content"), lt (see Text)]
          phase,      \* "pre" | "pre2" (after DOCTYPE) | "in" | "post" (root closed) | "bad" (after a fault)
          root,       \* the finished tree (phase = "post")
          ntok,       \* tokens written (bound)
          hz,         \* hazard tags of this document (matches open known findings)
          act         \* name of the last generator action (reported with each case; the check requires every action to occur)
vars == <<text, stack, phase, root, ntok, hz, act>>

-------------------------------------------------------------------------------
(* bytes *)
RawBase == 2000000
IsWs(c) == c \in {32, 9, 10, 13}
WsOnly(s) == \A i \in 1..Len(s) : IsWs(s[i])
RECURSIVE CatSeq(_, _, _)
CatSeq(ps, lo, hi) == IF lo > hi THEN <<>> ELSE IF lo = hi THEN ps[lo]
                      ELSE LET mid == (lo + hi) \div 2 IN CatSeq(ps, lo, mid) \o CatSeq(ps, mid + 1, hi)
Cat(ps) == CatSeq(ps, 1, Len(ps))
Utf8(cp) == IF cp >= RawBase THEN <<cp - RawBase>>
            ELSE IF cp < 128 THEN <<cp>>
            ELSE IF cp < 2048 THEN <<192 + cp \div 64, 128 + (cp % 64)>>
            ELSE IF cp < 65536 THEN <<224 + cp \div 4096, 128 + ((cp \div 64) % 64), 128 + (cp % 64)>>
            ELSE <<240 + cp \div 262144, 128 + ((cp \div 4096) % 64), 128 + ((cp \div 64) % 64), 128 + (cp % 64)>>
Utf8Seq(cps) == Cat([i \in 1..Len(cps) |-> Utf8(cps[i])])
RECURSIVE DecStr(_)
DecStr(n) == IF n < 10 THEN <<48 + n>> ELSE Append(DecStr(n \div 10), 48 + (n % 10))
HexDig(v) == IF v < 10 THEN 48 + v ELSE 87 + v
RECURSIVE HexStr(_)
HexStr(n) == IF n < 16 THEN <<HexDig(n)>> ELSE Append(HexStr(n \div 16), HexDig(n % 16))

S_amp == <<38,97,109,112,59>>      S_lt == <<38,108,116,59>>       S_gt == <<38,103,116,59>>
S_apos == <<38,97,112,111,115,59>> S_quot == <<38,113,117,111,116,59>>
S_cmtOpen == <<60,33,45,45>>       S_cmtClose == <<45,45,62>>
S_piOpen == <<60,63>>              S_piClose == <<63,62>>
S_endOpen == <<60,47>>             S_doctype == <<60,33,68,79,67,84,89,80,69>>
S_xmldecl == <<60,63,120,109,108>>

-------------------------------------------------------------------------------
(* trees *)
Elem(n, a, c) == [k |-> "e", n |-> n, a |-> a, c |-> c]
Txt(s)        == [k |-> "t", n |-> s, a |-> <<>>, c |-> <<>>]
NoTree        == Txt(<<>>)
RECURSIVE MergeFrom(_, _, _)
MergeFrom(cs, i, acc) ==
    IF i > Len(cs) THEN acc
    ELSE IF cs[i].k = "t" /\ acc # <<>> /\ acc[Len(acc)].k = "t"
         THEN MergeFrom(cs, i + 1, [acc EXCEPT ![Len(acc)] = Txt(@.n \o cs[i].n)])
         ELSE MergeFrom(cs, i + 1, Append(acc, cs[i]))
RECURSIVE Normalize(_)
Normalize(e) ==
    IF e.k = "t" THEN e
    ELSE LET kept == SelectSeq(MergeFrom(e.c, 1, <<>>), LAMBDA x : ~(x.k = "t" /\ WsOnly(x.n)))
         IN [k |-> "e", n |-> e.n, a |-> {e.a[i] : i \in 1..Len(e.a)}, c |-> [i \in 1..Len(kept) |-> Normalize(kept[i])]]
\* text occurs only as the sole child of its element (the condition for the indented form)
RECURSIVE SoleText(_)
SoleText(e) == \/ e.k = "t"
               \/ /\ \A i \in 1..Len(e.c) : e.c[i].k = "t" => Len(e.c) = 1
                  /\ \A i \in 1..Len(e.c) : SoleText(e.c[i])

-------------------------------------------------------------------------------
(* lexical forms of character data *)
Named(cp) == IF cp = 38 THEN S_amp ELSE IF cp = 60 THEN S_lt ELSE IF cp = 62 THEN S_gt ELSE IF cp = 39 THEN S_apos ELSE S_quot
CharRef(cp, hex) == <<38, 35>> \o (IF hex THEN <<120>> \o HexStr(cp) ELSE DecStr(cp)) \o <<59>>
\* style "enc": the five special characters as named entities (what Xml::encode writes); "min": only what XML requires
\* (& < and the enclosing quote); "dec" / "hex": specials and non-ASCII characters as numeric references
EscItem(cp, style, q) ==
    IF cp >= RawBase THEN Utf8(cp)
    ELSE IF cp \in {38, 60} \/ cp = q \/ (style # "min" /\ cp \in {62, 39, 34})
         THEN (IF style \in {"enc", "min"} THEN Named(cp) ELSE CharRef(cp, style = "hex"))
    ELSE IF cp >= 128 /\ style \in {"dec", "hex"} THEN CharRef(cp, style = "hex")
    ELSE Utf8(cp)
Esc(cps, style, q) == Cat([i \in 1..Len(cps) |-> EscItem(cps[i], style, q)])
ItemsWsOnly(cps) == \A i \in 1..Len(cps) : IsWs(cps[i])

-------------------------------------------------------------------------------
(* the generator *)
Top == stack[Len(stack)]
Frame(nm) == [n |-> nm, a |-> <<>>, c |-> <<>>, st |-> "tag", lt |-> "none"]
SetTop(f) == [stack EXCEPT ![Len(stack)] = f]
InTag     == phase = "in" /\ (IF stack = <<>> THEN FALSE ELSE Top.st = "tag")
InContent == phase = "in" /\ (IF stack = <<>> THEN FALSE ELSE Top.st = "content")
Write(s)  == ntok < MaxTok /\ text' = text \o s /\ ntok' = ntok + 1
\* a finished element goes to its parent, or becomes the root
Deliver(e) == IF Len(stack) = 1
              THEN /\ root' = e /\ phase' = "post" /\ stack' = <<>>
              ELSE /\ LET rest == SubSeq(stack, 1, Len(stack) - 1)
                          par  == rest[Len(rest)]
                      IN stack' = [rest EXCEPT ![Len(rest)] = [par EXCEPT !.c = Append(@, e), !.lt = "none"]]
                   /\ UNCHANGED <<root, phase>>
MiscTexts == {S_cmtOpen \o b \o S_cmtClose : b \in Comments} \cup {S_piOpen \o b \o S_piClose : b \in PIs}

Init == /\ text = <<>> /\ stack = <<>> /\ phase = "pre" /\ root = NoTree /\ ntok = 0 /\ hz = {} /\ act = "Init"

XmlDecl  == /\ phase = "pre" /\ text = <<>>
            /\ \E d \in Decls : Write(d)
            /\ UNCHANGED <<stack, phase, root, hz>>
Doctype  == /\ phase = "pre" /\ stack = <<>>
            /\ \E d \in Doctypes : Write(d)
            /\ phase' = "pre2" /\ UNCHANGED <<stack, root, hz>>
TopMisc  == /\ phase \in {"pre", "pre2", "post"} /\ stack = <<>>
            /\ \E m \in MiscTexts \cup TopWs : Write(m)
            /\ UNCHANGED <<stack, phase, root, hz>>
Open     == /\ \/ phase \in {"pre", "pre2"} /\ stack = <<>>
               \/ InContent /\ Len(stack) < MaxDepth /\ Len(Top.c) < MaxKids
            /\ \E nm \in Names : /\ Write(<<60>> \o nm)
                                 /\ stack' = Append(stack, Frame(nm))
            /\ phase' = "in" /\ UNCHANGED <<root, hz>>
Attr     == /\ InTag /\ Len(Top.a) < MaxAttrs
            /\ \E an \in AttrNames, v \in Values, lv \in Variants :
                  /\ \A i \in 1..Len(Top.a) : Top.a[i][1] # an
                  /\ Write(lv.w \o an \o lv.eq \o <<lv.q>> \o Esc(v, lv.style, lv.q) \o <<lv.q>>)
                  /\ stack' = SetTop([Top EXCEPT !.a = Append(@, <<an, Utf8Seq(v)>>)])
            /\ UNCHANGED <<phase, root, hz>>
CloseStart == /\ InTag
              /\ \E lv \in Variants : Write((IF lv.style = "enc" THEN <<>> ELSE lv.w) \o <<62>>)
              /\ stack' = SetTop([Top EXCEPT !.st = "content"])
              /\ UNCHANGED <<phase, root, hz>>
SelfClose == /\ InTag
             /\ \E lv \in Variants : Write((IF lv.style = "enc" THEN <<>> ELSE lv.w) \o <<47, 62>>)
             /\ Deliver(Elem(Top.n, Top.a, <<>>))
             /\ UNCHANGED hz
\* lt remembers what precedes in this element's content: "none" (start, or an element), "txt" / "ws" (a text chunk that
\* is not / is whitespace-only), "txtc" / "wsc" (such a chunk followed only by comments/PIs).  A chunk directly after a
\* chunk would be the same chunk; after "txtc" only non-blank text keeps decoder and Normalize in agreement.
TextOK(cps) == \/ Top.lt = "none"
               \/ Top.lt = "txtc" /\ ~ItemsWsOnly(cps)
               \/ Top.lt = "wsc" /\ ItemsWsOnly(cps)
Text     == /\ InContent /\ Len(Top.c) < MaxKids
            /\ \E cps \in Texts, lv \in Variants :
                  /\ TextOK(cps)
                  /\ Write(Esc(cps, lv.style, 0))
                  /\ stack' = SetTop([Top EXCEPT !.c = Append(@, Txt(Utf8Seq(cps))),
                                                  !.lt = IF ItemsWsOnly(cps) THEN "ws" ELSE "txt"])
            /\ UNCHANGED <<phase, root, hz>>
InMisc   == /\ InContent
            /\ \E m \in MiscTexts : Write(m)
            /\ stack' = SetTop([Top EXCEPT !.lt = IF @ = "txt" THEN "txtc" ELSE IF @ = "ws" THEN "wsc" ELSE @])
            /\ UNCHANGED <<phase, root, hz>>
End      == /\ InContent
            /\ Write(S_endOpen \o Top.n \o <<62>>)
            /\ Deliver(Elem(Top.n, Top.a, Top.c))
            /\ UNCHANGED hz
(* faults *)
ExtraEnd == /\ phase \in {"pre", "pre2", "post"} /\ stack = <<>>
            /\ \E nm \in Names \cup {<<>>} : /\ Write(S_endOpen \o nm \o <<62>>)
                                            /\ hz' = IF nm = <<>> THEN {"CloseAnonymousRoot"} ELSE hz
            /\ phase' = "bad" /\ UNCHANGED <<stack, root>>
MismatchEnd == /\ InContent
               /\ \E nm \in Names \cup {<<>>} : nm # Top.n /\ Write(S_endOpen \o nm \o <<62>>)
               /\ phase' = "bad" /\ UNCHANGED <<stack, root, hz>>
BadTails == {<<60, 97, 47, 62>>, <<60, 47, 62>>, <<120>>, <<60, 47, 97, 62>>}
BadTail  == /\ phase = "bad" /\ MaxBadTail > 0
            /\ \E s \in BadTails : /\ Write(s)
                                   /\ hz' = IF s = <<60, 47, 62>> /\ stack = <<>> THEN hz \cup {"CloseAnonymousRoot"} ELSE hz
            /\ phase' = "bad2" /\ UNCHANGED <<stack, root>>

Actions == {"XmlDecl", "Doctype", "TopMisc", "Open", "Attr", "CloseStart", "SelfClose", "Text", "InMisc", "End",
            "ExtraEnd", "MismatchEnd", "BadTail"}
Next == \/ (XmlDecl /\ act' = "XmlDecl")
        \/ (Doctype /\ act' = "Doctype")
        \/ (TopMisc /\ act' = "TopMisc")
        \/ (Open /\ act' = "Open")
        \/ (Attr /\ act' = "Attr")
        \/ (CloseStart /\ act' = "CloseStart")
        \/ (SelfClose /\ act' = "SelfClose")
        \/ (Text /\ act' = "Text")
        \/ (InMisc /\ act' = "InMisc")
        \/ (End /\ act' = "End")
        \/ (ExtraEnd /\ act' = "ExtraEnd")
        \/ (MismatchEnd /\ act' = "MismatchEnd")
        \/ (BadTail /\ act' = "BadTail")
Spec == Init /\ [][Next]_vars

-------------------------------------------------------------------------------
(* the recognizer: strict recursive descent over bytes; results [ok, v, p] (p = next position) *)
Fail == [ok |-> FALSE, v |-> NoTree, p |-> 0]
Ok(v, p) == [ok |-> TRUE, v |-> v, p |-> p]
At(t, p) == IF p >= 1 /\ p <= Len(t) THEN t[p] ELSE 0                   \* 0: end of text (a NUL byte ends a C string too)
StartsWith(t, p, w) == p + Len(w) - 1 <= Len(t) /\ SubSeq(t, p, p + Len(w) - 1) = w
RECURSIVE Find(_, _, _)
Find(t, p, w) == IF p + Len(w) - 1 > Len(t) THEN 0 ELSE IF StartsWith(t, p, w) THEN p ELSE Find(t, p + 1, w)
RECURSIVE SkipWs(_, _)
SkipWs(t, p) == IF IsWs(At(t, p)) THEN SkipWs(t, p + 1) ELSE p
IsAlpha(c)   == c \in 65..90 \/ c \in 97..122
NameStart(c) == IsAlpha(c) \/ c = 95 \/ c = 58 \/ c >= 128
NameChar(c)  == NameStart(c) \/ c \in 48..57 \/ c = 45 \/ c = 46
RECURSIVE NameEnd(_, _)
NameEnd(t, p) == IF NameChar(At(t, p)) THEN NameEnd(t, p + 1) ELSE p
IsName(s) == s # <<>> /\ NameStart(s[1]) /\ \A i \in 1..Len(s) : NameChar(s[i])
HexV(c) == IF c \in 48..57 THEN c - 48 ELSE IF c \in 97..102 THEN c - 87 ELSE IF c \in 65..70 THEN c - 55 ELSE 99
RECURSIVE NumVal(_, _, _)
NumVal(s, base, acc) == IF s = <<>> THEN acc ELSE NumVal(Tail(s), base, acc * base + HexV(Head(s)))
\* p at '&'.  Named: amp lt gt apos quot.  Numeric: at most 7 digits, a Unicode scalar value other than 0.
Ref(t, p) ==
    LET q == Find(t, p + 1, <<59>>) IN
    IF q = 0 \/ q - p > 10 \/ q - p < 2 THEN Fail
    ELSE LET body == SubSeq(t, p + 1, q - 1) IN
         IF body = <<97,109,112>> THEN Ok(<<38>>, q + 1)
         ELSE IF body = <<108,116>> THEN Ok(<<60>>, q + 1)
         ELSE IF body = <<103,116>> THEN Ok(<<62>>, q + 1)
         ELSE IF body = <<97,112,111,115>> THEN Ok(<<39>>, q + 1)
         ELSE IF body = <<113,117,111,116>> THEN Ok(<<34>>, q + 1)
         ELSE IF body[1] # 35 \/ Len(body) < 2 THEN Fail
         ELSE LET hex == body[2] = 120
                  ds  == SubSeq(body, IF hex THEN 3 ELSE 2, Len(body))
                  good == ds # <<>> /\ Len(ds) <= 7 /\ \A i \in 1..Len(ds) : HexV(ds[i]) < (IF hex THEN 16 ELSE 10)
                  val == IF good THEN NumVal(ds, IF hex THEN 16 ELSE 10, 0) ELSE 0
              IN IF good /\ val >= 1 /\ val <= 1114111 /\ ~(val \in 55296..57343) THEN Ok(Utf8(val), q + 1) ELSE Fail
\* character data: content (q = 0, ends before '<' or at the end) or attribute value (ends after the quote q, no '<').
\* Plain runs are skipped by galloping + bisection instead of one recursion level per character (TLC's identifier
\* lookup is linear in the recursion depth, which made long texts quadratic).
Stops(c, q) == c = 0 \/ c = 60 \/ c = 38 \/ (q # 0 /\ c = q)
PlainRange(t, lo, hi, q) == \A i \in lo..hi : ~Stops(t[i], q)
RECURSIVE FirstStop(_, _, _, _)
FirstStop(t, lo, hi, q) ==           \* some position in lo..hi stops; the first one
    IF lo >= hi THEN lo
    ELSE LET mid == (lo + hi) \div 2 IN IF PlainRange(t, lo, mid, q) THEN FirstStop(t, mid + 1, hi, q) ELSE FirstStop(t, lo, mid, q)
RECURSIVE Gallop(_, _, _, _)
Gallop(t, p, w, q) ==                \* first position >= p that stops, Len(t) + 1 if none
    IF p > Len(t) THEN p
    ELSE LET hi == IF p + w - 1 > Len(t) THEN Len(t) ELSE p + w - 1 IN
         IF PlainRange(t, p, hi, q) THEN Gallop(t, hi + 1, 2 * w, q) ELSE FirstStop(t, p, hi, q)
RECURSIVE Chars(_, _, _, _)
Chars(t, p0, acc0, q) ==
    LET p   == Gallop(t, p0, 8, q)
        acc == acc0 \o SubSeq(t, p0, p - 1)
        c   == At(t, p)
    IN
    IF c = 0 THEN (IF q = 0 THEN Ok(acc, p) ELSE Fail)
    ELSE IF c = 60 THEN (IF q = 0 THEN Ok(acc, p) ELSE Fail)
    ELSE IF c = 38 THEN (LET r == Ref(t, p) IN IF r.ok THEN Chars(t, r.p, acc \o r.v, q) ELSE Fail)
    ELSE Ok(acc, p + 1)              \* the closing quote
\* after the element name: attributes, then '>' or '/>'.  v = [a, self]
RECURSIVE Attrs(_, _, _)
Attrs(t, p, acc) ==
    LET p1 == SkipWs(t, p) IN
    IF At(t, p1) = 62 THEN Ok([a |-> acc, self |-> FALSE], p1 + 1)
    ELSE IF At(t, p1) = 47 /\ At(t, p1 + 1) = 62 THEN Ok([a |-> acc, self |-> TRUE], p1 + 2)
    ELSE IF p1 = p \/ ~NameStart(At(t, p1)) THEN Fail
    ELSE LET e  == NameEnd(t, p1)
             nm == SubSeq(t, p1, e - 1)
             p2 == SkipWs(t, e)
         IN IF At(t, p2) # 61 THEN Fail
            ELSE LET p3 == SkipWs(t, p2 + 1)
                     q  == At(t, p3)
                 IN IF q \notin {34, 39} THEN Fail
                    ELSE LET r == Chars(t, p3 + 1, <<>>, q) IN
                         IF ~r.ok \/ \E i \in 1..Len(acc) : acc[i][1] = nm THEN Fail
                         ELSE Attrs(t, r.p, Append(acc, <<nm, r.v>>))
\* p at "<!--": position after "-->", 0 if malformed ("--" inside a comment is not allowed)
CommentEnd(t, p) == LET q == Find(t, p + 4, <<45, 45>>) IN IF q # 0 /\ At(t, q + 2) = 62 THEN q + 3 ELSE 0
\* p at "<?": target = name starting with a letter and not "xml"; position after "?>", 0 if malformed
Lower(c) == IF c \in 65..90 THEN c + 32 ELSE c
PIEnd(t, p) ==
    IF ~IsAlpha(At(t, p + 2)) THEN 0
    ELSE LET e == NameEnd(t, p + 2)
             target == SubSeq(t, p + 2, e - 1)
         IN IF [i \in 1..Len(target) |-> Lower(target[i])] = <<120, 109, 108>> THEN 0
            ELSE IF StartsWith(t, e, S_piClose) THEN e + 2
            ELSE IF ~IsWs(At(t, e)) THEN 0
            ELSE LET q == Find(t, e, S_piClose) IN IF q = 0 THEN 0 ELSE q + 2
\* p after "<!DOCTYPE": balanced <...> where nested items are <!X...> declarations; no angle brackets inside literals
RECURSIVE DtScan(_, _, _, _)
DtScan(t, p, depth, q) ==
    LET c == At(t, p) IN
    IF c = 0 THEN 0
    ELSE IF q # 0 THEN (IF c = q THEN DtScan(t, p + 1, depth, 0) ELSE IF c \in {60, 62} THEN 0 ELSE DtScan(t, p + 1, depth, q))
    ELSE IF c \in {34, 39} THEN DtScan(t, p + 1, depth, c)
    ELSE IF c = 60 THEN (IF At(t, p + 1) = 33 /\ At(t, p + 2) \in 65..90 THEN DtScan(t, p + 1, depth + 1, 0) ELSE 0)
    ELSE IF c = 62 THEN (IF depth = 0 THEN p + 1 ELSE DtScan(t, p + 1, depth - 1, 0))
    ELSE DtScan(t, p + 1, depth, 0)
\* white space, comments, PIs (and one DOCTYPE if dt) between the markup at top level; position of what follows, 0 = malformed
RECURSIVE Misc(_, _, _)
Misc(t, p, dt) ==
    LET p1 == SkipWs(t, p) IN
    IF StartsWith(t, p1, S_cmtOpen) THEN (LET q == CommentEnd(t, p1) IN IF q = 0 THEN 0 ELSE Misc(t, q, dt))
    ELSE IF StartsWith(t, p1, S_piOpen) THEN (LET q == PIEnd(t, p1) IN IF q = 0 THEN 0 ELSE Misc(t, q, dt))
    ELSE IF dt /\ StartsWith(t, p1, S_doctype) /\ IsWs(At(t, p1 + 9))
         THEN (LET q == DtScan(t, p1 + 9, 0, 0) IN IF q = 0 THEN 0 ELSE Misc(t, q, FALSE))
    ELSE p1
MaxRecDepth == 200
RECURSIVE Element(_, _, _)
RECURSIVE Content(_, _, _, _, _, _, _)
Element(t, p, d) ==
    IF At(t, p) # 60 \/ ~NameStart(At(t, p + 1)) \/ d > MaxRecDepth THEN Fail
    ELSE LET e  == NameEnd(t, p + 1)
             nm == SubSeq(t, p + 1, e - 1)
             ar == Attrs(t, e, <<>>)
         IN IF ~ar.ok THEN Fail
            ELSE IF ar.v.self THEN Ok(Elem(nm, ar.v.a, <<>>), ar.p)
            ELSE Content(t, ar.p, nm, ar.v.a, <<>>, "none", d)
Content(t, p, nm, at, kids, lt, d) ==
    LET c == At(t, p)
        ltc == IF lt = "txt" THEN "txtc" ELSE IF lt = "ws" THEN "wsc" ELSE lt
    IN
    IF c = 0 THEN Fail
    ELSE IF c # 60 THEN
        LET r == Chars(t, p, <<>>, 0) IN
        IF ~r.ok THEN Fail
        ELSE IF (lt = "txtc" /\ WsOnly(r.v)) \/ (lt = "wsc" /\ ~WsOnly(r.v)) THEN Fail          \* outside the subset
        ELSE Content(t, r.p, nm, at, Append(kids, Txt(r.v)), IF WsOnly(r.v) THEN "ws" ELSE "txt", d)
    ELSE IF StartsWith(t, p, S_cmtOpen) THEN (LET q == CommentEnd(t, p) IN IF q = 0 THEN Fail ELSE Content(t, q, nm, at, kids, ltc, d))
    ELSE IF StartsWith(t, p, S_piOpen) THEN (LET q == PIEnd(t, p) IN IF q = 0 THEN Fail ELSE Content(t, q, nm, at, kids, ltc, d))
    ELSE IF StartsWith(t, p, S_endOpen) THEN
        (IF StartsWith(t, p + 2, nm \o <<62>>) THEN Ok(Elem(nm, at, kids), p + 3 + Len(nm)) ELSE Fail)
    ELSE LET r == Element(t, p, d + 1) IN
         IF ~r.ok THEN Fail ELSE Content(t, r.p, nm, at, Append(kids, r.v), "none", d)
Recognize(t) ==
    LET p0 == IF StartsWith(t, 1, S_xmldecl)
              THEN (IF IsWs(At(t, 6)) THEN (LET q == Find(t, 6, S_piClose) IN IF q = 0 THEN 0 ELSE q + 2) ELSE 0)
              ELSE 1
        p1 == IF p0 = 0 THEN 0 ELSE Misc(t, p0, TRUE)
    IN IF p1 = 0 THEN Fail
       ELSE LET r == Element(t, p1, 0) IN
            IF ~r.ok THEN Fail
            ELSE IF Misc(t, r.p, FALSE) = Len(t) + 1 THEN Ok(r.v, Len(t) + 1) ELSE Fail

-------------------------------------------------------------------------------
(* a serializer with the layout of Xml::encode *)
EscByte(b) == IF b \in {38, 60, 62, 39, 34} THEN Named(b) ELSE <<b>>
EscBytes(s) == Cat([i \in 1..Len(s) |-> EscByte(s[i])])
Tabs(n) == [i \in 1..n |-> 9]
RECURSIVE Enc(_, _, _)
Enc(e, f, lv) ==
    IF e.k = "t" THEN EscBytes(e.n)
    ELSE LET ind == IF f THEN Tabs(lv) ELSE <<>>
             nl  == IF f THEN <<10>> ELSE <<>>
             atx == Cat([i \in 1..Len(e.a) |-> <<32>> \o e.a[i][1] \o <<61, 34>> \o EscBytes(e.a[i][2]) \o <<34>>])
         IN IF e.c = <<>> THEN ind \o <<60>> \o e.n \o atx \o <<47, 62>> \o nl
            ELSE ind \o <<60>> \o e.n \o atx \o <<62>>
                 \o (IF f /\ e.c[1].k # "t" THEN <<10>> ELSE <<>>)
                 \o Cat([i \in 1..Len(e.c) |-> Enc(e.c[i], f, lv + 1)])
                 \o (IF f /\ e.c[Len(e.c)].k # "t" THEN ind ELSE <<>>)
                 \o S_endOpen \o e.n \o <<62>> \o nl

-------------------------------------------------------------------------------
(* properties of the specification: the three formulations agree *)
TypeOK == /\ phase \in {"pre", "pre2", "in", "post", "bad", "bad2"}
          /\ \A i \in 1..Len(text) : text[i] \in 1..255
          /\ phase = "post" => root # NoTree
          /\ root # NoTree => phase \in {"post", "bad", "bad2"}
          /\ phase = "in" => stack # <<>>
Rec == Recognize(text)
\* a complete generated document is recognized, as the tree the generator built
GenRecAgree  == phase = "post" => (Rec.ok /\ Normalize(Rec.v) = Normalize(root))
\* a prefix that ends before the root element is closed is not a document
PrefixNotDoc == phase \in {"pre", "pre2", "in"} => ~Rec.ok
\* surplus and mismatched end tags make the text ill-formed
BadRejected  == phase \in {"bad", "bad2"} => ~Rec.ok
\* serializing any generated tree and reading it back gives the same tree up to Normalize; in the indented form when
\* text occurs only as the sole child of its element
EncodeRoundTrip == phase = "post" =>
    /\ LET r == Recognize(Enc(root, FALSE, 0)) IN r.ok /\ Normalize(r.v) = Normalize(root)
    /\ SoleText(root) => LET r == Recognize(Enc(root, TRUE, 0)) IN r.ok /\ Normalize(r.v) = Normalize(root)

-------------------------------------------------------------------------------
(* one replay case per transition *)
KindOf(ph) == IF ph = "post" THEN "doc" ELSE IF ph \in {"bad", "bad2"} THEN "bad" ELSE "prefix"
Emit == PrintT(ToJson(
          IF phase' = "post"
          THEN [kind |-> "doc", text |-> text', exp |-> Normalize(root'), tree |-> root', sole |-> SoleText(root'),
                enc |-> Enc(root', FALSE, 0), enci |-> IF SoleText(root') THEN Enc(root', TRUE, 0) ELSE <<>>, hz |-> hz', act |-> act']
          ELSE [kind |-> KindOf(phase'), text |-> text', hz |-> hz', act |-> act']))

-------------------------------------------------------------------------------
(* constant values a .cfg file cannot spell *)
V(style, q, w, eq) == [style |-> style, q |-> q, w |-> w, eq |-> eq]
NamesSmall     == {<<97>>, <<98, 58, 99, 45, 49, 46, 120>>}
NamesLarge     == NamesSmall \cup {<<95, 195, 169>>}
AttrNamesSmall == {<<120>>, <<121, 58, 122>>}
ValuesSmall    == {<<>>, <<38, 60, 62, 34, 39>>, <<32, 10, 233>>}
ValuesLarge    == ValuesSmall \cup {<<118>>, <<RawBase + 255, 9, 8364>>}
TextsSmall     == {<<116>>, <<32>>, <<32, 38, 60, 62, 34, 39, 10>>, <<233, 8364, 128512>>}
TextsLarge     == TextsSmall \cup {<<10, 9>>, <<RawBase + 200, 93, 93, 62>>}
VariantsSmall  == {V("enc", 34, <<32>>, <<61>>), V("min", 39, <<10, 9>>, <<32, 61, 32>>), V("hex", 34, <<32>>, <<61>>)}
VariantsLarge  == VariantsSmall \cup {V("dec", 39, <<32, 32>>, <<61, 10>>)}
CommentsSmall  == {<<32, 99, 32>>}
CommentsLarge  == {<<>>, <<32, 99, 32>>, <<60, 98, 62, 38>>}
PIsSmall       == {<<112>>}
PIsLarge       == {<<112>>, <<112, 105, 32, 120, 61, 34, 49, 34, 32, 62>>}
DoctypesSmall  == {<<60,33,68,79,67,84,89,80,69,32,97,32,91,60,33,69,76,69,77,69,78,84,32,97,32,40,98,41,62,93,62>>}
DoctypesLarge  == DoctypesSmall \cup {<<60,33,68,79,67,84,89,80,69,32,97,62>>,
                                      <<60,33,68,79,67,84,89,80,69,32,97,32,83,89,83,84,69,77,32,34,97,46,100,116,100,34,62,10>>}
DeclsSmall     == {<<60,63,120,109,108,32,118,101,114,115,105,111,110,61,34,49,46,48,34,63,62>>}
DeclsLarge     == DeclsSmall \cup {<<60,63,120,109,108,32,118,101,114,115,105,111,110,61,34,49,46,48,34,32,101,110,99,111,100,105,110,103,61,34,85,84,70,45,56,34,63,62,10>>}
\* minimal alphabets for the configuration that explores structure (depth, mixed content) rather than lexical variety
NamesOne       == {<<97>>}
AttrNamesOne   == {<<120>>}
ValuesOne      == {<<38, 34, 233>>}
TextsTwo       == {<<116, 60>>, <<32>>}
VariantsOne    == {V("enc", 34, <<32>>, <<61>>)}
TopWsSmall     == {<<10>>}
TopWsLarge     == {<<10>>, <<32, 9>>}
===============================================================================
