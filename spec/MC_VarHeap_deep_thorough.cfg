SPECIFICATION Spec
CONSTANTS
 NR = 2
 MaxNodes = 4
 MaxDepth = 2
 MaxItems = 2
 ScalarIds = {5,12}
 KeyIds = {1}
 MaxOps = 4
 KeepHist = TRUE
VIEW View
ACTION_CONSTRAINT Emit
INVARIANTS TypeOK RcOK NoDangling Acyclic ObjSorted
PROPERTIES AssignOK ScalarOK CloneOK Independent
CHECK_DEADLOCK FALSE
