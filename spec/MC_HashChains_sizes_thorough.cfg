SPECIFICATION Spec
CONSTANTS
 NH = 2
 K = {0,1,4,5}
 V = {1}
 MaxOps = 5
 NB0 = 2
 MapOps = TRUE
 HeadBug = FALSE
 EqLockstep = FALSE
 AllowSharedRehash = FALSE
 Sizes = {0,5}
 ZeroBins = FALSE
 SelfAssignClears = FALSE
VIEW View
ACTION_CONSTRAINT Emit
INVARIANTS BinsOK Refines LengthOK ChainsOK LookupOK SharingOK EqualOK GhostOK
CHECK_DEADLOCK FALSE
