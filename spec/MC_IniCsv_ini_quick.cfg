SPECIFICATION Spec
CONSTANTS
 Part = "ini"
 IniLines <- LinesQ
 MaxLines = 3
 SetNames <- NamesQ
 SetValues <- Values
 MaxSets = 2
 Cells <- NoCells
 MaxCols = 1
 MaxCells = 0
ACTION_CONSTRAINT Emit
INVARIANTS RefWriterOK
CHECK_DEADLOCK FALSE
