SPECIFICATION Spec
CONSTANTS
 YLo = 10000
 YHi = 10400
 ChunkYears = 50
 Dense = FALSE
VIEW View
ACTION_CONSTRAINT Emit
INVARIANTS Agree YearLength
CHECK_DEADLOCK FALSE
