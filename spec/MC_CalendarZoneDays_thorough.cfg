SPECIFICATION Spec
CONSTANTS
 YLo = 1960
 YHi = 2059
 ChunkYears = 4
 Extra = {1, 2, 400, 1000, 1582, 1600, 1700, 1800, 1900, 2100, 2200, 2300, 2400, 4000, 8000, 9998, 9999}
 RuleSet = {1, 2, 3, 4, 5, 6, 7, 8}
VIEW View
ACTION_CONSTRAINT Emit
INVARIANTS CalendarAgree DstAgree ChangeAgree OffsetSteps GapAndOverlap LocalBijection LocalTextReadsBack
CHECK_DEADLOCK FALSE
