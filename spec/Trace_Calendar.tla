---------------------------- MODULE Trace_Calendar ----------------------------
(* V binding for C19: validates executions recorded from the real asl::Date (harness/c19_record.cpp) with the
   operators of Calendar.tla.  One ndjson line per public call; instants are logged as [dn, sod, us] (day number,
   second of day, microsecond - projected from the double the Date holds), texts as arrays of character codes.

     split : Date(t).splitUTC()                      f = [y, m, d, h, mi, s, wd]
     make  : Date(UTC, y, m, d, h, mi, s).time()     for valid fields
     text  : Date(t).toUTCString(fmt)
     read  : Date(String)                            ok = 1 valid, 0 invalid (NaN), 2 valid but outside +-1e14 s
     pread : Date(text, format)                      (format-driven reading; TZ=UTC)

   asl::Date resolves an instant to the millisecond.  For an instant off the millisecond grid the fields / text may be
   those of the instant rounded to the nearest millisecond or of the truncated one, but all of them must belong to
   the same resolved instant (date, time of day and week day cannot come from different days).
   For "read" the spec vouches only for the strings Read() accepts; every other string may give anything.     *)
EXTENDS Calendar, Json, IOUtils, TLC

T == ndJsonDeserialize(IOEnv.TRACE)
VARIABLE l

I3(a) == Inst(a[1], a[2], a[3])
FSeq(f) == <<f.y, f.m, f.d, f.h, f.mi, f.s, f.wd>>
Resolved(i) == {RoundMilli(i), TruncMilli(i)}
\* years 1..9999, plus one day on either side (a double next to the last microsecond of the range may round across it)
InRange(i) == i.dn \in -719163..2932897 /\ i.sod \in 0..86399 /\ i.us \in 0..999999

FormatResolved(fmt, r) ==
    LET f == Fields(r) IN
    CASE fmt = "LONG"  -> ExtText(f) \o <<cZ>>
      [] fmt = "SHORT" -> BasicText(f) \o <<cZ>>
      [] fmt = "FULL"  -> ExtText(f) \o <<cDot>> \o Pad3(r.us \div 1000) \o <<cZ>>
      [] fmt = "HTTP"  -> HttpText(f)
\* consistency of the two formulations in Calendar.tla
ASSUME \A fmt \in Formats : FormatResolved(fmt, RoundMilli(Inst(11016, 86399, 999600))) = FormatUTC(fmt, Inst(11016, 86399, 999600))

SplitOK(e) == LET i == I3(e.i) IN InRange(i) /\ \E r \in Resolved(i) : e.f = FSeq(Fields(r))
MakeOK(e) == /\ ValidDate(e.f[1], e.f[2], e.f[3]) /\ e.f[4] \in 0..23 /\ e.f[5] \in 0..59 /\ e.f[6] \in 0..59
             /\ I3(e.i) = InstantOf(e.f[1], e.f[2], e.f[3], e.f[4], e.f[5], e.f[6])
TextOK(e) == LET i == I3(e.i) IN InRange(i) /\ e.fmt \in Formats /\ \E r \in Resolved(i) : e.t = FormatResolved(e.fmt, r)
ReadOK(e) == LET r == Read(e.t) IN r.ok => (e.ok = 1 /\ Near(I3(e.i), r.i, 100))
PatReadOK(e) == LET r == ReadPattern(e.t, e.f) IN r.ok => (e.ok = 1 /\ I3(e.i) = r.i)

TInit == l = 1
TStep ==
  /\ l <= Len(T)
  /\ l' = l + 1
  /\ LET e == T[l] IN
     \/ e.e = "reset"
     \/ e.e = "split" /\ SplitOK(e)
     \/ e.e = "make" /\ MakeOK(e)
     \/ e.e = "text" /\ TextOK(e)
     \/ e.e = "read" /\ ReadOK(e)
     \/ e.e = "pread" /\ PatReadOK(e)

TraceSpec == TInit /\ [][TStep]_l
TraceAccepted == TLCGet("stats").diameter - 1 = Len(T)
===============================================================================
