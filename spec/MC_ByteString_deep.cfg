SPECIFICATION Spec
CONSTANTS
 NV = 1
 Lens = {1, 15, 16, 24}
 Pieces = {15, 16}
 Ints <- IntsA
 MaxTotal = 50
 MaxOps = 4
 KeepHist = TRUE
VIEW View
ACTION_CONSTRAINT Emit
INVARIANTS TypeOK HwOK
PROPERTIES Independence Identities
CHECK_DEADLOCK FALSE
