--------------------------------- MODULE ParFor ---------------------------------
(* C13 - Thread::parallel_for(i0, i1, f, nth), nested parallel_for, ThreadGroup and parallel_invoke.

   Property level: f is invoked exactly once for every index of [i0, i1) and for no other index; every member of
   a ThreadGroup / every function of parallel_invoke has run exactly once when the call returns.
   Implementation shaped: the library starts n = min(nth, i1-i0) workers, worker k takes i0+k, i0+k+n, ...;
   PartitionOK states that these shares partition the range for every (i0, i1, nth) of the grid - checked by TLC
   as an assumption over the whole grid (design level) - and the walk below emits one case per grid point for the
   replayer (harness/c13_threads.cpp), which counts the real invocations per index.                              *)
EXTENDS Integers, Sequences, FiniteSets, TLC, Json

CONSTANTS LoNeg, Hi, MaxN, MaxGroup, MaxNest
Lo == 0 - LoNeg     \* (TLC configuration files cannot hold negative numbers)

Min2(a, b) == IF a < b THEN a ELSE b
IdxRange(i0, i1) == i0..(i1 - 1)
NWorkers(i0, i1, nth) == Min2(nth, i1 - i0)
Share(i0, i1, nth, k) == {i \in IdxRange(i0, i1) : (i - i0) % NWorkers(i0, i1, nth) = k}

PartitionOK ==
  \A i0 \in Lo..Hi, i1 \in Lo..Hi, nth \in 1..MaxN :
     LET n == NWorkers(i0, i1, nth) IN
     IF n <= 0 THEN IdxRange(i0, i1) = {}
     ELSE /\ UNION {Share(i0, i1, nth, k) : k \in 0..(n - 1)} = IdxRange(i0, i1)
          /\ \A k1 \in 0..(n - 1), k2 \in 0..(n - 1) : k1 # k2 => Share(i0, i1, nth, k1) \cap Share(i0, i1, nth, k2) = {}
ASSUME PartitionOK

VARIABLES phase, i0, i1, n
vars == <<phase, i0, i1, n>>

Expected(a, b) == [j \in 1..(IF b > a THEN b - a ELSE 0) |-> a + j - 1]

Init == phase = "pfor" /\ i0 = Lo /\ i1 = Lo /\ n = 1

NextPfor == /\ phase = "pfor"
            /\ IF n < MaxN THEN n' = n + 1 /\ UNCHANGED <<i0, i1, phase>>
               ELSE IF i1 < Hi THEN n' = 1 /\ i1' = i1 + 1 /\ UNCHANGED <<i0, phase>>
               ELSE IF i0 < Hi THEN n' = 1 /\ i1' = Lo /\ i0' = i0 + 1 /\ UNCHANGED phase
               ELSE phase' = "group" /\ i0' = 1 /\ i1' = 0 /\ n' = 0
\* group: i0 = members, i1 = work level
NextGroup == /\ phase = "group"
             /\ IF i1 < 2 THEN i1' = i1 + 1 /\ UNCHANGED <<i0, n, phase>>
                ELSE IF i0 < MaxGroup THEN i0' = i0 + 1 /\ i1' = 0 /\ UNCHANGED <<n, phase>>
                ELSE phase' = "invoke" /\ i0' = 2 /\ i1' = 0 /\ n' = 0
NextInvoke == /\ phase = "invoke"
              /\ IF i0 < 4 THEN i0' = i0 + 1 /\ UNCHANGED <<i1, n, phase>>
                 ELSE phase' = "nest" /\ i0' = 0 /\ i1' = 0 /\ n' = 0
\* nest: parallel_for(0, i0, [..](int i) { parallel_for(0, i1, g(i, .), n2) }, n1) with n = 3 * (n1 - 1) + (n2 - 1);
\* the outer range may be shorter than its thread count and either range may be empty
NextNest == /\ phase = "nest"
            /\ IF n < 8 THEN n' = n + 1 /\ UNCHANGED <<i0, i1, phase>>
               ELSE IF i1 < MaxNest THEN n' = 0 /\ i1' = i1 + 1 /\ UNCHANGED <<i0, phase>>
               ELSE IF i0 < MaxNest THEN n' = 0 /\ i1' = 0 /\ i0' = i0 + 1 /\ UNCHANGED phase
               ELSE phase' = "done" /\ UNCHANGED <<i0, i1, n>>
Next == NextPfor \/ NextGroup \/ NextInvoke \/ NextNest
Spec == Init /\ [][Next]_vars

\* pairs (i, j) coded 8 * i + j: the nested loops visit every pair of [0,a) x [0,b) exactly once
NestExpected(a, b) == [j \in 1..(a * b) |-> 8 * ((j - 1) \div b) + ((j - 1) % b)]
Work(l) == IF l = 0 THEN 0 ELSE IF l = 1 THEN 2000 ELSE 200000
CaseOf == IF phase = "pfor" THEN [k |-> "pfor", i0 |-> i0, i1 |-> i1, n |-> n, exp |-> Expected(i0, i1)]
          ELSE IF phase = "group" THEN [k |-> "group", m |-> i0, work |-> Work(i1), exp |-> [j \in 1..i0 |-> 1]]
          ELSE IF phase = "invoke" THEN [k |-> "invoke", m |-> i0, exp |-> [j \in 1..4 |-> IF j <= i0 THEN 1 ELSE 0]]
          ELSE [k |-> "nest", a |-> i0, b |-> i1, n1 |-> (n \div 3) + 1, n2 |-> (n % 3) + 1, exp |-> NestExpected(i0, i1)]
\* every emitted expectation is consistent with the implementation-shaped partition
CaseOK == /\ phase = "pfor" =>
               LET m == NWorkers(i0, i1, n) IN
               Len(Expected(i0, i1)) = (IF m <= 0 THEN 0 ELSE Cardinality(UNION {Share(i0, i1, n, k) : k \in 0..(m - 1)}))
          \* nested: the partition of the outer range composed with the partition of the inner range covers the product once
          /\ phase = "nest" =>
               LET n1 == (n \div 3) + 1  n2 == (n % 3) + 1
                   mo == NWorkers(0, i0, n1)  mi == NWorkers(0, i1, n2)
                   pairs == IF mo <= 0 \/ mi <= 0 THEN {}
                            ELSE UNION {{8 * i + j : i \in Share(0, i0, n1, ko), j \in Share(0, i1, n2, ki)} : ko \in 0..(mo - 1), ki \in 0..(mi - 1)}
               IN /\ pairs = {NestExpected(i0, i1)[x] : x \in 1..(i0 * i1)}
                  /\ Cardinality(pairs) = i0 * i1
Emit == IF phase # "done" THEN PrintT(ToJson(CaseOf)) ELSE TRUE
EmitInv == Emit
===============================================================================
