SPECIFICATION Spec
CONSTANTS
 P = 3
 N = 3
 NSq = 19683
 NMul = 64
 NLsqA = 700
 NLsqB = 12
ACTION_CONSTRAINT Emit
INVARIANTS InverseIdentity TwoFormulations SolveIdentity DetProduct NormalEquations
CHECK_DEADLOCK FALSE
