--------------------------- MODULE Trace_HttpExchange ---------------------------
(* V binding for C10: validates recorded concurrent HTTP exchanges (harness/c10_record.cpp) against HttpExchange.
   send   : a client is about to send request `id` (descriptor req, and the response descriptor resp the handler will
            be told to produce); the target bytes it puts on the wire must percent-decode to the
            request's path and query (RawTarget);
   (handle and recv carry ms, the wall time of the exchange: see Slow below)
   handle : what the server-side handler observed for `id` must be HandlerView(req) - method, decoded path, query
            (as a set of pairs), headers looked up in three capitalisations, body length and hash - exactly once;
   recv   : what the client observed for `id` must be ClientView(resp) - status, headers, body length and hash.
   Because every request carries its own random response descriptor, a response delivered to the wrong client, or a
   keep-alive sequence answered out of order, cannot satisfy recv.                                               *)
EXTENDS HttpExchange, IOUtils

T == ndJsonDeserialize(IOEnv.TRACE)
VARIABLES l, sent, handled, received
vars == <<l, sent, handled, received>>

Init == l = 1 /\ sent = <<>> /\ handled = {} /\ received = {}

PairSet(q) == {q[i] : i \in 1..Len(q)}
ReqOf(e) == [method |-> e.req.method, segs |-> e.req.segs, query |-> e.req.query, headers |-> e.req.headers,
             blen |-> e.req.blen, bseed |-> 0]
(* Wall time.  Every exchange-type event carries ms, the wall milliseconds the exchange took on the recording machine.  The
   library ends exchanges by itself after fixed times (HttpServer drops a connection 10 s after accepting it and waits 5 s
   for data; HttpMessage::readBody hands over a truncated body after 10 s without input): design decisions of asl that this
   property does not forbid and that fire on an overloaded machine.  An event with ms >= SlowMs (far above a normal exchange
   of a few ms, well below those limits) is therefore consumed without constraining what was observed; everything else is
   checked exactly as before.  checks/C10.py bounds the number of slow events per recording (a server that does not answer
   is still reported).                                                                                                    *)
SlowMs == 4000
Slow(e) == "ms" \in DOMAIN e /\ e.ms >= SlowMs

RespOf(e) == [code |-> e.resp.code, headers |-> e.resp.headers, kind |-> IF e.resp.fsize >= 0 THEN "file" ELSE "bytes",
              blen |-> e.resp.blen, bseed |-> 0, json |-> 0, fsize |-> e.resp.fsize]

Step ==
  /\ l <= Len(T) /\ l' = l + 1
  /\ LET e == T[l] IN
     \/ /\ e.e = "reset" /\ sent' = <<>> /\ handled' = {} /\ received' = {}
     \/ /\ e.e = "send" /\ e.id \notin DOMAIN sent
        /\ PctDec(e.target) = RawTarget(ReqOf(e))         \* the target on the wire is some percent-encoding of the request
        /\ PctDec(Target(ReqOf(e))) = RawTarget(ReqOf(e)) \* (and so is the specification's canonical one)
        /\ sent' = sent @@ (e.id :> e) /\ UNCHANGED <<handled, received>>
     \/ /\ e.e = "handle" /\ e.id \in DOMAIN sent /\ e.id \notin handled
        /\ LET s == sent[e.id]  hv == HandlerView(ReqOf(s)) IN
           \/ Slow(e)
           \/ /\ e.times = 1
              /\ e.view.method = hv.method
              /\ e.view.path = hv.path
              /\ PairSet(e.view.query) = PairSet(hv.query) /\ Len(e.view.query) = Cardinality(PairSet(hv.query))
              /\ e.view.headers = hv.headers
              /\ e.view.blen = hv.blen /\ e.view.bh = s.req.bh
        /\ handled' = handled \cup {e.id} /\ UNCHANGED <<sent, received>>
     \/ /\ e.e = "recv" /\ e.id \in handled /\ e.id \notin received
        /\ LET s == sent[e.id]  cv == ClientView(RespOf(s), <<>>) IN
           \/ Slow(e)
           \/ /\ e.view.code = cv.code
              /\ e.view.headers = cv.headers
              /\ e.view.blen = cv.blen /\ e.view.bh = s.resp.bh
        /\ received' = received \cup {e.id} /\ UNCHANGED <<sent, handled>>

TraceSpec == Init /\ [][Step]_vars
TraceAccepted == TLCGet("stats").diameter - 1 = Len(T)
=============================================================================
