SPECIFICATION Spec
CONSTANTS
 Names = {"Dog", "Kitty", "Bird", "Fish", "Nope"}
 Classes = {"Dog", "Cat", "Bird"}
 AddNames = {"Bird", "Fish"}
 MaxOps = 3
 KeepHist = TRUE
VIEW View
ACTION_CONSTRAINT Emit
INVARIANTS TypeOK StaticStay InfoOnlyRegistered
PROPERTIES Monotone
CHECK_DEADLOCK FALSE
