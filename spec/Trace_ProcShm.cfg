SPECIFICATION TraceSpec
CONSTANTS
 Names = {1, 2, 3, 4, 5, 6, 7, 8, 9, 10, 11, 12, 13, 14, 15, 16, 17, 18, 19, 20, 21, 22, 23, 24, 25, 26, 27, 28, 29, 30, 31, 32, 33, 34, 35, 36, 37, 38, 39, 40}
 Objs = {1, 2, 3}
 Size = 64
 Vals = {}
 MaxOps = 0
INVARIANTS TypeOK Attached NoReuse
POSTCONDITION TraceAccepted
CHECK_DEADLOCK FALSE
