SPECIFICATION SpecApi
CONSTANTS
 NR = 2
 MaxNodes = 3
 MaxDepth = 0
 MaxItems = 2
 ScalarIds = {1,2,3,5,7,8,9,11,12,14,19,21,22,24}
 KeyIds = {1}
 MaxOps = 3
 KeepHist = TRUE
 OpSet = {"assignScalar","assignFrom","appendScalar","assignC","indexInt","clone","removeAt","assignKind"}
 WideObs = TRUE
VIEW ViewApi
ACTION_CONSTRAINT EmitApi
INVARIANTS TypeOK RcOK NoDangling Acyclic ObjSorted EnumOK
PROPERTIES AssignOK ScalarOK CloneOK Independent TypedOK EnumShapeOK
CHECK_DEADLOCK FALSE
