------------------------------- MODULE HttpStatic -------------------------------
(* C10 (growth) - static files through HttpServer::serveFile / setRoot, as (request on a small file tree) -> response,
   and the tree as state: files are rewritten and removed between requests, a caching client revalidates.

   The tree: directories Dirs (paths = sequences of names), files Files[f] = [dir, name, ext, size].  The files in
   Mutable change: fs[f] = [present, ver, mtime]; content and size are functions of (f, ver), the modification time is
   in whole seconds (what a POSIX file system reports and what HTTP dates can carry).
   A request is [method, segs, slash, ims, range, follow, cc]:
       segs/slash  the path "/" + segs joined by "/" (+ "/" when slash)
       ims         If-Modified-Since as seconds since the epoch; NoIms = header absent; BadIms = text that is not a date
       range       <<>> or <<b, e>> ("bytes=b-e"; e = -1: "bytes=b-")
       follow      the library client follows redirections
       cc          a Cache-Control value the application sets before calling serveFile ("" = it does not)
   Serve(fs, req) is the response:
       - methods other than GET are not implemented (501)
       - a path ending in "/" names index.html of that directory
       - a directory without the trailing "/" is redirected (301) to the same path with "/" on the host of the Host header
       - an existing file: 304 without body if it was not modified after the If-Modified-Since date, else 200 (206/416 for a
         byte range) with the bytes, Content-Type by extension (Mime; types added with addMimeType), Last-Modified = the
         modification time (an instant: HTTP dates are GMT whatever zone the server runs in - the bindings run the servers
         8 h east and 3.5 h west of Greenwich), a Date, and a Cache-Control (the application's if it set one)
       - anything else: 404
   The state machine adds Write/Delete and a client cache kept with Last-Modified / If-Modified-Since; CacheCoherent is
   the reason conditional requests exist: a copy that has just been revalidated is the current version of the file.
   Bindings: R  MC_HttpStatic_*.cfg print every history (operations + responses) -> harness/c10_site_replay.cpp builds the
   tree in a real directory under /verif/build/tmp, applies the operations and compares every response;
   V  Trace_HttpStatic.tla validates recorded concurrent fetches.                                                    *)
EXTENDS HttpExchange, Integers

CONSTANTS ReqSet,      \* requests tried by Get
          ImsFiles,    \* files fetched with If-Modified-Since relative to their modification time
          Deltas,      \* ... at these distances (seconds)
          Mutable,     \* files that are rewritten / removed
          Dts,         \* seconds between a modification and the previous one (>= 1: see CacheCoherent)
          Slack,       \* 0.  (1 = the rule of the pinned code, "not modified if mtime <= date + 1 s": MC_HttpStatic_slack.cfg
                       \*      shows that TLC refutes CacheCoherent for it - a file rewritten in the next second stays stale)
          MaxOps

T0 == 1700000000
NoIms == -1
BadIms == -2

F(dir, name, ext, size) == [dir |-> dir, name |-> name, ext |-> ext, size |-> size]
Dirs == {<<>>, <<"docs">>, <<"docs", "sub">>, <<"empty">>}
Files == << F(<<>>, "index.html", "html", 120),  F(<<>>, "a.txt", "txt", 10),          F(<<>>, "style.css", "css", 33),
            F(<<>>, "app.js", "js", 40),         F(<<>>, "data.json", "json", 20),     F(<<>>, "pic.png", "png", 70000),
            F(<<>>, "photo.jpg", "jpg", 16000),  F(<<>>, "photo2.jpeg", "jpeg", 16001), F(<<>>, "anim.gif", "gif", 1),
            F(<<>>, "zero.txt", "txt", 0),       F(<<"docs">>, "index.html", "html", 50), F(<<"docs">>, "page.htm", "htm", 60),
            F(<<"docs", "sub">>, "deep.xml", "xml", 25), F(<<>>, "blob.bin", "bin", 300), F(<<>>, "README", "", 15),
            F(<<>>, "movie.mp4", "mp4", 15999),  F(<<>>, "clip.webm", "webm", 5),      F(<<>>, "v.ogv", "ogv", 6) >>
FileIds == 1..Len(Files)
Mime == [html |-> "text/html", htm |-> "text/html", css |-> "text/css", js |-> "application/javascript",
         json |-> "application/json", png |-> "image/png", jpg |-> "image/jpeg", jpeg |-> "image/jpeg", gif |-> "image/gif",
         txt |-> "text/plain", xml |-> "text/xml", mp4 |-> "video/mp4", webm |-> "video/webm", ogv |-> "video/ogg",
         bin |-> "application/octet-stream"]          \* bin: added by the application with addMimeType("bin", ...)
AddedMime == << [ext |-> "bin", type |-> Mime["bin"]] >>
PathOfFile(f) == Files[f].dir \o <<Files[f].name>>
SizeOf(f, ver) == Files[f].size + ver

Req(m, segs, slash, ims, range, follow, cc) ==
    [method |-> m, segs |-> segs, slash |-> slash, ims |-> ims, range |-> range, follow |-> follow, cc |-> cc]
FileReq(f, ims) == Req("GET", PathOfFile(f), FALSE, ims, <<>>, FALSE, "")

\* the file a path names in tree state s (0 = none)
FileAt(s, p) == IF \E f \in FileIds : PathOfFile(f) = p /\ s[f].present
                THEN CHOOSE f \in FileIds : PathOfFile(f) = p /\ s[f].present ELSE 0

NoBody == [k |-> "none", f |-> 0, ver |-> 0, from |-> 0, len |-> 0, size |-> 0]
AnyBody == [k |-> "any", f |-> 0, ver |-> 0, from |-> 0, len |-> 0, size |-> 0]
Res(code, ctype, lm, loc, body, cc) == [code |-> code, ctype |-> ctype, lm |-> lm, loc |-> loc, body |-> body, cc |-> cc]
NotFound == Res(404, "", -1, <<>>, AnyBody, "")

ServeFile(s, f, req) ==
    LET size == SizeOf(f, s[f].ver)
        ctype == IF Files[f].ext = "" THEN "" ELSE Mime[Files[f].ext]            \* "" = not prescribed
        cc == IF req.cc = "" THEN "*" ELSE req.cc                                  \* "*" = some value
    IN IF req.ims >= 0 /\ s[f].mtime <= req.ims + Slack
       THEN Res(304, "", -1, <<>>, NoBody, "")
       ELSE IF req.range # <<>>
       THEN IF RangeOK(size, req.range[1], req.range[2])
            THEN Res(206, ctype, s[f].mtime, <<>>, [k |-> "file", f |-> f, ver |-> s[f].ver, from |-> req.range[1],
                                                     len |-> RangeEnd(size, req.range[2]) - req.range[1] + 1, size |-> size], cc)
            ELSE Res(416, "", -1, <<>>, NoBody, "")
       ELSE Res(200, ctype, s[f].mtime, <<>>, [k |-> "file", f |-> f, ver |-> s[f].ver, from |-> 0, len |-> size, size |-> size], cc)

Serve1(s, req) ==
    IF req.method # "GET" THEN Res(501, "", -1, <<>>, AnyBody, "")
    ELSE IF req.slash
         THEN IF req.segs \in Dirs /\ FileAt(s, req.segs \o <<"index.html">>) # 0
              THEN ServeFile(s, FileAt(s, req.segs \o <<"index.html">>), req) ELSE NotFound
         ELSE IF req.segs \in Dirs THEN Res(301, "", -1, req.segs, AnyBody, "")     \* Location: the same path + "/"
         ELSE IF FileAt(s, req.segs) # 0 THEN ServeFile(s, FileAt(s, req.segs), req)
         ELSE NotFound
\* with a client that follows redirections the 301 of a directory leads to its index
Serve(s, req) == LET r == Serve1(s, req) IN
                 IF req.follow /\ r.code = 301 THEN Serve1(s, [req EXCEPT !.slash = TRUE]) ELSE r

-----------------------------------------------------------------------------
VARIABLES fs, clock, cache, fresh, hist
vars == <<fs, clock, cache, fresh, hist>>

NoCopy == [has |-> FALSE, lm |-> 0, ver |-> 0]
Init == /\ fs = [f \in FileIds |-> [present |-> TRUE, ver |-> 0, mtime |-> T0]]
        /\ clock = T0 /\ cache = [f \in Mutable |-> NoCopy] /\ fresh = {} /\ hist = <<>>

Room == Len(hist) < MaxOps
Write(f, dt) == /\ Room /\ f \in Mutable
                /\ clock' = clock + dt
                /\ fs' = [fs EXCEPT ![f] = [present |-> TRUE, ver |-> @.ver + 1, mtime |-> clock + dt]]
                /\ fresh' = fresh \ {f} /\ UNCHANGED cache
                /\ hist' = Append(hist, [op |-> "write", f |-> f, ver |-> fs[f].ver + 1, size |-> SizeOf(f, fs[f].ver + 1),
                                         mtime |-> clock + dt])
Delete(f) == /\ Room /\ f \in Mutable /\ fs[f].present
             /\ fs' = [fs EXCEPT ![f].present = FALSE]
             /\ fresh' = fresh \ {f} /\ UNCHANGED <<clock, cache>>
             /\ hist' = Append(hist, [op |-> "delete", f |-> f])
\* the client's copy after response r to a request for the whole file f
Remember(f, r) == IF f \notin Mutable THEN cache
                  ELSE IF r.code = 200 THEN [cache EXCEPT ![f] = [has |-> TRUE, lm |-> r.lm, ver |-> r.body.ver]]
                  ELSE IF r.code = 304 THEN cache
                  ELSE [cache EXCEPT ![f] = NoCopy]
\* the file a GET request ends up at (0: none)
Resolved(s, req) == IF req.slash \/ (req.follow /\ req.segs \in Dirs)
                    THEN (IF req.segs \in Dirs THEN FileAt(s, req.segs \o <<"index.html">>) ELSE 0)
                    ELSE FileAt(s, req.segs)
Fetch(req, f) ==      \* f # 0: the client keeps the answer as its copy of file f (the request names f)
    LET r == Serve(fs, req)
        t == Resolved(fs, req) IN
    /\ Room
    /\ hist' = Append(hist, [op |-> "get", req |-> req, res |-> r, cur |-> IF t # 0 THEN fs[t].mtime ELSE 0])
    /\ cache' = IF f = 0 THEN cache ELSE Remember(f, r)
    /\ fresh' = IF f \in Mutable THEN (IF r.code \in {200, 304} THEN fresh \cup {f} ELSE fresh \ {f}) ELSE fresh
    /\ UNCHANGED <<fs, clock>>
Get(req) == Fetch(req, 0)
GetFile(f) == f \in Mutable /\ Fetch(FileReq(f, NoIms), f)
GetIms(f, d) == f \in ImsFiles /\ fs[f].present /\ Fetch(FileReq(f, fs[f].mtime + d), 0)
GetBadIms(f) == f \in ImsFiles /\ Fetch(FileReq(f, BadIms), 0)
Revalidate(f) == f \in Mutable /\ cache[f].has /\ Fetch(FileReq(f, cache[f].lm), f)

Next == \/ \E f \in Mutable, dt \in Dts : Write(f, dt)
        \/ \E f \in Mutable : Delete(f) \/ GetFile(f) \/ Revalidate(f)
        \/ \E req \in ReqSet : Get(req)
        \/ \E f \in ImsFiles : GetBadIms(f) \/ \E d \in Deltas : GetIms(f, d)
Spec == Init /\ [][Next]_vars

-----------------------------------------------------------------------------
Gets == {k \in 1..Len(hist) : hist[k].op = "get"}
TypeOK == \A k \in Gets : hist[k].res.code \in {200, 206, 301, 304, 404, 416, 501}
\* a copy that was fetched or revalidated after the last modification is the current version.  (Holds because
\* modifications are at least a second apart - Dts >= 1 - and a file is "not modified" only if its time is not after the date.)
CacheCoherent == \A f \in fresh : cache[f].has => (fs[f].present /\ cache[f].ver = fs[f].ver)
\* 304 is only said of a file that exists and whose modification time is not after the date sent
NotModifiedSound == \A k \in Gets : hist[k].res.code = 304 => (hist[k].req.ims >= 0 /\ hist[k].cur <= hist[k].req.ims + Slack)
\* a directory is never served as content; only GET yields content; bytes come with their type and time
ContentOnlyFromFiles == \A k \in Gets : hist[k].res.body.k = "file" =>
                            /\ hist[k].req.method = "GET" /\ hist[k].res.code \in {200, 206}
                            /\ hist[k].res.lm >= T0 /\ hist[k].res.body.from + hist[k].res.body.len <= SizeOf(hist[k].res.body.f, hist[k].res.body.ver)
\* redirection only for directories named without the trailing slash, to the same path
RedirectOnlyDirs == \A k \in Gets : hist[k].res.code = 301 => (hist[k].req.segs \in Dirs /\ ~hist[k].req.slash /\ ~hist[k].req.follow
                                                                 /\ hist[k].res.loc = hist[k].req.segs)

\* (hazard tag of the finding this specification exposed in the pinned code: the date is exactly one second before the change)
OneSecondLate(h) == h.req.method = "GET" /\ h.req.ims >= 0 /\ h.cur = h.req.ims + 1
View == <<fs, clock, cache, fresh, hist>>
Emit == IF hist' # hist /\ hist'[Len(hist')].op = "get"
        THEN PrintT(ToJson([kind |-> "static", mimes |-> AddedMime, files |-> Files, hist |-> hist',
                            hz |-> IF \E k \in 1..Len(hist') : hist'[k].op = "get" /\ OneSecondLate(hist'[k])
                                   THEN {"NotModifiedOneSecondSlack"} ELSE {}]))
        ELSE TRUE
=============================================================================
