SPECIFICATION Spec
CONSTANTS
 NR = 2
 MaxNodes = 4
 MaxDepth = 2
 MaxItems = 4
 ScalarIds = {5,7,11,12}
 KeyIds = {1,2}
 MaxOps = 3
 KeepHist = TRUE
VIEW View
ACTION_CONSTRAINT Emit
INVARIANTS TypeOK RcOK NoDangling Acyclic ObjSorted
PROPERTIES AssignOK ScalarOK CloneOK Independent
CHECK_DEADLOCK FALSE
