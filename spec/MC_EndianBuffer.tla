--------------------------- MODULE MC_EndianBuffer ---------------------------
(* constants of the EndianBuffer configurations (configuration files cannot spell tuples) *)
EXTENDS EndianBuffer
ChunksQ  == { <<7>>, <<1, 2, 3, 4, 5>> }
ChunksT  == { <<>>, <<7>>, <<1, 2, 3, 4, 5>>, <<0, 255, 0, 128, 9, 8, 7, 6, 5, 4, 3>> }
WindowsQ == { <<0, -1>>, <<1, -1>>, <<1, 2>> }
WindowsM == { <<0, -1>>, <<1, -1>>, <<1, 2>>, <<0, 0>> }
WindowsT == { <<0, -1>>, <<1, -1>>, <<1, 2>>, <<0, 0>>, <<3, 8>>, <<2, 4>> }
===============================================================================
