SPECIFICATION Spec
CONSTANTS
 Type = "hashmap"
 NT = 3
 NO = 2
 NS = 3
 MaxOps = 1
VIEW View
ACTION_CONSTRAINT Emit
INVARIANTS NoUseAfterFree AliveWhileHandles DestroyedOnce CountsMatch ReleasedWithLastHandle
CHECK_DEADLOCK FALSE
