SPECIFICATION TraceSpec
CONSTANTS
 Names <- NamesSmall
 AttrNames <- AttrNamesSmall
 Values <- ValuesSmall
 Texts <- TextsSmall
 Variants <- VariantsSmall
 Comments <- CommentsSmall
 PIs <- PIsSmall
 Doctypes <- DoctypesSmall
 Decls <- DeclsSmall
 TopWs <- TopWsSmall
 MaxDepth = 0
 MaxKids = 0
 MaxAttrs = 0
 MaxTok = 0
 MaxBadTail = 0
POSTCONDITION TraceAccepted
CHECK_DEADLOCK FALSE
