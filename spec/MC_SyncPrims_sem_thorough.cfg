SPECIFICATION FairSpec
CONSTANTS
 NProd = 2
 NCons = 3
 PerProd = 3
 NTimed = 2
 NWait = 0
 NTimedW = 0
 Poller = FALSE
 AtomicWait = TRUE
 Interrupts = TRUE
 EintrReturns = FALSE
INVARIANTS NoPhantomWake Conservation MutexInv TimeoutOnlyUnsignalled
PROPERTIES AllConsumed
CHECK_DEADLOCK FALSE
