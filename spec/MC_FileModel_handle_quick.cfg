SPECIFICATION Spec
CONSTANTS
 BinChunks <- HBinQ
 TextChunks <- HTxtQ
 ReadSizes = {1, 5}
 ShapeRuns <- NoRuns
 ShapeSegs = 0
 EncScalars <- NoScalars
 EncMaxLen = 0
 MaxLen = 6
 MaxOps = 5
 TmpPaths = {"p"}
 QueryKinds <- AllKinds
 KeepHist = TRUE
VIEW View
ACTION_CONSTRAINT Emit
INVARIANTS TypeOK HandleOK LinesOK
PROPERTIES Independence CopyExact QueryFresh
CHECK_DEADLOCK FALSE
