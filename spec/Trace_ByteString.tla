--------------------------- MODULE Trace_ByteString ---------------------------
(* V binding for C03: validates executions recorded from the real asl::String (harness/c03_record.cpp).
   In-place calls are steps of the corresponding ByteString action and the value the implementation reports afterwards
   (field v) must be the action's; pure queries leave the state unchanged and their logged result must be what
   ByteStringOps defines for the current value; "int" events are checked against IntText (text of the pattern, and the
   pattern parsed back).  The trace is accepted iff every line passes.                                            *)
EXTENDS ByteString, IOUtils

T == ndJsonDeserialize(IOEnv.TRACE)
VARIABLE l
tvars == <<vars, l>>
TInit == Init /\ l = 1

Post(e) == val'[e.x] = e.v
Same == UNCHANGED vars
B2(n) == n = 1

FmtItems(e) ==
    LET s == val[e.x] IN
    IF e.shape = 0 THEN <<[t |-> "s", w |-> 0, f |-> "", s |-> s]>>
    ELSE IF e.shape = 1 THEN <<[t |-> "lit", s |-> <<91>>], [t |-> "d", w |-> 0, f |-> "", n |-> e.n], [t |-> "lit", s |-> <<93, 32>>], [t |-> "s", w |-> 0, f |-> "", s |-> s]>>
    ELSE IF e.shape = 2 THEN <<[t |-> "s", w |-> e.w, f |-> "-", s |-> s], [t |-> "lit", s |-> <<124>>], [t |-> "d", w |-> 5, f |-> "0", n |-> e.n]>>
    ELSE <<[t |-> "s", w |-> e.w, f |-> "", s |-> s], [t |-> "pct"], [t |-> "x", w |-> 0, f |-> "", n |-> e.n]>>

IntOK(e) == LET k == e.w \div 16 IN
            /\ Len(e.x) = k
            /\ e.st = SText(e.x)
            /\ e.ut = UText(e.x)
            /\ e.ps = ParseS(e.st, k)       \* what the library read back from its own text ...
            /\ e.ps = e.x                   \* ... is the original (the identity)
            /\ e.pu = ParseS(e.ut, k)
            /\ e.pu = e.x

TStep ==
  /\ l <= Len(T)
  /\ l' = l + 1
  /\ LET e == T[l] IN
     \/ /\ e.op = "reset"
        /\ val' = [x \in Vars |-> <<>>] /\ hw' = [x \in Vars |-> 0] /\ hist' = <<>> /\ hz' = {}
     \/ /\ e.op = "assign" /\ AssignBytes(e.x, e.s) /\ Post(e)
     \/ /\ e.op = "assignVar" /\ AssignVar(e.x, e.y) /\ Post(e)
     \/ /\ e.op = "assignPiece" /\ AssignPiece(e.x, e.k) /\ Post(e)
     \/ /\ e.op = "assignSubstring" /\ AssignSubstring(e.x, e.y, e.i, e.j) /\ Post(e)
     \/ /\ e.op = "assignConcat" /\ AssignConcat(e.x, e.y, e.z) /\ Post(e)
     \/ /\ e.op = "assignReplace" /\ AssignReplace(e.x, e.a, e.b) /\ Post(e)
     \/ /\ e.op = "append" /\ AppendBytes(e.x, e.s) /\ Post(e)
     \/ /\ e.op = "appendVar" /\ AppendVar(e.x, e.y) /\ Post(e)
     \/ /\ e.op = "appendPiece" /\ AppendPiece(e.x, e.k) /\ Post(e)
     \/ /\ e.op = "appendChar" /\ AppendChar(e.x, e.c) /\ Post(e)
     \/ /\ e.op = "appendInt" /\ AppendInt(e.x, e.n) /\ Post(e)
     \/ /\ e.op = "assignRepeat" /\ AssignRepeat(e.x, e.c, e.n) /\ Post(e)
     \/ /\ e.op = "appendRepeat" /\ AppendRepeat(e.x, e.c, e.n) /\ Post(e)
     \/ /\ e.op = "assignN" /\ AssignN(e.x, e.s, e.n) /\ Post(e)
     \/ /\ e.op = "appendN" /\ AppendN(e.x, e.s, e.n) /\ Post(e)
     \/ /\ e.op = "reserve" /\ Reserve(e.x, e.n) /\ Post(e)
     \/ /\ e.op = "trim" /\ Trim(e.x) /\ Post(e)
     \/ /\ e.op = "replaceme" /\ ReplaceMe(e.x, e.a, e.b) /\ Post(e)
     \/ /\ e.op = "resize" /\ Resize(e.x, e.n, e.c) /\ Post(e)
     \/ /\ e.op = "clear" /\ Clear(e.x) /\ Post(e)
     \/ /\ e.op = "fixAt" /\ FixAt(e.x, e.k) /\ Post(e)
     \/ /\ e.op = "splitJoin" /\ SplitJoin(e.x, e.a) /\ Post(e)
     \* pure queries
     \/ /\ e.op = "indexOf" /\ e.r = IndexOf(val[e.x], e.p, e.i0) /\ Same
     \/ /\ e.op = "lastIndexOf" /\ e.r = LastIndexOf(val[e.x], e.p) /\ Same
     \/ /\ e.op = "indexOfChar" /\ e.r = IndexOfChar(val[e.x], e.c, e.i0) /\ e.l = LastIndexOfChar(val[e.x], e.c) /\ Same
     \/ /\ e.op = "split" /\ e.r = Split(val[e.x], e.p) /\ Join(e.r, e.p) = val[e.x] /\ Same
     \/ /\ e.op = "splitWs" /\ e.r = SplitWs(val[e.x]) /\ Same
     \/ /\ e.op = "trimmed" /\ e.r = Trimmed(val[e.x]) /\ Same
     \/ /\ e.op = "substr" /\ e.r = Substr(val[e.x], e.i, e.n) /\ Same
     \/ /\ e.op = "tests" /\ B2(e.sw) = StartsWith(val[e.x], e.p) /\ B2(e.ew) = EndsWith(val[e.x], e.p) /\ B2(e.has) = Contains(val[e.x], e.p) /\ Same
     \/ /\ e.op = "compare" /\ e.r = Compare(val[e.x], val[e.y]) /\ B2(e.eq) = (val[e.x] = val[e.y]) /\ B2(e.lt) = (Compare(val[e.x], val[e.y]) < 0) /\ Same
     \/ /\ e.op = "replace" /\ e.r = Replace(val[e.x], e.a, e.b) /\ Same
     \/ /\ e.op = "fmt" /\ e.r = Render(FmtItems(e)) /\ Same
     \/ /\ e.op = "int" /\ IntOK(e) /\ Same

TraceSpec == TInit /\ [][TStep]_tvars
TraceAccepted == TLCGet("stats").diameter - 1 = Len(T)
===============================================================================
