SPECIFICATION GSpec
CONSTANTS
 Payloads <- PayloadsSmall
 Codes = {0, 7}
 ErrCounts = {2}
 ReadLens = {1, 3}
 MaxOps = 7
 MaxFd = 8
 CloseTwice = FALSE
 PipeSafe = 6
VIEW View
ACTION_CONSTRAINT Emit
INVARIANTS TypeOK ReadIsWritten NothingLost SeenOnlyAfterEnd NoLeak ObjectFds UserIntact
CHECK_DEADLOCK FALSE
