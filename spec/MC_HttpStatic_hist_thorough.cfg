SPECIFICATION Spec
CONSTANTS
 ReqSet <- HistReqs
 ImsFiles <- HistMutable
 Deltas <- HistDeltas
 Mutable <- HistMutable
 Slack = 0
 Dts = {1, 2}
 MaxOps = 4
VIEW View
ACTION_CONSTRAINT Emit
INVARIANTS TypeOK CacheCoherent NotModifiedSound ContentOnlyFromFiles RedirectOnlyDirs
CHECK_DEADLOCK FALSE
