SPECIFICATION TraceSpec
CONSTANTS
 ModeSet = "all64"
 QKeySlashIsComment = FALSE
POSTCONDITION TraceAccepted
CHECK_DEADLOCK FALSE
