SPECIFICATION Spec
CONSTANTS
 Slots = {1, 2, 3}
 Objs = {1, 2}
 DerivedSlots = {3}
 DerivedObjs = {1}
 MaxOps = 6
 KeepHist = TRUE
VIEW View
ACTION_CONSTRAINT Emit
INVARIANTS TypeOK AliveIffReferenced DestroyedOnce
PROPERTIES NeverEarly NoResurrection
CHECK_DEADLOCK FALSE
