SPECIFICATION FSpec
CONSTANTS
 NH = 2
 V = {1,2}
 Sizes = {0}
 MaxLen = 4
 KeepHist = TRUE
 MaxOps = 2
 Ns = {1,2,3,4}
 Lits <- FLits
VIEW View
INVARIANTS TypeOK FixedOK
PROPERTIES RefinesSeq
CHECK_DEADLOCK FALSE
