SPECIFICATION Spec
CONSTANTS
 Profile = "quick"
ACTION_CONSTRAINT Emit
INVARIANTS GenVsRec PathsSafe FamiliesOK
PROPERTIES PrefixMono
CHECK_DEADLOCK FALSE
