SPECIFICATION Spec
CONSTANTS
 NV = 2
 Lens = {0, 1, 15, 16, 17, 24}
 Pieces = {15, 16}
 Ints <- IntsA
 MaxTotal = 50
 MaxOps = 3
 KeepHist = TRUE
VIEW View
ACTION_CONSTRAINT Emit
INVARIANTS TypeOK HwOK
PROPERTIES Independence Identities
CHECK_DEADLOCK FALSE
