SPECIFICATION FairSpec
CONSTANTS
 NProd = 2
 NCons = 2
 PerProd = 2
 NTimed = 1
 NWait = 0
 NTimedW = 0
 Poller = FALSE
 AtomicWait = TRUE
 Interrupts = TRUE
 EintrReturns = TRUE
INVARIANTS NoPhantomWake
CHECK_DEADLOCK FALSE
