----------------------------- MODULE Trace_Codecs -----------------------------
(* V binding for C15: validates runs of asl's codecs recorded by harness/c15_record.cpp on large and random inputs.
   Every ndjson line is one call (or a small group of calls on one input) with the arguments and the results as byte
   lists; the line is accepted iff the results are what Codecs.tla prescribes for the arguments:
     b64   in, enc = encodeBase64(in), dec = decodeBase64(enc), ws = enc with white space inserted, decws = decodeBase64(ws)
     hex   in, enc = encodeHex(in), dec = decodeHex(enc), decu = decodeHex(uppercase enc)
     pct   in (no NUL), comp, enc = Url::encode(in, comp), dec = Url::decode(enc)
     qry   d = [[key, value]...], text = Url::params(d), back = Url::parseQuery(text) as pairs
     sha   in, h = SHA1::hash(in)
     junk  k in {b64, hex, pct}, in = arbitrary/mutated text, len = length of the decoder's result, out = the result
   Expected values are computed here by TLC, never by the recorder.                                              *)
EXTENDS Codecs, TLC, Json, IOUtils

T == ndJsonDeserialize(IOEnv.TRACE)
VARIABLE l

PairsOf(ps) == {<<ps[i][1], ps[i][2]>> : i \in 1..Len(ps)}

B64OK(e)  == /\ e.enc = B64Enc(e.in)
             /\ e.dec = e.in
             /\ StripWs(e.ws) = e.enc
             /\ e.decws = e.in
HexOK(e)  == /\ e.enc = HexEnc(e.in)
             /\ e.dec = e.in
             /\ e.decu = e.in
PctOK(e)  == /\ PctEncodes(e.enc, e.in, e.comp = 1)
             /\ e.dec = e.in
QryOK(e)  == LET q == ParseQuery(e.text) IN
             /\ q.ok /\ q.v = PairsOf(e.d)
             /\ PairsOf(e.back) = PairsOf(e.d) /\ Len(e.back) = Len(e.d)
ShaOK(e)  == e.h = Sha1Bytes(e.in)
JunkOK(e) == /\ e.len >= 0 /\ e.len = Len(e.out)
             /\ IF e.k = "b64" THEN /\ e.len <= B64Bound(e.in)
                                    /\ B64Canon(e.in) => e.out = B64DecWs(e.in).v
                ELSE IF e.k = "hex" THEN /\ e.len <= HexBound(e.in)
                                         /\ HexDec(e.in).ok => e.out = HexDec(e.in).v
                ELSE /\ e.k = "pct" /\ e.len <= Len(e.in)
                     /\ LET r == PctDec(e.in) IN (r.ok /\ \A i \in 1..Len(r.v) : r.v[i] # 0) => e.out = r.v

TInit == l = 1
TStep == /\ l <= Len(T)
         /\ l' = l + 1
         /\ LET e == T[l] IN
            \/ e.e = "reset"
            \/ e.e = "b64" /\ B64OK(e)
            \/ e.e = "hex" /\ HexOK(e)
            \/ e.e = "pct" /\ PctOK(e)
            \/ e.e = "qry" /\ QryOK(e)
            \/ e.e = "sha" /\ ShaOK(e)
            \/ e.e = "junk" /\ JunkOK(e)
TraceSpec == TInit /\ [][TStep]_l
TraceAccepted == TLCGet("stats").diameter - 1 = Len(T)
===============================================================================
