------------------------------- MODULE HttpExchange -------------------------------
(* C10 - what an HTTP exchange between the library's client (Http::request) and server (HttpServer) must convey.

   A request is (method, path segments, query pairs, extra headers, body descriptor); a response is (status code,
   extra headers, body).  Text is a sequence of byte codes.  Bodies are (len, seed) descriptors that the harness
   expands deterministically on both sides and compares by length and 64-bit hash; JSON bodies are small value
   trees; file bodies are (file size, optional range).

   The module defines
     - the request target the client must put on the wire (Target: percent-encoding of every segment / key / value),
     - what the handler must observe for a request (HandlerView) and what the client must observe for the handler's
       response (ClientView), including byte ranges of file bodies (RFC 7233 single ranges),
   HttpProtocol.tla states the exchange with several clients in flight (isolation); HttpCases.tla emits one descriptor +
   expected views per line for the replayer (harness/c10_replay.cpp); Trace_HttpExchange.tla validates recorded
   concurrent runs against HandlerView / ClientView.                     *)
EXTENDS Naturals, Sequences, FiniteSets, TLC, Json, SequencesExt

-----------------------------------------------------------------------------
(* text helpers *)
Unreserved(c) == (c \in 48..57) \/ (c \in 65..90) \/ (c \in 97..122) \/ (c \in {45, 46, 95, 126})
Hex(n) == IF n < 10 THEN 48 + n ELSE 55 + n
PctByte(c) == IF Unreserved(c) THEN <<c>> ELSE <<37, Hex(c \div 16), Hex(c % 16)>>
RECURSIVE Pct(_)
Pct(s) == IF s = <<>> THEN <<>> ELSE PctByte(Head(s)) \o Pct(Tail(s))
RECURSIVE JoinSeg(_)
JoinSeg(segs) == IF segs = <<>> THEN <<>> ELSE <<47>> \o Pct(Head(segs)) \o JoinSeg(Tail(segs))
RECURSIVE JoinRaw(_)
JoinRaw(segs) == IF segs = <<>> THEN <<>> ELSE <<47>> \o Head(segs) \o JoinRaw(Tail(segs))
RECURSIVE JoinQuery(_)
JoinQuery(q) == IF q = <<>> THEN <<>>
                ELSE Pct(q[1][1]) \o <<61>> \o Pct(q[1][2]) \o (IF Len(q) > 1 THEN <<38>> \o JoinQuery(Tail(q)) ELSE <<>>)
\* a second valid spelling of the same target: RFC 3986 lets the sub-delimiters, ':' and '@' stand unescaped in a path
\* segment (in the query they stay escaped here: '+', '&' and '=' have a meaning there)
SubDelim(c) == c \in {33, 36, 38, 39, 40, 41, 42, 43, 44, 59, 61, 58, 64}       \* ! $ & ' ( ) * + , ; = : @
PctByteLite(c) == IF Unreserved(c) \/ SubDelim(c) THEN <<c>> ELSE <<37, Hex(c \div 16), Hex(c % 16)>>
RECURSIVE PctLite(_)
PctLite(s) == IF s = <<>> THEN <<>> ELSE PctByteLite(Head(s)) \o PctLite(Tail(s))
RECURSIVE JoinSegLite(_)
JoinSegLite(segs) == IF segs = <<>> THEN <<>> ELSE <<47>> \o PctLite(Head(segs)) \o JoinSegLite(Tail(segs))
TargetLite(req) == (IF req.segs = <<>> THEN <<47>> ELSE JoinSegLite(req.segs)) \o
                   (IF req.query = <<>> THEN <<>> ELSE <<63>> \o JoinQuery(req.query))
\* the request target on the wire
Target(req) == (IF req.segs = <<>> THEN <<47>> ELSE JoinSeg(req.segs)) \o
               (IF req.query = <<>> THEN <<>> ELSE <<63>> \o JoinQuery(req.query))
\* the decoded path the application must see
PathOf(req) == IF req.segs = <<>> THEN <<47>> ELSE JoinRaw(req.segs)

\* percent-decoding (what the server applies to the target); any valid encoding of the request decodes to the same text
HexVal(c) == IF c \in 48..57 THEN c - 48 ELSE IF c \in 65..70 THEN c - 55 ELSE IF c \in 97..102 THEN c - 87 ELSE 0
RECURSIVE PctDec(_)
PctDec(s) == IF s = <<>> THEN <<>>
             ELSE IF Head(s) = 37 /\ Len(s) >= 3 THEN <<16 * HexVal(s[2]) + HexVal(s[3])>> \o PctDec(SubSeq(s, 4, Len(s)))
             ELSE <<Head(s)>> \o PctDec(Tail(s))
RECURSIVE RawQuery(_)
RawQuery(q) == IF q = <<>> THEN <<>>
               ELSE q[1][1] \o <<61>> \o q[1][2] \o (IF Len(q) > 1 THEN <<38>> \o RawQuery(Tail(q)) ELSE <<>>)
RawTarget(req) == PathOf(req) \o (IF req.query = <<>> THEN <<>> ELSE <<63>> \o RawQuery(req.query))

(* what the handler must observe *)
HandlerView(req) == [method |-> req.method, path |-> PathOf(req), query |-> req.query, headers |-> req.headers,
                     blen |-> req.blen, bseed |-> req.bseed]

(* single byte ranges on a file of `size` bytes; e = -1 means open-ended "b-" *)
RangeOK(size, b, e) == b < size /\ (e = -1 \/ b <= e)
RangeEnd(size, e) == IF e = -1 \/ e >= size THEN size - 1 ELSE e
(* what the client must observe *)
ClientView(resp, reqRange) ==
  IF resp.kind = "file" /\ reqRange # <<>>
  THEN IF RangeOK(resp.fsize, reqRange[1], reqRange[2])
       THEN [code |-> 206, headers |-> resp.headers, kind |-> "file", from |-> reqRange[1],
             blen |-> RangeEnd(resp.fsize, reqRange[2]) - reqRange[1] + 1, fsize |-> resp.fsize]
       ELSE [code |-> 416, headers |-> resp.headers, kind |-> "file", from |-> 0, blen |-> 0, fsize |-> resp.fsize]
  ELSE IF resp.kind = "file"
  THEN [code |-> resp.code, headers |-> resp.headers, kind |-> "file", from |-> 0, blen |-> resp.fsize, fsize |-> resp.fsize]
  ELSE [code |-> resp.code, headers |-> resp.headers, kind |-> resp.kind, blen |-> resp.blen, bseed |-> resp.bseed,
        json |-> resp.json]

=============================================================================
