SPECIFICATION Spec
CONSTANTS
 P = 3
 NVec = 1500
 NAff = 800
 NQuat = 1000
 NCplx = 1200
 NDyn = 729
ACTION_CONSTRAINT Emit
INVARIANTS VecLaws AffLaws QuatLaws CplxLaws DynLaws
CHECK_DEADLOCK FALSE
