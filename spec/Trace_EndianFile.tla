--------------------------- MODULE Trace_EndianFile ---------------------------
(* V binding for EndianFile: validates executions recorded from a real File object with a position and from other File
   objects on the same path (harness/c16_obj_record.cpp --mode 1).  Every event carries what the call returned (counts, bytes,
   values as bit patterns, end(), position(), error(), the content seen by another object); TLC computes all of it from the
   logged arguments and accepts the trace only if every line is the corresponding EndianFile step with exactly those results.
   A typed read that found fewer than sizeof(T) bytes has no specified value: its `v` is ignored, its end() is not. *)
EXTENDS EndianFile, IOUtils

T == ndJsonDeserialize(IOEnv.TRACE)
VARIABLE l
tvars == <<allvars, l>>

TInit == FInit /\ l = 1
LastRec == hist'[Len(hist')]

TStep ==
  /\ l <= Len(T)
  /\ l' = l + 1
  /\ LET e == T[l] IN
     \/ /\ e.op = "reset"
        /\ exists' = e.x /\ out' = e.d /\ hist' = <<>> /\ worder' = "NATIVE" /\ rorder' = "NATIVE" /\ hz' = {} /\ pool' = <<>>
        /\ fmode' = "closed" /\ fpos' = 0 /\ posdef' = TRUE /\ feof' = FALSE /\ ferr' = FALSE /\ dirty' = FALSE /\ last' = "n"
     \/ /\ e.op = "open"  /\ FOpen(e.m) /\ LastRec.r = e.r
     \/ /\ e.op = "close" /\ FClose
     \/ /\ e.op = "set"   /\ FSetOrder(e.o)
     \/ /\ e.op = "w"   /\ e.t \in AllTypes /\ FWrite(e.t, e.v)
     \/ /\ e.op = "wa"  /\ e.t \in AllTypes /\ FWriteArray(e.t, e.a)
     \/ /\ e.op = "ws"  /\ FWriteString(e.s)
     \/ /\ e.op = "wr"  /\ FWriteRaw(e.d) /\ LastRec.r = e.r
     \/ /\ e.op = "wls" /\ FWriteLenString(e.s)
     \/ /\ e.op = "wdenied" /\ FWriteDenied(e.d, e.typed) /\ (e.typed \/ LastRec.r = e.r)
     \/ /\ e.op = "r"   /\ e.t \in AllTypes /\ FRead(e.t) /\ (LastRec.ok => LastRec.v = e.v) /\ LastRec.eof = e.eof
     \/ /\ e.op = "rr"  /\ FReadRaw(e.n) /\ LastRec.r = e.r /\ LastRec.eof = e.eof /\ e.c = Len(e.r)
     \/ /\ e.op = "rls" /\ FReadLenString /\ LastRec.r = e.r /\ e.len = Len(e.r) /\ LastRec.eof = e.eof
     \/ /\ e.op = "rdenied" /\ FReadDenied(e.n, e.typed) /\ (e.typed \/ LastRec.r = e.r)
     \/ /\ e.op = "seek"  /\ FSeek(e.off, e.from)
     \/ /\ e.op = "pos"   /\ FPosition /\ LastRec.r = e.r
     \/ /\ e.op = "end"   /\ FEnd   /\ LastRec.r = e.r
     \/ /\ e.op = "err"   /\ FError /\ LastRec.r = e.r
     \/ /\ e.op = "flush" /\ FFlush
     \/ /\ e.op = "ocontent" /\ OContent /\ LastRec.r = e.r
     \/ /\ e.op = "osize"    /\ OSize /\ LastRec.r = e.r
     \/ /\ e.op = "ofirst"   /\ OFirst(e.n) /\ LastRec.r = e.r
     \/ /\ e.op = "oput"     /\ OPut(e.d)
     \/ /\ e.op = "oread"    /\ e.t \in AllTypes /\ ORead(e.off, e.t, e.o) /\ (LastRec.ok => LastRec.v = e.v) /\ LastRec.eof = e.eof

TraceSpec == TInit /\ [][TStep]_tvars
TraceAccepted == TLCGet("stats").diameter - 1 = Len(T)
===============================================================================
