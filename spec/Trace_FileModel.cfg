SPECIFICATION TraceSpec
CONSTANTS
 BinChunks = {}
 TextChunks = {}
 ReadSizes = {}
 ShapeRuns = {}
 ShapeSegs = 0
 EncScalars = {}
 EncMaxLen = 0
 MaxLen = 0
 MaxOps = 0
 TmpPaths = {"p", "q"}
 QueryKinds = {}
 KeepHist = FALSE
INVARIANTS HandleOK
PROPERTIES Independence CopyExact QueryFresh
POSTCONDITION TraceAccepted
CHECK_DEADLOCK FALSE
