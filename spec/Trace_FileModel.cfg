SPECIFICATION TraceSpec
CONSTANTS
 BinChunks = {}
 TextChunks = {}
 ReadSizes = {}
 ShapeRuns = {}
 ShapeSegs = 0
 EncScalars = {}
 EncMaxLen = 0
 MaxLen = 0
 MaxOps = 0
 KeepHist = FALSE
INVARIANTS HandleOK
PROPERTIES Independence CopyExact
POSTCONDITION TraceAccepted
CHECK_DEADLOCK FALSE
