------------------------------ MODULE HttpTransfer ------------------------------
(* C10 (growth) - the convenience layer over an exchange: Http::upload (multipart/form-data), Http::download (body
   streamed into a file), structured request bodies (JSON / form-urlencoded Var), text()/json() accessors, and the
   routing helpers HttpRequest::is(pattern) / suffix().

   Upload.  Http::upload(url, path, headers) POSTs the file.  Without a Content-Type of the caller the body is one
   multipart/form-data part (RFC 7578, RFC 2046 5.1): with boundary b, file name n and file bytes f
       Envelope(b, n, f) = "--" b CRLF  Content-Disposition: form-data; name="files"; filename="n" CRLF
                           Content-Type: application/octet-stream CRLF CRLF  f  CRLF "--" b "--" CRLF
   and the request carries Content-Type: multipart/form-data; boundary=b and Content-Length = Len(Envelope).  The library
   chooses b; BoundaryOK(b) is what RFC 2046 demands of it (1..70 characters of bchars, no trailing blank) and the
   delimiter "--" b must not occur in f.  With the caller's own Content-Type the body is f itself.  upload() returns
   whether the file exists and the server answered 2xx; a missing file sends nothing.
   The envelope is written as a sequence of parts - literal bytes and holes ("boundary", "file") - so that R can print it
   without knowing b (the replayer fills the holes with the boundary it finds in the Content-Type and the file bytes) and
   V can evaluate Envelope(b, n, f) on recorded uploads.
   Download.  Http::download(url, path, progress, headers) GETs url with the headers; returns whether the answer was
   2xx; then the file at path holds exactly the body; progress reports are monotone and end at the body length.
   Bodies.  put(Var) sends JSON with Content-Type application/json, or - if the caller set Content-Type
   application/x-www-form-urlencoded - the pairs percent-encoded and joined by & in some order (FormBodies).
   Routing.  is(pat): a pattern without '*' matches the equal path; "P*" matches paths that start with P and suffix() is
   the rest of the (decoded) path.  is(method, pat) also requires the method.  (A '*' that is not last, and suffix()
   after a failed or star-less match, are not defined by the documentation: not generated / not constrained.)   *)
EXTENDS HttpExchange

CRLF == <<13, 10>>
DASH2 == <<45, 45>>
CDHEAD == <<67, 111, 110, 116, 101, 110, 116, 45, 68, 105, 115, 112, 111, 115, 105, 116, 105, 111, 110, 58, 32, 102, 111, 114, 109, 45, 100, 97, 116, 97, 59, 32, 110, 97, 109, 101, 61, 34>>   \* Content-Disposition: form-data; name="
CDFILE == <<34, 59, 32, 102, 105, 108, 101, 110, 97, 109, 101, 61, 34>>   \* "; filename="
CTOCTET == <<67, 111, 110, 116, 101, 110, 116, 45, 84, 121, 112, 101, 58, 32, 97, 112, 112, 108, 105, 99, 97, 116, 105, 111, 110, 47, 111, 99, 116, 101, 116, 45, 115, 116, 114, 101, 97, 109>>   \* Content-Type: application/octet-stream
MPTYPE == <<109, 117, 108, 116, 105, 112, 97, 114, 116, 47, 102, 111, 114, 109, 45, 100, 97, 116, 97>>   \* multipart/form-data
MPBOUND == <<59, 32, 98, 111, 117, 110, 100, 97, 114, 121, 61>>   \* ; boundary=
OCTET == <<97, 112, 112, 108, 105, 99, 97, 116, 105, 111, 110, 47, 111, 99, 116, 101, 116, 45, 115, 116, 114, 101, 97, 109>>   \* application/octet-stream
FIELD == <<102, 105, 108, 101, 115>>   \* files
APPJSON == <<97, 112, 112, 108, 105, 99, 97, 116, 105, 111, 110, 47, 106, 115, 111, 110>>   \* application/json
FORMTYPE == <<97, 112, 112, 108, 105, 99, 97, 116, 105, 111, 110, 47, 120, 45, 119, 119, 119, 45, 102, 111, 114, 109, 45, 117, 114, 108, 101, 110, 99, 111, 100, 101, 100>>   \* application/x-www-form-urlencoded

-----------------------------------------------------------------------------
(* multipart envelope *)
Lit(b) == [lit |-> b, hole |-> ""]
Hole(h) == [lit |-> <<>>, hole |-> h]
EnvelopeParts(fname) ==
    << Lit(DASH2), Hole("boundary"),
       Lit(CRLF \o CDHEAD \o FIELD \o CDFILE \o fname \o <<34>> \o CRLF \o CTOCTET \o CRLF \o CRLF),
       Hole("file"),
       Lit(CRLF \o DASH2), Hole("boundary"), Lit(DASH2 \o CRLF) >>
RawParts == << Hole("file") >>
MultipartTypeParts == << Lit(MPTYPE \o MPBOUND), Hole("boundary") >>
RECURSIVE Fill(_, _, _)
Fill(parts, b, f) == IF parts = <<>> THEN <<>>
                     ELSE (IF Head(parts).hole = "boundary" THEN b ELSE IF Head(parts).hole = "file" THEN f ELSE Head(parts).lit)
                          \o Fill(Tail(parts), b, f)
Envelope(b, fname, f) == Fill(EnvelopeParts(fname), b, f)
EnvelopeHead(b, fname) == Fill(SubSeq(EnvelopeParts(fname), 1, 3), b, <<>>)
EnvelopeTail(b) == Fill(SubSeq(EnvelopeParts(<<>>), 5, 7), b, <<>>)
BChars == (48..57) \cup (65..90) \cup (97..122) \cup {39, 40, 41, 43, 95, 44, 45, 46, 47, 58, 61, 63, 32}
BoundaryMax == 70
BoundaryOK(b) == /\ Len(b) \in 1..BoundaryMax
                 /\ {i \in 1..Len(b) : b[i] \notin BChars} = {}
                 /\ b[Len(b)] # 32
Occurs(p, s) == \E i \in 0..(Len(s) - Len(p)) : SubSeq(s, i + 1, i + Len(p)) = p
Is2xx(code) == code \in 200..299

(* Upload(u): u = [fsize, fvar, fname, ctype, exists, hcode] *)
UploadView(u) ==
    [called |-> u.exists, method |-> "POST",
     body |-> IF u.ctype = <<>> THEN EnvelopeParts(u.fname) ELSE RawParts,
     ctype |-> IF u.ctype = <<>> THEN MultipartTypeParts ELSE <<Lit(u.ctype)>>,
     bmax |-> BoundaryMax, bchars |-> SetToSeq(BChars),
     ret |-> u.exists /\ Is2xx(u.hcode)]

(* Download(d): d = [kind ("bytes"/"file"), blen, bseed, code, headers] *)
DownloadView(d) == [method |-> "GET", headers |-> d.headers, ret |-> Is2xx(d.code),
                    file |-> IF Is2xx(d.code) THEN [any |-> FALSE, blen |-> d.blen] ELSE [any |-> TRUE, blen |-> 0],
                    progressEnd |-> IF Is2xx(d.code) THEN d.blen ELSE -1]

-----------------------------------------------------------------------------
(* structured bodies *)
RECURSIVE Perms(_)
Perms(s) == IF s = <<>> THEN {<<>>}
            ELSE UNION {{<<s[i]>> \o p : p \in Perms(SubSeq(s, 1, i - 1) \o SubSeq(s, i + 1, Len(s)))} : i \in 1..Len(s)}
FormBodies(pairs) == {JoinQuery(p) : p \in Perms(pairs)}
BodyView(b) == IF b.kind = "json" THEN [ctype |-> APPJSON, json |-> b.json, bodies |-> {}]
               ELSE [ctype |-> FORMTYPE, json |-> 0, bodies |-> FormBodies(b.pairs)]

-----------------------------------------------------------------------------
(* routing *)
StarAt(pat) == IF \E i \in 1..Len(pat) : pat[i] = 42 THEN CHOOSE i \in 1..Len(pat) : pat[i] = 42 /\ \A j \in 1..(i - 1) : pat[j] # 42 ELSE 0
StartsWith(s, p) == Len(p) <= Len(s) /\ SubSeq(s, 1, Len(p)) = p
Defined(pat) == StarAt(pat) \in {0, Len(pat)}           \* fixed patterns and "P*"
Match(method, path, call) ==
    LET k == StarAt(call.pat)
        mok == call.meth = "" \/ call.meth = method
    IN IF k = 0 THEN [ok |-> mok /\ path = call.pat, sdef |-> FALSE, suffix |-> <<>>]
       ELSE LET pre == SubSeq(call.pat, 1, k - 1) IN
            IF mok /\ StartsWith(path, pre) THEN [ok |-> TRUE, sdef |-> TRUE, suffix |-> SubSeq(path, k, Len(path))]
            ELSE [ok |-> FALSE, sdef |-> FALSE, suffix |-> <<>>]
RouteView(r) == [i \in 1..Len(r.calls) |-> Match(r.method, PathOf(r), r.calls[i])]
=============================================================================
