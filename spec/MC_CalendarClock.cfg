SPECIFICATION Spec
VIEW View
ACTION_CONSTRAINT Emit
INVARIANTS Agree
CHECK_DEADLOCK FALSE
