SPECIFICATION Spec
CONSTANTS
 Part = "api"
 IniLines <- NoLines
 MaxLines = 0
 SetNames <- NoNames
 SetValues <- Values
 MaxSets = 0
 Cells <- NoCells
 MaxCols = 1
 MaxCells = 0
 ApiTexts <- ApiTextsQ
 ApiMuts <- ApiMutsQ
 ApiProbes <- ApiProbesQ
 MaxMuts = 2
 ApiDeep <- ApiDeepQ
ACTION_CONSTRAINT Emit
INVARIANTS ApiRefOK
CHECK_DEADLOCK FALSE
