------------------------------ MODULE XdlWriter ------------------------------
(* C05 - the *writer* side of asl's XDL/JSON codec (XdlEncoder in src/Xdl.cpp) as a pure serializer operator

        Ser(tree, mode)  =  the exact bytes of  Xdl::encode(v, mode)  ( Json::encode(v, m) = Xdl::encode(v, m | JSON) ,
                            Xdl::write / Json::write put the same bytes into the file )

   for every combination of the encoder's option flags (Json::Mode is a bit set):

        PRETTY  = 1   newlines and one TAB per nesting level, ", " between items of one line, ": " after a JSON key,
                      a final newline after the document
        SIMPLE  = 2   reals with reduced precision: %.15g (double) / %.7g (float) instead of %.17g / %.9g
        JSON    = 8   JSON dialect: quoted keys, ':' , true/false, "$type" written as an ordinary member;
                      without it the XDL dialect: bare keys, '=', Y/N, a "$type" string member becomes the class name
                      in front of '{', and in PRETTY mode the newline alone separates members / array rows (no comma)
        SHORTF  = 32  doubles are formatted like floats (%.9g, with SIMPLE %.7g)
        NICE    = 3   PRETTY | SIMPLE
        COMPACT = 4 , EXACT = 16 : declared in Json::Mode without documentation; the encoder does not look at them.
                      Ser ignores them.

   STATUS OF THE LAYOUT.  Ser transcribes the *present* encoder byte for byte; what C05 and the documentation demand of a
   real text is less: it must be in the dialect's language with value Lossy(tree) (JsonLaw / XdlLaw evaluated on the real
   text), its number tokens must obey the digits law of the mode, and the documented promises of the flags must hold
   (ModePromises below).  The checks therefore treat a real text that differs from Ser as a *deviation* (counted in the
   evidence, judged by those laws on the real text: Trace_XdlWriterDev / Trace_JsonTextEnc), never as a violation by itself.

   Layout rules of PRETTY mode (transcribed from XdlEncoder::_encode), level = number of enclosing multi-line containers:
     * an object always takes one line per member:  '{' NL(level+1) member ... NL(level) '}' ; the empty object is '{' NL(level) '}'
     * an array is written on one line  [a, b, c]  unless it is *multi-line*:
           more than 10 items,  or  the first item is an array or object,
           or  the first item is a string and the lengths of the items add up to more than 100
       a multi-line array is  '[' NL(level+1) rows NL(level) ']' ; when the first item is an array, object or string every item
       gets its own row, otherwise a row holds 16 items; rows end with ',' in JSON and with nothing in XDL
     * members are written in ascending byte order of their keys (Var objects are ordered maps); members whose value is
       a NONE-typed Var are skipped; a NONE-typed array item or document is written as null
   (XDL round trip: keys must be identifiers and a class name must not be one of the literal words Y N true false null -
   Name{ is read as that literal followed by '{'.)
   Scalars: null ; true/false (JSON) Y/N (XDL) ; ints in decimal ; reals with printf's %g rules (FmtG below) from their
   correctly rounded P-digit decimal; NaN is written as  null  and +-infinity as  1e400 / -1e400  (tokens beyond the
   binary64 range, which the library's own reader - strtod - turns back into +-infinity): these are the two exceptions
   to the round-trip clause of C05, stated by Lossy below.  Strings: '"' and '\' escaped, \n \r \t \f \b, other bytes
   below 0x20 as \u00xx (lower-case hex), everything else - '/' and bytes >= 0x80 included - raw.

   Trees are the tagged records of JsonTextVar with four more leaves:
        [none |-> 0]  a NONE-typed Var          [nan |-> w]  NaN held as a double (w = 64) or float (w = 32)
        [inf |-> 0/1 (negative), w |-> 64/32]   an infinity
        d / f leaves may carry  g = <<c17, c15, c9, c7>> : the canonical decimals [neg, ds, e] of the value rounded to 17, 15,
        9 and 7 significant digits (TLC has no floating point: the digits are stated as data and *proved* against the
        IEEE pattern by the bignum relations WithinHalfUlp / WithinDigits in the laws of XdlWriterEnum).  A d / f leaf
        without g is serialized as the placeholder byte 0 (MatchLayout then accepts any number token in its place:
        used by the trace specification for random doubles).                                                      *)
EXTENDS JsonText

Bit(m, b) == (m \div b) % 2 = 1
Pretty(m) == Bit(m, 1)
Simple(m) == Bit(m, 2)
IsJson(m) == Bit(m, 8)
ShortF(m) == Bit(m, 32)
Undocumented(m) == Bit(m, 4) \/ Bit(m, 16)
PrecF(m) == IF Simple(m) THEN 7 ELSE 9
PrecD(m) == IF ShortF(m) THEN PrecF(m) ELSE IF Simple(m) THEN 15 ELSE 17
PIdx(p) == IF p = 17 THEN 1 ELSE IF p = 15 THEN 2 ELSE IF p = 9 THEN 3 ELSE 4

WKind(t) == IF "nan" \in DOMAIN t THEN "nan" ELSE IF "inf" \in DOMAIN t THEN "inf" ELSE TKind(t)
WTypeKey == <<36, 116, 121, 112, 101>>                                       \* $type  (ASL_XDLCLASS)

Tabs(n) == [j \in 1..n |-> 9]
NL(lvl) == <<10>> \o Tabs(lvl)
Sep1(m) == IF Pretty(m) THEN <<44, 32>> ELSE <<44>>                          \* between items of one line
Sep2(m) == IF Pretty(m) /\ ~IsJson(m) THEN <<>> ELSE <<44>>                  \* before a line break / between members

-------------------------------------------------------------------------------
(* scalars *)
WNull == <<110, 117, 108, 108>>
WBool(b, m) == IF IsJson(m) THEN (IF b = 1 THEN <<116, 114, 117, 101>> ELSE <<102, 97, 108, 115, 101>>)
               ELSE (IF b = 1 THEN <<89>> ELSE <<78>>)
WInt(i) == LET ds == IntDigits(i[2], i[3]) IN (IF i[1] = 1 THEN <<45>> ELSE <<>>) \o [j \in 1..Len(ds) |-> 48 + ds[j]]

\* printf("%.Pg") of the value whose correctly rounded P-digit decimal is c = [neg, ds, e]  (value = 0.ds * 10^e, no
\* trailing zeros): scientific notation when the decimal exponent X = e - 1 is below -4 or at least P, else fixed
\* notation; trailing zeros (and a trailing point) are never written; the exponent has at least two digits
FmtG(c, P) ==
    IF c.ds = <<>> THEN (IF c.neg THEN <<45, 48>> ELSE <<48>>)
    ELSE LET X == c.e - 1
             n == Len(c.ds)
             sign == IF c.neg THEN <<45>> ELSE <<>>
         IN IF X < -4 \/ X >= P THEN
               LET ax == IF X < 0 THEN -X ELSE X
                   xd == DigitsOf(ax)
                   exd == IF ax < 10 THEN <<48, 48 + ax>> ELSE [j \in 1..Len(xd) |-> 48 + xd[j]]
               IN sign \o <<48 + c.ds[1]>> \o (IF n > 1 THEN <<46>> \o [j \in 1..(n - 1) |-> 48 + c.ds[j + 1]] ELSE <<>>)
                       \o <<101, IF X < 0 THEN 45 ELSE 43>> \o exd
            ELSE IF X >= 0 THEN
               sign \o [j \in 1..(X + 1) |-> IF j <= n THEN 48 + c.ds[j] ELSE 48]
                    \o (IF n > X + 1 THEN <<46>> \o [j \in 1..(n - X - 1) |-> 48 + c.ds[X + 1 + j]] ELSE <<>>)
            ELSE sign \o <<48, 46>> \o [j \in 1..(-X - 1) |-> 48] \o [j \in 1..n |-> 48 + c.ds[j]]

WHexD(x) == IF x < 10 THEN 48 + x ELSE 87 + x
WEscOne(c) == IF c = 34 THEN <<92, 34>> ELSE IF c = 92 THEN <<92, 92>> ELSE IF c = 10 THEN <<92, 110>>
              ELSE IF c = 13 THEN <<92, 114>> ELSE IF c = 9 THEN <<92, 116>> ELSE IF c = 12 THEN <<92, 102>>
              ELSE IF c = 8 THEN <<92, 98>> ELSE IF c < 32 THEN <<92, 117, 48, 48, WHexD(c \div 16), WHexD(c % 16)>>
              ELSE <<c>>
WQuoted(b) == <<34>> \o FlattenSeq([j \in 1..Len(b) |-> WEscOne(b[j])]) \o <<34>>

\* strcmp order of keys
BytesLess(x, y) ==
    LET n == IF Len(x) < Len(y) THEN Len(x) ELSE Len(y)
        D == {i \in 1..n : x[i] # y[i]}
    IN IF D = {} THEN Len(x) < Len(y)
       ELSE LET d == CHOOSE i \in D : \A j \in D : i <= j IN x[d] < y[d]

\* Var::length() of an item (the 100-character rule adds it up over all items once the first one is a string)
WLength(x) == IF WKind(x) = "s" THEN Len(x.s) ELSE IF WKind(x) = "a" THEN Len(x.a) ELSE IF WKind(x) = "o" THEN Len(x.o) ELSE 0
RECURSIVE SumLen(_, _)
SumLen(a, j) == IF j > Len(a) THEN 0 ELSE WLength(a[j]) + SumLen(a, j + 1)

-------------------------------------------------------------------------------
(* the serializer *)
RECURSIVE Enc(_, _, _)
Enc(t, m, lvl) ==
    LET k == WKind(t) IN
    IF k \in {"z", "none", "nan"} THEN WNull
    ELSE IF k = "inf" THEN (IF t.inf = 1 THEN <<45>> ELSE <<>>) \o <<49, 101, 52, 48, 48>>
    ELSE IF k = "b" THEN WBool(t.b, m)
    ELSE IF k = "i" THEN WInt(t.i)
    ELSE IF k = "d" THEN (IF "g" \in DOMAIN t THEN FmtG(t.g[PIdx(PrecD(m))], PrecD(m)) ELSE <<0>>)
    ELSE IF k = "f" THEN (IF "g" \in DOMAIN t THEN FmtG(t.g[PIdx(PrecF(m))], PrecF(m)) ELSE <<0>>)
    ELSE IF k = "s" THEN WQuoted(t.s)
    ELSE IF k = "a" THEN
        LET a == t.a
            n == Len(a)
            firstC == n > 0 /\ WKind(a[1]) \in {"a", "o"}
            firstS == n > 0 /\ WKind(a[1]) = "s"
            multi == Pretty(m) /\ (n > 10 \/ firstC \/ (firstS /\ SumLen(a, 1) > 100))
            big == firstC \/ firstS
            il == IF multi THEN lvl + 1 ELSE lvl
            Item(i) == (IF i = 1 THEN <<>>
                        ELSE IF multi /\ (big \/ (i - 1) % 16 = 0) THEN Sep2(m) \o NL(il)
                        ELSE Sep1(m)) \o Enc(a[i], m, il)
        IN <<91>> \o (IF multi THEN NL(il) ELSE <<>>) \o FlattenSeq([i \in 1..n |-> Item(i)])
                  \o (IF multi THEN NL(lvl) ELSE <<>>) \o <<93>>
    ELSE \* object
        LET mem == SortSeq(t.o, LAMBDA x, y : BytesLess(x[1], y[1]))
            ty == SelectSeq(mem, LAMBDA p : p[1] = WTypeKey)
            cls == IF ~IsJson(m) /\ ty # <<>> THEN ty[1][2].s ELSE <<>>
            keep == SelectSeq(mem, LAMBDA p : WKind(p[2]) # "none" /\ (IsJson(m) \/ p[1] # WTypeKey))
            il == IF Pretty(m) THEN lvl + 1 ELSE lvl
            Prop(name) == IF IsJson(m) THEN WQuoted(name) \o (IF Pretty(m) THEN <<58, 32>> ELSE <<58>>) ELSE name \o <<61>>
            Mem(j) == (IF j > 1 THEN Sep2(m) ELSE <<>>) \o (IF Pretty(m) THEN NL(il) ELSE <<>>)
                      \o Prop(keep[j][1]) \o Enc(keep[j][2], m, il)
        IN cls \o <<123>> \o FlattenSeq([j \in 1..Len(keep) |-> Mem(j)]) \o (IF Pretty(m) THEN NL(lvl) ELSE <<>>) \o <<125>>

Ser(t, m) == Enc(t, m, 0) \o (IF Pretty(m) THEN <<10>> ELSE <<>>)

-------------------------------------------------------------------------------
(* what a reader of the text can recover: the round-trip clause of C05 holds for Lossy(t), and Lossy(t) = t exactly when
   the tree has no NONE-typed Var and no NaN (the property's domain: "nulls, booleans, ints, *finite* doubles, ...") *)
RECURSIVE Lossy(_)
Lossy(t) ==
    LET k == WKind(t) IN
    IF k \in {"none", "nan"} THEN [z |-> 0]
    ELSE IF k = "a" THEN [a |-> [j \in 1..Len(t.a) |-> Lossy(t.a[j])]]
    ELSE IF k = "o" THEN LET keep == SelectSeq(t.o, LAMBDA p : WKind(p[2]) # "none")
                         IN [o |-> [j \in 1..Len(keep) |-> <<keep[j][1], Lossy(keep[j][2])>>]]
    ELSE t

\* recognized value v (numbers are tokens) denotes the tree t written in mode m: structure, keys, strings, booleans, ints
\* exactly; a real token is the correctly rounded P-digit decimal of the leaf's IEEE pattern (P = 17 / 9: within half an
\* ulp, so that every correctly rounding reader recovers the pattern); an infinity is a token beyond the binary64 range
RECURSIVE WDenotes(_, _, _)
WDenotes(v, t, m) ==
    LET k == Kind(v)
        tk == WKind(t)
    IN IF k = "z" THEN tk = "z"
       ELSE IF k = "b" THEN tk = "b" /\ (t.b = 1) = v.b
       ELSE IF k = "n" THEN
          LET c == Canon(v.n) IN
          IF tk = "i" THEN SameReal(c, IntCanon(t.i))
          ELSE IF tk = "inf" THEN OutOfRange(c) /\ c.e > 0 /\ c.neg = (t.inf = 1)
          ELSE IF tk = "d" THEN
               (IF PrecD(m) = 17 THEN (LET sd == SimpleDbl(c) IN IF sd.ok THEN SameDbl(sd.d, t.d) ELSE WithinHalfUlp(c, t.d))
                ELSE WithinDigits(c, t.d, PrecD(m)))
          ELSE IF tk = "f" THEN (IF PrecF(m) = 9 THEN WithinHalfUlpF(c, t.f) ELSE WithinDigitsF(c, t.f, 7))
          ELSE FALSE
       ELSE IF k = "s" THEN tk = "s" /\ t.s = v.s
       ELSE IF k = "a" THEN tk = "a" /\ Len(t.a) = Len(v.a) /\ \A i \in 1..Len(v.a) : WDenotes(v.a[i], t.a[i], m)
       ELSE /\ tk = "o" /\ Len(t.o) = Len(v.o)
            /\ \A i \in 1..Len(v.o) : \E j \in 1..Len(t.o) : t.o[j][1] = v.o[i][1] /\ WDenotes(v.o[i][2], t.o[j][2], m)

-------------------------------------------------------------------------------
(* text against a serialization with placeholders (byte 0 = "some number token here") *)
NumChar(x) == x \in 48..57 \/ x \in {43, 45, 46, 101, 69}
RECURSIVE MatchFrom(_, _, _, _)
MatchFrom(tx, i, pat, j) ==
    IF j > Len(pat) THEN i = Len(tx) + 1
    ELSE LET q == SelectInSubSeq(pat, j, Len(pat), LAMBDA x : x = 0) IN
         IF q = 0 THEN SubSeq(tx, i, Len(tx)) = SubSeq(pat, j, Len(pat))
         ELSE LET seg == q - j
                  i2 == i + seg
              IN IF i2 - 1 > Len(tx) THEN FALSE
                 ELSE IF SubSeq(tx, i, i2 - 1) # SubSeq(pat, j, q - 1) THEN FALSE
                 ELSE LET e0 == IF i2 > Len(tx) THEN 0 ELSE SelectInSubSeq(tx, i2, Len(tx), LAMBDA x : ~NumChar(x))
                          e == IF e0 = 0 THEN Len(tx) + 1 ELSE e0
                      IN e > i2 /\ MatchFrom(tx, e, pat, q + 1)
MatchLayout(tx, pat) == MatchFrom(tx, 1, pat, 1)

-------------------------------------------------------------------------------
(* What the documentation promises about the *layout* (include/asl/JSON.h, enum Json::Mode and the text above it) - and
   nothing more is demanded of a real text that differs from Ser (rows of 16 items, the TAB, ", " and ": ", the final newline,
   when an array goes multi-line ... are the present implementation, not the contract):
     NONE    "Compact format in a single line" / "a compact format (no newlines or whitespace)":
             without PRETTY there is no line break outside strings, and in the JSON dialect no blank or TAB either
     PRETTY  "Format with newlines and indentations": a value that contains a non-empty object is spread over indented lines
             (some line break is followed by a blank or TAB)
     SIMPLE  "Format real numbers with reduced precision", SHORTF "Format doubles as short as floats", default "numbers are
             written so that they are recovered exactly when parsing": these are the digits laws of WDenotes (PrecD / PrecF)
     JSON    (set by Json::encode / Json::write) the text is JSON: JsonLaw on the real text                              *)
RECURSIVE Unquoted(_, _, _)
\* the text with every string literal replaced by one '"'
Unquoted(t, i, instr) ==
    IF i > Len(t) THEN <<>>
    ELSE IF instr THEN (IF t[i] = 92 THEN Unquoted(t, i + 2, TRUE) ELSE IF t[i] = 34 THEN Unquoted(t, i + 1, FALSE) ELSE Unquoted(t, i + 1, TRUE))
    ELSE IF t[i] = 34 THEN <<34>> \o Unquoted(t, i + 1, TRUE)
    ELSE <<t[i]>> \o Unquoted(t, i + 1, FALSE)
RECURSIVE HasMembers(_)
HasMembers(t) == IF WKind(t) = "a" THEN \E j \in 1..Len(t.a) : HasMembers(t.a[j])
                 ELSE IF WKind(t) = "o" THEN \E j \in 1..Len(t.o) : WKind(t.o[j][2]) # "none" /\ t.o[j][1] # WTypeKey
                 ELSE FALSE
ModePromises(tx, m, t) ==
    LET u == Unquoted(tx, 1, FALSE)
        L == Len(u)
    IN IF Pretty(m)
       THEN HasMembers(t) => \E i \in 1..(L - 1) : u[i] = 10 /\ u[i + 1] \in {9, 32}
       ELSE /\ \A i \in 1..L : u[i] \notin {10, 13}
            /\ IsJson(m) => \A i \in 1..L : u[i] \notin {9, 32}

RECURSIVE AsciiKeys(_)
AsciiKeys(t) == IF WKind(t) = "a" THEN \A j \in 1..Len(t.a) : AsciiKeys(t.a[j])
                ELSE IF WKind(t) = "o" THEN \A j \in 1..Len(t.o) : (\A q \in 1..Len(t.o[j][1]) : t.o[j][1][q] < 128) /\ AsciiKeys(t.o[j][2])
                ELSE TRUE
===============================================================================
