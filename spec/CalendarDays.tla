----------------------------- MODULE CalendarDays -----------------------------
(* C19 - every day of years YLo..YHi as a state machine: NextDay steps (dn, y, m, d, wd) by the successor rule of the
   proleptic Gregorian calendar (month lengths, leap rule 4/100/400).  Invariants: the closed-form day number, its
   closed-form inverse and the year-start table of Calendar.tla agree with the successor rule on every day, and the
   week day advances cyclically.  The years are walked as independent chains of ChunkYears years (one initial state
   per chunk; the last state of a chunk is the first state of the next one, so the seams are checked as well), which
   lets TLC use all workers.

   R: each completed month is printed as one JSON line (ACTION_CONSTRAINT Emit): the calendar fields of each of its
   days, together with the clock fields of the times of day in Tods - harness/c19_replay runs Date::splitUTC() and
   Date(UTC, ...) of the real library on every (day, time of day) and compares.                                  *)
EXTENDS Calendar, TLC, Json

CONSTANTS YLo, YHi, ChunkYears,
          Dense      \* FALSE: 00:00:00, 12:00:00, 23:59:59; TRUE: also the seconds next to minute/hour/noon edges
Tods == IF Dense THEN <<0, 1, 59, 60, 3599, 3600, 43199, 43200, 43201, 86340, 86398, 86399>> ELSE <<0, 43200, 86399>>

VARIABLES dn, y, m, d, wd, rows      \* rows: history of the current month (hidden by the VIEW)
vars == <<dn, y, m, d, wd, rows>>

ChunkStarts == {yy \in YLo..YHi : (yy - YLo) % ChunkYears = 0}

Init == /\ y \in ChunkStarts /\ m = 1 /\ d = 1
        /\ dn = DaysFromCivil(y, 1, 1)
        /\ wd = Weekday(dn)
        /\ rows = << <<dn, d, wd>> >>

\* the successor rule
NextDay ==
    /\ rows # <<>>                         \* a chain ends on the first day of the next chunk (rows = <<>> there)
    /\ dn' = dn + 1
    /\ wd' = (wd + 1) % 7
    /\ IF d < DaysInMonth(y, m) THEN d' = d + 1 /\ m' = m /\ y' = y
       ELSE IF m < 12 THEN d' = 1 /\ m' = m + 1 /\ y' = y
       ELSE d' = 1 /\ m' = 1 /\ y' = y + 1
    /\ rows' = IF d' = 1 THEN (IF m' = 1 /\ (y' \in ChunkStarts \/ y' > YHi) THEN <<>> ELSE << <<dn', d', wd'>> >>)
               ELSE Append(rows, <<dn', d', wd'>>)

Spec == Init /\ [][NextDay]_vars

-------------------------------------------------------------------------------
Agree == /\ dn = DaysFromCivil(y, m, d)
         /\ dn = DaysFromTable(y, m, d)
         /\ CivilFromDays(dn) = [y |-> y, m |-> m, d |-> d]
         /\ wd = Weekday(dn)
         /\ d \in 1..DaysInMonth(y, m) /\ m \in 1..12
YearLength == (m = 1 /\ d = 1) => DaysFromCivil(y + 1, 1, 1) - dn = DaysInYear(y)
Epoch == (y = 1970 /\ m = 1 /\ d = 1) => (dn = 0 /\ wd = 4)

View == <<dn, y, m, d, wd, rows = <<>> >>
TodRows == [k \in 1..Len(Tods) |-> LET c == ClockOf(Tods[k]) IN <<Tods[k], c.h, c.mi, c.s>>]
Emit == (d' = 1) => PrintT(ToJson([k |-> "month", y |-> y, m |-> m, rows |-> rows, tod |-> TodRows]))
===============================================================================
