SPECIFICATION Spec
CONSTANTS
 Names <- NamesOne
 AttrNames <- AttrNamesOne
 Values <- ValuesOne
 Texts <- TextsTwo
 Variants <- VariantsOne
 Comments <- CommentsSmall
 PIs <- PIsSmall
 Doctypes <- DoctypesSmall
 Decls <- DeclsSmall
 TopWs <- TopWsSmall
 MaxDepth = 2
 MaxKids = 2
 MaxAttrs = 1
 MaxTok = 4
 MaxBadTail = 1
 GuardRoot = FALSE
INVARIANTS SMTotal
CHECK_DEADLOCK FALSE
