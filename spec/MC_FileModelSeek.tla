---------------------------- MODULE MC_FileModelSeek ----------------------------
(* constant definitions for the configurations of FileModelSeek *)
EXTENDS FileModelSeek
\* a byte, two bytes with a line end, a NUL byte (binary), a line with CR LF
ChunksQ == { <<120>>, <<121, 10>>, <<0, 255>> }
ChunksT == { <<>>, <<120>>, <<121, 10>>, <<0, 255>>, <<122, 13, 10, 119>> }
IntsQ == {-7, 120}
IntsT == {-7, 0, 120}
OffsQ == {-1, 0, 2}
OffsT == {-2, -1, 0, 1, 3}
ExtsQ == { <<46, 116, 109, 112>> }                  \* ".tmp"
ExtsT == { <<46, 116, 109, 112>>, <<>>, <<46, 97, 46, 98>> }
===============================================================================
