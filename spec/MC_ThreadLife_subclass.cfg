SPECIFICATION FairSpec
CONSTANTS
 Flavour = "subclass"
 SelfCopy = FALSE
INVARIANTS RunsOnce JoinAfterBody FinishedAfterJoin
PROPERTY Terminates
ACTION_CONSTRAINT Emit
CHECK_DEADLOCK FALSE
