SPECIFICATION Spec
CONSTANTS
 MaxItems = 3
 StrLens = {0, 15, 16, 100, 255, 256}
 IntArgs <- IntsB
 HexArgs <- HexB
 N0 = {0, 1, 16, 30, 300}
INVARIANTS RenderOK
ACTION_CONSTRAINT Emit
CHECK_DEADLOCK FALSE
