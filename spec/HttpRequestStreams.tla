-------------------------- MODULE HttpRequestStreams --------------------------
(* C09, request streams with the fault "peer closes after k bytes".

   A state is (first request, optional pipelined second request, cut offset k).  Init picks the requests from the
   families below with k = whole stream; the action Cut shortens the stream by one byte.  For every state the spec says
   which requests the application must have been handed: exactly those that are complete within the first k bytes, in
   order, each with the method, target, decoded path, query parameters, headers and body that were sent - or nothing.

   Checked by TLC on every state:
     GenVsRec    the recognizer ParseStream applied to the cut stream finds exactly the requests the generator says are
                 complete (generator and recognizer are independent formulations of the grammar)
     PathsSafe   no expected path contains ".."
     PrefixMono  cutting never adds or alters a dispatched request
   Every state is emitted as a case for harness/c09_replay.cpp (R).                                                *)
EXTENDS HttpRequest, Json

CONSTANTS Profile      \* "quick" | "thorough" : how large the families are

VARIABLES r1, r2, k
vars == <<r1, r2, k>>

None == [none |-> TRUE]

\* --- vocabulary ---------------------------------------------------------------------------------------------
GET == <<71, 69, 84>>  POST == <<80, 79, 83, 84>>  DELETE == <<68, 69, 76, 69, 84, 69>>
H(n, sep, v) == [n |-> n, sep |-> sep, v |-> v, fold |-> <<>>]
Host      == <<72, 111, 115, 116>>                \* Host
hostlc    == <<104, 111, 115, 116>>               \* host
XLONG     == <<88, 45, 76, 79, 78, 71, 45, 110, 97, 109, 101>>  \* X-LONG-name
Accept    == <<65, 99, 99, 101, 112, 116>>        \* Accept
Expect_   == <<69, 120, 112, 101, 99, 116>>       \* Expect
Range_    == <<82, 97, 110, 103, 101>>            \* Range
XFold     == <<88, 45, 70, 111, 108, 100>>        \* X-Fold
v_h       == <<104>>                              \* h
v_ex      == <<101, 120, 46, 111, 114, 103, 58, 56, 48>> \* ex.org:80
v_ab      == <<97, 58, 32, 98>>                   \* "a: b"
v_100     == <<49, 48, 48, 45, 99, 111, 110, 116, 105, 110, 117, 101>> \* 100-continue
bytesEq   == <<98, 121, 116, 101, 115, 61>>       \* bytes=

T_root  == <<47>>
T_ab    == <<47, 97, 47, 98>>
T_q     == <<47, 97, 37, 50, 48, 98, 63, 120, 61, 49, 38, 121, 61, 98, 37, 50, 54, 99>>   \* /a%20b?x=1&y=b%26c
T_qf    == <<47, 97, 63, 107, 61, 118, 35, 102, 114>>                                   \* /a?k=v#fr
T_fq    == <<47, 97, 35, 102, 63, 120, 61, 49>>                                         \* /a#f?x=1
T_dd    == <<47, 97, 47, 46, 46, 47, 98>>                                               \* /a/../b
T_pdd   == <<47, 37, 50, 101, 37, 50, 69, 47, 120>>                                     \* /%2e%2E/x
T_plus  == <<47, 113, 63, 97, 61, 49, 43, 50, 38, 98, 61>>                              \* /q?a=1+2&b=
T_file  == <<47, 102>>                                                                  \* /f
T_p     == <<47, 112>>                                                                  \* /p
T_nul   == <<47, 97, 37, 48, 48, 47, 46, 46, 47, 46, 46>>                               \* /a%00/../..

B_abc  == <<97, 98, 99>>
B_bin  == <<97, 13, 10, 0, 98, 255>>
B_20   == [i \in 1..20 |-> 64 + i]
B_get  == <<71, 69, 84, 32, 47>>        \* a body that looks like the start of a request line

Req(m, t, v, hs, fr, body, cs, eol) == [m |-> m, t |-> t, v |-> v, hs |-> hs, fr |-> fr, body |-> body, cs |-> cs, eol |-> eol, junk |-> <<>>]
Junk(r, lines) == [r EXCEPT !.junk = lines]
Plain(m, t, hs) == Req(m, t, 1, hs, "none", <<>>, <<>>, CRLF)

StdHost == <<H(Host, <<SP>>, v_h)>>

Targets == IF Profile = "quick" THEN {T_root, T_q, T_qf, T_fq, T_pdd, T_plus, T_nul}
           ELSE {T_root, T_ab, T_q, T_qf, T_fq, T_dd, T_pdd, T_plus, T_nul}
Methods == IF Profile = "quick" THEN {GET, POST} ELSE {GET, POST, DELETE}

HeaderLists ==
    { <<>>,
      StdHost,
      <<H(hostlc, <<>>, v_h)>>,                                       \* "host:h"        (no blank after the colon)
      <<H(Host, <<>>, v_ex), H(Accept, <<SP>>, v_ab)>>,               \* value with ':' and port, colon inside a value
      <<H(XLONG, <<SP, SP>>, v_h \o <<SP, SP>>)>>,                    \* blanks around the value are not part of it
      <<H(Host, <<SP>>, v_h), H(XLONG, <<HT>>, v_ab), H(Accept, <<>>, <<42, 47, 42>>)>>,
      <<H(HConnection, <<SP>>, VClose)>>,
      <<H(HConnection, <<SP>>, VKeepAlive)>>,
      <<H(Accept, <<SP>>, <<>>)>> }                                    \* empty value

Bodies == IF Profile = "quick" THEN {<<>>, B_abc, B_bin} ELSE {<<>>, B_abc, B_bin, B_20, B_get}
\* some ways to cut a body into chunks
Chunkings(b) == IF Len(b) = 0 THEN {<<>>}
                ELSE IF Len(b) <= 3 THEN {<<Len(b)>>, <<1, Len(b) - 1>>}
                ELSE {<<Len(b)>>, <<1, Len(b) - 1>>, <<Len(b) - 2, 1, 1>>}

Ranges == { <<50, 45, 53>>,            \* 2-5
            <<53>>,                    \* 5        (no '-')
            <<45, 51>>,                \* -3
            <<55, 45>>,                \* 7-
            <<97, 45, 98>>,            \* a-b
            <<50, 45, 53, 44, 55, 45, 56>>,  \* 2-5,7-8
            <<53, 45, 50>>,            \* 5-2
            <<48, 45, 57, 57>>,        \* 0-99
            <<>> }

F_line   == { Plain(m, t, StdHost) : m \in Methods, t \in Targets }
F_head   == { Plain(GET, T_ab, hs) : hs \in HeaderLists } \cup { Req(GET, T_ab, 0, hs, "none", <<>>, <<>>, CRLF) : hs \in {<<>>, <<H(HConnection, <<SP>>, VKeepAlive)>>} }
F_body   == { Req(POST, T_p, 1, StdHost, "cl", b, <<>>, CRLF) : b \in Bodies }
            \cup UNION { { Req(POST, T_p, 1, StdHost, "ch", b, cs, CRLF) : cs \in Chunkings(b) } : b \in Bodies }
            \cup { Req(POST, T_p, 1, <<H(Expect_, <<SP>>, v_100)>>, "cl", B_abc, <<>>, CRLF) }
\* every way of writing the header block combined with a body in both framings
F_mix    == { Req(POST, T_p, 1, hs, "cl", B_abc, <<>>, CRLF) : hs \in HeaderLists } \cup { Req(POST, T_q, 1, hs, "ch", B_abc, <<1, 2>>, CRLF) : hs \in HeaderLists }
F_range  == { Plain(GET, T_file, <<H(Range_, <<SP>>, bytesEq \o r)>>) : r \in Ranges }
\* outside the strict grammar: bare LF line ends, folded header line
F_len    == { Req(GET, T_ab, 1, StdHost, "none", <<>>, <<>>, <<LF>>),
              Req(POST, T_p, 1, StdHost, "cl", B_abc, <<>>, <<LF>>),
              Plain(GET, T_ab, <<[n |-> XFold, sep |-> <<SP>>, v |-> <<111, 110, 101>>, fold |-> <<116, 119, 111>>]>>) }

\* malformed: a line without ':' inside the header block (the request must not reach the application)
NoColon == <<66, 97, 100, 76, 105, 110, 101>>     \* BadLine
F_bad    == { Junk(Plain(GET, T_ab, StdHost), <<NoColon>>),
              Junk(Req(POST, T_p, 1, StdHost, "cl", B_abc, <<>>, CRLF), <<NoColon>>),
              Junk(Plain(GET, T_ab, <<>>), <<NoColon, <<88, 58, 32, 121>>>>) }     \* BadLine / X: y

\* thorough: the full product method x target x header block x framing
Framings == {<<"none", <<>>, <<>>>>} \cup {<<"cl", b, <<>>>> : b \in Bodies} \cup UNION {{<<"ch", b, cs>> : cs \in Chunkings(b)} : b \in Bodies}
F_prod   == IF Profile = "quick" THEN {}
            ELSE { Req(m, t, 1, hs, f[1], f[2], f[3], CRLF) : m \in Methods, t \in Targets, hs \in HeaderLists, f \in Framings }

Firsts  == F_line \cup F_head \cup F_body \cup F_mix \cup F_range \cup F_len \cup F_bad \cup F_prod
\* pipelined pairs: the second request follows the first on the same connection
PipeFirst  == { Plain(GET, T_ab, StdHost), Junk(Plain(GET, T_ab, StdHost), <<NoColon>>), Req(POST, T_p, 1, StdHost, "cl", B_abc, <<>>, CRLF), Req(POST, T_p, 1, StdHost, "ch", B_abc, <<1, 2>>, CRLF),
                Plain(GET, T_ab, <<H(HConnection, <<SP>>, VClose)>>), Req(GET, T_ab, 0, <<>>, "none", <<>>, <<>>, CRLF),
                Req(GET, T_ab, 0, <<H(HConnection, <<SP>>, VKeepAlive)>>, "none", <<>>, <<>>, CRLF),
                Req(POST, T_p, 1, <<H(Expect_, <<SP>>, v_100)>>, "cl", B_abc, <<>>, CRLF) }
PipeSecond == { Plain(GET, T_q, StdHost), Req(POST, T_root, 1, <<>>, "cl", B_bin, <<>>, CRLF) }

IsLenient(r) == r.eol # CRLF \/ \E i \in 1..Len(r.hs) : r.hs[i].fold # <<>>

W1 == Wire(r1)
W2 == IF r2 = None THEN <<>> ELSE Wire(r2)
W  == W1 \o W2

Init == /\ \/ r1 \in Firsts /\ r2 = None
           \/ r1 \in PipeFirst /\ r2 \in PipeSecond
        /\ k = Len(Wire(r1)) + (IF r2 = None THEN 0 ELSE Len(Wire(r2)))
Cut == k > 0 /\ k' = k - 1 /\ UNCHANGED <<r1, r2>>
Next == Cut
Spec == Init /\ [][Next]_vars

\* --- what the application must see ----------------------------------------------------------------------------
\* the requests complete within the first kk bytes (generator's view)
Complete(a, b, kk) ==
    IF a.junk # <<>> THEN <<>>       \* malformed: dropped, and the connection with it
    ELSE (IF kk >= Len(Wire(a)) THEN <<Expect(a)>> ELSE <<>>)
         \o (IF b # None /\ b.junk = <<>> /\ Persistent(Expect(a)) /\ kk >= Len(Wire(a)) + Len(Wire(b)) THEN <<Expect(b)>> ELSE <<>>)

Out(x) == LET st == SplitTarget(x.t) IN
          [m |-> x.m, t |-> x.t, v |-> x.v, hs |-> x.hs, body |-> x.body,
           path |-> NormPath(x.t), pstrict |-> TargetStrict(x.t),
           q |-> st.query, qp |-> IF QueryStrict(st.query) THEN ParseQuery(st.query) ELSE <<>>,
           qstrict |-> (st.query = <<>> \/ QueryStrict(st.query)),
           \* "Expect: 100-continue": the server answers with an interim 100 response before it reads the body
           cont100 |-> (HeaderOf(x.hs, LowerSeq(Expect_)) = v_100)]
ExpectedAt(a, b, kk) == LET c == Complete(a, b, kk) IN [i \in 1..Len(c) |-> Out(c[i])]

Strict == ~IsLenient(r1) /\ (r2 = None \/ ~IsLenient(r2))

GenVsRec == Strict => LET R == ParseStream(SubSeq(W, 1, k))
                          ps == R.reqs
                          c == Complete(r1, r2, k)
                      IN /\ Len(ps) = Len(c)
                         /\ \A i \in 1..Len(c) : ps[i].x = c[i]
                         /\ (Len(c) >= 1 => ps[1].end = Len(W1))
                         /\ (Len(c) = 2 => ps[2].end = Len(W))
                         \* a cut well-formed stream is an incomplete one (never a malformed one); a malformed line is recognised as such
                         /\ (r1.junk = <<>> /\ (r2 = None \/ r2.junk = <<>>)) => R.st \in {"end", "closed", "inc"}
                         /\ (k = Len(W) /\ r1.junk # <<>>) => R.st = "bad"
PathsSafe == \A i \in 1..Len(ExpectedAt(r1, r2, k)) : ~HasDD(ExpectedAt(r1, r2, k)[i].path)
PrefixMono == [][LET a == Complete(r1, r2, k) b == Complete(r1, r2, k') IN Len(b) <= Len(a) /\ \A i \in 1..Len(b) : b[i] = a[i]]_vars
\* chunk sizes are a partition of the body (sanity of the families)
FamiliesOK == \A r \in {r1} \cup (IF r2 = None THEN {} ELSE {r2}) :
                 r.fr = "ch" => LET RECURSIVE Sum(_) Sum(s) == IF s = <<>> THEN 0 ELSE Head(s) + Sum(Tail(s)) IN Sum(r.cs) = Len(r.body)

Hz(a, b) == LET ts == {a.t} \cup (IF b = None THEN {} ELSE {b.t}) IN
            (IF \E t \in ts : IndexOf(t, HASH) > 0 /\ IndexFrom(t, QM, IndexOf(t, HASH)) > 0 THEN {"FragmentBeforeQuery"} ELSE {})
            \cup (IF \E t \in ts : HasNul(PctDecode(SplitTarget(t).path)) THEN {"NulInPath"} ELSE {})

EmitRec(a, b, kk) ==
    [k |-> "req", w |-> SubSeq(Wire(a) \o (IF b = None THEN <<>> ELSE Wire(b)), 1, kk), cut |-> kk,
     total |-> Len(Wire(a)) + (IF b = None THEN 0 ELSE Len(Wire(b))),
     exp |-> ExpectedAt(a, b, kk), lenient |-> (IsLenient(a) \/ (b # None /\ IsLenient(b))), hz |-> Hz(a, b)]
\* initial states are emitted through the first Cut transition as well (both ends of the transition)
Emit == /\ (k = Len(W) => PrintT(ToJson(EmitRec(r1, r2, k))))
        /\ PrintT(ToJson(EmitRec(r1', r2', k')))
================================================================================
