SPECIFICATION Spec
CONSTANTS
 Type = "array"
 NT = 2
 NO = 2
 NS = 3
 NB = 2
 Shape = "flat"
 Ext = {}
 MaxOps = 2
VIEW View
ACTION_CONSTRAINT Emit
INVARIANTS NoUseAfterFree AliveWhileHandles DestroyedOnce CountsMatch ReleasedWithLastHandle NoHalfDestroyed SubtreeAlive
CHECK_DEADLOCK FALSE
