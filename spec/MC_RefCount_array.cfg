SPECIFICATION Spec
CONSTANTS
 Type = "array"
 NT = 2
 NO = 2
 NS = 3
 MaxOps = 2
VIEW View
ACTION_CONSTRAINT Emit
INVARIANTS NoUseAfterFree AliveWhileHandles DestroyedOnce CountsMatch ReleasedWithLastHandle
CHECK_DEADLOCK FALSE
