SPECIFICATION Spec
CONSTANTS
 Alpha = {97, 98, 44, 32}
 PatAlpha = {97, 98, 44}
 MaxLen = 7
 VarMax = 4
 VarLens = {14, 15, 16, 17, 19, 20, 23, 24, 32, 33}
 Repls <- ReplsB
INVARIANTS SplitJoin ReplaceIsSplitJoin PartsCount ScanIsMin LastIsMax TrimTwoWays WsTwoWays CompareOK SubstrOK
ACTION_CONSTRAINT Emit
CHECK_DEADLOCK FALSE
