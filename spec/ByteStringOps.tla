---------------------------- MODULE ByteStringOps ----------------------------
(* C03 - the reference byte-string model: what every asl::String operation returns, defined on sequences of bytes
   (naturals 1..255; no embedded NUL).  Pure operators only.  Indices are those of the C++ API (0-based; substring
   (i, j) excludes j).  Patterns and separators are non-empty (the property's quantifier).

   Several operations have two independently written definitions which TLC checks against each other in
   MC_ByteStringOps.tla (scan vs. minimum of the match set; replace vs. split-then-join; trim by index vs. by
   stripping; whitespace split vs. replace-split-filter).                                                       *)
EXTENDS Integers, Sequences

IsSpace(c) == c = 32 \/ c = 9 \/ c = 10 \/ c = 13
Sub(s, i, j) == SubSeq(s, i + 1, j)                                  \* substring(i, j)
Rep(c, n) == [i \in 1..n |-> c]                                      \* String::repeat(c, n); <<>> for n <= 0
Cyc(u, n) == [i \in 1..n |-> u[((i - 1) % Len(u)) + 1]]               \* u repeated/truncated to exactly n bytes

-------------------------------------------------------------------------------
(* search *)
MatchAt(s, p, i) == i >= 0 /\ i + Len(p) <= Len(s) /\ \A k \in 1..Len(p) : s[i + k] = p[k]
RECURSIVE ScanFwd(_, _, _)
ScanFwd(s, p, i) == IF i + Len(p) > Len(s) THEN 0 - 1 ELSE IF MatchAt(s, p, i) THEN i ELSE ScanFwd(s, p, i + 1)
IndexOf(s, p, i0) == ScanFwd(s, p, i0)                               \* first occurrence at or after i0, or -1
Matches(s, p, i0) == {i \in i0..(Len(s) - Len(p)) : MatchAt(s, p, i)}
IndexOfMin(s, p, i0) == LET M == Matches(s, p, i0) IN IF M = {} THEN 0 - 1 ELSE CHOOSE i \in M : \A j \in M : i <= j
LastIndexOf(s, p) == LET M == Matches(s, p, 0) IN IF M = {} THEN 0 - 1 ELSE CHOOSE i \in M : \A j \in M : j <= i
IndexOfChar(s, c, i0) == IndexOf(s, <<c>>, i0)
LastIndexOfChar(s, c) == LastIndexOf(s, <<c>>)
Contains(s, p) == IndexOf(s, p, 0) >= 0
StartsWith(s, p) == MatchAt(s, p, 0)
EndsWith(s, p) == MatchAt(s, p, Len(s) - Len(p))
\* number of non-overlapping occurrences found scanning left to right
RECURSIVE CountFrom(_, _, _)
CountFrom(s, p, i) == LET j == IndexOf(s, p, i) IN IF j < 0 THEN 0 ELSE 1 + CountFrom(s, p, j + Len(p))

-------------------------------------------------------------------------------
(* pieces *)
Substring(s, i, j) == Sub(s, i, j)                                   \* 0 <= i <= j <= Len(s)
Substr(s, i, n) ==                                                   \* -Len(s) <= i, n >= 0; negative i counts from the end
    LET i1 == IF i < 0 THEN i + Len(s) ELSE i
        i2 == IF i1 >= Len(s) THEN Len(s) ELSE i1
        j == IF i2 + n > Len(s) THEN Len(s) ELSE i2 + n
    IN Sub(s, i2, j)

RECURSIVE SkipL(_, _)
SkipL(s, i) == IF i < Len(s) /\ IsSpace(s[i + 1]) THEN SkipL(s, i + 1) ELSE i
RECURSIVE SkipR(_, _, _)
SkipR(s, j, i) == IF j > i /\ IsSpace(s[j]) THEN SkipR(s, j - 1, i) ELSE j
Trimmed(s) == LET i == SkipL(s, 0) IN Sub(s, i, SkipR(s, Len(s), i))
\* second formulation: strip one byte at a time
RECURSIVE Strip(_)
Strip(s) == IF s = <<>> THEN s
            ELSE IF IsSpace(s[1]) THEN Strip(Tail(s))
            ELSE IF IsSpace(s[Len(s)]) THEN Strip(SubSeq(s, 1, Len(s) - 1))
            ELSE s

-------------------------------------------------------------------------------
(* split / join / replace *)
RECURSIVE SplitFrom(_, _, _)
SplitFrom(s, sep, i) == LET j == IndexOf(s, sep, i) IN
                        IF j < 0 THEN <<Sub(s, i, Len(s))>> ELSE <<Sub(s, i, j)>> \o SplitFrom(s, sep, j + Len(sep))
Split(s, sep) == SplitFrom(s, sep, 0)
RECURSIVE Join(_, _)
Join(parts, sep) == IF parts = <<>> THEN <<>>
                    ELSE IF Len(parts) = 1 THEN parts[1]
                    ELSE parts[1] \o sep \o Join(Tail(parts), sep)
RECURSIVE ReplFrom(_, _, _, _)
ReplFrom(s, a, b, i) == LET j == IndexOf(s, a, i) IN
                        IF j < 0 THEN Sub(s, i, Len(s)) ELSE Sub(s, i, j) \o b \o ReplFrom(s, a, b, j + Len(a))
Replace(s, a, b) == ReplFrom(s, a, b, 0)                             \* left to right, non-overlapping, not re-scanned
ReplaceChar(s, a, b) == [i \in 1..Len(s) |-> IF s[i] = a THEN b ELSE s[i]]      \* replaceme()

RECURSIVE WordEnd(_, _)
WordEnd(s, j) == IF j < Len(s) /\ ~IsSpace(s[j + 1]) THEN WordEnd(s, j + 1) ELSE j
RECURSIVE WsFrom(_, _)
WsFrom(s, i) == IF i >= Len(s) THEN <<>>
                ELSE IF IsSpace(s[i + 1]) THEN WsFrom(s, i + 1)
                ELSE LET e == WordEnd(s, i) IN <<Sub(s, i, e)>> \o WsFrom(s, e)
SplitWs(s) == WsFrom(s, 0)                                           \* split(): maximal runs of non-space bytes
\* second formulation: turn every space byte into ' ', split by ' ', drop the empty parts
NonEmpty(parts) == SelectSeq(parts, LAMBDA x : x # <<>>)
SplitWs2(s) == NonEmpty(Split([i \in 1..Len(s) |-> IF IsSpace(s[i]) THEN 32 ELSE s[i]], <<32>>))

-------------------------------------------------------------------------------
(* comparison: strcmp order on unsigned bytes; -1, 0, 1 *)
RECURSIVE CmpFrom(_, _, _)
CmpFrom(s, t, i) == IF i > Len(s) /\ i > Len(t) THEN 0
                    ELSE IF i > Len(s) THEN 0 - 1
                    ELSE IF i > Len(t) THEN 1
                    ELSE IF s[i] < t[i] THEN 0 - 1
                    ELSE IF s[i] > t[i] THEN 1
                    ELSE CmpFrom(s, t, i + 1)
Compare(s, t) == CmpFrom(s, t, 1)
Sign(n) == IF n < 0 THEN 0 - 1 ELSE IF n > 0 THEN 1 ELSE 0

-------------------------------------------------------------------------------
(* printf-style formatting of the tested shapes: %d %i %x %c %s %% with width and the flags "0" and "-".
   An item is a record: [t |-> "lit", s |-> bytes]   literal text (no '%')
                        [t |-> "d" or "i" or "x", w |-> width (0 = none), f |-> "" / "0" / "-", n |-> integer argument]
                        [t |-> "c", w, f |-> "" / "-", n |-> byte]   [t |-> "s", w, f |-> "" / "-", s |-> bytes]   [t |-> "pct"]
   %d/%i arguments are within -(2^31-1)..2^31-1, %x arguments within 0..2^31-1 (TLC integers are 32-bit).      *)
RECURSIVE NatDigits(_, _)
NatDigits(n, base) == IF n = 0 THEN <<>> ELSE LET d == n % base IN Append(NatDigits(n \div base, base), IF d < 10 THEN 48 + d ELSE 87 + d)
NatText(n, base) == IF n = 0 THEN <<48>> ELSE NatDigits(n, base)
PadTo(body, w, f, sign) ==          \* sign: bytes that stay in front of zero padding
    LET k == w - Len(sign) - Len(body) IN
    IF k <= 0 THEN sign \o body
    ELSE IF f = "-" THEN sign \o body \o Rep(32, k)
    ELSE IF f = "0" THEN sign \o Rep(48, k) \o body
    ELSE Rep(32, k) \o sign \o body
RenderItem(it) ==
    IF it.t = "lit" THEN it.s
    ELSE IF it.t = "pct" THEN <<37>>
    ELSE IF it.t = "d" \/ it.t = "i" THEN PadTo(NatText(IF it.n < 0 THEN 0 - it.n ELSE it.n, 10), it.w, it.f, IF it.n < 0 THEN <<45>> ELSE <<>>)
    ELSE IF it.t = "x" THEN PadTo(NatText(it.n, 16), it.w, it.f, <<>>)
    ELSE IF it.t = "c" THEN PadTo(<<it.n>>, it.w, it.f, <<>>)
    ELSE PadTo(it.s, it.w, it.f, <<>>)
RECURSIVE Render(_)
Render(items) == IF items = <<>> THEN <<>> ELSE RenderItem(Head(items)) \o Render(Tail(items))
===============================================================================
