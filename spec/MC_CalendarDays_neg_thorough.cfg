SPECIFICATION Spec
CONSTANTS
 YLo <- NegLoThorough
 YHi = 0
 ChunkYears = 50
 Dense = TRUE
VIEW View
ACTION_CONSTRAINT Emit
INVARIANTS Agree YearLength
CHECK_DEADLOCK FALSE
