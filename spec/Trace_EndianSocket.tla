-------------------------- MODULE Trace_EndianSocket --------------------------
(* V binding for the socket lane of C16: validates executions recorded from a real asl::Socket / LocalSocket reading
   from a raw POSIX peer (harness/c16_sock_record.cpp) against the actions of EndianSocket.  "plan" events give the peer
   further steps (the bytes it will send, chunk by chunk, and its close), "peer" performs the next one at a quiescent
   point, every reader event carries what the real call returned (value as bit pattern, count, bytes, flags) and
   error() != 0 afterwards.  TLC computes the results from the planned bytes: the trace is accepted iff every line is the
   corresponding EndianSocket step with exactly those results.  The value of a scalar read cut short by the peer's
   close is not compared (unspecified), its error flag is. *)
EXTENDS EndianSocket, IOUtils

T == ndJsonDeserialize(IOEnv.TRACE)
VARIABLE l
tvars == <<vars, l>>

TracePlans == {[id |-> 0, tr |-> "pair", fam |-> {}, raw |-> {}, depth |-> 0, steps |-> <<>>]}
TInit == Init /\ l = 1

Last == hist'[Len(hist')]

TStep ==
  /\ l <= Len(T)
  /\ l' = l + 1
  /\ LET e == T[l] IN
     \/ /\ e.op = "reset" /\ e.tr \in Transports
        /\ plan' = [id |-> 0, tr |-> e.tr, fam |-> {}, raw |-> {}, depth |-> 0]
        /\ sched' = <<>> /\ avail' = <<>> /\ closed' = FALSE /\ err' = FALSE /\ rclosed' = FALSE /\ rorder' = "NATIVE"
        /\ hist' = <<>> /\ hz' = {} /\ sent' = <<>> /\ taken' = <<>>
     \/ /\ e.op = "plan"
        /\ {i \in 1..Len(e.steps) : ~StepOK(e.steps[i])} = {}
        /\ sched' = sched \o e.steps
        /\ UNCHANGED <<plan, avail, closed, rorder, err, rclosed, sent, taken>>
        /\ Log([op |-> "plan"], {})
     \/ /\ e.op = "peer" /\ PeerStep
     \/ /\ e.op = "set"  /\ SetEndian(e.o) /\ Last.e = e.e
     \/ /\ e.op = "rclose" /\ RClose /\ Last.e = e.e
     \/ /\ e.op = "r" /\ e.t \in AllTypes /\ ReadScalar(e.t, e.k)
        /\ Last.full => Last.v = e.v
        /\ Last.e = e.e
     \/ /\ e.op \in {"rp", "rb", "rstr", "skip"} /\ ReadRaw(e.op, e.n, e.k)
        /\ e.op = "rp" => Last.got = e.got
        /\ e.op # "skip" => Last.d = e.d
        /\ Last.e = e.e
     \/ /\ e.op = "rall"  /\ ReadAll /\ Last.d = e.d /\ Last.e = e.e
     \/ /\ e.op = "avail" /\ Available /\ Last.r = e.r /\ Last.e = e.e
     \/ /\ e.op = "disc"  /\ Disconnected /\ Last.r = e.r /\ e.c = ~e.r /\ Last.e = e.e
     \/ /\ e.op = "wi" /\ (IF e.k = 0 THEN WaitInput ELSE WaitBlocking("wi")) /\ Last.r = e.r /\ Last.k = e.k /\ Last.e = e.e
     \/ /\ e.op = "wd" /\ (IF e.k = 0 THEN WaitData  ELSE WaitBlocking("wd")) /\ Last.r = e.r /\ Last.k = e.k /\ Last.e = e.e

TraceSpec == TInit /\ [][TStep]_tvars
TraceAccepted == TLCGet("stats").diameter - 1 = Len(T)
===============================================================================
