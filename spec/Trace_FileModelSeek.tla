---------------------------- MODULE Trace_FileModelSeek ----------------------------
(* V binding for FileModelSeek: validates executions of one real TextFile object (open modes, seek / position / end / read /
   write / readLine / size) and of the temporaries writing its path, recorded by harness/c17_fs_record.cpp (--mode 1) with
   contents of up to a few thousand bytes.  One ndjson line per call with its arguments and results; "obs" lines carry what
   POSIX read() and fresh File objects found, "times" lines the modification / creation times with the wall-clock bracket
   of the execution.  Accepted iff every line is the FileModelSeek step with exactly the logged result.            *)
EXTENDS FileModelSeek, IOUtils

T == ndJsonDeserialize(IOEnv.TRACE)
VARIABLES l, t0
tvars == <<vars, l, t0>>

TInit == Init /\ l = 1 /\ t0 = 0
Last1 == hist'[Len(hist')]

TStep ==
  /\ l <= Len(T)
  /\ l' = l + 1
  /\ LET e == T[l] IN
     \/ /\ e.op = "reset"
        /\ fs' = NoFile /\ hmode' = "closed" /\ hpos' = 0 /\ posdef' = TRUE /\ heof' = FALSE /\ dirty' = FALSE /\ last' = "n"
        /\ hknown' = -1 /\ mt' = NONE /\ temps' = 0 /\ hist' = <<>>
        /\ t0' = e.t0
     \/ /\ e.op # "reset" /\ UNCHANGED t0
        /\ \/ /\ e.op = "open"     /\ HOpen(e.m) /\ Last1.r = e.r
           \/ /\ e.op = "write"    /\ HWrite(e.d, e.api, e.n) /\ (e.api = "bin" => e.r = Len(e.d))
                                   /\ (e.api \in {"int", "printf"} => e.d = TextOfInt(e.n, e.api))
           \/ /\ e.op = "read"     /\ HRead(e.n) /\ Last1.r = e.r
           \/ /\ e.op = "seek"     /\ HSeek(e.off, e.from)
           \/ /\ e.op = "pos"      /\ HPosition /\ Last1.r = e.r
           \/ /\ e.op = "end"      /\ HEnd /\ Last1.r = e.r
           \/ /\ e.op = "tend"     /\ HEndClosed /\ Last1.r = e.r
           \/ /\ e.op = "flush"    /\ HFlush
           \/ /\ e.op = "close"    /\ HClose
           \/ /\ e.op = "close"    /\ HCloseClosed
           \/ /\ e.op = "hsize"    /\ HSize /\ Last1.r = e.r
           \/ /\ e.op = "readline" /\ HReadLine /\ Last1.r = e.r /\ (e.asked /\ Last1.okdef => Last1.ok = e.ok)
           \/ /\ e.op = "oput"     /\ OtherPut(e.d, e.api, e.n) /\ (e.api \in {"int", "printf"} => e.d = TextOfInt(e.n, e.api))
           \/ /\ e.op = "oappend"  /\ OtherAppend(e.d)
           \/ /\ e.op = "oremove"  /\ OtherRemove
           \/ /\ e.op = "settime"  /\ SetTime(e.t) /\ Last1.r = e.r
           \/ /\ e.op = "temp"     /\ Temp(e.ext) /\ e.fresh /\ e.empty /\ e.suffix
           \* what POSIX and fresh objects see: everything when nothing is unflushed
           \/ /\ e.op = "obs" /\ UNCHANGED vars
              /\ e.ex = Exists
              /\ (~dirty => (e.disk = Cur /\ e.c = Cur /\ e.size = (IF Exists THEN Len(fs) ELSE -1)))
           \* times: none without a file; what setLastModified said; else some moment of this execution (the file system's
           \* clock may lag the wall clock by a tick); the creation (status change) time likewise
           \/ /\ e.op = "times" /\ UNCHANGED vars /\ ~dirty
              /\ IF mt = NONE THEN e.lm = 0 /\ e.cd = 0
                 ELSE /\ (IF mt = NOW THEN e.lm >= t0 - 1 /\ e.lm <= e.t1 + 1 ELSE e.lm = mt)
                      /\ e.cd >= t0 - 1 /\ e.cd <= e.t1 + 1

TraceSpec == TInit /\ [][TStep]_tvars
TraceAccepted == TLCGet("stats").diameter - 1 = Len(T)
===============================================================================
