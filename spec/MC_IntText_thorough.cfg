SPECIFICATION Spec
CONSTANTS
 Fill = {0, 1, 9, 10, 255, 256, 999, 9999, 10000, 32767, 32768, 32769, 50000, 65534, 65535}
INVARIANTS RoundTrip Native NativeNeg Sizes
ACTION_CONSTRAINT Emit
CHECK_DEADLOCK FALSE
