SPECIFICATION PSpec
CONSTANTS
 NClients = 3
 ReqSet <- MCReq
 RespSet <- MCResp
INVARIANTS HandlerSeesOwnRequest ClientGetsOwnResponse
CHECK_DEADLOCK FALSE
