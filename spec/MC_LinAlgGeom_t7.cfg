SPECIFICATION Spec
CONSTANTS
 P = 7
 NVec = 8000
 NAff = 4000
 NQuat = 6000
 NCplx = 2401
 NDyn = 2916
ACTION_CONSTRAINT Emit
INVARIANTS VecLaws AffLaws QuatLaws CplxLaws DynLaws
CHECK_DEADLOCK FALSE
