---------------------------- MODULE CalendarPattern ----------------------------
(* C19 (growth) - the format mini-language of Date(text, format) as a formatter / parser pair.
   In a format the letters Y M D h m s stand for a number, '?' for any one character, every other character for itself
   (include/asl/Date.h).  PatText (Calendar.tla) is the formatter: it writes the fields of a date-time under a format;
   ReadPatternX is the parser relation.  The class has no formatter for user formats, so the formatter exists in the
   specification only and the law is checked by TLC, while every generated (text, format) pair is given to the real
   parser (R, harness/c19_zone_replay.cpp) under the zone rule named in the case - Date(text, format) builds a LOCAL
   time, so the instants a text may denote are AllowedOfNaive(rule, fields).

   Two families of formats:
     "all"  : EVERY format over {Y M D h m s - ?} of length 1..MaxLen (8 + 64 + ... ): most of them are not
              injective (a field is missing, two numbers touch) and the spec does not vouch for a result - they are
              executed for termination in bounds; the injective ones are vouched for;
     "perm" : every ordering of every set of fields that contains Y, M and D (1 158 orders), separated by
              separators that vary with the order, zero-padded or not: all injective.

   Law (invariant FormatParseLaw):  Injective(f) => ReadPatternX(PatText(f, fields), f) = the date-time shown,
   and (Sound) whenever the parser relation accepts a text written with a non-digit filler it reads the fields shown. *)
EXTENDS CalendarZone, TLC, Json

CONSTANTS MaxLen,        \* longest format of the "all" family
          NBases,        \* how many of Bases are used per "perm" order
          RuleSet        \* zone rules the cases are spread over (indices into Rules)

VARIABLES c, phase
vars == <<c, phase>>

cY == 89  cMo == 77  cD == 68  ch == 104  cm == 109  cs == 115  cx == 120
Alpha == <<cY, cMo, cD, ch, cm, cs, cDash, cQuestion>>
Letters == <<cY, cMo, cD, ch, cm, cs>>
IsField(x) == FieldIndex(x) > 0

\* naive local date-times shown in the texts (y, m, d, h, mi, s): ordinary ones, edges, the skipped and the repeated hour
\* of rule 1, years outside 1..9999
Bases == << <<2021, 7, 4, 9, 5, 3>>, <<1999, 12, 31, 23, 59, 59>>, <<2024, 2, 29, 0, 0, 0>>, <<2021, 3, 28, 2, 30, 0>>,
            <<2021, 10, 31, 2, 30, 0>>, <<1, 1, 1, 0, 0, 1>>, <<0, 3, 1, 12, 0, 0>>, <<12345, 6, 7, 8, 9, 10>> >>

HasField(f, k) == \E j \in 1..Len(f) : FieldIndex(f[j]) = k
\* the fields a format can show: time fields the format does not mention read as 0
Shown(f, b) == [k \in 1..6 |-> IF k <= 3 \/ HasField(f, k) THEN b[k] ELSE 0]
Injective(f, digitFiller) ==
    /\ HasField(f, 1) /\ HasField(f, 2) /\ HasField(f, 3)
    /\ \A j \in 1..(Len(f) - 1) : ~(IsField(f[j]) /\ IsField(f[j + 1]))
    /\ digitFiller => \A j \in 1..(Len(f) - 1) : ~(IsField(f[j]) /\ f[j + 1] = cQuestion)

RECURSIVE WeightedSum(_, _)
WeightedSum(f, k) == IF k = 0 THEN 0 ELSE f[k] * (k * k + 1) + WeightedSum(f, k - 1)
Hash(f) == WeightedSum(f, Len(f))

RECURSIVE Ordered(_)
Ordered(S) == IF S = {} THEN <<>> ELSE LET a == CHOOSE x \in S : \A z \in S : x <= z IN <<a>> \o Ordered(S \ {a})
RuleSeq == Ordered(RuleSet)

\* family "all": every format, the '?' of a format shown once as a letter and once as a digit
AllFormats == UNION {[1..n -> 1..Len(Alpha)] : n \in 1..MaxLen}
AllParams == {q \in {"all"} \X AllFormats \X BOOLEAN :
                 q[3] => \E k \in DOMAIN q[2] : Alpha[q[2][k]] = cQuestion}
AllCase(q) ==
    LET f == [k \in 1..Len(q[2]) |-> Alpha[q[2][k]]]
        hh == Hash(f)
        b == Bases[(hh % Len(Bases)) + 1]
    IN [k |-> "all", f |-> f, fld |-> Shown(f, b), padded |-> (hh \div 8) % 2 = 0, filler |-> IF q[3] THEN 55 ELSE cx,
        rule |-> RuleSeq[((hh \div 16) % Len(RuleSeq)) + 1]]

\* family "perm"
Perms == {p \in UNION {[1..n -> 1..6] : n \in 3..6} :
             /\ \A a, b \in DOMAIN p : a # b => p[a] # p[b]
             /\ {1, 2, 3} \subseteq {p[a] : a \in DOMAIN p}}
Seps == << <<cDash>>, <<47>>, <<cSp>>, <<cColon>>, <<cQuestion>>, <<cT>>, <<cDot>>, <<cQuestion, cQuestion>>, <<cComma, cSp>>, <<cx, cQuestion>> >>
RECURSIVE Interleave(_, _, _)
Interleave(p, k, hh) == IF k > Len(p) THEN <<>>
                        ELSE <<Letters[p[k]]>> \o (IF k < Len(p) THEN Seps[((hh + 7 * k) % Len(Seps)) + 1] ELSE <<>>) \o Interleave(p, k + 1, hh)
PermParams == {"perm"} \X Perms \X BOOLEAN \X (1..NBases)
PermCase(q) ==
    LET hh == Hash(q[2])
        f == (IF hh % 5 = 0 THEN <<cQuestion>> ELSE <<>>) \o Interleave(q[2], 1, hh) \o (IF hh % 7 = 0 THEN <<cZ>> ELSE <<>>)
        b == Bases[((hh + q[4]) % Len(Bases)) + 1]
    IN [k |-> "perm", f |-> f, fld |-> Shown(f, b), padded |-> q[3], filler |-> cx, rule |-> RuleSeq[((hh + q[4]) % Len(RuleSeq)) + 1]]

\* the published case carries its text and what the parser relation reads in it (computed once)
WithText(cc) == LET t == PatText(cc.f, cc.fld, cc.padded, cc.filler) IN
                [k |-> cc.k, f |-> cc.f, fld |-> cc.fld, filler |-> cc.filler, rule |-> cc.rule, t |-> t, rd |-> ReadPatternX(t, cc.f)]

Init == phase = "gen" /\ (c \in AllParams \/ c \in PermParams)
Gen == phase = "gen" /\ phase' = "done" /\ c' = WithText(IF c[1] = "all" THEN AllCase(c) ELSE PermCase(c))
Spec == Init /\ [][Gen]_vars

-------------------------------------------------------------------------------
ShownInstant(cc) == InstantOf(cc.fld[1], cc.fld[2], cc.fld[3], cc.fld[4], cc.fld[5], cc.fld[6])
FormatParseLaw == (phase = "done" /\ Injective(c.f, c.filler = 55)) =>
                      c.rd.ok /\ c.rd.i = ShownInstant(c)
Sound == (phase = "done" /\ c.filler # 55) => (c.rd.ok => c.rd.i = ShownInstant(c))
PermsInjective == (phase = "done" /\ c.k = "perm") => Injective(c.f, FALSE)
\* a local time shown under an injective format denotes the instants of that local time in the zone
ASSUME Cardinality(Perms) = 1158

Seq3(i) == <<i.dn, i.sod, i.us>>
SetToSeq3(S) == IF S = {} THEN <<>> ELSE LET a == CHOOSE x \in S : \A z \in S : ~Before(z, x) IN
                                         IF S = {a} THEN <<Seq3(a)>> ELSE <<Seq3(a), Seq3(CHOOSE x \in S : x # a)>>
Out(cc) == [k |-> "zpat", fam |-> cc.k, tz |-> TzString(Rules[cc.rule]), f |-> cc.f, t |-> cc.t, v |-> IF cc.rd.ok THEN 1 ELSE 0,
            acc |-> IF cc.rd.ok THEN SetToSeq3(AllowedOfNaive(Rules[cc.rule], cc.rd.i)) ELSE <<>>]
Emit == PrintT(ToJson(Out(c')))
===============================================================================
