---------------------------- MODULE Trace_FileModelDir ----------------------------
(* V binding for the directory tree of C17: validates executions of the real Directory / File calls recorded by
   harness/c17_fs_record.cpp (--mode 0) against the actions of FileModelDir, on a universe of 84 nodes (4 names, depth 3).
   One ndjson line per call with the nodes it named and what it returned; "list" lines carry what items()/files()/subdirs()
   returned for a pattern, "q" lines what a File/Directory object said about one node, "cur" what Directory::current()
   said, "disk" the whole tree as plain POSIX calls see it.  A line is accepted iff it is the FileModelDir step with exactly
   that result - or, where the specification leaves the outcome open (see FileModelDir), one of the allowed outcomes.   *)
EXTENDS MC_FileModelDir, IOUtils

T == ndJsonDeserialize(IOEnv.TRACE)
VARIABLE l
tvars == <<vars, l>>

TInit == Init /\ l = 1
SeqSet(s) == {s[i] : i \in 1..Len(s)}
Last1 == hist'[Len(hist')]
\* the result of a call: exactly the logged one, unless the specification does not say
ResultIs(r) == IF "u" \in DOMAIN Last1 /\ Last1.u THEN TRUE ELSE Last1.r = r

TStep ==
  /\ l <= Len(T)
  /\ l' = l + 1
  /\ LET e == T[l] IN
     \/ /\ e.op = "reset"
        /\ kind' = TreeOf(SeqSet(e.tree)).kd /\ data' = TreeOf(SeqSet(e.tree)).dt
        /\ cwd' = Root /\ temps' = 0 /\ init' = {} /\ hist' = <<>>
     \/ /\ e.op = "create"    /\ Create(e.x, 0)     /\ ResultIs(e.r)
     \/ /\ e.op = "createone" /\ CreateOne(e.x, 0)  /\ ResultIs(e.r)
     \/ /\ e.op = "put"       /\ PutFile(e.x, e.c, 0) /\ ResultIs(e.r)
     \/ /\ e.op = "remove"    /\ RemoveNode(e.x, 0) /\ ResultIs(e.r)
     \/ /\ e.op = "rmrec"     /\ RemoveRec(e.x, 0)  /\ ResultIs(e.r)
     \/ /\ e.op = "copy"      /\ Copy(e.x, e.y, 0, 0) /\ ResultIs(e.r)
     \/ /\ e.op = "move"      /\ Move(e.x, e.y, 0, 0) /\ ResultIs(e.r)
     \* a directory moved onto an existing directory: refused, or (POSIX rename) it replaces an empty one
     \/ /\ e.op = "move" /\ e.x \in Nodes /\ e.y \in AllNodes /\ ~Busy(e.x) /\ Target(e.x, e.y) \in Nodes
        /\ kind[e.x] = "d" /\ kind[Target(e.x, e.y)] = "d" /\ Target(e.x, e.y) # e.x /\ ~Under(e.x, Target(e.x, e.y))
        /\ UNCHANGED <<cwd, temps, init>>
        /\ IF e.r /\ Children(Target(e.x, e.y)) = {} /\ FitsAt(e.x, Target(e.x, e.y)) /\ ~Busy(Target(e.x, e.y))
           THEN kind' = MovedKind(e.x, Target(e.x, e.y)) /\ data' = MovedData(e.x, Target(e.x, e.y))
           ELSE ~e.r /\ Same
        /\ Log([op |-> "move", x |-> e.x, y |-> e.y, r |-> e.r, u |-> TRUE])
     \/ /\ e.op = "change"    /\ Change(e.x, 0)     /\ ResultIs(e.r)
     \/ /\ e.op = "temp"      /\ CreateTemp /\ e.fresh
     \* observations
     \/ /\ e.op = "list" /\ UNCHANGED vars
        /\ e.x \in AllNodes /\ e.t \in Types /\ OneStar(e.p)
        /\ SeqSet(e.r) = Listing(e.x, e.p, e.t) /\ Len(e.r) = Cardinality(SeqSet(e.r))
     \/ /\ e.op = "q" /\ UNCHANGED vars /\ e.x \in Nodes
        /\ e.ex = (kind[e.x] # "-") /\ e.isf = (kind[e.x] = "f") /\ e.isd = (kind[e.x] = "d") /\ e.dex = (kind[e.x] = "d")
        /\ (kind[e.x] = "f" => e.size = Len(data[e.x]) /\ e.c = data[e.x])
        /\ (kind[e.x] = "-" => e.size = -1 /\ e.c = <<>>)
        /\ e.dated = (kind[e.x] # "-")
     \/ /\ e.op = "cur" /\ UNCHANGED vars /\ e.x = cwd
     \/ /\ e.op = "disk" /\ UNCHANGED vars
        /\ SeqSet(e.nodes) = NodeRecs(kind, data)

TraceSpec == TInit /\ [][TStep]_tvars
TraceAccepted == TLCGet("stats").diameter - 1 = Len(T)
===============================================================================
