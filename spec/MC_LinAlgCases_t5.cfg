SPECIFICATION Spec
CONSTANTS
 P = 5
 N = 2
 NSq = 625
 NMul = 100
 NLsqA = 0
 NLsqB = 0
ACTION_CONSTRAINT Emit
INVARIANTS InverseIdentity TwoFormulations SolveIdentity DetProduct NormalEquations
CHECK_DEADLOCK FALSE
