SPECIFICATION Spec
CONSTANTS
 NBases = 2
 ZoneStep = 1
ACTION_CONSTRAINT Emit
INVARIANTS ReadsOwnText ZoneShift PatternReads Unvouched
CHECK_DEADLOCK FALSE
