SPECIFICATION Spec
CONSTANTS
 NBases = 3
 ZoneStep = 1
ACTION_CONSTRAINT Emit
INVARIANTS ReadsOwnText ZoneShift Unvouched
CHECK_DEADLOCK FALSE
