SPECIFICATION Spec
CONSTANTS
 NBases = 3
 ZoneStep = 1
ACTION_CONSTRAINT Emit
INVARIANTS ReadsOwnText ZoneShift PatternReads Unvouched
CHECK_DEADLOCK FALSE
