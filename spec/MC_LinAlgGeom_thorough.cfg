SPECIFICATION Spec
CONSTANTS
 P = 32719
 NVec = 20000
 NAff = 10000
 NQuat = 15000
 NCplx = 15000
 NDyn = 7290
ACTION_CONSTRAINT Emit
INVARIANTS VecLaws AffLaws QuatLaws CplxLaws DynLaws
CHECK_DEADLOCK FALSE
