------------------------------- MODULE IntText -------------------------------
(* C03 - decimal text of 32- and 64-bit integers and its inverse.
   TLC integers are 32-bit, so an integer of width W is its two's-complement bit pattern as W/16 limbs of 16 bits,
   most significant first (the harness logs and reads integers in exactly this form).

     UText(x)  decimal text of x read as unsigned          SText(x)  decimal text of x read as signed
     ParseU(t, k) / ParseS(t, k)   the k-limb pattern denoted by text t (wrapping modulo 2^(16k), like the library)
   Identities checked by TLC in MC_IntText.tla: ParseS(SText(x)) = x, ParseU(UText(x)) = x on the boundary tables,
   and agreement with TLC's native arithmetic wherever the value fits.                                          *)
EXTENDS Integers, Sequences

B == 65536
IsZero(x) == \A i \in 1..Len(x) : x[i] = 0
Zero(k) == [i \in 1..k |-> 0]

\* long division by a small number d (< 2^15): quotient limbs and remainder
DivSmall(x, d) ==
    LET F[i \in 0..Len(x)] == IF i = 0 THEN [q |-> <<>>, r |-> 0]
                              ELSE LET cur == F[i - 1].r * B + x[i] IN [q |-> Append(F[i - 1].q, cur \div d), r |-> cur % d]
    IN F[Len(x)]
\* x * m + a modulo 2^(16 Len(x)), m and a small (< 2^15)
MulAdd(x, m, a) ==
    LET k == Len(x)
        G[i \in 0..k] == IF i = 0 THEN [l |-> <<>>, c |-> a]
                         ELSE LET cur == x[k + 1 - i] * m + G[i - 1].c IN [l |-> <<cur % B>> \o G[i - 1].l, c |-> cur \div B]
    IN G[k].l
\* two's complement negation
Neg(x) == MulAdd([i \in 1..Len(x) |-> 65535 - x[i]], 1, 1)
IsNeg(x) == x[1] >= 32768

RECURSIVE UDigits(_)
UDigits(x) == IF IsZero(x) THEN <<>> ELSE LET d == DivSmall(x, 10) IN Append(UDigits(d.q), 48 + d.r)
UText(x) == IF IsZero(x) THEN <<48>> ELSE UDigits(x)
SText(x) == IF IsNeg(x) THEN <<45>> \o UText(Neg(x)) ELSE UText(x)

IsDigit(c) == c >= 48 /\ c <= 57
RECURSIVE ParseFrom(_, _, _)
\* digits from position p on, stopping at the first non-digit (like the library's scanners)
ParseFrom(t, p, acc) == IF p > Len(t) THEN acc ELSE IF IsDigit(t[p]) THEN ParseFrom(t, p + 1, MulAdd(acc, 10, t[p] - 48)) ELSE acc
ParseU(t, k) == ParseFrom(t, 1, Zero(k))
ParseS(t, k) == IF t # <<>> /\ t[1] = 45 THEN Neg(ParseFrom(t, 2, Zero(k)))
                ELSE IF t # <<>> /\ t[1] = 43 THEN ParseFrom(t, 2, Zero(k))
                ELSE ParseFrom(t, 1, Zero(k))

\* canonical shape: "0" or [-]d1..dn with d1 # 0
Canonical(t, signed) ==
    LET u == IF signed /\ t # <<>> /\ t[1] = 45 THEN Tail(t) ELSE t IN
    /\ u # <<>> /\ \A i \in 1..Len(u) : IsDigit(u[i])
    /\ (u[1] = 48 => Len(u) = 1 /\ u = t)

\* limbs of a native non-negative TLC integer, k limbs
RECURSIVE NatLimbs(_, _)
NatLimbs(n, k) == IF k = 0 THEN <<>> ELSE Append(NatLimbs(n \div B, k - 1), n % B)
\* native decimal text of a non-negative TLC integer (second formulation)
RECURSIVE NatDec(_)
NatDec(n) == IF n < 10 THEN <<48 + n>> ELSE Append(NatDec(n \div 10), 48 + (n % 10))
===============================================================================
