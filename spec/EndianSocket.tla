----------------------------- MODULE EndianSocket -----------------------------
(* C16, lane "socket streaming with partial delivery": asl::Socket / asl::LocalSocket as the READING end of a connected
   stream socket whose PEER writes raw byte chunks with plain POSIX calls and may close (orderly) at any chunk boundary,
   in particular in the middle of a value.  (The writing direction is the subject of EndianStream.tla.)

   A connection is a FIFO of bytes.  The peer has a schedule of steps (send a chunk / close); a step that has happened
   has moved its bytes to `avail` (delivered, not yet consumed).  A reader call that needs n bytes BLOCKS until n bytes
   have arrived or the peer has closed; the peer steps that happen WHILE the call blocks are part of the action
   (parameter k = number of schedule steps taken during the call: the least number that lets the call return, or one
   more when Ahead - the peer running ahead of the reader).  A call that could never return (not enough bytes
   scheduled and no close) is not enabled: the specification only contains terminating calls, and the harness treats a
   call that does not return as a hang.

   Values are bit patterns, most significant byte first (as in EndianStream.tla; Size/Effective/Assemble/Samples are
   the same definitions - this module is a self-contained sibling because EndianStream's variables/constants describe
   the writing side).

   Pinned from the code / documentation (src/Socket.cpp, include/asl/Socket.h):
     sock >> x, sock.read<T>()   blocks for sizeof(T) bytes; the value is assembled in the reader's byte order.  If the
                                 peer closes first the VALUE IS UNSPECIFIED (operator>> ignores the count): not
                                 constrained here; but error() != 0 afterwards is required and the call returns.
     read(p, n)                  returns n, or the number of bytes delivered before the close (then error() != 0)
     read(int n) (ByteArray)     the same bytes as an array;  read() = the available() bytes
     readString(n)               the same bytes up to the first NUL (String::fix()): the truncation is modelled
     skip(n)                     consumes like read(p, n)
     available()                 -1 once error() != 0, else the number of delivered bytes (asked at quiescent points)
     disconnected()/connected()  error() != 0, or peer closed and nothing left to read
     waitInput(t)                true iff data is there / the peer closed / error (t = 0: immediately; t > 0: blocks)
     waitData(t)                 waitInput(t) /\ ~disconnected()
     setEndian                   affects later values only
     close() (by the reader)     discards what was not read; then available() = -1, disconnected(), waitInput() = false at
                                 once, and a request for >= 1 byte (or read()) fails at once with error() != 0
   A request for 0 bytes (read(p,0), read(0), read() with nothing available, readString(0), skip(0)) succeeds with 0
   bytes and is NOT an error: the documentation calls error() "some communication error in this socket", write(p,0)
   returns 0 without touching the flag, and read() is documented as "reads all available bytes" (possibly none).
   Such calls carry the hazard tag ZeroByteRead (the unchanged tree sets SOCKET_BAD_RECV: fixes/C16-zero-byte-read).

   R: MC_EndianSocket_*.cfg emit one case per transition (the history carries schedule, calls and expected results)
        -> harness/c16_sock_replay.cpp
   V: Trace_EndianSocket validates recorded executions (random chunkings, all types)  -> harness/c16_sock_record.cpp *)
EXTENDS Naturals, Integers, Sequences, FiniteSets, TLC, Json

CONSTANTS Native,     \* "LITTLE" or "BIG": what ENDIAN_NATIVE means on the host (asserted by the harnesses)
          Plans,      \* model checking: set of [id, tr, fam, raw, depth, steps]: transport, scalar types offered, raw calls offered
                      \*   (set of <<m, n>>: "rp" read(p,n), "rb" read(n), "rstr" readString(n), "skip" skip(n)), bound on the
                      \*   number of events (peer steps + reader calls) of a history, the peer's schedule
          MaxCalls,   \* overall cap on the number of events of a history
          Ahead,      \* TRUE: the peer may also take one more step than needed while a reader call blocks
          SetOrders,  \* byte orders tried by setEndian in model checking
          KeepHist    \* TRUE: whole history kept (model checking / replay); FALSE: only the last event (trace validation)

VARIABLES plan,       \* [id, tr, fam, raw, depth]: constant during a behaviour
          sched,      \* the peer's remaining steps: sequence of [k |-> "send", d |-> bytes] / [k |-> "close", d |-> <<>>]
          avail,      \* bytes delivered and not yet consumed
          closed,     \* the peer has closed
          rorder,     \* the reader's byte order
          err,        \* Socket::error() != 0
          rclosed,    \* the reader has called close() on its socket
          hist, hz,
          sent,       \* (KeepHist) every byte the peer has sent so far
          taken       \* (KeepHist) every byte the reader has consumed so far
vars == <<plan, sched, avail, closed, rorder, err, rclosed, hist, hz, sent, taken>>

Orders == {"BIG", "LITTLE", "NATIVE"}
Byte   == 0..255
Transports == {"pair", "tcp", "local"}     \* socketpair + Socket(fd); TCP over 127.0.0.1; LocalSocket on a path

AllTypes == {"u8", "i8", "ch", "bool", "i16", "u16", "i32", "u32", "f32", "i64", "u64", "f64"}
Size(t) == IF t \in {"u8", "i8", "ch", "bool"} THEN 1
           ELSE IF t \in {"i16", "u16"} THEN 2
           ELSE IF t \in {"i32", "u32", "f32"} THEN 4
           ELSE 8
Effective(o)  == IF o = "NATIVE" THEN Native ELSE o
\* the value (msb first) a reader in byte order o assembles from sizeof(T) wire bytes
Assemble(bs, o) == [i \in 1..Len(bs) |-> IF Effective(o) = "BIG" THEN bs[i] ELSE bs[Len(bs) + 1 - i]]
ASSUME Native \in {"LITTLE", "BIG"}
ASSUME Assemble(<<1, 2, 3, 4>>, "BIG") = <<1, 2, 3, 4>> /\ Assemble(<<1, 2, 3, 4>>, "LITTLE") = <<4, 3, 2, 1>>

\* concatenation by balanced recursion
RECURSIVE FlatR(_, _, _)
FlatR(ss, lo, hi) == IF lo > hi THEN <<>> ELSE IF lo = hi THEN ss[lo]
                     ELSE LET mid == (lo + hi) \div 2 IN FlatR(ss, lo, mid) \o FlatR(ss, mid + 1, hi)
Flat(ss) == FlatR(ss, 1, Len(ss))
StepBytes(st)  == Flat([i \in 1..Len(st) |-> st[i].d])
\* bytes up to the first NUL (String::fix() after readString)
UpToNul(bs) == LET z == {i \in 1..Len(bs) : bs[i] = 0}
               IN  IF z = {} THEN bs ELSE SubSeq(bs, 1, (CHOOSE i \in z : \A j \in z : i <= j) - 1)

-------------------------------------------------------------------------------
Log(rec, tags) == /\ hist' = IF KeepHist THEN Append(hist, rec) ELSE <<rec>>
                  /\ hz' = IF KeepHist THEN hz \cup tags ELSE tags

Fresh(p) == /\ plan = [id |-> p.id, tr |-> p.tr, fam |-> p.fam, raw |-> p.raw, depth |-> p.depth]
            /\ sched = p.steps
            /\ avail = <<>> /\ closed = FALSE /\ err = FALSE /\ rclosed = FALSE
            /\ rorder = "NATIVE"                 \* a Socket starts in ENDIAN_NATIVE
            /\ hz = {} /\ sent = <<>> /\ taken = <<>>
            /\ hist = IF KeepHist THEN <<[op |-> "init", tr |-> p.tr, steps |-> p.steps]>> ELSE <<>>
Init == \E p \in Plans : Fresh(p)

(* what the first k scheduled steps bring *)
Pending(k)  == StepBytes(SubSeq(sched, 1, k))
ClosedBy(k) == closed \/ {i \in 1..k : sched[i].k = "close"} # {}
\* a call for n bytes can return once k steps have happened
Enough(n, k) == Len(avail) + Len(Pending(k)) >= n \/ ClosedBy(k)
Ks(n)   == {k \in 0..Len(sched) : Enough(n, k)}
MinK(n) == CHOOSE k \in Ks(n) : \A j \in Ks(n) : k <= j
\* numbers of steps the peer may take during a blocking call for n bytes ({} : the call would hang)
During(n) == IF rclosed THEN {0}            \* no descriptor: every call returns at once
             ELSE IF Ks(n) = {} THEN {}
             ELSE {MinK(n)} \cup (IF Ahead /\ MinK(n) > 0 /\ MinK(n) < Len(sched) THEN {MinK(n) + 1} ELSE {})

Got(n, k)  == LET all == avail \o Pending(k) IN IF Len(all) >= n THEN n ELSE Len(all)
Data(n, k) == SubSeq(avail \o Pending(k), 1, Got(n, k))
\* the reader consumes up to n bytes while the peer takes k steps; a short count means the peer closed: error
Consume(n, k) == LET all == avail \o Pending(k)
                     g   == Got(n, k)
                 IN  /\ avail'  = SubSeq(all, g + 1, Len(all))
                     /\ sched'  = SubSeq(sched, k + 1, Len(sched))
                     /\ closed' = ClosedBy(k)
                     /\ err'    = (err \/ g < n)
                     /\ sent'   = IF KeepHist THEN sent \o Pending(k) ELSE <<>>
                     /\ taken'  = IF KeepHist THEN taken \o SubSeq(all, 1, g) ELSE <<>>
                     /\ UNCHANGED <<plan, rorder, rclosed>>
ZeroTag(n) == IF n = 0 THEN {"ZeroByteRead"} ELSE {}

(* the peer: one scheduled step at a quiescent point (no reader call in progress; the harness waits until it shows) *)
PeerStep == /\ sched # <<>> /\ ~rclosed
            /\ avail' = avail \o Pending(1) /\ closed' = ClosedBy(1) /\ sched' = Tail(sched)
            /\ sent' = IF KeepHist THEN sent \o Pending(1) ELSE <<>>
            /\ UNCHANGED <<plan, rorder, err, rclosed, taken>>
            /\ Log([op |-> "peer", st |-> sched[1]], {})

(* reader calls *)
SetEndian(o) == /\ rorder' = o
                /\ UNCHANGED <<plan, sched, avail, closed, err, rclosed, sent, taken>>
                /\ Log([op |-> "set", o |-> o, e |-> err], {})

\* sock >> x / x = sock.read<T>()
\* (bool: only 0 and 1 are values of the C++ type, so a bool is only read where the next byte is 0 or 1)
ReadScalar(t, k) == /\ k \in During(Size(t))
                    /\ (t = "bool" /\ Got(1, k) = 1) => Data(1, k)[1] \in {0, 1}
                    /\ Consume(Size(t), k)
                    /\ LET full == Got(Size(t), k) = Size(t) IN
                       Log([op |-> "r", t |-> t, o |-> rorder, k |-> k, full |-> full, got |-> Got(Size(t), k),
                            v |-> IF full THEN Assemble(Data(Size(t), k), rorder) ELSE <<>>,   \* short: value unspecified
                            e |-> err'], {})
\* m = "rp": read(p, n) -> count + bytes;  "rb": read(int n) -> ByteArray;  "rstr": readString(n);  "skip": skip(n)
ReadRaw(m, n, k) == /\ k \in During(n)
                    /\ Consume(n, k)
                    /\ Log([op |-> m, n |-> n, k |-> k, got |-> Got(n, k),
                            d |-> IF m = "rstr" THEN UpToNul(Data(n, k)) ELSE IF m = "skip" THEN <<>> ELSE Data(n, k),
                            e |-> err'], ZeroTag(n))
\* read(): the available() bytes (-1 -> nothing, when the error flag is up; then nothing is left to read either, see ErrDrained)
\* on a socket closed by the reader (available() = -1 as well) the attempt to read raises the error flag (pinned from the code)
ReadAll == LET n == IF err \/ rclosed THEN 0 ELSE Len(avail) IN
           /\ avail' = SubSeq(avail, n + 1, Len(avail))
           /\ err' = (err \/ rclosed)
           /\ taken' = IF KeepHist THEN taken \o SubSeq(avail, 1, n) ELSE <<>>
           /\ UNCHANGED <<plan, sched, closed, rorder, rclosed, sent>>
           /\ Log([op |-> "rall", got |-> n, d |-> SubSeq(avail, 1, n), e |-> err'], IF rclosed THEN {} ELSE ZeroTag(n))

Quiet(rec) == /\ UNCHANGED <<plan, sched, avail, closed, rorder, err, rclosed, sent, taken>>
              /\ Log(rec, {})
IsDisconnected == err \/ rclosed \/ (closed /\ avail = <<>>)
Available    == Quiet([op |-> "avail", r |-> IF err \/ rclosed THEN -1 ELSE Len(avail), e |-> err])
Disconnected == Quiet([op |-> "disc", r |-> IsDisconnected, e |-> err])          \* and connected() = ~r
\* waitInput(0) / waitData(0): the answer for the present moment
\* (a socket without descriptor has no input: waitInput returns false at once, whatever the error flag)
InputNow     == ~rclosed /\ (err \/ avail # <<>> \/ closed)
WaitInput    == Quiet([op |-> "wi", to |-> 0, k |-> 0, r |-> InputNow, e |-> err])
WaitData     == Quiet([op |-> "wd", to |-> 0, k |-> 0, r |-> (InputNow /\ ~IsDisconnected), e |-> err])
\* waitInput(t > 0) / waitData(t > 0) with nothing to report yet: blocks until the peer's next step (data or close)
WaitBlocking(m) == /\ ~InputNow /\ sched # <<>> /\ ~rclosed
                   /\ avail' = avail \o Pending(1) /\ closed' = ClosedBy(1) /\ sched' = Tail(sched)
                   /\ sent' = IF KeepHist THEN sent \o Pending(1) ELSE <<>>
                   /\ UNCHANGED <<plan, rorder, err, rclosed, taken>>
                   /\ Log([op |-> m, to |-> 20, k |-> 1, r |-> (m = "wi" \/ avail' # <<>>), e |-> err], {})

\* sock.close() by the reader: the descriptor is gone, what was delivered and not read is discarded (record: how much);
\* afterwards available() = -1, disconnected(), no input, and every request for data fails at once with the error flag up
RClose == /\ ~rclosed
          /\ rclosed' = TRUE /\ avail' = <<>>
          /\ taken' = IF KeepHist THEN taken \o avail ELSE <<>>
          /\ UNCHANGED <<plan, sched, closed, rorder, err, sent>>
          /\ Log([op |-> "rclose", got |-> Len(avail), e |-> err], {})

-------------------------------------------------------------------------------
(* model checking: one named action per kind of call *)
CanStep   == Len(hist) <= (IF plan.depth < MaxCalls THEN plan.depth ELSE MaxCalls)       \* the "init" record does not count
MCPeer    == CanStep /\ PeerStep
MCSet     == CanStep /\ \E o \in SetOrders : o # rorder /\ SetEndian(o)
MCRead    == CanStep /\ \E t \in plan.fam : \E k \in During(Size(t)) : ReadScalar(t, k)
MCReadRaw == CanStep /\ \E c \in plan.raw : \E k \in During(c[2]) : ReadRaw(c[1], c[2], k)
MCReadAll == CanStep /\ ReadAll
MCAvail   == CanStep /\ Available
MCDisc    == CanStep /\ Disconnected
MCWaitIn  == CanStep /\ WaitInput
MCWaitDat == CanStep /\ WaitData
MCWaitBlk == CanStep /\ \E m \in {"wi", "wd"} : WaitBlocking(m)
MCRClose  == CanStep /\ RClose
Next == MCPeer \/ MCSet \/ MCRead \/ MCReadRaw \/ MCReadAll \/ MCAvail \/ MCDisc
        \/ MCWaitIn \/ MCWaitDat \/ MCWaitBlk \/ MCRClose
Spec == Init /\ [][Next]_vars

-------------------------------------------------------------------------------
(* the property *)
StepOK(s) == s.k \in {"send", "close"} /\ \A i \in 1..Len(s.d) : s.d[i] \in Byte
TypeOK == /\ rorder \in Orders /\ closed \in BOOLEAN /\ err \in BOOLEAN /\ rclosed \in BOOLEAN
          /\ plan.tr \in Transports
          /\ {i \in 1..Len(avail) : avail[i] \notin Byte} = {}
          /\ {i \in 1..Len(sched) : ~StepOK(sched[i])} = {}

\* FIFO, nothing invented, nothing lost: what the reader has consumed followed by what waits is what the peer sent
Fifo == KeepHist => taken \o avail = sent
\* ... and what the peer sent is a prefix of its schedule (init record), whatever the chunking
PlanBytes == StepBytes(hist[1].steps)
SentIsPlanned == KeepHist => sent \o StepBytes(sched) = PlanBytes

\* The results are a function of the concatenated bytes only: decoding `taken` (no chunk boundaries in it) with the
\* calls of the history - each taking the number of bytes it reported - reproduces every result of the history.
Takes(r) == IF r.op \in {"r", "rp", "rb", "rstr", "skip", "rall", "rclose"} THEN r.got ELSE 0
RECURSIVE Redecode(_, _)
Redecode(bs, rs) ==
    IF rs = <<>> THEN bs = <<>>                      \* every consumed byte is accounted for by some call
    ELSE LET r == Head(rs)
             n == Takes(r)
             c == SubSeq(bs, 1, n)
         IN  /\ n <= Len(bs)
             /\ IF r.op = "r" THEN (r.full => n = Size(r.t) /\ r.v = Assemble(c, r.o)) /\ (~r.full => n < Size(r.t))
                ELSE IF r.op \in {"rp", "rb", "rall"} THEN r.d = c
                ELSE IF r.op = "rstr" THEN r.d = UpToNul(c)
                ELSE TRUE
             /\ Redecode(SubSeq(bs, n + 1, Len(bs)), Tail(rs))
ChunkingIndependent == KeepHist => Redecode(taken, Tail(hist))

\* a full scalar read consumed exactly sizeof(T) bytes; a count never exceeds the request
LastRec == hist[Len(hist)]
Counts == hist # <<>> =>
          /\ (LastRec.op \in {"rp", "rb", "rstr", "skip"} => LastRec.got <= LastRec.n /\ (LastRec.got < LastRec.n => LastRec.e))
          /\ (LastRec.op = "r" => (LastRec.full \/ LastRec.e))
\* in this model the error flag only comes from a read cut short by the peer's close: then nothing is left
ErrDrained == err => (closed \/ rclosed) /\ avail = <<>>
ErrSticky  == [][err => err']_vars
\* after the peer has closed and everything is consumed, every further request for data reports failure and the
\* socket says disconnected
Exhaustion == [][(((closed /\ avail = <<>>) \/ rclosed) /\ hist' # hist /\ hist' # <<>>) =>
                   LET r == hist'[Len(hist')] IN
                   /\ (r.op = "r" => r.e /\ ~r.full)
                   /\ (r.op \in {"rp", "rb", "rstr", "skip"} /\ r.n > 0 => r.e /\ r.got = 0)
                   /\ (r.op = "disc" => r.r)
                   /\ (r.op = "wd" => ~r.r)]_vars
\* changing the byte order consumes nothing
OrderOnlyLater == [][(hist' # hist /\ hist' # <<>> /\ hist'[Len(hist')].op = "set") => avail' = avail /\ sched' = sched]_vars

View == <<plan, sched, avail, closed, rorder, err, rclosed, Len(hist), hz>>
Emit == PrintT(ToJson([hist |-> hist', hz |-> hz', avail |-> avail']))
===============================================================================
