SPECIFICATION FairSpec
CONSTANTS
 NC = 2
 Sequential = FALSE
 SelfDeleteFirst = TRUE
 JoinInDtor = TRUE
INVARIANTS ServedAtMostOnce ValidWhileServing ClosedOnlyAfterServe StopIsClean NoTouchAfterFree
PROPERTIES NoServeAfterStop EveryAcceptedServed StopReturns
CHECK_DEADLOCK FALSE
