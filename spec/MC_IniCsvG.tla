------------------------------ MODULE MC_IniCsvG ------------------------------
(* MC_IniCsv under a second name: checks/C18.py runs the generators of the growth parts ("api", "csvw", "csvr") next to those of
   the core parts, and lib/vlib.py keys the TLC working directory of a run on the name of the module *)
EXTENDS MC_IniCsv
===============================================================================
