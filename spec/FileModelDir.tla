---------------------------- MODULE FileModelDir ----------------------------
(* C17 (growth) - asl::Directory and the file-system side of asl::File: a finite tree of directories and files.

   The file system below a private work directory is a finite tree: every node of the universe `Nodes` (name sequences,
   prefix closed) is absent ("-"), a directory ("d") or a file ("f") holding bytes; the work directory itself (<<>>) is
   always a directory.  The process has a current directory `cwd` (a directory of the tree).  One action per public call:

     Directory::create(x)           x and its missing ancestors become directories; false (nothing changes) when a file is
                                    in the way                      ("creates a new directory (and its ancestors ...), returns
                                                                     false on failure")
     Directory::createOne(x)        x becomes a directory if its parent is one; true if it already is a directory
     File(x).put / TextFile.put     x becomes a file with the bytes if its parent is a directory and x is not one
     Directory::remove / File::remove   a file or an EMPTY directory disappears; anything else: false, nothing changes
     Directory::removeRecursive(x)  the directory x disappears with everything below it
     Directory::copy / File::copy(x, y)   file x is copied to y, or INTO y when y is a directory (same name); the source and every
                                    other node keep their bytes ("copy and move preserve content byte for byte") - in
                                    particular when the destination turns out to be the source itself
     Directory::move / File::move(x, y)   the file or directory tree x is renamed to y or moved INTO the directory y
     Directory::change(x), current()      the current directory; relative path names are resolved against it
     Directory::createTemp()        a new, empty directory that did not exist before
     Directory(x).items/files/subdirs(pattern)   exactly the children of x (of the asked kind) whose names match the
                                    wildcard pattern ('*' = any run of characters; a pattern without '*' is a name); never
                                    "." or ".."; order unspecified (compared as sets); nothing for a non-directory
     File(x).exists/isFile/isDirectory/size/content, Directory(x).exists   for every node kind

   Every call names its nodes by a path string; the form of the string (absolute, relative to the current directory - with
   ".." where needed -, with a trailing separator for a directory) is part of the generated call.

   Calls whose outcome the documentation (or POSIX rename) leaves open are not generated and are accepted either way when
   recorded: copying a directory, moving a directory onto an existing directory, removing or moving the current directory
   or one of its ancestors, removeRecursive of a file, the boolean returned by copy/move of a node onto itself, a source
   path written with a trailing separator (its name() is empty, the "into" rule has no name to append).

   R: MC_FileModelDir_*.cfg emit one case per transition (initial tree, history with the result of every call, the tree
      reached, the frontier of absent nodes, every listing)                      -> harness/c17_fs_replay (k = "dir")
   V: Trace_FileModelDir validates recorded random executions on a larger universe  -> harness/c17_fs_record (--mode 0)  *)
EXTENDS Integers, Sequences, FiniteSets, TLC, Json, SequencesExt

CONSTANTS Nodes,       \* the universe of nodes below the work directory: non-empty sequences of names (byte strings), prefix closed
          Contents,    \* the byte strings files are written with
          InitTrees,   \* initial trees: sets of records [n |-> node, k |-> "d" / "f", c |-> bytes]
          Patterns,    \* sequence of the wildcard patterns (byte strings with at most one '*') of the listings
          MaxOps,      \* bound on the history length
          MaxTemps,    \* bound on the number of createTemp calls
          KeepHist     \* TRUE: whole history (model checking / replay); FALSE: last call only (trace validation)

VARIABLES kind,     \* node -> "-", "d", "f"
          data,     \* node -> the bytes of a file (<<>> otherwise)
          cwd,      \* the current directory: <<>> or a node of kind "d"
          temps,    \* number of temporary directories made so far
          init,     \* the initial tree (kept for the replayer)
          hist
vars == <<kind, data, cwd, temps, init, hist>>

Root == <<>>
STAR == 42
AllNodes == Nodes \cup {Root}
KindIn(kd, n) == IF n = Root THEN "d" ELSE IF n \in Nodes THEN kd[n] ELSE "-"
KindOf(n) == KindIn(kind, n)
Parent(n) == SubSeq(n, 1, Len(n) - 1)
NameOf(n) == n[Len(n)]
\* n lies in the subtree of x (x itself included)
Under(x, n) == Len(x) <= Len(n) /\ SubSeq(n, 1, Len(x)) = x
ChildrenIn(kd, n) == {m \in Nodes : Len(m) = Len(n) + 1 /\ Under(n, m) /\ kd[m] # "-"}
Children(n) == ChildrenIn(kind, n)
\* removing / renaming the directory the process stands in (or one above it) is left alone
Busy(x) == Under(x, cwd)

-------------------------------------------------------------------------------
(* how a node is named in a call *)
Common(a, b) == LET S == {k \in 0..Len(a) : k <= Len(b) /\ SubSeq(a, 1, k) = SubSeq(b, 1, k)} IN CHOOSE k \in S : \A j \in S : j <= k
DD == <<46, 46>>
RelSegs(c, x) == LET k == Common(c, x)
                     s == [i \in 1..(Len(c) - k) |-> DD] \o SubSeq(x, k + 1, Len(x))
                 IN IF s = <<>> THEN << <<46>> >> ELSE s
\* form 0: absolute; 1: relative to the current directory; 2: absolute, with a trailing separator if it is a directory
PathArg(x, form) == IF form = 1 THEN [abs |-> FALSE, segs |-> RelSegs(cwd, x), sl |-> FALSE]
                    ELSE [abs |-> TRUE, segs |-> x, sl |-> (form = 2 /\ KindOf(x) = "d" /\ x # Root)]

Log(rec) == hist' = IF KeepHist THEN Append(hist, rec) ELSE <<rec>>
Same == UNCHANGED <<kind, data>>
Rest == UNCHANGED <<cwd, temps, init>>

-------------------------------------------------------------------------------
(* the calls *)
FileInChain(x) == \E i \in 1..Len(x) : KindOf(SubSeq(x, 1, i)) = "f"
Create(x, form) ==
    /\ x \in Nodes /\ Rest
    /\ IF FileInChain(x) THEN Same /\ Log([op |-> "create", x |-> x, xp |-> PathArg(x, form), r |-> FALSE])
       ELSE /\ kind' = [n \in Nodes |-> IF Under(n, x) /\ kind[n] = "-" THEN "d" ELSE kind[n]]
            /\ UNCHANGED data
            /\ Log([op |-> "create", x |-> x, xp |-> PathArg(x, form), r |-> TRUE])
CreateOne(x, form) ==
    /\ x \in Nodes /\ Rest
    /\ IF KindOf(Parent(x)) = "d" /\ kind[x] # "f"
       THEN /\ kind' = [kind EXCEPT ![x] = "d"] /\ UNCHANGED data
            /\ Log([op |-> "createone", x |-> x, xp |-> PathArg(x, form), r |-> TRUE])
       ELSE Same /\ Log([op |-> "createone", x |-> x, xp |-> PathArg(x, form), r |-> FALSE])
PutFile(x, c, form) ==
    /\ x \in Nodes /\ Rest
    /\ IF KindOf(Parent(x)) = "d" /\ kind[x] # "d"
       THEN /\ kind' = [kind EXCEPT ![x] = "f"] /\ data' = [data EXCEPT ![x] = c]
            /\ Log([op |-> "put", x |-> x, xp |-> PathArg(x, form), c |-> c, r |-> TRUE])
       ELSE Same /\ Log([op |-> "put", x |-> x, xp |-> PathArg(x, form), c |-> c, r |-> FALSE])
RemoveNode(x, form) ==
    /\ x \in Nodes /\ Rest /\ ~(kind[x] = "d" /\ Busy(x))
    /\ IF kind[x] = "f" \/ (kind[x] = "d" /\ Children(x) = {})
       THEN /\ kind' = [kind EXCEPT ![x] = "-"] /\ data' = [data EXCEPT ![x] = <<>>]
            /\ Log([op |-> "remove", x |-> x, xp |-> PathArg(x, form), r |-> TRUE])
       ELSE Same /\ Log([op |-> "remove", x |-> x, xp |-> PathArg(x, form), r |-> FALSE])
\* (kind "f": unlinks the file in the library; the documentation speaks of directories only - accepted when recorded)
RemoveRec(x, form) ==
    /\ x \in Nodes /\ Rest /\ ~Busy(x)
    /\ IF kind[x] # "-"
       THEN /\ kind' = [n \in Nodes |-> IF Under(x, n) THEN "-" ELSE kind[n]]
            /\ data' = [n \in Nodes |-> IF Under(x, n) THEN <<>> ELSE data[n]]
            /\ Log([op |-> "rmrec", x |-> x, xp |-> PathArg(x, form), r |-> TRUE])
       ELSE Same /\ Log([op |-> "rmrec", x |-> x, xp |-> PathArg(x, form), r |-> FALSE])
\* where x lands when it is copied / moved to y
Target(x, y) == IF KindOf(y) = "d" THEN Append(y, NameOf(x)) ELSE y
\* u: the documentation does not say what the call returns (the tree is specified all the same)
Copy(x, y, form, form2) ==
    /\ x \in Nodes /\ y \in AllNodes /\ Rest /\ kind[x] # "d" /\ Target(x, y) \in Nodes
    /\ LET t == Target(x, y)
           rec(r) == [op |-> "copy", x |-> x, y |-> y, xp |-> PathArg(x, form), yp |-> PathArg(y, form2), r |-> r, u |-> (kind[x] # "-" /\ t = x)]
       IN IF kind[x] = "-" THEN Same /\ Log(rec(FALSE))
          ELSE IF t = x THEN Same /\ Log(rec(FALSE))
          ELSE IF KindOf(Parent(t)) # "d" \/ kind[t] = "d" THEN Same /\ Log(rec(FALSE))
          ELSE /\ kind' = [kind EXCEPT ![t] = "f"] /\ data' = [data EXCEPT ![t] = data[x]]
               /\ Log(rec(TRUE))
\* the tree with the subtree of x re-rooted at t
MovedKind(x, t) == [n \in Nodes |-> IF Under(t, n) THEN KindIn(kind, x \o SubSeq(n, Len(t) + 1, Len(n)))
                                    ELSE IF Under(x, n) THEN "-" ELSE kind[n]]
MovedData(x, t) == [n \in Nodes |-> IF Under(t, n) THEN (LET s == x \o SubSeq(n, Len(t) + 1, Len(n)) IN IF s \in Nodes THEN data[s] ELSE <<>>)
                                    ELSE IF Under(x, n) THEN <<>> ELSE data[n]]
\* the moved subtree stays inside the universe
FitsAt(x, t) == \A n \in Nodes : (Under(x, n) /\ kind[n] # "-") => (t \o SubSeq(n, Len(x) + 1, Len(n))) \in Nodes
Move(x, y, form, form2) ==
    /\ x \in Nodes /\ y \in AllNodes /\ Rest /\ ~Busy(x) /\ Target(x, y) \in Nodes
    /\ LET t == Target(x, y)
           rec(r) == [op |-> "move", x |-> x, y |-> y, xp |-> PathArg(x, form), yp |-> PathArg(y, form2), r |-> r, u |-> (kind[x] # "-" /\ t = x)]
       IN IF kind[x] = "-" THEN Same /\ Log(rec(FALSE))
          ELSE IF t = x THEN Same /\ Log(rec(FALSE))
          ELSE IF Under(x, t) \/ KindOf(Parent(t)) # "d" THEN Same /\ Log(rec(FALSE))
          ELSE IF kind[t] = "-" \/ (kind[t] = "f" /\ kind[x] = "f")
               THEN /\ FitsAt(x, t)
                    /\ kind' = MovedKind(x, t) /\ data' = MovedData(x, t)
                    /\ Log(rec(TRUE))
          ELSE IF kind[t] # kind[x] THEN Same /\ Log(rec(FALSE))          \* a file onto a directory, a directory onto a file
          ELSE FALSE                                                       \* a directory onto a directory: see Trace_FileModelDir
Change(x, form) ==
    /\ x \in AllNodes /\ UNCHANGED <<kind, data, temps, init>>
    /\ IF KindOf(x) = "d" THEN cwd' = x /\ Log([op |-> "change", x |-> x, xp |-> PathArg(x, form), r |-> TRUE])
       ELSE UNCHANGED cwd /\ Log([op |-> "change", x |-> x, xp |-> PathArg(x, form), r |-> FALSE])
\* the n-th temporary directory: new (no earlier call returned it, nothing was there), a directory, empty
CreateTemp == /\ temps < MaxTemps /\ temps' = temps + 1 /\ UNCHANGED <<kind, data, cwd, init>>
              /\ Log([op |-> "temp", n |-> temps + 1])

-------------------------------------------------------------------------------
(* observations *)
\* name matches pattern: '*' stands for any run of bytes (also none); without '*' the pattern is the name itself
StarAt(pt) == LET S == {i \in 1..Len(pt) : pt[i] = STAR} IN IF S = {} THEN 0 ELSE CHOOSE i \in S : \A j \in S : i <= j
Match(nm, pt) == LET i == StarAt(pt) IN
                 IF i = 0 THEN nm = pt
                 ELSE LET pre == SubSeq(pt, 1, i - 1)
                          suf == SubSeq(pt, i + 1, Len(pt))
                      IN /\ Len(nm) >= Len(pre) + Len(suf)
                         /\ SubSeq(nm, 1, Len(pre)) = pre
                         /\ SubSeq(nm, Len(nm) - Len(suf) + 1, Len(nm)) = suf
OneStar(pt) == Cardinality({i \in 1..Len(pt) : pt[i] = STAR}) <= 1
\* items / files / subdirs of node x
ListingIn(kd, x, pt, ty) == {NameOf(m) : m \in {c \in ChildrenIn(kd, x) : /\ Match(NameOf(c), pt)
                                                                          /\ (ty = "files" => kd[c] = "f")
                                                                          /\ (ty = "dirs" => kd[c] = "d")}}
Listing(x, pt, ty) == IF KindOf(x) = "d" THEN ListingIn(kind, x, pt, ty) ELSE {}
Types == {"all", "files", "dirs"}
PatSet == {Patterns[i] : i \in 1..Len(Patterns)}
\* absent nodes next to the tree: their parent is there (a directory - or a file, under which nothing can be)
FrontierIn(kd) == {n \in Nodes : kd[n] = "-" /\ KindIn(kd, Parent(n)) # "-"}

-------------------------------------------------------------------------------
TreeOf(t) == [kd |-> [n \in Nodes |-> IF \E e \in t : e.n = n THEN (CHOOSE e \in t : e.n = n).k ELSE "-"],
              dt |-> [n \in Nodes |-> IF \E e \in t : e.n = n THEN (CHOOSE e \in t : e.n = n).c ELSE <<>>]]
Init == /\ \E t \in InitTrees : kind = TreeOf(t).kd /\ data = TreeOf(t).dt /\ init = t
        /\ cwd = Root /\ temps = 0 /\ hist = <<>>

CanStep == Len(hist) < MaxOps
Form(x) == (Len(hist) + Len(x)) % 3
Form2(y) == (Len(hist) \div 3 + Len(y)) % 3
\* failing calls are generated next to the tree only (a path whose parent and grandparent are both absent adds nothing)
\* (IF, not \/: TLC would split a disjunction in an action guard into sub-actions and emit the transition once per true disjunct)
Near(x) == IF Len(x) <= 1 THEN TRUE ELSE IF KindOf(Parent(x)) # "-" THEN TRUE ELSE KindOf(Parent(Parent(x))) # "-"
MCCreate    == CanStep /\ \E x \in Nodes : Create(x, Form(x))
\* (nodes whose parent is absent - the call fails, nothing changes - are generated for the first call of a history only)
NearTarget(y) == IF Len(hist) = 0 THEN Near(y) ELSE KindOf(Parent(y)) # "-"
MCCreateOne == CanStep /\ \E x \in Nodes : NearTarget(x) /\ CreateOne(x, Form(x))
MCPut       == CanStep /\ \E x \in Nodes, c \in Contents : NearTarget(x) /\ (kind[x] = "f" => c # data[x]) /\ PutFile(x, c, Form(x))
MCRemove    == CanStep /\ \E x \in Nodes : KindOf(Parent(x)) # "-" /\ RemoveNode(x, Form(x))
MCRemoveRec == CanStep /\ \E x \in Nodes : KindOf(Parent(x)) = "d" /\ kind[x] # "f" /\ RemoveRec(x, Form(x))
\* (the source of a copy / move is never written with a trailing separator: its name() would be empty)
SrcForm(x) == IF Form(x) = 2 THEN 0 ELSE Form(x)
MCCopy      == CanStep /\ \E x \in Nodes, y \in AllNodes : KindOf(Parent(x)) = "d" /\ NearTarget(y) /\ Copy(x, y, SrcForm(x), Form2(y))
MCMove      == CanStep /\ \E x \in Nodes, y \in AllNodes : KindOf(Parent(x)) = "d" /\ NearTarget(y) /\ Move(x, y, SrcForm(x), Form2(y))
MCChange    == CanStep /\ \E x \in AllNodes : KindOf(Parent(x)) # "-" /\ x # cwd /\ Change(x, Form(x))
MCTemp      == CanStep /\ CreateTemp
Next == MCCreate \/ MCCreateOne \/ MCPut \/ MCRemove \/ MCRemoveRec \/ MCCopy \/ MCMove \/ MCChange \/ MCTemp
Spec == Init /\ [][Next]_vars

-------------------------------------------------------------------------------
(* properties of the specification itself *)
TypeOK == /\ kind \in [Nodes -> {"-", "d", "f"}]
          /\ \A n \in Nodes : kind[n] # "f" => data[n] = <<>>
          /\ temps \in 0..MaxTemps
\* whatever exists lies in a directory; the process stands in a directory
TreeOK == /\ \A n \in Nodes : kind[n] # "-" => KindOf(Parent(n)) = "d"
          /\ KindOf(cwd) = "d"
\* a listing is exactly the children: files and subdirs split items, "*" lists everything, nothing is listed twice or invented
ListingOK == \A x \in AllNodes : \A pt \in PatSet :
                /\ Listing(x, pt, "files") \cup Listing(x, pt, "dirs") = Listing(x, pt, "all")
                /\ {m \in Children(x) : kind[m] = "f" /\ NameOf(m) \in Listing(x, pt, "dirs")} = {}
                /\ Listing(x, pt, "all") \subseteq Listing(x, <<STAR>>, "all")
                /\ (KindOf(x) = "d" => Listing(x, <<STAR>>, "all") = {NameOf(m) : m \in Children(x)})
LastRec == hist'[Len(hist')]
Stepped == hist' # hist /\ hist' # <<>>
\* a call that reports failure changed nothing
FailedUnchanged == [][(Stepped /\ "r" \in DOMAIN LastRec /\ LastRec.r = FALSE) => (kind' = kind /\ data' = data /\ cwd' = cwd)]_vars
\* the multiset of file contents, as a function content -> how many files hold it
Holding(kd, dt, c) == Cardinality({n \in Nodes : kd[n] = "f" /\ dt[n] = c})
AllContents == Contents \cup {data[n] : n \in Nodes}
\* copy: the target holds the bytes of the source, and nothing else changed - not even when target and source coincide
CopyExact == [][(Stepped /\ LastRec.op = "copy") =>
                  LET t == Target(LastRec.x, LastRec.y) IN
                  /\ \A n \in Nodes \ {t} : kind'[n] = kind[n] /\ data'[n] = data[n]
                  /\ (LastRec.r = TRUE => kind'[t] = "f" /\ data'[t] = data[LastRec.x])
                  /\ (LastRec.r # TRUE => kind'[t] = kind[t] /\ data'[t] = data[t])]_vars
\* move: no content appears or disappears (except the file a moved file replaces), the moved subtree keeps its shape
MoveExact == [][(Stepped /\ LastRec.op = "move" /\ LastRec.r = TRUE) =>
                  LET x == LastRec.x t == Target(LastRec.x, LastRec.y) IN
                  /\ \A n \in Nodes : Under(x, n) => kind'[n] = "-"
                  /\ \A n \in Nodes : (Under(x, n) /\ kind[n] # "-") =>
                        LET m == t \o SubSeq(n, Len(x) + 1, Len(n)) IN kind'[m] = kind[n] /\ data'[m] = data[n]
                  /\ \A n \in Nodes : (~Under(x, n) /\ ~Under(t, n)) => kind'[n] = kind[n] /\ data'[n] = data[n]
                  /\ \A c \in AllContents : Holding(kind', data', c) = Holding(kind, data, c) - (IF kind[t] = "f" /\ data[t] = c THEN 1 ELSE 0)]_vars
\* remove / removeRecursive touch nothing outside the subtree they are given
RemoveLocal == [][(Stepped /\ LastRec.op \in {"remove", "rmrec"}) =>
                  \A n \in Nodes : ~Under(LastRec.x, n) => kind'[n] = kind[n] /\ data'[n] = data[n]]_vars
\* create never touches a file and never removes anything
CreateMonotone == [][(Stepped /\ LastRec.op \in {"create", "createone"}) =>
                  /\ \A n \in Nodes : kind[n] # "-" => kind'[n] = kind[n] /\ data'[n] = data[n]
                  /\ (LastRec.r = TRUE <=> kind'[LastRec.x] = "d")]_vars

-------------------------------------------------------------------------------
(* the case emitted with every transition *)
NodeRecs(kd, dt) == {[n |-> n, k |-> kd[n], c |-> dt[n]] : n \in {m \in Nodes : kd[m] # "-"}}
\* the listings asked in the state reached: every directory with "*" and with one more pattern (which one rotates with the state),
\* all three kinds; every file and one absent node with "*" (nothing to list)
ListRec(kd, x, pt) == [n |-> x, p |-> pt, a |-> ListingIn(kd, x, pt, "all"), f |-> ListingIn(kd, x, pt, "files"), d |-> ListingIn(kd, x, pt, "dirs")]
ListRecs(kd, k) == {ListRec(kd, x, pt) : x \in {m \in AllNodes : KindIn(kd, m) = "d"}, pt \in {<<STAR>>, Patterns[(k % Len(Patterns)) + 1]}}
                   \cup {[n |-> x, p |-> <<STAR>>, a |-> {}, f |-> {}, d |-> {}] :
                            x \in {m \in Nodes : kd[m] = "f"} \cup (IF FrontierIn(kd) = {} THEN {} ELSE {CHOOSE m \in FrontierIn(kd) : TRUE})}
View == <<kind, data, cwd, temps, Len(hist)>>
Emit == PrintT(ToJson([k |-> "dir", init |-> init', hist |-> hist', nodes |-> NodeRecs(kind', data'), miss |-> FrontierIn(kind'),
                       lists |-> ListRecs(kind', Len(hist') + Cardinality({n \in Nodes : kind'[n] # "-"})), cwd |-> cwd', temps |-> temps']))
===============================================================================
