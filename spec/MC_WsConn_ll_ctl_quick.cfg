SPECIFICATION Spec
CONSTANTS
 KindC = "lib"
 KindS = "lib"
 MaxOps = 5
 MaxMsgs = 1
 MaxCtl = 1
 LibLens = {126}
 RawLens = {126}
 Shapes = {"whole","begin"}
 CloseFrames = {}
 CtlPls = {"empty","four"}
 Observers = {"wait", "closed", "hasinput"}
VIEW View
ACTION_CONSTRAINT Emit
INVARIANTS TypeOK PrefixDelivery NoLoss PongsAnswerPings
PROPERTIES Monotone QuietAfterClose
CHECK_DEADLOCK FALSE
