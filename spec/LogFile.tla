------------------------------- MODULE LogFile -------------------------------
(* X01 part "log" - asl::Log (include/asl/Log.h): the log file as a sequence of lines.

   Documentation modelled (Log.h): messages have a category and a level and are written, with the current date,
   as one line  [date][category] LEVEL: message ; "Log::setMaxLevel: sets the maximum level of messages to be
   logged", "Log::enable: enables or disables logging", "Log::useFile: enables or disables writing messages to a
   file", "Log::setFile: sets the name of the file to write messages to", ASL_LOG_x macros use the current source
   file (without directory and extension) as category, and "Log files do not grow indefinitely.  When reaching about
   1 MB, they will be moved to a file with "-1" appended to its name (like "log-1.log"), and a new empty file will be
   started.  Any logs older than that will be lost."

   State: the configuration (enabled, maxLevel, useFile, current file) and, per file name, the lines of the file and
   of its "-1" companion.  A line is a record [c category, lb level label, id message id, n message length]; the date
   is projected away (its length is the constant DateLen, the harness checks its shape).  Message ids are handed out in
   call order, so "messages appear in call order" is "ids ascend".  all[f] is a ghost variable: every line ever written
   to file f, rot[f] the number of rotations of f.

   Left open because the documentation is silent: the label of the levels INFO/DEBUG/VERBOSE (the example only shows
   "ERROR: "; the code writes none - Labels(lv) accepts none or the level's name), what Log::maxLevel() returns while
   logging is disabled, the exact threshold ("about 1 MB": rotation is forbidden while the file is <= RotLo bytes, required
   once it is > RotHi bytes when a message is written, free in between; the exhaustive configs use RotLo = RotHi =
   1000000, the value in Log.cpp), messages with line breaks, levels outside ERR..VERBOSE.  The companion of a file is the name with "-1" appended in front of the extension as in
   the documented example (log.log -> log-1.log), hence plainly appended for a name without extension (plain -> plain-1).
   enable() and setMaxLevel() are independent settings: a message is written iff logging is enabled, file output is on and
   its level is <= the maximum level, in whatever order the three were set.

   Bindings:  R  MC_LogFile_*.cfg : ACTION_CONSTRAINT Emit prints one JSON line per transition -> harness/x01_log_replay
              V  Trace_LogFile    : recorded executions of the real Log are validated against the same actions.       *)
EXTENDS Integers, Sequences, FiniteSets, TLC, Json

CONSTANTS Files,      \* file ids (1..NF); the harness maps them to names in a private directory
          Cats,       \* category ids, subset of 1..3
          Decor,      \* spellings of the category argument: 0 plain, 1 "src/<cat>.cpp", 2 "..\lib\<cat>.h", 3 "lib-1.2/<cat>"
                      \* (the category is the file name without directory and extension, whatever the directory is called)
          Via,        \* 0 = log(cat, level, String), 1 = log(cat, level, "%s", text), 2 = ASL_LOG_x macro (category 3)
          Levels,     \* levels generated for log calls (subset of 0..4)
          MaxLevels,  \* arguments generated for setMaxLevel
          MsgLens,    \* message lengths generated
          DateLen,    \* length of the date field (19: YYYY-MM-DDTHH:MM:SS)
          RotLo, RotHi,
          ViewOps,    \* how many of the last calls distinguish states in the VIEW (model checking)
          MaxOps,     \* bound on the number of calls (model checking)
          KeepHist    \* TRUE: hist is the whole history (model checking / replay); FALSE: only the last call (trace validation)

VARIABLES enabled, maxLevel, useFile, cur, fcur, fold, sz, all, rot, nmsg, hist
cfgvars  == <<enabled, maxLevel, useFile, cur>>
filevars == <<fcur, fold, sz, all, rot>>
vars == <<enabled, maxLevel, useFile, cur, fcur, fold, sz, all, rot, nmsg, hist>>

\* names of the categories in the harnesses: 1 "net", 2 "db", 3 "x01_log_calls" (the source file the macros are used in)
CatLen == <<3, 2, 13>>
LevelName(lv) == CASE lv = 0 -> "ERROR" [] lv = 1 -> "WARNING" [] lv = 2 -> "INFO" [] lv = 3 -> "DEBUG" [] OTHER -> "VERBOSE"
LbLen(lb) == CASE lb = "ERROR" -> 5 [] lb = "WARNING" -> 7 [] lb = "INFO" -> 4 [] lb = "DEBUG" -> 5 [] lb = "VERBOSE" -> 7 [] OTHER -> 0
Labels(lv) == IF lv <= 1 THEN {LevelName(lv)} ELSE {"", LevelName(lv)}
CodeLabel(lv) == IF lv <= 1 THEN LevelName(lv) ELSE ""        \* the spelling the pinned code chose where the documentation is open
\*  [date][cat] LABEL: message\n
LineSize(ln) == 1 + DateLen + 1 + 1 + CatLen[ln.c] + 1 + 1 + (IF ln.lb = "" THEN 0 ELSE LbLen(ln.lb) + 2) + ln.n + 1
RECURSIVE SumSize(_, _)
SumSize(s, i) == IF i > Len(s) THEN 0 ELSE LineSize(s[i]) + SumSize(s, i + 1)

Keep(rec) == hist' = IF KeepHist THEN Append(hist, rec) ELSE <<rec>>

Init == /\ enabled = TRUE /\ maxLevel = 3 /\ useFile = TRUE /\ cur = 1
        /\ fcur = [f \in Files |-> <<>>] /\ fold = [f \in Files |-> <<>>] /\ sz = [f \in Files |-> 0]
        /\ all = [f \in Files |-> <<>>] /\ rot = [f \in Files |-> 0]
        /\ nmsg = 0 /\ hist = <<>>

SetMaxLevel(k) == /\ maxLevel' = k /\ UNCHANGED <<enabled, useFile, cur, nmsg>> /\ UNCHANGED filevars
                  /\ Keep([op |-> "setMaxLevel", k |-> k])
Enable(on)     == /\ enabled' = on /\ UNCHANGED <<maxLevel, useFile, cur, nmsg>> /\ UNCHANGED filevars
                  /\ Keep([op |-> "enable", on |-> IF on THEN 1 ELSE 0])
UseFile(on)    == /\ useFile' = on /\ UNCHANGED <<enabled, maxLevel, cur, nmsg>> /\ UNCHANGED filevars
                  /\ Keep([op |-> "useFile", on |-> IF on THEN 1 ELSE 0])
SetFile(f)     == /\ cur' = f /\ UNCHANGED <<enabled, maxLevel, useFile, nmsg>> /\ UNCHANGED filevars
                  /\ Keep([op |-> "setFile", f |-> f])
\* Log::maxLevel(): r = -1 stands for "not fixed by the documentation" (logging disabled)
GetMaxLevel    == /\ UNCHANGED <<enabled, maxLevel, useFile, cur, nmsg>> /\ UNCHANGED filevars
                  /\ Keep([op |-> "maxLevel", r |-> IF enabled THEN maxLevel ELSE -1])

Written(lv) == enabled /\ useFile /\ lv <= maxLevel

\* one log call; lb is the label the line carries (one of Labels(lv)), rotate whether the file is rotated first; id names the
\* message (the call number in sequential histories; chosen by the harness for concurrent callers)
LogCall(c, d, via, lv, lb, id, n, rotate) ==
  LET ln == [c |-> c, lb |-> lb, id |-> id, n |-> n] IN
  /\ nmsg' = nmsg + 1
  /\ UNCHANGED cfgvars
  /\ Keep([op |-> "log", c |-> c, d |-> d, via |-> via, lv |-> lv, id |-> id, n |-> n, lbs |-> Labels(lv)])
  /\ IF ~Written(lv) THEN rotate = FALSE /\ UNCHANGED filevars
     ELSE /\ lb \in Labels(lv)
          /\ sz[cur] <= RotLo => ~rotate
          /\ sz[cur] > RotHi => rotate
          /\ all' = [all EXCEPT ![cur] = Append(@, ln)]
          /\ IF rotate
             THEN /\ fold' = [fold EXCEPT ![cur] = fcur[cur]]
                  /\ fcur' = [fcur EXCEPT ![cur] = <<ln>>]
                  /\ sz' = [sz EXCEPT ![cur] = LineSize(ln)]
                  /\ rot' = [rot EXCEPT ![cur] = @ + 1]
             ELSE /\ fcur' = [fcur EXCEPT ![cur] = Append(@, ln)]
                  /\ sz' = [sz EXCEPT ![cur] = @ + LineSize(ln)]
                  /\ UNCHANGED <<fold, rot>>

Next == /\ Len(hist) < MaxOps
        /\ \/ \E k \in MaxLevels : SetMaxLevel(k)
           \/ \E on \in BOOLEAN : Enable(on)
           \/ \E on \in BOOLEAN : UseFile(on)
           \/ \E f \in Files : SetFile(f)
           \/ GetMaxLevel
           \/ \E via \in Via, lv \in Levels, n \in MsgLens, rotate \in BOOLEAN :
                 \* the macros take the category from __FILE__ (category 3, no spelling to choose)
                 \E c \in (IF via = 2 THEN {3} ELSE Cats \ {3}), d \in (IF via = 2 THEN {0} ELSE Decor) :
                    LogCall(c, d, via, lv, CodeLabel(lv), nmsg + 1, n, rotate)

Spec == Init /\ [][Next]_vars

-------------------------------------------------------------------------------
Line == [c : 1..3, lb : STRING, id : Nat, n : Nat]
TypeOK == /\ enabled \in BOOLEAN /\ useFile \in BOOLEAN /\ maxLevel \in 0..4 /\ cur \in Files
          /\ \A f \in Files : sz[f] \in Nat /\ rot[f] \in Nat
          /\ nmsg \in Nat

Ascending(s) == \A i \in 1..(Len(s) - 1) : s[i].id < s[i + 1].id
IsSuffixOf(s, t) == Len(s) <= Len(t) /\ \A i \in 1..Len(s) : s[i] = t[Len(t) - Len(s) + i]

\* messages are in the file in call order, also across the rotation
OrderInv == \A f \in Files : Ascending(fold[f] \o fcur[f])
\* the "-1" file and the file together hold a suffix of everything ever written there; nothing is lost before the
\* second rotation, and what is lost then is exactly the generations before the "-1" file
SuffixInv == \A f \in Files : /\ IsSuffixOf(fold[f] \o fcur[f], all[f])
                              /\ rot[f] <= 1 => fold[f] \o fcur[f] = all[f]
                              /\ (all[f] # <<>>) => fcur[f] # <<>>          \* the newest message is never the one lost
                              /\ (rot[f] = 0) = (fold[f] = <<>>)
\* byte sizes: the file is the concatenation of its lines, and it exceeds the threshold by at most the line that crossed it
SizeInv == \A f \in Files : /\ sz[f] = SumSize(fcur[f], 1)
                            /\ Len(fcur[f]) > 1 => sz[f] - LineSize(fcur[f][Len(fcur[f])]) <= RotHi
                            /\ fold[f] # <<>> => SumSize(fold[f], 1) > RotLo
\* the files only change by a log call that passes the three filters, and then by exactly that message
FilterProp == [][ (fcur' # fcur \/ fold' # fold) =>
                    /\ enabled /\ useFile
                    /\ hist'[Len(hist')].op = "log" /\ hist'[Len(hist')].lv <= maxLevel
                    /\ \A f \in Files \ {cur} : fcur'[f] = fcur[f] /\ fold'[f] = fold[f]
                    /\ fcur'[cur][Len(fcur'[cur])].id = hist'[Len(hist')].id ]_vars
\* a message that passes the filters is in the file right after the call
WrittenProp == [][ (nmsg' # nmsg /\ Written(hist'[Len(hist')].lv)) =>
                     /\ fcur'[cur] # <<>> /\ fcur'[cur][Len(fcur'[cur])].id = hist'[Len(hist')].id ]_vars

FileObs(f) == [f |-> f, cur |-> fcur[f], old |-> fold[f], bytes |-> sz[f], obytes |-> SumSize(fold[f], 1)]
ObsOf == [f \in Files |-> FileObs(f)]
\* the view keeps the last ViewOps calls: histories that reach the same abstract state through different recent calls stay
\* distinct, so that the replay also exercises what the implementation may remember of them (e.g. enable(false); setMaxLevel)
LastOps == SubSeq(hist, IF Len(hist) > ViewOps THEN Len(hist) - ViewOps + 1 ELSE 1, Len(hist))
View == <<enabled, maxLevel, useFile, cur, fcur, fold, all, rot, nmsg, Len(hist), LastOps>>
Emit == PrintT(ToJson([part |-> "log", hist |-> hist', rot |-> rot', exp |-> [f \in Files |->
            [f |-> f, cur |-> fcur'[f], old |-> fold'[f], bytes |-> sz'[f], obytes |-> SumSize(fold'[f], 1)]]]))
===============================================================================
