---- MODULE RefCountTreeInd ----
(* C12 - nested reference-counted containers (Var arrays / objects holding Vars) as an inductive invariant, for an
   unbounded number of operations (Apalache).  A parent object (counter rc) embeds one handle to a child object (counter
   rc2).  Threads own handles to either; a thread that owns a parent handle can take a handle to the child out of it
   (GetKid: `Var x = outer[i]`).  A drop is the atomic decrement-and-fetch followed by the action that depends on the
   fetched value; the thread that brings the parent to zero destroys the embedded handle (a decrement of the child,
   Casc) and frees the parent's block afterwards (CascEnd), and frees the child too if that decrement reached zero.
   IndInv implies Safe: the parent is alive while any handle to it exists, the child is alive while any handle to it or
   to the parent exists, and for each object at most one thread ever observes zero (the subtree is destroyed once).
     apalache-mc check --cinit=CInit --init=Init   --inv=IndInv --length=0 RefCountTreeInd.tla     (base)
     apalache-mc check --cinit=CInit --init=IndInv --inv=IndInv --length=1 RefCountTreeInd.tla     (step)
     apalache-mc check --cinit=CInit --init=IndInv --inv=Safe   --length=0 RefCountTreeInd.tla     (IndInv => Safe)  *)
EXTENDS Integers, FiniteSets
CONSTANT
  \* @type: Set(Int);
  T
VARIABLES
  \* @type: Int;
  rc,
  \* @type: Bool;
  alive,
  \* @type: Int -> Int;
  own,
  \* @type: Int;
  rc2,
  \* @type: Bool;
  alive2,
  \* @type: Int -> Int;
  own2,
  \* @type: Bool;
  emb,
  \* @type: Int -> Str;
  pc,
  \* @type: Int -> Int;
  tmp
CInit == T = {1,2,3}
Init == /\ rc = 1 /\ alive = TRUE /\ own = [t \in T |-> IF t = 1 THEN 1 ELSE 0]
        /\ rc2 = 1 /\ alive2 = TRUE /\ own2 = [t \in T |-> 0] /\ emb = TRUE
        /\ pc = [t \in T |-> "idle"] /\ tmp = [t \in T |-> 0]
\* parent handles: copy / pass a copy to another thread
Copy(t, u) == /\ pc[t] = "idle" /\ own[t] > 0 /\ alive
              /\ rc' = rc + 1 /\ own' = [own EXCEPT ![u] = @ + 1] /\ UNCHANGED <<alive, rc2, alive2, own2, emb, pc, tmp>>
\* child handles: copy / pass on, or take one out of the parent
Copy2(t, u) == /\ pc[t] = "idle" /\ own2[t] > 0 /\ alive2
               /\ rc2' = rc2 + 1 /\ own2' = [own2 EXCEPT ![u] = @ + 1] /\ UNCHANGED <<rc, alive, own, alive2, emb, pc, tmp>>
GetKid(t) == /\ pc[t] = "idle" /\ own[t] > 0 /\ alive /\ alive2
             /\ rc2' = rc2 + 1 /\ own2' = [own2 EXCEPT ![t] = @ + 1] /\ UNCHANGED <<rc, alive, own, alive2, emb, pc, tmp>>
\* drop a parent handle
Drop1(t) == /\ pc[t] = "idle" /\ own[t] > 0
            /\ rc' = rc - 1 /\ tmp' = [tmp EXCEPT ![t] = rc - 1] /\ own' = [own EXCEPT ![t] = @ - 1]
            /\ pc' = [pc EXCEPT ![t] = "dropped"] /\ UNCHANGED <<alive, rc2, alive2, own2, emb>>
Drop2(t) == /\ pc[t] = "dropped"
            /\ pc' = [pc EXCEPT ![t] = IF tmp[t] = 0 THEN "casc" ELSE "idle"]
            /\ UNCHANGED <<rc, alive, own, rc2, alive2, own2, emb, tmp>>
\* the thread that got zero destroys the embedded handle, then frees the parent's block
Casc(t) == /\ pc[t] = "casc"
           /\ rc2' = rc2 - 1 /\ tmp' = [tmp EXCEPT ![t] = rc2 - 1] /\ emb' = FALSE
           /\ pc' = [pc EXCEPT ![t] = "cdropped"] /\ UNCHANGED <<rc, alive, own, alive2, own2>>
CascEnd(t) == /\ pc[t] = "cdropped"
              /\ alive2' = IF tmp[t] = 0 THEN FALSE ELSE alive2
              /\ alive' = FALSE
              /\ pc' = [pc EXCEPT ![t] = "idle"] /\ UNCHANGED <<rc, own, rc2, own2, emb, tmp>>
\* drop a child handle
KDrop1(t) == /\ pc[t] = "idle" /\ own2[t] > 0
             /\ rc2' = rc2 - 1 /\ tmp' = [tmp EXCEPT ![t] = rc2 - 1] /\ own2' = [own2 EXCEPT ![t] = @ - 1]
             /\ pc' = [pc EXCEPT ![t] = "kdropped"] /\ UNCHANGED <<rc, alive, own, alive2, emb>>
KDrop2(t) == /\ pc[t] = "kdropped"
             /\ alive2' = IF tmp[t] = 0 THEN FALSE ELSE alive2
             /\ pc' = [pc EXCEPT ![t] = "idle"] /\ UNCHANGED <<rc, alive, own, rc2, own2, emb, tmp>>
Next == \E t \in T : \/ Drop1(t) \/ Drop2(t) \/ Casc(t) \/ CascEnd(t) \/ KDrop1(t) \/ KDrop2(t) \/ GetKid(t)
                     \/ \E u \in T : Copy(t, u) \/ Copy2(t, u)
Sum3 == own[1] + own[2] + own[3]
Sum3k == own2[1] + own2[2] + own2[3]
\* threads that observed the parent's zero and have not finished destroying it / that observed the child's zero
P0 == {t \in T : (pc[t] = "dropped" /\ tmp[t] = 0) \/ pc[t] = "casc" \/ pc[t] = "cdropped"}
K0 == {t \in T : (pc[t] = "kdropped" \/ pc[t] = "cdropped") /\ tmp[t] = 0}
TypeOK == /\ rc \in Int /\ rc2 \in Int /\ alive \in BOOLEAN /\ alive2 \in BOOLEAN /\ emb \in BOOLEAN
          /\ own \in [T -> Int] /\ own2 \in [T -> Int] /\ tmp \in [T -> Int]
          /\ pc \in [T -> {"idle", "dropped", "casc", "cdropped", "kdropped"}]
IndInv == /\ TypeOK
          /\ \A t \in T : own[t] >= 0 /\ own2[t] >= 0
          /\ rc = Sum3 /\ rc >= 0
          /\ rc2 = Sum3k + (IF emb THEN 1 ELSE 0) /\ rc2 >= 0
          /\ \A t \in T : pc[t] \in {"dropped", "cdropped", "kdropped"} => tmp[t] >= 0
          /\ Cardinality(P0) <= 1 /\ Cardinality(K0) <= 1
          /\ (P0 # {}) => rc = 0
          /\ (K0 # {}) => rc2 = 0
          /\ (rc > 0 => alive /\ emb)
          /\ (~alive => rc = 0 /\ P0 = {} /\ ~emb)
          /\ (rc = 0 /\ P0 = {} => ~alive)
          /\ (emb => alive /\ \A t \in T : pc[t] # "cdropped")
          /\ (~emb => ~alive \/ \E t \in T : pc[t] = "cdropped")
          /\ (rc2 > 0 => alive2)
          /\ (~alive2 => rc2 = 0 /\ K0 = {})
          /\ (rc2 = 0 /\ K0 = {} => ~alive2)
Safe == /\ (rc > 0 => alive /\ alive2)
        /\ (rc2 > 0 => alive2)
        /\ Cardinality(P0) <= 1 /\ Cardinality(K0) <= 1
====
