------------------------------ MODULE TextStream ------------------------------
(* C16 (text lane) - asl::TextFile typed TEXT streaming: one TextFile object writes numbers, words and separators as
   text (operator<< for int / unsigned / double / float / String / const char* / char, printf, write, append, put),
   is closed, and another TextFile object reads the file back (operator>> for int / unsigned / double / float /
   String / char, readLine(String&), scanf, end()).

   A text is a sequence of byte codes 1..255 (NUL-free).  Numbers never travel through TLC's 32-bit integers:
     * a 32-bit integer is the pair <<hi, lo>> of the 16-bit limbs of its bit pattern (two's complement for int);
       Dec (SDec/UDec) produces the decimal text by long division of the limbs, ScanInt parses by multiply-and-add
       on limbs - two independent algorithms, so ParseInt(Dec(n)) = n (ASSUME IntRoundTrip) is a real statement;
     * a floating-point value is a DECIMAL  [neg, digs, exp]  =  (-1)^neg * 0.d1 d2 .. dk * 10^(exp+1), i.e.
       d1.d2..dk * 10^exp with d1 # 0, dk # 0 (digs = <<>> is zero).  Only values with at most 15 (double) / 6 (float)
       significant digits are generated or constrained: for those the shortest decimal text is unambiguous
       (DBL_DIG = 15, FLT_DIG = 6), String(double) = "%.15g" prints exactly these digits (String(float) = "%.7g"
       only for values a float holds exactly, see FloatExact),
       and TLC decides equality of the written and the read-back value on the decimal representation.
       FmtG is the definition of printf's %g style for such a decimal, ScanDbl the definition of the strtod subject
       sequence.  (The harness converts decimal <-> double with strtod / "%.14e" of the C library: trusted.)

   The law:  numbers and whitespace-free words written with >= 1 whitespace byte (space, tab, LF, CR LF, VT, FF,
   any mixture) between adjacent items are read back, with the reader calls of their types, as the same values in the
   same order (invariants Tokens, ReadBack); the text written is the concatenation of the items' texts (AppendOnly);
   reading never moves backwards (ReadForward).  The read side is also generated directly: every read call at every
   reachable position, with the value, the new position (observed through the following calls) and the end-of-file
   indicator end() that the C standard's fscanf/fgets/getc rules give.

   Left unconstrained on purpose (undocumented and not reachable from text written with <<):
     >> int uses "%i": a leading 0 / 0x selects octal / hexadecimal; values that do not fit; a lone sign;
     >> unsigned on a signed text; >> double on "inf"/"nan"/hex floats/a dangling exponent ("1e+"); more than 15 (6)
     significant digits.  The read actions are not enabled there (def = FALSE).
     >> char at the end of the file: the value is not constrained (the code stores (char)EOF).
     readLine(String&) on a last line without LF: the line is constrained, the return value is not (see C17).
   Failed conversions (>> int on "abc", >> anything at the end of the file) must leave the caller's variable
   unchanged (that is what the code does for numbers: the fscanf result is dropped) and the position just before the
   offending token (leading whitespace is consumed); for >> String the result must be empty or unchanged.
   Two defects of the pinned tree are excluded by this specification (fixes/C16-text-*.diff):
     >> String with no token left assigned an uninitialised char[256] to the result (RStr: ok = FALSE);
     >> unsigned scanned with "%ui", which also swallows an 'i' that follows the digits (RUns leaves it).

   R: MC_TextStream_*.cfg emit one case per transition (history with expected results + expected file bytes)
      -> harness/c16_text_replay.cpp;   V: Trace_TextStream validates recorded executions -> harness/c16_text_record.cpp *)
EXTENDS Integers, Sequences, FiniteSets, TLC, Json, SequencesExt

CONSTANTS IntVals,    \* int values written with <<  (limb pairs)
          UIntVals,   \* unsigned values
          DblVals,    \* doubles (decimals with <= 15 digits)
          FltVals,    \* floats (decimals with <= 6 digits)
          Words,      \* whitespace-free, NUL-free words written as String / const char* / write / append / put
          Raws,       \* other strings (mixing whitespace and text)
          Chars,      \* characters written with << char
          SepSeq,     \* sequence of separators (whitespace strings) the caller writes between items
          SepAll,     \* TRUE: every separator after every item; FALSE: one per position (sampled deterministically)
          Glue,       \* kinds of items ("n" number, "w" word, "c" char, "p" printf) that may also follow the previous item without a
                      \* separator (the law is not claimed then)
          Hows,       \* sequence of the calls that write a string: "str" (<< String), "cstr" (<< const char*), "write", "append", "put"
          HowsAll,    \* TRUE: every call for every string; FALSE: sampled
          PfCalls,    \* printf calls: [f |-> format pieces, a |-> arguments]
          SfFmts,     \* scanf formats (piece sequences)
          Modes,      \* how the writer object is opened: "W" (File::WRITE), "A" (File::APPEND), "L" (path only: first call opens)
          RModes,     \* how the reader object is opened: "R" (File::READ), "L" (path only)
          MaxOpens,   \* writer objects per history
          MaxItems,   \* bound on item-writing calls
          MaxReads,   \* bound on reader calls
          ReadOps,    \* reader calls generated
          KeepHist    \* TRUE: whole history (model checking); FALSE: last call only (trace validation)

VARIABLES phase,      \* "w": a writer object exists; "r": closed, a reader object reads
          text,       \* the bytes of the file
          pos,        \* reader: bytes consumed
          eof,        \* reader: end-of-file indicator (end())
          mode,       \* writer: "W" / "A" opened, "L" not opened yet
          made,       \* the file exists
          hist,       \* the calls with their expected results
          items,      \* ghost: the typed items written so far, [k |-> kind, b |-> text of the item, ...value]
          sepd,       \* ghost: every two adjacent items are separated by >= 1 whitespace byte and nothing else was written
          nw, nr, no  \* counters: item-writing calls, reader calls, writer objects
vars == <<phase, text, pos, eof, mode, made, hist, items, sepd, nw, nr, no>>

WS == {32, 9, 10, 11, 12, 13}                      \* isspace() in the C locale
SetMin(S) == CHOOSE x \in S : \A y \in S : x <= y
SetMax(S) == CHOOSE x \in S : \A y \in S : x >= y
At(t, p) == IF p < Len(t) THEN t[p + 1] ELSE 0     \* the byte after p consumed ones; 0 = end of the text
EndsTok(t) == t # <<>> /\ t[Len(t)] \notin WS
AllWs(s) == {i \in 1..Len(s) : s[i] \notin WS} = {}
NoWs(s)  == s # <<>> /\ {i \in 1..Len(s) : s[i] \in WS} = {}

RECURSIVE SkipWs(_, _)
SkipWs(t, p) == IF p < Len(t) /\ t[p + 1] \in WS THEN SkipWs(t, p + 1) ELSE p
RECURSIVE DigEnd(_, _)
DigEnd(t, p) == IF p < Len(t) /\ t[p + 1] \in 48..57 THEN DigEnd(t, p + 1) ELSE p
RECURSIVE TokEnd(_, _, _)
TokEnd(t, p, n) == IF n > 0 /\ p < Len(t) /\ t[p + 1] \notin WS THEN TokEnd(t, p + 1, n - 1) ELSE p

-------------------------------------------------------------------------------
(* 32-bit integers as limb pairs *)
Zero32 == <<0, 0>>
Ovf    == <<-1, -1>>
DivMod10(m) == LET t == (m[1] % 10) * 65536 + m[2] IN [q |-> <<m[1] \div 10, t \div 10>>, r |-> t % 10]
RECURSIVE DigitsOf(_)
DigitsOf(m) == IF m = Zero32 THEN <<>> ELSE LET x == DivMod10(m) IN Append(DigitsOf(x.q), x.r + 48)
UDec(m) == IF m = Zero32 THEN <<48>> ELSE DigitsOf(m)                       \* decimal text of an unsigned
Neg32(m) == IF m[2] = 0 THEN <<(65536 - m[1]) % 65536, 0>> ELSE <<65535 - m[1], 65536 - m[2]>>
IsNeg32(m) == m[1] >= 32768
SDec(m) == IF IsNeg32(m) THEN <<45>> \o UDec(Neg32(m)) ELSE UDec(m)         \* decimal text of an int

Acc(m, d) == IF m = Ovf THEN Ovf
             ELSE LET lo == m[2] * 10 + d
                      hi == m[1] * 10 + lo \div 65536
                  IN IF hi >= 65536 THEN Ovf ELSE <<hi, lo % 65536>>
RECURSIVE AccRun(_, _, _, _)
AccRun(t, a, b, m) == IF a >= b THEN m ELSE AccRun(t, a + 1, b, Acc(m, t[a + 1] - 48))   \* the digits t[a+1 .. b]
RECURSIVE NatOf(_, _, _)
NatOf(t, a, b) == IF a >= b THEN 0 ELSE NatOf(t, a, b - 1) * 10 + (t[b] - 48)             \* small naturals (exponents)

(* fscanf("%i" / "%d" / "%u") restricted to where they agree and are defined:
   skip whitespace, optional sign, decimal digits; the first byte that cannot continue the number stays unread *)
ScanInt(t, p, signed) ==
  LET p1   == SkipWs(t, p)
      sg   == At(t, p1) \in {43, 45}
      neg  == At(t, p1) = 45
      p2   == IF sg THEN p1 + 1 ELSE p1
      p3   == DigEnd(t, p2)
      mag  == AccRun(t, p2, p3, Zero32)
      fits == /\ mag # Ovf
              /\ IF signed THEN (mag[1] < 32768 \/ (neg /\ mag = <<32768, 0>>)) ELSE TRUE
      ok   == p3 > p2
      np   == IF ok THEN p3 ELSE p1
  IN [def |-> IF ok THEN /\ fits
                         /\ (signed \/ ~sg)
                         /\ (At(t, p2) = 48 => (p3 = p2 + 1 /\ At(t, p3) \notin {120, 88}))   \* no octal / hexadecimal prefix
                    ELSE ~sg,                                                                   \* a lone sign is consumed: not modelled
      ok  |-> ok,
      v   |-> IF ok /\ mag # Ovf THEN (IF neg THEN Neg32(mag) ELSE mag) ELSE <<>>,
      pos |-> np,
      hit |-> np = Len(t)]            \* the scan ran into the end of the file

-------------------------------------------------------------------------------
(* decimals *)
Asc(ds)  == [i \in 1..Len(ds) |-> ds[i] + 48]
Zeros(n) == [i \in 1..n |-> 48]
RECURSIVE NatDigits(_)
NatDigits(n) == IF n < 10 THEN <<n + 48>> ELSE Append(NatDigits(n \div 10), (n % 10) + 48)

IsDecimal(d, P) == /\ d.neg \in BOOLEAN /\ Len(d.digs) <= P
                   /\ \A i \in 1..Len(d.digs) : d.digs[i] \in 0..9
                   /\ (d.digs # <<>> => d.digs[1] # 0 /\ d.digs[Len(d.digs)] # 0)
                   /\ (d.digs = <<>> => d.exp = 0)

(* String(float) prints 7 significant digits ("%.7g"), one more than a float guarantees (FLT_DIG = 6): the text of
   (float)9.8e9 is "9.799999e+09".  So the floats WRITTEN are restricted to decimals that a float holds exactly:
   integers below 10^7 (< 2^24) and fractions whose denominator is a power of two (N / 10^f with 5^f | N). *)
RECURSIVE DigitsVal(_)
DigitsVal(ds) == IF ds = <<>> THEN 0 ELSE DigitsVal(SubSeq(ds, 1, Len(ds) - 1)) * 10 + ds[Len(ds)]
RECURSIVE Pow5(_)
Pow5(n) == IF n = 0 THEN 1 ELSE 5 * Pow5(n - 1)
FloatExact(d) == LET f == Len(d.digs) - 1 - d.exp IN        \* number of digits after the decimal point
                 IF d.digs = <<>> THEN TRUE
                 ELSE IF f <= 0 THEN d.exp <= 6
                 ELSE f <= 8 /\ DigitsVal(d.digs) % Pow5(f) = 0

\* digits ds with ip of them before the decimal point, times 10^E
Norm(neg, ds, ip, E) ==
  LET nz == {i \in 1..Len(ds) : ds[i] # 0} IN
  IF nz = {} THEN [neg |-> neg, digs |-> <<>>, exp |-> 0]
  ELSE [neg |-> neg, digs |-> SubSeq(ds, SetMin(nz), SetMax(nz)), exp |-> ip - SetMin(nz) + E]

\* printf("%.Pg") of a decimal with at most P significant digits (no rounding involved)
FmtG(d, P) ==
  LET k   == Len(d.digs)
      X   == d.exp
      sgn == IF d.neg THEN <<45>> ELSE <<>>
  IN IF k = 0 THEN sgn \o <<48>>
     ELSE IF X < -4 \/ X >= P
     THEN LET ed == NatDigits(IF X < 0 THEN -X ELSE X) IN
          sgn \o <<d.digs[1] + 48>> \o (IF k > 1 THEN <<46>> \o Asc(SubSeq(d.digs, 2, k)) ELSE <<>>)
              \o <<101, IF X < 0 THEN 45 ELSE 43>> \o (IF Len(ed) < 2 THEN <<48>> \o ed ELSE ed)
     ELSE IF X >= 0
     THEN IF k <= X + 1 THEN sgn \o Asc(d.digs) \o Zeros(X + 1 - k)
          ELSE sgn \o Asc(SubSeq(d.digs, 1, X + 1)) \o <<46>> \o Asc(SubSeq(d.digs, X + 2, k))
     ELSE sgn \o <<48, 46>> \o Zeros(-X - 1) \o Asc(d.digs)

(* fscanf("%lf" / "%f"): skip whitespace, then the longest  [+-] digits [. digits] [e [+-] digits]  with >= 1 digit *)
ScanDbl(t, p, P) ==
  LET p1   == SkipWs(t, p)
      c1   == At(t, p1)
      sg   == c1 \in {43, 45}
      p2   == IF sg THEN p1 + 1 ELSE p1
      i1   == DigEnd(t, p2)
      dot  == At(t, i1) = 46
      f1   == IF dot THEN DigEnd(t, i1 + 1) ELSE i1
      ni   == i1 - p2
      nd   == ni + (IF dot THEN f1 - i1 - 1 ELSE 0)
      hasE == nd > 0 /\ At(t, f1) \in {101, 69}
      e1   == f1 + 1
      e2   == IF At(t, e1) \in {43, 45} THEN e1 + 1 ELSE e1
      e3   == IF hasE THEN DigEnd(t, e2) ELSE e2
      eok  == hasE /\ e3 > e2
      np   == IF nd = 0 THEN p1 ELSE IF eok THEN e3 ELSE f1
      E    == IF eok /\ e3 - e2 <= 3 THEN (IF At(t, e1) = 45 THEN -1 ELSE 1) * NatOf(t, e2, e3) ELSE 0
      ds   == [i \in 1..nd |-> IF i <= ni THEN t[p2 + i] - 48 ELSE t[p2 + i + 1] - 48]
      d    == Norm(c1 = 45, ds, ni, E)
  IN [def |-> IF nd = 0 THEN c1 \notin {43, 45, 46, 105, 73, 110, 78}      \* lone sign / point, "inf", "nan": not modelled
              ELSE /\ (hasE => eok) /\ e3 - e2 <= 3                          \* dangling exponent: not modelled
                   /\ ~(At(t, p2) = 48 /\ At(t, p2 + 1) \in {120, 88})       \* hexadecimal: not modelled
                   /\ Len(d.digs) <= P                                       \* more digits than the type holds: not modelled
                   /\ (IF P = 6 THEN d.exp \in -37..37 ELSE d.exp \in -300..300), \* outside the range of the type: not modelled
      ok  |-> nd > 0,
      d   |-> IF nd > 0 THEN d ELSE [neg |-> FALSE, digs |-> <<>>, exp |-> 0],
      pos |-> np,
      hit |-> np = Len(t)]

-------------------------------------------------------------------------------
(* lines, tokens *)
ReadLineAt(t, p) ==
  LET lfs == {i \in (p + 1)..Len(t) : t[i] = 10} IN
  IF p >= Len(t) THEN [s |-> <<>>, ok |-> 0, pos |-> p, hit |-> TRUE]
  ELSE IF lfs = {} THEN [s |-> SubSeq(t, p + 1, Len(t)), ok |-> -1, pos |-> Len(t), hit |-> TRUE]  \* return value not documented
  ELSE LET j   == SetMin(lfs)
           cut == IF j - 1 > p /\ t[j - 1] = 13 THEN j - 2 ELSE j - 1
       IN [s |-> SubSeq(t, p + 1, cut), ok |-> 1, pos |-> j, hit |-> FALSE]

RECURSIVE TokensFrom(_, _)
TokensFrom(t, p) == LET a == SkipWs(t, p)  b == TokEnd(t, a, Len(t)) IN
                    IF a >= Len(t) THEN <<>> ELSE <<SubSeq(t, a + 1, b)>> \o TokensFrom(t, b)
Tokens(t) == TokensFrom(t, 0)

-------------------------------------------------------------------------------
(* printf / scanf formats as piece sequences:
   [k |-> "lit", s |-> bytes]   literal text (no %)
   [k |-> "d" | "u" | "s" | "g" | "c" | "i"]   conversions; [k |-> "dw", w |-> width]  = %<w>d;  scanf: "F" = %lf, "s" = %31s *)
ConvText(pc) == CASE pc.k = "lit" -> pc.s
                  [] pc.k = "dw"  -> <<37>> \o NatDigits(pc.w) \o <<100>>
                  [] pc.k = "F"   -> <<37, 108, 102>>
                  [] pc.k = "S"   -> <<37, 51, 49, 115>>
                  [] pc.k = "d"   -> <<37, 100>>
                  [] pc.k = "i"   -> <<37, 105>>
                  [] pc.k = "u"   -> <<37, 117>>
                  [] pc.k = "s"   -> <<37, 115>>
                  [] pc.k = "g"   -> <<37, 103>>
                  [] pc.k = "c"   -> <<37, 99>>
FmtString(ps) == FlattenSeq([i \in 1..Len(ps) |-> ConvText(ps[i])])
ConvIdx(ps) == SelectSeq([i \in 1..Len(ps) |-> i], LAMBDA i : ps[i].k # "lit")
Sig(ps) == [j \in 1..Len(ConvIdx(ps)) |-> LET k == ps[ConvIdx(ps)[j]].k IN IF k = "dw" \/ k = "i" THEN "d" ELSE k]

PadLeft(s, w) == IF Len(s) >= w THEN s ELSE [i \in 1..(w - Len(s)) |-> 32] \o s
\* the text one conversion produces for its argument
ArgText(pc, a) == CASE pc.k \in {"d", "i"} -> SDec(a.v)
                    [] pc.k = "dw" -> PadLeft(SDec(a.v), pc.w)
                    [] pc.k = "u"  -> UDec(a.v)
                    [] pc.k = "s"  -> a.s
                    [] pc.k = "c"  -> <<a.c>>
                    [] pc.k = "g"  -> FmtG(a.d, 6)
ArgOk(pc, a) == CASE pc.k \in {"d", "i", "dw", "u"} -> a.k = "n"
                  [] pc.k = "s" -> a.k = "s"
                  [] pc.k = "c" -> a.k = "c"
                  [] pc.k = "g" -> a.k = "g" /\ IsDecimal(a.d, 6)
Render(ps, args) ==
  FlattenSeq([i \in 1..Len(ps) |->
     IF ps[i].k = "lit" THEN ps[i].s
     ELSE LET j == Cardinality({x \in 1..i : ps[x].k # "lit"}) IN ArgText(ps[i], args[j])])
PfOk(ps, args) == /\ Len(args) = Len(ConvIdx(ps))
                  /\ \A j \in 1..Len(args) : ArgOk(ps[ConvIdx(ps)[j]], args[j])
\* ghost items of a printf call: one per conversion, provided the format separates the conversions by whitespace only
PfClean(ps) == /\ \A i \in 1..Len(ps) : ps[i].k = "lit" => AllWs(ps[i].s)
               /\ \A i \in 1..(Len(ps) - 1) : ~(ps[i].k # "lit" /\ ps[i + 1].k # "lit")
               /\ \A i \in 1..Len(ps) : ps[i].k \notin {"dw", "c"}
               /\ Len(ps) > 0 /\ ps[1].k # "lit"
PfItems(ps, args) == [j \in 1..Len(args) |->
     LET pc == ps[ConvIdx(ps)[j]]  b == ArgText(pc, args[j]) IN
     IF pc.k \in {"d", "i"} THEN [k |-> "i", v |-> args[j].v, b |-> b]
     ELSE IF pc.k = "u" THEN [k |-> "u", v |-> args[j].v, b |-> b]
     ELSE IF pc.k = "g" THEN [k |-> "d", d |-> args[j].d, b |-> b]
     ELSE [k |-> "w", b |-> b]]

(* fscanf with a format of pieces "ws" (white space), "lit" (one byte), "d", "F" (%lf), "S" (%31s).
   st = [pos, n (items assigned), out (their values), stop ("" | "match" | "input"), hit, def] *)
RECURSIVE SfRun(_, _, _, _)
SfRun(t, ps, i, st) ==
  IF i > Len(ps) \/ st.stop # "" THEN st
  ELSE LET pc == ps[i]
           p  == st.pos
       IN SfRun(t, ps, i + 1,
            IF pc.k = "ws" THEN LET q == SkipWs(t, p) IN [st EXCEPT !.pos = q, !.hit = @ \/ q = Len(t)]
            ELSE IF pc.k = "lit" THEN
                 IF At(t, p) = pc.c THEN [st EXCEPT !.pos = p + 1]
                 ELSE [st EXCEPT !.stop = IF p >= Len(t) THEN "input" ELSE "match", !.hit = @ \/ p >= Len(t)]
            ELSE IF pc.k = "d" THEN
                 LET r == ScanInt(t, p, TRUE) IN
                 IF r.ok THEN [st EXCEPT !.pos = r.pos, !.n = @ + 1, !.out = Append(@, [k |-> "n", v |-> r.v]), !.hit = @ \/ r.hit, !.def = @ /\ r.def]
                 ELSE [st EXCEPT !.pos = r.pos, !.stop = IF r.pos >= Len(t) THEN "input" ELSE "match", !.hit = @ \/ r.hit, !.def = @ /\ r.def]
            ELSE IF pc.k = "F" THEN
                 LET r == ScanDbl(t, p, 15) IN
                 IF r.ok THEN [st EXCEPT !.pos = r.pos, !.n = @ + 1, !.out = Append(@, [k |-> "g", d |-> r.d]), !.hit = @ \/ r.hit, !.def = @ /\ r.def]
                 ELSE [st EXCEPT !.pos = r.pos, !.stop = IF r.pos >= Len(t) THEN "input" ELSE "match", !.hit = @ \/ r.hit, !.def = @ /\ r.def]
            ELSE LET a == SkipWs(t, p)  b == TokEnd(t, a, 31) IN      \* "S"
                 IF b > a THEN [st EXCEPT !.pos = b, !.n = @ + 1, !.out = Append(@, [k |-> "s", s |-> SubSeq(t, a + 1, b)]), !.hit = @ \/ (b = Len(t) /\ b - a < 31)]
                 ELSE [st EXCEPT !.pos = a, !.stop = "input", !.hit = TRUE])
SfText(pc) == IF pc.k = "ws" THEN <<32>> ELSE IF pc.k = "lit" THEN <<pc.c>> ELSE ConvText(pc)
SfString(ps) == FlattenSeq([i \in 1..Len(ps) |-> SfText(ps[i])])
SfSig(ps) == SelectSeq([i \in 1..Len(ps) |-> IF ps[i].k \in {"ws", "lit"} THEN "" ELSE IF ps[i].k = "d" THEN "d" ELSE IF ps[i].k = "F" THEN "g" ELSE "s"], LAMBDA x : x # "")

-------------------------------------------------------------------------------
Init == /\ phase = "w" /\ text = <<>> /\ pos = 0 /\ eof = FALSE
        /\ mode \in Modes /\ made = (mode # "L")
        /\ hist = <<[op |-> "open", m |-> mode]>>
        /\ items = <<>> /\ sepd = TRUE /\ nw = 0 /\ nr = 0 /\ no = 1

Log(rec) == hist' = IF KeepHist THEN Append(hist, rec) ELSE <<rec>>

(* one writer call producing the bytes b.  its = the typed items it contributes (<<>> for separators), raw = TRUE when
   it writes something the law does not speak about.  The first call on an object that was given only the path opens
   the file: append() for appending, everything else for writing (the previous contents are gone). *)
DoWrite(b, rec, its, raw, isAppend) ==
  /\ phase = "w"
  /\ LET trunc == mode = "L" /\ ~isAppend
         base  == IF trunc THEN <<>> ELSE text
     IN /\ text' = base \o b
        /\ items' = (IF trunc THEN <<>> ELSE items) \o its
        /\ sepd' = /\ (IF trunc THEN TRUE ELSE sepd)
                   /\ ~raw
                   /\ (its # <<>> => ~EndsTok(base))
  /\ mode' = IF mode = "L" THEN (IF isAppend THEN "A" ELSE "W") ELSE mode
  /\ made' = TRUE
  /\ Log(rec)
  /\ UNCHANGED <<phase, pos, eof, nr, no>>

WInt(v) == DoWrite(SDec(v), [op |-> "wi", v |-> v], <<[k |-> "i", v |-> v, b |-> SDec(v)]>>, FALSE, FALSE)
WUns(v) == DoWrite(UDec(v), [op |-> "wu", v |-> v], <<[k |-> "u", v |-> v, b |-> UDec(v)]>>, FALSE, FALSE)
WDbl(d) == IsDecimal(d, 15) /\ DoWrite(FmtG(d, 15), [op |-> "wd", d |-> d], <<[k |-> "d", d |-> d, b |-> FmtG(d, 15)]>>, FALSE, FALSE)
WFlt(d) == IsDecimal(d, 6) /\ FloatExact(d) /\ DoWrite(FmtG(d, 7),  [op |-> "wf", d |-> d], <<[k |-> "f", d |-> d, b |-> FmtG(d, 7)]>>, FALSE, FALSE)
WStr(s, how) == DoWrite(s, [op |-> "ws", s |-> s, how |-> how],
                        IF NoWs(s) THEN <<[k |-> "w", b |-> s]>> ELSE <<>>, ~NoWs(s) /\ ~AllWs(s), how = "append")
WChr(c) == DoWrite(<<c>>, [op |-> "wc", c |-> c], IF c \in WS THEN <<>> ELSE <<[k |-> "w", b |-> <<c>>]>>, FALSE, FALSE)
WPrintf(ps, args) == /\ PfOk(ps, args)
                     /\ DoWrite(Render(ps, args), [op |-> "pf", f |-> FmtString(ps), sig |-> Sig(ps), a |-> args],
                                IF PfClean(ps) THEN PfItems(ps, args) ELSE <<>>, ~PfClean(ps), FALSE)

\* the writer object goes away (close), another one is made
Reopen(m) == /\ phase = "w"
             /\ mode' = m /\ no' = no + 1 /\ made' = (made \/ m # "L")
             /\ IF m = "W" THEN text' = <<>> /\ items' = <<>> /\ sepd' = TRUE ELSE UNCHANGED <<text, items, sepd>>
             /\ Log([op |-> "open", m |-> m])
             /\ UNCHANGED <<phase, pos, eof, nw, nr>>

\* the writer is closed; a reader object for the same path
Close(rm) == /\ phase = "w" /\ made
             /\ phase' = "r" /\ pos' = 0 /\ eof' = FALSE /\ mode' = "-"
             /\ Log([op |-> "close", rm |-> rm])
             /\ UNCHANGED <<text, made, items, sepd, nw, nr, no>>

DoRead(rec, np, h) == /\ phase = "r"
                      /\ pos' = np /\ eof' = (eof \/ h)
                      /\ Log(rec @@ [eof |-> eof \/ h])
                      /\ UNCHANGED <<phase, text, mode, made, items, sepd, nw, no>>

RInt  == LET r == ScanInt(text, pos, TRUE)  IN r.def /\ DoRead([op |-> "ri", ok |-> r.ok, v |-> r.v], r.pos, r.hit)
RUns  == LET r == ScanInt(text, pos, FALSE) IN r.def /\ DoRead([op |-> "ru", ok |-> r.ok, v |-> r.v], r.pos, r.hit)
RDbl  == LET r == ScanDbl(text, pos, 15)    IN r.def /\ DoRead([op |-> "rd", ok |-> r.ok, d |-> r.d], r.pos, r.hit)
RFlt  == LET r == ScanDbl(text, pos, 6)     IN r.def /\ DoRead([op |-> "rf", ok |-> r.ok, d |-> r.d], r.pos, r.hit)
\* >> String: a whitespace-delimited token of at most 255 bytes (longer tokens come in pieces)
RStr  == LET a == SkipWs(text, pos)  b == TokEnd(text, a, 255) IN
         DoRead([op |-> "rs", ok |-> b > a, s |-> SubSeq(text, a + 1, b)], b, b = Len(text) /\ b - a < 255)
RChr  == IF pos < Len(text) THEN DoRead([op |-> "rc", c |-> text[pos + 1]], pos + 1, FALSE)
         ELSE DoRead([op |-> "rc", c |-> -1], pos, TRUE)
RLine == LET r == ReadLineAt(text, pos) IN DoRead([op |-> "rl", ok |-> r.ok, s |-> r.s], r.pos, r.hit)
REnd  == DoRead([op |-> "end"], pos, FALSE)
SfRet(st) == IF st.n = 0 /\ st.stop = "input" THEN -1 ELSE st.n
RScanf(ps) == LET st == SfRun(text, ps, 1, [pos |-> pos, n |-> 0, out |-> <<>>, stop |-> "", hit |-> FALSE, def |-> TRUE]) IN
              st.def /\ DoRead([op |-> "sf", f |-> SfString(ps), sig |-> SfSig(ps), n |-> SfRet(st), a |-> st.out], st.pos, st.hit)

-------------------------------------------------------------------------------
(* model checking *)
Pick(seq, all, k) == IF all THEN 1..Len(seq) ELSE IF Len(seq) = 0 THEN {} ELSE {(k % Len(seq)) + 1}
CanItem(kind) == phase = "w" /\ nw < MaxItems /\ (IF EndsTok(text) THEN kind \in Glue ELSE TRUE)
Count == nw' = nw + 1
MCInt    == CanItem("n") /\ Count /\ \E v \in IntVals : WInt(v)
MCUns    == CanItem("n") /\ Count /\ \E v \in UIntVals : WUns(v)
MCDbl    == CanItem("n") /\ Count /\ \E d \in DblVals : WDbl(d)
MCFlt    == CanItem("n") /\ Count /\ \E d \in FltVals : WFlt(d)
MCWord   == CanItem("w") /\ Count /\ \E s \in Words \cup Raws : \E h \in Pick(Hows, HowsAll, nw + Len(text) + Len(s)) : WStr(s, Hows[h])
MCChr    == CanItem("c") /\ Count /\ \E c \in Chars : WChr(c)
MCPrintf == CanItem("p") /\ Count /\ \E pc \in PfCalls : WPrintf(pc.f, pc.a)
MCSep    == /\ phase = "w" /\ EndsTok(text) /\ nw' = nw
            /\ \E k \in Pick(SepSeq, SepAll, nw + Len(text)) : \E h \in Pick(Hows, HowsAll, nw + k) : WStr(SepSeq[k], Hows[h])
MCReopen == made /\ no < MaxOpens /\ nw' = nw /\ \E m \in Modes : Reopen(m)
MCClose  == \E rm \in RModes : Close(rm)
CanRead  == phase = "r" /\ nr < MaxReads /\ nr' = nr + 1
MCRInt   == "ri" \in ReadOps /\ CanRead /\ RInt
MCRUns   == "ru" \in ReadOps /\ CanRead /\ RUns
MCRDbl   == "rd" \in ReadOps /\ CanRead /\ RDbl
MCRFlt   == "rf" \in ReadOps /\ CanRead /\ RFlt
MCRStr   == "rs" \in ReadOps /\ CanRead /\ RStr
MCRChr   == "rc" \in ReadOps /\ CanRead /\ RChr
MCRLine  == "rl" \in ReadOps /\ CanRead /\ RLine
MCREnd   == "end" \in ReadOps /\ CanRead /\ REnd
MCRScanf == "sf" \in ReadOps /\ CanRead /\ \E ps \in SfFmts : RScanf(ps)

Next == \/ MCInt \/ MCUns \/ MCDbl \/ MCFlt \/ MCWord \/ MCChr \/ MCPrintf \/ MCSep \/ MCReopen \/ MCClose
        \/ MCRInt \/ MCRUns \/ MCRDbl \/ MCRFlt \/ MCRStr \/ MCRChr \/ MCRLine \/ MCREnd \/ MCRScanf
Spec == Init /\ [][Next]_vars

-------------------------------------------------------------------------------
(* properties of the specification *)
TypeOK == /\ phase \in {"w", "r"} /\ mode \in {"W", "A", "L", "-"} /\ made \in BOOLEAN /\ eof \in BOOLEAN /\ sepd \in BOOLEAN
          /\ pos \in 0..Len(text)
          /\ {i \in 1..Len(text) : text[i] \notin 1..255} = {}

\* ParseInt(Dec(n)) = n, ParseDec(FmtG(d)) = d for every generated value, whatever follows the text
Tails == {<<>>, <<32>>, <<10>>, <<13, 10>>, <<9, 120>>}
IntRoundTrip ==
  /\ \A v \in IntVals, tl \in Tails : LET r == ScanInt(<<32>> \o SDec(v) \o tl, 0, TRUE) IN r.def /\ r.ok /\ r.v = v /\ r.pos = 1 + Len(SDec(v))
  /\ \A v \in UIntVals, tl \in Tails : LET r == ScanInt(<<10>> \o UDec(v) \o tl, 0, FALSE) IN r.def /\ r.ok /\ r.v = v /\ r.pos = 1 + Len(UDec(v))
DecRoundTrip ==
  /\ \A d \in DblVals, tl \in Tails : LET r == ScanDbl(FmtG(d, 15) \o tl, 0, 15) IN r.def /\ r.ok /\ r.d = d /\ r.pos = Len(FmtG(d, 15))
  /\ \A d \in FltVals, tl \in Tails : LET r == ScanDbl(FmtG(d, 7) \o tl, 0, 6) IN r.def /\ r.ok /\ r.d = d /\ r.pos = Len(FmtG(d, 7))
ASSUME IntRoundTrip
ASSUME DecRoundTrip

\* the whitespace-delimited tokens of the file are the texts of the items, as long as adjacent items were separated
TokensLaw == sepd => Tokens(text) = [i \in 1..Len(items) |-> items[i].b]

\* reading the file from the start with the reader call of each item's type returns the items, in order
RECURSIVE ReadAll(_, _, _)
ReadAll(t, p, its) ==
  IF its = <<>> THEN TRUE
  ELSE LET it == Head(its) IN
       IF it.k \in {"i", "u"} THEN LET r == ScanInt(t, p, it.k = "i") IN r.def /\ r.ok /\ r.v = it.v /\ ReadAll(t, r.pos, Tail(its))
       ELSE IF it.k \in {"d", "f"} THEN LET r == ScanDbl(t, p, IF it.k = "d" THEN 15 ELSE 6) IN r.def /\ r.ok /\ r.d = it.d /\ ReadAll(t, r.pos, Tail(its))
       ELSE LET a == SkipWs(t, p)  b == TokEnd(t, a, 255) IN
            (Len(it.b) <= 255 => SubSeq(t, a + 1, b) = it.b) /\ ReadAll(t, IF Len(it.b) <= 255 THEN b ELSE TokEnd(t, a, Len(t)), Tail(its))
ReadBack == (KeepHist /\ sepd) => ReadAll(text, 0, items)

LastOp == IF hist = <<>> THEN "" ELSE hist[Len(hist)].op
\* a writer call other than opening a new object for writing only adds to the file
AppendOnly == [][(phase = "w" /\ phase' = "w" /\ mode # "L" /\ hist'[Len(hist')].op # "open") =>
                   (Len(text') >= Len(text) /\ SubSeq(text', 1, Len(text)) = text)]_vars
\* reading never moves backwards, never changes the file, and the end-of-file indicator stays set
ReadForward == [][(phase = "r" /\ phase' = "r") => (pos' >= pos /\ text' = text /\ (eof => eof'))]_vars   \* (no action leaves "r"; a trace starts a new session)

View == <<phase, text, pos, eof, mode, made, items, sepd, nw, nr, no, Len(hist)>>
Emit == PrintT(ToJson([k |-> "text", hist |-> hist', text |-> text']))
===============================================================================
