SPECIFICATION Spec
CONSTANTS
 MaxDepth = 2
 MaxItems = 2
 MaxLen = 9
 MaxVar = 1
 QKeySlashIsComment = FALSE
 PinnedFlush = TRUE
INVARIANTS TypeOK JsonSubset SMAll
CHECK_DEADLOCK FALSE
