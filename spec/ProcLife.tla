------------------------------ MODULE ProcLife ------------------------------
(* X01 / Process: one asl::Process object, its child and the descriptors involved.

   The child is a deterministic transducer (the harness' helper program): framed commands written to its stdin
   produce bytes on its stdout (E = echo payload, R = reversed payload), on its stderr (S = n bytes 'e') or make it
   exit (X = exit code).  `out` / `err` are the bytes the child has written or will write for the commands already
   sent and that the parent has not read yet: the two pipes as byte FIFOs.  Reads are "read exactly n" loops over
   readOutput()/readErrors(); they are enabled only when they cannot block forever (enough bytes pending, or the
   child is ending and EOF will arrive).

   Life cycle:   obj  none -> fresh (constructor) -> run (run()) -> none (destructor)
                 cst  norun -> alive -> dying (X command / kill / program that exits by itself / exec failure)
                 ended = the child has been seen as a zombie by the harness (so finished() must say so)
                 seen  "no" | "maybe" | "yes": has the object reaped the child (finished() = true / wait() returned)?
                       "maybe" after calls that poll internally without telling (started(), success()).

   Documented facts used (Process.h): readOutput/readErrors/writeInput move bytes of the child's stdout/stderr/stdin;
   readOutputLine returns one line or "\n" when the process ended; finished()/running(); wait() waits for the exit;
   exitStatus() = exit code if finished; started() = "the subprocess has started successfully"; success() = "exited
   with zero status"; execute() = output + errors + exit code of a finished program.  Everything else (value of wait()
   on later calls, status of a signalled child, ...) is left unconstrained.

   Descriptors: numbers are allocated lowest-free (POSIX).  The object remembers six numbers (three pipes); run()
   closes the three child-side ends in the parent.  UserIntact: a descriptor the *user* opened is never closed by
   Process.  CloseTwice = TRUE is the design in which the destructor closes all six remembered numbers again: a user
   descriptor that re-used one of the three numbers freed by run() gets closed behind the user's back.             *)
EXTENDS Integers, Sequences, FiniteSets, TLC

EnvNames == {"X01_A", "X01_B"}     \* environment variables the harness uses (unset at reset)

CONSTANTS Payloads, Codes, ErrCounts, ReadLens, MaxOps, MaxFd, CloseTwice, PipeSafe

VARIABLES obj, cst, how, ended, seen, out, err, lossy, fdt, slots, sopen, uopen, wrote, got, nops, det, envm
vars == <<obj, cst, how, ended, seen, out, err, lossy, fdt, slots, sopen, uopen, wrote, got, nops, det, envm>>

Fds == 0..MaxFd
NoHow == [k |-> "-", code |-> 0]

Rev(s) == [i \in 1..Len(s) |-> s[Len(s) + 1 - i]]
Rep(n, b) == [i \in 1..n |-> b]
Drop(s, n) == SubSeq(s, n + 1, Len(s))
Take(s, n) == SubSeq(s, 1, n)
MinI(a, b) == IF a < b THEN a ELSE b
IsPrefixOf(p, s) == Len(p) <= Len(s) /\ Take(s, Len(p)) = p

LowestFree(t) == CHOOSE n \in Fds : t[n] = "free" /\ \A m \in Fds : m < n => t[m] # "free"
HasFree(t, k) == Cardinality({n \in Fds : t[n] = "free"}) >= k
RECURSIVE Alloc(_, _, _)
\* allocate k descriptors for `owner`, lowest free first; result [t |-> table, ns |-> numbers in allocation order]
Alloc(t, k, owner) ==
  IF k = 0 THEN [t |-> t, ns |-> <<>>]
  ELSE LET n == LowestFree(t)
           r == Alloc([t EXCEPT ![n] = owner], k - 1, owner)
       IN [t |-> r.t, ns |-> <<n>> \o r.ns]

Init ==
  /\ obj = "none" /\ cst = "norun" /\ how = NoHow /\ ended = FALSE /\ seen = "no"
  /\ out = <<>> /\ err = <<>> /\ lossy = FALSE
  /\ fdt = [n \in Fds |-> "free"] /\ slots = <<>> /\ sopen = {} /\ uopen = {}
  /\ wrote = <<>> /\ got = <<>> /\ nops = 0 /\ det = FALSE /\ envm = [v \in EnvNames |-> <<>>]

UNCH_fd == UNCHANGED <<fdt, slots, sopen, uopen, det, envm>>
UNCH_io == UNCHANGED <<out, err, lossy, wrote, got>>
UNCH_life == UNCHANGED <<obj, cst, how, ended, seen>>

---------------------------------------------------------------------------------------------------------------
\* constructor: three pipes = six descriptors <<in_r, in_w, out_r, out_w, err_r, err_w>>
New(ready) ==
  /\ obj = "none" /\ HasFree(fdt, 6)
  /\ ready = TRUE
  /\ LET a == Alloc(fdt, 6, "proc") IN fdt' = a.t /\ slots' = a.ns
  /\ sopen' = 1..6 /\ det' = FALSE
  /\ obj' = "fresh" /\ cst' = "norun" /\ how' = NoHow /\ ended' = FALSE /\ seen' = "no"
  /\ out' = <<>> /\ err' = <<>> /\ lossy' = FALSE /\ wrote' = <<>> /\ got' = <<>>
  /\ UNCHANGED <<uopen, envm>>

\* detach() before run(): "we are not interested in the process' output"; the child runs without the pipes
Detach == obj = "fresh" /\ det' = TRUE /\ UNCHANGED <<fdt, slots, sopen, uopen, envm>> /\ UNCH_life /\ UNCH_io

\* run(): the parent closes the child-side ends (in_r, out_w, err_w) - unless detached: nothing was handed over
Run(mode) ==
  /\ obj = "fresh"
  /\ obj' = "run"
  /\ det => mode.m # "echo"
  /\ IF det THEN UNCHANGED <<fdt, sopen>>
     ELSE /\ fdt' = [n \in Fds |-> IF n \in {slots[1], slots[4], slots[6]} THEN "free" ELSE fdt[n]]
          /\ sopen' = {2, 3, 5}
  /\ \/ mode.m = "echo" /\ cst' = "alive" /\ how' = NoHow
     \/ mode.m = "exit" /\ cst' = "dying" /\ how' = [k |-> "exit", code |-> mode.code]
     \/ mode.m = "noexec" /\ cst' = "dying" /\ how' = [k |-> "noexec", code |-> 0]
  /\ UNCHANGED <<ended, seen, slots, uopen, det, envm>> /\ UNCH_io

\* writeInput of one framed command: <<kind, length>> \o payload
Wire(c) == 2 + Len(c.p)
Write(c, ret) ==
  /\ obj = "run" /\ cst = "alive"
  /\ ret = Wire(c)
  /\ \/ c.k = "E" /\ out' = out \o c.p /\ wrote' = wrote \o c.p /\ UNCHANGED <<err, cst, how>>
     \/ c.k = "R" /\ out' = out \o Rev(c.p) /\ wrote' = wrote \o Rev(c.p) /\ UNCHANGED <<err, cst, how>>
     \/ c.k = "S" /\ err' = err \o Rep(c.n, 101) /\ UNCHANGED <<out, wrote, cst, how>>
     \/ c.k = "X" /\ cst' = "dying" /\ how' = [k |-> "exit", code |-> c.code] /\ UNCHANGED <<out, err, wrote>>
  /\ Len(out') + Len(err') <= PipeSafe            \* stay below the pipe capacity here (ProcPipes.tla models capacity)
  /\ UNCHANGED <<obj, ended, seen, lossy, got>> /\ UNCH_fd

\* result of a read-exactly-n loop on a FIFO holding q
ReadOK(q, n, r) ==
  IF lossy THEN IsPrefixOf(r, q) /\ Len(r) <= n
  ELSE r = Take(q, MinI(n, Len(q)))
Rest(q, n, r) == IF Len(r) < n THEN <<>> ELSE Drop(q, Len(r))   \* short result = EOF was reached: nothing is left
CanRead(q, n) == n >= 1 /\ ~det /\ (Len(q) >= n \/ cst = "dying")

RdOut(n, r) ==
  /\ obj = "run" /\ CanRead(out, n) /\ ReadOK(out, n, r)
  /\ out' = Rest(out, n, r) /\ got' = got \o r
  /\ UNCHANGED <<err, lossy, wrote>> /\ UNCH_life /\ UNCH_fd
RdErr(n, r) ==
  /\ obj = "run" /\ CanRead(err, n) /\ ReadOK(err, n, r)
  /\ err' = Rest(err, n, r)
  /\ UNCHANGED <<out, lossy, wrote, got>> /\ UNCH_life /\ UNCH_fd

\* readOutputLine(): up to the first LF (dropped, as is a CR before it); "\n" when the process ended with nothing left
HasLF(q) == \E i \in 1..Len(q) : q[i] = 10
FirstLF(q) == CHOOSE i \in 1..Len(q) : q[i] = 10 /\ \A j \in 1..(i - 1) : q[j] # 10
StripCR(s) == IF s # <<>> /\ s[Len(s)] = 13 THEN Take(s, Len(s) - 1) ELSE s
RdLine(r) ==
  /\ obj = "run" /\ ~lossy /\ ~det /\ (HasLF(out) \/ cst = "dying")
  /\ IF HasLF(out)
     THEN LET i == FirstLF(out) IN r = StripCR(Take(out, i - 1)) /\ out' = Drop(out, i) /\ got' = got \o Take(out, i)
     ELSE /\ r = (IF out = <<>> THEN <<10>> ELSE out)
          /\ out' = <<>> /\ got' = got \o out
  /\ UNCHANGED <<err, lossy, wrote>> /\ UNCH_life /\ UNCH_fd

\* outputAvailable() / errorsAvailable(): never more than what is pending; once the child has ended (and was not
\* killed half-way) everything it wrote is there
AvailOK(q, r) == r >= 0 /\ r <= Len(q) /\ ((ended /\ ~lossy /\ ~det) => r = Len(q))
Avail(r) == obj = "run" /\ AvailOK(out, r) /\ UNCHANGED vars
EAvail(r) == obj = "run" /\ AvailOK(err, r) /\ UNCHANGED vars

\* the harness has seen the child as a zombie
Sync == obj = "run" /\ cst = "dying" /\ ended' = TRUE /\ UNCHANGED <<obj, cst, how, seen>> /\ UNCH_io /\ UNCH_fd

Fin(r) ==
  /\ obj = "run"
  /\ cst = "alive" => r = FALSE
  /\ (seen = "yes" \/ ended) => r = TRUE
  /\ seen' = (IF r THEN "yes" ELSE seen)
  /\ UNCHANGED <<obj, cst, how, ended>> /\ UNCH_io /\ UNCH_fd

\* wait(): the call that observes the end returns the exit code
Wait(r) ==
  /\ obj = "run" /\ cst = "dying"
  /\ (seen = "no" /\ how.k = "exit") => r = how.code
  /\ seen' = "yes"
  /\ UNCHANGED <<obj, cst, how, ended>> /\ UNCH_io /\ UNCH_fd

Status(r) ==
  /\ obj = "run"
  /\ (seen = "yes" /\ how.k = "exit") => r = how.code
  /\ UNCHANGED vars

ExecOK == how.k \in {"exit", "signal"} \/ cst = "alive"
Started(r) ==
  /\ obj = "run"
  /\ cst = "alive" => r = TRUE
  /\ (cst = "dying" /\ ExecOK) => r = TRUE
  /\ (how.k = "noexec" /\ (seen = "yes" \/ ended)) => r = FALSE
  /\ seen' = (IF cst = "dying" /\ ended THEN "yes" ELSE IF cst = "dying" /\ seen = "no" THEN "maybe" ELSE seen)
  /\ UNCHANGED <<obj, cst, how, ended>> /\ UNCH_io /\ UNCH_fd

CleanExit == how.k = "exit" /\ how.code = 0
Success(r) ==
  /\ obj = "run"
  /\ cst = "alive" => r = FALSE
  /\ r => (cst = "dying" /\ CleanExit)
  /\ (cst = "dying" /\ (seen = "yes" \/ ended)) => (r <=> CleanExit)
  /\ seen' = (IF cst = "alive" THEN seen
              ELSE IF r \/ ended THEN "yes"
              ELSE IF seen = "no" /\ ~CleanExit THEN "maybe" ELSE seen)
  /\ UNCHANGED <<obj, cst, how, ended>> /\ UNCH_io /\ UNCH_fd

Kill(sig) ==
  /\ obj = "run" /\ cst = "alive"
  /\ cst' = "dying" /\ how' = [k |-> "signal", code |-> sig] /\ lossy' = TRUE
  /\ UNCHANGED <<obj, ended, seen, out, err, wrote, got>> /\ UNCH_fd

\* destructor
Del ==
  /\ obj \in {"fresh", "run"}
  /\ LET mine == {slots[k] : k \in sopen}
         again == IF CloseTwice THEN {slots[k] : k \in 1..6} ELSE {}
     IN fdt' = [n \in Fds |-> IF n \in mine \cup again THEN "free" ELSE fdt[n]]
  /\ obj' = "none" /\ cst' = "norun" /\ how' = NoHow /\ ended' = FALSE /\ seen' = "no"
  /\ out' = <<>> /\ err' = <<>> /\ lossy' = FALSE /\ slots' = <<>> /\ sopen' = {} /\ det' = FALSE
  /\ UNCHANGED <<uopen, wrote, got, envm>>

\* the user opens / closes a descriptor of his own; fd = the number he got
UOpen(fd) ==
  /\ HasFree(fdt, 1) /\ fd = LowestFree(fdt)
  /\ fdt' = [fdt EXCEPT ![fd] = "user"] /\ uopen' = uopen \cup {fd}
  /\ UNCHANGED <<slots, sopen, det, envm>> /\ UNCH_life /\ UNCH_io
UClose(fd) ==
  /\ fd \in uopen
  /\ fdt' = [fdt EXCEPT ![fd] = "free"] /\ uopen' = uopen \ {fd}
  /\ UNCHANGED <<slots, sopen, det, envm>> /\ UNCH_life /\ UNCH_io
UserIntact == \A fd \in uopen : fdt[fd] = "user"
UCheck(ok) == ok = UserIntact /\ UNCHANGED vars
OpenCount == Cardinality({n \in Fds : fdt[n] # "free"})
NFd(n) == n = OpenCount /\ UNCHANGED vars

\* finished() of another, never started Process object: must not disturb this one (its own result is unspecified)
OtherFin == UNCHANGED vars

---------------------------------------------------------------------------------------------------------------
\* Process::execute(helper "args", a1..ak): the helper writes <<Len(a)>> \o a for every argument it received
RECURSIVE ArgsOut(_)
ArgsOut(as) == IF as = <<>> THEN <<>> ELSE <<Len(Head(as))>> \o Head(as) \o ArgsOut(Tail(as))
ExecArgs(as, o, e, status, ok, st) ==
  /\ o = ArgsOut(as) /\ e = <<>> /\ status = 0 /\ ok = TRUE /\ st = TRUE
  /\ UNCHANGED vars
\* Process::execute(helper "spew", nout, nerr, code): lengths read and first position (1-based, 0 = none) that differs
\* from the helper's pattern
ExecSpew(nout, nerr, code, olen, obad, elen, ebad, status, ok, st) ==
  /\ olen = nout /\ obad = 0 /\ elen = nerr /\ ebad = 0 /\ status = code /\ ok = (code = 0) /\ st = TRUE
  /\ UNCHANGED vars
\* Process::setEnv / Process::env, and what a child started afterwards finds in its environment (helper "env" NAME
\* writes the value)
SetEnv(k, v) == k \in EnvNames /\ envm' = [envm EXCEPT ![k] = v]
                /\ UNCHANGED <<fdt, slots, sopen, uopen, det>> /\ UNCH_life /\ UNCH_io
GetEnv(k, r) == k \in EnvNames /\ r = envm[k] /\ UNCHANGED vars
ExecEnv(k, o, status) == k \in EnvNames /\ o = envm[k] /\ status = 0 /\ UNCHANGED vars
\* Process::execute of a program that does not exist
ExecMissing(o, ok, st) ==
  /\ o = <<>> /\ ok = FALSE /\ st = FALSE
  /\ UNCHANGED vars

---------------------------------------------------------------------------------------------------------------
PayloadsSmall == {<<65>>, <<66, 13, 10>>}
PayloadsNone == {}
Cmds == [k : {"E", "R"}, p : Payloads] \cup [k : {"S"}, n : ErrCounts, p : {<<0, 0>>}] \cup [k : {"X"}, code : Codes, p : {<<0>>}]
Modes == {[m |-> "echo"], [m |-> "noexec"]} \cup [m : {"exit"}, code : Codes]
Prefixes(q) == {Take(q, i) : i \in 0..Len(q)}

Op ==
  \/ New(TRUE)
  \/ \E m \in Modes : Run(m)
  \/ Detach
  \/ \E c \in Cmds : Write(c, Wire(c))
  \/ \E n \in ReadLens : \E r \in Prefixes(out) : RdOut(n, r)
  \/ \E n \in ReadLens : \E r \in Prefixes(err) : RdErr(n, r)
  \/ \E r \in Prefixes(out) \cup {<<10>>} \cup {StripCR(p) : p \in Prefixes(out)} : RdLine(r)
  \/ Sync
  \/ \E r \in BOOLEAN : Fin(r)
  \/ \E r \in Codes \cup {0} : Wait(r)
  \/ \E r \in BOOLEAN : Started(r)
  \/ \E r \in BOOLEAN : Success(r)
  \/ \E s \in {9} : Kill(s)
  \/ Del
  \/ \E fd \in Fds : UOpen(fd)
  \/ \E fd \in Fds : UClose(fd)
  \/ \E v \in Payloads : SetEnv("X01_A", v)

Next == nops < MaxOps /\ nops' = nops + 1 /\ Op
Spec == Init /\ [][Next]_vars

---------------------------------------------------------------------------------------------------------------
TypeOK ==
  /\ obj \in {"none", "fresh", "run"} /\ cst \in {"norun", "alive", "dying"} /\ seen \in {"no", "maybe", "yes"}
  /\ how.k \in {"-", "exit", "signal", "noexec"}
  /\ ended \in BOOLEAN /\ lossy \in BOOLEAN
\* what the parent has read is what the child wrote, in order
ReadIsWritten == IsPrefixOf(got, wrote)
\* without a kill nothing is lost either: read + pending = written
NothingLost == (obj = "run" /\ ~lossy /\ cst = "alive") => got \o out = wrote
\* the end of the child is observed only after it ended, and a child that cannot end is never reported finished
SeenOnlyAfterEnd == seen = "yes" => cst = "dying"
\* no descriptor of the object survives it
NoLeak == obj = "none" => \A n \in Fds : fdt[n] # "proc"
ObjectFds == obj # "none" => \A k \in sopen : fdt[slots[k]] \in {"proc"} \/ CloseTwice
=============================================================================
