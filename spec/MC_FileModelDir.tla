---------------------------- MODULE MC_FileModelDir ----------------------------
(* constant definitions for the configurations of FileModelDir (configuration files cannot spell sequences) *)
EXTENDS FileModelDir

A  == <<97>>
B  == <<98>>
AB == <<97, 46, 98>>      \* a.b
HX == <<46, 120>>         \* .x   (a name that begins with a dot)
\* quick universe: four names at the top (one begins with a dot), two levels below a, one below b
NodesQ == { <<A>>, <<B>>, <<AB>>, <<HX>>,
            <<A, A>>, <<A, B>>, <<A, AB>>, <<B, A>>, <<B, B>>,
            <<A, B, A>>, <<A, B, AB>>, <<B, B, A>> }
\* thorough universe: every name sequence up to length 3 over {a, b, a.b} and .x at the top and below a
Names3 == {A, B, AB}
NodesT == {<<x>> : x \in Names3} \cup {<<x, y>> : x \in Names3, y \in Names3} \cup {<<x, y, z>> : x \in Names3, y \in Names3, z \in Names3}
          \cup { <<HX>>, <<A, HX>> }
\* recorded executions: every name sequence up to length 3 over {a, b, a.b, .x}
Names4 == {A, B, AB, HX}
NodesV == {<<x>> : x \in Names4} \cup {<<x, y>> : x \in Names4, y \in Names4} \cup {<<x, y, z>> : x \in Names4, y \in Names4, z \in Names4}
TreesV == { {} }
ContentsQ == { <<>>, <<120>>, <<121, 0, 10>> }
Empty == {}
ContentsD == { <<121, 0, 10>> }
\* a populated tree: a/ { a (file), b/ { a, a.b (files) } }, a.b (file), b/ (empty directory)
Tree1 == { [n |-> <<A>>, k |-> "d", c |-> <<>>], [n |-> <<A, A>>, k |-> "f", c |-> <<120>>],
           [n |-> <<A, B>>, k |-> "d", c |-> <<>>], [n |-> <<A, B, A>>, k |-> "f", c |-> <<121, 0, 10>>],
           [n |-> <<A, B, AB>>, k |-> "f", c |-> <<>>], [n |-> <<AB>>, k |-> "f", c |-> <<120>>],
           [n |-> <<B>>, k |-> "d", c |-> <<>>] }
TreesQ == { Empty, Tree1 }
TreesD == { Tree1 }
\* '*', prefix, suffix, both, a plain name, a pattern whose prefix and suffix overlap in the name "a", dot files
PatternsQ == << <<97, 42>>, <<42, 46, 98>>, <<97, 42, 98>>, <<97, 46, 98>>, <<97, 42, 97>> >>
PatternsT == PatternsQ \o << <<46, 42>>, <<42, 97>>, <<98>>, <<42, 120>> >>
===============================================================================
