SPECIFICATION Spec
CONSTANTS
 IntVals <- IntsT
 UIntVals <- UIntsT
 DblVals <- DblsT
 FltVals <- FltsT
 Words <- WordsT
 Raws <- RawsT
 Chars <- CharsT
 SepSeq <- SepsT
 SepAll = FALSE
 Glue = {"n", "w", "c", "p"}
 Hows <- HowsQ
 HowsAll = FALSE
 PfCalls <- PfT
 SfFmts <- SfT
 Modes = {"W", "A", "L"}
 RModes = {"R", "L"}
 MaxOpens = 2
 MaxItems = 1
 MaxReads = 3
 ReadOps = {"ri", "ru", "rd", "rf", "rs", "rc", "rl", "end", "sf"}
 KeepHist = TRUE
VIEW View
ACTION_CONSTRAINT Emit
INVARIANTS TypeOK TokensLaw ReadBack
PROPERTIES AppendOnly ReadForward
CHECK_DEADLOCK FALSE
