------------------------------- MODULE Calendar -------------------------------
(* C19 - asl::Date: the proleptic Gregorian calendar, the clock, the text formats and the ISO-8601 / HTTP-date
   reading relation, as pure (constant-level) operators.  This module has no variables; it is the oracle that the
   state machines CalendarDays / CalendarClock / CalendarText (R: generators whose transitions are replayed into the
   real asl::Date) and Trace_Calendar (V: validation of recorded executions of the real code) are built from.

   An instant is a record [dn, sod, us]: day number (1970-01-01 = 0), second of the day 0..86399 and microsecond
   of the second 0..999999 - epoch seconds of year 9999 (253 402 300 799) do not fit TLC's 32-bit integers.

   Several independent formulations of the same quantity are given on purpose; the state machines check them against
   each other over every day of years 1..9999 (successor rule / closed-form day number / closed-form inverse /
   year-start table), so that a mistake in the specification itself is unlikely to survive.                         *)
EXTENDS Integers, Sequences

-------------------------------------------------------------------------------
(* calendar *)
Leap(y) == (y % 4 = 0 /\ y % 100 # 0) \/ y % 400 = 0
DaysInMonth(y, m) == IF m = 2 THEN (IF Leap(y) THEN 29 ELSE 28) ELSE IF m \in {4, 6, 9, 11} THEN 30 ELSE 31
DaysInYear(y) == IF Leap(y) THEN 366 ELSE 365

\* closed-form day number of a civil date (era algorithm; \div is floor division)
DaysFromCivil(y, m, d) ==
    LET y2  == IF m <= 2 THEN y - 1 ELSE y
        era == y2 \div 400
        yoe == y2 - era * 400
        mp  == (m + 9) % 12
        doy == (153 * mp + 2) \div 5 + d - 1
        doe == yoe * 365 + yoe \div 4 - yoe \div 100 + doy
    IN era * 146097 + doe - 719468

\* closed-form inverse
CivilFromDays(z) ==
    LET z2  == z + 719468
        era == z2 \div 146097
        doe == z2 - era * 146097
        yoe == (doe - doe \div 1460 + doe \div 36524 - doe \div 146096) \div 365
        doy == doe - (365 * yoe + yoe \div 4 - yoe \div 100)
        mp  == (5 * doy + 2) \div 153
        d   == doy - (153 * mp + 2) \div 5 + 1
        m   == IF mp < 10 THEN mp + 3 ELSE mp - 9
        y   == yoe + era * 400 + (IF m <= 2 THEN 1 ELSE 0)
    IN [y |-> y, m |-> m, d |-> d]

\* a third formulation: first day of the year by counting leap days, plus a cumulative month table
YearStart(y) == 365 * (y - 1970) + (y - 1969) \div 4 - (y - 1901) \div 100 + (y - 1601) \div 400
CumDays == <<0, 31, 59, 90, 120, 151, 181, 212, 243, 273, 304, 334>>
DayOfYear0(y, m, d) == CumDays[m] + (IF m > 2 /\ Leap(y) THEN 1 ELSE 0) + d - 1
DaysFromTable(y, m, d) == YearStart(y) + DayOfYear0(y, m, d)

Weekday(dn) == (dn + 4) % 7            \* 0 = Sunday; 1970-01-01 was a Thursday
ValidDate(y, m, d) == y \in 1..9999 /\ m \in 1..12 /\ d \in 1..DaysInMonth(y, m)

\* anchors (confirmed against the real code in round 0)
ASSUME DaysFromCivil(1970, 1, 1) = 0 /\ Weekday(0) = 4
ASSUME DaysFromCivil(1, 1, 1) = -719162 /\ Weekday(-719162) = 1
ASSUME DaysFromCivil(9999, 12, 31) = 2932896
ASSUME DaysFromCivil(2000, 2, 29) = 11016 /\ Weekday(11016) = 2

-------------------------------------------------------------------------------
(* clock *)
SecOfDay(h, mi, s) == 3600 * h + 60 * mi + s
ClockOf(sod) == [h |-> sod \div 3600, mi |-> (sod % 3600) \div 60, s |-> sod % 60]

(* instants *)
Inst(dn, sod, us) == [dn |-> dn, sod |-> sod, us |-> us]
\* normalisation after adding a (possibly negative) number of seconds; |secs| < 2^31 / 2
AddSeconds(i, secs) ==
    LET t == i.sod + secs IN [dn |-> i.dn + t \div 86400, sod |-> t % 86400, us |-> i.us]
AddMicros(i, us) ==
    LET u == i.us + us IN AddSeconds([i EXCEPT !.us = u % 1000000], u \div 1000000)
TruncSecond(i) == [i EXCEPT !.us = 0]
TruncMilli(i) == [i EXCEPT !.us = (i.us \div 1000) * 1000]
\* asl::Date resolves instants to the millisecond: "the instant rounded to the nearest millisecond"
RoundMilli(i) == TruncMilli(AddMicros(i, 500))
\* |a - b| <= tol microseconds (tol < 1 000 000), without leaving 32 bits
Near(a, b, tol) ==
    LET ds == (a.dn - b.dn) IN
    /\ ds \in -1..1
    /\ LET s == ds * 86400 + (a.sod - b.sod) IN
       /\ s \in -1..1
       /\ LET u == s * 1000000 + (a.us - b.us) IN u <= tol /\ -u <= tol

\* all calendar and clock fields of an instant (what Date::splitUTC() reports)
Fields(i) ==
    LET c == CivilFromDays(i.dn) k == ClockOf(i.sod) IN
    [y |-> c.y, m |-> c.m, d |-> c.d, h |-> k.h, mi |-> k.mi, s |-> k.s, wd |-> Weekday(i.dn)]
\* and back (what Date(UTC, y, m, d, h, mi, s) denotes)
InstantOf(y, m, d, h, mi, s) == Inst(DaysFromCivil(y, m, d), SecOfDay(h, mi, s), 0)

-------------------------------------------------------------------------------
(* text: sequences of character codes *)
Dg(n) == 48 + n
Pad2(n) == <<Dg(n \div 10), Dg(n % 10)>>
Pad3(n) == <<Dg(n \div 100), Dg((n \div 10) % 10), Dg(n % 10)>>
\* decimal digits of n >= 0 without padding
RECURSIVE Unpadded(_)
Unpadded(n) == IF n < 10 THEN <<Dg(n)>> ELSE Unpadded(n \div 10) \o <<Dg(n % 10)>>
\* at least four digits ("%04i"): years above 9999 take the digits they need
Pad4(n) == IF n > 9999 THEN Unpadded(n) ELSE <<Dg(n \div 1000), Dg((n \div 100) % 10), Dg((n \div 10) % 10), Dg(n % 10)>>
cT == 84  cZ == 90  cDash == 45  cColon == 58  cDot == 46  cPlus == 43  cSp == 32  cComma == 44
DayNames == << <<83,117,110>>, <<77,111,110>>, <<84,117,101>>, <<87,101,100>>, <<84,104,117>>, <<70,114,105>>, <<83,97,116>> >>
MonthNames == << <<74,97,110>>, <<70,101,98>>, <<77,97,114>>, <<65,112,114>>, <<77,97,121>>, <<74,117,110>>,
                 <<74,117,108>>, <<65,117,103>>, <<83,101,112>>, <<79,99,116>>, <<78,111,118>>, <<68,101,99>> >>
GMT == <<71, 77, 84>>

\* the part of the text up to the seconds, extended ("2021-11-29T23:31:10") and basic ("20211129T233110")
ExtText(f) == Pad4(f.y) \o <<cDash>> \o Pad2(f.m) \o <<cDash>> \o Pad2(f.d) \o <<cT>> \o
              Pad2(f.h) \o <<cColon>> \o Pad2(f.mi) \o <<cColon>> \o Pad2(f.s)
BasicText(f) == Pad4(f.y) \o Pad2(f.m) \o Pad2(f.d) \o <<cT>> \o Pad2(f.h) \o Pad2(f.mi) \o Pad2(f.s)
HttpText(f) == DayNames[f.wd + 1] \o <<cComma, cSp>> \o Pad2(f.d) \o <<cSp>> \o MonthNames[f.m] \o <<cSp>> \o Pad4(f.y) \o
               <<cSp>> \o Pad2(f.h) \o <<cColon>> \o Pad2(f.mi) \o <<cColon>> \o Pad2(f.s) \o <<cSp>> \o GMT

\* Date::toUTCString(fmt) of instant i, i on the millisecond grid or not: the text shows the instant rounded to the
\* nearest millisecond (FULL) and the second that rounded instant lies in (the other formats)
FormatUTC(fmt, i) ==
    LET r == RoundMilli(i) f == Fields(r) IN
    CASE fmt = "LONG"  -> ExtText(f) \o <<cZ>>
      [] fmt = "SHORT" -> BasicText(f) \o <<cZ>>
      [] fmt = "FULL"  -> ExtText(f) \o <<cDot>> \o Pad3(r.us \div 1000) \o <<cZ>>
      [] fmt = "HTTP"  -> HttpText(f)
Formats == {"LONG", "SHORT", "FULL", "HTTP"}
\* what reading that text back must give
ReadBackOf(fmt, i) == IF fmt = "FULL" THEN RoundMilli(i) ELSE TruncSecond(RoundMilli(i))

-------------------------------------------------------------------------------
(* reading: which strings denote which instant.
   Read(t) = [ok |-> TRUE, i |-> instant]  for
     - ISO 8601 extended  YYYY-MM-DDThh:mm[:ss[.f{1,9}]]  and basic  YYYYMMDDThhmm[ss[.f{1,9}]]  date-times that
       end in a zone designator Z | +hh | -hh | +hhmm | -hhmm | +hh:mm | -hh:mm  (hh 00..23, mm 00..59) and whose
       fields are a valid date and time of day; the instant is the field value minus the offset;
     - the fixed-length HTTP-date "Www, DD Mon YYYY hh:mm:ss GMT" with the right week day;
   and [ok |-> FALSE] for every other string: the property leaves those open ("invalid or some value").   *)
IsDig(c) == c \in 48..57
NoRead == [ok |-> FALSE, i |-> Inst(0, 0, 0)]
\* value of the n digits at positions p..p+n-1 of t, or -1
RECURSIVE NumAt(_, _, _)
NumAt(t, p, n) ==
    IF n = 0 THEN 0
    ELSE IF p + n - 1 > Len(t) \/ ~IsDig(t[p + n - 1]) THEN -1
    ELSE LET r == NumAt(t, p, n - 1) IN IF r < 0 THEN -1 ELSE r * 10 + (t[p + n - 1] - 48)
RECURSIVE DigitRun(_, _)
DigitRun(t, p) == IF p <= Len(t) /\ IsDig(t[p]) THEN 1 + DigitRun(t, p + 1) ELSE 0
\* microseconds denoted by the fraction digits at p..p+n-1 (n in 1..9), truncated
FracMicros(t, p, n) == IF n <= 6 THEN NumAt(t, p, n) * (10 ^ (6 - n)) ELSE NumAt(t, p, 6)

\* zone designator at p..Len(t): offset in minutes east of UTC, or -100000
ZoneAt(t, p) ==
    LET n == Len(t) - p + 1 IN
    IF n = 1 /\ t[p] = cZ THEN 0
    ELSE IF n \in {3, 5, 6} /\ t[p] \in {cPlus, cDash} THEN
        LET hh == NumAt(t, p + 1, 2)
            mm == IF n = 3 THEN 0 ELSE IF n = 5 THEN NumAt(t, p + 3, 2)
                  ELSE IF t[p + 3] = cColon THEN NumAt(t, p + 4, 2) ELSE -1
        IN IF hh \in 0..23 /\ mm \in 0..59 THEN (IF t[p] = cPlus THEN 1 ELSE -1) * (60 * hh + mm) ELSE -100000
    ELSE -100000

\* time of day, fraction and zone starting at p (after the 'T'); sep = TRUE for the extended form
ReadTimeZone(t, p, sep, y, m, d) ==
    LET w  == IF sep THEN 3 ELSE 2                          \* distance between the fields
        h  == NumAt(t, p, 2)
        mi == IF sep /\ (p + 2 > Len(t) \/ t[p + 2] # cColon) THEN -1 ELSE NumAt(t, p + w, 2)
        p1 == p + w + 2                                      \* after the minutes
        hasS == IF sep THEN p1 <= Len(t) /\ t[p1] = cColon ELSE p1 <= Len(t) /\ IsDig(t[p1])
        s  == IF hasS THEN NumAt(t, IF sep THEN p1 + 1 ELSE p1, 2) ELSE 0
        p2 == IF hasS THEN p1 + w ELSE p1                    \* after the seconds
        hasF == hasS /\ p2 <= Len(t) /\ t[p2] = cDot
        nf == IF hasF THEN DigitRun(t, p2 + 1) ELSE 0
        p3 == IF hasF THEN p2 + 1 + nf ELSE p2               \* start of the zone designator
    IN IF h \notin 0..23 \/ mi \notin 0..59 \/ s \notin 0..59 \/ (hasF /\ nf \notin 1..9) \/ p3 > Len(t) THEN NoRead
       ELSE LET z == ZoneAt(t, p3) IN
            IF z = -100000 \/ ~ValidDate(y, m, d) THEN NoRead
            ELSE [ok |-> TRUE,
                  i |-> AddSeconds(Inst(DaysFromCivil(y, m, d), SecOfDay(h, mi, s),
                                        IF hasF THEN FracMicros(t, p2 + 1, nf) ELSE 0), -60 * z)]

ReadIso(t) ==
    IF Len(t) >= 16 /\ t[5] = cDash /\ t[8] = cDash /\ t[11] = cT
    THEN ReadTimeZone(t, 12, TRUE, NumAt(t, 1, 4), NumAt(t, 6, 2), NumAt(t, 9, 2))
    ELSE IF Len(t) >= 13 /\ t[9] = cT /\ NumAt(t, 1, 8) >= 0
    THEN ReadTimeZone(t, 10, FALSE, NumAt(t, 1, 4), NumAt(t, 5, 2), NumAt(t, 7, 2))
    ELSE NoRead

MonthByName(w) == IF \E k \in 1..12 : MonthNames[k] = w THEN CHOOSE k \in 1..12 : MonthNames[k] = w ELSE 0
ReadHttp(t) ==
    IF Len(t) # 29 \/ t[4] # cComma \/ t[5] # cSp \/ t[8] # cSp \/ t[12] # cSp \/ t[17] # cSp \/ t[20] # cColon
       \/ t[23] # cColon \/ t[26] # cSp \/ SubSeq(t, 27, 29) # GMT
    THEN NoRead
    ELSE LET d == NumAt(t, 6, 2) m == MonthByName(SubSeq(t, 9, 11)) y == NumAt(t, 13, 4)
             h == NumAt(t, 18, 2) mi == NumAt(t, 21, 2) s == NumAt(t, 24, 2)
         IN IF m = 0 \/ ~ValidDate(y, m, d) \/ h \notin 0..23 \/ mi \notin 0..59 \/ s \notin 0..59 THEN NoRead
            ELSE IF SubSeq(t, 1, 3) # DayNames[Weekday(DaysFromCivil(y, m, d)) + 1] THEN NoRead
            ELSE [ok |-> TRUE, i |-> InstantOf(y, m, d, h, mi, s)]

Read(t) == IF t # <<>> /\ t[1] \in 65..90 THEN ReadHttp(t) ELSE ReadIso(t)

-------------------------------------------------------------------------------
(* format-driven reading, Date(str, fmt): in fmt the letters Y M D h m s stand for a number (a run of digits), '?' for
   any one character, every other character for itself.  The spec vouches for the result only when the whole text
   matches the whole format, every number has 1..9 digits, year, month and day are given and all fields are valid
   (absent time fields are 0); the result is then that date-time in the local zone (the harness runs with TZ=UTC).
   Everything else - in particular a text that ends before the format does - may give any value, but must be read in
   bounds: PatWildcardPastEnd marks the texts on which a '?' has to match beyond the end of the text and more format
   follows (hazard PatternWildcardPastEnd: the code used to step over the terminating NUL there).                 *)
cQuestion == 63
FieldIndex(ch) == CASE ch = 89 -> 1 [] ch = 77 -> 2 [] ch = 68 -> 3 [] ch = 104 -> 4 [] ch = 109 -> 5 [] ch = 115 -> 6 [] OTHER -> 0
RECURSIVE PatWalk(_, _, _, _, _)
PatWalk(t, f, pt, pf, fld) ==
    IF pf > Len(f) THEN [ok |-> pt = Len(t) + 1, fld |-> fld]
    ELSE LET k == FieldIndex(f[pf]) IN
         IF k > 0 THEN LET n == DigitRun(t, pt) IN
                       IF n \notin 1..9 THEN [ok |-> FALSE, fld |-> fld]
                       ELSE PatWalk(t, f, pt + n, pf + 1, [fld EXCEPT ![k] = NumAt(t, pt, n)])
         ELSE IF pt > Len(t) THEN [ok |-> FALSE, fld |-> fld]
         ELSE IF f[pf] = cQuestion \/ t[pt] = f[pf] THEN PatWalk(t, f, pt + 1, pf + 1, fld)
         ELSE [ok |-> FALSE, fld |-> fld]
ReadPattern(t, f) ==
    LET w == PatWalk(t, f, 1, 1, <<-1, -1, -1, 0, 0, 0>>) g == w.fld IN
    IF w.ok /\ g[1] >= 0 /\ g[2] >= 0 /\ g[3] >= 0 /\ ValidDate(g[1], g[2], g[3]) /\ g[4] \in 0..23 /\ g[5] \in 0..59 /\ g[6] \in 0..59
    THEN [ok |-> TRUE, i |-> InstantOf(g[1], g[2], g[3], g[4], g[5], g[6])]
    ELSE NoRead
\* the walk the code performs (numbers may be empty, a literal that does not match stops it)
RECURSIVE PatPastEnd(_, _, _, _)
PatPastEnd(t, f, pt, pf) ==
    IF pf > Len(f) THEN FALSE
    ELSE IF FieldIndex(f[pf]) > 0 THEN PatPastEnd(t, f, pt + DigitRun(t, pt), pf + 1)
    ELSE IF pt > Len(t) THEN f[pf] = cQuestion /\ pf < Len(f)
    ELSE IF f[pf] = cQuestion \/ t[pt] = f[pf] THEN PatPastEnd(t, f, pt + 1, pf + 1)
    ELSE FALSE
PatWildcardPastEnd(t, f) == PatPastEnd(t, f, 1, 1)
\* a text for format f showing the fields fld (<<y, m, d, h, mi, s>>): numbers zero-padded or not, '?' shown as filler
RECURSIVE PatTextFrom(_, _, _, _, _)
PatTextFrom(f, pf, fld, padded, filler) ==
    IF pf > Len(f) THEN <<>>
    ELSE LET k == FieldIndex(f[pf]) IN
         (IF k > 0 THEN (IF ~padded THEN Unpadded(fld[k]) ELSE IF k = 1 THEN Pad4(fld[k]) ELSE Pad2(fld[k]))
          ELSE IF f[pf] = cQuestion THEN <<filler>> ELSE <<f[pf]>>)
         \o PatTextFrom(f, pf + 1, fld, padded, filler)
PatText(f, fld, padded, filler) == PatTextFrom(f, 1, fld, padded, filler)

\* text of a zone offset (minutes east of UTC) in the three lexical variants; "hh" only for whole hours
ZoneText(z, variant) ==
    LET a == IF z < 0 THEN -z ELSE z  sign == IF z < 0 THEN cDash ELSE cPlus IN
    CASE variant = "hh:mm" -> <<sign>> \o Pad2(a \div 60) \o <<cColon>> \o Pad2(a % 60)
      [] variant = "hhmm"  -> <<sign>> \o Pad2(a \div 60) \o Pad2(a % 60)
      [] variant = "hh"    -> <<sign>> \o Pad2(a \div 60)
===============================================================================
