------------------------------ MODULE Trace_WsHub ------------------------------
(* V binding for the grown part of C11: validates concurrent runs recorded by harness/c11_hub_record.cpp - a real
   WebSocketServer (its own accept thread, one thread per connection) with up to 24 library clients in threads of their own,
   a broadcaster that goes through clients() under mutex(), pings, wait(t)/closed()/receive() loops, close() from either end.
   The file is a linearisation (events are written under one mutex; "about to" events before the call, results after it).

   The state is WsHub's / WsConn's: per connection and direction the FIFO of what has been sent and not yet received (messages
   by length and 64-bit hash, pings; a ping that is read puts a pong into the opposite FIFO), per end the close state.

     rcv     a message returned by receive() is the oldest message of ITS connection and direction (isolation, exactly once,
             in order, identical); an empty return consumes one control frame
     we      wait(t) = FALSE although something completely sent before the call began was still unread (or the peer had closed)
             is a lost wake-up (checked for t >= 1 s: below that the loopback's own latency could be blamed);
             wait(t) = TRUE needs a cause: something sent (or begun), a pong that may be on its way, a close
     seen    closed() turns true only after somebody began to close, and - when the closing end had nothing unread and no ping
             outstanding (TCP then closes gracefully) - only after everything sent before the close has been received (NoLoss)
     sndx    a send() after close() has no effect (anything it put on the wire would break rcv at the peer)
     cnte    clients().length() is at least the number of connections that were inside serve() during the whole observation
             and at most the number of connections begun since clients() was last seen empty;  roundend: it returns to 0
     chs     connect() against a raw server: it succeeds iff the Sec-WebSocket-Accept value is WsFrame!Accept(key)
             (RFC 6455 4.1; this also validates the harness' own SHA-1/Base64 helper)                                  *)
EXTENDS WsFrame, Json, IOUtils

T == ndJsonDeserialize(IOEnv.TRACE)
VARIABLES l, cn, began, base, cw
tvars == <<l, cn, began, base, cw>>

Rev(d) == IF d = "cs" THEN "sc" ELSE "cs"
Sender(d) == IF d = "cs" THEN "c" ELSE "s"
InDir(s) == IF s = "c" THEN "sc" ELSE "cs"
OutDir(s) == IF s = "c" THEN "cs" ELSE "sc"
Other(s) == IF s = "c" THEN "s" ELSE "c"

NoWait == [on |-> FALSE, t |-> 0, pend |-> FALSE]
New == [q |-> [cs |-> <<>>, sc |-> <<>>], ns |-> [cs |-> 0, sc |-> 0], nd |-> [cs |-> 0, sc |-> 0],
        cls |-> [c |-> 0, s |-> 0], grace |-> [c |-> FALSE, s |-> FALSE], seen |-> [c |-> FALSE, s |-> FALSE],
        w |-> [c |-> NoWait, s |-> NoWait], reg |-> 0, ok |-> FALSE, early |-> [cs |-> 0, sc |-> 0]]

IsCtl(it) == it.k \in {"p", "o"}
Done(x, d, it) == it.k = "o" \/ it.seq <= x.nd[d]
Pong == [k |-> "o", len |-> 0, h |-> <<0, 0, 0, 0>>, seq |-> 0]
RECURSIVE Lead(_)
Lead(w) == IF w # <<>> /\ IsCtl(Head(w)) THEN 1 + Lead(Tail(w)) ELSE 0
Pings(w) == Len(SelectSeq(w, LAMBDA it : it.k = "p"))
Pongs(n) == [i \in 1..n |-> Pong]
HasMsg(w) == \E i \in 1..Len(w) : w[i].k = "m"

\* consume the first n items of direction d (the pings among them are answered)
\* (the pong is written inside the reader's receive(), before the reader logs anything: the other end may log the pong's
\*  arrival first - early[d] counts pongs of direction d that were seen before the ping was logged as read)
Consume(x, d, n) == LET np == Pings(SubSeq(x.q[d], 1, n))
                        m == IF np < x.early[Rev(d)] THEN np ELSE x.early[Rev(d)]
                    IN [x EXCEPT !.q[d] = SubSeq(@, n + 1, Len(@)), !.q[Rev(d)] = @ \o Pongs(np - m), !.early[Rev(d)] = @ - m]

SeenOK(x, s) == /\ x.cls[Other(s)] >= 1
                /\ (x.grace[Other(s)] => ~HasMsg(x.q[InDir(s)]))

TInit == l = 1 /\ cn = <<>> /\ began = 0 /\ base = 0 /\ cw = {}
Known(e) == e.c \in DOMAIN cn
Upd(c, x) == cn' = [cn EXCEPT ![c] = x]
Same == UNCHANGED <<cn, began, base, cw>>

TStep ==
    /\ l <= Len(T)
    /\ l' = l + 1
    /\ LET e == T[l] IN
       \/ e.e = "reset" /\ cn' = <<>> /\ began' = 0 /\ base' = 0 /\ cw' = {}
       \/ e.e = "round" /\ Same
       \/ e.e = "roundend" /\ e.v = 0 /\ base' = began /\ UNCHANGED <<cn, began, cw>>
       \/ e.e = "conn" /\ ~Known(e) /\ cn' = cn @@ (e.c :> New) /\ began' = began + 1 /\ UNCHANGED <<base, cw>>
       \/ e.e = "open" /\ Known(e) /\ e.ok /\ Upd(e.c, [cn[e.c] EXCEPT !.ok = TRUE]) /\ UNCHANGED <<began, base, cw>>
       \/ e.e = "sreg" /\ Known(e) /\ cn[e.c].reg = 0 /\ Upd(e.c, [cn[e.c] EXCEPT !.reg = 1]) /\ UNCHANGED <<began, base, cw>>
       \/ e.e = "sunreg" /\ Known(e) /\ cn[e.c].reg = 1 /\ Upd(e.c, [cn[e.c] EXCEPT !.reg = 2]) /\ UNCHANGED <<began, base, cw>>
       \/ /\ e.e = "snd" /\ Known(e) /\ e.len >= 1
          /\ LET x == cn[e.c] IN
             /\ x.cls[Sender(e.d)] = 0
             /\ Upd(e.c, [x EXCEPT !.q[e.d] = Append(@, [k |-> e.k, len |-> e.len, h |-> e.h, seq |-> x.ns[e.d] + 1]), !.ns[e.d] = @ + 1])
          /\ UNCHANGED <<began, base, cw>>
       \/ /\ e.e = "sndd" /\ Known(e) /\ cn[e.c].nd[e.d] < cn[e.c].ns[e.d]
          /\ Upd(e.c, [cn[e.c] EXCEPT !.nd[e.d] = @ + 1]) /\ UNCHANGED <<began, base, cw>>
       \/ /\ e.e = "rcv" /\ Known(e) /\ e.len >= 0
          /\ LET x == cn[e.c]  w == x.q[e.d]  i == Lead(w) + 1  s == Other(Sender(e.d)) IN
             IF e.len > 0
             THEN /\ i <= Len(w) /\ w[i].k = "m" /\ w[i].len = e.len /\ w[i].h = e.h
                  /\ Upd(e.c, Consume(x, e.d, i))
             ELSE IF e.cl
             THEN /\ SeenOK(x, s) /\ Upd(e.c, [x EXCEPT !.seen[s] = TRUE])
             ELSE IF w # <<>> /\ IsCtl(w[1]) THEN Upd(e.c, Consume(x, e.d, 1))
             ELSE /\ Pings(x.q[Rev(e.d)]) > x.early[e.d]
                  /\ Upd(e.c, [x EXCEPT !.early[e.d] = @ + 1])
          /\ UNCHANGED <<began, base, cw>>
       \/ /\ e.e = "wb" /\ Known(e)
          /\ LET x == cn[e.c]  d == InDir(e.s) IN
             /\ ~x.w[e.s].on
             /\ Upd(e.c, [x EXCEPT !.w[e.s] = [on |-> TRUE, t |-> e.t,
                                               pend |-> (\E i \in 1..Len(x.q[d]) : Done(x, d, x.q[d][i])) \/ x.cls[Other(e.s)] = 2]])
          /\ UNCHANGED <<began, base, cw>>
       \/ /\ e.e = "we" /\ Known(e)
          /\ LET x == cn[e.c]  wt == x.w[e.s] IN
             /\ wt.on
             /\ IF e.r THEN x.q[InDir(e.s)] # <<>> \/ Pings(x.q[OutDir(e.s)]) > 0 \/ x.cls[Other(e.s)] >= 1
                       ELSE ~(wt.pend /\ wt.t >= 1000)
             /\ Upd(e.c, [x EXCEPT !.w[e.s] = NoWait])
          /\ UNCHANGED <<began, base, cw>>
       \/ /\ e.e = "cls" /\ Known(e)
          /\ LET x == cn[e.c] IN
             /\ x.cls[e.s] = 0
             /\ Upd(e.c, [x EXCEPT !.cls[e.s] = 1, !.grace[e.s] = (x.q[InDir(e.s)] = <<>> /\ Pings(x.q[OutDir(e.s)]) = 0)])
          /\ UNCHANGED <<began, base, cw>>
       \/ e.e = "clsd" /\ Known(e) /\ cn[e.c].cls[e.s] = 1 /\ Upd(e.c, [cn[e.c] EXCEPT !.cls[e.s] = 2]) /\ UNCHANGED <<began, base, cw>>
       \/ e.e = "sndx" /\ Known(e) /\ cn[e.c].cls[e.s] = 2 /\ Same
       \/ /\ e.e = "seen" /\ Known(e) /\ cn[e.c].cls[e.s] = 0 /\ SeenOK(cn[e.c], e.s)
          /\ Upd(e.c, [cn[e.c] EXCEPT !.seen[e.s] = TRUE]) /\ UNCHANGED <<began, base, cw>>
       \/ e.e = "cntb" /\ cw' = {c \in DOMAIN cn : cn[c].reg = 1} /\ UNCHANGED <<cn, began, base>>
       \/ /\ e.e = "cnte" /\ e.v >= Cardinality({c \in cw : cn[c].reg = 1}) /\ e.v <= began - base /\ Same
       \/ /\ e.e = "chs" /\ (e.variant <= 1 => e.accept = Accept(e.key)) /\ (e.ok <=> e.accept = Accept(e.key)) /\ Same
TraceSpec == TInit /\ [][TStep]_tvars
TraceAccepted == TLCGet("stats").diameter - 1 = Len(T)
================================================================================
