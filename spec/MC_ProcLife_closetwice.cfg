SPECIFICATION Spec
CONSTANTS
 Payloads <- PayloadsSmall
 Codes = {0, 7}
 ErrCounts = {2}
 ReadLens = {1, 3}
 MaxOps = 5
 MaxFd = 8
 CloseTwice = TRUE
 PipeSafe = 6
INVARIANTS TypeOK ReadIsWritten NothingLost SeenOnlyAfterEnd NoLeak UserIntact
CHECK_DEADLOCK FALSE
