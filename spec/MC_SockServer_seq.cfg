SPECIFICATION FairSpec
CONSTANTS
 NC = 3
 Sequential = TRUE
 SelfDeleteFirst = FALSE
 JoinInDtor = TRUE
INVARIANTS ServedAtMostOnce ValidWhileServing ClosedOnlyAfterServe StopIsClean NoTouchAfterFree
PROPERTIES NoServeAfterStop EveryAcceptedServed StopReturns
CHECK_DEADLOCK FALSE
