SPECIFICATION Spec
CONSTANTS
 YLo = 1
 YHi = 9999
 ChunkYears = 50
 Dense = TRUE
VIEW View
ACTION_CONSTRAINT Emit
INVARIANTS Agree YearLength Epoch
CHECK_DEADLOCK FALSE
