------------------------------ MODULE HttpRedirect ------------------------------
(* C10 (growth) - redirections in Http::request as a bounded transition system.

   A *site* is a sequence of nodes; the resource of node i is requested as /n/<case>/<i>.  A node answers with a status
   code and, for redirections, a Location that names another node of the site:
       [code, to, form, q]     to = 0: no Location header;  form "abs" = "http://host:port/path" (the only form the client
                               documents/supports), "rel" = "/path" (origin-relative);  q = TRUE: the Location carries a query
   One call of Http::request(req) is one behaviour:
       Start      the application calls request() for node 1 with a method, a body and followRedirects on/off
       Request    the request for node `at` reaches the server: the handler of that node observes it (visits)
       Redirect   the answer is 301/302/307/308 with an absolute Location, redirections are enabled and fewer than
                  MaxRequests requests were made: the client closes the connection and asks for the target instead
                  (same headers and body; 307/308 must keep the method, 301/302 may turn POST into GET - RFC 7231 6.4)
       GiveUp     the answer is another redirection but MaxRequests requests were made: the call returns 421 ("Too many
                  redirects") - whatever the site looks like (loops included) a call makes at most MaxRequests requests
       Deliver    every other answer (2xx/4xx/5xx, a 3xx that is not followed, any 3xx with redirections disabled) is what the
                  call returns: status, headers (Location included) and body of the *last* node visited
       Lost       a followed status whose Location is relative or missing: the library cannot resolve it; what the call
                  returns is left open (any = TRUE) but no further request may reach the server
   Bindings: R  MC_HttpRedirect*.cfg prints one line per finished call (site, call, the visits the server must observe, the
                result the client must observe) -> harness/c10_site_replay.cpp runs it between Http::request and a real
                HttpServer;  V  Trace_HttpRedirect.tla validates recorded concurrent calls (random sites, POST through
                301/302 included) against the same actions.                                                          *)
EXTENDS Naturals, Sequences, FiniteSets, TLC, Json

CONSTANTS Sites,        \* the sites explored
          Calls,        \* [method, follow, blen] records: the calls tried on the sites
          CallOK(_, _)  \* which call is tried on which site (model checking for R keeps the deterministic ones)

MaxRequests == 4                       \* the original request and at most 3 followed redirections (recursion n < 4)
Followed == {301, 302, 307, 308}

Nd(code, to, form, q) == [code |-> code, to |-> to, form |-> form, q |-> q]
Final(code) == Nd(code, 0, "none", FALSE)
NextMethods(m, code) == IF code \in {301, 302} /\ m = "POST" THEN {"POST", "GET"} ELSE {m}

VARIABLES site, call, at, meth, nreq, pending, visits, out
vars == <<site, call, at, meth, nreq, pending, visits, out>>

NoSite == <<>>
NoCall == [method |-> "", follow |-> FALSE, blen |-> 0]
NoOut == [done |-> FALSE, any |-> FALSE, code |-> 0, node |-> 0, gaveup |-> FALSE]

Init == /\ site = NoSite /\ call = NoCall /\ at = 0 /\ meth = "" /\ nreq = 0 /\ pending = FALSE /\ visits = <<>> /\ out = NoOut

StartWith(s, c) ==
    /\ site = NoSite
    /\ site' = s /\ call' = c /\ at' = 1 /\ meth' = c.method /\ nreq' = 0 /\ pending' = FALSE /\ visits' = <<>> /\ out' = NoOut
Start == site = NoSite /\ \E s \in Sites, c \in Calls : CallOK(s, c) /\ StartWith(s, c)

Cur == site[at]
\* the request for node `at` reaches the server; a body travels only with the method that carries it
Request ==
    /\ site # NoSite /\ ~out.done /\ ~pending /\ at \in 1..Len(site)
    /\ visits' = Append(visits, [node |-> at, method |-> meth, blen |-> IF meth = call.method THEN call.blen ELSE 0,
                                 q |-> Len(visits) > 0 /\ site[visits[Len(visits)].node].q])
    /\ nreq' = nreq + 1 /\ pending' = TRUE
    /\ UNCHANGED <<site, call, at, meth, out>>

Follows == pending /\ call.follow /\ Cur.code \in Followed
RedirectTo(m) ==
    /\ Follows /\ nreq < MaxRequests /\ Cur.form = "abs" /\ Cur.to \in 1..Len(site)
    /\ m \in NextMethods(meth, Cur.code)
    /\ at' = Cur.to /\ meth' = m /\ pending' = FALSE
    /\ UNCHANGED <<site, call, nreq, visits, out>>
Redirect == \E m \in {"GET", "POST", "PUT", "DELETE"} : RedirectTo(m)
GiveUp ==
    /\ Follows /\ nreq >= MaxRequests
    /\ out' = [done |-> TRUE, any |-> FALSE, code |-> 421, node |-> 0, gaveup |-> TRUE] /\ pending' = FALSE
    /\ UNCHANGED <<site, call, at, meth, nreq, visits>>
Lost ==
    /\ Follows /\ nreq < MaxRequests /\ ~(Cur.form = "abs" /\ Cur.to \in 1..Len(site))
    /\ out' = [done |-> TRUE, any |-> TRUE, code |-> 0, node |-> 0, gaveup |-> FALSE] /\ pending' = FALSE
    /\ UNCHANGED <<site, call, at, meth, nreq, visits>>
Deliver ==
    /\ pending /\ ~Follows
    /\ out' = [done |-> TRUE, any |-> FALSE, code |-> Cur.code, node |-> at, gaveup |-> FALSE] /\ pending' = FALSE
    /\ UNCHANGED <<site, call, at, meth, nreq, visits>>
Finished == out.done /\ UNCHANGED vars

Next == Start \/ Request \/ Redirect \/ GiveUp \/ Lost \/ Deliver \/ Finished
Spec == Init /\ [][Next]_vars

-----------------------------------------------------------------------------
(* properties of every call, on every site (checked by TLC; deadlock checking is on: a call that has not returned can
   always take a step, so together with BoundedRequests every call returns after at most MaxRequests requests) *)
TypeOK == /\ nreq \in 0..MaxRequests /\ Len(visits) = nreq /\ at \in 0..6
          /\ out.done => ~pending
BoundedRequests == Len(visits) <= MaxRequests
\* the server sees a path through the site that starts at node 1 and follows the Locations
PathInSite == /\ (visits # <<>> => visits[1].node = 1)
              /\ \A k \in 1..(Len(visits) - 1) : /\ site[visits[k].node].code \in Followed
                                                 /\ site[visits[k].node].to = visits[k + 1].node
                                                 /\ visits[k + 1].method \in NextMethods(visits[k].method, site[visits[k].node].code)
NoFollowOneRequest == (site # NoSite /\ ~call.follow) => Len(visits) <= 1
GiveUpOnlyAtLimit == out.gaveup => /\ Len(visits) = MaxRequests /\ call.follow
                                   /\ \A k \in 1..Len(visits) : site[visits[k].node].code \in Followed
\* what is delivered is the answer of the last node visited, and it is not a redirection the client should have followed
DeliveredIsLast == (out.done /\ ~out.any /\ ~out.gaveup) =>
                       /\ out.node = visits[Len(visits)].node /\ out.code = site[out.node].code
                       /\ (call.follow => out.code \notin Followed)
\* 307/308 never change the method or drop the body
StrictCodesKeepMethod == \A k \in 1..(Len(visits) - 1) :
                             site[visits[k].node].code \in {307, 308} =>
                                 (visits[k + 1].method = visits[k].method /\ visits[k + 1].blen = visits[k].blen)

\* R: one line per finished call
Emit == IF out'.done /\ ~out.done
        THEN PrintT(ToJson([kind |-> "redir", site |-> site', call |-> call', visits |-> visits', out |-> out']))
        ELSE TRUE
=============================================================================
