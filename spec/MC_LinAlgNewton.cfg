SPECIFICATION Spec
ACTION_CONSTRAINT Emit
INVARIANTS RootsAreRoots Complete SimpleRoots Separated StartNear
CHECK_DEADLOCK FALSE
