----------------------------- MODULE XdlSMRefine -----------------------------
(* C06 - the design of asl::XdlParser (XdlSM) refines the JSON text language: on every state of the generator
   JsonTextGen (every derivation prefix, with every lexical variant)

     SMAgree        a complete document is accepted by the state machine and yields the generated value
     SMPrefix       a prefix that ends inside an array, an object or a string gives an invalid result
     SMNoUnderflow  the machine never reads or pops an empty stack on the way
     SMChunks       feeding the text in two chunks cut at any position ends in the same machine state as feeding
                    it whole (chunk boundaries are invisible to the design)

   With QKeySlashIsComment = TRUE (the pinned tree) TLC produces the counterexample  {"/  of SlashInQuotedKey
   from this module alone (MC_XdlSMRefine_defect.cfg, expected to fail).                                      *)
EXTENDS JsonTextGen, XdlSM

SMAgree == done => LET r == Decode(text) IN r.ok /\ r.v = val
SMPrefix == (~done /\ Inside) => ~Decode(text).ok
SMNoUnderflow == NoUnderflowS(Run(Run(SMInit, text), Flush))
SMChunks == \A k \in 0..Len(text) :
               Run(Run(SMInit, SubSeq(text, 1, k)), SubSeq(text, k + 1, Len(text))) = Run(SMInit, text)

\* the four invariants in one evaluation (the machine is run once per prefix): this is what the configurations check
RECURSIVE PrefixStates(_, _, _)
PrefixStates(s, t, i) == IF i > Len(t) THEN <<s>> ELSE <<s>> \o PrefixStates(Step(s, t[i]), t, i + 1)
SMAll == LET ps == PrefixStates(SMInit, text, 1)                    \* ps[k+1] = state after the first k bytes
             full == ps[Len(text) + 1]
             endst == Run(full, Flush)
             r == Result(endst)
         IN /\ NoUnderflowS(endst)
            /\ done => (r.ok /\ r.v = val)
            /\ (~done /\ Inside) => ~r.ok
            /\ \A k \in 0..Len(text) : RunFrom(ps[k + 1], text, k + 1) = full
===============================================================================
