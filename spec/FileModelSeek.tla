---------------------------- MODULE FileModelSeek ----------------------------
(* C17 (growth) - one File/TextFile object with a position: open modes READ / WRITE / APPEND / RW, seek(), position(),
   end(), read(), write() at the position, readLine() one line at a time, size() of the open object after flush(),
   modification times, File::temp(), and other objects writing the path while the long-lived one is closed.

   State: the path p (absent or a byte sequence), the long-lived object h (closed, or open in a mode with a position,
   an end-of-file flag, unflushed data), what h remembers of the file information, the modification time of p as far as it is
   determined (NONE: no file, NOW: some moment of this execution, or the whole second given to setLastModified).

   The library reads and writes through stdio; the specification is the stdio contract as the documentation of File states it:

     open(WRITE) empties the file, open(APPEND) keeps it and every write goes to its end, open(READ) / open(RW) need the file
     write(d)     replaces / extends the bytes at the position (a gap left by seek() beyond the end reads as zero bytes)
     read(n)      the next n bytes, fewer at the end, and only then end() becomes true
     seek(o, START / HERE / END)   position = o / position + o / length + o; end() is false again; data written so far is on disk
     position()   the position (after open(APPEND) it is unspecified until the first write or seek)
     RW           reading and writing alternate only with a seek() (or flush() after writing) in between     (C standard 7.21.5.3)
     readLine()   the bytes up to the next LF without it and without one CR before it; at the end of the file the rest, then ""
                  (readLine(String&) returns true after a complete line and false when nothing was left; for a last line without
                   LF the documentation does not say)
     flush()/close()/seek()   make what was written visible to other objects;  h.size() after flush() is the length
     setLastModified(t)       lastModified() is t afterwards; every write makes it NOW (never earlier than before the write)
     File::temp(ext)          a new, empty file whose name ends with ext

   Usage discipline (guards): other objects write p only while h is closed; p is observed through other objects only when
   nothing is unflushed; h.size() is asked only while what h remembers still describes the file (FileModel!InfoOK).

   R: MC_FileModelSeek_*.cfg emit one case per transition                          -> harness/c17_fs_replay (k = "seek")
   V: Trace_FileModelSeek validates recorded random executions with larger contents -> harness/c17_fs_record (--mode 1) *)
EXTENDS Integers, Sequences, FiniteSets, TLC, Json, SequencesExt

CONSTANTS Chunks,       \* byte sequences written with write() / put() / append()
          Ints,         \* integers written as text (operator<<(int), printf("%d;"))
          ReadSizes,    \* arguments of read(n)
          SeekOffs,     \* offsets of seek()
          Times,        \* arguments of setLastModified (whole seconds)
          Exts,         \* extensions of File::temp (byte strings)
          MaxLen,       \* bound on the file length
          MaxOps, MaxTemps,
          KeepHist

VARIABLES fs,       \* NoFile or the bytes of p
          hmode,    \* "closed", "r", "w", "a", "rw"
          hpos,     \* position of h
          posdef,   \* the position is determined
          heof,     \* end() of h
          dirty,    \* h holds data that is not on disk yet
          last,     \* RW: "r" / "w" after a read / write without a seek since, else "n"
          hknown,   \* the size h remembers (-1: nothing)
          mt,       \* NONE, NOW or a number of Times
          temps,    \* number of File::temp calls
          hist
vars == <<fs, hmode, hpos, posdef, heof, dirty, last, hknown, mt, temps, hist>>
Others == <<fs, hmode, hpos, posdef, heof, dirty, last, hknown, mt, temps>>

NoFile == <<-1>>
NONE == 0      \* modification time: there is no file
NOW == 1       \* ... some moment of this execution
Exists == fs # NoFile
Cur == IF Exists THEN fs ELSE <<>>
LF == 10
CR == 13
Zeros(n) == [i \in 1..n |-> 0]
\* d written at position pos of b
Overlay(b, pos, d) == IF d = <<>> THEN b
                      ELSE LET base == IF pos > Len(b) THEN b \o Zeros(pos - Len(b)) ELSE b
                           IN SubSeq(base, 1, pos) \o d \o SubSeq(base, pos + Len(d) + 1, Len(base))
\* decimal text of an integer
RECURSIVE Digits(_)
Digits(n) == IF n < 10 THEN <<48 + n>> ELSE Append(Digits(n \div 10), 48 + (n % 10))
Dec(n) == IF n < 0 THEN <<45>> \o Digits(-n) ELSE Digits(n)
NulFree(b) == {i \in 1..Len(b) : b[i] = 0} = {}

Log(rec) == hist' = IF KeepHist THEN Append(hist, rec) ELSE <<rec>>
Open == hmode # "closed"
InfoOK == hknown = -1 \/ hknown = (IF Exists THEN Len(fs) ELSE -1)

-------------------------------------------------------------------------------
(* the long-lived object *)
HOpen(m) ==
    /\ hmode = "closed" /\ m \in {"r", "w", "a", "rw"}
    /\ UNCHANGED <<hknown, temps>>
    /\ IF m \in {"r", "rw"} /\ ~Exists
       THEN UNCHANGED <<fs, hmode, hpos, posdef, heof, dirty, last, mt>> /\ Log([op |-> "open", m |-> m, r |-> FALSE])
       ELSE /\ fs' = (IF m = "w" THEN <<>> ELSE Cur)
            /\ mt' = (IF m = "w" \/ ~Exists THEN NOW ELSE mt)
            /\ hmode' = m /\ hpos' = 0 /\ posdef' = (m # "a") /\ heof' = FALSE /\ dirty' = FALSE /\ last' = "n"
            /\ Log([op |-> "open", m |-> m, r |-> TRUE])
\* write(p, n) / operator<<(String) / operator<<(int) / printf("%d;", n): the bytes d at the position (at the end in APPEND mode)
HWrite(d, api, n) ==
    /\ hmode \in {"w", "a", "rw"} /\ (hmode = "rw" => last # "r") /\ (hmode # "a" => posdef)
    /\ fs' = (IF hmode = "a" THEN fs \o d ELSE Overlay(fs, hpos, d))
    /\ hpos' = (IF d = <<>> THEN hpos ELSE IF hmode = "a" THEN Len(fs) + Len(d) ELSE hpos + Len(d))     \* (writing nothing moves nothing)
    /\ posdef' = (posdef \/ d # <<>>)
    /\ dirty' = (dirty \/ d # <<>>)
    /\ last' = (IF hmode = "rw" THEN "w" ELSE "n")
    /\ UNCHANGED <<hmode, heof, hknown, mt, temps>>
    /\ Log([op |-> "write", d |-> d, api |-> api, n |-> n, r |-> Len(d)])
HRead(n) ==
    /\ hmode \in {"r", "rw"} /\ (hmode = "rw" => last # "w") /\ posdef
    /\ LET rest == IF hpos >= Len(fs) THEN 0 ELSE Len(fs) - hpos
           k == IF n <= rest THEN n ELSE rest
       IN /\ hpos' = hpos + k
          /\ heof' = (heof \/ n > rest)
          /\ Log([op |-> "read", n |-> n, r |-> SubSeq(fs, hpos + 1, hpos + k)])
    /\ last' = (IF hmode = "rw" THEN "r" ELSE "n")
    /\ UNCHANGED <<fs, hmode, posdef, dirty, hknown, mt, temps>>
\* seek(off, from)
SeekTarget(off, from) == IF from = "start" THEN off ELSE IF from = "here" THEN hpos + off ELSE Len(fs) + off
HSeek(off, from) ==
    /\ Open /\ from \in {"start", "here", "end"} /\ (from = "here" => posdef)
    /\ SeekTarget(off, from) >= 0
    /\ hpos' = SeekTarget(off, from) /\ posdef' = TRUE /\ heof' = FALSE /\ last' = "n"
    /\ dirty' = FALSE /\ mt' = (IF dirty THEN NOW ELSE mt)
    /\ UNCHANGED <<fs, hmode, hknown, temps>>
    /\ Log([op |-> "seek", off |-> off, from |-> from])
HPosition == /\ Open /\ posdef /\ UNCHANGED Others
             /\ Log([op |-> "pos", r |-> hpos])
HEnd == /\ Open /\ UNCHANGED Others
        /\ Log([op |-> "end", r |-> heof])
\* TextFile::end() on the closed object opens it for reading (there is no end to speak of when there is no file)
HEndClosed == /\ hmode = "closed"
              /\ IF Exists THEN /\ hmode' = "r" /\ hpos' = 0 /\ posdef' = TRUE /\ heof' = FALSE /\ dirty' = FALSE /\ last' = "n"
                                /\ Log([op |-> "tend", r |-> FALSE])
                 ELSE UNCHANGED <<hmode, hpos, posdef, heof, dirty, last>> /\ Log([op |-> "tend", r |-> TRUE])
              /\ UNCHANGED <<fs, hknown, mt, temps>>
HFlush == /\ hmode \in {"w", "a", "rw"} /\ last # "r"
          /\ dirty' = FALSE /\ mt' = (IF dirty THEN NOW ELSE mt) /\ last' = "n"
          /\ UNCHANGED <<fs, hmode, hpos, posdef, heof, hknown, temps>>
          /\ Log([op |-> "flush"])
HClose == /\ Open
          /\ hmode' = "closed" /\ hpos' = 0 /\ posdef' = TRUE /\ heof' = FALSE /\ dirty' = FALSE /\ last' = "n"
          /\ mt' = (IF dirty THEN NOW ELSE mt) /\ hknown' = -1
          /\ UNCHANGED <<fs, temps>>
          /\ Log([op |-> "close"])
\* close() of an object that is not open: it forgets what it knew about the file
HCloseClosed == /\ hmode = "closed" /\ hknown' = -1
                /\ UNCHANGED <<fs, hmode, hpos, posdef, heof, dirty, last, mt, temps>>
                /\ Log([op |-> "close"])
\* h.size(): the information is looked up (and kept) - after flush() it is the length of what was written
HSize == /\ ~dirty /\ InfoOK
         /\ hknown' = (IF Exists THEN Len(fs) ELSE -1)
         /\ UNCHANGED <<fs, hmode, hpos, posdef, heof, dirty, last, mt, temps>>
         /\ Log([op |-> "hsize", r |-> IF Exists THEN Len(fs) ELSE -1])
\* h.readLine(): closed -> opens for reading (nothing to read without a file)
HReadLine ==
    /\ hmode \in {"closed", "r"} /\ (hmode = "r" => posdef) /\ NulFree(Cur)
    /\ UNCHANGED <<fs, dirty, last, hknown, mt, temps>>
    /\ IF hmode = "closed" /\ ~Exists
       THEN UNCHANGED <<hmode, hpos, posdef, heof>> /\ Log([op |-> "readline", r |-> <<>>, okdef |-> TRUE, ok |-> FALSE])
       ELSE LET pos  == IF hmode = "closed" THEN 0 ELSE hpos
                rest == SubSeq(fs, pos + 1, Len(fs))
                lfs  == {i \in 1..Len(rest) : rest[i] = LF}
                i    == IF lfs = {} THEN 0 ELSE CHOOSE j \in lfs : \A k \in lfs : j <= k
                cut  == IF i > 1 /\ rest[i - 1] = CR THEN i - 2 ELSE i - 1
            IN /\ hmode' = "r" /\ posdef' = TRUE
               /\ IF i # 0 THEN /\ hpos' = pos + i /\ heof' = (IF hmode = "closed" THEN FALSE ELSE heof)
                                /\ Log([op |-> "readline", r |-> SubSeq(rest, 1, cut), okdef |-> TRUE, ok |-> TRUE])
                  ELSE /\ hpos' = (IF pos > Len(fs) THEN pos ELSE Len(fs)) /\ heof' = TRUE
                       /\ Log([op |-> "readline", r |-> rest, okdef |-> (rest = <<>>), ok |-> FALSE])

(* other objects, while h is closed *)
OtherPut(d, api, n) == /\ hmode = "closed"
                       /\ fs' = d /\ mt' = NOW
                       /\ UNCHANGED <<hmode, hpos, posdef, heof, dirty, last, hknown, temps>>
                       /\ Log([op |-> "oput", d |-> d, api |-> api, n |-> n])
\* TextFile(p).append(s)
OtherAppend(d) == /\ hmode = "closed"
                  /\ fs' = Cur \o d /\ mt' = (IF d = <<>> /\ Exists THEN mt ELSE NOW)
                  /\ UNCHANGED <<hmode, hpos, posdef, heof, dirty, last, hknown, temps>>
                  /\ Log([op |-> "oappend", d |-> d])
OtherRemove == /\ hmode = "closed" /\ Exists
               /\ fs' = NoFile /\ mt' = NONE
               /\ UNCHANGED <<hmode, hpos, posdef, heof, dirty, last, hknown, temps>>
               /\ Log([op |-> "oremove"])
SetTime(t) == /\ ~dirty
              /\ mt' = (IF Exists THEN t ELSE mt)
              /\ UNCHANGED <<fs, hmode, hpos, posdef, heof, dirty, last, hknown, temps>>
              /\ Log([op |-> "settime", t |-> t, r |-> Exists])
\* File::temp(ext)
Temp(ext) == /\ temps < MaxTemps /\ temps' = temps + 1
             /\ UNCHANGED <<fs, hmode, hpos, posdef, heof, dirty, last, hknown, mt>>
             /\ Log([op |-> "temp", ext |-> ext])

-------------------------------------------------------------------------------
Init == /\ fs = NoFile /\ hmode = "closed" /\ hpos = 0 /\ posdef = TRUE /\ heof = FALSE /\ dirty = FALSE /\ last = "n"
        /\ hknown = -1 /\ mt = NONE /\ temps = 0 /\ hist = <<>>

CanStep == Len(hist) < MaxOps
Fits(d) == (IF hmode = "a" \/ ~posdef THEN Len(Cur) ELSE IF hpos > Len(Cur) THEN hpos ELSE Len(Cur)) + Len(d) <= MaxLen
TextOfInt(n, api) == IF api = "printf" THEN Dec(n) \o <<59>> ELSE Dec(n)
MCOpen     == CanStep /\ \E m \in {"r", "w", "a", "rw"} : HOpen(m)
MCWrite    == CanStep /\ \E d \in Chunks : Fits(d) /\ HWrite(d, <<"bin", "str", "shl">>[((Len(hist) + Len(d)) % 3) + 1], 0)
MCWriteInt == CanStep /\ \E n \in Ints : \E api \in {"int", "printf"} : Fits(TextOfInt(n, api)) /\ HWrite(TextOfInt(n, api), api, n)
MCRead     == CanStep /\ \E n \in ReadSizes : HRead(n)
MCSeek     == CanStep /\ \E off \in SeekOffs, from \in {"start", "here", "end"} : SeekTarget(off, from) <= MaxLen /\ HSeek(off, from)
MCPosition == CanStep /\ HPosition
MCEnd      == CanStep /\ HEnd
MCEndClosed == CanStep /\ HEndClosed
MCFlush    == CanStep /\ HFlush
MCClose    == CanStep /\ HClose
MCCloseClosed == CanStep /\ hknown # -1 /\ HCloseClosed
MCSize     == CanStep /\ HSize
MCReadLine == CanStep /\ HReadLine
\* File(p).put(d) / TextFile(p).put(s) / TextFile(p) << n / TextFile(p).printf("%d;", n): a temporary object opens for writing
MCOtherPut == CanStep /\ \/ \E d \in Chunks : OtherPut(d, <<"bin", "text">>[(Len(hist) % 2) + 1], 0)
                         \/ \E n \in Ints : \E api \in {"int", "printf"} : OtherPut(TextOfInt(n, api), api, n)
MCOtherAppend == CanStep /\ \E d \in Chunks : Len(Cur) + Len(d) <= MaxLen /\ OtherAppend(d)
MCOtherRemove == CanStep /\ OtherRemove
MCSetTime  == CanStep /\ \E t \in Times : SetTime(t)
MCTemp     == CanStep /\ \E e \in Exts : Temp(e)
Next == \/ MCOpen \/ MCWrite \/ MCWriteInt \/ MCRead \/ MCSeek \/ MCPosition \/ MCEnd \/ MCEndClosed \/ MCFlush \/ MCClose \/ MCCloseClosed \/ MCSize
        \/ MCReadLine \/ MCOtherPut \/ MCOtherAppend \/ MCOtherRemove \/ MCSetTime \/ MCTemp
Spec == Init /\ [][Next]_vars

-------------------------------------------------------------------------------
(* properties of the specification itself *)
TypeOK == /\ (fs = NoFile \/ \A i \in 1..Len(fs) : fs[i] \in 0..255)
          /\ hmode \in {"closed", "r", "w", "a", "rw"} /\ hpos \in Nat /\ posdef \in BOOLEAN /\ heof \in BOOLEAN /\ dirty \in BOOLEAN
          /\ last \in {"n", "r", "w"} /\ hknown \in Nat \cup {-1} /\ mt \in {NONE, NOW} \cup Times
HandleOK == /\ Open => Exists
            /\ dirty => hmode \in {"w", "a", "rw"}
            /\ heof => hmode \in {"r", "rw"}
            /\ last # "n" => hmode = "rw"
            /\ (mt = NONE) = ~Exists
            /\ (hmode = "a" /\ posdef /\ dirty) => hpos = Len(fs)
LastRec == hist'[Len(hist')]
Stepped == hist' # hist /\ hist' # <<>>
\* only the writing calls change the bytes; in APPEND mode nothing that was there is ever changed; a write never shortens
WritesOnly == [][(Stepped /\ fs' # fs) => LastRec.op \in {"open", "write", "oput", "oappend", "oremove"}]_vars
AppendOnly == [][(Stepped /\ hmode = "a" /\ hmode' = "a") => (Len(fs') >= Len(fs) /\ SubSeq(fs', 1, Len(fs)) = fs)]_vars
WriteLocal == [][(Stepped /\ LastRec.op = "write" /\ hmode # "a") =>
                    /\ Len(fs') >= Len(fs)
                    /\ \A i \in 1..Len(fs) : (i <= hpos \/ i > hpos + Len(LastRec.d)) => fs'[i] = fs[i]
                    /\ SubSeq(fs', hpos + 1, hpos + Len(LastRec.d)) = LastRec.d]_vars
\* reading never changes the file; what read() returns is what is at the position
ReadExact == [][(Stepped /\ LastRec.op = "read") => (fs' = fs /\ LastRec.r = SubSeq(fs, hpos + 1, hpos + Len(LastRec.r)) /\ hpos' = hpos + Len(LastRec.r))]_vars
\* the modification time only moves to NOW or to what setLastModified says
TimeMonotone == [][(Stepped /\ mt' # mt) => (mt' = NOW \/ LastRec.op \in {"settime", "oremove"})]_vars

-------------------------------------------------------------------------------
View == <<fs, hmode, hpos, posdef, heof, dirty, last, hknown, mt, temps, Len(hist)>>
Emit == PrintT(ToJson([k |-> "seek", hist |-> hist', ex |-> (fs' # NoFile), c |-> (IF fs' = NoFile THEN <<>> ELSE fs'), settled |-> ~dirty',
                       hm |-> hmode', mt |-> mt', pos |-> (IF hmode' # "closed" /\ posdef' THEN hpos' ELSE -1), eof |-> heof',
                       temps |-> temps']))
===============================================================================
