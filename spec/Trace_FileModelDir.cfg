SPECIFICATION TraceSpec
CONSTANTS
 Nodes <- NodesV
 Contents <- Empty
 InitTrees <- TreesV
 Patterns <- PatternsQ
 MaxOps = 0
 MaxTemps = 1000000
 KeepHist = FALSE
INVARIANTS TreeOK
PROPERTIES FailedUnchanged CopyExact MoveExact RemoveLocal CreateMonotone
POSTCONDITION TraceAccepted
CHECK_DEADLOCK FALSE
