SPECIFICATION Spec
CONSTANTS
 Files = {1,2}
 Cats = {1}
 Decor = {3}
 Via = {0,1,2}
 Levels = {0,3,4}
 MaxLevels = {1,4}
 MsgLens = {8,1000001}
 DateLen = 19
 RotLo = 1000000
 RotHi = 1000000
 MaxOps = 4
 ViewOps = 1
 KeepHist = TRUE
VIEW View
ACTION_CONSTRAINT Emit
INVARIANTS TypeOK OrderInv SuffixInv SizeInv
PROPERTIES FilterProp WrittenProp
CHECK_DEADLOCK FALSE
