----------------------------- MODULE XmlTextSM -----------------------------
(* C07, implementation-shaped: a transcription of the character state machine of Xml::decode (src/Xml.cpp) - its 21
   states, the text buffer b, the reference buffer, the pending attribute name, the stack of open elements seeded with
   an anonymous root, the return state of references (lastState) and the angle counter of declarations.

   It is checked against the property-level module on every text the XmlText generator produces:
     SMRefines    on every complete document the machine returns the tree the generator built (up to Normalize), i.e.
                  the design of the decoder agrees with the recognizer on the XML subset
     SMTotal      on every generated text (documents, prefixes, surplus / mismatched end tags) the machine ends with
                  "null" or a tree - it never pops the anonymous root
   GuardRoot = TRUE models the decoder with fixes/C07-close-anonymous-root applied (an end tag is rejected while only
   the anonymous root is open).  With GuardRoot = FALSE (the code as found) TLC produces the counterexample "</>" for
   SMTotal without running any C++ (MC_XmlTextSM_unguarded.cfg, expected violation).
   The oracle for conformance stays XmlText (Recognize / Normalize); this module only explains the design.
   Numeric character references are transcribed for at most 9 digits (no 32-bit wrap-around); strtoul's sign / "0x"
   prefixes are not modelled - such texts are outside the subset and only SMTotal applies to them.             *)
EXTENDS XmlText

CONSTANT GuardRoot

BadStart(v) == v < 128 /\ ((v < 65 /\ v # 58) \/ (v > 90 /\ v < 95) \/ v = 96 \/ (v > 122 /\ v <= 126))
BadName(v)  == v < 128 /\ (v < 45 \/ v = 47 \/ (v > 58 /\ v < 65) \/ (v > 90 /\ v < 95) \/ v = 96 \/ (v > 122 /\ v <= 126))
SpaceCh(v)  == v \in {32, 9, 13, 10}

\* elements under construction are Elem records; operations on the stack el (top = last)
TopEl(el)        == el[Len(el)]
AddChild(el, x)  == [el EXCEPT ![Len(el)] = [@ EXCEPT !.c = Append(@, x)]]
SetAttr(el, k, v) ==
    LET a == TopEl(el).a
        a2 == IF \E i \in 1..Len(a) : a[i][1] = k
              THEN [i \in 1..Len(a) |-> IF a[i][1] = k THEN <<k, v>> ELSE a[i]]
              ELSE Append(a, <<k, v>>)
    IN [el EXCEPT ![Len(el)] = [@ EXCEPT !.a = a2]]
PopAttach(el)    == AddChild(SubSeq(el, 1, Len(el) - 1), TopEl(el))            \* Xml e = popget(); top() << e

\* longest prefix of digits in the base, as a number (0 if none or more than 9 digits)
RECURSIVE DigitsPrefix(_, _, _)
DigitsPrefix(s, i, base) == IF i <= Len(s) /\ HexV(s[i]) < base THEN DigitsPrefix(s, i + 1, base) ELSE i - 1
NumPrefix(s, base) == LET k == DigitsPrefix(s, 1, base) IN IF k = 0 \/ k > (IF base = 16 THEN 7 ELSE 9) THEN 0 ELSE NumVal(SubSeq(s, 1, k), base, 0)
Utf8OfCode(code) == IF code = 0 THEN <<>> ELSE IF code <= 1114111 THEN Utf8(code) ELSE Utf8(code % 2097152)
RefBytes(ref) ==
    IF ref[1] = 35
    THEN (IF Len(ref) >= 2 /\ ref[2] = 120 THEN Utf8OfCode(NumPrefix(SubSeq(ref, 3, Len(ref)), 16))
          ELSE Utf8OfCode(NumPrefix(SubSeq(ref, 2, Len(ref)), 10)))
    ELSE IF ref = <<97,109,112>> THEN <<38>> ELSE IF ref = <<97,112,111,115>> THEN <<39>>
    ELSE IF ref = <<103,116>> THEN <<62>> ELSE IF ref = <<108,116>> THEN <<60>>
    ELSE IF ref = <<113,117,111,116>> THEN <<34>> ELSE <<63>>

S0 == [st |-> "FREE", last |-> "FREE", b |-> <<>>, ref |-> <<>>, at |-> <<>>, el |-> <<Elem(<<>>, <<>>, <<>>)>>, ang |-> 0, res |-> "run"]
Stop(s, r) == [s EXCEPT !.res = r]

\* one character; prev = the character before it (TAG_QUES looks back)
Step(s, c, prev) ==
    LET st == s.st IN
    IF st = "FREE" THEN
        (IF c = 60 THEN [s EXCEPT !.el = IF ~WsOnly(s.b) THEN AddChild(@, Txt(s.b)) ELSE @, !.b = <<>>, !.st = "TAG_START"]
         ELSE IF c = 38 THEN [s EXCEPT !.st = "REF_START"]
         ELSE [s EXCEPT !.b = Append(@, c)])
    ELSE IF st = "TAG_START" THEN
        (IF c = 47 THEN [s EXCEPT !.st = "TAG_END"]
         ELSE IF c = 33 THEN [s EXCEPT !.st = "TAG_EXCLAM"]
         ELSE IF c = 63 THEN [s EXCEPT !.st = "TAG_QUES"]
         ELSE IF BadStart(c) THEN Stop(s, "null")
         ELSE [s EXCEPT !.st = "TAG", !.b = <<c>>])
    ELSE IF st = "TAG" THEN
        (IF c = 62 THEN [s EXCEPT !.el = Append(@, Elem(s.b, <<>>, <<>>)), !.b = <<>>, !.st = "FREE"]
         ELSE IF c = 47 THEN [s EXCEPT !.el = Append(@, Elem(s.b, <<>>, <<>>)), !.b = <<>>, !.st = "SLASH"]
         ELSE IF SpaceCh(c) THEN [s EXCEPT !.el = Append(@, Elem(s.b, <<>>, <<>>)), !.b = <<>>, !.st = "WAIT_ATT"]
         ELSE IF BadName(c) THEN Stop(s, "null")
         ELSE [s EXCEPT !.b = Append(@, c)])
    ELSE IF st = "TAG_END" THEN
        (IF c = 62 THEN
            (IF (GuardRoot /\ Len(s.el) < 2) \/ s.b # TopEl(s.el).n THEN Stop(s, "null")
             ELSE IF Len(s.el) < 2 THEN Stop(s, "underflow")                       \* popped the anonymous root: top() of an empty stack
             ELSE [s EXCEPT !.el = PopAttach(@), !.st = "FREE", !.b = <<>>])
         ELSE [s EXCEPT !.b = Append(@, c)])
    ELSE IF st = "WAIT_ATT" THEN
        (IF c = 62 THEN [s EXCEPT !.st = "FREE", !.b = <<>>]
         ELSE IF c = 47 THEN [s EXCEPT !.st = "SLASH"]
         ELSE IF SpaceCh(c) THEN s
         ELSE IF BadStart(c) THEN Stop(s, "null")
         ELSE [s EXCEPT !.st = "ATT_NAME", !.b = <<c>>])
    ELSE IF st = "ATT_NAME" THEN
        (IF SpaceCh(c) THEN [s EXCEPT !.at = s.b, !.b = <<>>, !.st = "WAIT_EQUAL"]
         ELSE IF c = 61 THEN [s EXCEPT !.at = s.b, !.b = <<>>, !.st = "WAIT_ATTVAL"]
         ELSE IF BadName(c) THEN Stop(s, "null")
         ELSE [s EXCEPT !.b = Append(@, c)])
    ELSE IF st = "WAIT_EQUAL" THEN (IF c = 61 THEN [s EXCEPT !.st = "WAIT_ATTVAL"] ELSE s)
    ELSE IF st = "WAIT_ATTVAL" THEN
        (IF c = 34 THEN [s EXCEPT !.st = "ATT_VAL", !.last = "ATT_VAL", !.b = <<>>]
         ELSE IF c = 39 THEN [s EXCEPT !.st = "ATT_VALSQ", !.last = "ATT_VALSQ", !.b = <<>>]
         ELSE s)
    ELSE IF st \in {"ATT_VAL", "ATT_VALSQ"} THEN
        (IF c = (IF st = "ATT_VAL" THEN 34 ELSE 39)
         THEN [s EXCEPT !.el = SetAttr(@, s.at, s.b), !.st = "WAIT_ATT", !.last = "FREE", !.b = <<>>]
         ELSE IF c = 38 THEN [s EXCEPT !.st = "REF_START"]
         ELSE [s EXCEPT !.b = Append(@, c)])
    ELSE IF st = "SLASH" THEN (IF c = 62 THEN [s EXCEPT !.el = PopAttach(@), !.st = "FREE", !.b = <<>>] ELSE s)
    ELSE IF st = "REF_START" THEN [s EXCEPT !.st = "CHAR_REF", !.ref = <<c>>]
    ELSE IF st = "CHAR_REF" THEN
        (IF c = 59 THEN [s EXCEPT !.b = @ \o RefBytes(s.ref), !.st = s.last, !.ref = <<>>]
         ELSE [s EXCEPT !.ref = Append(@, c)])
    ELSE IF st = "TAG_EXCLAM" THEN (IF c = 45 THEN [s EXCEPT !.st = "COMMENT_START2"] ELSE [s EXCEPT !.st = "DEF", !.b = <<c>>])
    ELSE IF st = "TAG_QUES" THEN
        (IF c = 62 /\ prev = 63 /\ Len(s.b) > 1 /\ IsAlpha(s.b[1]) THEN [s EXCEPT !.st = "FREE", !.b = <<>>]
         ELSE [s EXCEPT !.b = Append(@, c)])
    ELSE IF st = "COMMENT_START2" THEN [s EXCEPT !.st = IF c = 45 THEN "COMMENT" ELSE "FREE"]
    ELSE IF st = "COMMENT" THEN (IF c = 45 THEN [s EXCEPT !.st = "COMMENT_END1"] ELSE s)
    ELSE IF st = "COMMENT_END1" THEN [s EXCEPT !.st = IF c = 45 THEN "COMMENT_END2" ELSE "COMMENT"]
    ELSE IF st = "COMMENT_END2" THEN [s EXCEPT !.st = IF c = 62 THEN "FREE" ELSE "COMMENT"]
    ELSE \* DEF
        (IF SpaceCh(c) THEN s
         ELSE IF c = 60 THEN [s EXCEPT !.ang = @ + 1]
         ELSE IF c = 62 THEN (IF s.ang = 0 THEN [s EXCEPT !.st = "FREE", !.b = <<>>] ELSE [s EXCEPT !.ang = @ - 1])
         ELSE [s EXCEPT !.b = Append(@, c)])

RECURSIVE RunSM(_, _, _)
RunSM(t, p, s) == IF s.res # "run" \/ At(t, p) = 0 THEN s ELSE RunSM(t, p + 1, Step(s, t[p], At(t, p - 1)))

\* Xml::decode: empty text -> null; an initial "<?xml" is skipped up to the first "?>" (one character if there is none)
Decode(t) ==
    IF t = <<>> THEN [res |-> "null", v |-> NoTree]
    ELSE LET p0 == IF StartsWith(t, 1, S_xmldecl) THEN (LET q == Find(t, 1, S_piClose) IN IF q = 0 THEN 2 ELSE q + 2) ELSE 1
             s  == RunSM(t, p0, S0)
         IN IF s.res # "run" THEN [res |-> s.res, v |-> NoTree]
            ELSE IF Len(TopEl(s.el).c) = 1 THEN [res |-> "tree", v |-> TopEl(s.el).c[1]]
            ELSE [res |-> "null", v |-> NoTree]

SMTotal   == Decode(text).res \in {"tree", "null"}
SMRefines == phase = "post" => LET d == Decode(text) IN d.res = "tree" /\ Normalize(d.v) = Normalize(root)
\* the serializer's output goes through the machine as well (the design-level round trip of the property)
SMRoundTrip == phase = "post" =>
    /\ LET d == Decode(Enc(root, FALSE, 0)) IN d.res = "tree" /\ Normalize(d.v) = Normalize(root)
    /\ SoleText(root) => LET d == Decode(Enc(root, TRUE, 0)) IN d.res = "tree" /\ Normalize(d.v) = Normalize(root)
=============================================================================
