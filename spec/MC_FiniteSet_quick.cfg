SPECIFICATION Spec
CONSTANTS
 NH = 3
 K = {1,2,3,4}
 V = {1}
 MaxOps = 4
 KeepHist = TRUE
 MapOps = FALSE
 SetOps = TRUE
VIEW View
ACTION_CONSTRAINT Emit
INVARIANTS TypeOK NoOrphan SomeLive SetValues
PROPERTIES LastCallOK Independence CloneFresh
CHECK_DEADLOCK FALSE
