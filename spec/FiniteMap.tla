------------------------------- MODULE FiniteMap -------------------------------
(* C02 - asl::Map / Dic / HashMap / HashDic / Set as finite maps (sets) behind shared handles.

   State: a handle is dead (0) or bound to a block; a block holds a finite map Key -> Val (a TLA+ function whose
   domain is the set of keys present).  Copying a handle shares the block ("containers are shared by reference");
   clone / the set-algebra operators create a fresh block.  Nothing implementation-shaped appears here: no
   capacity, no buckets, no chain order.  Enumeration order is therefore not part of the state; the observation
   lists the entries in ascending key order, which the ordered containers (Map, Dic) must reproduce literally and
   the hash containers up to a permutation (the replayer sorts what it enumerated).

   Every public mutating call is one action; hist records the calls together with the results they must
   return; hz collects spec-level hazard tags of the history (supersets of the known-finding predicates, which
   the replayer evaluates exactly on the real object: rc()/cap() for Map/Dic, _rc()/length()/table size for the
   hash containers).  Lookups (has, find, get, const []), keys(), enumeration, ==, contains(set), containsAny
   do not change the state: their expected results are part of the observation (ObsOf, PairsOf) for every key of the
   universe / every pair of live handles, and the same operators (FindR, GetR, ...) validate recorded lookups
   in Trace_FiniteMap.

   The module is the oracle for both bindings:
     R  MC_FiniteMap*.cfg / MC_FiniteSet*.cfg : one JSON line per transition -> harness/c02_replay
     V  Trace_FiniteMap                       : recorded executions of the real containers
   FiniteMapExt (enumerator objects, size / list constructors; its own Next and configurations) extends it,
   HashChains runs it as ghost state, MapBuild is the value-level companion (lists -> maps, sets, texts).        *)
EXTENDS Integers, Sequences, FiniteSets, TLC, Json, SequencesExt

CONSTANTS NH,        \* handles are 1..NH
          K,         \* key ids (integers); the harness maps them monotonically onto concrete keys
          V,         \* values stored by set(); 0 is the default-constructed value that operator[] inserts
          MaxOps,    \* bound on the history length
          KeepHist,  \* TRUE: hist is the whole history (model checking / replay); FALSE: only the last call (trace validation)
          MapOps,    \* TRUE: the map-only call operator[] (inserting the default value) is enabled
          SetOps     \* TRUE: the Set-only calls union / intersection / difference are enabled
                     \* (sets are maps whose values are all 1: MapOps = FALSE, SetOps = TRUE, V = {1})

VARIABLES hb, blk, hist, hz
vars == <<hb, blk, hist, hz>>

H      == 1..NH
B      == 1..(NH+1)
Live   == {h \in H : hb[h] # 0}
Dead   == H \ Live
RC(b)  == Cardinality({h \in H : hb[h] = b})
M(h)   == blk[hb[h]]
Empty  == <<>>

-------------------------------------------------------------------------------
(* the reference semantics: finite maps as functions *)
Dom(m)         == DOMAIN m
MapPut(m, k, v)   == [x \in Dom(m) \cup {k} |-> IF x = k THEN v ELSE m[x]]
MapDel(m, k)   == [x \in Dom(m) \ {k} |-> m[x]]
MapMerge(m, g) == [x \in Dom(m) \cup Dom(g) |-> IF x \in Dom(g) THEN g[x] ELSE m[x]]   \* g wins (Map::add, Var::extend)
MapRestrict(m, S) == [x \in Dom(m) \cap S |-> m[x]]
MapLen(m)      == Cardinality(Dom(m))
\* results of the lookups
HasR(m, k)     == IF k \in Dom(m) THEN 1 ELSE 0
FindR(m, k)    == IF k \in Dom(m) THEN m[k] + 1 ELSE 0          \* 0: null pointer, v+1: points to v
GetR(m, k, d)  == IF k \in Dom(m) THEN m[k] ELSE d
\* set-level predicates
SubsetR(m, g)  == IF Dom(g) \subseteq Dom(m) THEN 1 ELSE 0       \* m.contains(g)
AnyR(m, g)     == IF Dom(g) \cap Dom(m) # {} THEN 1 ELSE 0       \* m.containsAny(g)
EqR(m, g)      == IF m = g THEN 1 ELSE 0

-------------------------------------------------------------------------------
Init == /\ hb = [h \in H |-> IF h = 1 THEN 1 ELSE 0]
        /\ blk = [b \in B |-> Empty]
        /\ hist = <<>>
        /\ hz = {}

\* garbage blocks are reset so that equal abstract states coincide
Gc(hb2, blk2) == [b \in B |-> IF \E h \in H : hb2[h] = b THEN blk2[b] ELSE Empty]

Log(rec, tags) == /\ hist' = IF KeepHist THEN Append(hist, rec) ELSE <<rec>>
                  /\ hz' = IF KeepHist THEN hz \cup tags ELSE tags

\* an in-place operation through handle h giving the block the new content m2; ins: the call may insert
\* (operator[] / set / add / <<), which is what can grow or rehash the shared storage
InPlace(h, m2, rec, ins) ==
    /\ blk' = [blk EXCEPT ![hb[h]] = m2]
    /\ UNCHANGED hb
    /\ Log(rec, IF ins /\ RC(hb[h]) > 1 THEN {"SharedInsert"} ELSE {})

\* an operation that binds handle g (dead, or live and re-assigned) to a fresh block with content m2
NewBlock(g, m2, rec) ==
    LET hb1 == [hb EXCEPT ![g] = 0]
        used1 == {hb1[x] : x \in {y \in H : hb1[y] # 0}}
        f == CHOOSE b \in B : b \notin used1 /\ \A c \in B : (c \notin used1) => b <= c
        hb2 == [hb EXCEPT ![g] = f]
    IN /\ hb' = hb2
       /\ blk' = Gc(hb2, [blk EXCEPT ![f] = m2])
       /\ Log(rec, {})

-------------------------------------------------------------------------------
(* map calls *)
SetKV(h, k, v) == /\ h \in Live
                  /\ InPlace(h, MapPut(M(h), k, v), [op |-> "set", h |-> h, k |-> k, v |-> v], TRUE)
\* non-const operator[]: inserts the default value when the key is absent; r is the value the reference denotes
Index(h, k) == /\ h \in Live /\ MapOps
               /\ LET m2 == IF k \in Dom(M(h)) THEN M(h) ELSE MapPut(M(h), k, 0) IN
                  InPlace(h, m2, [op |-> "index", h |-> h, k |-> k, r |-> m2[k]], TRUE)
RemoveK(h, k) == /\ h \in Live
                 /\ InPlace(h, MapDel(M(h), k), [op |-> "remove", h |-> h, k |-> k, r |-> HasR(M(h), k)], FALSE)
Clear(h) == /\ h \in Live /\ InPlace(h, Empty, [op |-> "clear", h |-> h], FALSE)
\* Map::add / Set::operator<<(Set) / (emulated for HashMap by enumerating g and assigning into h)
AddMap(h, g) == /\ h \in Live /\ g \in Live
                /\ InPlace(h, MapMerge(M(h), M(g)), [op |-> "add", h |-> h, g |-> g], TRUE)
Clone(h, g) == /\ h \in Live /\ g \in H
               /\ NewBlock(g, M(h), [op |-> "clone", h |-> h, g |-> g])
\* a default-constructed container bound to g (g dead, or live and replaced)
NewEmpty(g) == /\ g \in H
               /\ NewBlock(g, Empty, [op |-> "new", h |-> g, g |-> g])
Dup(h) == /\ h \in Live
          /\ IF RC(hb[h]) = 1
             THEN InPlace(h, M(h), [op |-> "dup", h |-> h], FALSE)
             ELSE NewBlock(h, M(h), [op |-> "dup", h |-> h])

(* set algebra (results are new sets) *)
Union(h, g2, g) == /\ SetOps /\ h \in Live /\ g2 \in Live /\ g \in H
                   /\ NewBlock(g, MapMerge(M(h), M(g2)), [op |-> "union", h |-> h, g2 |-> g2, g |-> g])
Inter(h, g2, g) == /\ SetOps /\ h \in Live /\ g2 \in Live /\ g \in H
                   /\ NewBlock(g, MapRestrict(M(h), Dom(M(g2))), [op |-> "inter", h |-> h, g2 |-> g2, g |-> g])
Diff(h, g2, g) == /\ SetOps /\ h \in Live /\ g2 \in Live /\ g \in H
                  /\ NewBlock(g, MapRestrict(M(h), Dom(M(h)) \ Dom(M(g2))), [op |-> "diff", h |-> h, g2 |-> g2, g |-> g])

(* handles *)
CopyHandle(h, g) == /\ h \in Live /\ g \in Dead
                    /\ hb' = [hb EXCEPT ![g] = hb[h]] /\ UNCHANGED blk
                    /\ Log([op |-> "copyHandle", h |-> h, g |-> g], {})
\* assignment between two distinct handle objects (which may already share a block); the assignment of an object to
\* itself is AssignSelf below
AssignHandle(h, g) == /\ h \in Live /\ g \in Live /\ g # h
                      /\ LET hb2 == [hb EXCEPT ![g] = hb[h]] IN
                         /\ hb' = hb2 /\ blk' = Gc(hb2, blk)
                      /\ Log([op |-> "assignHandle", h |-> h, g |-> g], {})
DropHandle(h) == /\ h \in Live /\ Cardinality(Live) > 1
                 /\ LET hb2 == [hb EXCEPT ![h] = 0] IN
                    /\ hb' = hb2 /\ blk' = Gc(hb2, blk)
                 /\ Log([op |-> "dropHandle", h |-> h], {})
\* m = m: assigning a container object to itself changes nothing.  The containers are handles that "are copied by
\* reference" (doc.h, Containers / Reference-counted objects): after x = y, x denotes what y denotes - for x = x that
\* is what it denoted before; Array::operator= (and with it Map/Dic) returns at once when this == &b.
AssignSelf(h) == /\ h \in Live
                 /\ UNCHANGED <<hb, blk>>
                 /\ Log([op |-> "assignSelf", h |-> h], {})

(* calls that belong to the wider public surface; they are not part of Next here (the bounds of the MC_FiniteMap /
   MC_FiniteSet configurations stay what they were) but of the Next of FiniteMapExt, and HashChains / Trace_FiniteMap
   use them as well *)
\* a container constructed with a size argument bound to g: HashMap(n), HashDic(n), Set(n) (n entries expected: the
\* table gets the next power of two of bins); for Map/Dic the harness calls reserve(n) on a new map.  At this level
\* the argument has no effect whatsoever: the result is an empty map.
NewSized(g, n) == /\ g \in H
                  /\ NewBlock(g, Empty, [op |-> "new", h |-> g, g |-> g, n |-> n])
\* a container built from a list of key/value pairs: Map / Dic / Set from a braced list, Map(k, v)(k, v)..., Set(Array),
\* or (HashMap, HashDic: no such constructor) a new container filled with set() in this order.  A key that occurs
\* twice keeps its last value.  s: sequence of [k, v] records
RECURSIVE ListMap(_, _)
ListMap(s, n) == IF n = 0 THEN Empty ELSE MapPut(ListMap(s, n - 1), s[n].k, s[n].v)
FromList(g, s) == /\ g \in H
                  /\ NewBlock(g, ListMap(s, Len(s)), [op |-> "list", h |-> g, g |-> g, kv |-> s])
\* *m.find(k) = v: writing through the pointer the non-const find() returns; never inserts. r: a pointer was returned
Poke(h, k, v) == /\ h \in Live
                 /\ InPlace(h, IF k \in Dom(M(h)) THEN MapPut(M(h), k, v) ELSE M(h),
                            [op |-> "poke", h |-> h, k |-> k, v |-> v, r |-> HasR(M(h), k)], FALSE)

-------------------------------------------------------------------------------
Next == /\ Len(hist) < MaxOps
        /\ \/ \E h \in H, k \in K, v \in V : SetKV(h, k, v)
           \/ \E h \in H, k \in K : Index(h, k) \/ RemoveK(h, k)
           \/ \E h \in H : Clear(h) \/ Dup(h) \/ DropHandle(h) \/ NewEmpty(h) \/ AssignSelf(h)
           \/ \E h, g \in H : AddMap(h, g) \/ Clone(h, g) \/ CopyHandle(h, g) \/ AssignHandle(h, g)
           \/ \E h, g2, g \in H : Union(h, g2, g) \/ Inter(h, g2, g) \/ Diff(h, g2, g)

Spec == Init /\ [][Next]_vars

-------------------------------------------------------------------------------
(* properties of the specification itself *)
Val0 == V \cup {0}
TypeOK == /\ hb \in [H -> 0..(NH+1)]
          /\ \A b \in B : Dom(blk[b]) \subseteq K /\ \A k \in Dom(blk[b]) : blk[b][k] \in Val0
NoOrphan == \A b \in B : RC(b) = 0 => blk[b] = Empty
SomeLive == Live # {}
\* length() is the number of distinct keys and a lookup finds precisely the keys present with their latest value:
\* stated on the last call of the history
LastCallOK ==
    [][(hist' # hist /\ hist' # <<>>) =>
        LET r == hist'[Len(hist')] IN
        /\ r.op = "set"    => /\ FindR(blk'[hb'[r.h]], r.k) = r.v + 1
                              /\ MapLen(blk'[hb'[r.h]]) = MapLen(M(r.h)) + (1 - HasR(M(r.h), r.k))
                              /\ \A k \in K \ {r.k} : FindR(blk'[hb'[r.h]], k) = FindR(M(r.h), k)
        /\ r.op = "index"  => /\ FindR(blk'[hb'[r.h]], r.k) = r.r + 1
                              /\ r.r = GetR(M(r.h), r.k, 0)
                              /\ \A k \in K \ {r.k} : FindR(blk'[hb'[r.h]], k) = FindR(M(r.h), k)
        /\ r.op = "remove" => /\ HasR(blk'[hb'[r.h]], r.k) = 0
                              /\ MapLen(blk'[hb'[r.h]]) = MapLen(M(r.h)) - r.r
                              /\ \A k \in K \ {r.k} : FindR(blk'[hb'[r.h]], k) = FindR(M(r.h), k)
        /\ r.op = "clear"  => MapLen(blk'[hb'[r.h]]) = 0
        /\ r.op = "list"   => /\ \A k \in K : HasR(blk'[hb'[r.g]], k) = 1 <=> \E i \in 1..Len(r.kv) : r.kv[i].k = k
                              /\ \A i \in 1..Len(r.kv) : (\A j \in (i+1)..Len(r.kv) : r.kv[j].k # r.kv[i].k)
                                                             => FindR(blk'[hb'[r.g]], r.kv[i].k) = r.kv[i].v + 1
        /\ r.op = "assignSelf" => hb' = hb /\ blk' = blk
        /\ r.op = "poke"   => /\ Dom(blk'[hb'[r.h]]) = Dom(M(r.h))
                              /\ FindR(blk'[hb'[r.h]], r.k) = IF r.r = 1 THEN r.v + 1 ELSE 0
                              /\ \A k \in K \ {r.k} : FindR(blk'[hb'[r.h]], k) = FindR(M(r.h), k)
        /\ r.op = "add"    => \A k \in K : FindR(blk'[hb'[r.h]], k) =
                                  IF HasR(M(r.g), k) = 1 THEN FindR(M(r.g), k) ELSE FindR(M(r.h), k)
        /\ r.op = "union"  => \A k \in K : HasR(blk'[hb'[r.g]], k) = 1 <=> (HasR(M(r.h), k) = 1 \/ HasR(M(r.g2), k) = 1)
        /\ r.op = "inter"  => \A k \in K : HasR(blk'[hb'[r.g]], k) = 1 <=> (HasR(M(r.h), k) = 1 /\ HasR(M(r.g2), k) = 1)
        /\ r.op = "diff"   => \A k \in K : HasR(blk'[hb'[r.g]], k) = 1 <=> (HasR(M(r.h), k) = 1 /\ HasR(M(r.g2), k) = 0)
    ]_vars
\* an operation changes at most the block of the handle it goes through (clone independence)
Independence ==
    [][(hist' # hist /\ hist' # <<>>) =>
        LET r == hist'[Len(hist')]
            touched == {hb[r.h], hb'[r.h]} \cup (IF "g" \in DOMAIN r THEN {hb'[r.g]} ELSE {})
        IN \A b \in B : (b \notin touched /\ RC(b) > 0 /\ \E h \in H : hb'[h] = b) => blk'[b] = blk[b]]_vars
\* a clone / set-algebra result never aliases another handle
CloneFresh == [][(hist' # hist /\ hist' # <<>> /\ hist'[Len(hist')].op \in {"clone", "new", "list", "union", "inter", "diff"}) =>
                   LET r == hist'[Len(hist')] IN \A x \in H \ {r.g} : hb'[x] # hb'[r.g]]_vars
\* in set mode every stored value is 1
SetValues == (SetOps /\ ~MapOps) => \A b \in B : \A k \in Dom(blk[b]) : blk[b][k] = 1

-------------------------------------------------------------------------------
(* observation, emitted with every transition for the replayer *)
KSeq == SetToSortSeq(K, <)
LiveSeq(hbx) == SelectSeq([i \in 1..NH |-> i], LAMBDA h : hbx[h] # 0)
EntrySeq(m) == LET ks == SetToSortSeq(Dom(m), <) IN [i \in 1..Len(ks) |-> [k |-> ks[i], v |-> m[ks[i]]]]
ObsOf(hbx, blkx) ==
    LET ls == LiveSeq(hbx) IN
    [i \in 1..Len(ls) |->
        LET m == blkx[hbx[ls[i]]] IN
        [h |-> ls[i], kv |-> EntrySeq(m), n |-> MapLen(m),
         rc |-> Cardinality({x \in H : hbx[x] = hbx[ls[i]]}),
         q |-> [j \in 1..Len(KSeq) |-> [k |-> KSeq[j], has |-> HasR(m, KSeq[j]), find |-> FindR(m, KSeq[j]),
                                       get |-> GetR(m, KSeq[j], 9)]]]]
\* every ordered pair of live handles: ==, contains(set), containsAny
PairsOf(hbx, blkx) ==
    LET ls == LiveSeq(hbx)
        n == Len(ls) IN
    [i \in 1..(n * n) |->
        LET a == ls[((i - 1) \div n) + 1]
            b == ls[((i - 1) % n) + 1] IN
        [a |-> a, b |-> b, eq |-> EqR(blkx[hbx[a]], blkx[hbx[b]]),
         sub |-> SubsetR(blkx[hbx[a]], blkx[hbx[b]]), any |-> AnyR(blkx[hbx[a]], blkx[hbx[b]])]]
LiveEntries(hbx, blkx) ==
    LET bs == {hbx[h] : h \in {x \in H : hbx[x] # 0}}
        RECURSIVE Sum(_)
        Sum(T) == IF T = {} THEN 0 ELSE LET b == CHOOSE b \in T : TRUE IN MapLen(blkx[b]) + Sum(T \ {b})
    IN Sum(bs)
View == <<hb, blk, Len(hist), hz>>
\* for the insertion-order configurations: every history is a state of its own (all orders of the same calls are emitted)
ViewHist == <<hb, blk, hist, hz>>
Emit == PrintT(ToJson([hist |-> hist', exp |-> ObsOf(hb', blk'), pairs |-> PairsOf(hb', blk'),
                       live |-> LiveEntries(hb', blk'), set |-> IF SetOps THEN 1 ELSE 0, hz |-> hz']))
===============================================================================
