----------------------------- MODULE LogFileConc -----------------------------
(* X01 part "log": the design of Log::log() under concurrent callers (src/Log.cpp):

       lock ; if size(file) > threshold { remove the "-1" file ; move file to "-1" } ; append the line ; unlock

   NT threads log K messages each.  With the lock (UseLock = TRUE) every interleaving keeps the properties LogFile.tla
   states for sequential callers: per-thread order, only a file that exceeded the threshold is rotated, nothing is lost
   before the second rotation.  Without the lock (UseLock = FALSE, the design a refactoring could fall back to) TLC finds
   the interleaving in which two callers both see the full file and the second one rotates the fresh file over the
   generation the first one just saved - the expected-violation run shows that the invariants are not vacuous.  The real
   code is bound to this by the concurrent phases of Trace_LogFile (linearization against LogCall).                  *)
EXTENDS Integers, Sequences, FiniteSets, TLC

CONSTANTS NT,        \* threads
          K,         \* messages per thread
          G,         \* a file holding more than G lines exceeds the threshold
          UseLock

VARIABLES pc, sent, file, old, holder, written
vars == <<pc, sent, file, old, holder, written>>
Th == 1..NT

Init == /\ pc = [t \in Th |-> "idle"] /\ sent = [t \in Th |-> 0]
        /\ file = <<>> /\ old = <<>> /\ holder = 0 /\ written = <<>>

Begin(t)  == /\ pc[t] = "idle" /\ sent[t] < K
             /\ UseLock => holder = 0
             /\ holder' = IF UseLock THEN t ELSE holder
             /\ pc' = [pc EXCEPT ![t] = "check"]
             /\ UNCHANGED <<sent, file, old, written>>
Check(t)  == /\ pc[t] = "check"
             /\ pc' = [pc EXCEPT ![t] = IF Len(file) > G THEN "remove" ELSE "append"]
             /\ UNCHANGED <<sent, file, old, holder, written>>
RemoveOld(t) == /\ pc[t] = "remove"
                /\ old' = <<>>
                /\ pc' = [pc EXCEPT ![t] = "move"]
                /\ UNCHANGED <<sent, file, holder, written>>
\* moving a file that is not there (another caller just moved it) fails and leaves the "-1" name empty
MoveFile(t) == /\ pc[t] = "move"
               /\ old' = file /\ file' = <<>>
               /\ pc' = [pc EXCEPT ![t] = "append"]
               /\ UNCHANGED <<sent, holder, written>>
AppendLine(t) == /\ pc[t] = "append"
                 /\ file' = Append(file, <<t, sent[t] + 1>>)
                 /\ written' = Append(written, <<t, sent[t] + 1>>)
                 /\ sent' = [sent EXCEPT ![t] = @ + 1]
                 /\ holder' = IF UseLock THEN 0 ELSE holder
                 /\ pc' = [pc EXCEPT ![t] = "idle"]
                 /\ UNCHANGED old
Next == \E t \in Th : Begin(t) \/ Check(t) \/ RemoveOld(t) \/ MoveFile(t) \/ AppendLine(t)
Spec == Init /\ [][Next]_vars /\ WF_vars(Next)

Quiescent == \A t \in Th : pc[t] = "idle"
Disk == old \o file
PerThreadOrder == \A i, j \in 1..Len(Disk) : (i < j /\ Disk[i][1] = Disk[j][1]) => Disk[i][2] < Disk[j][2]
RotationRule == Quiescent => (old # <<>> => Len(old) > G)
NoLoss == Quiescent => /\ (Len(written) <= 2 * (G + 1) => Disk = written)
                       /\ (written # <<>> => file # <<>>)
MutualExclusion == UseLock => Cardinality({t \in Th : pc[t] # "idle"}) <= 1
AllWritten == <>(\A t \in Th : sent[t] = K)
===============================================================================
