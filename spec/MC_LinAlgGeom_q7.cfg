SPECIFICATION Spec
CONSTANTS
 P = 7
 NVec = 600
 NAff = 400
 NQuat = 500
 NCplx = 600
 NDyn = 405
ACTION_CONSTRAINT Emit
INVARIANTS VecLaws AffLaws QuatLaws CplxLaws DynLaws
CHECK_DEADLOCK FALSE
