SPECIFICATION Spec
CONSTANTS
 Part = "csvr"
 IniLines <- NoLines
 MaxLines = 4
 SetNames <- NoNames
 SetValues <- Values
 MaxSets = 0
 Cells <- NoCells
 MaxCols = 1
 MaxCells = 0
 CsvLinesOf <- CsvLinesT
 CsvTypes <- CsvTypesQ
ACTION_CONSTRAINT Emit
INVARIANTS CsvRLaw
CHECK_DEADLOCK FALSE
