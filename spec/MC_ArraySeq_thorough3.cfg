SPECIFICATION Spec
CONSTANTS
 NH = 2
 V = {1,2}
 Sizes = {0,2,4,7}
 MaxLen = 4
 KeepHist = TRUE
 MaxOps = 5
VIEW View
ACTION_CONSTRAINT Emit
INVARIANTS TypeOK NoOrphan SomeLive
PROPERTIES Independence CloneFresh
CHECK_DEADLOCK FALSE
