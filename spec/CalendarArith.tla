----------------------------- MODULE CalendarArith -----------------------------
(* C19 (growth) - arithmetic and order of instants, and the ends of the representation.
   A Date is a point on the time line; the class offers Date + seconds, Date - seconds, Date - Date, the order
   < <= > and "==" ("equality within a millisecond").  The generator publishes one case per transition
   (ACTION_CONSTRAINT Emit), harness/c19_zone_replay.cpp executes each on the real asl::Date:

     "add"  : a + s and a - s for instants a (incl. years 0, negative and above 9999) and second counts up to 10^9
     "diff" : a - b as a (days, seconds, microseconds) triple
     "cmp"  : a versus b = a + g for gaps g around 0 and around one millisecond: lt, le, gt, eq, ne
     "far"  : fields <-> instant (splitUTC / Date(UTC, ..)) in years outside 1..9999: year 0, negative years down to the
              constructor's lower limit -100 000 (astronomical numbering, proleptic Gregorian), years up to 100 000
     "huge" : values of 10^13 .. 10^300 seconds and infinity: nothing is specified about the result, but splitting and
              formatting them has to stay in bounds (the day number no longer fits an int)
     "inv"  : an invalid Date stays invalid under + and its text does not read back as a valid date
     "oor"  : constructor fields outside their ranges (month 0 / 13, day 0 / 32, 30 February, hour 24, minute / second 60,
              negative values, a year below the constructor's limit): the documentation does not say whether they are
              normalised or rejected, so any result is accepted; executed for termination in bounds
     "unit" : the constants Date::DAY, HOUR, MINUTE as seconds
     "old"  : the two obsolete HTTP date forms of RFC 7231 (RFC 850 "Sunday, 06-Nov-94 08:49:37 GMT" and asctime
              "Sun Nov  6 08:49:37 1994") and an RFC 1123 date with another zone name: the class documents the
              RFC 1123 form "only GMT", so the reading relation does not vouch for these (OldFormsUnvouched) and
              any result is accepted; they are executed for termination in bounds

   Invariants: the laws of a line (adding and subtracting the same seconds is the identity, a - b is what has to be
   added to b to get a, exactly one of a < b, a = b, b < a, order is preserved by adding), "==" is reflexive and
   symmetric (it is not transitive, as documented: "within a millisecond"), and in far years the three formulations
   of the day number agree.                                                                                       *)
EXTENDS CalendarZone, TLC, Json

VARIABLES c, phase
vars == <<c, phase>>

Bases == << InstantOf(2000, 1, 1, 0, 0, 30), InstantOf(2024, 2, 29, 23, 59, 59), Inst(0, 0, 0), InstantOf(1969, 12, 31, 23, 59, 59),
            InstantOf(1, 1, 1, 0, 0, 0), InstantOf(9999, 12, 31, 23, 59, 59), InstantOf(0, 1, 1, 0, 0, 0), InstantOf(-1, 12, 31, 23, 59, 59),
            InstantOf(-4, 2, 29, 12, 0, 0), InstantOf(-400, 1, 1, 0, 0, 0), InstantOf(10000, 1, 1, 0, 0, 0), InstantOf(99999, 12, 31, 23, 59, 59),
            InstantOf(2038, 1, 19, 3, 14, 7), InstantOf(1901, 12, 13, 20, 45, 52) >>
Secs == {0, 1, 59, 60, 61, 3599, 3600, 86399, 86400, 86401, 2678400, 31536000, 31622400, 1000000000}
Gaps == {0, 100, 400, 900, 1100, 1900, 5000, 999900, 1000000, 86400000}       \* microseconds
Millis == {0, 1, 250, 999}
\* the double a Date holds resolves the time of day to better than half a millisecond up to about year 100 000 (the
\* constructor's own lower limit is -100 000); farther away the fields are not vouched for ("huge")
FarYears == {-100000, -99999, -40001, -40000, -10000, -1601, -1600, -401, -400, -399, -101, -100, -99, -5, -4, -3, -2, -1, 0,
             10000, 10001, 10100, 12000, 40000, 99999, 100000}
HugeExponents == {13, 14, 15, 16, 18, 19, 38, 100, 300, 999}      \* +-10^e seconds, 999 = infinity
FarDays == << <<1, 1>>, <<2, 28>>, <<2, 29>>, <<3, 1>>, <<6, 15>>, <<12, 31>> >>

\* a - b, component by component (the value is 86400 * dd + ds + du / 10^6 seconds)
Diff3(a, b) == <<a.dn - b.dn, a.sod - b.sod, a.us - b.us>>
PlusDiff(b, d) == AddMicros(AddSeconds([b EXCEPT !.dn = @ + d[1]], d[2]), d[3])
SameMilli(a, b) == Near(a, b, 999)

\* a double resolves a microsecond only within a few centuries of 1970: sub-second parts only on those bases
NearBases == {1, 2, 3, 4, 13, 14}
AddParams == {q \in {"add"} \X (1..Len(Bases)) \X Secs \X {1, -1} \X Millis : q[5] = 0 \/ q[2] \in NearBases}
DiffParams == {q \in {"diff"} \X (1..Len(Bases)) \X (1..Len(Bases)) \X Millis : q[4] = 0 \/ q[2] \in NearBases}
CmpParams == {"cmp"} \X NearBases \X Gaps \X {1, -1}
FarParams == {q \in {"far"} \X FarYears \X (1..Len(FarDays)) \X {0, 1, 43200, 86399} :
                 FarDays[q[3]][2] <= DaysInMonth(q[2], FarDays[q[3]][1])}
InvParams == {<<"inv">>}
HugeParams == {"huge"} \X HugeExponents \X {1, -1}
OorFields == { <<2021, 0, 1, 0, 0, 0>>, <<2021, 13, 1, 0, 0, 0>>, <<2021, 3, 0, 0, 0, 0>>, <<2021, 1, 32, 0, 0, 0>>, <<2021, 2, 30, 0, 0, 0>>,
               <<2021, 4, 31, 0, 0, 0>>, <<2023, 2, 29, 0, 0, 0>>, <<2021, 1, 1, 24, 0, 0>>, <<2021, 1, 1, 0, 60, 0>>, <<2021, 1, 1, 0, 0, 60>>,
               <<2021, 1, 1, -1, 0, 0>>, <<2021, 1, 1, 0, 0, -1>>, <<2021, -1, 1, 0, 0, 0>>, <<2021, 1, -1, 0, 0, 0>>, <<2021, 12, 31, 23, 59, 86400>>,
               <<-100001, 1, 1, 0, 0, 0>>, <<2021, 1000, 1, 0, 0, 0>>, <<2021, 1, 1000, 0, 0, 0>>, <<2021, 1, 1, 100000, 0, 0>> }
OorParams == {"oor"} \X OorFields
UnitParams == {<<"unit", "DAY", 86400>>, <<"unit", "HOUR", 3600>>, <<"unit", "MINUTE", 60>>}
OldParams == {"old"} \X {1, 2, 3, 4, 5, 6, 13, 14} \X {"rfc850", "asctime", "utc"}

LongDayNames == << <<83,117,110,100,97,121>>, <<77,111,110,100,97,121>>, <<84,117,101,115,100,97,121>>, <<87,101,100,110,101,115,100,97,121>>,
                   <<84,104,117,114,115,100,97,121>>, <<70,114,105,100,97,121>>, <<83,97,116,117,114,100,97,121>> >>
ClockText(f) == Pad2(f.h) \o <<cColon>> \o Pad2(f.mi) \o <<cColon>> \o Pad2(f.s)
Rfc850Text(f) == LongDayNames[f.wd + 1] \o <<cComma, cSp>> \o Pad2(f.d) \o <<cDash>> \o MonthNames[f.m] \o <<cDash>> \o Pad2(f.y % 100) \o
                 <<cSp>> \o ClockText(f) \o <<cSp>> \o GMT
AsctimeText(f) == DayNames[f.wd + 1] \o <<cSp>> \o MonthNames[f.m] \o <<cSp>> \o (IF f.d < 10 THEN <<cSp, Dg(f.d)>> ELSE Pad2(f.d)) \o <<cSp>> \o
                  ClockText(f) \o <<cSp>> \o Pad4(f.y)
OtherZoneText(f) == SubSeq(HttpText(f), 1, 26) \o <<85, 84, 67>>          \* "... UTC"
OldText(form, f) == IF form = "rfc850" THEN Rfc850Text(f) ELSE IF form = "asctime" THEN AsctimeText(f) ELSE OtherZoneText(f)

Seq3(i) == <<i.dn, i.sod, i.us>>
B01(b) == IF b THEN 1 ELSE 0
CaseOf(q) ==
    CASE q[1] = "add" -> LET a == [Bases[q[2]] EXCEPT !.us = 1000 * q[5]] s == q[3] * q[4] IN
                         [k |-> "add", a |-> a, s |-> s, sum |-> AddSeconds(a, s)]
      [] q[1] = "diff" -> LET a == [Bases[q[2]] EXCEPT !.us = 1000 * q[4]] b == Bases[q[3]] IN
                          [k |-> "diff", a |-> a, b |-> b, d |-> Diff3(a, b)]
      [] q[1] = "cmp" -> LET a == Bases[q[2]] b == AddMicros(a, q[3] * q[4]) IN
                         [k |-> "cmp", a |-> a, b |-> b, lt |-> Before(a, b), gt |-> Before(b, a), eq |-> SameMilli(a, b)]
      [] q[1] = "far" -> LET md == FarDays[q[3]] i == Inst(DaysFromCivil(q[2], md[1], md[2]), q[4], 0) IN
                         [k |-> "far", y |-> q[2], m |-> md[1], d |-> md[2], i |-> i, f |-> Fields(i)]
      [] q[1] = "inv" -> [k |-> "inv"]
      [] q[1] = "huge" -> [k |-> "huge", e |-> q[2], sign |-> q[3]]
      [] q[1] = "old" -> [k |-> "old", t |-> OldText(q[3], Fields(Bases[q[2]]))]
      [] q[1] = "oor" -> [k |-> "oor", f |-> q[2]]
      [] q[1] = "unit" -> [k |-> "unit", name |-> q[2], s |-> q[3]]

Init == phase = "gen" /\ (c \in AddParams \/ c \in DiffParams \/ c \in CmpParams \/ c \in FarParams \/ c \in InvParams \/ c \in HugeParams \/ c \in OldParams \/ c \in OorParams \/ c \in UnitParams)
Gen == phase = "gen" /\ phase' = "done" /\ c' = CaseOf(c)
Spec == Init /\ [][Gen]_vars

-------------------------------------------------------------------------------
AddLaws == (phase = "done" /\ c.k = "add") =>
              /\ AddSeconds(c.sum, -c.s) = c.a
              /\ Diff3(c.sum, c.a)[1] * 86400 + Diff3(c.sum, c.a)[2] = c.s /\ c.sum.us = c.a.us
              /\ (c.s > 0 => Before(c.a, c.sum)) /\ (c.s < 0 => Before(c.sum, c.a)) /\ (c.s = 0 => c.sum = c.a)
              /\ c.sum.sod \in 0..86399
DiffLaws == (phase = "done" /\ c.k = "diff") =>
              /\ PlusDiff(c.b, c.d) = c.a
              /\ Diff3(c.b, c.a) = <<-c.d[1], -c.d[2], -c.d[3]>>
              /\ (c.a = c.b <=> c.d = <<0, 0, 0>>)
OrderLaws == (phase = "done" /\ c.k = "cmp") =>
              /\ (IF c.lt THEN 1 ELSE 0) + (IF c.gt THEN 1 ELSE 0) + (IF c.a = c.b THEN 1 ELSE 0) = 1      \* trichotomy
              /\ SameMilli(c.a, c.a) /\ (c.eq <=> SameMilli(c.b, c.a))
              /\ (c.a = c.b => c.eq)
              /\ \A s \in {-86400, 1, 1000000000} : Before(c.a, c.b) <=> Before(AddSeconds(c.a, s), AddSeconds(c.b, s))
FarLaws == (phase = "done" /\ c.k = "far") =>
              /\ c.i.dn = DaysFromTable(c.y, c.m, c.d)
              /\ c.f.y = c.y /\ c.f.m = c.m /\ c.f.d = c.d
              /\ c.f.wd = Weekday(c.i.dn) /\ SecOfDay(c.f.h, c.f.mi, c.f.s) = c.i.sod
              /\ DaysFromCivil(c.y + 1, 1, 1) - DaysFromCivil(c.y, 1, 1) = DaysInYear(c.y)
\* the fields of an "oor" case are not a valid date-time (the spec has no value for them), the units are those of the clock
OorAreInvalid == (phase = "done" /\ c.k = "oor") =>
                    ~(ValidDateX(c.f[1], c.f[2], c.f[3]) /\ c.f[4] \in 0..23 /\ c.f[5] \in 0..59 /\ c.f[6] \in 0..59)
UnitsAgree == (phase = "done" /\ c.k = "unit") =>
                    c.s = (CASE c.name = "DAY" -> SecOfDay(24, 0, 0) [] c.name = "HOUR" -> SecOfDay(1, 0, 0) [] c.name = "MINUTE" -> SecOfDay(0, 1, 0))
OldFormsUnvouched == (phase = "done" /\ c.k = "old") => ~Read(c.t).ok
ASSUME Rfc850Text(Fields(InstantOf(1994, 11, 6, 8, 49, 37))) =
           <<83,117,110,100,97,121,44,32,48,54,45,78,111,118,45,57,52,32,48,56,58,52,57,58,51,55,32,71,77,84>>
ASSUME AsctimeText(Fields(InstantOf(1994, 11, 6, 8, 49, 37))) = <<83,117,110,32,78,111,118,32,32,54,32,48,56,58,52,57,58,51,55,32,49,57,57,52>>
\* "==" is not an equivalence: three instants 0.6 ms apart
ASSUME LET a == Inst(0, 0, 0) b == Inst(0, 0, 600) cc == Inst(0, 0, 1200) IN SameMilli(a, b) /\ SameMilli(b, cc) /\ ~SameMilli(a, cc)
\* the text asl::Date shows for an invalid value is not a date-time the reading relation accepts
ASSUME ~Read(<<63>>).ok
\* year 0 is a leap year, -1 is not, -4 is (astronomical numbering); 0000-01-01 was a Saturday
ASSUME Leap(0) /\ ~Leap(-1) /\ Leap(-4) /\ ~Leap(-100) /\ Leap(-400) /\ Weekday(DaysFromCivil(0, 1, 1)) = 6
ASSUME DaysFromCivil(0, 1, 1) = -719528 /\ DaysFromCivil(-1, 12, 31) = -719529

FSeq(f) == <<f.y, f.m, f.d, f.h, f.mi, f.s, f.wd>>
Out(cc) ==
    CASE cc.k = "add" -> [k |-> "add", a |-> Seq3(cc.a), s |-> cc.s, sum |-> Seq3(cc.sum)]
      [] cc.k = "diff" -> [k |-> "diff", a |-> Seq3(cc.a), b |-> Seq3(cc.b), d |-> cc.d]
      [] cc.k = "cmp" -> [k |-> "cmp", a |-> Seq3(cc.a), b |-> Seq3(cc.b), lt |-> B01(cc.lt), le |-> B01(~cc.gt), gt |-> B01(cc.gt),
                          eq |-> B01(cc.eq), ne |-> B01(~cc.eq)]
      [] cc.k = "far" -> [k |-> "far", i |-> Seq3(cc.i), f |-> FSeq(cc.f), mk |-> 1]
      [] cc.k = "inv" -> [k |-> "inv"]
      [] cc.k = "huge" -> [k |-> "huge", e |-> cc.e, sign |-> cc.sign]
      [] cc.k = "old" -> [k |-> "old", t |-> cc.t]
      [] cc.k = "oor" -> [k |-> "oor", f |-> cc.f]
      [] cc.k = "unit" -> [k |-> "unit", name |-> cc.name, s |-> cc.s]
Emit == PrintT(ToJson(Out(c')))
===============================================================================
