SPECIFICATION TraceSpec
CONSTANTS
 NH = 6
 K = {}
 V = {1,2,3,4,5,6,7,8}
 MaxOps = 0
 KeepHist = FALSE
 MapOps = TRUE
 SetOps = TRUE
 Focus = FALSE
 Plain = TRUE
 Sizes = {}
 Lists = {}
INVARIANTS NoOrphan SomeLive EnumTypeOK EnumPartition
PROPERTIES Independence CloneFresh EnumStable EnumReads
POSTCONDITION TraceAccepted
CHECK_DEADLOCK FALSE
