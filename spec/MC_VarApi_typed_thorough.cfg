SPECIFICATION SpecApi
CONSTANTS
 NR = 3
 MaxNodes = 4
 MaxDepth = 2
 MaxItems = 3
 ScalarIds = {5,8,12,19}
 KeyIds = {1,2,3}
 MaxOps = 2
 KeepHist = TRUE
 OpSet = {"assignTyped","assignFrom","indexKey","indexInt","appendScalar","removeKey","removeAt","assignScalar","extend","clone","appendFrom","extendNonObj","removeN","assignKind","assignNew","assignC","resize","clear"}
 WideObs = TRUE
VIEW ViewApi
ACTION_CONSTRAINT EmitApi
INVARIANTS TypeOK RcOK NoDangling Acyclic ObjSorted EnumOK
PROPERTIES AssignOK ScalarOK CloneOK Independent TypedOK EnumShapeOK
CHECK_DEADLOCK FALSE
