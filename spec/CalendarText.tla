----------------------------- MODULE CalendarText -----------------------------
(* C19 - generator of date-time texts with the instants they denote.  Each initial state is one case; the single
   action Gen "publishes" it (one transition per case, printed by ACTION_CONSTRAINT Emit for harness/c19_replay).

   kind "fmt"  : an instant i (month edges and a mid-month instant of the years in FmtYears, several millisecond
                 values) with the four texts Date::toUTCString must produce and the instant reading each text gives;
   kind "zone" : a UTC instant shown as local date-time in zone z (every offset -23:59..+23:59 minutes, the three
                 lexical variants, extended and basic form, with/without seconds and fraction) - reading the text
                 must give the UTC instant back ("the UTC instant shifted by that offset");
   kind "frac" : fractions of a second of 1..9 digits;
   kind "pat"  : format-driven reading Date(text, format): a format from PatFormats, a text generated for it from an
                 instant (zero-padded or not), and every prefix of that text (a text that ends before the format does
                 must be read in bounds; hazard tag PatternWildcardPastEnd where a '?' would match beyond the end).

   Invariants (the generator and the reading relation of Calendar.tla are independent formulations):
     ReadsOwnText : Read(FormatUTC(fmt, i)) = ReadBackOf(fmt, i)                       (kind fmt)
     ZoneShift    : Read(text of i in zone z) = i                                      (kinds zone, frac)
     PatternReads : ReadPattern(PatText(f, fields), f) = the instant of the fields shown (kind pat, full text)   *)
EXTENDS Calendar, TLC, Json

CONSTANTS NBases,        \* how many of the instants in Bases are used for the zone cases
          ZoneStep       \* 1: every offset; k: every k-th offset (plus the whole hours)

VARIABLES c, phase
vars == <<c, phase>>

FmtYears == {1, 2, 4, 99, 100, 101, 400, 999, 1000, 1582, 1600, 1899, 1900, 1901, 1903, 1904, 1905, 1969, 1970, 1971,
             1999, 2000, 2001, 2024, 2037, 2038, 2099, 2100, 2101, 2400, 9998, 9999}
Millis == {0, 1, 499, 999}
\* UTC instants used for the zone cases: shifting them crosses day, month, year, leap-day and range boundaries
Bases == << InstantOf(2000, 1, 1, 0, 0, 30), InstantOf(2024, 2, 29, 23, 59, 59), InstantOf(1970, 1, 1, 0, 0, 0),
            InstantOf(1900, 3, 1, 0, 29, 59), InstantOf(9999, 12, 30, 12, 0, 1), InstantOf(1, 1, 2, 23, 30, 0),
            InstantOf(2099, 12, 31, 23, 59, 59), InstantOf(1903, 12, 31, 0, 0, 0) >>
Digits9 == << <<49,50,51,52,53,54,55,56,57>>, <<57,57,57,57,57,57,57,57,57>>, <<48,48,48,48,48,48,48,48,49>>,
              <<53,48,48,48,48,48,48,48,48>>, <<48,52,57,57,57,57,57,57,57>>, <<57,57,56,57,57,57,57,57,57>> >>

Case(k, i, z, variant, basic, tform, digits) ==
    [k |-> k, i |-> i, z |-> z, variant |-> variant, basic |-> basic, tform |-> tform, digits |-> digits]

\* case parameters (small tuples; the case record is computed from them when the case is published)
FmtParams == {<<"fmt", yy, mm, w, ms>> : yy \in FmtYears, mm \in 1..12, w \in 1..3, ms \in Millis}
FmtCase(q) ==
    LET yy == q[2] mm == q[3] w == q[4] ms == q[5] IN
    Case("fmt", [InstantOf(yy, mm, IF w = 1 THEN 1 ELSE IF w = 2 THEN DaysInMonth(yy, mm) ELSE 15,
                           IF w = 1 THEN 0 ELSE IF w = 2 THEN 23 ELSE 12,
                           IF w = 1 THEN 0 ELSE IF w = 2 THEN 59 ELSE 34,
                           IF w = 1 THEN 0 ELSE IF w = 2 THEN 59 ELSE 56) EXCEPT !.us = ms * 1000],
         0, "Z", FALSE, "hms", <<>>)
ZoneOffsets == {z \in -1439..1439 : z % ZoneStep = 0 \/ z % 60 = 0}
VariantsOf(z) == {"hh:mm", "hhmm"} \cup (IF z % 60 = 0 THEN {"hh"} ELSE {}) \cup (IF z = 0 THEN {"Z"} ELSE {})
TForm(z, b) == LET r == (z + 1440 + b) % 3 IN IF r = 0 THEN "hm" ELSE IF r = 1 THEN "hms" ELSE "hmsf"
ZoneParams == {q \in {"zone"} \X ZoneOffsets \X (1..NBases) \X {"hh:mm", "hhmm", "hh", "Z"} \X BOOLEAN : q[4] \in VariantsOf(q[2])}
ZoneCase(q) ==
    LET z == q[2] b == q[3] tf == TForm(z, b) IN
    Case("zone", IF tf = "hm" THEN [Bases[b] EXCEPT !.sod = (@ \div 60) * 60] ELSE Bases[b],
         z, q[4], q[5], tf, IF tf = "hmsf" THEN <<50, 53>> ELSE <<>>)
FracParams == {"frac"} \X (1..2) \X {0, 90, -345} \X BOOLEAN \X (1..Len(Digits9)) \X (1..9)
FracCase(q) == Case("frac", Bases[q[2]], q[3], IF q[3] = 0 THEN "Z" ELSE "hh:mm", q[4], "hmsf", SubSeq(Digits9[q[5]], 1, q[6]))
\* "Y-M-D h:m:s", "D/M/Y?h:m", "Y?M?D", "h:m:s D.M.Y", "Y-M-D?????????Z", "??Y-M-DTh:m", "YMD" (one digit run: not vouched)
PatFormats == << <<89,45,77,45,68,32,104,58,109,58,115>>, <<68,47,77,47,89,63,104,58,109>>, <<89,63,77,63,68>>,
                 <<104,58,109,58,115,32,68,46,77,46,89>>, <<89,45,77,45,68,63,63,63,63,63,63,63,63,63,90>>,
                 <<63,63,89,45,77,45,68,84,104,58,109>>, <<89,77,68>> >>
PatParams == {"pat"} \X (1..Len(PatFormats)) \X (1..NBases) \X BOOLEAN \X (0..30)
HasField(f, k) == \E j \in 1..Len(f) : FieldIndex(f[j]) = k
PatFields(f, i) == LET g == Fields(i) IN
                   <<g.y, g.m, g.d, IF HasField(f, 4) THEN g.h ELSE 0, IF HasField(f, 5) THEN g.mi ELSE 0, IF HasField(f, 6) THEN g.s ELSE 0>>
PatFullText(q) == PatText(PatFormats[q[2]], PatFields(PatFormats[q[2]], Bases[q[3]]), q[4], 120)
PatCase(q) ==
    LET f == PatFormats[q[2]] full == PatFullText(q)
        t == IF q[5] >= Len(full) THEN full ELSE SubSeq(full, 1, q[5]) IN
    [k |-> "pat", f |-> f, t |-> t, whole |-> q[5] >= Len(full), fld |-> PatFields(f, Bases[q[3]])]

CaseOf(q) == IF q[1] = "fmt" THEN FmtCase(q) ELSE IF q[1] = "zone" THEN ZoneCase(q) ELSE IF q[1] = "pat" THEN PatCase(q) ELSE FracCase(q)

\* the UTC instant a zone/frac case denotes: the base instant plus its fraction
Denoted(cc) == IF cc.digits = <<>> THEN cc.i ELSE [cc.i EXCEPT !.us = FracMicros(cc.digits, 1, Len(cc.digits))]
\* the text of a zone/frac case: local date-time in zone z, then the designator
TextOf(cc) ==
    LET f == Fields(AddSeconds(cc.i, 60 * cc.z))
        full == IF cc.basic THEN BasicText(f) ELSE ExtText(f)
        hm == SubSeq(full, 1, Len(full) - (IF cc.basic THEN 2 ELSE 3))
    IN (IF cc.tform = "hm" THEN hm ELSE full)
       \o (IF cc.tform = "hmsf" THEN <<cDot>> \o cc.digits ELSE <<>>)
       \o (IF cc.variant = "Z" THEN <<cZ>> ELSE ZoneText(cc.z, cc.variant))

\* (the invariants are evaluated on the published case, i.e. by TLC's workers and not while the initial states are enumerated)
Init == phase = "gen" /\ (c \in FmtParams \/ c \in ZoneParams \/ c \in FracParams \/ c \in PatParams)
Gen == phase = "gen" /\ phase' = "done" /\ c' = CaseOf(c)
Spec == Init /\ [][Gen]_vars

-------------------------------------------------------------------------------
ReadsOwnText == (phase = "done" /\ c.k = "fmt") => \A fmt \in Formats :
                    LET r == Read(FormatUTC(fmt, c.i)) IN r.ok /\ r.i = ReadBackOf(fmt, c.i)
ZoneShift == (phase = "done" /\ c.k \in {"zone", "frac"}) => LET r == Read(TextOf(c)) IN r.ok /\ r.i = Denoted(c)
PatternReads == (phase = "done" /\ c.k = "pat" /\ c.whole /\ c.f # <<89, 77, 68>>) =>
                    LET r == ReadPattern(c.t, c.f) IN
                    r.ok /\ r.i = InstantOf(c.fld[1], c.fld[2], c.fld[3], c.fld[4], c.fld[5], c.fld[6])
\* a text without designator, with a bad field or with a wrong week day is not a reading the spec vouches for
Unvouched == /\ ~Read(<<50,48,50,49,45,49,49,45,50,57,84,50,51,58,51,49,58,49,48>>).ok          \* no zone
             /\ ~Read(<<50,48,50,49,45,48,50,45,50,57,84,50,51,58,51,49,58,49,48,90>>).ok       \* 2021-02-29
             /\ ~Read(<<50,48,50,49,45,49,49,45,50,57,84,50,52,58,51,49,58,49,48,90>>).ok       \* hour 24
             /\ ~Read(<<50,48,50,49,45,49,49,45,50,57>>).ok                                      \* date only
             /\ ~Read(<<>>).ok

Seq3(i) == <<i.dn, i.sod, i.us>>
FSeq(f) == <<f.y, f.m, f.d, f.h, f.mi, f.s, f.wd>>
FmtOrder == <<"LONG", "SHORT", "FULL", "HTTP">>
Out(cc) == IF cc.k = "pat"
           THEN LET r == ReadPattern(cc.t, cc.f) IN
                [k |-> "pread", t |-> cc.t, f |-> cc.f, ok |-> IF r.ok THEN 1 ELSE 0, i |-> Seq3(r.i),
                 hz |-> IF PatWildcardPastEnd(cc.t, cc.f) THEN <<"PatternWildcardPastEnd">> ELSE <<>>]
           ELSE IF cc.k = "fmt"
           THEN [k |-> "fmt", i |-> Seq3(cc.i), f |-> FSeq(Fields(cc.i)),
                 texts |-> [j \in 1..4 |-> [fmt |-> FmtOrder[j], t |-> FormatUTC(FmtOrder[j], cc.i),
                                            back |-> Seq3(ReadBackOf(FmtOrder[j], cc.i))]]]
           ELSE [k |-> "read", t |-> TextOf(cc), i |-> Seq3(Denoted(cc))]
Emit == PrintT(ToJson(Out(c')))
===============================================================================
