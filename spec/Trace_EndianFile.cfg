SPECIFICATION TraceSpec
CONSTANTS
 Native = "LITTLE"
 ScalarTypes = {}
 ArrayTypes = {}
 ArrayLens = {}
 NVals = 0
 MaxOps = 0
 PoolTypeSeqs <- PoolsNone
 PoolLens <- LensNone
 PoolSetIdx = {}
 KeepHist = FALSE
 InitFiles <- NoFiles
 RawChunks = {}
 Strings = {}
 ReadTypes = {}
 ByteCounts = {}
 Seeks = {}
INVARIANTS FTypeOK
PROPERTIES LocalWrite ReadBackAtPos ReadOnlyReads ShortReadFlagged ReadModeProtects FOrderOnlyLater LenStringInverse
POSTCONDITION TraceAccepted
CHECK_DEADLOCK FALSE
