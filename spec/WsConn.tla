------------------------------- MODULE WsConn -------------------------------
(* C11 (growth) - the life cycle of ONE WebSocket connection between a client end "c" and a server end "s".

   Each end is either the library ("lib": asl::WebSocket, reached through connect() or through WebSocketServer::serve)
   or a raw scripted RFC 6455 peer ("raw").  Per end a state CONNECTING -> OPEN -> CLOSING -> CLOSED, per direction a FIFO
   of the units written and not yet consumed by the other end:

     msg    a data message (whole; a raw end may split it into fragments with a ping in between, or stop after the first
            fragment: done = FALSE until it sends the rest)
     ping / pong   control frames (a library end answers every ping it reads with a pong that carries the same payload)
     close  a close frame with or without status code / reason

   and eof[S] = "fin" once S has closed its sending direction (asl::WebSocket::close() is a TCP close; a raw end half-closes
   and keeps reading).  Every public call of include/asl/WebSocket.h is an action whose result is fixed by the state:

     send / send(.., FRAME_PING) / send(.., FRAME_CLOSE) / close() / receive() (as "next message or close") / wait(t) /
     hasInput() / closed() / connected() / code()

   Checked by TLC:
     PrefixDelivery   what an end has delivered is a prefix of what the other end sent              (delivered = sent prefix)
     NoLoss           an end that learns of the peer's close (close frame or EOF) has delivered everything the peer sent
                      before it, unless the connection was reset under it
     Monotone         CONNECTING -> OPEN -> CLOSING -> CLOSED, never back; CLOSED is final
     QuietAfterClose  a library end writes nothing after it is CLOSED (a send after close is a clean no-op)
     PongsAnswerPings the pongs an end wrote are the payloads of the pings it consumed, in order
   Every transition is emitted as a script (hist) with the results the real objects must give; harness/c11_conn_run.h executes
   it over loopback TCP (a real WebSocketServer with its own threads, connect(), raw scripted peers) (R).  Recorded concurrent
   runs are validated by Trace_WsHub.tla, which keeps the same per-direction FIFOs and close states per connection (V).

   Left open on purpose (not defined by the library's documentation): the view of an end whose peer closed with unread
   data or that writes to a peer that is gone (set rst: only PrefixDelivery is required of it), what receive() returns
   for a control frame, code() after a close without a status code, whether a library end echoes a close frame.      *)
EXTENDS WsFrame, Json

CONSTANTS KindC, KindS,     \* "lib" / "raw": what runs at the client end and at the server end
          MaxOps,           \* length of a script
          MaxMsgs,          \* data messages per end
          MaxCtl,           \* pings / unsolicited pongs per end
          LibLens,          \* payload lengths a library end sends
          RawLens,          \* payload lengths a raw end sends
          Shapes,           \* how a raw end frames a message: "whole", "two", "three", "pinged", "begin" (first fragment only)
          CloseFrames,      \* close frames generated: subset of {"none", "code", "reason"} (no payload / 1000 / 1001 "bye")
          CtlPls,           \* payloads of pings and pongs: subset of {"empty", "one", "four"}
          Observers         \* which observers are generated: subset of {"wait", "closed", "hasinput"}

VARIABLES st,       \* [Sides -> state]
          how,      \* how an end got CLOSED: "" / "self" (own close()) / "frame" (close frame read) / "eof" (peer's TCP close seen)
          wire,     \* [Sides -> Seq(unit)]: written by that end, not yet consumed by its peer
          eof,      \* [Sides -> {"no", "fin"}]
          rst,      \* ends whose view is no longer defined (peer closed with unread data / wrote to a peer that is gone)
          sent,     \* [Sides -> Seq(message id)]: accepted by send() while the end was open
          dlv,      \* [Sides -> Seq(message id)]: messages OF that end delivered at its peer
          wrote,    \* [Sides -> Seq(frame descriptor)]: what a library end put on the wire (compared with the raw peer's capture)
          pings,    \* [Sides -> Seq(payload)]: pings consumed by that end (history, for PongsAnswerPings)
          cnt,      \* [Sides -> [m, c]]: messages / control frames originated so far
          hist
vars == <<st, how, wire, eof, rst, sent, dlv, wrote, pings, cnt, hist>>

Sides == {"c", "s"}
Peer(S) == IF S = "c" THEN "s" ELSE "c"
Kind(S) == IF S = "c" THEN KindC ELSE KindS
IsLib(S) == Kind(S) = "lib"
IsRaw(S) == Kind(S) = "raw"
Masks(S) == S = "c"                      \* the client masks what it sends
Keys == << <<0, 0, 0, 0>>, <<1, 2, 3, 4>>, <<255, 0, 128, 7>>, <<0, 90, 0, 165>> >>
KeyFor(i) == Keys[(i % 4) + 1]
SeedOf(S, n, len) == ((IF S = "c" THEN 11 ELSE 97) + 29 * n + len) % 256
OpOf(n) == IF n % 2 = 1 THEN OpText ELSE OpBin

Order == [CONNECTING |-> 0, OPEN |-> 1, CLOSING |-> 2, CLOSED |-> 3]

Init == /\ st = [S \in Sides |-> "CONNECTING"] /\ how = [S \in Sides |-> ""]
        /\ wire = [S \in Sides |-> <<>>] /\ eof = [S \in Sides |-> "no"] /\ rst = {}
        /\ sent = [S \in Sides |-> <<>>] /\ dlv = [S \in Sides |-> <<>>] /\ wrote = [S \in Sides |-> <<>>]
        /\ pings = [S \in Sides |-> <<>>]
        /\ cnt = [S \in Sides |-> [m |-> 0, c |-> 0]] /\ hist = <<>>

More == Len(hist) < MaxOps
Log(r) == hist' = Append(hist, r)
Live(S) == st[S] \in {"OPEN", "CLOSING"}
\* the peer's socket is gone altogether (a library end that closed): writing to it resets the connection
Gone(S) == IsLib(S) /\ st[S] = "CLOSED"

--------------------------------------------------------------------------------
(* frame descriptors: header bytes come from WsFrame!Header; a payload is the slice [off, off+len) of Payload(total, seed)
   (expanded by the harness with the formula of WsFrame!PayloadByte) or, for control frames, explicit bytes            *)
Slice(fin, op, S, kn, off, len, seed) ==
    [hdr |-> Header(fin, 0, op, Masks(S), KeyFor(kn), len), off |-> off, len |-> len, seed |-> seed,
     key |-> IF Masks(S) THEN KeyFor(kn) ELSE <<>>, pl |-> <<>>, ctl |-> FALSE]
Ctl(op, S, kn, pl) ==
    [hdr |-> Header(1, 0, op, Masks(S), KeyFor(kn), Len(pl)), off |-> 0, len |-> Len(pl), seed |-> 0,
     key |-> IF Masks(S) THEN KeyFor(kn) ELSE <<>>, pl |-> pl, ctl |-> TRUE]
\* what a library end must have written for a frame, seen unmasked (a client adds the mask bit and a key of its own)
\* opt: the frame may be missing - the pong owed to an EMPTY ping of a (non-masking) server that closes right behind it: the two
\* bytes of such a frame are all there is in front of the EOF, and a reader may take them for the end of the connection
LibWrote(op, len, seed, pl) == [op |-> op, hdr |-> Header(1, 0, op, FALSE, <<>>, len), len |-> len, seed |-> seed, pl |-> pl, opt |-> FALSE]

CtlPlOf == [empty |-> <<>>, one |-> <<201>>, four |-> <<1, 2, 3, 4>>]
ClosePl(code, reason) == IF code = 0 THEN <<>> ELSE <<code \div 256, code % 256>> \o reason
Bye == <<98, 121, 101>>
CloseCode == [none |-> 0, code |-> 1000, reason |-> 1001]

--------------------------------------------------------------------------------
(* opening: the handshake itself is WsFrameHs; here both ends become OPEN together.  Before that a library client is an
   unconnected WebSocket: closed() is true and send() does nothing.                                                  *)
HsH(n, v) == [n |-> n, sep |-> <<32>>, v |-> v]
OpenRequest == HandshakeRequest(<<47, 99, 104, 97, 116>>,                                   \* GET /chat, the RFC's sample key
                   << HsH(N_Host, <<104>>), HsH(N_Upgrade, V_websocket), HsH(N_Conn, V_Upgrade), HsH(N_Key, SampleKey), HsH(N_Version, V_13) >>)
Open == /\ More /\ st["c"] = "CONNECTING"
        /\ st' = [S \in Sides |-> "OPEN"]
        /\ Log([op |-> "open", side |-> "c", req |-> IF IsRaw("c") THEN OpenRequest ELSE <<>>, accept |-> SampleAccept])
        /\ UNCHANGED <<how, wire, eof, rst, sent, dlv, wrote, pings, cnt>>
PreSend == /\ More /\ st["c"] = "CONNECTING" /\ IsLib("c") /\ hist = <<>>
           /\ Log([op |-> "send", side |-> "c", len |-> 3, seed |-> 5, opc |-> OpText, noop |-> TRUE])
           /\ UNCHANGED <<st, how, wire, eof, rst, sent, dlv, wrote, pings, cnt>>
PreClosed == /\ More /\ st["c"] = "CONNECTING" /\ IsLib("c") /\ Len(hist) <= 1
             /\ Log([op |-> "closed", side |-> "c", exp |-> TRUE])
             /\ UNCHANGED <<st, how, wire, eof, rst, sent, dlv, wrote, pings, cnt>>

--------------------------------------------------------------------------------
(* sending *)
IsCtlUnit(u) == u.k \in {"ping", "pong"}
RECURSIVE LeadCtl(_)
LeadCtl(w) == IF w # <<>> /\ IsCtlUnit(Head(w)) THEN 1 + LeadCtl(Tail(w)) ELSE 0
\* the pongs owed for a run of units (RFC 6455 5.5.2/5.5.3: one per ping, same payload - also when it is empty)
RECURSIVE Owed(_)
Owed(w) == IF w = <<>> THEN <<>>
           ELSE LET u == Head(w) IN
                (IF u.k = "ping" THEN <<u.pl>> ELSE IF u.k = "msg" THEN u.inner ELSE <<>>) \o Owed(Tail(w))
WriteRst(S) == IF Gone(Peer(S)) THEN rst \cup {S} ELSE rst

\* library: send(bytes) / send(text).  OPEN: the message goes out.  CLOSED: nothing happens ("fails cleanly").
LibSend(S, len) ==
    /\ More /\ IsLib(S) /\ st[S] \in {"OPEN", "CLOSED"} /\ cnt[S].m < MaxMsgs /\ S \notin rst
    /\ LET n == cnt[S].m + 1  seed == SeedOf(S, n, len)  ok == st[S] = "OPEN" IN
       /\ Log([op |-> "send", side |-> S, len |-> len, seed |-> seed, opc |-> OpOf(n), noop |-> ~ok])
       /\ cnt' = [cnt EXCEPT ![S].m = n]
       /\ IF ok
          THEN /\ wire' = [wire EXCEPT ![S] = Append(@, [k |-> "msg", id |-> n, len |-> len, seed |-> seed, done |-> TRUE, inner |-> <<>>])]
               /\ sent' = [sent EXCEPT ![S] = Append(@, n)]
               /\ wrote' = [wrote EXCEPT ![S] = Append(@, LibWrote(OpOf(n), len, seed, <<>>))]
               /\ rst' = WriteRst(S)
          ELSE UNCHANGED <<wire, sent, wrote, rst>>
    /\ UNCHANGED <<st, how, eof, dlv, pings>>

MidMessage(S) == {i \in 1..Len(wire[S]) : IF wire[S][i].k = "msg" THEN ~wire[S][i].done ELSE FALSE} # {}
\* raw: a message in one of the shapes
RawFrames(S, n, len, seed, shape) ==
    LET k == cnt[S].m + cnt[S].c
        a == IF len > 126 THEN 126 ELSE 1 IN
    IF shape = "whole" \/ len < 2 THEN << Slice(1, OpOf(n), S, k, 0, len, seed) >>
    ELSE IF shape = "two"   THEN << Slice(0, OpOf(n), S, k, 0, a, seed), Slice(1, OpCont, S, k + 1, a, len - a, seed) >>
    ELSE IF shape = "three" THEN << Slice(0, OpOf(n), S, k, 0, a, seed), Slice(0, OpCont, S, k + 1, a, 0, seed), Slice(1, OpCont, S, k + 2, a, len - a, seed) >>
    ELSE IF shape = "pinged" THEN << Slice(0, OpOf(n), S, k, 0, a, seed), Ctl(OpPing, S, k + 1, <<7, 8>>), Slice(1, OpCont, S, k + 2, a, len - a, seed) >>
    ELSE << Slice(0, OpOf(n), S, k, 0, a, seed) >>                                        \* "begin"
RawSend(S, len, shape) ==
    /\ More /\ IsRaw(S) /\ st[S] = "OPEN" /\ cnt[S].m < MaxMsgs
    /\ ~MidMessage(S)
    /\ (shape = "begin" => len >= 2)
    /\ LET n == cnt[S].m + 1  seed == SeedOf(S, n, len)
           fs == RawFrames(S, n, len, seed, shape)
           whole == shape # "begin" \/ len < 2 IN
       /\ Log([op |-> "raw", side |-> S, frames |-> fs])
       /\ cnt' = [cnt EXCEPT ![S].m = n]
       /\ wire' = [wire EXCEPT ![S] = Append(@, [k |-> "msg", id |-> n, len |-> len, seed |-> seed, done |-> whole,
                                                  inner |-> IF shape = "pinged" /\ len >= 2 THEN << <<7, 8>> >> ELSE <<>>])]
       /\ sent' = [sent EXCEPT ![S] = IF whole THEN Append(@, n) ELSE @]
    /\ rst' = WriteRst(S) /\ UNCHANGED <<st, how, eof, dlv, wrote, pings>>
\* ... the rest of a message begun earlier (control frames sent in between belong to the time of that message)
UndoneAt(S) == CHOOSE i \in 1..Len(wire[S]) : wire[S][i].k = "msg" /\ ~wire[S][i].done
RawFinish(S) ==
    /\ More /\ IsRaw(S) /\ st[S] = "OPEN" /\ MidMessage(S)
    /\ LET i == UndoneAt(S)  u == wire[S][i]  a == IF u.len > 126 THEN 126 ELSE 1
           after == SubSeq(wire[S], i + 1, Len(wire[S]))
           pp == SelectSeq(after, LAMBDA x : x.k = "ping") IN
       /\ Log([op |-> "raw", side |-> S, frames |-> << Slice(1, OpCont, S, cnt[S].m + cnt[S].c + 1, a, u.len - a, u.seed) >>])
       /\ wire' = [wire EXCEPT ![S] = Append(SubSeq(wire[S], 1, i - 1), [u EXCEPT !.done = TRUE, !.inner = @ \o [j \in 1..Len(pp) |-> pp[j].pl]])]
       /\ sent' = [sent EXCEPT ![S] = Append(@, u.id)]
    /\ rst' = WriteRst(S) /\ UNCHANGED <<st, how, eof, dlv, wrote, pings, cnt>>

\* pings (library: send(p, n, FRAME_PING), which cannot be empty; raw: also the empty ping) and unsolicited pongs (raw)
SendCtl(S, kind, pl) ==
    /\ More /\ st[S] = "OPEN" /\ cnt[S].c < MaxCtl /\ S \notin rst
    /\ (IsLib(S) => kind = "ping" /\ pl # <<>>)
    /\ LET n == cnt[S].c + 1
           op == IF kind = "ping" THEN OpPing ELSE OpPong IN
       /\ cnt' = [cnt EXCEPT ![S].c = n]
       /\ wire' = [wire EXCEPT ![S] = Append(@, [k |-> kind, pl |-> pl])]
       /\ IF IsLib(S)
          THEN /\ Log([op |-> "ping", side |-> S, pl |-> pl])
               /\ wrote' = [wrote EXCEPT ![S] = Append(@, LibWrote(OpPing, Len(pl), 0, pl))]
               /\ rst' = WriteRst(S)
          ELSE /\ Log([op |-> "raw", side |-> S, frames |-> << Ctl(op, S, cnt[S].m + n, pl) >>,
                       \* RFC 6455 5.5.2: every ping is answered, also an empty one (hazard name for a library that does not)
                       hz |-> IF kind = "ping" /\ pl = <<>> /\ IsLib(Peer(S)) THEN {"EmptyPingNoPong"} ELSE {}])
               /\ rst' = WriteRst(S) /\ UNCHANGED wrote
    /\ UNCHANGED <<st, how, eof, sent, dlv, pings>>

\* a close frame: raw with or without code / reason; library through send(payload, n, FRAME_CLOSE) (code and reason)
SendClose(S, code, reason) ==
    /\ More /\ st[S] = "OPEN" /\ S \notin rst
    /\ (IsLib(S) => code # 0)
    /\ (code = 0 => reason = <<>>)
    /\ st' = [st EXCEPT ![S] = "CLOSING"]
    /\ wire' = [wire EXCEPT ![S] = Append(@, [k |-> "close", code |-> code, reason |-> reason])]
    /\ IF IsLib(S)
       THEN /\ Log([op |-> "sclose", side |-> S, pl |-> ClosePl(code, reason)])
            /\ wrote' = [wrote EXCEPT ![S] = Append(@, LibWrote(OpClose, Len(ClosePl(code, reason)), 0, ClosePl(code, reason)))]
            /\ rst' = WriteRst(S)
       ELSE /\ Log([op |-> "raw", side |-> S, frames |-> << Ctl(OpClose, S, cnt[S].m + cnt[S].c, ClosePl(code, reason)) >>])
            /\ rst' = WriteRst(S) /\ UNCHANGED wrote
    /\ UNCHANGED <<how, eof, sent, dlv, pings, cnt>>

\* close(): the library closes the TCP connection.  With unread input, or with a ping on the way that the peer will answer,
\* TCP resets the connection and the peer can lose what it has not read yet: its view is then undefined (rst).
\* A raw end stops sending and keeps reading.
Close(S) ==
    /\ More /\ Live(S)
    /\ (IsRaw(S) => eof[S] = "no")
    /\ Log([op |-> "close", side |-> S])
    /\ eof' = [eof EXCEPT ![S] = "fin"]
    /\ IF IsLib(S)
       THEN /\ st' = [st EXCEPT ![S] = "CLOSED"] /\ how' = [how EXCEPT ![S] = "self"]
            /\ rst' = IF wire[Peer(S)] # <<>> \/ Owed(wire[S]) # <<>> THEN rst \cup {Peer(S)} ELSE rst
       ELSE /\ st' = [st EXCEPT ![S] = "CLOSING"] /\ UNCHANGED <<how, rst>>
    /\ UNCHANGED <<wire, sent, dlv, wrote, pings, cnt>>

--------------------------------------------------------------------------------
(* receiving (library ends) *)
In(S) == wire[Peer(S)]
EmptyPingIn(w) == \E i \in 1..Len(w) : w[i].k = "ping" /\ w[i].pl = <<>>
PongUnits(ps) == [i \in 1..Len(ps) |-> [k |-> "pong", pl |-> ps[i]]]
PongWrites(ps) == [i \in 1..Len(ps) |-> LibWrote(OpPong, Len(ps[i]), 0, ps[i])]
\* ... where the input w (all of it consumed, written by P) ends with an empty ping and P's EOF follows
LastOptional(ws, w, P, eofFollows) ==
    IF ws # <<>> /\ w # <<>> /\ eofFollows /\ ~Masks(P) /\ w[Len(w)].k = "ping" /\ w[Len(w)].pl = <<>>
    THEN [ws EXCEPT ![Len(ws)].opt = TRUE] ELSE ws

\* receive() until a message or the end of the connection: consumes the control frames in front, then
\*   a complete message               -> delivered
\*   a close frame                    -> CLOSED ("frame"), code() = its status code, the rest of the input is dropped
\*   nothing more and the peer's EOF  -> CLOSED ("eof")
\*   an incomplete message followed by a close frame or EOF -> CLOSED, one partial delivery is tolerated (see WsFrameStreams)
\* i = the first unit that is no control frame; behind a torn message: j = the first unit after it that is no control frame
AfterTorn(w, i) == i + 1 + LeadCtl(SubSeq(w, i + 1, Len(w)))
RecvKind(S) ==
    LET w == In(S) i == LeadCtl(w) + 1 IN
    IF i > Len(w) THEN (IF eof[Peer(S)] = "fin" THEN "eof" ELSE "block")
    ELSE IF w[i].k = "close" THEN "frame"
    ELSE IF w[i].done THEN "msg"
    ELSE LET j == AfterTorn(w, i) IN
         IF j <= Len(w) THEN "partframe"                      \* (only a close frame can follow a torn message)
         ELSE IF eof[Peer(S)] = "fin" THEN "parteof"
         ELSE "block"
Recv(S) ==
    /\ More /\ IsLib(S) /\ Live(S) /\ S \notin rst /\ RecvKind(S) # "block"
    /\ LET w == In(S)  i == LeadCtl(w) + 1  rk == RecvKind(S)
           used == IF rk = "msg" THEN i ELSE Len(w)
           j == IF rk \in {"partframe", "parteof"} THEN AfterTorn(w, i) ELSE 0
           owed == IF rk = "msg" THEN Owed(SubSeq(w, 1, i))
                   ELSE IF rk \in {"partframe", "parteof"} THEN Owed(SubSeq(w, 1, i - 1)) \o Owed(SubSeq(w, i + 1, j - 1))
                   ELSE Owed(SubSeq(w, 1, i - 1))
           cf == IF rk = "frame" THEN w[i] ELSE IF rk = "partframe" THEN w[j] ELSE [k |-> "close", code |-> 0, reason |-> <<>>]
           hz == {} IN
       /\ wire' = [wire EXCEPT ![Peer(S)] = SubSeq(w, used + 1, Len(w)), ![S] = @ \o PongUnits(owed)]
       /\ wrote' = [wrote EXCEPT ![S] = @ \o LastOptional(PongWrites(owed), w, Peer(S), rk \in {"eof", "parteof"})]
       /\ pings' = [pings EXCEPT ![S] = @ \o owed]
       /\ rst' = IF owed # <<>> THEN WriteRst(S) ELSE rst
       /\ IF rk = "msg"
          THEN \* (a receive() that takes the last input in front of the peer's EOF may notice the EOF: the loop's closed() is part of it)
               LET ends == used = Len(w) /\ eof[Peer(S)] = "fin" IN
               /\ dlv' = [dlv EXCEPT ![Peer(S)] = Append(@, w[i].id)]
               /\ Log([op |-> "recv", side |-> S, res |-> "msg", len |-> w[i].len, seed |-> w[i].seed, code |-> 0, reason |-> <<>>, partial |-> FALSE, ends |-> ends, hz |-> hz])
               /\ IF ends THEN /\ st' = [st EXCEPT ![S] = "CLOSED"] /\ how' = [how EXCEPT ![S] = "eof"] /\ eof' = [eof EXCEPT ![S] = "fin"]
                          ELSE UNCHANGED <<st, how, eof>>
          ELSE /\ st' = [st EXCEPT ![S] = "CLOSED"] /\ how' = [how EXCEPT ![S] = IF rk = "frame" \/ rk = "partframe" THEN "frame" ELSE "eof"]
               /\ eof' = [eof EXCEPT ![S] = "fin"]
               /\ Log([op |-> "recv", side |-> S, res |-> "closed", len |-> 0, seed |-> 0, code |-> cf.code, reason |-> cf.reason,
                       partial |-> rk \in {"partframe", "parteof"}, ends |-> TRUE, hz |-> hz])
               /\ UNCHANGED dlv
    /\ UNCHANGED <<sent, cnt>>

\* the documented loop  wait(); if (closed()) break; receive();  on input that consists of control frames only
Poll(S) ==
    /\ More /\ IsLib(S) /\ Live(S) /\ S \notin rst
    /\ In(S) # <<>> /\ LeadCtl(In(S)) = Len(In(S))
    /\ LET w == In(S)  owed == Owed(w)
           hz == {} IN
       /\ wire' = [wire EXCEPT ![Peer(S)] = <<>>, ![S] = @ \o PongUnits(owed)]
       /\ wrote' = [wrote EXCEPT ![S] = @ \o LastOptional(PongWrites(owed), w, Peer(S), eof[Peer(S)] = "fin")]
       /\ pings' = [pings EXCEPT ![S] = @ \o owed]
       /\ rst' = IF owed # <<>> THEN WriteRst(S) ELSE rst
       /\ Log([op |-> "poll", side |-> S, n |-> Len(w), ends |-> eof[Peer(S)] = "fin", hz |-> hz])
       /\ IF eof[Peer(S)] = "fin"
          THEN /\ st' = [st EXCEPT ![S] = "CLOSED"] /\ how' = [how EXCEPT ![S] = "eof"] /\ eof' = [eof EXCEPT ![S] = "fin"]
          ELSE UNCHANGED <<st, how, eof>>
    /\ UNCHANGED <<sent, dlv, cnt>>

\* wait(t): "returns true if something happened before timeout": input is pending or the peer has closed
Pending(S) == In(S) # <<>> \/ eof[Peer(S)] = "fin"
Wait(S) ==
    /\ More /\ "wait" \in Observers /\ IsLib(S) /\ Live(S) /\ S \notin rst
    /\ Log([op |-> "wait", side |-> S, exp |-> Pending(S)])
    /\ UNCHANGED <<st, how, wire, eof, rst, sent, dlv, wrote, pings, cnt>>
\* hasInput(): "checks if there is some input available" (left open when only the EOF is pending)
HasInput(S) ==
    /\ More /\ "hasinput" \in Observers /\ IsLib(S) /\ Live(S) /\ S \notin rst
    /\ (In(S) = <<>> => eof[Peer(S)] = "no")
    /\ Log([op |-> "hasinput", side |-> S, exp |-> In(S) # <<>>])
    /\ UNCHANGED <<st, how, wire, eof, rst, sent, dlv, wrote, pings, cnt>>
\* closed() / connected(): true once this end closed, read a close frame, or the peer closed and nothing is left to read
\* (with input pending the connection still counts as open: nothing sent before the close is lost)
Closed(S) ==
    /\ More /\ "closed" \in Observers /\ IsLib(S) /\ st[S] # "CONNECTING" /\ S \notin rst
    /\ ~(Live(S) /\ In(S) # <<>> /\ eof[Peer(S)] = "fin" /\ RecvKind(S) \in {"parteof", "block"})   \* (only a torn message left: open)
    /\ LET seen == Live(S) /\ In(S) = <<>> /\ eof[Peer(S)] = "fin" IN
       /\ Log([op |-> "closed", side |-> S, exp |-> (st[S] = "CLOSED" \/ seen)])
       /\ IF seen THEN /\ st' = [st EXCEPT ![S] = "CLOSED"] /\ how' = [how EXCEPT ![S] = "eof"] /\ eof' = [eof EXCEPT ![S] = "fin"]
                  ELSE UNCHANGED <<st, how, eof>>
    /\ UNCHANGED <<wire, rst, sent, dlv, wrote, pings, cnt>>

Next == \/ Open \/ PreSend \/ PreClosed
        \/ \E S \in Sides :
             \/ \E n \in LibLens : LibSend(S, n)
             \/ \E n \in RawLens, sh \in Shapes : RawSend(S, n, sh)
             \/ RawFinish(S)
             \/ \E kd \in {"ping", "pong"}, pn \in CtlPls : SendCtl(S, kd, CtlPlOf[pn])
             \/ \E cf \in CloseFrames : SendClose(S, CloseCode[cf], IF cf = "reason" THEN Bye ELSE <<>>)
             \/ Close(S)
             \/ Recv(S) \/ Poll(S) \/ Wait(S) \/ HasInput(S) \/ Closed(S)
Spec == Init /\ [][Next]_vars

--------------------------------------------------------------------------------
IsPrefixOf(a, b) == Len(a) <= Len(b) /\ \A i \in 1..Len(a) : a[i] = b[i]
PrefixDelivery == \A S \in Sides : IsPrefixOf(dlv[S], sent[S])
\* S learnt of the end from its peer P: everything P sent has been delivered (a torn last message of a raw peer is not "sent")
NoLoss == \A S \in Sides : (st[S] = "CLOSED" /\ how[S] \in {"frame", "eof"} /\ S \notin rst) => dlv[Peer(S)] = sent[Peer(S)]
Monotone == [][\A S \in Sides : Order[st'[S]] >= Order[st[S]]]_vars
QuietAfterClose == [][\A S \in Sides : st[S] = "CLOSED" => wrote'[S] = wrote[S]]_vars
PongsOf(S) == SelectSeq(wrote[S], LAMBDA f : f.op = OpPong)
PongsAnswerPings == \A S \in Sides : IsLib(S) => [i \in 1..Len(PongsOf(S)) |-> PongsOf(S)[i].pl] = pings[S]
TypeOK == /\ \A S \in Sides : st[S] \in DOMAIN Order /\ eof[S] \in {"no", "fin"} /\ Len(sent[S]) <= MaxMsgs
          /\ \A S \in Sides : (st[S] = "CLOSED" => eof[S] = "fin") /\ (how[S] # "" <=> st[S] = "CLOSED")
          /\ (st["c"] = "CONNECTING" <=> st["s"] = "CONNECTING")

--------------------------------------------------------------------------------
(* the epilogue the replayer runs after a script: raw ends half-close; every library end that is still open runs the
   documented receive loop to the end.  left[S] = the complete messages still owed to S in order, exact = nothing may be
   missing (no reset, and the peer ends with a TCP close, not in the middle of a message)                           *)
RECURSIVE MsgsOf(_)
MsgsOf(w) == IF w = <<>> THEN <<>> ELSE
             (IF Head(w).k = "close" THEN <<>>
              ELSE (IF Head(w).k = "msg" /\ Head(w).done THEN <<[len |-> Head(w).len, seed |-> Head(w).seed]>> ELSE <<>>) \o MsgsOf(Tail(w)))
RECURSIVE CloseReason(_)
CloseReason(w) == IF w = <<>> THEN <<>> ELSE IF Head(w).k = "close" THEN Head(w).reason ELSE CloseReason(Tail(w))
RECURSIVE UpToClose(_)
UpToClose(w) == IF w = <<>> THEN <<>> ELSE IF Head(w).k = "close" THEN <<>> ELSE <<Head(w)>> \o UpToClose(Tail(w))
RECURSIVE TrailCtl(_)
TrailCtl(w) == IF w = <<>> THEN 0 ELSE IF IsCtlUnit(w[Len(w)]) THEN 1 + TrailCtl(SubSeq(w, 1, Len(w) - 1)) ELSE 0
Torn(w) == \E i \in 1..Len(w) : w[i].k = "msg" /\ ~w[i].done
HzOf(h) == UNION {IF "hz" \in DOMAIN h[i] THEN h[i].hz ELSE {} : i \in 1..Len(h)}
EmitRec(h, w, s, e, r, wr) ==
    [k |-> "conn", kc |-> KindC, ks |-> KindS, hist |-> h,
     left |-> [S \in Sides |-> MsgsOf(w[Peer(S)])],
     torn |-> [S \in Sides |-> Torn(w[Peer(S)])],
     pend |-> [S \in Sides |-> Len(w[Peer(S)])],
     creason |-> [S \in Sides |-> CloseReason(w[Peer(S)])],
     cpend |-> [S \in Sides |-> \E i \in 1..Len(w[Peer(S)]) : w[Peer(S)][i].k = "close"],
     trail |-> [S \in Sides |-> TrailCtl(w[Peer(S)])],
     \* the pongs a library end still owes when it reads on to the end
     owed |-> [S \in Sides |-> IF s[S] \in {"OPEN", "CLOSING"}
                                THEN LastOptional(PongWrites(Owed(UpToClose(w[Peer(S)]))), w[Peer(S)], Peer(S), IsRaw(Peer(S))) ELSE <<>>],
     st |-> s, rst |-> [S \in Sides |-> S \in r], wrote |-> wr,
     hz |-> HzOf(h)]
Emit == PrintT(ToJson(EmitRec(hist', wire', st', eof', rst', wrote')))
Strip(u) == IF u.k = "msg" THEN [k |-> "msg", len |-> u.len, done |-> u.done, inner |-> u.inner] ELSE u
View == <<st, how, [S \in Sides |-> [i \in 1..Len(wire[S]) |-> Strip(wire[S][i])]], eof, rst, cnt, Len(hist),
          IF hist = <<>> THEN "" ELSE hist[Len(hist)].op>>
================================================================================
