---------------------------- MODULE Trace_FileModel ----------------------------
(* V binding for C17: validates executions recorded from the real File / TextFile / Directory (harness/c17_record.cpp)
   against the actions of FileModel.  One ndjson line per public call with its arguments and results; byte strings
   are run-length coded (<<b1,n1,b2,n2,...>>) so that contents around the 65536-byte copy block and lines of
   thousands of characters stay small in the log; TLC expands them and computes every expected result (content,
   firstBytes, read, size, Lines, TextOf) itself - also for the "hq" events, queries made through the long-lived object
   between its own writes, closes and reopens.  "disk" events carry what plain POSIX read() found in the file.
   The trace is accepted iff every line is the corresponding FileModel step with exactly the logged results.      *)
EXTENDS FileModel, IOUtils

T == ndJsonDeserialize(IOEnv.TRACE)
VARIABLE l
tvars == <<vars, l>>

TInit == Init /\ l = 1

LastRec == hist'[Len(hist')]
UnrleAll(zs) == [i \in 1..Len(zs) |-> Unrle(zs[i])]

TStep ==
  /\ l <= Len(T)
  /\ l' = l + 1
  /\ LET e == T[l] IN
     \/ /\ e.op = "reset"
        /\ fs' = [x \in Paths |-> NoFile]
        /\ hmode' = "closed" /\ hpos' = 0 /\ heof' = FALSE /\ dirty' = FALSE
        /\ hknown' = -1 /\ hlast' = -1
        /\ hist' = <<>> /\ hz' = {}
     \/ /\ e.op = "put"    /\ e.x \in {"p", "q"} /\ Put(e.x, Unrle(e.d), e.api)
     \/ /\ e.op = "append" /\ e.x \in {"p", "q"} /\ AppendTo(e.x, Unrle(e.d))
     \/ /\ e.op = "stream" /\ e.x \in {"p", "q"} /\ StreamTo(e.x, Unrle(e.d), Unrle(e.d2))
     \/ /\ e.op = "remove" /\ e.x \in Paths /\ RemoveFile(e.x)
     \/ /\ e.op = "copy"   /\ Copy(e.x, e.y) /\ e.r = TRUE
     \/ /\ e.op = "move"   /\ Move(e.x, e.y) /\ e.r = TRUE
     \/ /\ e.op = "open"   /\ HOpen(e.m) /\ LastRec.r = e.r
     \/ /\ e.op = "hwrite" /\ HWrite(Unrle(e.d), e.api)
     \/ /\ e.op = "hput"   /\ HPutClosed(Unrle(e.d), e.api)
     \/ /\ e.op = "flush"  /\ HFlush
     \/ /\ e.op = "close"  /\ HClose
     \/ /\ e.op = "close"  /\ HCloseClosed
     \* queries through the long-lived object itself (size / exists / isFile / content / firstBytes / text / lines / readLine loop)
     \/ /\ e.op = "hq" /\ e.k \in {"size", "exists", "isfile"} /\ HQuery(e.k, 0) /\ LastRec.r = <<e.r>>
     \/ /\ e.op = "hq" /\ e.k \in {"content", "first", "text"} /\ HQuery(e.k, e.n) /\ LastRec.r = Unrle(e.r)
     \/ /\ e.op = "hq" /\ e.k \in {"lines", "loop"} /\ HQuery(e.k, 0) /\ LastRec.ls = UnrleAll(e.r)
     \/ /\ e.op = "hread"  /\ HRead(e.n) /\ LastRec.r = Unrle(e.r)
     \/ /\ e.op = "hlines" /\ HReadLines(e.api) /\ LastRec.r = UnrleAll(e.r)
     \/ /\ e.op \in {"content", "first", "text"} /\ e.x \in Paths /\ Observe(e.x, e.op, e.n) /\ LastRec.r = Unrle(e.r)
     \/ /\ e.op = "size" /\ e.x \in Paths /\ Observe(e.x, "size", 0) /\ LastRec.r = <<e.r>>
     \/ /\ e.op \in {"lines", "readlines"} /\ e.x \in Paths /\ Observe(e.x, e.op, 0) /\ LastRec.r = UnrleAll(e.r)
     \* what POSIX read() finds: the model's bytes when they are settled, a prefix of them while h holds unflushed data
     \/ /\ e.op = "disk" /\ e.x \in Paths /\ UNCHANGED vars
        /\ e.ex = Exists(e.x)
        /\ IF Settled(e.x) THEN Unrle(e.r) = Content(e.x)
           ELSE LET b == Unrle(e.r) IN Len(b) <= Len(Content(e.x)) /\ b = SubSeq(Content(e.x), 1, Len(b))

TraceSpec == TInit /\ [][TStep]_tvars
TraceAccepted == TLCGet("stats").diameter - 1 = Len(T)
===============================================================================
